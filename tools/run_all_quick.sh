#!/bin/sh
# usage: tools/run_all_quick.sh [lanes]    every enabled check, quick tier, on /repo itself; summary in /var/tmp/allquick.txt
cd /verif
L1="C08 C04 C11 C14 C15 C19 C01"
L2="C02 C09 C16 C18 C20"
L3="C03 C07 C17 C10 C12 C13 C05 C06"
: > /var/tmp/allquick.txt
run() { for id in "$@"; do ./check $id --tier quick > /var/tmp/q-$id.log 2>&1; echo "$id rc=$? $(tail -1 /var/tmp/q-$id.log | cut -c1-90)" >> /var/tmp/allquick.txt; done; }
run $L1 & run $L2 & run $L3 & wait
sort /var/tmp/allquick.txt
