#!/bin/sh
# usage: tools/coqchk_all.sh [jobs]     Re-checks every compiled property file (and everything it depends on) with
# Coq's independent checker (coqchk -o) and records the axioms each relies on in evidence/coqchk.txt.
# Takes a minute or more and up to ~5 GB per file; run after ./setup.sh.  Not part of any registered check.
J=${1:-4}
OUT=/verif/evidence/coqchk.txt
T=$(mktemp -d /var/tmp/coqchk.XXXXXX)
cd /verif/coq || exit 2
ls Props/Properties_*.v | sed 's/.*\/\(.*\)\.v/\1/' | xargs -P "$J" -I{} sh -c '
  if [ -f Props/{}.vo ]; then
    timeout 3600 coqchk -o -silent -Q . AV AV.Props.{} > '"$T"'/{}.txt 2>&1; echo "exit=$?" >> '"$T"'/{}.txt
  else echo "not compiled" > '"$T"'/{}.txt; fi'
: > "$OUT"
for f in $(ls "$T" | sort); do
  echo "== AV.Props.${f%.txt}" >> "$OUT"
  sed -n "/CONTEXT SUMMARY/,\$p" "$T/$f" | grep -v "^$" >> "$OUT"
  grep -q "CONTEXT SUMMARY" "$T/$f" || tail -5 "$T/$f" >> "$OUT"
done
rm -rf "$T"
echo "files: $(grep -c '^== ' $OUT)  axiom-free: $(grep -c 'Axioms: <none>' $OUT)"
