#!/bin/sh
# usage: tools/coqchk_all.sh [out-file]      Re-checks every compiled property file (and everything it depends on)
# with Coq's independent checker and records the axioms each relies on.  Takes several minutes; run after ./setup.sh.
OUT=${1:-/verif/evidence/coqchk.txt}
cd /verif/coq || exit 2
: > "$OUT.tmp"
rc=0
for f in Props/Properties_*.v; do
  m=$(basename "$f" .v)
  [ -f "Props/$m.vo" ] || { echo "$m: not compiled" >> "$OUT.tmp"; rc=1; continue; }
  echo "== AV.Props.$m" >> "$OUT.tmp"
  timeout 1800 coqchk -o -silent -Q . AV "AV.Props.$m" 2>&1 | grep -v "^$" | sed -n '/CONTEXT SUMMARY/,$p' >> "$OUT.tmp" || rc=1
done
mv "$OUT.tmp" "$OUT"
grep -c "Axioms: <none>" "$OUT"
exit $rc
