"""C02, float operands for the peephole pass.

of_peep.c selects foamBValOpInfoTableFast when floats may be folded (-Qffold, on from -Q2).  In that
table the SFlo/DFlo builtins map to the GENERIC operations (OpPlus, OpMinus, OpTimes, OpDivide, OpEQ ...)
whose identities (x - x = 0, x / x = 1, x * 0 = 0, 0 / x = 0, x = x, not (a <= b) = b < a ...) do not
hold for NaN, infinities and signed zeros.  The Coq model gives float builtins no meaning (they are outside
the specified class of C04), so C02_peep_preserves says nothing about these rows; this family decides them
by running: one function per rule shape, applied to run-time operands NaN, +inf, -inf, +0.0, -0.0, 1.0,
-2.5, each result classified with comparisons only (no float formatting); operands are selected by a loop variable.  The catalogue is fixed, so a
difference is keyed by the shape: `peep:fast-float-table:<shape>`.
"""

SIG = {"DFloPlus": "(DFlo,DFlo)->DFlo", "DFloMinus": "(DFlo,DFlo)->DFlo", "DFloTimes": "(DFlo,DFlo)->DFlo",
       "DFloDivide": "(DFlo,DFlo)->DFlo", "DFloNegate": "DFlo->DFlo", "DFloEQ": "(DFlo,DFlo)->Bool", "DFloNE": "(DFlo,DFlo)->Bool",
       "DFloLT": "(DFlo,DFlo)->Bool", "DFloLE": "(DFlo,DFlo)->Bool", "DFloIsZero": "DFlo->Bool", "DFloIsNeg": "DFlo->Bool",
       "DFloIsPos": "DFlo->Bool", "DFlo0": "()->DFlo", "DFlo1": "()->DFlo", "BoolNot": "Bool->Bool"}

# (key name, result kind, body over the parameters x, y; constants are the nullary builtins DFlo0() / DFlo1(), data nodes once the folder ran)
SHAPES = [
    ("x-x", "F", "DFloMinus(x, x)"),
    ("x/x", "F", "DFloDivide(x, x)"),
    ("x*0", "F", "DFloTimes(x, DFlo0())"),
    ("0*x", "F", "DFloTimes(DFlo0(), x)"),
    ("0/x", "F", "DFloDivide(DFlo0(), x)"),
    ("x+0", "F", "DFloPlus(x, DFlo0())"),
    ("0+x", "F", "DFloPlus(DFlo0(), x)"),
    ("x-0", "F", "DFloMinus(x, DFlo0())"),
    ("0-x", "F", "DFloMinus(DFlo0(), x)"),
    ("x*1", "F", "DFloTimes(x, DFlo1())"),
    ("1*x", "F", "DFloTimes(DFlo1(), x)"),
    ("x/1", "F", "DFloDivide(x, DFlo1())"),
    ("-(-x)", "F", "DFloNegate(DFloNegate(x))"),
    ("(-x)+y", "F", "DFloPlus(DFloNegate(x), y)"),
    ("x+(-y)", "F", "DFloPlus(x, DFloNegate(y))"),
    ("x-(-y)", "F", "DFloMinus(x, DFloNegate(y))"),
    ("x=x", "B", "DFloEQ(x, x)"),
    ("x~=x", "B", "DFloNE(x, x)"),
    ("x<x", "B", "DFloLT(x, x)"),
    ("x<=x", "B", "DFloLE(x, x)"),
    ("x=0", "B", "DFloEQ(x, DFlo0())"),
    ("0=x", "B", "DFloEQ(DFlo0(), x)"),
    ("x~=0", "B", "DFloNE(x, DFlo0())"),
    ("x<0", "B", "DFloLT(x, DFlo0())"),
    ("0<x", "B", "DFloLT(DFlo0(), x)"),
    ("x<=0", "B", "DFloLE(x, DFlo0())"),
    ("0<=x", "B", "DFloLE(DFlo0(), x)"),
    ("not(x=y)", "B", "BoolNot(DFloEQ(x, y))"),
    ("not(x~=y)", "B", "BoolNot(DFloNE(x, y))"),
    ("not(x<y)", "B", "BoolNot(DFloLT(x, y))"),
    ("not(x<=y)", "B", "BoolNot(DFloLE(x, y))"),
    ("iszero(x-x)", "B", "DFloIsZero(DFloMinus(x, x))"),
]

VALUES = [("nan", "DFloDivide(DFlo0(), DFlo0())"), ("inf", "DFloDivide(DFlo1(), DFlo0())"),
          ("-inf", "DFloNegate(DFloDivide(DFlo1(), DFlo0()))"), ("0", "DFlo0()"), ("-0", "DFloNegate(DFlo0())"),
          ("1", "DFlo1()"), ("-2.5", "DFloNegate(DFloDivide(DFloPlus(DFloPlus(DFlo1(), DFlo1()), DFloPlus(DFlo1(), DFloPlus(DFlo1(), DFlo1()))), DFloPlus(DFlo1(), DFlo1())))")]
PAIRS = [(a, b) for a in range(len(VALUES)) for b in (0, 1, 3, 4, 5)]


def program():
    """(source, [shape names]).  Output: one line per call: `g<k> <x name> <y name> <classification>`."""
    L = ['#include "aldor"', '#include "aldorio"', "import from Machine, MachineInteger, Boolean;", "import {"]
    L += ["  %s: %s;" % (n, SIG[n]) for n in sorted(SIG)]
    L += ["} from Builtin;",
          "b2s(b: Bool): String == if (b pretend Boolean) then \"T\" else \"F\";",
          "-- a float by comparisons the fast table leaves alone (no l = r, no <=): zero, negative, positive, sign of a zero;",
          "-- NaN is the value that is none of the first three",
          "cls(r: DFlo): String == b2s(DFloEQ(r, DFlo0())) + b2s(DFloLT(r, DFlo0())) + b2s(DFloLT(DFlo0(), r))"
          " + b2s(DFloLT(DFloDivide(DFlo1(), r), DFlo0()));",
          "import from String;"]
    for k, (name, kind, body) in enumerate(SHAPES):
        L.append("g%d(x: DFlo, y: DFlo): %s == { %s }"
                 % (k, "DFlo" if kind == "F" else "Bool", body))
    # run-time operands: selected by a loop variable
    L.append("val(i: MachineInteger): DFlo == {")
    for i, (n, e) in enumerate(VALUES[:-1]):
        L.append("    i = (%d@MachineInteger) => %s;" % (i, e))
    L.append("    %s" % VALUES[-1][1])
    L.append("}")
    L.append("for a: MachineInteger in (0@MachineInteger)..(%d@MachineInteger) repeat for b: MachineInteger in (0@MachineInteger)..(%d@MachineInteger) repeat {"
             % (len(VALUES) - 1, len(VALUES) - 1))
    for k, (name, kind, body) in enumerate(SHAPES):
        call = "g%d(val a, val b)" % k
        res = "cls(%s)" % call if kind == "F" else "b2s(%s)" % call
        L.append('    stdout << "g%d " << a << " " << b << " " << %s << newline;' % (k, res))
    L.append("}")
    return "\n".join(L) + "\n", [s[0] for s in SHAPES]
