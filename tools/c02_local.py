"""C02, tie of the local-pass models (coq/Opt/Fold.v, Peep.v) with the real passes.

The real pass is isolated by the option sequence (-Q0 -Qcfold, -Q0 -Qpeep, -Q0 -Qcfold -Qpeep ...),
the unit before / after is taken from -Ffm (FOAM as s-expressions) at -Q0 and at that setting, and
the model passes (extracted, tools driver `cfold` / `peep`) are applied to the -Q0 unit in the order
in which the option model's `trace` says optimizeFoam runs them.  Every statement of every generated
function must then be equal to the real result.

Programs are generated at the builtin level (`import { SIntPlus: ... } from Builtin`): expression
trees over the specified builtins of property C04 on SInt / Bool / Char, parameters, constants
(nullary builtins: they become data nodes only through the folder) and calls of functions that print
(side effects).  The same programs are also RUN at each setting: a change of the printed text is a
violation of the property itself.
"""
import collections, hashlib, os, re, subprocess
from vlib import common as C


# ------------------------------------------------------------------ s-expressions (.fm)

def parse_sexpr(text):
    toks = re.findall(r'"(?:[^"\\]|\\.)*"|[()]|[^\s()]+', text)
    pos = 0

    def rd():
        nonlocal pos
        t = toks[pos]
        pos += 1
        if t == "(":
            l = []
            while toks[pos] != ")":
                l.append(rd())
            pos += 1
            return l
        return t
    return rd()


def show(t):
    return t if isinstance(t, str) else "(" + " ".join(show(x) for x in t) + ")"


# ------------------------------------------------------------------ program generator

SIG = {
    "SIntPlus": "(SInt,SInt)->SInt", "SIntMinus": "(SInt,SInt)->SInt", "SIntTimes": "(SInt,SInt)->SInt",
    "SIntNegate": "SInt->SInt", "SIntNext": "SInt->SInt", "SIntPrev": "SInt->SInt",
    "SIntEQ": "(SInt,SInt)->Bool", "SIntNE": "(SInt,SInt)->Bool", "SIntLT": "(SInt,SInt)->Bool", "SIntLE": "(SInt,SInt)->Bool",
    "SIntIsZero": "SInt->Bool", "SIntIsPos": "SInt->Bool", "SIntIsNeg": "SInt->Bool",
    "SIntQuo": "(SInt,SInt)->SInt", "SIntRem": "(SInt,SInt)->SInt", "SIntMod": "(SInt,SInt)->SInt",
    "SIntShiftUp": "(SInt,SInt)->SInt", "SIntShiftDn": "(SInt,SInt)->SInt",
    "SIntAnd": "(SInt,SInt)->SInt", "SIntOr": "(SInt,SInt)->SInt", "SIntNot": "SInt->SInt",
    "SInt0": "()->SInt", "SInt1": "()->SInt", "SIntMax": "()->SInt", "SIntMin": "()->SInt",
    "BoolTrue": "()->Bool", "BoolFalse": "()->Bool", "BoolNot": "Bool->Bool", "BoolAnd": "(Bool,Bool)->Bool",
    "BoolOr": "(Bool,Bool)->Bool", "BoolEQ": "(Bool,Bool)->Bool", "BoolNE": "(Bool,Bool)->Bool",
    "CharEQ": "(Char,Char)->Bool", "CharNE": "(Char,Char)->Bool", "CharLT": "(Char,Char)->Bool", "CharLE": "(Char,Char)->Bool",
    "CharSpace": "()->Char", "CharNewline": "()->Char", "CharLower": "Char->Char", "CharUpper": "Char->Char",
    "CharOrd": "Char->SInt",
}


class Gen:
    def __init__(self, rng):
        self.r = rng
        self.used = set()
        self.slocals = []        # SInt locals in scope
        self.blocals = []        # Bool locals in scope

    def call(self, op, *args):
        self.used.add(op)
        return "%s(%s)" % (op, ", ".join(args))

    def const(self):
        c = self.r.choice(["0", "1", "1", "0", "2", "4", "8", "-1", "3", "max", "min", "big"])
        if c == "0":
            return self.call("SInt0")
        if c == "1":
            return self.call("SInt1")
        if c == "max":
            return self.call("SIntMax")
        if c == "min":
            return self.call("SIntMin")
        if c == "-1":
            return self.call("SIntNegate", self.call("SInt1"))
        if c == "2":
            return self.call("SIntPlus", self.call("SInt1"), self.call("SInt1"))
        if c == "3":
            return self.call("SIntNext", self.call("SIntPlus", self.call("SInt1"), self.call("SInt1")))
        two = self.call("SIntPlus", self.call("SInt1"), self.call("SInt1"))
        if c == "4":
            return self.call("SIntTimes", two, two)
        if c == "8":
            return self.call("SIntTimes", two, self.call("SIntTimes", two, two))
        return self.call("SIntTimes", self.call("SIntMax"), two)

    def aimed_sint(self, d):
        """shapes at which a rule of of_peep.c fires (unit / zero / power of two / negated operand /
        equal operands / inverse operations), with and without side effects in the operands"""
        a, b = self.sint(d - 1), self.sint(d - 1)
        if self.r.random() < 0.4:
            a = "imp(%s)" % a
        if self.r.random() < 0.4:
            b = "imp(%s)" % b
        k = self.r.randrange(14)
        if k == 0:
            return self.call("SIntPlus", self.call("SIntNegate", a), b)
        if k == 1:
            return self.call("SIntPlus", a, self.call("SIntNegate", b))
        if k == 2:
            return self.call("SIntMinus", a, self.call("SIntNegate", b))
        if k == 3:
            return self.call(self.r.choice(["SIntPlus", "SIntMinus", "SIntTimes"]), self.const(), b)
        if k == 4:
            return self.call(self.r.choice(["SIntPlus", "SIntMinus", "SIntTimes"]), a, self.const())
        if k == 5:
            return self.call(self.r.choice(["SIntMinus", "SIntPlus", "SIntTimes"]), a, a)
        if k == 6:
            return self.call("SIntNegate", self.call("SIntNegate", a))
        if k == 7:
            return self.call("SIntNext", self.call("SIntPrev", a))
        if k == 8:
            return self.call("SIntPrev", self.call("SIntNext", a))
        if k == 9:
            return self.call("SIntPlus", self.call("SIntNegate", self.call("SInt1")), b)
        if k == 10:
            return self.call("SIntTimes", self.call("SIntNegate", self.call("SInt1")), b)
        if k == 11:
            return self.call("SIntTimes", a, self.call("SIntTimes", self.const(), self.const()))
        if k == 12:
            return self.call("SIntMinus", self.call("SInt0"), b)
        return self.call("SIntPlus", a, self.call("SIntNegate", self.call("SInt1")))

    def aimed_bool(self, d):
        a, b = self.sint(d - 1), self.sint(d - 1)
        p, q = self.boolean(d - 1), self.boolean(d - 1)
        if self.r.random() < 0.4:
            a = "imp(%s)" % a
        if self.r.random() < 0.4:
            b = "imp(%s)" % b
        if self.r.random() < 0.4:
            p = "impb(%s)" % p
        if self.r.random() < 0.4:
            q = "impb(%s)" % q
        k = self.r.randrange(12)
        if k == 0:
            return self.call("BoolNot", self.call(self.r.choice(["SIntLE", "SIntEQ", "SIntNE", "SIntLT"]), a, b))
        if k == 1:
            return self.call("BoolNot", self.call("BoolNot", p))
        if k == 2:
            return self.call(self.r.choice(["BoolAnd", "BoolOr"]), self.r.choice([self.call("BoolTrue"), self.call("BoolFalse")]), q)
        if k == 3:
            return self.call(self.r.choice(["BoolAnd", "BoolOr"]), p, self.r.choice([self.call("BoolTrue"), self.call("BoolFalse")]))
        if k == 4:
            return self.call(self.r.choice(["SIntEQ", "SIntNE", "SIntLT", "SIntLE"]), self.call("SInt0"), b)
        if k == 5:
            return self.call(self.r.choice(["SIntEQ", "SIntNE", "SIntLT", "SIntLE"]), a, self.call("SInt0"))
        if k == 6:
            return self.call(self.r.choice(["SIntEQ", "SIntNE", "SIntLT", "SIntLE"]), a, a)
        if k == 7:
            return self.call(self.r.choice(["BoolEQ", "BoolNE"]), p, p)
        if k == 8:
            return self.call("BoolNot", self.call(self.r.choice(["CharLE", "CharEQ", "CharNE"]), self.char(d - 1), self.char(d - 1)))
        if k == 9:
            return self.call("BoolNot", self.call(self.r.choice(["BoolEQ", "BoolNE"]), p, q))
        if k == 10:
            return self.call(self.r.choice(["BoolEQ", "BoolNE"]), self.r.choice([self.call("BoolTrue"), self.call("BoolFalse")]), q)
        return self.call("BoolNot", self.call("SIntLE", "x", "imp(y)"))

    def divisor(self):
        """a constant that is neither 0 nor -1 (no trap): 1, 2, 3, 4, 8"""
        one = self.call("SInt1")
        two = self.call("SIntPlus", one, one)
        return self.r.choice([one, two, self.call("SIntNext", two), self.call("SIntTimes", two, two),
                              self.call("SIntTimes", two, self.call("SIntTimes", two, two))])

    def sint(self, d):
        r = self.r.random()
        if d > 0 and self.r.random() < 0.12:
            # division, remainder and shifts by a constant (operands of either sign)
            a = self.sint(d - 1)
            if self.r.random() < 0.3:
                a = self.call("SIntNegate", a)
            if self.r.random() < 0.7:
                return self.call(self.r.choice(["SIntQuo", "SIntRem", "SIntMod"]), a, self.divisor())
            return self.call(self.r.choice(["SIntShiftUp", "SIntShiftDn"]), a,
                             self.r.choice([self.call("SInt0"), self.call("SInt1"), self.divisor()]))
        if d > 0 and self.r.random() < 0.35:
            return self.aimed_sint(d)
        if d <= 0 or r < 0.18:
            return self.r.choice(["x", "y", "x", "y", self.const(), self.const()] + self.slocals * 2)
        if r < 0.30:
            return "imp(%s)" % self.sint(d - 1)
        if r < 0.40:
            return self.call(self.r.choice(["SIntNegate", "SIntNext", "SIntPrev", "SIntNegate"]), self.sint(d - 1))
        if r < 0.45:
            return self.call("CharOrd", self.char(d - 1))
        if r < 0.50:
            return self.call(self.r.choice(["SIntAnd", "SIntOr"]), self.sint(d - 1), self.sint(d - 1))
        op = self.r.choice(["SIntPlus", "SIntMinus", "SIntTimes", "SIntPlus", "SIntMinus"])
        a, b = self.sint(d - 1), self.sint(d - 1)
        if self.r.random() < 0.25:
            b = a           # l = r
        return self.call(op, a, b)

    def boolean(self, d):
        r = self.r.random()
        if d > 0 and self.r.random() < 0.35:
            return self.aimed_bool(d)
        if d <= 0 or r < 0.15:
            return self.r.choice(["b", "b", self.call("BoolTrue"), self.call("BoolFalse")] + self.blocals * 2)
        if r < 0.22:
            return "impb(%s)" % self.boolean(d - 1)
        if r < 0.40:
            return self.call("BoolNot", self.boolean(d - 1))
        if r < 0.55:
            return self.call(self.r.choice(["BoolAnd", "BoolOr", "BoolEQ", "BoolNE"]), self.boolean(d - 1), self.boolean(d - 1))
        if r < 0.65:
            return self.call(self.r.choice(["SIntIsZero", "SIntIsPos", "SIntIsNeg"]), self.sint(d - 1))
        if r < 0.75:
            a, b2 = self.char(d - 1), self.char(d - 1)
            if self.r.random() < 0.3:
                b2 = a
            return self.call(self.r.choice(["CharEQ", "CharNE", "CharLT", "CharLE"]), a, b2)
        a, b2 = self.sint(d - 1), self.sint(d - 1)
        if self.r.random() < 0.25:
            b2 = a
        return self.call(self.r.choice(["SIntEQ", "SIntNE", "SIntLT", "SIntLE"]), a, b2)

    def char(self, d):
        r = self.r.random()
        if d <= 0 or r < 0.5:
            return self.r.choice(["c", "c", self.call("CharSpace"), self.call("CharNewline")])
        return self.call(self.r.choice(["CharLower", "CharUpper"]), self.char(d - 1))


def gen_body(g, rng, ty, depth):
    """A function body: with probability 1/2 one expression; otherwise a block with local definitions and
    re-assignments - some initialised by a call with a side effect, some never read afterwards, some
    assigned twice - followed by the result expression (for the passes that work on definitions: deadvar,
    dassign, cprop, cse, as well as for the two local ones)."""
    g.slocals, g.blocals = [], []
    if rng.random() < 0.5:
        return g.sint(depth) if ty == "SInt" else g.boolean(depth)
    lines = []
    n = rng.choice([1, 2, 3, 4])
    for i in range(n):
        k = rng.random()
        if k < 0.6:
            e = g.sint(max(1, depth - 1))
            if rng.random() < 0.4:
                e = "imp(%s)" % e
            name = "u%d" % i
            lines.append("%s: SInt := %s;" % (name, e))
            if rng.random() < 0.6:
                g.slocals.append(name)           # visible to later expressions (else: never read)
        else:
            e = g.boolean(max(1, depth - 1))
            if rng.random() < 0.4:
                e = "impb(%s)" % e
            name = "v%d" % i
            lines.append("%s: Bool := %s;" % (name, e))
            if rng.random() < 0.6:
                g.blocals.append(name)
        if rng.random() < 0.3 and (g.slocals or g.blocals):
            if g.slocals and (not g.blocals or rng.random() < 0.6):
                v = rng.choice(g.slocals)
                e = g.sint(max(1, depth - 1))
                lines.append("%s := %s;" % (v, "imp(%s)" % e if rng.random() < 0.4 else e))
            else:
                v = rng.choice(g.blocals)
                lines.append("%s := %s;" % (v, g.boolean(max(1, depth - 1))))
    res = g.sint(depth - 1) if ty == "SInt" else g.boolean(depth - 1)
    body = "{ " + " ".join(lines) + " " + res + " }"
    g.slocals, g.blocals = [], []
    return body


def gen_program(rng, nfun, depth):
    g = Gen(rng)
    funs = []
    for k in range(nfun):
        ty = "SInt" if rng.random() < 0.6 else "Bool"
        funs.append((ty, gen_body(g, rng, ty, depth)))
    g.used.update(["SInt0", "SInt1", "SIntNegate", "SIntPlus", "BoolTrue", "BoolFalse", "CharSpace"])
    L = ['#include "aldor"', '#include "aldorio"', "import from Machine, MachineInteger, Boolean;", "import {"]
    L += ["  %s: %s;" % (n, SIG[n]) for n in sorted(g.used)]
    L += ["} from Builtin;",
          'imp(v: SInt): SInt == { stdout << "i" << (v pretend MachineInteger) << newline; v }',
          'impb(v: Bool): Bool == { stdout << "j" << (v pretend Boolean) << newline; v }']
    for k, (ty, e) in enumerate(funs):
        L.append("t%d(x: SInt, y: SInt, b: Bool, c: Char): %s == %s;" % (k, ty, e))
    args = [("SInt0()", "SInt1()", "BoolTrue()", "CharSpace()"),
            ("SIntNegate(SInt1())", "SIntPlus(SInt1(), SInt1())", "BoolFalse()", "CharSpace()"),
            ("SIntPlus(SInt1(), SInt1())", "SIntNegate(SIntPlus(SInt1(), SInt1()))", "BoolTrue()", "CharSpace()")]
    for k, (ty, e) in enumerate(funs):
        for a in args:
            c = "t%d(%s)" % (k, ", ".join(a))
            if ty == "SInt":
                L.append('stdout << "t%d " << (%s) pretend MachineInteger << newline;' % (k, c))
            else:
                L.append('stdout << "t%d " << (%s) pretend Boolean << newline;' % (k, c))
    return "\n".join(L) + "\n", ["t%d" % k for k in range(nfun)]


# ------------------------------------------------------------------ the model driver

class Model:
    def __init__(self, exe):
        self.p = subprocess.Popen([exe], stdin=subprocess.PIPE, stdout=subprocess.PIPE, text=True, bufsize=1)
        self.calls = 0

    def ask(self, line):
        self.p.stdin.write(line + "\n")
        self.p.stdin.flush()
        self.calls += 1
        return self.p.stdout.readline().rstrip("\n")

    def close(self):
        try:
            self.p.stdin.close()
            self.p.wait(timeout=5)
        except Exception:
            self.p.kill()


DATA = {"Bool": "Bool", "Char": "Char", "Byte": "Byte", "HInt": "HInt", "SInt": "SInt"}
TYNAMES = {"Bool", "Char", "Byte", "HInt", "SInt", "Word", "BInt", "SFlo", "DFlo", "Ptr", "Arr", "NOp", "Nil", "Clos", "Rec",
           "Arb", "Multi"}


class Unit:
    """One .fm unit: the Progs by name, and what is needed to type a reference."""
    def __init__(self, text):
        self.t = parse_sexpr(text)
        assert self.t[0] == "Unit"
        self.fmts = self.t[1][1:]                # DFmt children (DDecl ...)
        self.globals = [d for d in self.fmts[0][2:]] if self.fmts and self.fmts[0][1] == "Globals" else []
        self.progs = {}
        for d in self.t[2][1:]:                  # (DDef (Def lhs rhs)...)
            if d[0] == "Def" and isinstance(d[2], list) and d[2] and d[2][0] == "Prog":
                lhs = d[1]
                name = lhs[2] if len(lhs) > 2 else "#%s" % lhs[1]
                self.progs[name] = d[2]

    @staticmethod
    def parts(prog):
        decls = [x for x in prog if isinstance(x, list) and x and x[0] == "DDecl"]
        params = next((x[2:] for x in decls if x[1] == "Params"), [])
        locs = next((x[2:] for x in decls if x[1] == "Locals"), [])
        denv = next((x[1:] for x in prog if isinstance(x, list) and x and x[0] == "DEnv"), [])
        seq = next((x for x in prog if isinstance(x, list) and x and x[0] == "Seq"), None)
        return params, locs, denv, seq


def ty_norm(t):
    return t if t in TYNAMES else "Other"


class Fragment:
    """Conversion of one FOAM expression tree to the model's expression syntax and back."""
    def __init__(self, unit, prog, frag_ops, fx_ops):
        self.u, self.frag_ops, self.fx_ops = unit, frag_ops, fx_ops
        self.params, self.locs, self.denv, _ = Unit.parts(prog)
        self.ids = {}
        self.back = {}

    def ident(self, t):
        k = show(t)
        if k not in self.ids:
            self.ids[k] = len(self.ids) + 1
            self.back[self.ids[k]] = t
        return self.ids[k]

    def ty(self, t):
        if isinstance(t, str):
            return "Other"
        h = t[0]
        try:
            if h in DATA:
                return h
            if h == "Par":
                return ty_norm(self.params[int(t[1])][1])
            if h == "Loc":
                return ty_norm(self.locs[int(t[1])][1])
            if h == "Glo":
                return ty_norm(self.u.globals[int(t[1])][1])
            if h == "Lex":
                fmt = int(self.denv[int(t[1])])
                return ty_norm(self.u.fmts[fmt][2:][int(t[2])][1])
            if h in ("CCall", "OCall", "PCall", "Cast", "AElt"):
                return ty_norm(t[1])
        except (IndexError, ValueError, TypeError):
            return "Other"
        return "Other"

    def has_fx(self, t):
        if isinstance(t, str):
            return False
        h = t[0]
        if h in ("Set", "Def", "PCall", "OCall", "CCall", "Catch", "EEnsure"):
            return True
        if h == "Prog":
            return False
        if h == "BCall" and t[1] in self.fx_ops:
            return True
        return any(self.has_fx(x) for x in t[1:])

    def in_frag(self, t):
        if isinstance(t, str):
            return False
        return t[0] in DATA or t[0] == "Cast" or (t[0] == "BCall" and t[1] in self.frag_ops)

    def to_model(self, t):
        h = t[0]
        if h in DATA:
            return "(C %s %s)" % (h, t[1])
        if h == "Cast":
            return "(K %s %s)" % (ty_norm(t[1]), self.to_model(t[2]) if self.convertible(t[2]) else self.leaf(t[2]))
        if h == "BCall" and t[1] in self.frag_ops:
            return "(B %s%s)" % (t[1], "".join(" " + (self.to_model(a) if self.convertible(a) else self.leaf(a)) for a in t[2:]))
        return self.leaf(t)

    def convertible(self, t):
        return self.in_frag(t)

    def leaf(self, t):
        if not isinstance(t, str) and t[0] in ("Par", "Loc", "Lex", "Glo") :
            return "(V %s %d)" % (self.ty(t), self.ident(t))
        return "(L %s %d %d)" % (self.ty(t), self.ident(t), 1 if self.has_fx(t) else 0)

    def from_model(self, m):
        h = m[0]
        if h == "C":
            return [m[1], m[2]]
        if h in ("V", "L"):
            return self.back[int(m[2])]
        if h == "K":
            return ["Cast", m[1], self.from_model(m[2])]
        if h == "B":
            return ["BCall", m[1]] + [self.from_model(a) for a in m[2:]]
        raise ValueError(m)


def apply_pass(model, fr, t, which, flag, swaps):
    """The model pass on every maximal fragment sub-tree of t, children first."""
    if isinstance(t, str):
        return t
    if not fr.in_frag(t):
        return [t[0]] + [apply_pass(model, fr, x, which, flag, swaps) for x in t[1:]]
    # a fragment root: its non-fragment descendants are transformed first, then become leaves

    def prep(x):
        if isinstance(x, str):
            return x
        if fr.in_frag(x):
            return [x[0]] + [prep(y) for y in x[1:]] if x[0] != "BCall" else ["BCall", x[1]] + [prep(y) for y in x[2:]]
        return apply_pass(model, fr, x, which, flag, swaps)
    t2 = prep(t)
    ans = model.ask("%s %d %s" % (which, 1 if flag else 0, fr.to_model(t2)))
    if which == "peep":
        st, ans = ans.split(" ", 1)
        if st == "swap":
            txt = show(t2)
            if re.search(r"\(BCall BoolNot \(BCall \w+ ", txt):
                swaps.append(("BoolNot", txt[:200]))
            if re.search(r"\(BCall SIntPlus \((BCall SIntNegate|SInt -)", txt):
                swaps.append(("SIntPlus", txt[:200]))
            if not swaps or swaps[-1][1] != txt[:200]:
                swaps.append(("other", txt[:200]))
    return fr.from_model(parse_sexpr(ans))


def model_unit(model, unit, names, trace, fold_all, fold_floats, frag_ops, fx_ops):
    """Apply the model passes, in trace order, to the named Progs.  Returns {name: [stmt...]}, swaps."""
    out, swaps = {}, collections.defaultdict(list)
    for n in names:
        prog = unit.progs.get(n)
        if prog is None:
            continue
        fr = Fragment(unit, prog, frag_ops, fx_ops)
        seq = Unit.parts(prog)[3]
        stmts = seq[1:]
        for lab in trace:
            if lab == "Starting cfold...":
                stmts = [apply_pass(model, fr, s, "cfold", fold_all, swaps[n]) for s in stmts]
            elif lab == "Starting peep...":
                stmts = [apply_pass(model, fr, s, "peep", fold_floats, swaps[n]) for s in stmts]
        out[n] = stmts
    return out, swaps
