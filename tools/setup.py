#!/usr/bin/env python3
"""setup: regenerate coq/Gen/*.v from /repo's current source, then a full .vo build of everything."""
import importlib, os, sys, glob
V = os.path.dirname(os.path.dirname(os.path.abspath(__file__)))
sys.path.insert(0, V)
from vlib import common as C
import json
ENABLED = json.load(open(V + "/tools/enabled.json"))
targets = []
for pid in ENABLED:
    mod = importlib.import_module("props." + pid.lower())
    g = getattr(mod, "generate", None)
    if g:
        print("generate:", mod.__name__)
        r = g()
        # some modules return the text instead of writing it (their run() writes it)
        rel = getattr(mod, "GEN_REL", None)
        if rel:
            txt = r if isinstance(r, str) else (r[0] if isinstance(r, tuple) and r and isinstance(r[0], str) else None)
            if txt:
                C.write_if_changed(C.COQ + "/" + rel, txt)
    targets += list(getattr(mod, "TARGETS", []))
    targets += [os.path.relpath(f, C.COQ) + "o" for f in glob.glob(C.COQ + "/Props/Properties_%s*.v" % pid)]
    # extraction files of the directories the property file depends on
    for f in C.v_closure([os.path.relpath(x, C.COQ) for x in glob.glob(C.COQ + "/Props/Properties_%s*.v" % pid)]):
        ex = os.path.join(C.COQ, os.path.dirname(f), "Extract.v")
        if os.path.exists(ex):
            targets.append(os.path.relpath(ex, C.COQ) + "o")
bad = C.grep_gate()
if bad:
    print("forbidden constructs:", bad); sys.exit(1)
with C.CoqLock():
    C.coq_makefile()
    rc, out, err = C.run(["make", "-k", "-j%d" % C.NCPU] + sorted(set(targets)), cwd=C.COQ, timeout=7200)
sys.stdout.write(out[-3000:]); sys.stderr.write(err[-6000:])
sys.exit(0 if rc == 0 else 1)
