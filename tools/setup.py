#!/usr/bin/env python3
"""setup: regenerate coq/Gen/*.v from /repo's current source, then a full .vo build of everything."""
import importlib, os, sys, glob
V = os.path.dirname(os.path.dirname(os.path.abspath(__file__)))
sys.path.insert(0, V)
from vlib import common as C
for f in sorted(glob.glob(V + "/props/c*.py")):
    mod = importlib.import_module("props." + os.path.basename(f)[:-3])
    g = getattr(mod, "generate", None)
    if g:
        print("generate:", mod.__name__); g()
bad = C.grep_gate()
if bad:
    print("forbidden constructs:", bad); sys.exit(1)
with C.CoqLock():
    C.coq_makefile()
    rc, out, err = C.run(["make", "-k", "-j%d" % C.NCPU], cwd=C.COQ, timeout=7200)
sys.stdout.write(out[-3000:]); sys.stderr.write(err[-6000:])
sys.exit(0 if rc == 0 else 1)
