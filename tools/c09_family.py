"""C09: hand-written family of allocation-heavy Aldor programs with a Python oracle.

Every program is a sequence of independent *blocks* (each block has its own function and
variable names, suffix = block number).  A block builds a heap structure of one kind
(list cells, bignums, strings, closures, arrays of records, generators, nested lists,
hash tables, a tree domain, ...), prints something computed from it, and leaves the
structure alive in a file-level variable; after all blocks have run the program prints
every kept structure AGAIN ("late" part), so that each structure has to survive every
allocation (= every possible forced collection) that the later blocks perform.

The expected output is computed here, in exact Python arithmetic, independently of any
compiler code: lists print as [a,b,c], integers in decimal, booleans as T / F.
All MachineInteger values stay far below 2^31; Integer values are unbounded.
"""

HEADER = '''#include "aldor"
#include "aldorio"
import from MachineInteger, Integer, String, Character, Boolean;
import from List MachineInteger, List Integer, List String;
fact(n: MachineInteger): Integer == {
    r: Integer := 1;
    for i: MachineInteger in 1..n repeat r := r * (i::Integer);
    r
}
garbage(n: MachineInteger): MachineInteger == {
    t: MachineInteger := 0;
    for i: MachineInteger in 1..n repeat {
        g: List MachineInteger := [i, i + 1, i + 2];
        t := t + first rest g;
    }
    t
}
'''


def pfact(n):
    r = 1
    for i in range(1, n + 1):
        r *= i
    return r


def plist(l):
    return "[" + ",".join(str(x) for x in l) + "]"


def pbool(b):
    return "T" if b else "F"


def pgarbage(n):
    return sum(i + 1 for i in range(1, n + 1))


class Blk:
    def __init__(self, shape, src, out, late_src, late_out, params):
        self.shape, self.src, self.out, self.late_src, self.late_out, self.params = \
            shape, src, out, late_src, late_out, params


# ------------------------------------------------------------------ blocks

def b_list(rng, u, sc):
    n = rng.randint(3, 5 * sc + 3)
    m = rng.randint(2, 9)
    a = rng.randint(0, 50)
    vals = [(i * m + a) % 97 for i in range(1, n + 1)]
    la = list(reversed(vals))            # cons builds in reverse
    lb = list(reversed(la))
    lc = [x + 1 for x in la]
    src = f'''build{u}(n: MachineInteger): List MachineInteger == {{
    l: List MachineInteger := empty;
    for i: MachineInteger in 1..n repeat l := cons((i * {m} + {a}) rem 97, l);
    l
}}
lsum{u}(l: List MachineInteger): MachineInteger == {{
    s: MachineInteger := 0;
    for x in l repeat s := s + x;
    s
}}
la{u}: List MachineInteger := build{u}({n});
lb{u}: List MachineInteger := reverse(la{u});
lc{u}: List MachineInteger := [x + 1 for x in la{u}];
stdout << lsum{u}(la{u}) << " " << #lb{u} << newline;
stdout << la{u} << newline;
stdout << lb{u} << newline;
la{u} := reverse!(la{u});
stdout << first la{u} << " " << la{u} << newline;
'''
    out = [f"{sum(la)} {len(lb)}", plist(la), plist(lb), f"{lb[0]} {plist(lb)}"]
    late = f'''stdout << la{u} << " " << lb{u} << " " << lc{u} << " " << lsum{u}(lc{u}) << newline;
'''
    return Blk("list", src, out, late, [f"{plist(lb)} {plist(lb)} {plist(lc)} {sum(lc)}"], dict(n=n, m=m, a=a))


def b_bigint(rng, u, sc):
    n = rng.randint(18, 25 + 12 * sc)
    d = rng.randint(2, 6)
    m = rng.randint(20, 30 + 10 * sc)
    p = rng.choice([1000000007, 998244353, 2147483647, 18446744073709551629])
    f, g = pfact(n), pfact(n - d)
    fa, fb = 0, 1
    for _ in range(m):
        fa, fb = fb, fa + fb
    acc = 1
    for i in range(1, m + 1):
        acc = acc * 1000003 + i
    import math
    src = f'''fib{u}(n: MachineInteger): Integer == {{
    a: Integer := 0; b: Integer := 1;
    for i: MachineInteger in 1..n repeat {{ t: Integer := a + b; a := b; b := t }}
    a
}}
bf{u}: Integer := fact({n});
bg{u}: Integer := fact({n - d});
stdout << bf{u} << newline;
stdout << (bf{u} quo bg{u}) << " " << (bf{u} rem ({p}@Integer)) << " " << gcd(bf{u}, fib{u}({m})) << newline;
bacc{u}: Integer := 1;
for i: MachineInteger in 1..{m} repeat bacc{u} := bacc{u} * (1000003@Integer) + (i::Integer);
stdout << bacc{u} << newline;
stdout << (bf{u} * bf{u} - bg{u} * bg{u}) << " " << (- bacc{u}) << " " << (bf{u} > bacc{u}) << newline;
'''
    out = [str(f), f"{f // g} {f % p} {math.gcd(f, fa)}", str(acc),
           f"{f * f - g * g} {-acc} {pbool(f > acc)}"]
    late = f'''stdout << bg{u} << " " << (bacc{u} rem (bg{u} + 1)) << " " << fib{u}({m}) << newline;
'''
    return Blk("bigint", src, out, late, [f"{g} {acc % (g + 1)} {fa}"], dict(n=n, d=d, m=m))


def b_string(rng, u, sc):
    n = rng.randint(4, 6 + 6 * sc)
    pieces = ["ab", "q", "xyz", "-", "Z9", "hello ", "%", "a,b"]
    p1, p2 = rng.sample(pieces, 2)
    q = rng.randint(2, 4)
    s = ""
    keep = []
    for i in range(1, n + 1):
        s = s + (p1 if i % q == 0 else p2)
        keep.append(s)
    keep.reverse()
    src = f'''sa{u}: String := "";
sl{u}: List String := empty;
for i: MachineInteger in 1..{n} repeat {{
    sa{u} := sa{u} + (if i rem {q} = 0 then "{p1}" else "{p2}");
    sl{u} := cons(sa{u}, sl{u});
}}
stdout << sa{u} << " " << #sa{u} << newline;
sn{u}: MachineInteger := 0;
for t in sl{u} repeat sn{u} := sn{u} + #t;
stdout << sn{u} << " " << first rest sl{u} << newline;
sb{u}: String := sa{u} + "|" + first sl{u} + "|" + sa{u};
stdout << sb{u} << " " << (sa{u} = first sl{u}) << " " << (sb{u} = sa{u}) << newline;
'''
    sb = s + "|" + keep[0] + "|" + s
    out = [f"{s} {len(s)}", f"{sum(len(t) for t in keep)} {keep[1]}", f"{sb} T F"]
    late = f'''for t in sl{u} repeat stdout << t << ";";
stdout << #sb{u} << newline;
'''
    return Blk("string", src, out, late, ["".join(t + ";" for t in keep) + str(len(sb))], dict(n=n))


def b_closure(rng, u, sc):
    n = rng.randint(3, 3 + 3 * sc)
    st = rng.randint(2, 7)
    x = rng.randint(2, 9)
    # closures are consed, so fs = [mk(n), ..., mk(1)]
    vals = [pfact(i + 15) * x + i for i in range(n, 0, -1)]
    src = f'''import from List(MachineInteger -> Integer);
mk{u}(k: MachineInteger, b: Integer): MachineInteger -> Integer ==
    (x: MachineInteger): Integer +-> b * (x::Integer) + (k::Integer);
fs{u}: List(MachineInteger -> Integer) := empty;
for i: MachineInteger in 1..{n} repeat fs{u} := cons(mk{u}(i, fact(i + 15)), fs{u});
mkc{u}(s: MachineInteger): () -> MachineInteger == {{
    c: MachineInteger := 0;
    (): MachineInteger +-> {{ free c; c := c + s; c }}
}}
ca{u}: () -> MachineInteger := mkc{u}({st});
cb{u}: () -> MachineInteger := mkc{u}(1);
ca{u}(); ca{u}(); cb{u}();
stdout << garbage(10) << newline;
for f in fs{u} repeat stdout << f({x}) << " ";
stdout << ca{u}() << " " << cb{u}() << newline;
'''
    out = [str(pgarbage(10)), " ".join(str(v) for v in vals) + f" {3 * st} 2"]
    late = f'''stdout << (first fs{u})(1) << " " << ca{u}() << " " << cb{u}() << newline;
'''
    return Blk("closure", src, out, late, [f"{pfact(n + 15) + n} {4 * st} 3"], dict(n=n))


def b_arrrec(rng, u, sc):
    n = rng.randint(3, 3 + 4 * sc)
    k = rng.randint(8, 14)
    src = f'''R{u} ==> Record(a: MachineInteger, b: Integer, s: String);
import from R{u}, Array R{u};
ar{u}: Array R{u} := new({n}, [0, 0, ""]);
for i: MachineInteger in 0..{n - 1} repeat ar{u}.i := [i, fact(i + {k}), "r" + (if i rem 2 = 0 then "e" else "o")];
for i: MachineInteger in 0..{n - 1} repeat stdout << ar{u}.i.a << ":" << ar{u}.i.b << ":" << ar{u}.i.s << " ";
stdout << newline;
-- second pass: update in place, swap ends
for i: MachineInteger in 0..{n - 1} repeat {{ r := ar{u}.i; r.b := r.b + 1; r.s := r.s + r.s }}
rt{u}: R{u} := ar{u}.0; ar{u}.0 := ar{u}.({n - 1}); ar{u}.({n - 1}) := rt{u};
stdout << ar{u}.0.a << " " << ar{u}.({n - 1}).a << " " << ar{u}.0.b << " " << ar{u}.0.s << newline;
'''
    recs = [[i, pfact(i + k), "r" + ("e" if i % 2 == 0 else "o")] for i in range(n)]
    out = [" ".join(f"{r[0]}:{r[1]}:{r[2]}" for r in recs) + " "]
    for r in recs:
        r[1] += 1
        r[2] = r[2] + r[2]
    recs[0], recs[n - 1] = recs[n - 1], recs[0]
    out.append(f"{recs[0][0]} {recs[n - 1][0]} {recs[0][1]} {recs[0][2]}")
    late = f'''for i: MachineInteger in 0..{n - 1} repeat stdout << ar{u}.i.a << ":" << ar{u}.i.b << ":" << ar{u}.i.s << " ";
stdout << newline;
'''
    return Blk("array-of-records", src, out, late,
               [" ".join(f"{r[0]}:{r[1]}:{r[2]}" for r in recs) + " "], dict(n=n, k=k))


def b_gen(rng, u, sc):
    n = rng.randint(3, 4 + 4 * sc)
    m = rng.randint(3, 4 + 3 * sc)
    sq = [i * i for i in range(1, n + 1)]
    facts = [pfact(i + 12) for i in range(1, m + 1)]
    pairs = list(zip(sq, facts))
    tri = [list(range(1, i + 1)) for i in range(1, m + 1)]
    src = f'''gsq{u}(n: MachineInteger): Generator MachineInteger == generate {{
    for i: MachineInteger in 1..n repeat yield i * i
}}
gfa{u}(n: MachineInteger): Generator Integer == generate {{
    for i: MachineInteger in 1..n repeat {{ f: Integer := fact(i + 12); yield f }}
}}
gtr{u}(n: MachineInteger): Generator List MachineInteger == generate {{
    l: List MachineInteger := empty;
    for i: MachineInteger in 1..n repeat {{ l := cons(i, l); yield reverse l }}
}}
gt{u}: MachineInteger := 0;
for x in gsq{u}({n}) repeat gt{u} := gt{u} + x;
stdout << gt{u} << newline;
gz{u}: Integer := 0;
for x in gsq{u}({n}) for y in gfa{u}({m}) repeat gz{u} := gz{u} + (x::Integer) * y;
stdout << gz{u} << newline;
gl{u}: List Integer := [y for y in gfa{u}({m})];
gk{u}: List MachineInteger := empty;
for t in gtr{u}({m}) repeat {{ stdout << t; gk{u} := t }}
stdout << newline;
'''
    out = [str(sum(sq)), str(sum(a * b for a, b in pairs)), "".join(plist(t) for t in tri)]
    late = f'''stdout << gl{u} << " " << gk{u} << newline;
'''
    return Blk("generator", src, out, late, [f"{plist(facts)} {plist(tri[-1])}"], dict(n=n, m=m))


def b_churn(rng, u, sc):
    n = rng.randint(4, 8)
    m = rng.randint(10, 20 + 25 * sc)
    keep = [i * 3 for i in range(n, 0, -1)]
    bk = pfact(21) * 7 + 1
    src = f'''ck{u}: List MachineInteger := empty;
for i: MachineInteger in 1..{n} repeat ck{u} := cons(i * 3, ck{u});
cb{u}: Integer := fact(21) * 7 + 1;
cs{u}: String := "keep" + "-" + "me";
cg{u}: MachineInteger := 0;
for i: MachineInteger in 1..{m} repeat {{
    tmp: List MachineInteger := [i, i * 2, i * 3, i * 4];
    big: Integer := fact(i rem 5 + 20) + (i::Integer);
    str: String := cs{u} + "x";
    cg{u} := cg{u} + first rest tmp + #str + machine(big rem 7);
}}
stdout << cg{u} << " " << ck{u} << " " << cb{u} << " " << cs{u} << newline;
'''
    cg = 0
    for i in range(1, m + 1):
        cg += 2 * i + len("keep-mex") + (pfact(i % 5 + 20) + i) % 7
    out = [f"{cg} {plist(keep)} {bk} keep-me"]
    late = f'''stdout << ck{u} << " " << cb{u} << " " << cs{u} << " " << garbage({m}) << newline;
'''
    return Blk("churn", src, out, late, [f"{plist(keep)} {bk} keep-me {pgarbage(m)}"], dict(n=n, m=m))


def b_nested(rng, u, sc):
    n = rng.randint(3, 3 + 2 * sc)
    rows = []
    for i in range(n, 0, -1):     # consed: row n first
        rows.append([i * j for j in range(i, 0, -1)])
    tot = sum(sum(r) for r in rows)
    src = f'''import from List List MachineInteger;
nn{u}: List List MachineInteger := empty;
for i: MachineInteger in 1..{n} repeat {{
    row: List MachineInteger := empty;
    for j: MachineInteger in 1..i repeat row := cons(i * j, row);
    nn{u} := cons(row, nn{u});
}}
nt{u}: MachineInteger := 0;
for row in nn{u} repeat for x in row repeat nt{u} := nt{u} + x;
stdout << nt{u} << " " << nn{u} << newline;
nf{u}: List MachineInteger := empty;
for row in nn{u} repeat nf{u} := append!(copy row, nf{u});
stdout << nf{u} << newline;
'''
    nf = []
    for r in rows:
        nf = list(r) + nf
    out = [f"{tot} {plist([plist(r) for r in rows])}", plist(nf)]
    late = f'''stdout << first nn{u} << " " << #nn{u} << " " << nf{u} << newline;
'''
    return Blk("nested-list", src, out, late, [f"{plist(rows[0])} {len(rows)} {plist(nf)}"], dict(n=n))


def b_table(rng, u, sc):
    n = rng.randint(5, 6 + 8 * sc)
    mul = rng.randint(3, 11)
    probe = [rng.randint(1, n + 3) for _ in range(4)]
    tbl = {i * mul: pfact(i + 10) for i in range(1, n + 1)}
    src = f'''import from HashTable(MachineInteger, Integer), Partial Integer;
ht{u}: HashTable(MachineInteger, Integer) := table();
for i: MachineInteger in 1..{n} repeat ht{u}.(i * {mul}) := fact(i + 10);
hl{u}(k: MachineInteger): Integer == {{
    p: Partial Integer := find(k, ht{u});
    failed? p => -1;
    retract p
}}
stdout << numberOfEntries ht{u}'''
    for p in probe:
        src += f''' << " " << hl{u}({p * mul})'''
    src += f''' << " " << hl{u}(1) << newline;
for i: MachineInteger in 1..{n} repeat if i rem 2 = 0 then ht{u}.(i * {mul}) := ht{u}.(i * {mul}) + 1;
'''
    out = [" ".join([str(len(tbl))] + [str(tbl.get(p * mul, -1)) for p in probe] + [str(tbl.get(1, -1))])]
    for i in range(1, n + 1):
        if i % 2 == 0:
            tbl[i * mul] += 1
    late = f'''stdout << numberOfEntries ht{u}'''
    for p in probe:
        late += f''' << " " << hl{u}({p * mul})'''
    late += " << newline;\n"
    return Blk("hash-table", src, out, late,
               [" ".join([str(len(tbl))] + [str(tbl.get(p * mul, -1)) for p in probe])], dict(n=n, mul=mul))


def b_tree(rng, u, sc):
    n = rng.randint(4, 5 + 5 * sc)
    keys = rng.sample(range(1, 100), n)
    src = f'''Tree{u}: with {{
    leaf: () -> %;
    insert: (MachineInteger, %) -> %;
    walk: % -> List MachineInteger;
    depth: % -> MachineInteger;
}} == add {{
    Rep == Record(l: Pointer, v: MachineInteger, r: Pointer);
    import from Rep;
    leaf(): % == (nil$Pointer) pretend %;
    local leaf?(t: %): Boolean == nil?(t pretend Pointer);
    local node(l: %, v: MachineInteger, r: %): % == per [l pretend Pointer, v, r pretend Pointer];
    insert(k: MachineInteger, t: %): % == {{
        leaf? t => node(leaf(), k, leaf());
        k < rep(t).v => node(insert(k, rep(t).l pretend %), rep(t).v, rep(t).r pretend %);
        node(rep(t).l pretend %, rep(t).v, insert(k, rep(t).r pretend %))
    }}
    walk(t: %): List MachineInteger == {{
        leaf? t => empty;
        append!(walk(rep(t).l pretend %), cons(rep(t).v, walk(rep(t).r pretend %)))
    }}
    depth(t: %): MachineInteger == {{
        leaf? t => 0;
        1 + max(depth(rep(t).l pretend %), depth(rep(t).r pretend %))
    }}
}}
import from Tree{u};
tr{u}: Tree{u} := leaf();
'''
    for k in keys:
        src += f"tr{u} := insert({k}, tr{u});\n"
    src += f'''stdout << walk tr{u} << " " << depth tr{u} << newline;
'''

    def ins(t, k):
        if t is None:
            return (None, k, None)
        if k < t[1]:
            return (ins(t[0], k), t[1], t[2])
        return (t[0], t[1], ins(t[2], k))

    def depth(t):
        return 0 if t is None else 1 + max(depth(t[0]), depth(t[2]))
    t = None
    for k in keys:
        t = ins(t, k)
    out = [f"{plist(sorted(keys))} {depth(t)}"]
    late = f'''stdout << depth tr{u} << " " << walk insert(50, tr{u}) << newline;
'''
    return Blk("tree-domain", src, out, late, [f"{depth(t)} {plist(sorted(keys + [50]))}"], dict(n=n))


BLOCKS = [b_list, b_bigint, b_string, b_closure, b_arrrec, b_gen, b_churn, b_nested, b_table, b_tree]
SHAPES = ["list", "bigint", "string", "closure", "array-of-records", "generator", "churn", "nested-list",
          "hash-table", "tree-domain"]


def make(rng, name, nblocks, scale, force=None):
    """One program: `nblocks` blocks drawn from BLOCKS (`force`: list of block functions that
    must be present), then the late part."""
    fs = list(force or [])
    while len(fs) < nblocks:
        fs.append(rng.choice(BLOCKS))
    rng.shuffle(fs)
    blks = [f(rng, i, scale) for i, f in enumerate(fs)]
    src = HEADER + "".join(b.src for b in blks) + "".join(b.late_src for b in blks)
    out = []
    for b in blks:
        out += b.out
    for b in blks:
        out += b.late_out
    return {"name": name, "family": "hand", "shapes": [b.shape for b in blks],
            "params": [b.params for b in blks], "src": src,
            "expect_out": "".join(l + "\n" for l in out), "expect_status": "ok", "scale": scale}


def family(rng, n, scale_choices=(1, 1, 2), blocks_choices=(1, 2, 2, 3)):
    """n programs; the first len(BLOCKS) ones are single-block programs, one per shape (so
    that every shape is present whatever the seed), the rest random combinations."""
    progs = []
    for i, f in enumerate(BLOCKS):
        if len(progs) >= n:
            break
        progs.append(make(rng, "h%02d-%s" % (i, SHAPES[i]), 1, 1, force=[f]))
    i = len(progs)
    while len(progs) < n:
        nb = rng.choice(blocks_choices)
        sc = rng.choice(scale_choices)
        p = make(rng, "h%02d" % i, nb, sc)
        p["name"] += "-" + "+".join(p["shapes"])
        progs.append(p)
        i += 1
    return progs


# ====================================================================== scale family
# Deep and big live structures, aimed at the collector's constants: nesting deeper than any
# bound on the marker's recursion, pieces bigger than the fixed-size limit / a page / 64 KB /
# 1 MB, addresses far inside big pieces.  Same principle as above: build, let the collector run
# (forced schedules; the `junk' phases allocate at least as much again so that reclaimed storage
# is reused), verify by a full traversal, print a checksum; Python computes the expected text.

import re as _re


def store_constants(src_dir):
    """Numeric #defines of the CURRENT store.c; `bounds' = those whose name says limit/max/depth/...:
    a bound somebody adds to the marker moves the sizes generated below beyond it."""
    try:
        txt = open(src_dir + "/store.c", errors="replace").read()
    except OSError:
        return {"defs": {}, "bounds": {}}
    defs = {}
    for m in _re.finditer(r"^#\s*define\s+(\w+)\s+\(?\s*(0x[0-9a-fA-F]+|\d+)\s*\)?\s*(?:/\*.*)?$", txt, _re.M):
        try:
            defs[m.group(1)] = int(m.group(2), 0)
        except ValueError:
            pass
    bounds = {k: v for k, v in defs.items()
              if _re.search(r"(max|limit|depth|bound|steps?|nest|interior)", k, _re.I) and 16 <= v <= 1000000
              and not k.startswith("STO_SHOW")}
    return {"defs": defs, "bounds": bounds, "page": 1 << defs.get("LgPgSize", 12)}


def letter(i):
    return chr(97 + i % 26)


CHAIN_LAYOUTS = {          # position of the link among the fields of a cell
    "first": ("Record(nx: Pointer, s: String, z: Integer)", "[c pretend Pointer, s, z]"),
    "middle": ("Record(s: String, nx: Pointer, z: Integer)", "[s, c pretend Pointer, z]"),
}
BIG = 1 << 70


def scale_chain(rng, consts, size=None, layout=None):
    """a chain of n cells built iteratively; each cell owns a fresh string and a boxed Integer that come
    AFTER (or around) the link, so that a marker following only the first pointer of an object loses them"""
    depths = [rng.randint(20000, 30000), rng.randint(30000, 40000)]
    for v in consts.get("bounds", {}).values():
        if 2000 <= v <= 45000:           # (a chain of ~75000 overflows the unchanged marker's C stack: known finding)
            depths.append(int(v * 1.04) + rng.randint(300, 900))
    n = size or rng.choice(depths)
    layout = layout or rng.choice(sorted(CHAIN_LAYOUTS))
    rec, mk = CHAIN_LAYOUTS[layout]
    a, b = rng.randint(3, 6), rng.randint(5, 9)
    src = f'''#include "aldor"
#include "aldorio"
import from MachineInteger, Integer, String, Character, Boolean;
-- `pretend' is used only for the nil link of the recursive record
Chain: with {{
    empty: () -> %;
    empty?: % -> Boolean;
    push: (String, Integer, %) -> %;
    next: % -> %;
    str: % -> String;
    num: % -> Integer;
}} == add {{
    Rep == {rec};
    import from Rep;
    empty(): % == (nil$Pointer) pretend %;
    empty?(c: %): Boolean == nil?(c pretend Pointer);
    push(s: String, z: Integer, c: %): % == per {mk};
    next(c: %): % == rep(c).nx pretend %;
    str(c: %): String == rep(c).s;
    num(c: %): Integer == rep(c).z;
}}
import from Chain;
letter(i: MachineInteger): Character == char(97 + i rem 26);
big: Integer := {BIG};
build(n: MachineInteger): Chain == {{
    c: Chain := empty();
    for i: MachineInteger in 1..n repeat c := push(new({a} + i rem {b}, letter i), big + (i::Integer), c);
    c
}}
junk(n: MachineInteger): MachineInteger == {{
    t: MachineInteger := 0;
    for i: MachineInteger in 1..n repeat {{ s: String := new(9, char 35); t := t + #s }}
    t
}}
walk(c: Chain): () == {{
    cells: MachineInteger := 0; sc: MachineInteger := 0; sz: Integer := 0;
    while not empty? c repeat {{
        s := str c;
        sc := sc + ord(s.0) + ord(s.(#s - 1)) + #s;
        sz := sz + (num c - big);
        cells := cells + 1;
        c := next c;
    }}
    stdout << cells << " " << sc << " " << sz << newline;
}}
ch: Chain := build({n});
stdout << junk({n}) << newline;
walk ch;
stdout << junk({n // 2}) << newline;
walk ch;
'''
    sc = sum(2 * ord(letter(i)) + a + i % b for i in range(1, n + 1))
    w = f"{n} {sc} {n * (n + 1) // 2}"
    out = [str(9 * n), w, str(9 * (n // 2)), w]
    return "deep-chain-" + layout, src, out, dict(n=n, layout=layout)


def scale_array(rng, consts, size=None, top=None):
    """one big array (> 64 KB ... > 1 MB) of fresh strings; every element is checked after the collections,
    by index and while iterating with the array's generator (which allocates on the way)"""
    sizes = [rng.randint(20000, 30000), rng.randint(60000, 80000), rng.randint(132000, 150000)]
    for v in consts.get("bounds", {}).values():
        if 16 <= v <= 4000:                 # a bound counted in 256-byte quanta / in pages
            sizes.append((v * 256) // 8 * 2 + rng.randint(100, 999))
    n = size or rng.choice([x for x in sizes if not top or x <= top] or sizes[:1])
    kind = rng.choice(["Array", "PrimitiveArray"])
    L = rng.randint(4, 9)
    new = f'new({n}, "")' if kind == "Array" else f"new {n}"
    it = "for x in a" if kind == "Array" else f"for j: MachineInteger in 0..{n - 1}"
    getx = "" if kind == "Array" else "x: String := a.j;"
    src = f'''#include "aldor"
#include "aldorio"
import from MachineInteger, String, Character, Boolean, {kind} String;
letter(i: MachineInteger): Character == char(97 + i rem 26);
junk(n: MachineInteger): MachineInteger == {{
    t: MachineInteger := 0;
    for i: MachineInteger in 1..n repeat {{ s: String := new(9, char 35); t := t + #s }}
    t
}}
a: {kind} String := {new};
for i: MachineInteger in 0..{n - 1} repeat a.i := new({L} + i rem 3, letter i);
stdout << junk({n}) << newline;
check(): () == {{
    bad: MachineInteger := 0; tot: MachineInteger := 0;
    for i: MachineInteger in 0..{n - 1} repeat {{
        s := a.i;
        if s.0 ~= letter i or s.(#s - 1) ~= letter i then bad := bad + 1;
        tot := tot + #s;
    }}
    stdout << bad << " " << tot << newline;
}}
check();
-- iterate (generator for Array) while allocating: collections fall inside the traversal
cnt: MachineInteger := 0; sm: MachineInteger := 0;
{it} repeat {{
    {getx}
    t: String := new(6, x.0);
    if t.5 = x.0 then sm := sm + ord(t.5);
    cnt := cnt + 1;
}}
stdout << cnt << " " << sm << newline;
check();
'''
    tot = sum(L + i % 3 for i in range(n))
    sm = sum(ord(letter(i)) for i in range(n))
    out = [str(9 * n), f"0 {tot}", f"{n} {sm}", f"0 {tot}"]
    return "big-array-" + kind, src, out, dict(n=n, kind=kind, bytes=8 * n)


def scale_strings(rng, consts, size=None):
    """many large strings, sizes around the allocator's boundaries (fixed-size limit, page, 64 KB, 1 MB)"""
    page = consts.get("page", 4096)
    marks = [255, 256, 257, page - 9, page, page + 1, 16 * page, 65535, 65536, 65537, 70001, 262144 + 3, 1048576 + 17]
    for v in consts.get("bounds", {}).values():
        if 16 <= v <= 4000:
            marks += [v * 256 - 1, v * 256 + 300, 2 * v * 256 + 7]
    m = size or rng.randint(24, 40)
    small = [x for x in marks if x <= 70001]
    sizes = [x + rng.randint(0, 3) for x in marks] + [rng.choice(small) + rng.randint(0, 3) for _ in range(max(0, m - len(marks)))]
    rng.shuffle(sizes)
    sizes = sizes[:max(m, 3)] if size else sizes
    m = len(sizes)
    lit = ",".join(str(x) for x in sizes)
    src = f'''#include "aldor"
#include "aldorio"
import from MachineInteger, String, Character, Boolean, List MachineInteger, List String;
letter(i: MachineInteger): Character == char(97 + i rem 26);
sizes: List MachineInteger := [{lit}];
ls: List String := empty;
k: MachineInteger := 0;
for n in sizes repeat {{
    s: String := new(n, letter k);
    s.(n quo 2) := char 64;
    s.(n - 1) := char 33;
    ls := cons(s, ls);
    k := k + 1;
}}
junk(n: MachineInteger): MachineInteger == {{
    t: MachineInteger := 0;
    for i: MachineInteger in 1..n repeat {{ s: String := new(300 + i rem 700, char 35); t := t + #s }}
    t
}}
stdout << junk(6000) << newline;
check(): () == {{
    bad: MachineInteger := 0; tot: MachineInteger := 0; j: MachineInteger := {m};
    for s in ls repeat {{
        j := j - 1;
        n := #s;
        if s.0 ~= letter j or s.(n quo 2) ~= char 64 or s.(n - 1) ~= char 33 or s.(n - 2) ~= letter j then bad := bad + 1;
        tot := tot + n;
    }}
    stdout << bad << " " << tot << newline;
}}
check();
stdout << junk(6000) << newline;
check();
'''
    jk = sum(300 + i % 700 for i in range(1, 6001))
    out = [str(jk), f"0 {sum(sizes)}", str(jk), f"0 {sum(sizes)}"]
    return "large-strings", src, out, dict(m=m, total_bytes=sum(sizes))


SCALE_KINDS = {"chain": scale_chain,
               "chain-first": lambda r, c, size=None: scale_chain(r, c, size, "first"),
               "chain-middle": lambda r, c, size=None: scale_chain(r, c, size, "middle"),
               "array": scale_array,
               "array-mid": lambda r, c, size=None: scale_array(r, c, size, top=90000),
               "strings": scale_strings}


def scale_program(kind, seed, consts, size=None):
    import random as _r
    shape, src, out, params = SCALE_KINDS[kind](_r.Random(seed), consts, size)
    return {"name": "scale-%s-%s%s" % (shape, seed, "-n%d" % size if size else ""), "family": "scale", "lib": "aldor",
            "shapes": [shape], "kind": kind, "sseed": seed, "params": params, "src": src,
            "expect_out": "".join(l + "\n" for l in out), "expect_status": "ok"}


# Fixed corpus programs of the scale family.

# A big array reachable ONLY through the address of one of its slots far inside the piece.
# NOTE: this program deliberately uses `pretend' arithmetic on addresses (outside the defined
# subset of the language): it is the only way to make an Aldor program hold nothing but an
# interior address, which is what the run time's own C code (loops over arrays, buffers) does.
def interior_src(n=20000, k=15000):
    return f'''#include "aldor"
#include "aldorio"
-- USES `pretend' ADDRESS ARITHMETIC ON PURPOSE: only the address of slot {k} of a {n}-slot array is kept
import from MachineInteger, String, Character;
letter(i: MachineInteger): Character == char(97 + i rem 26);
sum(p: Pointer): MachineInteger == {{
    import from PrimitiveArray MachineInteger;
    a := ((p pretend MachineInteger) - 8 * {k}) pretend PrimitiveArray MachineInteger;
    s: MachineInteger := 0;
    for i: MachineInteger in 0..{n - 1} repeat s := s + a.i;
    s
}}
build(): (Pointer, MachineInteger) == {{
    import from PrimitiveArray String;
    a: PrimitiveArray String := new {n};
    for i: MachineInteger in 0..{n - 1} repeat a.i := new(8, letter i);
    q := ((a pretend MachineInteger) + 8 * {k}) pretend Pointer;
    (q, sum q)
}}
scrub(d: MachineInteger): MachineInteger == if d = 0 then 0 else 1 + scrub(d - 1);
check(p: Pointer): MachineInteger == {{
    import from PrimitiveArray String;
    a := ((p pretend MachineInteger) - 8 * {k}) pretend PrimitiveArray String;
    bad: MachineInteger := 0;
    for i: MachineInteger in 0..{n - 1} repeat if (a.i).0 ~= letter i then bad := bad + 1;
    bad
}}
(p, before) := build();
scrub 200;
import from List String;
junk: List String := [new(8, char 35) for i: MachineInteger in 1..{n}];
after := sum p;
if before = after then
    stdout << "array intact, slots whose string was lost: " << check p << newline;
else
    stdout << "the array itself was reclaimed while slot {k} was still referenced" << newline;
'''


INTERIOR_EXPECT = "array intact, slots whose string was lost: 0\n"
