"""Recursive-descent parser for the C *expression* subset that occurs in the
builtin tables of the Aldor compiler (of_cfold.c:cfoldBCall, fint.c:fintEvalBCall,
genc.c:ccBValInfoTable, foam_c.h fi* macros, one-line leaf functions).

AST (plain tuples, first element is the node kind):

    ("id",   name)
    ("num",  text)                 integer or floating literal, suffix kept
    ("chr",  value)                character literal, value = int
    ("str",  text)
    ("cast", type_text, e)
    ("un",   op, e)                op in  - ~ ! + * &
    ("bin",  op, a, b)             arithmetic / relational / logical / bitwise
    ("cond", c, a, b)
    ("call", fname_expr, [args])
    ("mem",  e, field)             e.field   (e->field is ("mem", ("deref", e), field))
    ("deref", e)
    ("idx",  e, i)
    ("sizeof", type_text)

`parse(text, typenames)` raises CParseError on anything outside the subset;
callers turn that into an `Opaque` row.
"""
import re


class CParseError(Exception):
    pass


TOK = re.compile(r"""
    \s+
  | (?P<num>  (?:0[xX][0-9a-fA-F]+|\d+\.\d*(?:[eE][-+]?\d+)?|\.\d+(?:[eE][-+]?\d+)?|\d+(?:[eE][-+]?\d+)?)[uUlLfF]*)
  | (?P<id>   [A-Za-z_][A-Za-z_0-9]*)
  | (?P<chr>  '(?:\\.|[^'\\])+')
  | (?P<str>  "(?:\\.|[^"\\])*")
  | (?P<op>   ->|<<=|>>=|<<|>>|<=|>=|==|!=|&&|\|\||\+\+|--|[-+*/%&|^~!<>=?:.,()\[\]])
""", re.X)

BASE_TYPES = {"char", "short", "int", "long", "unsigned", "signed", "float", "double", "void"}

ESC = {"n": 10, "t": 9, "0": 0, "\\": 92, "'": 39, '"': 34, "r": 13, "a": 7, "b": 8, "f": 12, "v": 11}


def tokenize(text):
    toks, pos = [], 0
    while pos < len(text):
        m = TOK.match(text, pos)
        if not m:
            raise CParseError("bad character %r at %d in %r" % (text[pos], pos, text[:80]))
        pos = m.end()
        k = m.lastgroup
        if k:
            toks.append((k, m.group(k)))
    toks.append(("eof", ""))
    return toks


def char_value(lit):
    body = lit[1:-1]
    if body[0] == "\\":
        c = body[1]
        if c in ESC and len(body) == 2:
            return ESC[c]
        if c == "x":
            return int(body[2:], 16)
        if c.isdigit():
            return int(body[1:], 8)
        raise CParseError("escape " + lit)
    if len(body) != 1:
        raise CParseError("multi-char literal " + lit)
    return ord(body)


BINPREC = [
    ("||",), ("&&",), ("|",), ("^",), ("&",), ("==", "!="), ("<", "<=", ">", ">="),
    ("<<", ">>"), ("+", "-"), ("*", "/", "%"),
]


class P:
    def __init__(self, text, typenames):
        self.t = tokenize(text)
        self.i = 0
        self.types = set(typenames) | BASE_TYPES

    def peek(self, k=0):
        return self.t[min(self.i + k, len(self.t) - 1)]

    def next(self):
        tok = self.t[self.i]
        self.i += 1
        return tok

    def accept(self, v):
        if self.peek()[1] == v and self.peek()[0] == "op":
            self.i += 1
            return True
        return False

    def expect(self, v):
        if not self.accept(v):
            raise CParseError("expected %r, got %r" % (v, self.peek()))

    # type-name: sequence of type words followed by '*'s
    def is_type_start(self, k=0):
        tok = self.peek(k)
        return tok[0] == "id" and tok[1] in self.types

    def type_name(self):
        words = []
        while self.is_type_start():
            words.append(self.next()[1])
        while self.peek() == ("op", "*"):
            self.next()
            words.append("*")
        if not words:
            raise CParseError("type expected")
        return " ".join(words)

    def expr(self):
        e = self.cond()
        if self.peek()[1] in ("=", ",") and self.peek()[0] == "op" and self.peek()[1] == "=":
            raise CParseError("assignment inside expression")
        return e

    def cond(self):
        c = self.binary(0)
        if self.accept("?"):
            a = self.cond_or_comma()
            self.expect(":")
            b = self.cond()
            return ("cond", c, a, b)
        return c

    def cond_or_comma(self):
        return self.cond()

    def binary(self, lvl):
        if lvl == len(BINPREC):
            return self.unary()
        a = self.binary(lvl + 1)
        while self.peek()[0] == "op" and self.peek()[1] in BINPREC[lvl]:
            op = self.next()[1]
            b = self.binary(lvl + 1)
            a = ("bin", op, a, b)
        return a

    def unary(self):
        k, v = self.peek()
        if k == "op" and v in ("-", "~", "!", "+", "*", "&"):
            self.next()
            e = self.unary()
            if v == "*":
                return ("deref", e)
            return ("un", v, e)
        if k == "op" and v in ("++", "--"):
            raise CParseError("increment")
        if k == "id" and v == "sizeof":
            self.next()
            self.expect("(")
            t = self.type_name()
            self.expect(")")
            return ("sizeof", t)
        if k == "op" and v == "(" and self.is_type_start(1):
            # cast or parenthesised expression starting with a type name: a cast
            self.next()
            t = self.type_name()
            self.expect(")")
            e = self.unary()
            return ("cast", t, e)
        return self.postfix()

    def postfix(self):
        e = self.primary()
        while True:
            if self.accept("("):
                args = []
                if not self.accept(")"):
                    while True:
                        args.append(self.cond())
                        if self.accept(")"):
                            break
                        self.expect(",")
                e = ("call", e, args)
            elif self.accept("."):
                k, v = self.next()
                if k != "id":
                    raise CParseError("field")
                e = ("mem", e, v)
            elif self.accept("->"):
                k, v = self.next()
                if k != "id":
                    raise CParseError("field")
                e = ("mem", ("deref", e), v)
            elif self.accept("["):
                i = self.cond()
                self.expect("]")
                e = ("idx", e, i)
            elif self.peek()[0] == "op" and self.peek()[1] in ("++", "--"):
                raise CParseError("increment")
            else:
                return e

    def primary(self):
        k, v = self.next()
        if k == "num":
            return ("num", v)
        if k == "chr":
            return ("chr", char_value(v))
        if k == "str":
            return ("str", v)
        if k == "id":
            return ("id", v)
        if k == "op" and v == "(":
            e = self.cond()
            self.expect(")")
            return e
        raise CParseError("unexpected %r" % (v,))


def parse(text, typenames=()):
    p = P(text, typenames)
    e = p.expr()
    if p.peek()[0] != "eof":
        raise CParseError("trailing %r in %r" % (p.peek(), text[:100]))
    return e


def subst(e, env):
    """Substitute identifiers by ASTs (macro parameters, single-assignment temporaries)."""
    if not isinstance(e, tuple):
        return e
    if e[0] == "id":
        return env.get(e[1], e)
    if e[0] == "call":
        return ("call", subst(e[1], env), [subst(a, env) for a in e[2]])
    return tuple(subst(x, env) if isinstance(x, tuple) else x for x in e)


def show(e):
    """Compact C-like rendering (for messages / Opaque text)."""
    k = e[0]
    if k == "id":
        return e[1]
    if k == "num":
        return e[1]
    if k == "chr":
        return "'\\x%02x'" % e[1]
    if k == "str":
        return e[1]
    if k == "cast":
        return "(%s)%s" % (e[1], show(e[2]))
    if k == "un":
        return "%s%s" % (e[1], show(e[2]))
    if k == "bin":
        return "(%s %s %s)" % (show(e[2]), e[1], show(e[3]))
    if k == "cond":
        return "(%s ? %s : %s)" % (show(e[1]), show(e[2]), show(e[3]))
    if k == "call":
        return "%s(%s)" % (show(e[1]), ", ".join(show(a) for a in e[2]))
    if k == "mem":
        if e[1][0] == "deref":
            return "%s->%s" % (show(e[1][1]), e[2])
        return "%s.%s" % (show(e[1]), e[2])
    if k == "deref":
        return "*%s" % show(e[1])
    if k == "idx":
        return "%s[%s]" % (show(e[1]), show(e[2]))
    if k == "sizeof":
        return "sizeof(%s)" % e[1]
    return repr(e)
