"""Translator for C02: optfoam.c (+ the -O/-Q cases of cmdline.c) -> coq/Gen/OptCtl.v.

Everything is read from the PREPROCESSED text of the current optfoam.c (gcc -E -P with
the build's defines), so macros (OPT_MaxLevel, OPT_InlineAll, optfDEBUG ...) and #if
branches are the ones the compiler is built with.  What is read:

  * optControl[] rows, optQInlineLimit[]
  * optSetLevel / optInit / optSetStdOptimization: the level arithmetic
  * optSetOptimization: statement by statement, each matched against the statement
    shapes of coq/Opt/Ctl.v (`stage`); a statement that matches no shape becomes
    StUnknown "<text>" (then the theorems no longer check and the check says so)
  * optimizeFoam: the guarded pass pipeline (`pstep`) and the iteration count
"""
import re
from vlib import common as C


class Shape(Exception):
    pass


def preprocess(path):
    src = C.eff_src()
    rc, out, err = C.run(["gcc", "-E", "-P", "-w", "-std=c99"] + C.DEFS + [C.GUARD, "-I", src, "-I", src + "/java", path],
                         timeout=120)
    if rc != 0:
        raise C.BuildError("gcc -E failed on %s:\n%s" % (path, err[-2000:]))
    return out


# ------------------------------------------------------------------ a small statement parser

TOK = re.compile(r'\s*("(?:\\.|[^"\\])*"|\'(?:\\.|[^\'\\])*\'|[A-Za-z_]\w*|\d+\.\d+|\d+|==|!=|<=|>=|&&|\|\||\+\+|--|\+=|-=|->|.)', re.S)


def tokens(text):
    pos, out = 0, []
    text = text.strip()
    while pos < len(text):
        m = TOK.match(text, pos)
        if not m:
            break
        out.append(m.group(1))
        pos = m.end()
    return out


class P:
    def __init__(self, toks):
        self.t, self.i = toks, 0

    def peek(self):
        return self.t[self.i] if self.i < len(self.t) else None

    def take(self):
        x = self.t[self.i]
        self.i += 1
        return x

    def paren(self):
        """'(' ... ')' balanced; returns the inner tokens joined."""
        assert self.take() == "("
        depth, acc = 1, []
        while True:
            x = self.take()
            if x == "(":
                depth += 1
            elif x == ")":
                depth -= 1
                if depth == 0:
                    return " ".join(acc)
            acc.append(x)

    def stmt(self):
        x = self.peek()
        if x == "{":
            self.take()
            body = []
            while self.peek() != "}":
                body.append(self.stmt())
            self.take()
            return ("block", body)
        if x == "if":
            self.take()
            c = self.paren()
            th = self.stmt()
            el = None
            if self.peek() == "else":
                self.take()
                el = self.stmt()
            return ("if", c, th, el)
        if x in ("for", "while"):
            self.take()
            c = self.paren()
            return (x, c, self.stmt())
        acc, depth = [], 0
        while True:
            y = self.take()
            if y in "({[":
                depth += 1
            elif y in ")}]":
                depth -= 1
            elif y == ";" and depth == 0:
                return ("s", " ".join(acc))
            acc.append(y)


def function_body(pp, name):
    m = re.search(r"^%s\s*\([^)]*\)\s*\{" % re.escape(name), pp, re.M)
    if not m:
        raise Shape("function %s not found" % name)
    i = m.end() - 1
    depth, j = 0, i
    while True:
        ch = pp[j]
        if ch == '"':
            j += 1
            while pp[j] != '"':
                j += 2 if pp[j] == "\\" else 1
        elif ch == "{":
            depth += 1
        elif ch == "}":
            depth -= 1
            if depth == 0:
                break
        j += 1
    st = P(tokens(pp[i:j + 1])).stmt()
    return st[1]


def flat(st):
    """a statement back as one normalised string (for messages and StUnknown)"""
    k = st[0]
    if k == "s":
        return st[1] + " ;"
    if k == "block":
        return "{ " + " ".join(flat(x) for x in st[1]) + " }" if st[1] else "{ }"
    if k == "if":
        return "if ( %s ) %s%s" % (st[1], flat(st[2]), (" else " + flat(st[3])) if st[3] else "")
    return "%s ( %s ) %s" % (st[0], st[1], flat(st[2]))


def unblock(st):
    """statement list of a block / single statement"""
    return st[1] if st[0] == "block" else [st]


# ------------------------------------------------------------------ Coq rendering

def q(s):
    return '"' + s.replace('"', '""') + '"'


def z(n):
    return "(%d)" % n if n < 0 else str(n)


def cstr(tok):
    """C string literal token -> python string (only the escapes that occur)"""
    assert tok[0] == '"' and tok[-1] == '"'
    return tok[1:-1].replace("\\n", "\n").replace('\\"', '"').replace("\\\\", "\\")


CMPS = {"strEqual": "CmpExact", "strAEqual": "CmpNoCase", "strIsPrefix": "CmpExact", "strAIsPrefix": "CmpNoCase"}


# ------------------------------------------------------------------ the pieces

def read_table(pp):
    m = re.search(r"struct\s+optControl\s+optControl\s*\[\s*\]\s*=\s*\{(.*?)\n\}\s*;", pp, re.S)
    if not m:
        raise Shape("optControl[] initialiser not found")
    rows = []
    for r in re.finditer(r"\{\s*(\"(?:[^\"\\]|\\.)*\")\s*,\s*(OPT_FLAG|OPT_FLOAT)\s*,\s*&\s*(\w+)\s*,\s*\{([^}]*)\}\s*\}", m.group(1)):
        rows.append((cstr(r.group(1)), r.group(2), r.group(3), [int(x) for x in r.group(4).split(",")]))
    n_init = len(re.findall(r"^\s*\{", m.group(1), re.M))
    if not re.search(r"\{\s*0\s*\}\s*$", m.group(1).strip()):
        raise Shape("optControl[] does not end with the {0} sentinel")
    if n_init != len(rows) + 1:
        raise Shape("optControl[]: %d initialisers, %d understood" % (n_init, len(rows) + 1))
    m = re.search(r"int\s+optQInlineLimit\s*\[\s*\]\s*=\s*\{([^}]*)\}", pp)
    if not m:
        raise Shape("optQInlineLimit[] not found")
    qlim = [int(x) for x in m.group(1).split(",")]
    return rows, qlim


def read_set_level(pp):
    """optSetLevel: optLevel = lev; index = (lev > M ? M : lev); all rows *pvar = value[index];
    if (lev > M) V = optQInlineLimit[lev - M - 1];   ->  (M, V)"""
    b = [flat(s) for s in function_body(pp, "optSetLevel")]
    b = [s for s in b if not re.match(r"int \w+( , \w+)* ;", s)]
    pat = [r"optLevel = lev ;",
           r"index = \( lev > (\d+) \? (\d+) : lev \) ;",
           r"for \( i = 0 ; optControl \[ i \] \. name ; i \+\+ \) \* optControl \[ i \] \. pvar = optControl \[ i \] \. value \[ index \] ;",
           r"if \( lev > (\d+) \) (\w+) = optQInlineLimit \[ lev - (\d+) - 1 \] ;"]
    if len(b) != len(pat):
        return None, b
    ms = [re.fullmatch(p, s) for p, s in zip(pat, b)]
    if not all(ms):
        return None, b
    M = {ms[1].group(1), ms[1].group(2), ms[3].group(1), ms[3].group(3)}
    if len(M) != 1:
        return None, b
    return (int(M.pop()), ms[3].group(2)), b


def read_set_all(pp):
    b = [flat(s) for s in function_body(pp, "optSetAllTo")]
    b = [s for s in b if not re.match(r"int \w+ ;", s)]
    return b == ["for ( i = 0 ; optControl [ i ] . name ; i ++ ) if ( optControl [ i ] . nature == OPT_FLAG ) "
                 "* optControl [ i ] . pvar = flag ;"], b


def read_decoder(pp):
    body = function_body(pp, "optSetOptimization")
    body = [s for s in body if not (s[0] == "s" and re.match(r"(int|String|Bool) \w+$", s[1]))]
    stages, i = [], 0
    texts = [flat(s) for s in body]
    ROWS = r"for \( i = 0 ; optControl \[ i \] \. name ; i \+\+ \) "
    while i < len(texts):
        s = texts[i]
        nxt = texts[i + 1] if i + 1 < len(texts) else ""
        m2 = re.fullmatch(r"if \( ! opt \[ 1 \] && 0 <= i && i <= (\d+) \) \{ optSetLevel \( i \) ; return 0 ; \}", nxt)
        if s == "i = opt [ 0 ] - '0' ;" and m2:
            stages.append("StLevel %s" % m2.group(1))
            i += 2
            continue
        m = re.fullmatch(ROWS + r"\{ if \( optControl \[ i \] \. nature != OPT_FLOAT \) continue ; "
                         r"if \( \( s = (\w+) \( optControl \[ i \] \. name , opt \) \) == 0 \) continue ; "
                         r"if \( ((?:\* s != '.' && )*\* s != '.') \) continue ; s \+= 1 ; "
                         r"\* optControl \[ i \] \. pvar = \( int \) \( (\d+) \* atof \( s \) \) ; return 0 ; \}", s)
        if m and m.group(1) in ("strAIsPrefix", "strIsPrefix"):
            seps = re.findall(r"'(.)'", m.group(2))
            stages.append("StFloat %s [%s] %s" % (CMPS[m.group(1)], "; ".join(q(c) + "%char" for c in seps), m.group(3)))
            i += 1
            continue
        m = re.fullmatch(r"while \( s = (\w+) \( (\"[^\"]*\") , opt \) , s \) \{ isOn = ! isOn ; opt = s ; \}", nxt)
        if s == "isOn = 1 ;" and m and m.group(1) in ("strAIsPrefix", "strIsPrefix"):
            stages.append("StNegate %s %s" % (q(cstr(m.group(2))), CMPS[m.group(1)]))
            i += 2
            continue
        m = re.fullmatch(r"if \( (\w+) \( opt , (\"[^\"]*\") \) \) \{ optSetAllTo \( isOn \) ; return 0 ; \}", s)
        if m and m.group(1) in ("strEqual", "strAEqual"):
            stages.append("StAll %s %s" % (q(cstr(m.group(2))), CMPS[m.group(1)]))
            i += 1
            continue
        m = re.fullmatch(r"if \( (\w+) \( opt , (\"[^\"]*\") \) \) \{ (\w+) = isOn ; if \( isOn \) (\w+) = isOn ; return 0 ; \}", s)
        if m and m.group(1) in ("strEqual", "strAEqual"):
            stages.append("StSetAlso %s %s %s %s" % (q(cstr(m.group(2))), CMPS[m.group(1)], q(m.group(3)), q(m.group(4))))
            i += 1
            continue
        m = re.fullmatch(ROWS + r"\{ if \( ! (\w+) \( opt , optControl \[ i \] \. name \) \) continue ; "
                         r"if \( optControl \[ i \] \. nature != OPT_FLAG \) continue ; "
                         r"\* optControl \[ i \] \. pvar = isOn ; return 0 ; \}", s)
        if m and m.group(1) in ("strEqual", "strAEqual"):
            stages.append("StFlag %s" % CMPS[m.group(1)])
            i += 1
            continue
        if s == "return - 1 ;" and i == len(texts) - 1:
            i += 1
            continue
        stages.append("StUnknown %s" % q(s[:200]))
        i += 1
    return stages, texts


def read_pipeline(pp):
    body = function_body(pp, "optimizeFoam")

    def announce(st):
        m = re.fullmatch(r'if \( ! optfDebug \) \{ \} else afprintf \( dbOut , ("(?:[^"\\]|\\.)*")(?: , i)? \) ;', flat(st))
        return cstr(m.group(1)).rstrip("\n") if m else None

    def noise(st):
        f = flat(st)
        return f in ("if ( phaseDebug ) { stoAudit ( ) ; }", "if ( optfDebug ) { optPrintOpts ( dbOut ) ; }",
                     "if ( optfDebug ) { foamWrSExpr ( dbOut , foam , ( ( int ) 0 ) ) ; }")

    def calls(sts):
        out = []
        for s in sts:
            m = re.match(r"(?:\w+ = )?(\w+) \(", flat(s))
            out.append(m.group(1) if m else "?" + flat(s)[:40])
        return out

    iters = None

    def walk(sts, top):
        nonlocal iters
        out = []
        for st in sts:
            if noise(st):
                continue
            if st[0] == "s" and re.match(r"(Bool|int) ", st[1]):
                continue
            a = announce(st)
            if a is not None:
                out.append("PSay %s" % q(a))
                continue
            if st[0] == "if" and st[3] is None and re.fullmatch(r"\w+( \|\| \w+)*", st[1]):
                inner = [x for x in unblock(st[2]) if not noise(x)]
                lab = announce(inner[0]) if inner else None
                if lab is not None:
                    out.append("PIf [%s] %s [%s]" % ("; ".join(q(v) for v in st[1].split(" || ")), q(lab),
                                                   "; ".join(q(c) for c in calls(inner[1:]))))
                    continue
            if st[0] == "if" and st[1].startswith("optLevel") and top:
                m = re.fullmatch(r"if \( optLevel > (\d+) \) iters = (\d+) ; else if \( optLevel == (\d+) \) iters = (\d+) ; "
                                 r"else iters = optLevel ;", flat(st))
                if m:
                    iters = tuple(int(x) for x in m.groups())
                    continue
            if st[0] == "while" and "newConsts" in st[1]:
                inner = [x for x in unblock(st[2]) if not noise(x)]
                lab = announce(inner[0]) if inner else None
                out.append("PWhileData %s" % q(lab or "?"))
                continue
            if st[0] == "for" and st[1] == "i = 0 ; i < iters ; i ++":
                inner = [x for x in unblock(st[2]) if not noise(x)]
                lab = announce(inner[0]) if inner else None
                if lab is not None:
                    out.append("PLoop %s [\n    %s]" % (q(lab), ";\n    ".join(walk(inner[1:], False))))
                    continue
            if st[0] == "s":
                # plain calls outside any guard (patch-up after the passes): not passes
                m = re.match(r"(\w+) \(|\( \w+ = 1 \)|return foam|do \{ if \( ! \( foamAudit", st[1])
                if m:
                    continue
            out.append("PSay %s" % q("?? " + flat(st)[:120]))
        return out
    steps = walk(body, True)
    return steps, iters


def read_cmdline():
    txt = open(C.SRC + "/cmdline.c").read()
    m = re.search(r"^cmdHandleOption\s*\(.*?\n\}", txt, re.S | re.M)
    if not m:
        return False, False, False
    f = re.sub(r"/\*.*?\*/", "", m.group(0), flags=re.S)
    nocase = bool(re.search(r"switch\s*\(\s*toupper\s*\(\s*opt\s*\)\s*\)", f))
    o = bool(re.search(r"case\s+'O'\s*:\s*rc\s*=\s*optSetStdOptimization\s*\(\s*\)\s*;\s*break\s*;", f))
    qq = bool(re.search(r"case\s+'Q'\s*:\s*rc\s*=\s*optSetOptimization\s*\(\s*arg\s*\)\s*;\s*break\s*;", f))
    return nocase, o, qq


def read_help():
    """The level table the compiler documents (`aldor -h Q`): rows `-Q <name> ... \\t<marks>` of the message
    ALDOR_H_HelpOptimOpt; a mark X in column k (4 characters per column) means "on at -Qk"."""
    txt = open(C.SRC + "/comsgdb.msg", errors="replace").read()
    m = re.search(r'ALDOR_H_HelpOptimOpt\s+"\\\n(.*?)\n"', txt, re.S)
    if not m:
        return [], None, None
    body = m.group(1)
    rows = []
    for line in body.split("\n"):
        f = line.replace("\\n\\", "").split("\\t")
        if len(f) < 4:
            continue
        mm = re.fullmatch(r"-Q ([a-z][a-z-]*)\s*", f[1])
        if not mm or "=" in f[1]:
            continue
        marks = f[3] if len(f) > 3 else ""
        if not re.fullmatch(r"[ X]*", marks):
            continue
        cols = [False] * 5
        for i, ch in enumerate(marks):
            if ch == "X" and i // 4 < 5:
                cols[i // 4] = True
        rows.append((mm.group(1), cols))
    seen, out = set(), []
    for n, c in rows:
        if n not in seen:
            seen.add(n)
            out.append((n, c))
    d = re.search(r"\(default `-Q(\d)'\)", body)
    o = re.search(r"-O\s+\\tOptimize\.\s+This is equivalent to `-Q(\d)'", body)
    return out, int(d.group(1)) if d else None, int(o.group(1)) if o else None


def generate():
    pp = preprocess(C.SRC + "/optfoam.c")
    rows, qlim = read_table(pp)
    lvl, lvl_txt = read_set_level(pp)
    setall_ok, _ = read_set_all(pp)
    stages, dec_txt = read_decoder(pp)
    steps, iters = read_pipeline(pp)
    m = re.search(r"^optInit\s*\(void\)\s*\{\s*optSetLevel\s*\(\s*(\d+)\s*\)\s*;", pp, re.M)
    default = int(m.group(1)) if m else None
    m = re.search(r"^optSetStdOptimization\s*\(void\)\s*\{\s*return\s+optSetOptimization\s*\(\s*(\"[^\"]*\")\s*\)\s*;", pp, re.M)
    std = cstr(m.group(1)) if m else None
    m = re.search(r"^optPrintOpts\s*\([^)]*\)\s*\{(.*?)^\}", pp, re.S | re.M)
    print_ok = bool(m and re.search(r'for \(i = 0; optControl\[i\]\.name; i\+\+\)\s*fprintf\(fout, "%15s %d\\n", optControl\[i\]\.name, \*optControl\[i\]\.pvar\);', m.group(1)))
    nocase, o_ok, q_ok = read_cmdline()
    help_rows, help_default, help_O = read_help()
    L = ["(* GENERATED on every run by tools/c02_gen.py from the preprocessed text of",
         "   <repo>/aldor/aldor/src/optfoam.c and the -O/-Q cases of cmdline.c - do not edit *)",
         "Require Import ZArith List String Ascii.", "Require Import AV.Opt.Ctl.", "Import ListNotations.",
         "Local Open Scope string_scope.", "Local Open Scope Z_scope.", ""]
    L.append("(* optControl[] *)")
    L.append("Definition opt_ctl : list row := [")
    L.append(";\n".join("  mkRow %-15s %s %-18s [%s]" % (q(n), "NFlag " if k == "OPT_FLAG" else "NFloat", q(v),
                                                       "; ".join(z(x) for x in vs)) for n, k, v, vs in rows))
    L.append("].")
    L.append("(* optQInlineLimit[] *)")
    L.append("Definition opt_qinline_limit : list Z := [%s]." % "; ".join(z(x) for x in qlim))
    L.append("(* optSetLevel: Some (OPT_MaxLevel, variable overridden above it) when the body has the known shape *)")
    L.append("Definition set_level_shape : option (Z * string) := %s." %
             ("Some (%d, %s)" % (lvl[0], q(lvl[1])) if lvl else "None"))
    L.append("(* optSetAllTo assigns its argument to exactly the rows of nature FLAG *)")
    L.append("Definition set_all_flag_rows : bool := %s." % ("true" if setall_ok else "false"))
    L.append("(* optInit: optSetLevel(OPT_DefaultLevel) *)")
    L.append("Definition default_level : option Z := %s." % ("Some %d" % default if default is not None else "None"))
    L.append("(* optSetStdOptimization: optSetOptimization(<this>) *)")
    L.append("Definition std_opt : option string := %s." % ("Some " + q(std) if std is not None else "None"))
    L.append("(* optSetOptimization, statement by statement *)")
    L.append("Definition decoder : list stage := [\n  %s\n]." % ";\n  ".join(stages))
    L.append("(* optPrintOpts prints every row as name, *pvar (the observation -WD+optf) *)")
    L.append("Definition print_opts_all_rows : bool := %s." % ("true" if print_ok else "false"))
    L.append("(* optimizeFoam *)")
    L.append("Definition pipeline : list pstep := [\n  %s\n]." % ";\n  ".join(steps))
    if iters:
        L.append("Definition opt_iters (l : Z) : option Z := Some (if l >? %d then %d else if l =? %d then %d else l)." % iters)
    else:
        L.append("Definition opt_iters (l : Z) : option Z := None.")
    L.append("(* cmdline.c:cmdHandleOption *)")
    L.append("Definition cmd_letter_nocase : bool := %s." % ("true" if nocase else "false"))
    L.append("Definition cmd_O_is_std : bool := %s." % ("true" if o_ok else "false"))
    L.append("Definition cmd_Q_is_decoder : bool := %s." % ("true" if q_ok else "false"))
    L.append("(* the compiler's own help text (comsgdb.msg, ALDOR_H_HelpOptimOpt): the X marks under Q0..Q4 *)")
    L.append("Definition help_levels : list (string * list bool) := [\n  %s\n]." % ";\n  ".join(
        "(%s, [%s])" % (q(n), "; ".join("true" if b else "false" for b in marks)) for n, marks in help_rows))
    L.append("(* \"(default `-Q<n>')\" and \"-O ... equivalent to `-Q<n>'\" of the help text *)")
    L.append("Definition help_default : option Z := %s." % ("Some %d" % help_default if help_default is not None else "None"))
    L.append("Definition help_O : option Z := %s." % ("Some %d" % help_O if help_O is not None else "None"))
    txt = "\n".join(L) + "\n"
    C.write_if_changed(C.COQ + "/Gen/OptCtl.v", txt)
    return {"rows": rows, "qlim": qlim, "level_shape": lvl, "default": default, "std": std, "stages": stages,
            "steps": steps, "iters": iters, "cmd": (nocase, o_ok, q_ok), "set_all_ok": setall_ok, "print_ok": print_ok,
            "decoder_text": dec_txt, "unknown_stages": [s for s in stages if s.startswith("StUnknown")],
            "unknown_steps": [s for s in steps if "?? " in s or '"?' in s]}


# ====================================================================== of_peep.c rule tables

POPS = ["OpNone", "OpPlus", "OpMinus", "OpTimes", "OpDivide", "OpDivRem", "OpGCD", "OpEQ", "OpNE", "OpLT", "OpLE",
        "OpFPlus", "OpFMinus", "OpFTimes", "OpFDivide", "OpFEQ", "OpFNE", "OpFLT", "OpFLE", "OpFNeg", "OpFIsZero",
        "OpFIsNeg", "OpFIsPos", "OpNeg", "OpNext", "OpPrev", "OpIsZero", "OpIsNeg", "OpIsPos", "OpZero", "OpOne",
        "OpMOne", "OpTrue", "OpFalse", "OpNonZero", "OpNonNeg", "OpNonPos", "OpId"]
FTY = {"FOAM_Char": "FChar", "FOAM_Bool": "FBool", "FOAM_SInt": "FSInt", "FOAM_HInt": "FHInt", "FOAM_Byte": "FByte",
       "FOAM_SFlo": "FSFlo", "FOAM_DFlo": "FDFlo", "FOAM_BInt": "FBInt", "FOAM_Word": "FWord", "FOAM_Nil": "FNil"}


def pop(s):
    s = s.strip()
    return s if s in POPS else "(OpUnknown %s)" % q(s)


def generate_peep():
    src = open(C.SRC + "/of_peep.c").read()
    src = re.sub(r"/\*.*?\*/", "", src, flags=re.S)
    m = re.search(r"enum\s+bvalOp\s*\{(.*?)\}", src, re.S)
    if not m:
        raise Shape("of_peep.c: enum bvalOp not found")
    enum = [x.strip() for x in m.group(1).split(",") if x.strip()]

    def bvals(name):
        m = re.search(r"static\s+FoamBVals\s+%s\s*\[\s*\]\s*=\s*\{(.*?)\n\};" % name, src, re.S)
        if not m:
            raise Shape("of_peep.c: table %s not found" % name)
        rows = re.findall(r"\{\s*(\w+)\s*,\s*(\w+)\s*,\s*(\w+)\s*\}", m.group(1))
        n_init = len(re.findall(r"\{", m.group(1)))
        if n_init != len(rows) or not rows or rows[-1][0] != "FOAM_BVAL_LIMIT":
            raise Shape("of_peep.c: %s: %d initialisers, %d understood / no sentinel" % (name, n_init, len(rows)))
        out = []
        for f, t, p in rows[:-1]:
            if not f.startswith("FOAM_BVal_"):
                raise Shape("of_peep.c: %s: odd row %s" % (name, f))
            out.append("mkBv %s %s %s" % (q(f[len("FOAM_BVal_"):]), FTY.get(t, "FOther"), pop(p)))
        return out
    fast, slow = bvals("foamBValOpInfoTableFast"), bvals("foamBValOpInfoTableSlow")
    m = re.search(r"BValOps\s+peepBValOpInfo\s*\[\s*\]\s*=\s*\{(.*?)\n\};", src, re.S)
    if not m:
        raise Shape("of_peep.c: peepBValOpInfo not found")
    rows = re.findall(r"\{\s*(-?\w+)\s*,\s*(\d+)\s*,\s*(\w+)\s*,\s*(\w+)\s*,\s*(\w+)\s*,\s*(\w+)\s*,\s*(\w+)\s*,\s*(\w+)\s*\}", m.group(1))
    n_init = len(re.findall(r"\{", m.group(1)))
    if n_init != len(rows) or rows[-1][0] != "-1":
        raise Shape("of_peep.c: peepBValOpInfo: %d initialisers, %d understood / no sentinel" % (n_init, len(rows)))
    ops = []
    indexed = True
    for i, r in enumerate(rows[:-1]):
        if i >= len(enum) or enum[i] != r[0]:
            indexed = False     # peepBValOpInfo[bop].op == bop is asserted by the C
        ops.append("mkOp %s %s %s" % (pop(r[0]), r[1], " ".join(pop(x) for x in r[2:])))
    sent_arity = int(rows[-1][1])
    at_sentinel = [pop(x) for i, x in enumerate(enum) if i == len(rows) - 1]
    beyond = [pop(x) for i, x in enumerate(enum) if i > len(rows) - 1]
    sel = bool(re.search(r"if\s*\(foldfloats\)\s*peepBValTbl\s*=\s*&foamBValOpInfoTableFast\[0\];\s*else\s+peepBValTbl\s*=\s*&foamBValOpInfoTableSlow\[0\];", src))
    guard = bool(re.search(r"#define\s+peepNoSideFx\(foam\)\s*\(!foamHasSideEffect\(foam\)\)", open(C.SRC + "/of_peep.c").read()))
    L = ["(* GENERATED on every run by tools/c02_gen.py from <repo>/aldor/aldor/src/of_peep.c - do not edit *)",
         "Require Import ZArith List String.", "Require Import AV.Builtins.CInt AV.Opt.PeepCtl.", "Import ListNotations.",
         "Local Open Scope string_scope.", "Local Open Scope Z_scope.", "",
         "(* foamBValOpInfoTableFast (used when floats may be folded) / Slow *)",
         "Definition peep_bvals_fast : list bvrow := [\n  %s\n]." % ";\n  ".join(fast),
         "Definition peep_bvals_slow : list bvrow := [\n  %s\n]." % ";\n  ".join(slow),
         "(* peepBValOpInfo:   op arity dual l=r l=1 r=1 l=0 r=0 *)",
         "Definition peep_ops : list oprow := [\n  %s\n]." % ";\n  ".join(ops),
         "(* the rows stand at the index of their enum value (the C indexes the table by it) *)",
         "Definition peep_ops_indexed : bool := %s." % ("true" if indexed else "false"),
         "(* enum values with no row: the one indexing the sentinel row {-1, arity, ...}, and those behind the table *)",
         "Definition peep_ops_at_sentinel : list pop := [%s]." % "; ".join(at_sentinel),
         "Definition peep_sentinel_arity : Z := %d." % sent_arity,
         "Definition peep_ops_beyond_table : list pop := [%s]." % "; ".join(beyond),
         "(* peepProg selects Fast iff foldfloats; peepNoSideFx(x) is !foamHasSideEffect(x) *)",
         "Definition peep_table_selection : bool := %s." % ("true" if sel else "false"),
         "Definition peep_guard_is_has_side_effect : bool := %s." % ("true" if guard else "false")]
    C.write_if_changed(C.COQ + "/Gen/PeepTbl.v", "\n".join(L) + "\n")
    return {"fast": len(fast), "slow": len(slow), "ops": len(ops), "indexed": indexed}


# ====================================================================== of_cfold.c guards

def generate_cfold_guards():
    """Which cases of cfoldBCall start with `if (!cfoldFoldAll) break;` / `if (!cfoldFoldFloat) break;`
    (the rows themselves are b-c04's Gen/Builtins.v), and the argument test in front of the switch."""
    src = re.sub(r"/\*.*?\*/", "", open(C.SRC + "/of_cfold.c").read(), flags=re.S)
    m = re.search(r"\ncfoldBCall\(Foam bcall\)\s*\{(.*?)\n\}\n", src, re.S)
    if not m:
        raise Shape("of_cfold.c: cfoldBCall not found")
    body = m.group(1)
    allconst = bool(re.search(r"for\s*\(i=0;\s*i\s*<\s*nargs;\s*i\+\+\)\s*if\s*\(!cfoldIsConst\(argv\[i\]\)\)\s*return bcall;\s*switch\s*\(tag\)", body))
    ga, gf, other = [], [], []
    for mm in re.finditer(r"((?:case\s+FOAM_BVal_\w+\s*:\s*)+)(.*?)(?=case\s+FOAM_BVal_|default\s*:)", body, re.S):
        names = re.findall(r"FOAM_BVal_(\w+)", mm.group(1))
        first = mm.group(2).strip()
        if first.startswith("{"):
            first = first[1:].strip()
        if re.match(r"if\s*\(!cfoldFoldAll\)\s*break;", first):
            ga += names
        elif re.match(r"if\s*\(!cfoldFoldFloat\)\s*break;", first):
            gf += names
        else:
            other += names
    m = re.search(r"\ncfoldIsConst\(Foam foam\)\s*\{(.*?)\n\}\n", src, re.S)
    data_const = bool(m and re.search(r"if\s*\(tag >= FOAM_DATA_START && tag < FOAM_DATA_LIMIT\)\s*return true;", m.group(1)))
    L = ["(* GENERATED on every run by tools/c02_gen.py from <repo>/aldor/aldor/src/of_cfold.c - do not edit *)",
         "Require Import List String.", "Import ListNotations.", "Local Open Scope string_scope.", "",
         "(* cfoldBCall returns the call unchanged unless every argument satisfies cfoldIsConst *)",
         "Definition cfold_needs_const_args : bool := %s." % ("true" if allconst else "false"),
         "(* cfoldIsConst: every data node is a constant *)",
         "Definition cfold_data_is_const : bool := %s." % ("true" if data_const else "false"),
         "(* cases that start with `if (!cfoldFoldAll) break;` *)",
         "Definition cfold_guard_all : list string := [%s]." % "; ".join(q(n) for n in ga),
         "(* cases that start with `if (!cfoldFoldFloat) break;` *)",
         "Definition cfold_guard_float : list string := [%s]." % "; ".join(q(n) for n in gf),
         "(* cases with another first statement *)",
         "Definition cfold_guard_other : list string := [%s]." % "; ".join(q(n) for n in other)]
    C.write_if_changed(C.COQ + "/Gen/CfoldGuards.v", "\n".join(L) + "\n")
    return {"all": len(ga), "float": len(gf), "other": other}
