#!/bin/sh
# usage: tools/seed_sweep.sh [seed-name ...]     (default: every seeded/<ID>-<n>)
# Applies each kept seeded change to a scratch worktree of /repo's HEAD and runs the quick check of its property
# against it; one line per seed in seeded/SWEEP.txt: caught (exit 1 with a concrete replay), no-input (exit 1, only
# no-failing-input-found), MISSED (exit 0), or n/a (the patch no longer applies to HEAD / was neutralised by a fix).
# Evidence and coq/Gen written by these runs describe changed trees: re-run the checks on /repo afterwards.
WT=/var/tmp/wt-seed
OUT=/verif/seeded/SWEEP.txt
cd /verif
[ $# -gt 0 ] && L="$*" || L=$(ls -d seeded/C*-* | xargs -n1 basename)
[ -d "$WT" ] || git -C /repo worktree add -q --detach "$WT"
echo "# sweep of $(date -u +%FT%TZ) against /repo $(git -C /repo rev-parse --short HEAD)" >> "$OUT"
for s in $L; do
  id=${s%-*}
  git -C "$WT" checkout -q --detach "$(git -C /repo rev-parse HEAD)" && git -C "$WT" checkout -q -- . && git -C "$WT" clean -fdq
  if ! git -C "$WT" apply "/verif/seeded/$s/patch.diff" 2>/dev/null; then echo "$s n/a (patch does not apply to HEAD)" >> "$OUT"; continue; fi
  log=$(VERIF_REPO=$WT timeout 3000 ./check "$id" --tier quick 2>&1); rc=$?
  nv=$(echo "$log" | grep -c "^VIOLATION")
  nn=$(echo "$log" | grep "^VIOLATION" | grep -c "no-failing-input-found")
  if [ $rc -eq 0 ]; then r="MISSED"; elif [ "$nv" -gt "$nn" ]; then r="caught ($nv violations, $((nv-nn)) with a concrete replay)"; else r="no-input ($nv violations)"; fi
  echo "$s $r" >> "$OUT"
done
git -C "$WT" checkout -q -- .
