#!/usr/bin/env python3
"""Regenerate /verif/MANIFEST.json from the MANIFEST dicts of props/cNN.py."""
import importlib, json, os, sys
V = os.path.dirname(os.path.dirname(os.path.abspath(__file__)))
sys.path.insert(0, V)
props = [json.loads(l) for l in open(V + "/properties.jsonl")]
NOT_BUILT = json.load(open(V + "/tools/not_applicable.json")) if os.path.exists(V + "/tools/not_applicable.json") else {}
checks, na, engines = [], [], {}
ENABLED = json.load(open(V + "/tools/enabled.json"))
for p in props:
    pid = p["id"]
    if pid not in ENABLED:
        na.append({"property_id": pid, "reason": NOT_BUILT.get(pid, "check under construction in this round, not yet validated on the unchanged tree (plan: DESIGN.md section 4)")})
        continue
    try:
        mod = importlib.import_module("props." + pid.lower())
    except ModuleNotFoundError:
        na.append({"property_id": pid, "reason": NOT_BUILT.get(pid, "no check built for this property yet (see DESIGN.md section 4 for the plan)")})
        continue
    m = mod.MANIFEST
    if m.get("disabled"):
        na.append({"property_id": pid, "reason": m["disabled"]})
        continue
    c = {"property_id": pid,
         "quick_cmd": "./check %s --tier quick" % pid,
         "thorough_cmd": "./check %s --tier thorough" % pid,
         "evidence_file": "/verif/evidence/%s.json" % pid,
         "replay_cmd_template": "./check %s --replay {path}" % pid,
         "engine": m.get("engine", "coq-model+" + pid.lower()),
         "level_claimed": {"category": mod.LEVEL, "text": m["level_text"], "design_ref": m.get("design_ref", "DESIGN.md section 4, " + pid)},
         "level_note": m["level_note"],
         "technique": m["technique"]}
    checks.append(c)
    engines.setdefault(c["engine"], []).append(pid)
man = {"version": 1,
       "setup_cmd": "./setup.sh",
       "hooks": {"guard": "ALDOR_VERIF",
                 "enable": "checks compile /repo's current sources themselves (gcc -DALDOR_VERIF ...) into a scratch directory under /var/tmp; the in-tree build is never touched",
                 "baseline_off_cmd": "cd /repo/aldor && make -j16 && make -k -j8 check",
                 "source_commits": json.load(open(V + "/tools/hook_commits.json")) if os.path.exists(V + "/tools/hook_commits.json") else [],
                 "add_only": True},
       "engines": [{"name": k, "path": "/verif/props", "serves_properties": v,
                    "kind_free_text": "Coq 8.16.1 model + theorems (coq/), tie = translator and/or correspondence run against /repo's current sources"} for k, v in sorted(engines.items())],
       "checks": checks,
       "notes": "All checks: ./check <ID> --tier quick|thorough. See DESIGN.md. known_findings.json lists recorded defects and fix: commits.",
       "not_applicable": na}
json.dump(man, open(V + "/MANIFEST.json", "w"), indent=1)
print("checks:", [c["property_id"] for c in checks]); print("not claimed:", [n["property_id"] for n in na])
