#!/usr/bin/env python3
"""Print the DESIGN.md table of seeded changes from seeded/*/meta.json."""
import json, os, glob
V = os.path.dirname(os.path.dirname(os.path.abspath(__file__)))
rows = []
for d in sorted(glob.glob(V + "/seeded/*-*")):
    try:
        m = json.load(open(d + "/meta.json"))
    except Exception:
        continue
    lc = m.get("lead_confirmation", {})
    what = str(m.get("what_breaks", "")).replace("\n", " ").replace("|", "/")
    needs = str(m.get("needs_to_manifest", "")).replace("\n", " ").replace("|", "/")
    res = str(lc.get("check_result", "")).replace("\n", " ").replace("|", "/")
    tests = "identical to baseline" if "identical" in str(lc.get("test_suite", "")) else str(lc.get("test_suite", ""))[:40]
    rows.append("| %s | %s | %s | %s | %s |" % (os.path.basename(d), what[:230], needs[:200], res[:330], tests))
print("| seed | what it breaks | needs, to manifest | check result | suite with the change |")
print("|---|---|---|---|---|")
print("\n".join(rows))
