#!/usr/bin/env python3
"""Print the DESIGN.md table of seeded changes from seeded/*/meta.json; with --write, put it between the markers of DESIGN.md."""
import json, os, glob
V = os.path.dirname(os.path.dirname(os.path.abspath(__file__)))
rows = []
for d in sorted(glob.glob(V + "/seeded/*-*")):
    try:
        m = json.load(open(d + "/meta.json"))
    except Exception:
        continue
    lc = m.get("lead_confirmation", {})
    what = str(m.get("what_breaks", "")).replace("\n", " ").replace("|", "/")
    needs = str(m.get("needs_to_manifest", "")).replace("\n", " ").replace("|", "/")
    res = str(lc.get("check_result", "")).replace("\n", " ").replace("|", "/")
    tests = "identical to baseline" if "identical" in str(lc.get("test_suite", "")) else str(lc.get("test_suite", ""))[:40]
    rows.append("| %s | %s | %s | %s | %s |" % (os.path.basename(d), what[:230], needs[:200], res[:330], tests))
TABLE = "\n".join(["| seed | what it breaks | needs, to manifest | check result | suite with the change |",
                   "|---|---|---|---|---|"] + rows)


def write_into_design(table_text, path=None):
    """Replace the text between the seed-table markers of DESIGN.md."""
    import os, re
    path = path or os.path.join(os.path.dirname(os.path.dirname(os.path.abspath(__file__))), "DESIGN.md")
    s = open(path).read()
    a, b = "<!-- seed table begin -->", "<!-- seed table end -->"
    i, j = s.index(a) + len(a), s.index(b)
    open(path, "w").write(s[:i] + "\n" + table_text.strip("\n") + "\n" + s[j:])


if __name__ == "__main__":
    import sys
    if "--write" in sys.argv:
        write_into_design(TABLE)
        print("DESIGN.md: %d seeds" % len(rows))
    else:
        print(TABLE)
