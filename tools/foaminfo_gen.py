"""Translator: foam.h / foam.c / cport.h / lib.h / lib.c of the CURRENT tree -> coq/Gen/FoamInfo.v.

What is translated (never hand-copied): the tag numbering (enum foamTag), the
builtin numbering (enum foamBValTag, three entries used by foamSIntReduce),
foamInfoTable (argc, argf per tag), the format constants (FFO_ORIGIN, FFO_SPAN,
STD_FORMS, IMMED_FORMS, MAX_BYTE, SMALL_BVAL_TAGS), sizeof(BIntS) (compiled
probe), and the library header layout constants of lib.h / lib.c.
Anything the translator cannot read is an error (raise), never a default."""
import os, re, subprocess, tempfile

LETTERS = {'t': 'Lt', 'o': 'Lo', 'p': 'Lp', 'D': 'LD', 'b': 'Lb', 'h': 'Lh', 'w': 'Lw', 'X': 'LX',
           'F': 'LF', 'L': 'LL', 'i': 'Li', 's': 'Ls', 'f': 'Lf', 'd': 'Ld', 'n': 'Ln', 'C': 'LC',
           '!': 'Lbang'}


class GenError(Exception):
    pass


def strip_comments(t):
    t = re.sub(r"/\*.*?\*/", " ", t, flags=re.S)
    return re.sub(r"//[^\n]*", " ", t)


def parse_enum(text, name):
    m = re.search(r"enum\s+%s\s*\{(.*?)\}\s*;" % re.escape(name), text, re.S)
    if not m:
        raise GenError("enum %s not found" % name)
    vals, order, nxt = {}, [], 0
    for item in m.group(1).split(","):
        item = item.strip()
        if not item:
            continue
        mm = re.match(r"^(\w+)\s*(?:=\s*(.+))?$", item, re.S)
        if not mm:
            raise GenError("enum %s: cannot read %r" % (name, item))
        k, e = mm.group(1), mm.group(2)
        if e is not None:
            e = e.strip()
            if re.match(r"^-?\d+$", e):
                nxt = int(e)
            elif e in vals:
                nxt = vals[e]
            else:
                raise GenError("enum %s: cannot evaluate %s = %s" % (name, k, e))
        vals[k] = nxt
        order.append(k)
        nxt += 1
    return vals, order


def define(text, name):
    m = re.search(r"^\s*#\s*define\s+%s\b[ \t]*(.*?)(?:/\*.*)?$" % re.escape(name), text, re.M)
    if not m:
        raise GenError("#define %s not found" % name)
    return m.group(1).strip()


def ceval(expr, env):
    """Evaluate a C constant expression made of integers, names in env, + - * / << ( )."""
    e = strip_comments(expr)
    if not re.match(r"^[\w\s()+\-*/<>]*$", e):
        raise GenError("cannot evaluate %r" % expr)
    def sub(m):
        w = m.group(0)
        if re.match(r"^0[0-7]+$", w):
            return str(int(w, 8))
        if re.match(r"^\d+$", w):
            return w
        if w in env:
            v = env[w]
            return "(%s)" % (ceval(v, env) if isinstance(v, str) else v)
        raise GenError("unknown name %s in %r" % (w, expr))
    e2 = re.sub(r"\w+", sub, e).replace("/", "//")
    return int(eval(e2, {"__builtins__": {}}))


def preprocess(src, header):
    """gcc -E of one header (so that #if inside enums is resolved as in the build)."""
    r = subprocess.run(["gcc", "-E", "-P", "-w", "-I", src, "-include", src + "/axlobs.h", src + "/" + header],
                       capture_output=True, text=True, timeout=120)
    if r.returncode != 0:
        raise GenError("gcc -E %s failed: %s" % (header, r.stderr[-500:]))
    return r.stdout


def probe(src):
    """sizeof(BIntS) and whether SMALL_BVAL_TAGS is true in foam.c's sense, by compiling."""
    code = ('#include "cport.h"\n#include "bigint.h"\n#include <stdio.h>\n'
            'int main(void){printf("%d %d %d\\n",(int)sizeof(BIntS),(int)sizeof(AInt),(int)sizeof(long));return 0;}\n')
    d = tempfile.mkdtemp(prefix="aldor-verif.probe.", dir=os.environ.get("VERIF_SCRATCH", "/var/tmp"))
    try:
        open(d + "/p.c", "w").write(code)
        r = subprocess.run(["gcc", "-w", "-I", src, d + "/p.c", "-o", d + "/p"], capture_output=True,
                           text=True, timeout=120)
        if r.returncode != 0:
            raise GenError("probe does not compile: " + r.stderr[-500:])
        out = subprocess.run([d + "/p"], capture_output=True, text=True, timeout=20).stdout.split()
        return [int(x) for x in out]
    finally:
        subprocess.run(["rm", "-rf", d])


def read(src):
    """Returns a dict with everything the model needs (also used by the Python side)."""
    foam_h = strip_comments(open(src + "/foam.h").read())
    foam_c_raw = open(src + "/foam.c").read()
    foam_c = strip_comments(foam_c_raw)
    cport = strip_comments(open(src + "/cport.h").read())
    lib_h = strip_comments(open(src + "/lib.h").read())
    lib_c = strip_comments(open(src + "/lib.c").read())

    foam_h_pp = preprocess(src, "foam.h")
    tags, tag_order = parse_enum(foam_h_pp, "foamTag")
    bvals, _ = parse_enum(foam_h_pp, "foamBValTag")
    protos, _ = parse_enum(foam_h_pp, "foamProtoTag")

    # foamInfoTable; honour #ifdef NEW_FORMATS
    m = re.search(r"struct\s+foam_info\s+foamInfoTable\s*\[\s*\]\s*=\s*\{(.*?)\n\};", foam_c, re.S)
    if not m:
        raise GenError("foamInfoTable not found")
    body = m.group(1)
    new_formats = re.search(r"^\s*#\s*define\s+NEW_FORMATS\b", foam_c + foam_h, re.M) is not None
    def cond(mm):
        return mm.group(1) if new_formats else mm.group(2)
    body = re.sub(r"#\s*ifdef\s+NEW_FORMATS(.*?)#\s*else(.*?)#\s*endif", cond, body, flags=re.S)
    if "#" in body:
        raise GenError("unexpected preprocessor line inside foamInfoTable")
    nary = ceval(define(foam_c, "FOAM_NARY"), {})
    rows = []
    for rm in re.finditer(r"\{\s*(FOAM_\w+)\s*,\s*0\s*,\s*\"(\w+)\"\s*,\s*([\w-]+)\s*,\s*\"([^\"]*)\"\s*,\s*([\w|]+)\s*\}", body):
        tagname, s, argc, argf, _flags = rm.groups()
        argc = nary if argc == "FOAM_NARY" else int(argc)
        rows.append((tagname, s, argc, argf))
    if len(rows) != body.count("{"):
        raise GenError("foamInfoTable: %d rows read, %d braces" % (len(rows), body.count("{")))
    start = tags["FOAM_START"]
    for i, (tagname, s, argc, argf) in enumerate(rows):
        if tags.get(tagname) != start + i:
            raise GenError("foamInfoTable row %d is %s (= %s), expected tag %d" % (i, tagname, tags.get(tagname), start + i))
        star = argf.endswith("*")
        core = argf[:-1] if star else argf
        if "*" in core or any(c not in LETTERS for c in core):
            raise GenError("argf %r of %s not understood" % (argf, tagname))
    if start + len(rows) != tags["FOAM_LIMIT"]:
        raise GenError("foamInfoTable has %d rows, FOAM_LIMIT-FOAM_START = %d" % (len(rows), tags["FOAM_LIMIT"] - start))

    def name_table(tabname, enum_prefix, vals, start, limit):
        mm = re.search(r"%s\s*\[\s*\]\s*=\s*\{(.*?)\n\};" % tabname, foam_c, re.S)
        if not mm:
            raise GenError("%s not found" % tabname)
        ents = re.findall(r"\{\s*(%s\w+)\s*,\s*0\s*,\s*\"([^\"]*)\"" % enum_prefix, mm.group(1))
        if len(ents) != limit - start:
            raise GenError("%s: %d rows, expected %d" % (tabname, len(ents), limit - start))
        for i, (k, nm) in enumerate(ents):
            if vals.get(k) != start + i:
                raise GenError("%s row %d is %s" % (tabname, i, k))
        return [nm for _, nm in ents]
    ddecls, _ = parse_enum(foam_h_pp, "foamDDeclTag")
    bval_names = name_table("foamBValInfoTable", "FOAM_BVal_", bvals, bvals["FOAM_BVAL_START"], bvals["FOAM_BVAL_LIMIT"])
    proto_names = name_table("foamProtoInfoTable", "FOAM_Proto_", protos, protos["FOAM_PROTO_START"], protos["FOAM_PROTO_LIMIT"])
    ddecl_names = name_table("foamDDeclInfoTable", "FOAM_DDecl_", ddecls, 0, ddecls["FOAM_DDECL_LIMIT"])
    foam_h_raw = strip_comments(open(src + "/foam.h").read())
    slots = {k: ceval(define(foam_h_raw, k), {}) for k in ("globalsSlot", "constsSlot")}

    env = dict(tags)
    env["BYTE_BITS"] = ceval(define(cport, "BYTE_BITS"), {})
    for k in ("BYTE_BYTES", "HINT_BYTES", "SINT_BYTES"):
        env[k] = ceval(define(cport, k), {})
    env["MAX_BYTE"] = ceval(define(cport, "MAX_BYTE"), env)
    env["FFO_ORIGIN"] = ceval(define(foam_c, "FFO_ORIGIN"), env)
    env["FFO_SPAN"] = ceval(define(foam_c, "FFO_SPAN"), env)
    env["STD_FORMS"] = ceval(define(foam_c, "STD_FORMS"), env)
    env["IMMED_FORMS"] = ceval(define(foam_c, "IMMED_FORMS"), env)
    # the format macros themselves are modelled by hand; pin their text
    macros = {}
    for k, want in (("FOAM_FORMAT_GET_X(tag)", "(((tag)-FFO_ORIGIN)/FFO_SPAN)"),
                    ("FOAM_FORMAT_PUT(tag, fmt)", "((tag) + (fmt)*FFO_SPAN)"),
                    ("FOAM_FORMAT_REMOVE(tag,fmt)", "((tag) - (fmt)*FFO_SPAN)")):
        nm = k.split("(")[0]
        mm = re.search(r"#\s*define\s+%s\(([^)]*)\)\s*(.*)" % nm, foam_c)
        if not mm:
            raise GenError("macro %s not found" % nm)
        got = re.sub(r"\s+", "", mm.group(2))
        macros[nm] = got
        if got != re.sub(r"\s+", "", want):
            raise GenError("macro %s changed: %s" % (nm, got))
    mm = re.search(r"#\s*define\s+FOAM_FORMAT_FOR\(n\)\s*\\\s*\n\s*(.*)", foam_c)
    if not mm or re.sub(r"\s+", "", mm.group(1)) != "((long)(n)<=MAX_BYTE?1:0)":
        raise GenError("macro FOAM_FORMAT_FOR changed")
    small_bval = re.search(r"^\s*#\s*define\s+SMALL_BVAL_TAGS\b(.*)$", foam_c + "\n" + foam_h + "\n" + cport, re.M)
    if small_bval and small_bval.group(1).strip() not in ("1",):
        raise GenError("SMALL_BVAL_TAGS defined in a way the translator does not understand")
    bval_bytes = 1 if small_bval else 2
    sz_bints, sz_aint, sz_long = probe(src)
    if sz_bints % 2 or sz_bints < 2:
        raise GenError("sizeof(BIntS) = %d" % sz_bints)

    # library header
    sects, sect_order = parse_enum(preprocess(src, "lib.h"), "libSectName")
    lenv = dict(sects)
    lenv.update({k: env[k] for k in ("BYTE_BYTES", "HINT_BYTES", "SINT_BYTES")})
    lenv["LIB_INDEX_LIMIT"] = ceval(define(lib_h, "LIB_INDEX_LIMIT"), lenv)
    lenv["LIB_INDEX_START"] = ceval(define(lib_h, "LIB_INDEX_START"), lenv)
    lenv["LIB_HDR_LIMIT"] = ceval(define(lib_h, "LIB_HDR_LIMIT"), lenv)
    lenv["libSectSize"] = ceval(define(lib_c, "libSectSize"), lenv)
    mm = re.search(r"#\s*define\s+libHdrSize\s*\\\s*\n\s*(.*)", lib_c)
    if not mm:
        raise GenError("libHdrSize not found")
    lenv["libHdrSize"] = ceval(mm.group(1), lenv)
    def static_short(nm):
        m2 = re.search(r"static\s+UShort\s+%s\s*=\s*(\w+)\s*;" % nm, lib_c)
        if not m2:
            raise GenError("%s not found" % nm)
        return ceval(m2.group(1), {})
    lib = {"magic": static_short("libHdrMagic"), "major": static_short("libMajorVersion"),
           "minor": static_short("libMinorVersion"), "name_limit": sects["LIB_NAME_LIMIT"],
           "index_limit": lenv["LIB_INDEX_LIMIT"], "hdr_limit": lenv["LIB_HDR_LIMIT"],
           "sect_size": lenv["libSectSize"], "hdr_size": lenv["libHdrSize"]}
    if lib["name_limit"] != lib["index_limit"] or lenv["LIB_INDEX_START"] != 0 or sects["LIB_NAME_START"] != 0:
        raise GenError("LIB_INDEX_LIMIT / LIB_NAME_LIMIT / *_START not as modelled")
    sm = re.search(r"libSectInfoTable\s*\[\s*\]\s*=\s*\{(.*?)\};", lib_c, re.S)
    names = re.findall(r"\{\s*(LIB_\w+)\s*,\s*\"(\w+)\"", sm.group(1)) if sm else []
    sect_names = [None] * lib["name_limit"]
    for k, s in names:
        sect_names[sects[k]] = s
    if None in sect_names:
        raise GenError("libSectInfoTable incomplete")

    return {"tags": tags, "rows": rows, "bvals": bvals, "protos": protos, "env": env,
            "bval_bytes": bval_bytes, "u16_per_digit": sz_bints // 2, "sizeof_aint": sz_aint,
            "lib": lib, "sect_names": sect_names, "foam_start": start,
            "bval_names": bval_names, "proto_names": proto_names, "ddecl_names": ddecl_names, "slots": slots,
            "bval_start": bvals["FOAM_BVAL_START"], "proto_start": protos["FOAM_PROTO_START"]}


def render(info):
    t, env, lib = info["tags"], info["env"], info["lib"]
    L = []
    L.append("(* GENERATED by tools/foaminfo_gen.py from foam.h, foam.c, cport.h, lib.h, lib.c of the")
    L.append("   current tree on every run.  Do not edit. *)")
    L.append("Require Import ZArith List.")
    L.append("Require Import AV.Foam.Buf AV.Foam.Syntax AV.Foam.LibHdr AV.Foam.SExpr.")
    L.append("Import ListNotations.")
    L.append("Local Open Scope Z_scope.")
    L.append("")
    L.append("Definition foam_table : list info_row := [")
    rows = []
    for tagname, s, argc, argf in info["rows"]:
        star = argf.endswith("*")
        core = argf[:-1] if star else argf
        rows.append("  (* %3d %-8s %-18s *) mkRow (%d) [%s] %s" % (
            t[tagname], s, '"%s"' % argf, argc, "; ".join(LETTERS[c] for c in core), "true" if star else "false"))
    L.append(";\n".join(rows))
    L.append("].")
    L.append("")
    def T(n):
        return "(%d)" % t["FOAM_" + n]
    L.append("Definition FP : foam_params := mkFoamParams foam_table")
    L.append("  (* FOAM_LIMIT *) (%d) (* FFO_ORIGIN *) (%d) (* FFO_SPAN *) (%d)" % (t["FOAM_LIMIT"], env["FFO_ORIGIN"], env["FFO_SPAN"]))
    L.append("  (* STD_FORMS *) (%d) (* IMMED_FORMS *) (%d)" % (env["STD_FORMS"], env["IMMED_FORMS"]))
    L.append("  (* FOAM_INDEX_START *) (%d) (* FOAM_INDEX_LIMIT *) (%d)" % (t["FOAM_INDEX_START"], t["FOAM_INDEX_LIMIT"]))
    L.append("  (* FOAM_START, FOAM_BVAL_START, FOAM_PROTO_START *) (%d) (%d) (%d)" % (info["foam_start"], info["bval_start"], info["proto_start"]))
    L.append("  (* bytes of a builtin tag *) (%d) (* MAX_BYTE *) (%d) (* sizeof(BIntS)/2 *) (%d)" % (info["bval_bytes"], env["MAX_BYTE"], info["u16_per_digit"]))
    L.append("  (* Char SInt Unimp Decl GDecl BInt *) %s %s %s %s %s %s" % (T("Char"), T("SInt"), T("Unimp"), T("Decl"), T("GDecl"), T("BInt")))
    L.append("  (* Rec DEnv DFluid *) %s %s %s" % (T("Rec"), T("DEnv"), T("DFluid")))
    L.append("  (* Lex RElt RRElt EElt IRElt TRElt *) %s %s %s %s %s %s" % (T("Lex"), T("RElt"), T("RRElt"), T("EElt"), T("IRElt"), T("TRElt")))
    L.append("  (* Prog BCall *) %s %s" % (T("Prog"), T("BCall")))
    b = info["bvals"]
    L.append("  (* BVal SIntShiftUp SIntOr SIntNegate *) (%d) (%d) (%d)." % (
        b["FOAM_BVal_SIntShiftUp"], b["FOAM_BVal_SIntOr"], b["FOAM_BVal_SIntNegate"]))
    L.append("")
    def names(nm, lst):
        L.append("Definition %s : list bytes := [" % nm)
        L.append(";\n".join("  (* %s *) [%s]" % (x, "; ".join(str(b) for b in x.encode())) for x in lst))
        L.append("].")
        L.append("")
    names("tag_names", [r[1] for r in info["rows"]])
    names("bval_names", info["bval_names"])
    names("proto_names", info["proto_names"])
    names("ddecl_names", info["ddecl_names"])
    L.append("Definition TP : text_params := mkTextParams tag_names bval_names proto_names ddecl_names")
    L.append("  (* Unit Par Loc Glo Const EElt *) %s %s %s %s %s %s" % (T("Unit"), T("Par"), T("Loc"), T("Glo"), T("Const"), T("EElt")))
    L.append("  (* globalsSlot constsSlot *) (%d) (%d)." % (info["slots"]["globalsSlot"], info["slots"]["constsSlot"]))
    L.append("")
    L.append("Definition LP : lib_params := mkLibParams")
    L.append("  (* libHdrMagic *) (%d) (* libMajorVersion *) (%d) (* libMinorVersion *) (%d)" % (lib["magic"], lib["major"], lib["minor"]))
    L.append("  (* LIB_NAME_LIMIT *) (%d) (* LIB_HDR_LIMIT *) (%d) (* libSectSize *) (%d) (* libHdrSize *) (%d)." % (
        lib["name_limit"], lib["hdr_limit"], lib["sect_size"], lib["hdr_size"]))
    L.append("")
    return "\n".join(L)


def generate(src):
    info = read(src)
    return info, render(info)


if __name__ == "__main__":
    import sys
    print(generate(sys.argv[1] if len(sys.argv) > 1 else "/repo/aldor/aldor/src")[1])
