#!/usr/bin/env python3
"""Translator for property C04: reads the parallel builtin tables of the
Aldor compiler *as they are now* and writes coq/Gen/Builtins.v.

  foam.c      foamBValInfoTable          -> bval_sig   (name, argument types, result type)
  of_cfold.c  cfoldBCall  (switch)       -> cfold_tbl  (compile-time folder)
  fint.c      fintEvalBCall (switch)     -> fint_tbl   (byte-code interpreter)
  genc.c      ccBValInfoTable + the dispatch in gc0Builtin/gc0FCall/gc0Cop/gc0SIntMod
              foam_c.h fi* macros, one-line leaf functions of foam_c.c/foam_i.c
                                         -> genc_tbl   (generated C + runtime)

Every row carries a deep embedding `cexp` of the C expression that computes
the result (operand i = `Arg i <C type>`); what cannot be translated becomes
`Opaque "<text>"`; a case that deliberately leaves the call in place becomes
`Declined`.  tools/builtins_translated.json is the committed list of entries
that translate: an entry that used to translate and no longer does is a broken
tie (reported by props/c04.py).
"""
import json, os, re, subprocess, sys, tempfile, hashlib

sys.path.insert(0, os.path.dirname(os.path.abspath(__file__)))
import cexpr
from cexpr import CParseError

HERE = os.path.dirname(os.path.abspath(__file__))
TRANSLATED_JSON = os.path.join(HERE, "builtins_translated.json")

# ------------------------------------------------------------------ text helpers


def strip_comments(t):
    return re.sub(r"/\*.*?\*/", lambda m: " " * 0 + re.sub(r"[^\n]", " ", m.group(0)), t, flags=re.S)


def read(src, name):
    with open(os.path.join(src, name), errors="replace") as f:
        return f.read()


def function_body(text, name):
    """Body (text between the outermost braces) of the C function `name`
    defined at top level as  `name(...)\\n{`."""
    m = re.search(r"^%s\s*\([^)]*\)\s*\n\{" % re.escape(name), text, re.M)
    if not m:
        raise RuntimeError("function %s not found" % name)
    i = m.end()
    depth = 1
    j = i
    while depth:
        c = text[j]
        if c == "{":
            depth += 1
        elif c == "}":
            depth -= 1
        elif c == '"':
            j += 1
            while text[j] != '"':
                j += 2 if text[j] == "\\" else 1
        elif c == "'":
            j += 1
            while text[j] != "'":
                j += 2 if text[j] == "\\" else 1
        j += 1
    return text[i:j - 1]


def norm_hash(t):
    return hashlib.sha1(re.sub(r"\s+", " ", strip_comments(t)).strip().encode()).hexdigest()[:16]


def switch_cases(body, prefix="FOAM_BVal_"):
    """Split the body of a function containing one big `switch` into
    [(case name, statements text)] for the `case <prefix>X:` labels at the
    brace depth of that switch (nested switches are left inside the chunk)."""
    m = re.search(r"switch\s*\([^)]*\)\s*\{", body)
    if not m:
        raise RuntimeError("no switch")
    pos = m.end()
    depth = 1
    labels = []          # (start of label, end of label, name or None for default)
    i = pos
    n = len(body)
    lab = re.compile(r"(case\s+(%s\w+)\s*:|default\s*:)" % prefix)
    while i < n and depth > 0:
        c = body[i]
        if c == "{":
            depth += 1
        elif c == "}":
            depth -= 1
            if depth == 0:
                break
        elif c == '"':
            i += 1
            while body[i] != '"':
                i += 2 if body[i] == "\\" else 1
        elif c == "'":
            i += 1
            while body[i] != "'":
                i += 2 if body[i] == "\\" else 1
        elif depth == 1 and (c == "c" or c == "d") and (i == 0 or not (body[i - 1].isalnum() or body[i - 1] == "_")):
            mm = lab.match(body, i)
            if mm:
                labels.append((mm.start(), mm.end(), mm.group(2)))
                i = mm.end()
                continue
        i += 1
    end = i
    out = []
    for k, (s, e, name) in enumerate(labels):
        stop = labels[k + 1][0] if k + 1 < len(labels) else end
        out.append((name, body[e:stop]))
    # labels that fall through to the next label share its chunk
    res = []
    pending = []
    for name, chunk in out:
        if chunk.strip() == "":
            pending.append(name)
            continue
        for p in pending + [name]:
            if p is not None:
                res.append((p[len(prefix):], chunk))
        pending = []
    return res


def statements(chunk):
    """Top-level `;`-separated statements of a case chunk; None if the chunk
    has braces (compound statements are outside the subset)."""
    if "{" in chunk or "}" in chunk:
        return None
    return [s.strip() for s in chunk.split(";") if s.strip()]


# ------------------------------------------------------------------ C types

CTYS = ["U8", "S8", "S16", "S32", "U32", "S64", "U64", "F32", "F64", "PTR"]

BASE_CTY = {
    "char": "S8", "signed char": "S8", "unsigned char": "U8",
    "short": "S16", "short int": "S16", "unsigned short": "U16",
    "int": "S32", "signed": "S32", "signed int": "S32", "unsigned": "U32", "unsigned int": "U32",
    "long": "S64", "long int": "S64", "unsigned long": "U64", "unsigned long int": "U64",
    "float": "F32", "double": "F64",
}

PROBE_TYPES = ["AInt", "Bool", "UByte", "ULong", "SFloat", "DFloat", "Length", "BInt", "String",
               "FiWord", "FiArb", "FiPtr", "FiBool", "FiByte", "FiHInt", "FiSInt", "FiChar",
               "FiArr", "FiRec", "FiBInt", "FiSFlo", "FiDFlo", "FiNil", "FiClos", "FiTR", "Ptr",
               "Pointer", "Foam"]


def probe_types(src):
    """Ask the C compiler for size / signedness / class of every typedef name
    the tables use (so a changed typedef changes the generated model)."""
    prog = ['#include "axlgen.h"', '#include "bigint.h"', '#include "foam.h"', '#include "foam_c.h"',
            "#include <stdio.h>", "int main(void){"]
    for t in PROBE_TYPES:
        prog.append('  printf("%s %%d %%d %%d\\n", (int)sizeof(%s), __builtin_classify_type((%s)0), '
                    '__builtin_classify_type((%s)0)==8 ? 0 : (int)((%s)-1 < (%s)0));' % (t, t, t, t, t, t))
    prog.append("  return 0; }")
    d = tempfile.mkdtemp(prefix="aldor-verif.probe.", dir=os.environ.get("VERIF_SCRATCH", "/var/tmp"))
    try:
        with open(d + "/p.c", "w") as f:
            f.write("\n".join(prog))
        r = subprocess.run(["gcc", "-w", "-std=gnu99", "-I", src, d + "/p.c", "-o", d + "/p"],
                           capture_output=True, text=True, timeout=120)
        if r.returncode != 0:
            raise RuntimeError("type probe does not compile:\n" + r.stderr[-2000:])
        out = subprocess.run([d + "/p"], capture_output=True, text=True, timeout=20).stdout
    finally:
        import shutil
        shutil.rmtree(d, ignore_errors=True)
    res = {}
    for line in out.split("\n"):
        if not line.strip():
            continue
        name, size, cls, sgn = line.split()
        size, cls, sgn = int(size), int(cls), int(sgn)
        if cls == 5:
            res[name] = "PTR"
        elif cls == 8:
            res[name] = {4: "F32", 8: "F64"}[size]
        else:
            res[name] = ("S" if sgn else "U") + str(size * 8)
    return res


class Types:
    def __init__(self, src):
        self.named = probe_types(src)

    def names(self):
        return list(self.named) + ["SExpr", "FoamTag", "dataType"]

    def cty(self, text):
        t = re.sub(r"\b(const|volatile|register|extern|static|local)\b", " ", text)
        t = " ".join(t.split())
        if "*" in t:
            return "PTR"
        if t in BASE_CTY:
            r = BASE_CTY[t]
        elif t in self.named:
            r = self.named[t]
        else:
            raise CParseError("unknown C type %r" % text)
        if r not in CTYS:
            raise CParseError("C type %r (%s) outside the modelled set" % (text, r))
        return r


# ------------------------------------------------------------------ macros and leaf functions

def parse_defines(text):
    """#define NAME[(params)] body  (continuation lines joined)."""
    text = strip_comments(text).replace("\\\n", " ")
    d = {}
    for m in re.finditer(r"^[ \t]*#[ \t]*define[ \t]+([A-Za-z_]\w*)(\(([^)]*)\))?[ \t]*(.*)$", text, re.M):
        name, has, params, body = m.group(1), m.group(2), m.group(3), m.group(4).strip()
        if has is not None:
            ps = [p.strip() for p in params.split(",")] if params.strip() else []
            d[name] = (ps, body)
        else:
            d[name] = (None, body)
    return d


def parse_leaf_functions(text):
    """Top-level functions of the form
         RetType\\nname(T1 a, T2 b)\\n{\\n  return <expr>;\\n}
       -> name -> (ret type text, [(type text, param)], return expression text)."""
    text = strip_comments(text)
    out = {}
    for m in re.finditer(r"^([A-Za-z_][\w \t\*]*?)[ \t]*[\n \t]([A-Za-z_]\w*)\s*\(([^)]*)\)\s*\n\{(.*?)\n\}", text, re.M | re.S):
        ret, name, params, body = m.group(1).strip(), m.group(2), m.group(3).strip(), m.group(4).strip()
        mm = re.fullmatch(r"return\s+(.*?);", body, re.S)
        if not mm:
            continue
        ps = []
        ok = True
        if params and params != "void":
            for p in params.split(","):
                p = p.strip()
                pm = re.fullmatch(r"(.*?)([A-Za-z_]\w*)", p, re.S)
                if not pm or not pm.group(1).strip():
                    ok = False
                    break
                ps.append((pm.group(1).strip(), pm.group(2)))
        if ok:
            out[name] = (ret, ps, mm.group(1))
    return out


def parse_multi_functions(text):
    """void functions returning through pointer parameters:
         name -> ([(type text, param, is_pointer)], body text)   (body translated at the call site)"""
    text = strip_comments(text)
    out = {}
    for m in re.finditer(r"^void\s*\n?([A-Za-z_]\w*)\s*\(([^)]*)\)\s*\n\{(.*?)\n\}", text, re.M | re.S):
        name, params, body = m.group(1), m.group(2), m.group(3)
        ps = []
        ok = True
        for q in params.split(","):
            q = " ".join(q.split())
            pm = re.fullmatch(r"(.*?)(\*?)\s*([A-Za-z_]\w*)", q)
            if not pm or not pm.group(1).strip():
                ok = False
                break
            ps.append((pm.group(1).strip(), pm.group(3), pm.group(2) == "*"))
        if ok and any(p[2] for p in ps):
            out[name] = (ps, body)
    return out


def inline_multi(fname, arg_irs, cx, depth=0):
    """Outputs (in pointer-parameter order) of a straight-line multi-result function applied to the
    translated inputs.  Anything but declarations, assignments, `v op= e`, `*p = e`, calls of other
    such functions with `&v` outputs and `return` is outside the subset."""
    if depth > 6:
        raise CParseError("multi-function recursion")
    ps, body = cx.multis[fname]
    ins = [p for p in ps if not p[2]]
    outs = [p for p in ps if p[2]]
    if len(ins) != len(arg_irs):
        raise CParseError("%s: %d inputs expected" % (fname, len(ins)))
    if "{" in body or "}" in body:
        raise CParseError("%s: compound statement" % fname)
    env = {p[1]: ("cast", cx.types.cty(p[0]), a) for p, a in zip(ins, arg_irs)}
    vty = {p[1]: cx.types.cty(p[0]) for p in ps}
    res = {}
    for s in [x.strip() for x in body.split(";") if x.strip()]:
        if s == "return":
            break
        m = re.fullmatch(r"([A-Za-z_][\w ]*?)\s+((?:[A-Za-z_]\w*\s*,\s*)*[A-Za-z_]\w*)", s)
        if m and (m.group(1) in cx.types.named or m.group(1) in BASE_CTY):
            for v in m.group(2).split(","):
                vty[v.strip()] = cx.types.cty(m.group(1))
            continue
        m = re.fullmatch(r"\*\s*([A-Za-z_]\w*)\s*=\s*(.*)", s, re.S)
        if m and m.group(1) in [o[1] for o in outs]:
            res[m.group(1)] = ("cast", vty[m.group(1)], tr(cx.parse(m.group(2)), cx, env))
            continue
        m = re.fullmatch(r"([A-Za-z_]\w*)\s*(\+|-|\*)?=\s*(.*)", s, re.S)
        if m and m.group(1) in vty and not m.group(3).startswith("="):
            v, op, rhs = m.group(1), m.group(2), tr(cx.parse(m.group(3)), cx, env)
            if op:
                if v not in env:
                    raise CParseError("%s: %s used before it is set" % (fname, v))
                rhs = ("bin", BINOPS[op], env[v], rhs)
            env[v] = ("cast", vty[v], rhs)
            continue
        m = re.fullmatch(r"([A-Za-z_]\w*)\s*\((.*)\)", s, re.S)
        if m and m.group(1) in cx.multis:
            actual = [a.strip() for a in split_args(m.group(2))]
            gps = cx.multis[m.group(1)][0]
            if len(actual) != len(gps):
                raise CParseError("%s: call of %s" % (fname, m.group(1)))
            gin, gout = [], []
            for a, gp in zip(actual, gps):
                if gp[2]:
                    am = re.fullmatch(r"&\s*([A-Za-z_]\w*)", a)
                    if not am or am.group(1) not in vty:
                        raise CParseError("%s: output argument %s" % (fname, a))
                    gout.append(am.group(1))
                else:
                    gin.append(tr(cx.parse(a), cx, env))
            vals = inline_multi(m.group(1), gin, cx, depth + 1)
            for v, val in zip(gout, vals):
                env[v] = ("cast", vty[v], val)
            continue
        raise CParseError("%s: statement outside the subset: %s" % (fname, s[:60]))
    if any(o[1] not in res for o in outs):
        raise CParseError("%s: an output is never assigned" % fname)
    return [simp(res[o[1]]) for o in outs]


# ------------------------------------------------------------------ IR

LIBC = {"isdigit": 1, "isalpha": 1, "tolower": 1, "toupper": 1}

UNOPS = {"-": "Neg", "~": "BNot", "!": "LNot", "+": "UPlus"}
BINOPS = {"+": "Add", "-": "Sub", "*": "Mul", "/": "Div", "%": "Mod", "<<": "Shl", ">>": "Shr",
          "&": "BAnd", "|": "BOr", "^": "BXor", "&&": "LAnd", "||": "LOr",
          "==": "Eq", "!=": "Ne", "<": "Lt", "<=": "Le", ">": "Gt", ">=": "Ge"}


class Ctx:
    multis = {}

    def __init__(self, types, macros, leafs, operand):
        self.types, self.macros, self.leafs, self.operand = types, macros, leafs, operand
        self.depth = 0

    def parse(self, text):
        return cexpr.parse(text, self.types.names())


def num_lit(text):
    t = text
    if re.search(r"[.eE]", t) and not t.lower().startswith("0x"):
        suf = "F32" if t[-1] in "fF" else "F64"
        return ("flit", t.rstrip("fFlL"), suf)
    m = re.fullmatch(r"(0[xX][0-9a-fA-F]+|\d+)([uUlL]*)", t)
    if not m:
        raise CParseError("literal " + text)
    v = int(m.group(1), 0) if not (m.group(1).startswith("0") and len(m.group(1)) > 1 and m.group(1)[1] not in "xX") \
        else int(m.group(1), 8)
    s = m.group(2).lower()
    u = "u" in s
    l = "l" in s
    if l:
        ty = "U64" if u else "S64"
    elif u:
        ty = "U32" if v < 2 ** 32 else "U64"
    else:
        ty = "S32" if v < 2 ** 31 else "S64"
    return ("lit", v, ty)


def tr(e, cx, env=None):
    """C AST -> IR.  env: identifier -> IR (already translated actuals)."""
    env = env or {}
    k = e[0]
    op = cx.operand(e)
    if op is not None:
        return op
    if k == "num":
        return num_lit(e[1])
    if k == "chr":
        return ("lit", e[1], "S32")
    if k == "id":
        n = e[1]
        if n in env:
            return env[n]
        if n in cx.macros and cx.macros[n][0] is None:
            cx.depth += 1
            if cx.depth > 40:
                raise CParseError("macro recursion")
            try:
                return tr(cx.parse(cx.macros[n][1]), cx, {})
            finally:
                cx.depth -= 1
        return ("glob", n)
    if k == "cast":
        return ("cast", cx.types.cty(e[1]), tr(e[2], cx, env))
    if k == "un":
        if e[1] not in UNOPS:
            raise CParseError("unary " + e[1])
        a = tr(e[2], cx, env)
        if e[1] == "+":
            return a
        return ("un", UNOPS[e[1]], a)
    if k == "bin":
        return ("bin", BINOPS[e[1]], tr(e[2], cx, env), tr(e[3], cx, env))
    if k == "cond":
        return ("cond", tr(e[1], cx, env), tr(e[2], cx, env), tr(e[3], cx, env))
    if k == "call":
        if e[1][0] != "id":
            raise CParseError("indirect call")
        f = e[1][1]
        args = [tr(a, cx, env) for a in e[2]]
        if f in cx.macros and cx.macros[f][0] is not None:
            ps, body = cx.macros[f]
            if len(ps) != len(args):
                raise CParseError("macro %s arity" % f)
            cx.depth += 1
            if cx.depth > 40:
                raise CParseError("macro recursion")
            try:
                return tr(cx.parse(body), cx, dict(zip(ps, args)))
            finally:
                cx.depth -= 1
        if f in cx.leafs:
            ret, ps, body = cx.leafs[f]
            if len(ps) != len(args):
                raise CParseError("function %s arity" % f)
            cx.depth += 1
            if cx.depth > 40:
                raise CParseError("inline recursion")
            try:
                env2 = {p: ("cast", cx.types.cty(t), a) for (t, p), a in zip(ps, args)}
                return ("cast", cx.types.cty(ret), tr(cx.parse(body), cx, env2))
            finally:
                cx.depth -= 1
        return ("call", f, args)
    if k == "sizeof":
        return ("lit", {"U8": 1, "S8": 1, "S16": 2, "S32": 4, "U32": 4, "S64": 8, "U64": 8, "F32": 4, "F64": 8,
                        "PTR": 8}[cx.types.cty(e[1])], "U64")
    raise CParseError("outside the subset: " + cexpr.show(e))


def simp(e):
    """Meaning-preserving clean-up: a cast to the type the operand already has."""
    k = e[0]
    if k == "cast":
        a = simp(e[2])
        if a[0] == "cast" and a[1] == e[1]:
            return a
        if a[0] == "arg" and a[2] == e[1]:
            return a
        if a[0] == "lit" and a[2] == e[1]:
            return a
        return ("cast", e[1], a)
    if k == "un":
        return ("un", e[1], simp(e[2]))
    if k == "bin":
        a, b = simp(e[2]), simp(e[3])
        if a[0] == "lit" and b[0] == "lit" and e[1] in ("Add", "Sub", "Mul", "Div", "Shl"):
            c = const_bin(e[1], a, b)
            if c is not None:
                return c
        return ("bin", e[1], a, b)
    if k == "cond":
        return ("cond", simp(e[1]), simp(e[2]), simp(e[3]))
    if k == "call":
        return ("call", e[1], [simp(a) for a in e[2]])
    if k == "guard":
        return ("guard", simp(e[1]), simp(e[2]))
    return e


INT_RANGE = {"U8": (0, 255), "S8": (-128, 127), "S16": (-2 ** 15, 2 ** 15 - 1), "S32": (-2 ** 31, 2 ** 31 - 1),
             "U32": (0, 2 ** 32 - 1), "S64": (-2 ** 63, 2 ** 63 - 1), "U64": (0, 2 ** 64 - 1)}


def c_promote(t):
    return "S32" if t in ("U8", "S8", "S16", "S32") else t


def c_join(a, b):
    a, b = c_promote(a), c_promote(b)
    for t in ("U64", "S64", "U32"):
        if t in (a, b):
            return t
    return "S32"


def const_bin(op, a, b):
    """An integer constant expression of two literals, with C's typing (as CInt.v); only when the
    result is representable, so that no wrap-around is decided here."""
    if a[2] not in INT_RANGE or b[2] not in INT_RANGE:
        return None
    ty = c_promote(a[2]) if op == "Shl" else c_join(a[2], b[2])
    x, y = a[1], b[1]
    if op == "Add":
        v = x + y
    elif op == "Sub":
        v = x - y
    elif op == "Mul":
        v = x * y
    elif op == "Div":
        if y == 0 or x < 0 or y < 0:
            return None
        v = x // y
    else:
        if not 0 <= y < (64 if ty in ("S64", "U64") else 32) or x < 0:
            return None
        v = x << y
    lo, hi = INT_RANGE[ty]
    if not (lo <= x <= hi and lo <= y <= hi and lo <= v <= hi):
        return None
    return ("lit", v, ty)


def has_kind(e, kinds):
    if e[0] in kinds:
        return True
    for x in e[1:]:
        if isinstance(x, tuple) and has_kind(x, kinds):
            return True
        if isinstance(x, list) and any(has_kind(y, kinds) for y in x):
            return True
    return False


def coq_string(s):
    s = re.sub(r"\s+", " ", s)
    s = "".join(c if 32 <= ord(c) < 127 else "?" for c in s)
    return '"' + s.replace('"', '""') + '"'


def coq(e):
    k = e[0]
    if k == "arg":
        return "(Arg %d %s)" % (e[1], e[2])
    if k == "lit":
        return "(Lit (%d) %s)" % (e[1], e[2])
    if k == "flit":
        return "(FLit %s %s)" % (coq_string(e[1]), e[2])
    if k == "glob":
        return "(Glob %s)" % coq_string(e[1])
    if k == "cast":
        return "(Cast %s %s)" % (e[1], coq(e[2]))
    if k == "un":
        return "(Un %s %s)" % (e[1], coq(e[2]))
    if k == "bin":
        return "(Bin %s %s %s)" % (e[1], coq(e[2]), coq(e[3]))
    if k == "cond":
        return "(Cond %s %s %s)" % (coq(e[1]), coq(e[2]), coq(e[3]))
    if k == "call":
        args = "ANil"
        for a in reversed(e[2]):
            args = "(ACons %s %s)" % (coq(a), args)
        return "(Call %s %s)" % (coq_string(e[1]), args)
    if k == "opaque":
        return "(Opaque %s)" % coq_string(e[1][:160])
    if k == "declined":
        return "Declined"
    if k == "guard":
        return "(Guard %s %s)" % (coq(e[1]), coq(e[2]))
    raise RuntimeError(e)


# ------------------------------------------------------------------ foamBValInfoTable

FTY = {"FOAM_Bool": "FBool", "FOAM_Char": "FChar", "FOAM_Byte": "FByte", "FOAM_HInt": "FHInt",
       "FOAM_SInt": "FSInt", "FOAM_Word": "FWord", "FOAM_BInt": "FBInt", "FOAM_SFlo": "FSFlo",
       "FOAM_DFlo": "FDFlo", "FOAM_Ptr": "FPtr", "FOAM_Arr": "FArr", "FOAM_NOp": "FNOp",
       "FOAM_Nil": "FNil", "FOAM_Clos": "FClos", "FOAM_Rec": "FRec", "FOAM_Arb": "FArb"}


def parse_bval_sig(src):
    text = strip_comments(read(src, "foam.c"))
    m = re.search(r"struct\s+foamBVal_info\s+foamBValInfoTable\s*\[\]\s*=\s*\{(.*?)\n\};", text, re.S)
    if not m:
        raise RuntimeError("foamBValInfoTable not found")
    body = m.group(1)
    rows = []
    rx = re.compile(r"\{\s*FOAM_BVal_(\w+)\s*,\s*0\s*,\s*\"(\w+)\"\s*,\s*(\d)\s*,\s*(\d+)\s*,\s*\{([^}]*)\}\s*,"
                    r"\s*(FOAM_\w+)\s*,\s*(\d+)\s*,\s*\{([^}]*)\}\s*\}", re.S)
    for mm in rx.finditer(body):
        tag, name, sfx, argc, argt, ret, retc, rets = mm.groups()
        argc = int(argc)
        ats = [a.strip() for a in argt.split(",") if a.strip()]
        ats = [] if argc == 0 else ats[:argc]
        if len(ats) != argc:
            raise RuntimeError("argument types of %s" % name)
        rows.append({"name": name, "tag": tag, "sidefx": int(sfx),
                     "args": [FTY.get(a, "FOther") for a in ats],
                     "ret": FTY.get(ret, "FOther") if int(retc) == 1 else "FMulti",
                     "retc": int(retc),
                     "rets": [FTY.get(x.strip(), "FOther") for x in rets.split(",") if x.strip()][:int(retc)]
                     if int(retc) > 1 else []})
    # every enumerator of foam.h must have a row
    enum = re.findall(r"\bFOAM_BVal_(\w+)\s*[,=]", strip_comments(read(src, "foam.h")))
    return rows, enum


# ------------------------------------------------------------------ route: folder

CFOLD_FIELD = {"BoolData": "S64", "CharData": "S64", "ByteData": "S64", "HIntData": "S64",
               "SIntData": "S64", "SFloData": "F32", "DFloData": "F64", "BIntData": "PTR"}
CFOLD_NEW = {"foamNewBool": "FBool", "foamNewChar": "FChar", "foamNewByte": "FByte",
             "foamNewHInt": "FHInt", "foamNewSInt": "FSInt", "foamNewSFlo": "FSFlo",
             "foamNewDFlo": "FDFlo", "foamNewBInt": "FBInt"}


def cfold_operand_resolver(types):
    # the data fields of the FOAM constant nodes are AInt / SFloat / DFloat / BInt
    fld = dict(CFOLD_FIELD)
    for f in ("BoolData", "CharData", "ByteData", "HIntData", "SIntData"):
        fld[f] = types.cty("AInt")
    fld["SFloData"] = types.cty("SFloat")
    fld["DFloData"] = types.cty("DFloat")

    def op(e):
        # argv[i]->foamX.XData
        if e[0] == "mem" and e[1][0] == "mem" and e[1][1][0] == "deref":
            base = e[1][1][1]
            if base[0] == "idx" and base[1] == ("id", "argv") and base[2][0] == "num":
                i = int(base[2][1])
                if e[2] in fld and e[1][2] == "foam" + e[2][:-4]:
                    return ("arg", i, fld[e[2]])
                if e[1][2] == "foamPtr" and e[2] == "val":
                    return ("arg", i, "PTR")
                raise CParseError("operand field " + cexpr.show(e))
        return None
    return op


RESULT_GUARD = re.compile(r"if\s*\(((?:[^(){};]|\((?:[^(){};]|\([^(){};]*\))*\))*)\)\s*\{\s*foamFreeNode\s*\(\s*foam\s*\)\s*;"
                          r"\s*foam\s*=\s*bcall\s*;\s*\}")


def parse_cfold(src, types, macros, leafs, sig):
    text = strip_comments(read(src, "of_cfold.c"))
    body = function_body(text, "cfoldBCall")
    base_op = cfold_operand_resolver(types)
    cur = {}

    def operand(e):
        # foam->foamX.XData after `foam = foamNewX(...)`: the value just stored in the result node
        if e[0] == "mem" and e[1][0] == "mem" and e[1][1] == ("deref", ("id", "foam")):
            if cur.get("result") is not None and e[2] in CFOLD_FIELD and e[1][2] == "foam" + e[2][:-4]:
                return cur["result"][1]
            raise CParseError("result field " + cexpr.show(e))
        return base_op(e)
    cx = Ctx(types, macros, leafs, operand)
    rows = []
    for name, chunk in switch_cases(body):
        row = {"name": name, "guard": None, "text": " ".join(chunk.split())}
        # the one compound statement of the subset: give the folded node back and leave the call in place
        #     if (<cond on the result>) { foamFreeNode(foam); foam = bcall; }
        chunk = RESULT_GUARD.sub(lambda m: "__result_guard(%s);" % m.group(1), chunk)
        cur["result"] = None
        sts = statements(chunk)
        try:
            if sts is None:
                raise CParseError("compound statement")
            env = {}
            result = None
            guards = []
            post_guards = []
            for s in sts:
                if re.fullmatch(r"if\s*\(\s*!\s*cfoldFoldAll\s*\)\s*break", s):
                    row["guard"] = "All"
                elif re.fullmatch(r"if\s*\(\s*!\s*cfoldFoldFloat\s*\)\s*break", s):
                    row["guard"] = "Float"
                elif s.startswith("assert"):
                    continue
                elif s == "break":
                    break
                elif re.fullmatch(r"__result_guard\((.*)\)", s, re.S):
                    # decline when the condition on the folded value holds
                    if result is None:
                        raise CParseError("result guard before the result")
                    cur["result"] = result
                    g = simp(tr(cx.parse(re.fullmatch(r"__result_guard\((.*)\)", s, re.S).group(1)), cx, env))
                    cur["result"] = None
                    post_guards.append(g)
                elif re.fullmatch(r"if\s*\((.*)\)\s*break", s, re.S) and result is None:
                    # `if (<cexp>) break;` before the result: a conditional decline
                    gtxt = re.fullmatch(r"if\s*\((.*)\)\s*break", s, re.S).group(1)
                    guards.append(simp(tr(cx.parse(gtxt), cx, env)))
                else:
                    m = re.fullmatch(r"foam\s*=\s*(\w+)\s*\((.*)\)", s, re.S)
                    if m and m.group(1) in CFOLD_NEW:
                        rty = CFOLD_NEW[m.group(1)]
                        inner = tr(cx.parse(m.group(2)), cx, env)
                        store = {"FSFlo": types.cty("SFloat"), "FDFlo": types.cty("DFloat"),
                                 "FBInt": "PTR"}.get(rty, types.cty("AInt"))
                        result = (rty, ("cast", store, inner))
                        continue
                    m = re.fullmatch(r"foam\s*=\s*foamNewNil\s*\(\s*\)", s)
                    if m:
                        result = ("FPtr", ("lit", 0, "PTR"))
                        continue
                    m = re.fullmatch(r"s\s*=\s*cfoldArrToString\s*\(\s*argv\[(\d)\]\s*\)", s)
                    if m:
                        env["s"] = ("arg", int(m.group(1)), "PTR")
                        continue
                    if re.fullmatch(r"strFree\s*\(\s*s\s*\)", s) and "s" in env:
                        continue
                    m = re.fullmatch(r"([a-z])\s*=\s*(.*)", s, re.S)
                    if m and m.group(1) in ("n",):
                        # n is `long`: a single-assignment temporary
                        env[m.group(1)] = ("cast", "S64", tr(cx.parse(m.group(2)), cx, env))
                        continue
                    raise CParseError("statement outside the subset: " + s[:80])
            if result is None:
                row["exp"] = ("declined",)
                row["rty"] = None
            else:
                e = simp(result[1])
                for g in reversed(post_guards):
                    e = ("guard", g, e)
                for g in reversed(guards):
                    e = ("guard", g, e)
                row["rty"], row["exp"] = result[0], e
                row["guards"] = len(guards) + len(post_guards)
        except CParseError as ex:
            row["exp"] = ("opaque", row["text"] or str(ex))
            row["why"] = str(ex)
            row["rty"] = None
        rows.append(row)
    return rows


# ------------------------------------------------------------------ route: interpreter

def parse_fint(src, types, macros, leafs, sig):
    text = strip_comments(read(src, "fint.c"))
    body = function_body(text, "fintEvalBCall")
    # the union dataObj fields
    um = re.search(r"union\s+dataObj\s*\{(.*?)\}\s*;", text, re.S)
    fields = {}
    if um:
        for fm in re.finditer(r"^\s*([A-Za-z_][\w \t\*]*?)\s*\*?\s*(\w+)\s*;", um.group(1), re.M):
            try:
                fields[fm.group(2)] = types.cty(fm.group(1) + ("*" if "*" in fm.group(0) else ""))
            except CParseError:
                pass
    rows = []
    sigd = {r["name"]: r for r in sig}
    for name, chunk in switch_cases(body):
        row = {"name": name, "text": " ".join(chunk.split())}
        sts = statements(chunk)
        sg = sigd.get(name)
        try:
            if sts is None:
                raise CParseError("compound statement")
            order = []          # expr variables in evaluation order
            result = None
            mytype = None
            forced = set()

            def operand(e):
                if e[0] == "mem" and e[1][0] == "id" and re.fullmatch(r"expr\d", e[1][1]):
                    v = e[1][1]
                    if v not in order:
                        raise CParseError("operand %s used but never evaluated" % v)
                    if e[2] not in fields:
                        raise CParseError("union field " + e[2])
                    if e[2] == "fiWord" and v not in forced and not (
                            sg is not None and order.index(v) < len(sg["args"]) and sg["args"][order.index(v)] == "FWord"):
                        raise CParseError("%s.fiWord without fintForceBoolToWord" % v)
                    return ("arg", order.index(v), fields[e[2]])
                return None
            cx = Ctx(types, macros, leafs, operand)
            sg = sigd.get(name)
            nres = None
            multi_call = None       # (function, inputs IR, [(out position, ("res", k, field) | ("tmp", var, field))])
            tmp_to_res = {}
            for s in sts:
                m = re.fullmatch(r"retDataObj\s*->\s*ptr\s*=\s*fintAlloc\s*\(\s*union\s+dataObj\s*,\s*(\d)\s*\)", s)
                if m:
                    nres = int(m.group(1))
                    continue
                m = re.fullmatch(r"retDataObj\s*->\s*ptr\[(\d)\]\s*\.\s*(fi\w+)\s*=\s*(expr\d)\s*\.\s*(fi\w+)", s)
                if m and multi_call is not None:
                    if m.group(2) != m.group(4):
                        raise CParseError("result copied through another union field")
                    tmp_to_res[m.group(3)] = (int(m.group(1)), m.group(2))
                    continue
                m = re.fullmatch(r"([A-Za-z_]\w*)\s*\((.*)\)", s, re.S)
                if m and nres is not None and multi_call is None and m.group(1).startswith("fi") \
                        and "retDataObj" in s or (m and nres is not None and multi_call is None and re.search(r"&\s*expr\d", s)):
                    ins, outs = [], []
                    for a in split_args(m.group(2)):
                        a = a.strip()
                        om = re.fullmatch(r"(?:\([\w\s]+\*\s*\)\s*)?&\s*\(?\s*retDataObj\s*->\s*ptr\[(\d)\]\s*\.\s*(fi\w+)\s*\)?", a)
                        if om:
                            outs.append(("res", int(om.group(1)), om.group(2)))
                            continue
                        om = re.fullmatch(r"(?:\([\w\s]+\*\s*\)\s*)?&\s*\(?\s*(expr\d)\s*\.\s*(fi\w+)\s*\)?", a)
                        if om:
                            outs.append(("tmp", om.group(1), om.group(2)))
                            continue
                        if outs:
                            raise CParseError("input after an output argument")
                        ins.append(tr(cx.parse(a), cx, {}))
                    multi_call = (m.group(1), ins, outs)
                    continue
                m = re.fullmatch(r"(?:type\s*=\s*|\(void\)\s*)?fintEval\s*\(\s*&\s*(expr\d)\s*\)", s)
                if m:
                    if m.group(1) in order:
                        raise CParseError("operand evaluated twice")
                    order.append(m.group(1))
                    continue
                m = re.fullmatch(r"fintTypedEval\s*\(\s*&\s*(expr\d)\s*,\s*\w+\s*\)", s)
                if m:
                    order.append(m.group(1))
                    continue
                m = re.fullmatch(r"fintForceBoolToWord\s*\(\s*(expr\d)\s*,\s*type\s*\)", s)
                if m:
                    # expr.fiWord = (FiWord) expr.fiBool  when the operand is a Bool
                    if not order or order[-1] != m.group(1):
                        raise CParseError("fintForceBoolToWord not right after its fintEval")
                    forced.add(m.group(1))
                    continue
                m = re.fullmatch(r"myType\s*=\s*(FOAM_\w+)", s)
                if m:
                    mytype = FTY.get(m.group(1), "FOther")
                    continue
                if s == "break":
                    break
                m = re.fullmatch(r"retDataObj\s*->\s*(\w+)\s*=\s*(.*)", s, re.S)
                if m and result is None:
                    if m.group(1) not in fields:
                        raise CParseError("result field " + m.group(1))
                    result = (m.group(1), ("cast", fields[m.group(1)], tr(cx.parse(m.group(2)), cx, {})))
                    continue
                raise CParseError("statement outside the subset: " + s[:80])
            if multi_call is not None:
                f, ins, outs = multi_call
                resmap = []
                for o in outs:
                    if o[0] == "res":
                        resmap.append((o[1], o[2]))
                    else:
                        if o[1] not in tmp_to_res or tmp_to_res[o[1]][1] != o[2]:
                            raise CParseError("output temporary %s is not copied to a result" % o[1])
                        resmap.append(tmp_to_res[o[1]])
                if sg is None or [k for k, _ in resmap] != list(range(sg["retc"])) or nres != sg["retc"]:
                    raise CParseError("results are not the outputs in order")
                row["nargs"] = len(order)
                row["rty"] = mytype
                comps = None
                if f in cx.multis:
                    try:
                        comps = inline_multi(f, ins, cx)
                    except CParseError as ex:
                        row["multi_why"] = str(ex)
                if comps is not None:
                    for k, ((_, fld), c) in enumerate(zip(resmap, comps)):
                        rows.append({"name": "%s#%d" % (name, k), "text": row["text"], "nargs": len(order),
                                     "rty": sg["rets"][k], "exp": simp(("cast", fields[fld], c)), "component": (name, k)})
                    continue
                row["exp"] = simp(("call", f, ins))
                rows.append(row)
                continue
            if result is None:
                raise CParseError("no result")
            row["nargs"] = len(order)
            row["rty"] = mytype
            row["field"] = result[0]
            row["exp"] = simp(result[1])
        except CParseError as ex:
            row["exp"] = ("opaque", row["text"][:150] or str(ex))
            row["why"] = str(ex)
            row["rty"] = None
        rows.append(row)
    return rows


# ------------------------------------------------------------------ route: generated C

GENC_DISPATCH_FUNCS = ["gc0Builtin", "gc0FCall", "gc0Cop", "gc0SIntMod"]


def parse_cco_ops(src):
    text = strip_comments(read(src, "ccode.c"))
    ops = {}
    for m in re.finditer(r"\{\s*(CCO_\w+)\s*,\s*CCOK_(\w+)\s*,\s*\d+\s*,\s*\d+\s*,\s*\"([^\"]*)\"\s*\}", text):
        ops[m.group(1)] = (m.group(2), m.group(3).strip())
    return ops


def parse_genc(src, types, macros, leafs, sig):
    text = strip_comments(read(src, "genc.c"))
    m = re.search(r"struct\s+ccBVal_info\s+ccBValInfoTable\s*\[\]\s*=\s*\{(.*?)\n\};", text, re.S)
    if not m:
        raise RuntimeError("ccBValInfoTable not found")
    gdefs = parse_defines(read(src, "genc.c"))
    ccops = parse_cco_ops(src)
    sigd = {r["name"]: r for r in sig}
    fcty = {"FBool": types.cty("FiBool"), "FChar": types.cty("FiChar"), "FByte": types.cty("FiByte"),
            "FHInt": types.cty("FiHInt"), "FSInt": types.cty("FiSInt"), "FWord": types.cty("FiWord"),
            "FSFlo": types.cty("FiSFlo"), "FDFlo": types.cty("FiDFlo")}
    rows = []
    rx = re.compile(r"\{\s*FOAM_BVal_(\w+)\s*,\s*(CCO_\w+)\s*,\s*(\d+)\s*,\s*([^,]+?)\s*,\s*([^,}]+?)\s*\}")
    body = re.sub(r"^\s*#.*$", "", m.group(1), flags=re.M)
    for mm in rx.finditer(body):
        name, cco, special, s, mac = mm.groups()
        special = int(special)

        def cstr(x):
            x = x.strip()
            if x == "0":
                return None
            if x.startswith('"'):
                return bytes(x[1:-1], "ascii").decode("unicode_escape")
            if x in gdefs and gdefs[x][0] is None and gdefs[x][1].startswith('"'):
                return gdefs[x][1][1:-1]
            raise RuntimeError("ccBValInfoTable string %r" % x)
        s, mac = cstr(s), cstr(mac)
        if name not in sigd:
            continue
        sg = sigd[name]
        args = [("arg", i, fcty.get(t, "PTR")) for i, t in enumerate(sg["args"])]
        rcty = fcty.get(sg["ret"], "PTR")
        cx = Ctx(types, macros, leafs, lambda e: None)

        def call(fname, irargs):
            env = {"__a%d" % i: a for i, a in enumerate(irargs)}
            ast = ("call", ("id", fname), [("id", "__a%d" % i) for i in range(len(irargs))])
            return tr(ast, cx, env)

        variants = []   # (variant name, IR)
        try:
            if cco in ("CCO_Id", "CCO_FloatVal", "CCO_IntVal", "CCO_CharVal"):
                variants.append(("expr", tr(cx.parse(s), cx, {})))
            elif cco == "CCO_Cast":
                variants.append(("expr", ("cast", types.cty(s), args[0])))
            elif cco == "CCO_FCall":
                # statement form (gc0Set) and USE_MACROS temporaries: MACRO(r, t, args...)
                if mac is not None:
                    if mac not in macros or macros[mac][0] is None:
                        raise CParseError("macro %s not defined in foam_c.h" % mac)
                    ps, mbody = macros[mac]
                    if len(ps) != len(args) + 2:
                        raise CParseError("macro %s arity" % mac)
                    mps, rhs = macro_rhs(mac, macros)
                    env = {p: a for p, a in zip(mps[2:], args)}
                    ir = ("cast", rcty, tr(cx.parse(rhs), cx, env))
                    variants.append(("macro", ir))
                if special == 0:
                    if mac is None and sg["retc"] > 1:
                        # gc0SetValues: f(args..., &lhs0, &lhs1, ...): the outputs in order
                        comps = None
                        if s in cx.multis:
                            try:
                                comps = inline_multi(s, [("cast", a[2], a) for a in args], cx)
                            except CParseError:
                                comps = None
                        if comps is not None and len(comps) == sg["retc"]:
                            for k, c in enumerate(comps):
                                rows.append({"name": "%s#%d" % (name, k), "variant": "expr", "cco": cco, "special": special,
                                             "str": s, "macro": mac, "rty": sg["rets"][k], "component": (name, k),
                                             "exp": simp(("cast", fcty.get(sg["rets"][k], "PTR"), c))})
                            continue
                        variants.append(("expr", call(s, [("cast", a[2], a) for a in args])))
                    elif mac is None:
                        # plain call, each argument cast to its declared type (gc0TryCast)
                        variants.append(("expr", call(s, [("cast", a[2], a) for a in args])))
                else:
                    if name in ("BIntIsEven", "BIntIsOdd"):
                        inner = call("fiBIntMod", [args[0], call("fiBIntNew", [("lit", 2, "S32")])])
                        variants.append(("expr", call(s, [inner, call("fiBInt0", [])])))
                    elif name in ("BIntPrev", "BIntNext"):
                        variants.append(("expr", call(s, [args[0], call("fiBInt1", [])])))
                    else:
                        raise CParseError("gc0FCall: special row without a case (bugBadCase)")
            else:
                if cco not in ccops or ccops[cco][0] not in ("Infix", "Prefix"):
                    raise CParseError("operator kind " + cco)
                kind, sym = ccops[cco]
                if special == 0:
                    if kind == "Prefix":
                        if len(args) != 1 or sym not in UNOPS:
                            raise CParseError("prefix operator arity")
                        ir = ("un", UNOPS[sym], args[0])
                    else:
                        if len(args) != 2 or sym not in BINOPS:
                            raise CParseError("infix operator arity %d" % len(args))
                        ir = ("bin", BINOPS[sym], args[0], args[1])
                elif special == 1:
                    ir = ("bin", BINOPS[sym], args[0], tr(cx.parse(s), cx, {}))
                else:
                    if name in ("SIntIsEven", "SIntIsOdd"):
                        ir = ("bin", BINOPS[sym], ("bin", "Mod", args[0], ("lit", 2, "S32")), ("lit", 0, "S32"))
                    elif name in ("SIntPlusMod", "SIntMinusMod", "SIntTimesMod"):
                        ir = ("bin", "Mod", ("bin", BINOPS[sym], args[0], args[1]), args[2])
                    else:
                        raise CParseError("gc0Cop: gccUnhandled")
                variants.append(("expr", ir))
        except CParseError as ex:
            variants = [("expr", ("opaque", "%s %s %d %s %s: %s" % (name, cco, special, s, mac, ex)))]
        for vn, ir in variants:
            rows.append({"name": name, "variant": vn, "cco": cco, "special": special, "str": s,
                         "macro": mac, "exp": simp(ir), "rty": sg["ret"]})
    hashes = {f: norm_hash(function_body(text, f)) for f in GENC_DISPATCH_FUNCS}
    return rows, hashes


def split_assign_macro(body, ps):
    """`((r) = (t) expr)` or a nested statement macro call -> text of expr."""
    b = body.strip()
    m = re.fullmatch(r"\(\s*\(\s*%s\s*\)\s*=\s*\(\s*%s\s*\)\s*(.*)\)" % (re.escape(ps[0]), re.escape(ps[1])), b, re.S)
    if m:
        return m.group(1)
    return None


def macro_rhs(mac, macros, depth=0):
    ps, body = macros[mac]
    rhs = split_assign_macro(body, ps)
    if rhs is not None:
        return ps, rhs
    # fiBINT_PLUS1(r,t,a) -> fiBINT_PLUS(r, t, a, fiBInt1())
    m = re.fullmatch(r"(\w+)\s*\((.*)\)", body.strip(), re.S)
    if m and m.group(1) in macros and macros[m.group(1)][0] is not None and depth < 5:
        inner_ps, inner_rhs = macro_rhs(m.group(1), macros, depth + 1)
        actual = split_args(m.group(2))
        if len(actual) != len(inner_ps) or actual[0].strip() != ps[0] or actual[1].strip() != ps[1]:
            raise CParseError("nested statement macro %s" % mac)
        # substitute textually the remaining actuals (they are simple)
        rhs = inner_rhs
        for p, a in zip(inner_ps[2:], actual[2:]):
            rhs = re.sub(r"\b%s\b" % re.escape(p), "(" + a.strip() + ")", rhs)
        return ps, rhs
    raise CParseError("macro %s is not of the form ((r) = (t) e)" % mac)


def split_args(t):
    out, depth, cur = [], 0, ""
    for c in t:
        if c == "," and depth == 0:
            out.append(cur)
            cur = ""
            continue
        if c in "([":
            depth += 1
        elif c in ")]":
            depth -= 1
        cur += c
    if cur.strip():
        out.append(cur)
    return out


# ------------------------------------------------------------------ driver

def collect(src):
    types = Types(src)
    macros = {}
    for f in ("cport.h", "foam_c.h", "bigint.h"):
        macros.update({k: v for k, v in parse_defines(read(src, f)).items()})
    fint_defs = parse_defines(read(src, "fint.c"))
    for k in ("fiTrue", "fiFalse"):
        if k in fint_defs:
            macros[k] = fint_defs[k]
    # only the macros the tables may reach: fi*/FI_* families, truth values, bint comparisons
    keep = {k: v for k, v in macros.items()
            if k.startswith("fi") or k.startswith("FI_") or k in ("true", "false", "int0", "bintNE", "bintLE", "bintGE")}
    leafs = {}
    for f in ("foam_c.c", "foam_i.c"):
        leafs.update(parse_leaf_functions(read(src, f)))
    leafs = {k: v for k, v in leafs.items() if k.startswith("fi")}
    # double-word arithmetic (dword.c): its half-word macros, and the straight-line multi-result functions
    dw = parse_defines(read(src, "dword.c"))
    for k in ("MODB", "BASE_BITS", "BASE_BITS_2", "BASE_ROOT", "BASE_MINUS_1", "COMPL", "LO_HALF_LO", "HI_HALF_LO",
              "LO_HALF_HI", "HI_HALF_HI", "COMBINE", "HI_BIT"):
        if k in dw:
            keep[k] = dw[k]
    keep["CHAR_BIT"] = (None, "8")
    multis = {}
    for f in ("foam_c.c", "foam_i.c", "dword.c"):
        multis.update(parse_multi_functions(read(src, f)))
    Ctx.multis = {k: v for k, v in multis.items() if k.startswith("fi") or k.startswith("xx")}
    sig, enum = parse_bval_sig(src)
    return types, keep, leafs, sig, enum




def translate(src):
    types, macros, leafs, sig, enum = collect(src)
    cfold = parse_cfold(src, types, macros, leafs, sig)
    fint = parse_fint(src, types, macros, leafs, sig)
    genc, hashes = parse_genc(src, types, macros, leafs, sig)
    return {"sig": sig, "enum": enum, "cfold": cfold, "fint": fint, "genc": genc,
            "dispatch_hash": hashes, "types": types.named}


def is_translated(row):
    return not has_kind(row["exp"], ("opaque",))


def translated_sets(tr_):
    return {"cfold": sorted(r["name"] for r in tr_["cfold"] if is_translated(r)),
            "fint": sorted(r["name"] for r in tr_["fint"] if is_translated(r)),
            "genc": sorted("%s/%s" % (r["name"], r["variant"]) for r in tr_["genc"] if is_translated(r)),
            "dispatch_hash": tr_["dispatch_hash"]}


def broken_ties(tr_):
    """Entries of the committed list that no longer translate (or whose
    hand-modelled dispatch code changed)."""
    try:
        old = json.load(open(TRANSLATED_JSON))
    except OSError:
        return ["tools/builtins_translated.json missing"]
    now = translated_sets(tr_)
    out = []
    for route in ("cfold", "fint", "genc"):
        have = set(now[route])
        rows = {(r["name"] if route != "genc" else "%s/%s" % (r["name"], r["variant"])): r for r in tr_[route]}
        for n in old.get(route, []):
            if n not in have:
                r = rows.get(n)
                out.append("%s:%s no longer translates (%s)" % (
                    route, n, (r or {}).get("why") or ("row missing" if r is None else "opaque")))
    for f, h in old.get("dispatch_hash", {}).items():
        if now["dispatch_hash"].get(f) != h:
            out.append("genc.c:%s changed (its case analysis is mirrored by hand in tools/builtins_gen.py:parse_genc)" % f)
    return out


def sigrow_of(sig, name):
    """Signature of a builtin, or of component k of a multi-result builtin (name "X#k")."""
    base, _, k = name.partition("#")
    for r in sig:
        if r["name"] == base:
            if not k:
                return r
            if int(k) < len(r.get("rets", [])):
                return dict(r, name=name, ret=r["rets"][int(k)])
    return None


def emit_coq(tr_, known_bad):
    sig = tr_["sig"]
    L = []
    w = L.append
    w("(* GENERATED by tools/builtins_gen.py from the current C sources. Do not edit. *)")
    w("Require Import ZArith List String.")
    w("Require Import AV.Builtins.CInt.")
    w("Import ListNotations.")
    w("Local Open Scope string_scope.")
    w("Local Open Scope Z_scope.")
    w("")
    w("(* foam.c:foamBValInfoTable *)")
    w("Definition bval_sig : list sigrow := [")
    w(";\n".join("  mksig \"%s\" [%s] %s %s" % (r["name"], "; ".join(r["args"]), r["ret"],
                                                 "true" if r["sidefx"] else "false") for r in sig))
    w("].")
    w("")
    w("(* components of the multi-result builtins: \"X#k\" is result k of X *)")
    w("Definition bval_comp_sig : list sigrow := [")
    w(";\n".join("  mksig \"%s#%d\" [%s] %s %s" % (r["name"], k, "; ".join(r["args"]), rt, "true" if r["sidefx"] else "false")
                  for r in sig for k, rt in enumerate(r.get("rets", []))))
    w("].")
    w("")
    w("(* foam.h: enumerators FOAM_BVal_* *)")
    w("Definition bval_enum : list string := [%s]." % "; ".join('"%s"' % n for n in tr_["enum"]
                                                                 if n not in ("START", "LIMIT")))
    w("")

    def table(nm, rows, comment):
        w("(* %s *)" % comment)
        w("Definition %s : list row := [" % nm)
        items = []
        for r in rows:
            sg = sigrow_of(sig, r["name"])
            if sg is None:
                continue
            label = r["name"] if "variant" not in r else r["name"]
            items.append("  mkrow \"%s\" [%s] %s %s\n    %s" % (
                label, "; ".join(sg["args"]), sg["ret"],
                r.get("rty") or "FNOp", coq(r["exp"])))
        w(";\n".join(items))
        w("].")
        w("")
    table("cfold_tbl", tr_["cfold"], "of_cfold.c:cfoldBCall — result node data `(AInt)(e)` of foamNew<T>(e)")
    table("fint_tbl", tr_["fint"], "fint.c:fintEvalBCall — value stored into retDataObj-><field>")
    table("genc_tbl", tr_["genc"], "genc.c:ccBValInfoTable through gc0Builtin/gc0FCall/gc0Cop, foam_c.h macros, leaf functions")
    for route in ("cfold", "fint", "genc"):
        w("(* rows listed in known_findings.json (property C04, key \"%s:<Builtin>\") *)" % route)
        w("Definition known_bad_%s : list string := [%s]." % (
            route, "; ".join('"%s"' % n for n in sorted(known_bad.get(route, [])))))
    w("(* folder rows listed in known_findings.json as still trapping at compile time (key \"cfoldfault:<Builtin>\") *)")
    w("Definition known_fault_cfold : list string := [%s]." % "; ".join('"%s"' % n for n in sorted(known_bad.get("cfoldfault", []))))
    w("")
    return "\n".join(L)


def known_bad_from(findings):
    kb = {"cfold": set(), "fint": set(), "genc": set(), "cfoldfault": set()}
    for f in findings.get("findings", []):
        if f.get("property") != "C04":
            continue
        m = re.fullmatch(r"(cfold|fint|genc|cfoldfault):(\w+)", f.get("key", ""))
        if m:
            kb[m.group(1)].add(m.group(2))
    return kb


def main():
    src = sys.argv[1] if len(sys.argv) > 1 else "/repo/aldor/aldor/src"
    t = translate(src)
    if "--update-translated" in sys.argv:
        with open(TRANSLATED_JSON, "w") as f:
            json.dump(translated_sets(t), f, indent=1, sort_keys=True)
        print("wrote", TRANSLATED_JSON)
    for route in ("cfold", "fint", "genc"):
        rows = t[route]
        nt = sum(1 for r in rows if is_translated(r))
        nd = sum(1 for r in rows if r["exp"] == ("declined",))
        print("%s: %d rows, %d translated (%d declined), %d opaque" % (route, len(rows), nt, nd, len(rows) - nt))
        if "-v" in sys.argv:
            for r in rows:
                print("   ", r["name"], r.get("variant", ""), coq(r["exp"])[:200], r.get("why", ""))
    print("broken ties:", broken_ties(t))


if __name__ == "__main__":
    main()
