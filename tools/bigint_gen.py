#!/usr/bin/env python3
"""C11 translator: the per-radix chunk parameters of bintRadixScanFrString and bintScanFrString, regenerated from
the CURRENT text of bigint.c on every run.

What is read from the source (comments stripped):
  * in bintRadixScanFrString: the statement `maxi = <bound>;` that precedes the `rio` loop, the loop
    `for (rio = <init>, dio = <init>; <cond>; <steps>);`, the statements that follow it up to the `bpd` line
    (the post-step `rio *= radix, dio++;`), and the cast under which the multiplier reaches
    iintTimesPlusS (`(BIntS) rio`);
  * in bintScanFrString: the loop `for (rio = 10, dio = 1; <cond>; <steps>)`.
These few statements are executed here with C's unsigned long arithmetic (mod 2^64) for every radix 2..36, giving
the chunk width `dio` and the multiplier `rio` the C really uses; BINT_RADIX comes from the probed width of BIntS.
The result is written as coq/Gen/BigIntRadix.v; coq/BigInt/FactsRadixGen.v proves about THAT table that every
multiplier is radix^dio, is positive and is < 2^32 (so the `(BIntS)` cast keeps it), and that it is what the model's
own loop computes.  A statement this translator cannot read becomes `radix_chunk_translated := false`, which
breaks the proof (a broken tie, never a silent drop).
"""
import re, sys

W64 = 1 << 64


def strip_comments(t):
    return re.sub(r"/\*.*?\*/", " ", t, flags=re.S)


def func_body(src, name):
    m = re.search(r"^%s\s*\([^)]*\)\s*\{" % re.escape(name), src, re.M)
    if not m:
        return None
    i = m.end()
    depth = 1
    while i < len(src) and depth:
        depth += {"{": 1, "}": -1}.get(src[i], 0)
        i += 1
    return src[m.end():i - 1]


SAFE = re.compile(r"^[A-Za-z0-9_\s\*\+\-/<>=\(\)!]*$")


def cexpr(e, env):
    """Evaluate a small C expression over unsigned long variables."""
    e = e.strip()
    if not SAFE.match(e):
        raise ValueError("expression not in the translated subset: %r" % e)
    py = re.sub(r"(?<![<>=!])/(?!=)", "//", e)
    v = eval(py, {"__builtins__": {}}, dict(env))
    if isinstance(v, bool):
        return int(v)
    return v % W64


def cstmt(s, env):
    """x = e | x *= e | x += e | x++ ; comma separated."""
    for part in [p.strip() for p in s.split(",") if p.strip()]:
        m = re.match(r"^([A-Za-z_]\w*)\s*(\*=|\+=|=)\s*(.+)$", part)
        if m:
            name, op, e = m.groups()
            v = cexpr(e, env)
            if op == "=":
                env[name] = v
            elif op == "*=":
                env[name] = (env[name] * v) % W64
            else:
                env[name] = (env[name] + v) % W64
            continue
        m = re.match(r"^([A-Za-z_]\w*)\s*\+\+$", part)
        if m:
            env[m.group(1)] = (env[m.group(1)] + 1) % W64
            continue
        raise ValueError("statement not in the translated subset: %r" % part)


def run_for(init, cond, step, env, limit=200):
    cstmt(init, env)
    n = 0
    while cexpr(cond, env):
        cstmt(step, env)
        n += 1
        if n > limit:
            raise ValueError("loop does not terminate")


def translate(src_text, lg_radix=32):
    """Returns (ok, rows, dec, notes): rows = [(radix, rio, dio)], dec = (rio, dio) of the decimal scanner."""
    notes = []
    src = strip_comments(src_text)
    rows, dec = [], None
    ok = True
    body = func_body(src, "bintRadixScanFrString")
    try:
        if body is None:
            raise ValueError("bintRadixScanFrString not found")
        m = re.search(r"(maxi\s*=[^;]*;)\s*for\s*\(\s*(rio\s*=[^;]*);([^;]*);([^)]*)\)\s*;(.*?)bpd\s*=", body, re.S)
        if not m:
            raise ValueError("the rio loop of bintRadixScanFrString has an unexpected shape")
        pre, init, cond, step, post = [x.strip() for x in m.groups()]
        cast = re.search(r"iintTimesPlusS\s*\(\s*retval\s*,\s*retval\s*,\s*\(\s*(\w+)\s*\)\s*rio\s*,", body)
        if not cast or cast.group(1) != "BIntS":
            raise ValueError("the multiplier no longer reaches iintTimesPlusS as (BIntS) rio")
        notes.append("radix loop: %s for (%s; %s; %s); %s" % (pre, init, cond, step, " ".join(post.split())))
        for radix in range(2, 37):
            env = {"radix": radix, "BINT_RADIX": 1 << lg_radix, "INT_MAX_IMMED": (1 << 62) - 1}
            cstmt(pre.rstrip(";"), env)
            run_for(init, cond, step, env)
            for st in [x for x in post.split(";") if x.strip()]:
                cstmt(st, env)
            rows.append((radix, env["rio"], env["dio"]))
    except Exception as e:          # broken tie, reported through the proof
        ok = False
        notes.append("NOT TRANSLATED: %s" % e)
    body = func_body(src, "bintScanFrString")
    try:
        if body is None:
            raise ValueError("bintScanFrString not found")
        m = re.search(r"for\s*\(\s*(rio\s*=[^;]*);([^;]*);([^)]*)\)\s*;", body, re.S)
        if not m:
            raise ValueError("the rio loop of bintScanFrString has an unexpected shape")
        init, cond, step = [x.strip() for x in m.groups()]
        env = {"BINT_RADIX": 1 << lg_radix, "INT_MAX_IMMED": (1 << 62) - 1}
        run_for(init, cond, step, env)
        dec = (env["rio"], env["dio"])
        notes.append("decimal loop: for (%s; %s; %s)" % (init, cond, step))
    except Exception as e:
        ok = False
        notes.append("NOT TRANSLATED: %s" % e)
    return ok, rows, dec, notes


def coq_text(ok, rows, dec, notes):
    out = ["(* GENERATED on every run by tools/bigint_gen.py from the current aldor/aldor/src/bigint.c. Do not edit. *)",
           "Require Import ZArith List.", "Import ListNotations.", "Local Open Scope Z_scope.", ""]
    for n in notes:
        out.append("(* %s *)" % n.replace("*)", "* )"))
    out.append("Definition radix_chunk_translated : bool := %s." % ("true" if ok else "false"))
    out.append("(* (radix, multiplier rio as the C computes it in unsigned long, chunk width dio) *)")
    out.append("Definition radix_chunk_tbl : list (Z * Z * Z) :=")
    out.append("  [" + ";\n   ".join("(%d, %d, %d)" % r for r in rows) + "].")
    d = dec or (0, 0)
    out.append("Definition dec_chunk : Z * Z := (%d, %d)." % d)
    return "\n".join(out) + "\n"


def generate(src_path, out_path, write_if_changed):
    ok, rows, dec, notes = translate(open(src_path, errors="replace").read())
    write_if_changed(out_path, coq_text(ok, rows, dec, notes))
    return ok, rows, dec, notes


if __name__ == "__main__":
    ok, rows, dec, notes = translate(open(sys.argv[1], errors="replace").read())
    sys.stdout.write(coq_text(ok, rows, dec, notes))
