#!/bin/sh
# usage: confirm.sh <confirm-copy> <seed-out-dir> ...    (lead's own confirmation of seeded changes)
# For each seed dir: reset the copy's tracked sources, apply patch.diff, build, run the test suite, compare
# the sorted result lines with the baseline of the same copy, run demo.sh if present; write lead_confirm.txt.
C="$1"; shift
W=/var/tmp/seedkit/in-copy
res() { grep -E "^(PASS|FAIL|XFAIL|XPASS|ERROR|SKIP):" "$1" | sort; }
if [ ! -f "$C/baseline.results" ]; then
  git -C "$C" checkout -q -- . 
  $W "$C" sh -c 'cd /repo/aldor && make -j6 >/repo/baseline-build.log 2>&1; make -k -j6 check >/repo/baseline-check.log 2>&1'
  res "$C/baseline-check.log" > "$C/baseline.results"
fi
for S in "$@"; do
  out="$S/lead_confirm.txt"
  git -C "$C" checkout -q -- .
  if ! git -C "$C" apply "$S/patch.diff" 2>"$out.err"; then echo "APPLY FAILED" > "$out"; cat "$out.err" >> "$out"; continue; fi
  $W "$C" sh -c 'cd /repo/aldor && make -j6 >/repo/seed-build.log 2>&1; echo BUILD_RC=$? >> /repo/seed-build.log; make -k -j6 check >/repo/seed-check.log 2>&1'
  res "$C/seed-check.log" > "$C/seed.results"
  { echo "patch: $S/patch.diff"; tail -1 "$C/seed-build.log";
    echo "result lines: baseline $(wc -l < "$C/baseline.results"), with change $(wc -l < "$C/seed.results")";
    if diff "$C/baseline.results" "$C/seed.results" > "$C/seed.diff"; then echo "TESTS: identical to baseline"; else echo "TESTS: DIFFER"; head -20 "$C/seed.diff"; fi; } > "$out"
done
git -C "$C" checkout -q -- .
