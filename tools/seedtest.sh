#!/bin/sh
# usage: tools/seedtest.sh <patch.diff> <ID> [<ID> ...]      (lead's test of a seeded change; never touches /repo's files)
# A detached worktree of /repo's HEAD at /var/tmp/wt-seed gets the patch; each check runs with VERIF_REPO pointing at it.
# Evidence and coq/Gen files written by such a run describe the changed tree: re-run the checks on /repo afterwards.
WT=/var/tmp/wt-seed
P="$1"; shift
[ -d "$WT" ] || git -C /repo worktree add -q --detach "$WT"
git -C "$WT" checkout -q --detach "$(git -C /repo rev-parse HEAD)" && git -C "$WT" checkout -q -- . && git -C "$WT" clean -fdq
git -C "$WT" apply "$P" || { echo "APPLY FAILED"; exit 2; }
cd /verif
for id in "$@"; do
  echo "--- $id against $(basename $(dirname $P))"
  VERIF_REPO=$WT timeout 3000 ./check "$id" --tier ${TIER:-quick} 2>&1 | grep -E "VIOLATION|KNOWN-FINDING|: ok|violations=|Traceback|Error" | cut -c1-400 | head -${LINES_MAX:-14}
done
git -C "$WT" checkout -q -- .
