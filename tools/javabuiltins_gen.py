"""Translator for property C12: the Java back end's builtin table.

Reads, from /repo's CURRENT sources,
  java/genjava.c   gjBValInfoTable (one row per FOAM builtin: generation method + strings) and the
                   gj0BCall<Method> generators' shape (checked, see SHAPES),
  java/javacode.c  JcOpInfoTable (operation -> printer class or builder) and the class table
                   (printer class -> operator text),
  foam.c           foamBValInfoTable (argument / result types of every builtin),
  lib/java/src/foamj/Math.java   the static methods and constants the table refers to,
and writes coq/Gen/JavaBuiltins.v: `java_tbl : list jrow`, each row the Java EXPRESSION the back end
emits for the builtin applied to operands Arg0.. (static methods of foamj.Math with a single `return`
are inlined), in the deep embedding of coq/Java/Model.v.  A row that cannot be embedded becomes
`JOpaque "<why>"`; the set of rows that embed is compared with a committed list
(tools/javabuiltins_translated.json) so that a row that used to embed and no longer does is reported.
"""
import json, os, re, sys

sys.path.insert(0, os.path.dirname(os.path.dirname(os.path.abspath(__file__))))
from tools import cexpr                                  # noqa: E402

TRANSLATED_JSON = os.path.join(os.path.dirname(os.path.abspath(__file__)), "javabuiltins_translated.json")


class GenError(Exception):
    pass


def strip_comments(t):
    t = re.sub(r"/\*.*?\*/", lambda m: " " + "\n" * m.group(0).count("\n"), t, flags=re.S)
    return re.sub(r"//[^\n]*", "", t)


def c_unescape(s):
    esc = {"n": "\n", "t": "\t", '"': '"', "\\": "\\", "0": "\0"}
    out, i = [], 0
    while i < len(s):
        if s[i] == "\\" and i + 1 < len(s):
            out.append(esc.get(s[i + 1], s[i + 1]))
            i += 2
        else:
            out.append(s[i])
            i += 1
    return "".join(out)


def table_body(text, decl_re):
    m = re.search(decl_re, text)
    if not m:
        raise GenError("table %s not found" % decl_re)
    i = text.index("{", m.end() - 1)
    depth, j = 0, i
    while j < len(text):
        if text[j] == '"':
            k = j + 1
            while text[k] != '"':
                k += 2 if text[k] == "\\" else 1
            j = k + 1
            continue
        if text[j] == "{":
            depth += 1
        elif text[j] == "}":
            depth -= 1
            if depth == 0:
                return text[i + 1:j]
        j += 1
    raise GenError("unbalanced table")


def split_rows(body):
    rows, depth, start, j = [], 0, None, 0
    while j < len(body):
        ch = body[j]
        if ch == '"':
            k = j + 1
            while body[k] != '"':
                k += 2 if body[k] == "\\" else 1
            j = k + 1
            continue
        if ch == "{":
            if depth == 0:
                start = j + 1
            depth += 1
        elif ch == "}":
            depth -= 1
            if depth == 0:
                rows.append(body[start:j])
        j += 1
    return rows


def split_fields(row):
    out, cur, j, depth = [], [], 0, 0
    while j < len(row):
        ch = row[j]
        if ch == '"':
            k = j + 1
            while row[k] != '"':
                k += 2 if row[k] == "\\" else 1
            cur.append(row[j:k + 1])
            j = k + 1
            continue
        if ch in "({":
            depth += 1
        elif ch in ")}":
            depth -= 1
        if ch == "," and depth == 0:
            out.append("".join(cur).strip())
            cur = []
        else:
            cur.append(ch)
        j += 1
    if "".join(cur).strip():
        out.append("".join(cur).strip())
    return out


def strval(f):
    if f is None or f in ("0", "NULL", ""):
        return None
    m = re.fullmatch(r'"((?:[^"\\]|\\.)*)"', f, re.S)
    if not m:
        raise GenError("not a string field: %r" % f)
    return c_unescape(m.group(1))


# ------------------------------------------------------------------ sources

FOAM_TY = {"Bool": "FBool", "Char": "FChar", "Byte": "FByte", "HInt": "FHInt", "SInt": "FSInt", "Word": "FWord",
           "BInt": "FBInt", "SFlo": "FSFlo", "DFlo": "FDFlo", "Ptr": "FPtr", "Arr": "FArr", "NOp": "FNOp", "Nil": "FNil",
           "Clos": "FClos", "Rec": "FRec", "Arb": "FArb"}
JAVA_TY = {"FBool": "JBool", "FChar": "JChar", "FByte": "JByte", "FHInt": "JShort", "FSInt": "JInt"}


def bval_sigs(src):
    """foam.c:foamBValInfoTable -> {name: (argtypes, rettype)}"""
    t = strip_comments(open(os.path.join(src, "foam.c"), errors="replace").read())
    body = table_body(t, r"foamBValInfoTable\s*\[\s*\]\s*=\s*")
    sig = {}
    for row in split_rows(body):
        f = split_fields(row)
        m = re.fullmatch(r"FOAM_BVal_(\w+)", f[0]) if f else None
        if not m:
            continue
        name = m.group(1)
        # layout: tag, sxflag, "name", sidefx, argCount, {arg types}, retType, retCount, {ret types}
        if len(f) < 7 or not re.fullmatch(r"\d+", f[4]):
            continue
        n = int(f[4])
        args = re.findall(r"FOAM_(\w+)", f[5])[:n]
        mm = re.fullmatch(r"FOAM_(\w+)", f[6])
        if not mm or len(args) != n:
            continue
        mm_ret = mm.group(1)
        sig[name] = ([FOAM_TY.get(a, "FOther") for a in args], FOAM_TY.get(mm_ret, "FOther"))
    return sig


def op_tables(src):
    """javacode.c: JCO_OP_x -> ("bin", "<text>") | ("builder", name)"""
    t = strip_comments(open(os.path.join(src, "java", "javacode.c"), errors="replace").read())
    cls_txt = {}
    # class table rows: { JCO_CLSS_And, jcBinOpPrint, jcNodeSExpr, "and", " & ", 7, JCO_LR },
    for row in re.findall(r"\{\s*(JCO_CLSS_\w+)\s*,([^{}]*)\}", t):
        f = split_fields(row[1])
        strs = [x for x in f if x.startswith('"')]
        if len(strs) >= 2 and "jcBinOpPrint" in row[1]:
            cls_txt[row[0]] = strval(strs[1]).strip()
    ops = {}
    body = table_body(t, r"JcOpInfoTable\s*\[\s*\]\s*=\s*")
    for row in split_rows(body):
        f = split_fields(row)
        if len(f) >= 3 and f[1] == "0":
            if f[2] not in cls_txt:
                raise GenError("javacode.c: operation %s prints through %s, which is not a binary operator class" % (f[0], f[2]))
            ops[f[0]] = ("bin", cls_txt[f[2]])
        elif len(f) >= 2:
            ops[f[0]] = ("builder", f[1])
    # the three builders
    shapes = {
        "jcOpNot": r"jcOpNot\s*\(\s*JavaCodeList\s+l\s*\)\s*\{\s*return\s+jcNot\s*\(\s*car\s*\(\s*l\s*\)\s*\)\s*;\s*\}",
        "jcOpNegate": r"jcOpNegate\s*\(\s*JavaCodeList\s+l\s*\)\s*\{\s*return\s+jcNegate\s*\(\s*car\s*\(\s*l\s*\)\s*\)\s*;\s*\}",
        "jcOpTimesPlus": r"jcOpTimesPlus\s*\(\s*JavaCodeList\s+args\s*\)\s*\{.*?JCO_CLSS_Plus\s*\)\s*,\s*jcBinaryOp\s*\(\s*jc0ClassObj\s*\(\s*JCO_CLSS_Times\s*\)\s*,\s*a1\s*,\s*a2\s*\)\s*,\s*a3\s*\)\s*;\s*\}",
    }
    ok = {k: bool(re.search(v, t, re.S)) for k, v in shapes.items()}
    for u, cls in (("jcNot", "JCO_CLSS_Not"), ("jcNegate", "JCO_CLSS_Negate")):
        ok[u] = bool(re.search(r"^%s\s*\([^)]*\)\s*\{[^}]*jc0ClassObj\s*\(\s*%s\s*\)" % (u, cls), t, re.M | re.S))
    un_txt = {}
    for row in re.findall(r"\{\s*(JCO_CLSS_(?:Not|Negate))\s*,([^{}]*)\}", t):
        f = split_fields(row[1])
        strs = [x for x in f if x.startswith('"')]
        if len(strs) >= 2:
            un_txt[row[0]] = strval(strs[1]).strip()
    return ops, ok, un_txt


# the generators of genjava.c whose meaning the translation below hard-wires; each is checked to still
# have the statement that gives it that meaning
SHAPES = {
    "gj0BCallKeyword": r"return\s+jcKeyword\s*\(\s*symInternConst\s*\(\s*inf->c1\s*\)\s*\)",
    "gj0BCallApply": r"tgtClss\s*=\s*jcImportedIdFrString\s*\(\s*inf->c1\s*\).*return\s+jcApplyMethod\s*\(\s*tgtClss\s*,\s*jcId\s*\(\s*strCopy\s*\(\s*inf->c2\s*\)\s*\)\s*,\s*args\s*\)",
    "gj0BCallOp": r"if\s*\(\s*inf->c1\s*!=\s*0\s*\)\s*\{\s*JavaCode\s+arg2\s*=\s*jcLiteralIntegerFrString\s*\(\s*strCopy\s*\(\s*inf->c1\s*\)\s*\)\s*;\s*args\s*=\s*listNConcat\s*\(\s*JavaCode\s*\)\s*\(\s*args\s*,\s*listSingleton\s*\(\s*JavaCode\s*\)\s*\(\s*arg2\s*\)\s*\)\s*;\s*\}\s*r\s*=\s*jcOp\s*\(\s*inf->gjTag\s*,\s*args\s*\)",
    "gj0BCallOpMod": r"extraArg\s*=\s*listElt\s*\(\s*JavaCode\s*\)\s*\(\s*args\s*,\s*2\s*\)\s*;\s*args\s*=\s*listList\s*\(\s*JavaCode\s*\)\s*\(\s*2\s*,\s*car\s*\(\s*args\s*\)\s*,\s*car\s*\(\s*cdr\s*\(\s*args\s*\)\s*\)\s*\)\s*;\s*r\s*=\s*jcOp\s*\(\s*inf->gjTag\s*,\s*args\s*\)\s*;\s*return\s+jcBinOp\s*\(\s*JCO_OP_Modulo\s*,\s*r\s*,\s*extraArg\s*\)",
    "gj0BCallLitChar": r"return\s+jcLiteralChar\s*\(\s*strCopy\s*\(\s*inf->c1\s*\)\s*\)",
    "gj0BCallLitInt": r"return\s+jcLiteralIntegerFrString\s*\(\s*strCopy\s*\(\s*inf->c1\s*\)\s*\)",
    "gj0BCallConst": r"return\s+jcMemRef\s*\(\s*jcId\s*\(\s*strCopy\s*\(\s*inf->c1\s*\)\s*\)\s*,\s*jcId\s*\(\s*strCopy\s*\(\s*inf->c2\s*\)\s*\)\s*\)",
    "gj0BCallNegConst": r"c\s*=\s*jcMemRef\s*\(\s*jcId\s*\(\s*strCopy\s*\(\s*inf->c1\s*\)\s*\)\s*,\s*jcId\s*\(\s*strCopy\s*\(\s*inf->c2\s*\)\s*\)\s*\)\s*;\s*return\s+jcOp\s*\(\s*JCO_OP_Negate",
    "gj0BCallCast": r"return\s+jcCast\s*\(\s*jcId\s*\(\s*strCopy\s*\(\s*inf->c1\s*\)\s*\)\s*,\s*gj0Gen\s*\(\s*foam->foamBCall\.argv\[0\]\s*\)\s*\)",
}
METHOD_FN = {"GJ_Keyword": "gj0BCallKeyword", "GJ_Apply": "gj0BCallApply", "GJ_Op": "gj0BCallOp", "GJ_OpMod": "gj0BCallOpMod",
             "GJ_LitChar": "gj0BCallLitChar", "GJ_LitInt": "gj0BCallLitInt", "GJ_Const": "gj0BCallConst",
             "GJ_NegConst": "gj0BCallNegConst", "GJ_Cast": "gj0BCallCast"}


def fn_text(t, name):
    m = re.search(r"^%s\s*\([^)]*\)\s*\{" % re.escape(name), t, re.M)
    if not m:
        return ""
    i, depth = m.end() - 1, 0
    j = i
    while j < len(t):
        if t[j] == "{":
            depth += 1
        elif t[j] == "}":
            depth -= 1
            if depth == 0:
                return t[i:j + 1]
        j += 1
    return ""


def math_java(repo_aldor):
    """foamj/Math.java: {(name, (param types)): (param names, return type, return expression text)} for the static
    methods whose body is one `return e;`, and the `public static final int` constants."""
    p = os.path.join(repo_aldor, "lib", "java", "src", "foamj", "Math.java")
    t = strip_comments(open(p, errors="replace").read())
    meths = {}
    for m in re.finditer(r"public\s+static\s+(\w+)\s+(\w+)\s*\(([^)]*)\)\s*\{\s*return\s+([^;{}]*);\s*\}", t):
        rty, name, params, body = m.groups()
        ps = [x.split() for x in params.split(",") if x.strip()]
        key = (name, tuple(x[0] for x in ps))
        meths[key] = ([x[1] for x in ps], rty, body.strip())
    for m in re.finditer(r"public\s+static\s+(\w+)\s+(\w+)\s*\(([^)]*)\)\s*\{\s*throw\s+new\s+RuntimeException\s*\(\s*\)\s*;\s*\}", t):
        rty, name, params = m.groups()
        ps = [x.split() for x in params.split(",") if x.strip()]
        meths[(name, tuple(x[0] for x in ps))] = ([x[1] for x in ps], rty, None)
    consts = {}
    for m in re.finditer(r"public\s+static\s+final\s+int\s+(\w+)\s*=\s*(-?\d+)\s*;", t):
        consts[m.group(1)] = int(m.group(2))
    return meths, consts


# ------------------------------------------------------------------ building expressions

JPRIM = {"boolean": "JBool", "char": "JChar", "byte": "JByte", "short": "JShort", "int": "JInt", "long": "JLong"}
BINOPS = {"+": "JAdd", "-": "JSub", "*": "JMul", "/": "JDiv", "%": "JRem", "<<": "JShl", ">>": "JShr", "&": "JAnd",
          "|": "JOr", "^": "JXor", "&&": "JLAnd", "||": "JLOr", "==": "JEq", "!=": "JNe", "<": "JLt", "<=": "JLe",
          ">": "JGt", ">=": "JGe"}
UNOPS = {"-": "JNeg", "!": "JNot", "~": "JBitNot"}


def q(s):
    for ch in s:
        if not (32 <= ord(ch) < 127):
            return '"' + "".join(c if 32 <= ord(c) < 127 else "?" for c in s).replace('"', '""') + '"'
    return '"' + s.replace('"', '""') + '"'


def lit_int(text):
    """`0`, `1`, `(byte) 0`, `(short) 1`, `null`, `0.0` as written in the table"""
    text = text.strip()
    m = re.fullmatch(r"\(\s*(byte|short|int|long|char)\s*\)\s*(-?\d+)", text)
    if m:
        return "(JCast %s (JLit (%s) JInt))" % (JPRIM[m.group(1)], m.group(2))
    if re.fullmatch(r"-?\d+", text):
        return "(JLit (%s) JInt)" % text
    return "(JOpaque %s)" % q("literal " + text)


def from_ast(e, env):
    """cexpr AST of a Java expression -> jexp term; env: parameter name -> jexp term"""
    k = e[0]
    if k == "id":
        if e[1] in env:
            return env[e[1]]
        if e[1] in ("true", "false"):
            return "(JBoolLit %s)" % e[1]
        return "(JOpaque %s)" % q("identifier " + e[1])
    if k == "num":
        txt = e[1]
        if re.fullmatch(r"\d+", txt):
            return "(JLit (%s) JInt)" % txt
        if re.fullmatch(r"\d+[lL]", txt):
            return "(JLit (%s) JLong)" % txt[:-1]
        if re.fullmatch(r"0[xX][0-9a-fA-F]+", txt):
            return "(JLit (%d) JInt)" % int(txt, 16)
        return "(JOpaque %s)" % q("literal " + txt)
    if k == "bin" and e[1] in BINOPS:
        return "(JBin %s %s %s)" % (BINOPS[e[1]], from_ast(e[2], env), from_ast(e[3], env))
    if k == "un" and e[1] in UNOPS:
        return "(JUn %s %s)" % (UNOPS[e[1]], from_ast(e[2], env))
    if k == "cast" and e[1].strip() in JPRIM:
        return "(JCast %s %s)" % (JPRIM[e[1].strip()], from_ast(e[2], env))
    return "(JOpaque %s)" % q("expression " + cexpr.show(e)[:60])


def build_row(name, method, gjtag, c1, c2, sig, ops, un_txt, meths, consts, shapes_ok):
    """-> (jexp term, why-opaque or None)"""
    argtys, rty = sig
    if method == "GJ_NotImpl":
        return "JNotImpl", None
    fn = METHOD_FN.get(method)
    if fn is None:
        return "(JOpaque %s)" % q("generation method " + method), "method"
    if not shapes_ok.get(fn):
        return "(JOpaque %s)" % q("generator %s changed shape" % fn), "shape"
    jargs = []
    for i, a in enumerate(argtys):
        if a not in JAVA_TY:
            if method == "GJ_Apply" and c1 == "foamj.Math":
                jargs.append("(JOpaque %s)" % q("operand type " + a))
                continue
            return "(JOpaque %s)" % q("operand type " + a), "type"
        jargs.append("(JArg %d %s)" % (i, JAVA_TY[a]))

    def binop(tag, a, b):
        kind, what = ops.get(tag, (None, None))
        if kind == "bin" and what in BINOPS:
            return "(JBin %s %s %s)" % (BINOPS[what], a, b)
        return "(JOpaque %s)" % q("operation " + str(tag))
    if method == "GJ_Keyword":
        if c1 in ("true", "false"):
            return "(JBoolLit %s)" % c1, None
        return "(JOpaque %s)" % q("keyword " + str(c1)), "keyword"
    if method == "GJ_LitChar":
        if c1 is not None and len(c1) == 1:
            return "(JCharLit (%d))" % ord(c1), None
        return "(JOpaque %s)" % q("char literal"), "lit"
    if method == "GJ_LitInt":
        return lit_int(c1 or ""), None
    if method == "GJ_Const":
        if c1 == "foamj.Math" and c2 in consts:
            return "(JLit (%d) JInt)" % consts[c2], None
        return "(JConst %s %s)" % (q(c1 or ""), q(c2 or "")), None
    if method == "GJ_NegConst":
        return "(JUn JNeg (JConst %s %s))" % (q(c1 or ""), q(c2 or "")), None
    if method == "GJ_Cast":
        if c1 in JPRIM and len(jargs) == 1:
            return "(JCast %s %s)" % (JPRIM[c1], jargs[0]), None
        return "(JOpaque %s)" % q("cast to " + str(c1)), "cast"
    if method == "GJ_Op":
        args = list(jargs)
        if c1 is not None:
            args.append(lit_int(c1))
        kind, what = ops.get(gjtag, (None, None))
        if kind == "builder":
            if what == "jcOpNot" and shapes_ok.get("jcOpNot") and shapes_ok.get("jcNot") and un_txt.get("JCO_CLSS_Not") == "!" and len(args) >= 1:
                return "(JUn JNot %s)" % args[0], None
            if what == "jcOpNegate" and shapes_ok.get("jcOpNegate") and shapes_ok.get("jcNegate") and un_txt.get("JCO_CLSS_Negate") == "-" and len(args) >= 1:
                return "(JUn JNeg %s)" % args[0], None
            if what == "jcOpTimesPlus" and shapes_ok.get("jcOpTimesPlus") and len(args) == 3:
                return "(JBin JAdd (JBin JMul %s %s) %s)" % tuple(args), None
            return "(JOpaque %s)" % q("builder " + str(what)), "builder"
        if len(args) < 2:
            return "(JOpaque %s)" % q("binary operation with %d operands" % len(args)), "arity"
        return binop(gjtag, args[0], args[1]), None       # jcOp uses car and cadr only
    if method == "GJ_OpMod":
        if len(jargs) != 3:
            return "(JOpaque %s)" % q("OpMod arity"), "arity"
        return "(JBin JRem %s %s)" % (binop(gjtag, jargs[0], jargs[1]), jargs[2]), None
    if method == "GJ_Apply":
        if c1 == "foamj.Math":
            # a method that only throws, whatever its parameter types
            throwing = [k for k, v in meths.items() if k[0] == c2 and v[2] is None]
            others = [k for k, v in meths.items() if k[0] == c2 and v[2] is not None]
            if throwing and not others and len(throwing[0][1]) == len(argtys):
                return "(JThrows %s)" % q("foamj.Math." + c2), None
            if any(a not in JAVA_TY for a in argtys):
                return "(JOpaque %s)" % q("operand type"), "type"
            jt = tuple({"JBool": "boolean", "JChar": "char", "JByte": "byte", "JShort": "short", "JInt": "int"}[JAVA_TY[a]]
                       for a in argtys)
            # overload resolution: exact parameter types, else widening of byte/short/char to int
            cand = meths.get((c2, jt)) or meths.get((c2, tuple("int" if x in ("byte", "short", "char") else x for x in jt)))
            if cand is None:
                return "(JOpaque %s)" % q("foamj.Math.%s%s: no single-return method" % (c2, jt)), "math"
            pnames, prty, body = cand
            if body is None:
                return "(JThrows %s)" % q("foamj.Math." + c2), None
            try:
                ast = cexpr.parse(body)
            except cexpr.CParseError as ex:
                return "(JOpaque %s)" % q("foamj.Math.%s: %s" % (c2, str(ex)[:40])), "math"
            if prty not in JPRIM:
                return "(JOpaque %s)" % q("foamj.Math.%s returns %s" % (c2, prty)), "math"
            env = dict(zip(pnames, jargs))
            return from_ast(ast, env), None
        return "(JCall %s %s %s)" % (q(c1 or ""), q(c2 or ""), "[" + "; ".join(jargs) + "]"), None
    return "(JOpaque %s)" % q(method), "method"


def bint_literal_params(src):
    """genjava.c:gj0BInt + javacode.c:jcLiteralInteger -> (max bintLength for the valueOf form, bits of the printf
    conversion, shape still as modelled?)"""
    gj = strip_comments(open(os.path.join(src, "java", "genjava.c"), errors="replace").read())
    jc = strip_comments(open(os.path.join(src, "java", "javacode.c"), errors="replace").read())
    body = fn_text(gj, "gj0BInt")
    maxlen, shape = 10 ** 6, True
    conds = re.findall(r"if\s*\(([^{};]*bintIsSmall\s*\(\s*val\s*\)[^{};]*)\)\s*\{", body)
    if len(conds) == 1:
        c = conds[0]
        m = re.search(r"bintLength\s*\(\s*val\s*\)\s*(<=|<)\s*(\d+)", c)
        rest = re.sub(r"bintLength\s*\(\s*val\s*\)\s*(<=|<)\s*\d+|bintIsSmall\s*\(\s*val\s*\)|&&|\s", "", c)
        if m and rest == "":
            maxlen = int(m.group(2)) - (1 if m.group(1) == "<" else 0)
        else:
            shape = False
    else:
        shape = False
    for pat in (r"if\s*\(\s*bintIsZero\s*\(\s*val\s*\)\s*\)\s*return\s+jcMemRef\s*\([^;]*\"ZERO\"",
                r"long\s+smallval\s*=\s*bintSmall\s*\(\s*val\s*\)\s*;",
                r"if\s*\(\s*smallval\s*==\s*1\s*\)\s*\{\s*return\s+jcMemRef\s*\([^;]*\"ONE\"",
                r"\"valueOf\"\s*\)\s*\)\s*,\s*1\s*,\s*jcLiteralInteger\s*\(\s*smallval\s*\)",
                r"jcConstructV\s*\(\s*gj0Id\s*\(\s*GJ_BigInteger\s*\)\s*,\s*1\s*,\s*jcLiteralString\s*\(\s*bintToString\s*\(\s*val\s*\)\s*\)\s*\)"):
        if not re.search(pat, body, re.S):
            shape = False
    lit = fn_text(jc, "jcLiteralInteger")
    m = re.search(r'strPrintf\s*\(\s*"(%l?d)"\s*,\s*i\s*\)', lit)
    bits = {"%d": 32, "%ld": 64}.get(m.group(1) if m else None, 0)
    if not re.search(r"jcLiteralInteger\s*\(\s*AInt\s+i\s*\)", jc):
        bits = 0
    return maxlen, bits, shape


def translate(repo_aldor_src, repo_aldor):
    src = repo_aldor_src
    gj = strip_comments(open(os.path.join(src, "java", "genjava.c"), errors="replace").read())
    body = table_body(gj, r"gjBValInfoTable\s*\[\s*\]\s*=\s*")
    sig = bval_sigs(src)
    ops, ok_builders, un_txt = op_tables(src)
    meths, consts = math_java(repo_aldor)
    shapes_ok = dict(ok_builders)
    for fn, pat in SHAPES.items():
        shapes_ok[fn] = bool(re.search(pat, fn_text(gj, fn), re.S))
    rows = []
    for row in split_rows(body):
        f = split_fields(row)
        m = re.fullmatch(r"FOAM_BVal_(\w+)", f[0]) if f else None
        if not m:
            continue
        name = m.group(1)
        method = f[1] if len(f) > 1 else "GJ_NotImpl"
        gjtag = f[2] if len(f) > 2 else "0"
        c1 = strval(f[3]) if len(f) > 3 else None
        c2 = strval(f[4]) if len(f) > 4 else None
        if name not in sig:
            rows.append({"name": name, "args": [], "ret": "FOther", "exp": "(JOpaque %s)" % q("no signature"), "why": "sig",
                         "method": method})
            continue
        exp, why = build_row(name, method, gjtag, c1, c2, sig[name], ops, un_txt, meths, consts, shapes_ok)
        rows.append({"name": name, "args": sig[name][0], "ret": sig[name][1], "exp": exp, "why": why, "method": method,
                     "c1": c1, "c2": c2, "tag": gjtag})
    # the table is indexed by tag: its order must be the enumeration's (gj0BCallBValInfo asserts it)
    return {"rows": rows, "sig": sig, "shapes_ok": shapes_ok, "n_math_methods": len(meths), "bint": bint_literal_params(src)}


def is_translated(r):
    return "JOpaque" not in r["exp"]


def emit_coq(tr, known_bad):
    L = []
    w = L.append
    w("(* GENERATED by tools/javabuiltins_gen.py from java/genjava.c (gjBValInfoTable), java/javacode.c, foam.c and")
    w("   lib/java/src/foamj/Math.java.  Do not edit; regenerated on every run of ./check C12. *)")
    w("Require Import ZArith List String.")
    w("Require Import AV.Builtins.CInt AV.Java.Model.")
    w("Import ListNotations.")
    w("Local Open Scope Z_scope.")
    w("Local Open Scope string_scope.")
    w("")
    w("Definition java_tbl : list jrow := [")
    w(";\n".join("  mkjrow %s [%s] %s %s" % (q(r["name"]), "; ".join(r["args"]), r["ret"], r["exp"]) for r in tr["rows"]))
    w("].")
    w("")
    w("(* rows listed in known_findings.json (property C12, keys java:<Builtin>) *)")
    w("Definition known_bad_java : list string := [%s]." % "; ".join(q(n) for n in sorted(known_bad)))
    w("")
    ml, bits, shape = tr["bint"]
    w("(* genjava.c:gj0BInt / javacode.c:jcLiteralInteger: largest bintLength written as BigInteger.valueOf(<int literal>),")
    w("   width of the printf conversion of the literal, gj0BInt still of the modelled shape *)")
    w("Definition java_bint_params : bint_params := mkbp (%d) (%d) %s." % (ml, bits, "true" if shape else "false"))
    w("")
    w("(* every builtin of foam.c:foamBValInfoTable, in order *)")
    w("Definition java_bval_names : list string := [%s]." % "; ".join(q(n) for n in tr["sig"]))
    return "\n".join(L) + "\n"


def known_bad_from(findings):
    bad = set()
    for f in findings.get("findings", []):
        if f.get("property") == "C12":
            m = re.fullmatch(r"java:(\w+)", f.get("key", ""))
            if m:
                bad.add(m.group(1))
    return sorted(bad)


def broken_ties(tr):
    try:
        want = set(json.load(open(TRANSLATED_JSON)))
    except OSError:
        return []
    have = {r["name"] for r in tr["rows"] if is_translated(r)}
    return sorted(want - have)


def main():
    repo = sys.argv[1] if len(sys.argv) > 1 and not sys.argv[1].startswith("-") else "/repo"
    tr = translate(repo + "/aldor/aldor/src", repo + "/aldor/aldor")
    if "--update-translated" in sys.argv:
        json.dump(sorted(r["name"] for r in tr["rows"] if is_translated(r)), open(TRANSLATED_JSON, "w"), indent=0)
        print("wrote", TRANSLATED_JSON)
    n = sum(1 for r in tr["rows"] if is_translated(r))
    print("%d rows, %d embedded, %d opaque; generators ok: %s" % (len(tr["rows"]), n, len(tr["rows"]) - n, tr["shapes_ok"]))
    if "-v" in sys.argv:
        for r in tr["rows"]:
            print("  ", r["name"], r["args"], r["ret"], r["exp"][:150])
    print("broken ties:", broken_ties(tr))


if __name__ == "__main__":
    main()
