"""C14: abstract programs and their renderings (self-contained; used by props/c14.py).

Abstract grammar (the same grammar as coq/Linear/Grammar.v):

    block ::= stmt+                        (non-empty)
    stmt  ::= seg+                         (non-empty)
    seg   ::= hdr [block]                  hdr: non-empty list of ordinary tokens

with the side conditions the pile rules of linear.c need to read a piled
rendering as intended (they are conditions on TOKENS, not on layout):
  * the first token of a stmt is a "starter" (neither follower nor closer);
  * the first token of every later seg of a stmt is a follower (`else`, `==` ...);
  * a hdr never ends in `,` or an opener, contains no `{ } ;`, newline, comment,
    `#pile`, `#endpile`, and does not start with `@`;
  * every seg but the last has a body.

Two canonical token streams are defined for a program, `canon` (python, below)
and the Coq model's; a rendering is *token-equivalent* when the lineariser has
to produce exactly `canon` for it (up to `{`~SetTab, `;`~BackSet, `}`~BackTab),
and *parse-equivalent* when only the parser makes it equal (extra braces round a
single statement, optional `;` after `}` or before `}`, a body written on the
header line).  All renderings of one program must give byte-identical -Fap.
"""
import random

PILE_KW = {"then", "else", "with", "add", "try", "but", "catch", "finally", "always"}
TABSTOP = 8

MI = "MachineInteger"


# ------------------------------------------------------------------ programs

class Gen:
    """Random well-typed MachineInteger programs (they compile and run)."""

    def __init__(self, rnd, size=3):
        self.r = rnd
        self.size = size
        self.funs = []          # (name, arity)
        self.nfresh = 0

    def fresh(self, p):
        self.nfresh += 1
        return "%s%d" % (p, self.nfresh)

    def lit(self):
        return str(self.r.choice([0, 1, 2, 3, 5, 7, 10, 12, 42, 100, 255]))

    def expr(self, vs, d=0):
        r = self.r
        k = r.random()
        if d >= 3 or k < 0.30:
            return [r.choice(vs)] if (vs and r.random() < 0.7) else [self.lit()]
        if k < 0.65:
            return self.expr(vs, d + 1) + [r.choice(["+", "-", "*"])] + self.expr(vs, d + 1)
        if k < 0.80:
            return ["("] + self.expr(vs, d + 1) + [")"]
        if k < 0.95 and self.funs:
            f, n = r.choice(self.funs)
            out = [f, "("]
            for i in range(n):
                if i:
                    out.append(",")
                out += self.expr(vs, d + 2)
            return out + [")"]
        return ["(", "-", r.choice(vs) if vs else self.lit(), ")"]

    def cond(self, vs):
        c = self.expr(vs, 1) + [self.r.choice(["<", ">", "<=", ">=", "=", "~="])] + self.expr(vs, 2)
        if self.r.random() < 0.25:
            c = ["("] + c + [")", self.r.choice(["and", "or"]), "("] + \
                self.expr(vs, 2) + ["<"] + self.expr(vs, 2) + [")"]
        return c

    def simple(self, toks):
        return [(list(toks), None)]

    def stmts(self, vs, mut, depth, n):
        """n effect statements; vs readable variables, mut assignable ones."""
        r = self.r
        out = []
        vs = list(vs)
        mut = list(mut)
        for _ in range(n):
            k = r.random()
            if k < 0.30 or not mut:
                v = self.fresh("t")
                out.append(self.simple([v, ":", MI, ":="] + self.expr(vs)))
                vs.append(v)
                mut.append(v)
            elif k < 0.50:
                out.append(self.simple([r.choice(mut), ":="] + self.expr(vs)))
            elif k < 0.72 and depth < self.size:
                th = self.stmts(vs, mut, depth + 1, r.randint(1, 3))[0]
                st = [(["if"] + self.cond(vs) + ["then"], th)]
                if r.random() < 0.6:
                    el = self.stmts(vs, mut, depth + 1, r.randint(1, 2))[0]
                    if r.random() < 0.3:
                        # else if ... chain, still one statement
                        th2 = self.stmts(vs, mut, depth + 1, r.randint(1, 2))[0]
                        st.append((["else", "if"] + self.cond(vs) + ["then"], th2))
                        st.append((["else"], el))
                    else:
                        st.append((["else"], el))
                out.append(st)
            elif k < 0.82 and depth < self.size:
                i = self.fresh("i")
                out.append(self.simple([i, ":", MI, ":=", "0"]))
                body = self.stmts(vs + [i], mut, depth + 1, r.randint(1, 2))[0]
                body.append(self.simple([i, ":=", i, "+", "1"]))
                out.append([(["while", i, "<", self.lit(), "repeat"], body)])
                vs.append(i)
            elif k < 0.92 and depth < self.size:
                i = self.fresh("k")
                body = self.stmts(vs + [i], mut, depth + 1, r.randint(1, 2))[0]
                out.append([(["for", i, ":", MI, "in", "1", "..", self.lit(), "repeat"], body)])
            else:
                s = '"%s"' % r.choice(["a -- b", "x ++ y", "{ ; }", "p  q", "#pile", "tab\there", "u_v".replace("_", "__")])
                out.append(self.simple(["stdout", "<<", s, "<<"] + self.expr(vs) + ["<<", "newline"]))
        return out, vs, mut

    def fun(self):
        r = self.r
        name = self.fresh("f")
        n = r.randint(1, 3)
        ps = [self.fresh("a") for _ in range(n)]
        hdr = [name, "("]
        for i, p in enumerate(ps):
            if i:
                hdr.append(",")
            hdr += [p, ":", MI]
        hdr += [")", ":", MI, "=="]
        body, vs, mut = self.stmts(ps, [], 1, r.randint(0, 3))
        k = r.random()
        if k < 0.35:
            th, _, _ = self.stmts(vs, mut, 2, r.randint(0, 2))
            el, _, _ = self.stmts(vs, mut, 2, r.randint(0, 2))
            th.append(self.simple(self.expr(vs)))
            el.append(self.simple(self.expr(vs)))
            body.append([(["if"] + self.cond(vs) + ["then"], th), (["else"], el)])
        elif k < 0.5:
            body.append(self.simple(["return"] + self.expr(vs)))
        else:
            body.append(self.simple(self.expr(vs)))
        self.funs.append((name, n))
        return [(hdr, body)]

    def domain(self):
        r = self.r
        name = self.fresh("Dom")
        sigs, defs = [], []
        for _ in range(r.randint(1, 3)):
            f = self.fresh("g")
            x = self.fresh("x")
            sigs.append(self.simple([f, ":", MI, "->", MI]))
            defs.append([([f, "(", x, ":", MI, ")", ":", MI, "=="],
                          [self.simple(self.expr([x]))] if r.random() < 0.5 else
                          [self.simple(["y", ":", MI, ":=", x, "+", self.lit()]), self.simple(["y", "*", "2"])])])
        return [([name, ":", "with"], sigs), (["==", "add"], defs)]

    def program(self):
        r = self.r
        top = [self.simple(["import", "from", MI])]
        top.append(self.fun())
        for _ in range(r.randint(0, self.size)):
            top.append(self.fun() if r.random() < 0.75 else self.domain())
        main, vs, mut = self.stmts([], [], 0, r.randint(1, 2 + self.size))
        top += main
        f, n = self.funs[-1]
        call = [f, "("]
        for i in range(n):
            if i:
                call.append(",")
            call += self.expr(vs, 2)
        top.append(self.simple(["stdout", "<<"] + call + [")", "<<", "newline"]))
        return top


def check_grammar(block, follower, closer, opener):
    """The side conditions stated in the module doc; returns list of problems."""
    bad = []

    def blk(b):
        if not b:
            bad.append("empty block")
        for st in b:
            if not st:
                bad.append("empty stmt")
            for k, (hdr, body) in enumerate(st):
                if not hdr:
                    bad.append("empty hdr")
                    continue
                if k == 0 and (hdr[0] in follower or hdr[0] in closer):
                    bad.append("stmt starts with non-starter %r" % hdr[0])
                if k > 0 and hdr[0] not in follower:
                    bad.append("later seg does not start with a follower: %r" % hdr[0])
                if hdr[-1] == "," or hdr[-1] in opener:
                    bad.append("hdr ends in comma/opener")
                if hdr[0] == "@":
                    bad.append("hdr starts with @")
                for t in hdr:
                    if t in ("{", "}", ";", "#pile", "#endpile") or t.startswith("--") or t.startswith("++"):
                        bad.append("layout token in hdr: %r" % t)
                if k < len(st) - 1 and body is None:
                    bad.append("non-final seg without body")
                if body is not None:
                    blk(body)
    blk(block)
    return bad


# ------------------------------------------------------------------ canonical stream

def canon(block):
    """Token texts the lineariser must produce for a token-equivalent rendering
    of the program body ( `{`, `;`, `}` standing for SetTab/BackSet/BackTab too)."""
    def blk(b, kw):
        out = []
        for i, st in enumerate(b):
            if i:
                out.append(";")
            for hdr, body in st:
                out += hdr
                if body is not None:
                    out += blk(body, hdr[-1])
        if len(b) >= 2 or kw in PILE_KW:
            out = ["{"] + out + ["}"]
        return out
    return blk(block, None)


def size(block):
    n = 0
    for st in block:
        for hdr, body in st:
            n += len(hdr)
            if body is not None:
                n += 1 + size(body)
    return n


def depth(block):
    d = 1
    for st in block:
        for hdr, body in st:
            if body is not None:
                d = max(d, 1 + depth(body))
    return d


# ------------------------------------------------------------------ logical lines

class Line:
    """One logical line: depth (pile nesting), tokens, and whether a real
    line break is allowed inside (braced mode: anywhere)."""
    __slots__ = ("depth", "toks", "cont")

    def __init__(self, depth, toks, cont=0):
        self.depth, self.toks, self.cont = depth, list(toks), cont


def lines_piled(block, opt, rnd):
    """Piled logical lines.  opt: inline (probability a one-line body is put on the
    header line: parse-equivalent only)."""
    out = []
    teq = [True]

    def blk(b, d):
        for st in b:
            for hdr, body in st:
                if body is not None and len(body) == 1 and len(body[0]) == 1 and body[0][0][1] is None \
                        and hdr[-1] not in ("with", "add") and rnd.random() < opt.get("inline", 0.0):
                    if hdr[-1] in PILE_KW:
                        teq[0] = False
                    out.append(Line(d, hdr + body[0][0][0]))
                    continue
                out.append(Line(d, hdr))
                if body is not None:
                    blk(body, d + 1)
    blk(block, 0)
    return out, teq[0]


def lines_braced(block, opt, rnd):
    """Braced logical lines (one statement per line, K&R or Allman braces).
    opt: canonical (bool): braces exactly where canon() has them; otherwise random extra
    braces round single statements (parse-equivalent only).  semi_after_brace /
    semi_before_close: the two optional `;` positions that linear.c itself normalises
    (these stay token-equivalent)."""
    out = []
    canonical = opt.get("canonical", True)

    def blk(b, d, kw, last_in_parent):
        need = len(b) >= 2 or kw in PILE_KW
        brace = need or (not canonical and rnd.random() < 0.5)
        if brace:
            if out and rnd.random() < opt.get("kr", 0.7):
                out[-1].toks.append("{")
            else:
                out.append(Line(max(d - 1, 0), ["{"]))
        for i, st in enumerate(b):
            for k, (hdr, body) in enumerate(st):
                if k > 0 and out and out[-1].toks[-1] == "}" and rnd.random() < 0.5:
                    out[-1].toks += hdr
                else:
                    out.append(Line(d, hdr))
                if body is not None:
                    blk(body, d + 1, hdr[-1], False)
            final = (i == len(b) - 1)
            ends_brace = out[-1].toks[-1] == "}"
            if not final:
                # after `}` the `;` is optional: linISepAfterDontPiles inserts it
                if not ends_brace or rnd.random() < opt.get("semi_after_brace", 1.0):
                    out[-1].toks.append(";")
            elif brace and rnd.random() < opt.get("semi_before_close", 0.0):
                out[-1].toks.append(";")          # `;` before `}` is deleted by linXSep
        if brace:
            if rnd.random() < 0.3:
                out[-1].toks.append("}")
            else:
                out.append(Line(max(d - 1, 0), ["}"]))
    blk(block, 1, None, True)
    # top level: the body is `{ ... }` exactly when the piled form gets SetTab (>= 2 statements)
    return out


# ------------------------------------------------------------------ physical text

ZERO_OK_RIGHT = {")", ",", ";", "("}
ZERO_OK_LEFT = {"("}


def col_after(col, s):
    """Column after the characters s starting at 0-based column col
    (TABSTOP rule of include.c:inclCalcIndentLevel / scan.c:scAdvance0)."""
    for ch in s:
        if ch == "\t":
            col = (col // TABSTOP + 1) * TABSTOP
        else:
            col += 1
    return col


COMMENT_TEXTS = ["", " c", " { ; }", " #pile", " if then else", " \"", " trailing _", " ++ not doc", " -- --",
                 " \t tab", " == add with", " )", " #endpile", " _"]


class Layout:
    """Layout parameters for one rendering; every random choice comes from rnd."""

    def __init__(self, rnd, **kw):
        self.r = rnd
        self.width = kw.get("width", 4)            # indentation width 1..8
        self.tabs = kw.get("tabs", "none")         # none | all | mixed | equiv
        self.spacing = kw.get("spacing", "one")    # one | random | tight
        self.comments = kw.get("comments", 0.0)    # probability of a comment-only line at a line boundary
        self.blanks = kw.get("blanks", 0.0)        # probability of a blank line at a line boundary
        self.trail = kw.get("trail", 0.0)          # probability of a trailing comment on a line
        self.escapes = kw.get("escapes", 0.0)      # probability per logical line of an escaped line break
        self.breaks = kw.get("breaks", 0.0)        # braced only: probability per token gap of a real line break
        self.contin = kw.get("contin", 0.0)        # piled only: probability per line of a deeper continuation line
        self.commas = kw.get("commas", 0.0)        # piled only: probability per line of breaking after commas (rule 2)
        self.closer0 = kw.get("closer0", 0.0)      # piled only: probability per line of a `)` at the statement's column (rule 3)
        self.trailws = kw.get("trailws", 0.0)
        self.piled = kw.get("piled", False)
        self._ind = {0: ""}

    def indent(self, d):
        """Indentation string for pile depth d: strictly increasing columns."""
        if d in self._ind:
            return self._ind[d]
        prev = self.indent(d - 1)
        r = self.r
        if self.tabs == "all":
            s = prev + "\t"
        elif self.tabs == "mixed":
            s = prev + r.choice(["\t", " " * r.randint(1, 8), " \t", "\t "])
        else:
            s = prev + " " * self.width
        self._ind[d] = s
        return s

    def spell(self, s):
        """Another spelling of an indentation with the same column."""
        if self.tabs != "equiv":
            return s
        c = col_after(0, s)
        # walk from tab stop to tab stop; each stop is reached by a tab, by j blanks and a tab
        # (j = 1 .. 7, e.g. seven blanks + TAB), or by blanks alone
        out, col = "", 0
        while col < c:
            ns = (col // TABSTOP + 1) * TABSTOP
            if ns <= c:
                k = self.r.random()
                if k < 0.4:
                    out += "\t"
                elif k < 0.75 and ns - col > 1:
                    out += " " * self.r.randint(1, ns - col - 1) + "\t"
                else:
                    out += " " * (ns - col)
                col = ns
            else:
                out += " " * (c - col)
                col = c
        return out

    def gap(self, a, b):
        r = self.r
        if self.spacing == "one":
            return " "
        if self.spacing == "tight":
            return "" if (b in ZERO_OK_RIGHT or a in ZERO_OK_LEFT) else " "
        k = r.random()
        if k < 0.25 and (b in ZERO_OK_RIGHT or a in ZERO_OK_LEFT):
            return ""
        if k < 0.6:
            return " "
        if k < 0.8:
            return " " * r.randint(2, 5)
        if k < 0.9:
            return "\t"
        return r.choice([" \t", "\t ", "\t\t", "  \t  "])

    def filler(self, after_escape=False):
        """Blank / comment-only lines inserted at a line boundary."""
        r = self.r
        out = []
        while True:
            k = r.random()
            if k < self.blanks:
                out.append(r.choice(["", "", " ", "   ", "\t", " \t ", "\t\t"]))
            elif k < self.blanks + self.comments and not after_escape:
                ind = r.choice(["", " ", "  ", "\t", " " * r.randint(0, 20), "\t \t"])
                out.append(ind + "--" + r.choice(COMMENT_TEXTS))
            else:
                break
            if len(out) > 3:
                break
        return out

    def render(self, prelude, lines, trailer=()):
        """-> (text, toks, firsts): toks = ordinary token texts in order;
        firsts = list of (index into toks, expected 0-based column) for the first token
        of every logical line that starts a physical line."""
        r = self.r
        phys = []
        toks = []
        firsts = []
        phys += self.filler() if self.comments or self.blanks else []
        for p in prelude:
            phys.append(p)
            phys += self.filler()
        for ln in lines:
            base = self.spell(self.indent(ln.depth)) if (self.piled or self.width) else ""
            cur = base
            col = col_after(0, base)
            firsts.append((len(toks), col))
            n = len(ln.toks)
            esc_at = set()
            brk_at = set()
            if n > 1 and r.random() < self.escapes:
                esc_at.add(r.randrange(1, n))
                if r.random() < 0.3:
                    esc_at.add(r.randrange(1, n))
            com_at = set()
            clo_at = set()
            if n > 1 and self.piled and r.random() < self.contin:
                brk_at.add(r.randrange(1, n))
                if r.random() < 0.3:
                    brk_at.add(r.randrange(1, n))
                brk_at -= esc_at
                # a real line break after then/else/with/add/... starts a block
                # (isPileRequired): not a layout-only edit
                brk_at = {i for i in brk_at if ln.toks[i - 1] not in PILE_KW}
            elif n > 1 and self.piled and r.random() < self.commas:
                # all continuation lines at ONE deeper column, every line but the last ends in `,`
                com_at = {i for i in range(1, n) if ln.toks[i - 1] == "," and i not in esc_at and r.random() < 0.7}
            if n > 1 and self.piled and r.random() < self.closer0:
                c = [i for i in range(1, n) if ln.toks[i] == ")" and i not in esc_at and i not in brk_at and i not in com_at]
                if c:
                    clo_at.add(r.choice(c))
            nb = 0
            for i, t in enumerate(ln.toks):
                if i:
                    a = ln.toks[i - 1]
                    if i in esc_at:
                        # escaped line break: `_` must not touch a word, so a blank first
                        cur += r.choice([" ", "  ", "\t"]) + "_" + r.choice(["", " ", "\t"])
                        phys.append(cur)
                        # blank lines after the escape are swallowed too (isspace loop)
                        if r.random() < self.blanks:
                            phys.append(r.choice(["", "  ", "\t"]))
                        cur = r.choice(["", " ", "    ", "\t", " " * r.randint(0, 30)])
                    elif i in brk_at:
                        # piled continuation line: strictly deeper than anything the body can use,
                        # successive continuation lines strictly deeper still (staircase)
                        nb += 1
                        if r.random() < self.trail:
                            cur += " --" + r.choice(COMMENT_TEXTS)
                        phys.append(cur)
                        phys += self.filler()
                        cur = self.indent(ln.depth + 1) + " " * (1 + 4 * (nb - 1) + r.randint(0, 2))
                    elif i in com_at or i in clo_at:
                        if r.random() < self.trail:
                            cur += " --" + r.choice(COMMENT_TEXTS)
                        phys.append(cur)
                        phys += self.filler()
                        cur = base if i in clo_at else self.indent(ln.depth + 1) + "       "
                    elif not self.piled and r.random() < self.breaks:
                        if r.random() < self.trail:
                            cur += " --" + r.choice(COMMENT_TEXTS)
                        phys.append(cur)
                        phys += self.filler()
                        cur = r.choice(["", " ", "\t", " " * r.randint(0, 12)])
                    else:
                        cur += self.gap(a, t)
                toks.append(t)
                cur += t
            if r.random() < self.trail:
                cur += r.choice([" ", "", "\t"]) + "--" + r.choice(COMMENT_TEXTS)
            elif r.random() < self.trailws:
                cur += r.choice([" ", "  ", "\t", " \t"])
            phys.append(cur)
            phys += self.filler()
        for t in trailer:
            phys.append(t)
            phys += self.filler()
        return "\n".join(phys) + "\n", toks, firsts


PRELUDE = ['#include "aldor"', '#include "aldorio"']


def render(block, rnd, mode, **kw):
    """One rendering of the program body `block`.
    mode: 'piled' | 'braced'.  Returns dict(text, toks, firsts, token_equiv, desc)."""
    if mode == "piled":
        lines, teq = lines_piled(block, kw, rnd)
        lay = Layout(rnd, piled=True, **kw)
        trailer = ["#endpile"] if kw.get("endpile") else []
        text, toks, firsts = lay.render(PRELUDE + ["#pile"], lines, trailer)
        if kw.get("no_final_nl"):
            text = text[:-1]
        return {"text": text, "toks": toks, "firsts": firsts, "token_equiv": teq, "mode": mode,
                "desc": dict(kw, mode=mode)}
    lines = lines_braced(block, kw, rnd)
    lay = Layout(rnd, piled=False, **kw)
    text, toks, firsts = lay.render(PRELUDE, lines)
    if kw.get("no_final_nl"):
        text = text[:-1]
    return {"text": text, "toks": toks, "firsts": firsts, "token_equiv": bool(kw.get("canonical", True)),
            "mode": mode, "desc": dict(kw, mode=mode)}


def random_layout(rnd, mode, level=1.0):
    """A random point of the layout space of the property:
    spacing x comments/blank lines at line boundaries x width 1..8 x tabs/spaces x escaped breaks."""
    kw = {
        "width": rnd.randint(1, 8),
        "tabs": rnd.choice(["none", "none", "all", "mixed", "equiv"]),
        "spacing": rnd.choice(["one", "random", "random", "tight"]),
        "comments": rnd.choice([0.0, 0.2, 0.5]) * level,
        "blanks": rnd.choice([0.0, 0.2, 0.5]) * level,
        "trail": rnd.choice([0.0, 0.3]) * level,
        "escapes": rnd.choice([0.0, 0.0, 0.3, 0.8]) * level,
        "trailws": rnd.choice([0.0, 0.3]),
        "no_final_nl": rnd.random() < 0.1,
    }
    if mode == "piled":
        kw["inline"] = rnd.choice([0.0, 0.0, 0.5])
        kw["endpile"] = rnd.random() < 0.3
        kw["contin"] = rnd.choice([0.0, 0.0, 0.4])
        kw["commas"] = rnd.choice([0.0, 0.0, 0.5])
        kw["closer0"] = rnd.choice([0.0, 0.0, 0.4])
        if kw["endpile"]:
            kw["no_final_nl"] = False
    else:
        kw["canonical"] = rnd.random() < 0.5
        kw["semi_after_brace"] = rnd.choice([1.0, 0.5, 0.0])
        kw["semi_before_close"] = rnd.choice([0.0, 0.5, 1.0])
        kw["breaks"] = rnd.choice([0.0, 0.0, 0.1, 0.4])
        kw["kr"] = rnd.random()
    return kw
