"""C02, program family for the GLOBAL passes (cse, cprop, deadvar, dassign, emerge, jflow ...).

Functions at the builtin level (`import { SIntPlus: ... } from Builtin`, so every arithmetic node is a
BCall without any inlining and a single pass can be isolated with -Q0 -Q<p>) whose bodies are made of
the shapes data-flow facts have to survive or to be killed across:

  * self-updates of a local          i := i + 1;  i := i * 2;  s := s + i
  * a copy followed by an update     a := b; b := b + 1;  ... a ...
  * control flow after an update     if / if-else / bounded while / early return
  * RE-USE of the same right-hand side expression after the control flow (and inside loops, so
    that values are live across the back edge)
  * prints of intermediate values

All operands are run-time values (parameters, locals); constants are nullary builtins.  The
abstract program is kept, so the expected output is computed here by a direct evaluator (64-bit
wrap-around arithmetic) - the oracle says which side is wrong - and a failing function is shrunk
by statement deletion on the abstract program.
"""
import hashlib
import os

M64 = 1 << 64


def wrap(z):
    z %= M64
    return z - M64 if z >= M64 // 2 else z


BIN = {"SIntPlus": lambda a, b: wrap(a + b), "SIntMinus": lambda a, b: wrap(a - b), "SIntTimes": lambda a, b: wrap(a * b),
       "SIntAnd": lambda a, b: a & b, "SIntOr": lambda a, b: a | b}
UN = {"SIntNegate": lambda a: wrap(-a), "SIntNext": lambda a: wrap(a + 1), "SIntPrev": lambda a: wrap(a - 1)}
CMP = {"SIntLT": lambda a, b: a < b, "SIntLE": lambda a, b: a <= b, "SIntEQ": lambda a, b: a == b, "SIntNE": lambda a, b: a != b}
# constants are locals assigned once at the top of every function
CONST = {"0": "k0", "1": "k1", "2": "k2", "3": "k3", "-1": "km1", "100": "k100"}
CONST_DECLS = ["k0: SInt := SInt0();", "k1: SInt := SInt1();", "k2: SInt := SIntPlus(k1, k1);", "k3: SInt := SIntNext(k2);",
               "km1: SInt := SIntNegate(k1);", "k100: SInt := %s;"]
SIG = {"SIntPlus": "(SInt,SInt)->SInt", "SIntMinus": "(SInt,SInt)->SInt", "SIntTimes": "(SInt,SInt)->SInt",
       "SIntAnd": "(SInt,SInt)->SInt", "SIntOr": "(SInt,SInt)->SInt", "SIntNegate": "SInt->SInt", "SIntNext": "SInt->SInt",
       "SIntPrev": "SInt->SInt", "SIntLT": "(SInt,SInt)->Bool", "SIntLE": "(SInt,SInt)->Bool", "SIntEQ": "(SInt,SInt)->Bool",
       "SIntNE": "(SInt,SInt)->Bool", "SInt0": "()->SInt", "SInt1": "()->SInt"}
LOCALS = ["i", "j", "s", "a", "b"]


# ------------------------------------------------------------------ expressions: ('c', n) ('v', x) ('u', op, e) ('b', op, e, e)

def rx(e):
    k = e[0]
    if k == "c":
        return CONST[str(e[1])]
    if k == "v":
        return e[1]
    if k == "u":
        return "%s(%s)" % (e[1], rx(e[2]))
    return "%s(%s, %s)" % (e[1], rx(e[2]), rx(e[3]))


def ev(e, env):
    k = e[0]
    if k == "c":
        return e[1]
    if k == "v":
        return env[e[1]]
    if k == "u":
        return UN[e[1]](ev(e[2], env))
    if e[1] in CMP:
        return CMP[e[1]](ev(e[2], env), ev(e[3], env))
    return BIN[e[1]](ev(e[2], env), ev(e[3], env))


class Ret(Exception):
    def __init__(self, v):
        self.v = v


def run_stmts(ss, env, out):
    for s in ss:
        k = s[0]
        if k == "set":
            env[s[1]] = ev(s[2], env)
        elif k == "print":
            out.append("p%d" % ev(s[1], env))
        elif k == "if":
            run_stmts(s[2] if ev(s[1], env) else s[3], env, out)
        elif k == "while":          # while 0 < n repeat { body; n := n - 1 }
            while 0 < env["n"]:
                run_stmts(s[1], env, out)
                env["n"] = wrap(env["n"] - 1)
        elif k == "ret":
            raise Ret(ev(s[1], env))


def render_stmts(ss, ind):
    L = []
    pad = "    " * ind
    for s in ss:
        k = s[0]
        if k == "set":
            L.append("%s%s := %s;" % (pad, s[1], rx(s[2])))
        elif k == "print":
            L.append('%sstdout << "p" << ((%s) pretend MachineInteger) << newline;' % (pad, rx(s[1])))
        elif k == "if":
            L.append("%sif (%s) pretend Boolean then {" % (pad, rx(s[1])))
            L += render_stmts(s[2], ind + 1)
            if s[3]:
                L.append("%s} else {" % pad)
                L += render_stmts(s[3], ind + 1)
            L.append("%s};" % pad)
        elif k == "while":
            L.append("%swhile (SIntLT(k0, n)) pretend Boolean repeat {" % pad)
            L += render_stmts(s[1], ind + 1)
            L.append("%s    n := SIntPrev(n);" % pad)
            L.append("%s};" % pad)
        elif k == "ret":
            L.append("%sreturn %s;" % (pad, rx(s[1])))
    return L


# ------------------------------------------------------------------ generator

def subexprs(e):
    """the call nodes of e, innermost first"""
    if e[0] in ("c", "v"):
        return []
    out = []
    for a in e[2:]:
        out += subexprs(a)
    return out + [e]


def evars(e):
    if e[0] == "v":
        return {e[1]}
    if e[0] == "c":
        return {"k%s" % str(e[1]).replace("-", "m")}
    s = set()
    for a in e[2:]:
        s |= evars(a)
    return s


# Expressions available on some paths only are re-used as well (since fix dc971d7 of the cse join defect; before it
# the generator had to avoid them).  C02_FLOW_RESTRICTED=1 brings the must-available-or-killed discipline back.
UNRESTRICTED = not os.environ.get("C02_FLOW_RESTRICTED")
CVAL = {}        # locals whose value is a known constant at the point being generated (constant propagation)


def norm(e):
    """Normal form used as the IDENTITY of an expression by the availability tracker.  Constant propagation
    plus the peephole rules turn x + 1, 1 + x, x - (-1) and SIntNext(x) into the same node (likewise x - 1 /
    SIntPrev(x), x * 2 / 2 * x, 0 - x / SIntNegate(x)); forms that may become the same node are given the same
    identity here (merging identities is always on the safe side: it can only make the tracker avoid more).
    A local that holds a known constant at this point (s := 0; s := s + 1) is replaced by it, as constant
    propagation does."""
    k = e[0]
    if k == "v" and e[1] in CVAL:
        return ("c", CVAL[e[1]])
    if k in ("c", "v"):
        return e
    if k == "u":
        a = norm(e[2])
        if e[1] == "SIntNext":
            return norm_bin("SIntPlus", a, ("c", 1))
        if e[1] == "SIntPrev":
            return norm_bin("SIntPlus", a, ("c", -1))
        if a[0] == "c":
            return ("c", wrap(-a[1]))
        return ("u", "SIntNegate", a)
    return norm_bin(e[1], norm(e[2]), norm(e[3]))


def norm_bin(op, a, b):
    if a[0] == "c" and b[0] == "c" and op in BIN:
        return ("c", BIN[op](a[1], b[1]))
    if op == "SIntMinus":
        if b[0] == "c":
            return norm_bin("SIntPlus", a, ("c", wrap(-b[1])))
        if a == ("c", 0):
            return ("u", "SIntNegate", b)
        if a == b:
            return ("c", 0)
    if op in ("SIntPlus", "SIntTimes", "SIntAnd", "SIntOr", "SIntEQ", "SIntNE"):
        if a[0] == "c" or (b[0] != "c" and repr(b) < repr(a)):
            a, b = b, a
    if op == "SIntPlus" and b == ("c", 0):
        return a
    if op == "SIntTimes" and b == ("c", 1):
        return a
    if op == "SIntTimes" and b == ("c", 0):
        return ("c", 0)
    return ("b", op, a, b)


def key(e):
    return repr(norm(e))


def keys(e):
    """the identities of e: as the peephole rules see it, and the same after constant propagation"""
    global CVAL
    k1 = key(e)
    saved, CVAL = CVAL, {}
    try:
        k0 = key(e)
        n0 = norm(e)
    finally:
        CVAL = saved
    out = [("text:" + rx(e), e), (k0, n0)]      # the text itself: what cse alone (-Q0 -Qcse) compares
    if k1 != k0:
        out.append((k1, norm(e)))
    return out


class G:
    """Generates one function while tracking, for every expression text seen so far, whether it is
    available on ALL paths reaching the current point (`must`), on SOME path (`may`) or on none.
    Re-use prefers expressions that are must-available (a common subexpression the optimiser may share)
    or killed by an assignment to one of their operands (the optimiser has to recompute them); expressions
    available on some paths only (computed in one branch, or only inside a loop body, or killed on one
    path) are re-used too - the shape of the cse join defect repaired by dc971d7, corpus/C02/hand-cse-*.
    With C02_FLOW_RESTRICTED=1 those are avoided (the discipline needed before the repair).  Constants are locals k0..k100 assigned once at the top, so a
    constant is an operand like any other and no call node is free of variables."""

    def __init__(self, rng):
        self.r = rng
        self.reset()

    def reset(self):
        CVAL.clear()
        self.must, self.may, self.seen = set(), set(), {}
        self.W = None            # inside a loop body: the locals the body may assign

    # ---- availability
    def note(self, e):
        for x in subexprs(e):
            for k, n in keys(x):
                if n[0] in ("c", "v"):
                    continue
                self.seen.setdefault(k, x)
                self.must.add(k)
                self.may.add(k)

    def kill(self, v):
        dead = {k for k in self.may | self.must if v in evars(self.seen[k])}
        self.must -= dead
        self.may -= dead

    def usable(self, e):
        if UNRESTRICTED:
            return True
        return self.usable0(e)

    def usable0(self, e):
        """no call node of e is available on some paths only; inside a loop every call node mentions a
        local the body updates at its end (so nothing computed in the body survives the back edge)"""
        for x in subexprs(e):
            for k, n in keys(x):
                if k in self.may and k not in self.must:
                    return False
                if self.W is not None and k not in self.must and not (evars(x) & self.W):
                    return False
        return True

    def assign(self, v, e):
        self.note(e)
        self.kill(v)
        n = norm(e)
        if n[0] == "c":
            CVAL[v] = n[1]
        else:
            CVAL.pop(v, None)
        return ("set", v, e)

    # ---- expressions
    def const(self):
        return ("c", self.r.choice([1, 2, 3, 0, -1, 1, 2]))

    def var(self):
        if self.W is not None:
            return ("v", self.r.choice(sorted(self.W - {"n"})))
        return ("v", self.r.choice(LOCALS))

    def atom(self):
        return self.r.choice([("v", v) for v in LOCALS + ["x", "y"]] + [self.const(), self.const()])

    def fresh(self, d):
        r = self.r.random()
        if r < 0.15:
            return ("u", self.r.choice(list(UN)), self.var())
        op = self.r.choice(["SIntPlus", "SIntPlus", "SIntMinus", "SIntTimes", "SIntPlus", "SIntAnd"])
        a = self.var()
        if d > 1 and self.W is None and self.r.random() < 0.3:
            b = self.fresh(d - 1)
        else:
            b = self.r.choice([self.const(), self.const(), self.atom()])
        return ("b", op, a, b)

    def expr(self, d=2):
        for _ in range(30):
            r = self.r.random()
            avail = sorted(k for k in self.must if self.seen[k][1] not in CMP)
            killed = sorted(k for k in self.seen if k not in self.may and self.seen[k][1] not in CMP)
            if r < 0.30 and avail:
                e = self.seen[self.r.choice(avail)]
            elif r < 0.65 and killed:
                e = self.seen[self.r.choice(killed)]          # recompute something an assignment killed
            else:
                e = self.fresh(d)
            if self.usable(e):
                return e
        return self.var()

    def cond(self):
        for _ in range(30):
            e = ("b", self.r.choice(list(CMP)), self.var(), self.r.choice([("c", 0), ("c", 3), ("c", 100), self.atom()]))
            if self.usable(e):
                return e
        return ("b", "SIntLT", self.var(), self.var())

    # ---- statements
    def self_update(self, v=None):
        v = v or self.var()[1]
        k = self.r.randrange(5)
        if k == 0:
            e = ("b", "SIntPlus", ("v", v), ("c", 1))
        elif k == 1:
            e = ("b", "SIntTimes", ("v", v), ("c", 2))
        elif k == 2:
            e = ("b", "SIntPlus", ("v", v), self.var())
        elif k == 3:
            e = ("b", "SIntMinus", ("v", v), ("c", self.r.choice([1, 2, 3])))
        else:
            e = ("u", self.r.choice(["SIntNext", "SIntPrev"]), ("v", v))
        if not self.usable(e):
            alts = [("u", "SIntNext", ("v", v)), ("u", "SIntPrev", ("v", v)), ("b", "SIntPlus", ("v", v), ("c", 2)),
                    ("b", "SIntPlus", ("v", v), ("c", 3)), ("b", "SIntMinus", ("v", v), ("c", 1)), ("b", "SIntPlus", ("v", v), ("v", v)),
                    ("b", "SIntTimes", ("v", v), ("c", 3)), ("b", "SIntMinus", ("v", v), ("c", -1))]
            ok = [x for x in alts if self.usable(x)]
            if not ok:
                return []
            e = self.r.choice(ok)
        return [self.assign(v, e)]

    def simple(self):
        r = self.r.random()
        if r < 0.35:
            return self.self_update()
        if r < 0.5 and self.W is None:                # copy, update of the source, use of the copy
            a, b = self.r.sample(LOCALS, 2)
            out = [self.assign(a, ("v", b))]
            out += self.self_update(b)
            e = ("b", "SIntPlus", ("v", a), ("v", b))
            if self.usable(e):
                out.append(self.assign(self.var()[1], e))
            return out
        if r < 0.85:
            e = self.expr()
            return [self.assign(self.var()[1], e)]
        e = self.expr()
        self.note(e)
        return [("print", e)]

    def block(self, n, depth):
        out = []
        for _ in range(n):
            r = self.r.random()
            if depth > 0 and r < 0.25:
                c = self.cond()
                self.note(c)
                m0, y0, c0 = set(self.must), set(self.may), dict(CVAL)
                th = self.block(self.r.choice([1, 2]), depth - 1)
                m1, y1, c1 = self.must, self.may, dict(CVAL)
                self.must, self.may = set(m0), set(y0)
                CVAL.clear()
                CVAL.update(c0)
                el = self.block(self.r.choice([0, 0, 1, 2]), depth - 1)
                self.must, self.may = self.must & m1, self.may | y1
                for v in list(CVAL):
                    if c1.get(v) != CVAL[v]:
                        del CVAL[v]
                out.append(("if", c, th, el))
            elif depth > 0 and self.W is None and r < 0.40:
                out.append(self.loop(depth - 1))
            elif depth > 0 and self.W is None and r < 0.47:
                c = self.cond()
                self.note(c)
                m0, y0, c0 = set(self.must), set(self.may), dict(CVAL)
                e = self.expr()
                self.must, self.may = m0, y0          # the branch leaves the function
                CVAL.clear()
                CVAL.update(c0)
                out.append(("if", c, [("ret", e)], []))
            else:
                out += self.simple()
        return out

    def loop(self, depth):
        W = set(self.r.sample(LOCALS, self.r.choice([1, 2, 2, 3]))) | {"n"}
        # at the loop header: what is available on entry AND not touched by the body
        for v in W:
            stale = {k for k in self.may if v in evars(self.seen[k])}
            self.must -= stale          # available on entry only: on some paths -> never used again
            CVAL.pop(v, None)           # not a constant any more at the header
        head_must, head_may = set(self.must), set(self.may)
        self.W = W
        body = self.block(self.r.choice([1, 2, 3]), depth)
        for v in sorted(W - {"n"}, key=lambda _: self.r.random()):
            body += self.self_update(v) or [self.assign(v, ("c", self.r.choice([1, 2, 3])))]
        self.W = None
        self.must, self.may = head_must, head_may
        for v in W:
            CVAL.pop(v, None)
        return ("while", body)

    def function(self):
        self.reset()
        init = []
        for v, e in (("i", ("b", "SIntTimes", ("v", "x"), ("c", 2))), ("j", ("v", "y")), ("s", ("c", 0)),
                     ("a", ("b", "SIntPlus", ("v", "x"), ("v", "y"))), ("b", ("v", "x"))):
            init.append(self.assign(v, e))
        body = self.block(self.r.choice([4, 5, 6, 7]), 2)
        # the result mixes the locals; every call node of it obeys the same rule
        res = None
        for _ in range(40):
            parts = [("b", self.r.choice(["SIntTimes", "SIntPlus"]), ("v", "i"), ("c", self.r.choice([100, 3, 2]))), self.expr(),
                     ("b", self.r.choice(["SIntPlus", "SIntMinus"]), ("v", "s"), ("v", self.r.choice(["a", "b", "j"])))]
            cand = ("b", "SIntPlus", parts[0], ("b", "SIntPlus", parts[1], parts[2]))
            if self.usable(cand):
                res = cand
                break
        if res is None:
            res = ("b", "SIntPlus", ("v", "i"), ("b", "SIntPlus", ("v", "s"), ("v", "a")))
            if not self.usable(res):
                res = ("v", "i")
        return {"init": init, "body": body, "res": res}


ARGS = [(0, 1), (1, 2), (3, -1), (50, 7), (-2, 3)]


def lit(n):
    """a small integer as an expression of nullary builtins"""
    if n < 0:
        return "SIntNegate(%s)" % lit(-n)
    if n == 0:
        return "SInt0()"
    if n == 1:
        return "SInt1()"
    if n % 2 == 0:
        return "SIntTimes(SIntPlus(SInt1(), SInt1()), %s)" % lit(n // 2)
    return "SIntNext(%s)" % lit(n - 1)


CONST_DECLS[-1] = CONST_DECLS[-1] % lit(100)


def render_function(name, f):
    L = ["%s(x: SInt, y: SInt): SInt == {" % name]
    L += ["    " + d for d in CONST_DECLS]
    L.append("    n: SInt := SIntAnd(x, k3);")
    for s in f["init"]:
        L.append("    %s: SInt := %s;" % (s[1], rx(s[2])))
    L += render_stmts(f["body"], 1)
    L.append("    %s" % rx(f["res"]))
    L.append("}")
    return L


def expected_function(name, f):
    out = []
    for x, y in ARGS:
        env = {"x": x, "y": y, "n": x & 3}
        lines = []
        try:
            run_stmts(f["init"] + f["body"], env, lines)
            v = ev(f["res"], env)
        except Ret as r:
            v = r.v
        out.append(("%s " % name) + "\n".join(lines + [str(v)]))
    return "\n".join(out) + "\n"


def render_program(funs):
    """funs: list of (name, f).  Returns (source, expected stdout)."""
    L = ['#include "aldor"', '#include "aldorio"', "import from Machine, MachineInteger, Boolean;", "import {"]
    L += ["  %s: %s;" % (n, SIG[n]) for n in sorted(SIG)]
    L += ["} from Builtin;"]
    exp = ""
    for name, f in funs:
        L += render_function(name, f)
    for name, f in funs:
        for x, y in ARGS:
            L.append('stdout << "%s "; stdout << ((%s(%s, %s)) pretend MachineInteger) << newline;' % (name, name, lit(x), lit(y)))
        exp += expected_function(name, f)
    return "\n".join(L) + "\n", exp


def gen_program(rng, nfun):
    g = G(rng)
    return [("d%d" % k, g.function()) for k in range(nfun)]


# ------------------------------------------------------------------ shrinking on the abstract program

def variants(ss):
    """every statement list obtained by deleting one statement / replacing a compound one by a branch"""
    for i, s in enumerate(ss):
        yield ss[:i] + ss[i + 1:]
        if s[0] == "if":
            yield ss[:i] + s[2] + ss[i + 1:]
            if s[3]:
                yield ss[:i] + s[3] + ss[i + 1:]
            for v in variants(s[2]):
                yield ss[:i] + [("if", s[1], v, s[3])] + ss[i + 1:]
            for v in variants(s[3]):
                yield ss[:i] + [("if", s[1], s[2], v)] + ss[i + 1:]
        elif s[0] == "while":
            for v in variants(s[1]):
                yield ss[:i] + [("while", v)] + ss[i + 1:]


def shrink(f, still_fails, max_trials=120):
    cur = f
    trials = 0
    progress = True
    while progress and trials < max_trials:
        progress = False
        for v in variants(cur["body"]):
            trials += 1
            if trials > max_trials:
                break
            cand = dict(cur, body=v)
            if still_fails(cand):
                cur, progress = cand, True
                break
    return cur


def fhash(name, f):
    return hashlib.sha1("\n".join(render_function("d", f)).encode()).hexdigest()[:8]
