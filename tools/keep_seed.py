#!/usr/bin/env python3
"""keep_seed.py <PID> <n> <seed-out-dir> <caught_by> [note]
Copy a seeded change (patch.diff, demonstration, meta.json) into /verif/seeded/<PID>-<n>/ and record what the
lead ran to confirm it and which check catches it."""
import json, os, shutil, sys
pid, n, src, caught = sys.argv[1:5]
note = sys.argv[5] if len(sys.argv) > 5 else ""
V = os.path.dirname(os.path.dirname(os.path.abspath(__file__)))
dst = "%s/seeded/%s-%s" % (V, pid, n)
os.makedirs(dst, exist_ok=True)
for f in os.listdir(src):
    p = os.path.join(src, f)
    if os.path.isfile(p) and os.path.getsize(p) < 300000 and not f.startswith("aldor") and not f.endswith((".log", ".so", ".o", ".exe", ".orig", ".patched")):
        shutil.copy(p, os.path.join(dst, f))
try:
    meta = json.load(open(os.path.join(src, "meta.json")))
except Exception:
    meta = {}
lc = ""
if os.path.exists(os.path.join(src, "lead_confirm.txt")):
    lc = open(os.path.join(src, "lead_confirm.txt")).read()
meta["property"] = pid
meta["lead_confirmation"] = {
    "applied_to": "scratch git worktree of /repo (never committed there); suite re-run in a private full copy",
    "test_suite": lc.strip() or "pending (see seeded/README)",
    "check_result": caught,
    "note": note,
}
json.dump(meta, open(os.path.join(dst, "meta.json"), "w"), indent=1)
print(dst, sorted(os.listdir(dst)))
