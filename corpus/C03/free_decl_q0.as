--# finding: at -Q0 a `free x;` declaration inside a function leaves a bare (Lex ..) expression statement in the FOAM; the interpreter aborts "Compiler bug...Bug: fintStmt: Char (<f4> in [..]) unimplemented", the C executable runs; from -Q1 the statement is removed
--# key: interp:fintStmt-Char
--# levels: 0
--# expect-out: "T\n"
--# expect-status: ok
#include "aldor"
#include "aldorio"
import from MachineInteger;
g2: Boolean := false;
f4(): () == {
    free g2;
    g2 := true;
}
f4();
stdout << g2 << newline;
