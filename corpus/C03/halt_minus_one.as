--# finding: Halt(-1): foam_c.c:fiHalt has `case -1: break;` and returns, the generated C treats Halt as not returning, so the executable ends silently with status 0; the interpreter raises "(Aldor error) Halt" and fails
--# key: halt:-1:routes-disagree
--# levels: 0,1,2,3,5,9
--# expect-out: "before\n"
--# expect-status: fail
#include "aldor"
#include "aldorio"
import from MachineInteger;
import from Machine;
import { Halt: SInt -> () } from Builtin;
stdout << "before" << newline;
Halt((-(1@MachineInteger))::SInt);
stdout << "after" << newline;
