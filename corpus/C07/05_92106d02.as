--* Received: from mailer.scri.fsu.edu by nags2.nag.co.uk (4.1/UK-2.1)
--* 	id AA07194; Thu, 2 May 96 23:03:36 BST
--* Received: from ibm4.scri.fsu.edu (ibm4.scri.fsu.edu [144.174.131.4]) by mailer.scri.fsu.edu (8.6.12/8.6.12) with SMTP id SAA13090; Thu, 2 May 1996 18:00:03 -0400
--* From: Tony Kennedy <adk@scri.fsu.edu>
--* Received: by ibm4.scri.fsu.edu (5.67b) id AA32524; Thu, 2 May 1996 17:58:13 -0400
--* Date: Thu, 2 May 1996 17:58:13 -0400
--* Message-Id: <199605022158.AA32524@ibm4.scri.fsu.edu>
--* To: adk@scri.fsu.edu, ax-bugs, edwards@scri.fsu.edu
--* Subject: [3] Another possible over-lazy domain initialization?

--@ Fixed  by: <Who> <Date>
--@ Tested by: <Name of new or existing file in test directory>
--@ Summary:   <Description of real problem and the fix>

-- Command line: axiomxl -V -Qall -Mno-mactext -Ginterp -DBUG1 -DBUG2 bug-domain-arg.as
-- Version: AXIOM-XL version 1.1.5 for AIX RS/6000
-- Original bug file name: bug-domain-arg.as

--+ cd ~/languages/asharp/bugs/
--+ axiomxl -V -Qall -Mno-mactext -Ginterp -DBUG1 -DBUG2 bug-domain-arg.as
--+ AXIOM-XL version 1.1.5 for AIX RS/6000 
--+                ld in sc sy li pa ma ab ck sb ti gf of pb pl pc po mi
--+  Time    2.9 s  0  2 .3  3  0  1  0  0  0 .3 84  2  6  2  0  0  0 .3 %
--+ 
--+  Source  204 lines,  4107 lines per minute
--+  Lib    5789 bytes,  1617syme 2295foam 56fsyme 583name 77kind 488file 282lazy 197type 10inl 14twins 2ext 2doc 19id
--+  Store  1912 K pool
--+ Program fault (segm_
entation violation).#1 (Error) Program fault (segmentation violation).
--+ #2 (Warning) Removing file `bug-domain-arg.ao'.
--+ 
--+ Compilation exited abnormally with code 1 at Thu May  2 17:55:26
#include "axllib.as"
#pile

SI ==> SingleInteger

import from SI

f(n: == SI):() ==

#if BUG1
  n = 42 => error "n is forty two"
#endif
#if BUG2
  FS == SingleIntegerMod n
#else
  FS ==> SingleIntegerMod n
#endif
  a: FS == sample
  print << a << newline

f(42)
