-- Copyright (c) 1990-2007 Aldor Software Organization Ltd (Aldor.org).
--> testcomp
#pile

#includeinclude "axllib.as"

Float: Type == add
   import from Integer
   StoredConstant ==> Record( precision:Integer, value:% )
   local = : (%,%) ->  Boolean
   local P:StoredConstant
   f(x:%,y:%):% ==
      x=y => x
      y
