--> testrun -l axllib
--> testcomp -O
#assert A
--> testrun -O -l axllib

#include "axllib"

Foo(x:String == "def"): with { foo:() -> String; } == add { foo():String == x; }

T1(): () == {
	import from Foo("ghi");
	print << "foo() = " << foo() << newline;
}

T1();

(): () == {
	import from Foo();
	print << "foo() = " << foo() << newline;
}

T2();

