--> testrun -laxllib

#include "axllib"

define AnError:RuntimeException with == add
{
   name():String == E;

   printError(t:TextWriter):() ==
      t << name() << newline;
}


-- Having fixed the segfault bug with this code, we now get a type error.
-- The compiler claims that "throw AnError" does not satisfy the context
-- Exit throw RuntimeException. The user guide is ambiguous about this ...
foo():() throw (RuntimeException) ==
{
   print << "Here goes ..." << newline;
   throw AnError;
}


try foo() catch "An error has occurred" in { true => print << "          ... BOOM!" << newline; }

print << "That's all folks!" << newline;

