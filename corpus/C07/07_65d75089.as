-- Copyright (c) 1990-2007 Aldor Software Organization Ltd (Aldor.org).
--> testcomp
--> testrun -l axllib

#inclu\de "axllib.as"

macro Z == SingleInteger;

MyType(v:Z == 1):BasicType with { foo: Z -> % } == Z add {
	macro Rep == Z;
	import from Rep;

	foo(x:Z):% == per x;
}

import from Z;

-- this fails to compile
-- the problem does not occur if a non-optional argument is added to MyType.
q:MyType() == foo 5;

