-- Copyright (c) 1990-2007 Aldor Software Organization Ltd (Aldor.org).
--- simple fluid tests

--> testcomp
--> testrun -l axllib
#pile

-- fluid restrictions: 
--   fluids must be consistently typed throughout a prog; 
--    all fluids called 'x' are the same variable.
--   a fluid must be assigned in a fluid stmt. before it is used,
--   or assigned to anywhere else.
--   fluids and locals and frees don't mix, and the error messages are 
--   misleading.

#include "axllib.as"

#assert true
{
#if true
T1(): () == {
	import from SingleInteger;
	fluid x: SingleInteger := 1;
	sub1(): () == { print << x<<newline; };
	sub2(): () == { fluid y: SingleInteger; print <<y<<newline; };

	sub3(): () == { fluid y:= 2; sub2(); sub1(); sub4() };
	sub4(): () == { fluid x:=3; fluid y:=4; sub1(); sub2(); };

	sub3();
}

T1();

#endif

#if true
--- Multiple value fluids
T2(): () == {
	fluid x: SingleInteger0;
	fluid y: String := "";
	sub1(): (SingleInteger, String) == { return (3, "hello")}
	(x, y) := sub1();
	print << x<<" "<<y<<newline;
	}
T2();

#endif
}
