-- Copyright (c) 1990-2007 Aldor Software Organization Ltd (Aldor.org).
--
-- numeral0.as
--
-- This file is used by ar6.sh.
#pile

#include "axllib.as"

export Zero: with == _add
