--> testerrs

-- This code is wrong all right, but crash the compiler?
define T: Category ==  T;

