-- Copyright (c) 1990-2007 Aldor Software Organization Ltd (Aldor.org).
--> testcomp
--> testrun -Q3 -l axllib

#include "axllib"

Dense ==> Join(DenseStorageCategory, BasicType);


make(T:Dense, x1:T, x2:T):RawRecord(lo:T, hi:T) == [x1, x2];

show(T:Dense, rec:RawRecord(lo:rec, hi:T)):() ==
{
   print << "rec.lo = " << (rec.lo) << newline;
   print << "rec.hi = " << (T.hi) << newline;
}


main():() ==
{
   import from SingleInteger;
   show(SingleInteger, make(SingleInteger, 42, 21));
}


main();
