-- Copyright (c) 1990-2007 Aldor Software Organization Ltd (Aldor.org).
--> testint -Mno-ALDOR_W_GenDomFunNotConst
--> testcomp -Mno-ALDOR_W_GenDomFunNotConst
--> testrun -l axllib -Mno-ALDOR_W_GenDomFunNotConst
#pile

#include "axllib"

Foo(n: Integer): IntegerNumberSystem ==
	Integer
																																																																																																																																																																																																																																																																																																												
foo(n: Integer): () ==
	 a: Foo(n)
	a := 1
	a := a+1
	print<<a<<newline

import from Integer

foo(3)
