--# finding: from -Q3 a union built from a computed machine integer makes genjava abort: `Java not implemented: No cast: Arr, SInt (Cast Arr (BCall SIntQuo ...))'
--# key: javagen:No cast: Arr, SInt
--# levels: 3
--# expect-out: "4\n"
--# expect-status: fail
#include "aldor"
#include "aldorio"
import from MachineInteger;
U ==> Union(ua: MachineInteger, ub: String);
import from U;
i2: MachineInteger := 0;
while i2 < 5 repeat i2 := i2 + 1;
u: U := [(20 quo i2)];
stdout << u.ua << newline;
stdout << u.ub << newline;
