--# regression: until /repo 2ce54bc gjBValInfoTable mapped BoolFalse to `true', BoolTrue to `false' and SIntNot to x ^ 0 (the identity); JVM-level check of the three rows
--# levels: 0,1,3
--# expect-out: "false 0\ntrue 1\nnot5 -6\nnotm1 0\nnot0 -1\n"
#include "aldor"
#include "aldorio"
import from Machine;
import from MachineInteger, Boolean;
import { BoolFalse: () -> Bool; BoolTrue: () -> Bool; SIntNot: SInt -> SInt } from Builtin;
macro K(n) == ((n@MachineInteger)::SInt);
pr(tag: String, x: SInt): () == { stdout << tag << " " << (x::MachineInteger) << newline; }
bi(b: Bool): SInt == { if (b::Boolean) then K(1) else K(0) }
pr("false", bi(BoolFalse()));
pr("true", bi(BoolTrue()));
pr("not5", SIntNot(K(5)));
pr("notm1", SIntNot(K(-1)));
pr("not0", SIntNot(K(0)));
