--# finding: the Java printer drops the parentheses of a right operand of equal precedence: a - (b - c) is emitted as `a - b - c` (javacode.c, binary operator printing); seen when builtin calls nest directly (SIntMinus(a, SIntMinus(b, c)))
--# key: javacode:right-nested-binop-no-parens
--# levels: 0
--# expect-out: "c 8\n"
#include "aldor"
#include "aldorio"
import from Machine;
import from MachineInteger;
import { SIntMinus: (SInt, SInt) -> SInt } from Builtin;
macro K(n) == ((n@MachineInteger)::SInt);
stdout << "c " << (SIntMinus(K(10), SIntMinus(K(5), K(3)))::MachineInteger) << newline;
