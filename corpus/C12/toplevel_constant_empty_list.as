--# finding: a top-level constant (==) whose value is the empty list: foamj.Globals.setGlobal puts null into a ConcurrentHashMap -> NullPointerException at start-up; interpreter and C executable run
--# key: javarun:NullPointerException:foamj.Globals.setGlobal
--# levels: 1
--# expect-out: "ok\n"
#include "aldor"
#include "aldorio"
g2: List(String) := (empty@List(String));
g5: List(String) == g2;
stdout << "ok" << newline;
