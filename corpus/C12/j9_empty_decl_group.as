--# regression: /repo 418c2f7 emitted an empty declaration group `Object ;` in the generated Java (javac: not a statement); repaired in 30ccb58
--# levels: 1,3,9
--# expect-out: " 0 T\n"
#include "aldor"
#include "aldorio"
import from MachineInteger, String, Boolean;
s1: String := "";
stdout << s1 << " " << (#s1) << " " << (s1 = s1) << newline;
