--# finding: at -Q4 and above the update of a record field through a second name of the same record (r6: R := r2; r6.x := ...) is not seen by a later read through the first name (r2.x prints the old value); -Q0..-Q3 print the new value.  Interpreter, C executable and Java agree with each other at each level: an optimiser defect (property C02), kept here because the C12 family generates the shape.
--# note: a second shape (update through the first name, read through the alias, inside a longer program) shows the same stale read already at -Q3: ./check C12 thorough, seed 1, hand program h15
--# key: opt:Q4+:record-alias-stale-field
--# levels: 9
--# expect-out: "0 1 T\n1 0 x y\n0 1 T\n1 0\n-51039138 1000\nyes 46340\n-46340000 0\nno 0\nyes 10\n0 1 T\n"
#include "aldor"
#include "aldorio"
import from MachineInteger, String, Boolean;
R ==> Record(x: MachineInteger, y: MachineInteger, s: String);
s1: String := "0";
stdout << s1 << " " << (#s1) << " " << (s1 = s1) << newline;
r2: R := [1, (0 * (-40562)), "x y"];
stdout << r2.x << " " << r2.y << " " << r2.s << newline;
s3: String := s1 + "";
stdout << s3 << " " << (#s3) << " " << (s3 = s3) << newline;
stdout << r2.x << " " << r2.y << newline;
i4: MachineInteger := (- 1000);
stdout << ((i4 * 51036) - (i4 - (-4138))) << " " << abs(abs(i4)) << newline;
i5: MachineInteger := if (max(i4, i4) = max(i4, i4)) then 46340 else i4;
if (max(i4, i4) = max(i4, i4)) then stdout << "yes " << i5 << newline else stdout << "no " << i5 << newline;
r6: R := r2;
r6.x := (i4 * i5);
stdout << r2.x << " " << r2.y << newline;
i7: MachineInteger := if ((abs(i5) > (i5 - i4)) and true) then i4 else r6.y;
if ((abs(i5) > (i5 - i4)) and true) then stdout << "yes " << i7 << newline else stdout << "no " << i7 << newline;
i8: MachineInteger := if ((i4 < 3) and true) then 10 else (- (-14348));
if ((i4 < 3) and true) then stdout << "yes " << i8 << newline else stdout << "no " << i8 << newline;
s9: String := s3 + "";
stdout << s9 << " " << (#s9) << " " << (s9 = s9) << newline;
