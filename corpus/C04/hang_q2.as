#include "aldor"
#include "aldorio"
import from Machine;
import from MachineInteger, Boolean, Integer;
import {
  SIntPlus: (SInt, SInt) -> SInt;
  SIntPrev: (SInt) -> SInt;
} from Builtin;
pr(tag: String, x: SInt): () == { stdout << tag << " " << (x::MachineInteger) << newline; }
macro K(n) == ((n@MachineInteger)::SInt);
macro KB(n) == ((n@Integer)::BInt);

pr("t0", SIntPlus(SIntPrev(K(-9223372036854775807)), SIntPrev(K(-9223372036854775807))));
pr("t2", SIntPlus(SIntPrev(K(-9223372036854775807)), K(-1)));
pr("t3", SIntPlus(SIntPrev(K(-9223372036854775807)), K(0)));
pr("t4", SIntPlus(SIntPrev(K(-9223372036854775807)), K(1)));
pr("t7", SIntPlus(K(9223372036854775807), K(-1)));
