"""Shared machinery for the /verif checks.

Every check is `./check <ID> --tier quick|thorough`.  This module gives the
per-property modules (props/cNN.py) the pieces they share:

  * scratch directories outside /repo and /verif, removed on exit
  * compiling C sources of /repo's *current working tree* (compiler, harnesses)
  * building Coq targets (full .vo, under a lock and a shell timeout) and
    re-checking a Properties_<id>.v file, parsing its `Print Assumptions`
  * extraction drivers (ocamlfind ocamlopt)
  * evidence writer, known-findings matcher, VIOLATION reporting
"""
import atexit, concurrent.futures, fcntl, hashlib, json, os, random, re, shutil
import subprocess, sys, tempfile, time

VERIF = os.path.dirname(os.path.dirname(os.path.abspath(__file__)))
REPO = os.environ.get("VERIF_REPO", "/repo")
R = REPO + "/aldor"                      # autotools top
# Pre-built Aldor libraries (.ao/.al/.a, aldor.conf).  Normally /repo itself; a
# developer testing a mutated scratch worktree (VERIF_REPO=/var/tmp/wt) that has
# no build output can keep using /repo's libraries.
RB = os.environ.get("VERIF_REPO_BUILT", "/repo") + "/aldor"
SRC = R + "/aldor/src"                   # compiler sources
COQ = VERIF + "/coq"
GUARD = "-DALDOR_VERIF"
NCPU = os.cpu_count() or 4

DEFS = ['-DPACKAGE_NAME="aldor"', '-DPACKAGE_VERSION="1.3"', '-DPACKAGE="aldor"',
        '-DVERSION="1.3"', '-DYYTEXT_POINTER=1', '-DHAVE_STDIO_H=1', '-DHAVE_STDLIB_H=1',
        '-DHAVE_STRING_H=1', '-DHAVE_INTTYPES_H=1', '-DHAVE_STDINT_H=1',
        '-DHAVE_STRINGS_H=1', '-DHAVE_SYS_STAT_H=1', '-DHAVE_SYS_TYPES_H=1',
        '-DHAVE_UNISTD_H=1', '-DSTDC_HEADERS=1', '-DHAVE_DLFCN_H=1',
        '-DVCSVERSION="verif"']
CFLAGS = ["-O0", "-g", "-w", "-std=c99"]

_scratch_dirs = []


def _cleanup():
    for d in _scratch_dirs:
        shutil.rmtree(d, ignore_errors=True)


atexit.register(_cleanup)


def scratch(tag="x"):
    base = os.environ.get("VERIF_SCRATCH", "/var/tmp")
    d = tempfile.mkdtemp(prefix="aldor-verif.%s." % tag, dir=base)
    _scratch_dirs.append(d)
    return d


def run(cmd, timeout=600, cwd=None, env=None, input=None, check=False):
    """subprocess.run with text capture and a timeout; returns (rc, out, err).
    rc = 124 on timeout (like timeout(1))."""
    try:
        p = subprocess.run(cmd, cwd=cwd, env=env, input=input, timeout=timeout,
                           stdout=subprocess.PIPE, stderr=subprocess.PIPE,
                           text=isinstance(input, str) or input is None,
                           errors="replace" if (isinstance(input, str) or input is None) else None)
        rc, out, err = p.returncode, p.stdout, p.stderr
    except subprocess.TimeoutExpired as e:
        def dec(b):
            if b is None:
                return ""
            return b.decode("utf-8", "replace") if isinstance(b, bytes) else b
        rc, out, err = 124, dec(e.stdout), dec(e.stderr)
    if check and rc != 0:
        raise RuntimeError("command failed rc=%d: %s\n%s\n%s" % (rc, cmd, out[-2000:], err[-2000:]))
    return rc, out, err


# ---------------------------------------------------------------- C building

def makefile_am_sources(var):
    """Source list `var` (e.g. libgen_a_SOURCES) from the current Makefile.am."""
    txt = open(SRC + "/Makefile.am").read()
    m = re.search(r"^%s\s*=\s*((?:.*\\\n)*.*)$" % re.escape(var), txt, re.M)
    if not m:
        raise RuntimeError("no %s in Makefile.am" % var)
    body = m.group(1).replace("\\\n", " ")
    return [w for w in body.split() if w.endswith(".c")]


_gen_dir = None


def gen_dir():
    """Sources the build generates (not tracked in git): the parser axl_y.c from axl.z
    and the message database comsgdb.[ch] from comsgdb.msg.  They are regenerated here
    from the CURRENT axl.z / comsgdb.msg with the repository's own tools, so an edit
    to the grammar or to a message is seen by every check.  ~1.5 s, once per process."""
    global _gen_dir
    if _gen_dir:
        return _gen_dir
    d = scratch("gen")
    tools = RB + "/aldor/tools/unix"
    rc, out, err = run([tools + "/zacc", "-p", "-y", "axl_y.yt", "-c", "axl_y.c", SRC + "/axl.z"], cwd=d, timeout=120)
    if rc != 0 or not os.path.exists(d + "/axl_y.c"):
        raise BuildError("zacc failed on axl.z:\n" + (out + err)[-2000:])
    rc, out, err = run(["sed", "-f", SRC + "/axl_y.sed", "axl_y.c"], cwd=d)
    open(d + "/axl_y.c", "w").write(out)
    shutil.copy(SRC + "/comsgdb.msg", d + "/comsgdb.msg")
    rc, out, err = run([tools + "/msgcat", "-h", "-c", "-detab", "comsgdb"], cwd=d, timeout=60)
    if rc != 0 or not os.path.exists(d + "/comsgdb.c"):
        raise BuildError("msgcat failed on comsgdb.msg:\n" + (out + err)[-2000:])
    _gen_dir = d
    return d


GENERATED = ("axl_y.c", "comsgdb.c", "comsgdb.h")
_eff_src = None


def eff_src():
    """Directory to compile the compiler sources from.  Normally SRC itself.  When a
    generated file in the tree is stale with respect to the current axl.z / comsgdb.msg
    (or missing, as in a bare worktree), a mirror of SRC made of symlinks, with the
    freshly generated files in place, is used instead - quoted #includes resolve
    relative to the including file, so the stale header would otherwise win."""
    global _eff_src
    if _eff_src:
        return _eff_src
    g = gen_dir()

    def same(f):
        try:
            return open(os.path.join(SRC, f), "rb").read() == open(os.path.join(g, f), "rb").read()
        except OSError:
            return False
    need = [f for f in GENERATED if not same(f)] + [f for f in ("opsys_port.h",) if not os.path.exists(os.path.join(SRC, f))]
    if not need:
        _eff_src = SRC
        return SRC
    d = scratch("src")
    for f in os.listdir(SRC):
        if f in GENERATED or f.endswith((".o", ".i", ".s", ".a", ".Po")):
            continue
        os.symlink(os.path.join(SRC, f), os.path.join(d, f))
    for f in GENERATED:
        shutil.copy(os.path.join(g, f), os.path.join(d, f))
    if not os.path.exists(os.path.join(d, "opsys_port.h")):
        os.symlink(RB + "/aldor/src/opsys_port.h", os.path.join(d, "opsys_port.h"))
    _eff_src = d
    return d


def cc_objs(files, outdir, defs=(), srcdir=None, extra=()):
    """Compile the given .c files (relative to srcdir, default SRC) of the
    CURRENT working tree into outdir/*.o in parallel. Returns list of .o."""
    srcdir = srcdir or eff_src()
    inc = eff_src()
    os.makedirs(outdir, exist_ok=True)
    jobs = []
    for f in files:
        src = f if os.path.isabs(f) else os.path.join(srcdir, f)
        obj = os.path.join(outdir, os.path.basename(f)[:-2] + ".o")
        cmd = ["gcc", "-c"] + CFLAGS + DEFS + list(defs) + list(extra) + \
              ["-I", inc, "-I", inc + "/java", src, "-o", obj]
        jobs.append((cmd, obj))

    def one(j):
        rc, out, err = run(j[0], timeout=300)
        return rc, err, j
    objs = []
    with concurrent.futures.ThreadPoolExecutor(NCPU) as ex:
        for rc, err, j in ex.map(one, jobs):
            if rc != 0:
                raise BuildError("gcc failed on %s:\n%s" % (j[0][-3], err[-3000:]))
            objs.append(j[1])
    return objs


class BuildError(Exception):
    pass


_compiler_cache = {}


def build_compiler(defs=(GUARD,)):
    """Build the aldor compiler from /repo's current sources into a scratch
    directory.  Returns path of the executable.  ~4 s on 16 cores."""
    key = tuple(defs)
    if key in _compiler_cache:
        return _compiler_cache[key]
    d = scratch("cc")
    files = []
    for v in ("libport_a_SOURCES", "libgen_a_SOURCES", "libstruct_a_SOURCES",
              "libphase_a_SOURCES", "aldor_SOURCES"):
        files += makefile_am_sources(v)
    seen, uniq = set(), []
    for f in files:
        if f not in seen:
            seen.add(f)
            uniq.append(f)
    objs = cc_objs(uniq, d + "/obj", defs)
    exe = d + "/aldor"
    rc, out, err = run(["gcc", "-o", exe] + objs + ["-lm"], timeout=300)
    if rc != 0:
        raise BuildError("link failed:\n" + err[-3000:])
    _compiler_cache[key] = exe
    _compiler_objs[key] = objs
    return exe


_compiler_objs = {}


def build_wrapped_compiler(hook_c, wrapped, defs=(GUARD,)):
    """The same compiler, re-linked with `-Wl,--wrap=<f>` for each function in `wrapped`
    and the hook file (under /verif/harness) that defines __wrap_<f>: lets a check observe
    the arguments and results of an internal function of the REAL compiler."""
    build_compiler(defs)
    objs = _compiler_objs[tuple(defs)]
    d = scratch("ccw")
    hobj = cc_objs([os.path.join(VERIF, "harness", hook_c)], d + "/hobj", defs)
    exe = d + "/aldor-wrapped"
    rc, out, err = run(["gcc", "-o", exe] + objs + hobj + ["-lm"] + ["-Wl,--wrap=" + w for w in wrapped], timeout=300)
    if rc != 0:
        raise BuildError("link of wrapped compiler failed:\n" + err[-3000:])
    return exe


RUNTIME_C = ["aldorlib.c", "btree.c", "compopt.c", "dword.c", "foam_c.c", "foam_cfp.c", "foamopt.c", "opsys.c",
             "output.c", "stdc.c", "store.c", "table.c", "timer.c", "util.c", "xfloat.c", "bigint.c", "foam_i.c"]
_runtime_cache = {}


def build_runtime(defs=(GUARD,), regen_runtime_c=False):
    """Build the C runtime library libfoam.a from /repo's CURRENT sources (the 17 files
    the repository's Makefile.am lists, -DFOAM_RTS) plus runtime.c - the C generated
    from lib/libfoam/al/runtime.as: the pre-built one of /repo by default, or
    regenerated with the compiler built from the current tree (regen_runtime_c=True).
    Returns the directory containing libfoam.a; pass it as the first -Y to aldor."""
    key = (tuple(defs), regen_runtime_c)
    if key in _runtime_cache:
        return _runtime_cache[key]
    lst = makefile_am_sources_at(RB + "/aldor/lib/libfoam/Makefile.am", "runtime_CSOURCES")
    files = sorted(set(lst) | {"bigint.c", "foam_i.c"}) if lst else RUNTIME_C
    d = scratch("rt")
    objs = cc_objs(files, d + "/obj", ["-DFOAM_RTS"] + list(defs))
    al = RB + "/aldor/lib/libfoam/al"
    rc_src = al + "/runtime.c"
    if regen_runtime_c:
        exe = build_compiler(defs)
        g = d + "/gen"
        os.makedirs(g)
        shutil.copy(al + "/runtime.as", g + "/runtime.as")
        rc, out, err = run([exe, "-Nfile=%s/aldor/src/aldor.conf" % RB, "-Y" + al, "-I" + al, "-Q9", "-Wruntime",
                            "-Fc=runtime.c", "runtime.as"], cwd=g, env=aldor_env(), timeout=300)
        if rc == 0 and os.path.exists(g + "/runtime.c"):
            rc_src = g + "/runtime.c"
        else:
            raise BuildError("regenerating runtime.c failed:\n" + (out + err)[-2000:])
    objs += cc_objs([rc_src], d + "/obj", ["-DFOAM_RTS"] + list(defs))
    rc, out, err = run(["ar", "rcs", d + "/libfoam.a"] + objs, timeout=120)
    if rc != 0:
        raise BuildError("ar failed: " + err[-500:])
    _runtime_cache[key] = d
    return d


def makefile_am_sources_at(path, var):
    try:
        txt = open(path).read()
    except OSError:
        return []
    m = re.search(r"^%s\s*=\s*((?:.*\\\n)*.*)$" % re.escape(var), txt, re.M)
    if not m:
        return []
    return [w for w in m.group(1).replace("\\\n", " ").split() if w.endswith(".c")]


def aldor_exe_args(exe, runtime_dir=None):
    """Arguments to build a C executable: `... -fx=p.exe p.as` (DESIGN section 10)."""
    a = aldor_base_args(exe)
    if runtime_dir:
        a.insert(1, "-Y" + runtime_dir)
    return a + ["-Ccc=%s/aldor/subcmd/unitools/unicl" % RB, "-Y%s/aldor/lib/libfoam" % RB, "-laldor",
                "-Cargs=-Wconfig=%s/aldor/src/aldor.conf -I%s" % (RB, eff_src()), "-fc"]


def build_harness(name, harness_c, repo_files, defs=(GUARD,), extra_cflags=(), libs=("-lm",)):
    """Compile harness C file(s) (under /verif/harness) together with the named
    source files of /repo's current tree.  Returns executable path."""
    d = scratch("h-" + name)
    objs = cc_objs(repo_files, d + "/obj", defs, extra=extra_cflags)
    hs = [harness_c] if isinstance(harness_c, str) else list(harness_c)
    hobjs = cc_objs([os.path.join(VERIF, "harness", h) for h in hs], d + "/hobj", defs,
                    extra=extra_cflags)
    exe = d + "/" + name
    rc, out, err = run(["gcc", "-o", exe] + hobjs + objs + list(libs), timeout=300)
    if rc != 0:
        raise BuildError("harness link failed:\n" + err[-3000:])
    return exe


def aldor_base_args(exe):
    """The working invocation (DESIGN 2.3): compiler built from the current
    tree, configuration / libraries of /repo."""
    return [exe, "-Nfile=%s/aldor/src/aldor.conf" % RB, "-Y%s/aldor/lib/libfoam/al" % RB,
            "-I%s/lib/aldor/include" % RB, "-Y%s/lib/aldor/src" % RB]


def aldor_env():
    e = dict(os.environ)
    e["ALDORROOT"] = RB + "/aldor"
    e["LC_ALL"] = "C"
    return e


# ---------------------------------------------------------------- Coq

class CoqLock:
    def __enter__(self):
        self.f = open(VERIF + "/.coq.lock", "w")
        fcntl.flock(self.f, fcntl.LOCK_EX)
        return self

    def __exit__(self, *a):
        fcntl.flock(self.f, fcntl.LOCK_UN)
        self.f.close()


def write_if_changed(path, text):
    os.makedirs(os.path.dirname(path), exist_ok=True)
    try:
        if open(path).read() == text:
            return False
    except OSError:
        pass
    with open(path, "w") as f:
        f.write(text)
    return True


def coq_project_text():
    vs = []
    for root, dirs, files in os.walk(COQ):
        dirs.sort()
        for f in sorted(files):
            if f.endswith(".v") and not f.startswith("."):
                vs.append(os.path.relpath(os.path.join(root, f), COQ))
    return "-Q . AV\n-arg -w -arg -deprecated-since-8.16,-notation-overridden\n" + "\n".join(sorted(vs)) + "\n"


def coq_makefile():
    """(Re)generate coq/_CoqProject (every .v under coq/) and coq/Makefile."""
    mk = COQ + "/Makefile"
    cp = COQ + "/_CoqProject"
    # extraction targets write into <Dir>/extracted/, which is not tracked by git
    for root, dirs, files in os.walk(COQ):
        if "Extract.v" in files:
            os.makedirs(os.path.join(root, "extracted"), exist_ok=True)
    os.makedirs(os.path.join(COQ, "Gen"), exist_ok=True)
    changed = write_if_changed(cp, coq_project_text())
    if changed or not os.path.exists(mk):
        run(["coq_makefile", "-f", "_CoqProject", "-o", "Makefile"], cwd=COQ, check=True)


def coq_make(targets, timeout=1500):
    """make the given .vo targets (paths relative to coq/). Full .vo builds.
    Returns (ok, log)."""
    with CoqLock():
        coq_makefile()
        rc, out, err = run(["make", "-k", "-j%d" % NCPU] + list(targets), cwd=COQ,
                           timeout=timeout)
    return rc == 0, out + err


def coqc_file(relpath, timeout=900):
    """Always re-run coqc on one file (after its dependencies were made), so
    that Print Assumptions output is available.  Returns (ok, output)."""
    with CoqLock():
        rc, out, err = run(["coqc", "-q", "-Q", ".", "AV", relpath], cwd=COQ, timeout=timeout)
    return rc == 0, out + err


def check_props_file(relpath, timeout=900):
    """Re-check a Properties_<id>.v: returns dict(ok, theorems, assumptions, log).
    theorems: names declared with Theorem in that file; assumptions: map
    theorem -> list of axioms (empty = closed under the global context)."""
    src = open(os.path.join(COQ, relpath)).read()
    bad = forbidden_tokens(src)
    thms = re.findall(r"^\s*Theorem\s+([A-Za-z0-9_']+)", src, re.M)
    ok, log = coqc_file(relpath, timeout)
    assum = parse_assumptions(log, re.findall(r"Print Assumptions\s+([A-Za-z0-9_'.]+)\s*\.", src))
    return {"ok": ok and not bad, "theorems": thms, "assumptions": assum, "log": log,
            "forbidden": bad}


def parse_assumptions(log, names):
    """Split coqc output into one block per Print Assumptions (in order)."""
    blocks = re.split(r"(?=^Closed under the global context|^Axioms:)", log, flags=re.M)
    blocks = [b for b in blocks if b.startswith("Closed under") or b.startswith("Axioms:")]
    res = {}
    for n, b in zip(names, blocks):
        if b.startswith("Closed"):
            res[n] = []
        else:
            res[n] = re.findall(r"^([A-Za-z0-9_.']+)\s*:", b, re.M)
    return res


FORBIDDEN = [r"\bAdmitted\b", r"\badmit\b", r"^\s*Axiom\b", r"^\s*Parameter\b",
             r"^\s*Conjecture\b", r"Unset\s+Guard", r"bypass_check", r"Admit\s+Obligations",
             r"type-in-type", r"Unset\s+Positivity", r"Unset\s+Universe\s+Checking",
             r"native_compute"]


def forbidden_tokens(text):
    text = re.sub(r"\(\*.*?\*\)", "", text, flags=re.S)
    return [p for p in FORBIDDEN if re.search(p, text, re.M)]


def v_closure(rel_files):
    """The .v files (relative to coq/) that the given ones transitively Require from this
    development (logical root AV)."""
    seen, todo = set(), list(rel_files)
    while todo:
        f = todo.pop()
        if f in seen or not os.path.exists(os.path.join(COQ, f)):
            continue
        seen.add(f)
        txt = re.sub(r"\(\*.*?\*\)", "", open(os.path.join(COQ, f), errors="replace").read(), flags=re.S)
        for m in re.finditer(r"(?:From\s+([\w.]+)\s+)?Require\s+(?:Import\s+|Export\s+)?([\w.\s]+?)\.\s", txt):
            pre = m.group(1)
            for name in m.group(2).split():
                if name.startswith("AV."):
                    todo.append(name[3:].replace(".", "/") + ".v")
                elif pre is not None and (pre == "AV" or pre.startswith("AV.")):
                    full = (pre + "." + name)[3:]
                    todo.append(full.replace(".", "/") + ".v")
    return sorted(seen)


def grep_gate(rel_files=None):
    """Fail the run if a .v file declares an axiom, leaves an admit, or switches a kernel
    check off.  With rel_files: only those files and everything they Require from this
    development (what the property's theorems actually rest on); without: every file."""
    bad = []
    if rel_files is not None:
        files = [os.path.join(COQ, f) for f in v_closure(rel_files)]
    else:
        files = [os.path.join(r, f) for r, _, fs in os.walk(COQ) for f in fs if f.endswith(".v")]
    for p in files:
        for t in forbidden_tokens(open(p, errors="replace").read()):
            bad.append("%s: %s" % (os.path.relpath(p, COQ), t))
    return bad


def build_ocaml(name, ml_files, driver_ml, outdir=None):
    """Compile extracted .ml/.mli + a driver with ocamlfind ocamlopt."""
    outdir = outdir or scratch("ml-" + name)
    exe = os.path.join(outdir, name)
    srcs = []
    for f in list(ml_files) + [driver_ml]:
        dst = os.path.join(outdir, os.path.basename(f))
        if os.path.abspath(f) != os.path.abspath(dst):
            shutil.copy(f, dst)
        srcs.append(os.path.basename(f))
    rc, out, err = run(["ocamlfind", "ocamlopt", "-w", "-a", "-o", exe] + srcs,
                       cwd=outdir, timeout=600)
    if rc != 0:
        raise BuildError("ocaml build failed:\n" + (out + err)[-3000:])
    return exe


# ---------------------------------------------------------------- reporting

def seed():
    try:
        return int(os.environ.get("VERIF_SEED", "1"))
    except ValueError:
        return 1


def rng(tag=""):
    return random.Random("%d/%s" % (seed(), tag))


def known_findings():
    try:
        return json.load(open(VERIF + "/known_findings.json"))
    except OSError:
        return {"findings": [], "fixed": []}


class Report:
    """Collects the outcome of one check run, prints the protocol lines and
    writes the evidence file."""

    def __init__(self, pid, tier, level):
        self.pid, self.tier, self.level = pid, tier, level
        self.t0 = time.time()
        self.cov = {}
        self.assumptions = []
        self.violations = []      # (replay_path, tail)
        self.known = []
        self.notes = []
        self.proof_finalize = None

    def add_cov(self, **kw):
        for k, v in kw.items():
            if isinstance(v, int) and isinstance(self.cov.get(k), int) and k not in ("obligations", "discharged"):
                self.cov[k] += v
            elif isinstance(v, list) and isinstance(self.cov.get(k), list):
                self.cov[k] += [x for x in v if x not in self.cov[k]] if k == "trusted_base" else v
            elif isinstance(v, dict) and isinstance(self.cov.get(k), dict):
                self.cov[k].update(v)
            elif k == "checker_cmd" and isinstance(self.cov.get(k), str) and v not in self.cov[k]:
                self.cov[k] += " ; " + v
            elif k == "rule" and isinstance(self.cov.get(k), str) and v not in self.cov[k]:
                self.cov[k] += " || " + v
            else:
                self.cov[k] = v

    def add_obligations(self, n, discharged):
        self.cov["obligations"] = self.cov.get("obligations", 0) + n
        self.cov["discharged"] = self.cov.get("discharged", 0) + discharged

    def assume(self, *a):
        for x in a:
            if x not in self.assumptions:
                self.assumptions.append(x)

    def finding_key_known(self, key):
        for f in known_findings().get("findings", []):
            if f.get("property") == self.pid and f.get("key") == key:
                return f
        return None

    def violation(self, what, replay_obj, key=None, no_input=False):
        """Report a property violation. `key` identifies the failing
        input/call site; when known_findings.json lists it, print KNOWN-FINDING
        instead. replay_obj is written as JSON to replays/."""
        if key is not None:
            f = self.finding_key_known(key)
            if f is not None:
                if key not in self.known:
                    self.known.append(key)
                    print("KNOWN-FINDING: property=%s %s" % (self.pid, f.get("what", what)))
                return False
        os.makedirs(VERIF + "/replays", exist_ok=True)
        h = hashlib.sha1(json.dumps(replay_obj, sort_keys=True, default=str).encode()).hexdigest()[:10]
        path = "%s/replays/%s-%s.json" % (VERIF, self.pid, h)
        with open(path, "w") as fp:
            json.dump({"property": self.pid, "what": what, "key": key, "replay": replay_obj,
                       "no_failing_input_found": no_input}, fp, indent=1, default=str)
        if len(self.violations) < 20:
            print("VIOLATION property=%s replay=%s%s" % (
                self.pid, path, " " + what.replace("\n", " ")[:200] + " no-failing-input-found" if no_input
                else ""))
        self.violations.append(path)
        sys.stdout.flush()
        return True

    def finish(self):
        if self.proof_finalize:
            self.proof_finalize()
            self.proof_finalize = None
        wall = time.time() - self.t0
        cov = dict(self.cov)
        if "samples" in cov:
            cov["samples"] = cov["samples"][:12]
        ev = {"property_id": self.pid, "tier": self.tier, "seed": seed(), "level": self.level,
              "coverage": cov, "assumptions": self.assumptions, "wall_s": round(wall, 2),
              "violations": len(self.violations), "known_findings_seen": self.known,
              "notes": self.notes,
              "repo_head": run(["git", "-C", REPO, "rev-parse", "HEAD"])[1].strip()}
        os.makedirs(VERIF + "/evidence", exist_ok=True)
        with open("%s/evidence/%s.json" % (VERIF, self.pid), "w") as fp:
            json.dump(ev, fp, indent=1, default=str)
        print("%s %s: %s in %.1fs (violations=%d, known=%d)" % (
            self.pid, self.tier, "FAIL" if self.violations else "ok", wall,
            len(self.violations), len(self.known)))
        return 1 if self.violations else 0


def proof_stage(rep, pid, make_targets, props_rel, searcher=None, timeout=1500, defer=False):
    """Common proof stage: grep gate, make deps, re-check the property file,
    record obligations/assumptions.  On failure call searcher(log) which should
    report a violation with a concrete input; if it reports none, emit the
    no-failing-input-found violation naming the failing theorem."""
    gate_files = [props_rel] + [t[:-1] for t in make_targets if t.endswith(".vo")]
    bad = grep_gate(gate_files)
    if bad:
        rep.violation("forbidden construct in Coq development: %s" % bad, {"forbidden": bad}, no_input=True)
        return False
    rep.add_cov(gate_files=v_closure(gate_files))
    ok, log = coq_make(make_targets, timeout)
    res = None
    if ok:
        res = check_props_file(props_rel, timeout)
        ok = res["ok"]
        log = res["log"]
    if ok:
        n = len(res["theorems"])
        rep.add_obligations(n, n)
        rep.add_cov(theorems=res["theorems"], axioms=res["assumptions"],
                    checker_cmd="make -C coq %s && coqc -Q . AV %s" % (" ".join(make_targets), props_rel))
        ax = sorted({a for v in res["assumptions"].values() for a in v})
        rep.add_cov(trusted_base=[
            "Coq 8.16.1 kernel (coqc, full .vo; vm_compute used, native_compute not used)",
            "axioms reported by Print Assumptions: %s" % (", ".join(ax) if ax else "none (closed under the global context)"),
        ])
        return True
    # failed
    failing = re.findall(r'File "([^"]+)", line (\d+)', log)
    n = len(re.findall(r"^\s*Theorem\s", open(os.path.join(COQ, props_rel)).read(), re.M))
    rep.add_obligations(n, 0)
    before = len(rep.violations)
    if searcher:
        searcher(log)

    def finalize():
        """emit the no-failing-input-found violation unless a concrete one was reported meanwhile
        (a known finding is not a concrete explanation of a NEW broken obligation)"""
        if len(rep.violations) == before:
            rep.violation("proof obligation no longer checks: %s" % (failing[:3],),
                          {"failing": failing[:10], "log_tail": log[-3000:], "props": props_rel},
                          no_input=True)
    if defer:
        # the caller's own exploration is the searcher: it calls rep.proof_finalize() at the end
        rep.proof_finalize = finalize
    else:
        finalize()
    return False
