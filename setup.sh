#!/bin/sh
# Build the framework from files on disk only (offline).  Run in /verif.
set -e
cd "$(dirname "$0")"
exec python3 tools/setup.py
