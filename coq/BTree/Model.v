(* Model of /repo/aldor/aldor/src/btree.c (CLRS B-tree with minimum degree t, duplicates allowed),
   function for function.  Definitions only; proofs are in Facts.v.

   Representation
     struct btree {isLeaf, t, nKeys, part[]}     Node leaf keys kids
        part[j].key, part[j].entry  (j < nKeys)    keys : list (key * entry)        (nKeys = length keys)
        part[j].branch              (j <= nKeys)   kids : list bt   (a leaf has kids = []: the C never reads
                                                                     the branches of a leaf)
        x->t                                       one global parameter t (btreeCheck0's test x->t != t is
                                                   therefore not represented)
     BTreeKey (ULong), BTreeElt (Pointer)        Z (compared as the C compares unsigned longs: keys >= 0)
     loops that walk down the tree               explicit fuel (height + 1); out of fuel = None / SFuel
     (node, *pindex) results                     SFound node index  (index in Z: btreeSearchMax returns -1
                                                 on an empty root), 0 results = SNotFound
     *pe of btreeDelete                          option entry (None = *pe not written)
     array slots >= nKeys                        dropped (they are dead in the C)

   Totalised accesses (nth with default): the theorems are stated for well-formed trees (Facts.wfb), for
   which every access is in range; on other trees the C reads stale or uninitialised slots.
   btreeUnsplitChild copies `zn = y->nKeys` keys of z (sic) and adds z->nKeys: modelled as coded.

   Not represented: storage (btreeAllocNode/btreeFreeNode/btreeFree, the alloc/free function
   arguments), btreePrint. *)

Require Import ZArith List Bool.
Import ListNotations.
Local Open Scope Z_scope.

Definition key := Z.
Definition entry := Z.
Definition kv := (key * entry)%type.

Inductive bt := Node (leaf : bool) (keys : list kv) (kids : list bt).

Definition dummy : bt := Node true [] [].
Definition dkv : kv := (0, 0).

Definition isLeaf (x : bt) : bool := match x with Node l _ _ => l end.
Definition keysOf (x : bt) : list kv := match x with Node _ ks _ => ks end.
Definition kidsOf (x : bt) : list bt := match x with Node _ _ cs => cs end.
Definition nKeys (x : bt) : nat := length (keysOf x).

Definition setnth {A} (l : list A) (i : nat) (v : A) : list A := firstn i l ++ v :: skipn (S i) l.
Definition setKid (x : bt) (i : nat) (c : bt) : bt :=
  match x with Node l ks cs => Node l ks (setnth cs i c) end.

(* ---- in-order contents ------------------------------------------------------------ *)
(* flat [e0; e1; ...; en] [k0; ...; k(n-1)] = e0 ++ k0 :: e1 ++ k1 :: ... ++ en *)
Fixpoint flat (es : list (list kv)) (ks : list kv) : list kv :=
  match es with
  | [] => []
  | e :: es' => match ks with
                | [] => e
                | k :: ks' => e ++ k :: flat es' ks'
                end
  end.

Fixpoint elements (x : bt) : list kv :=
  match x with
  | Node leaf ks cs => if leaf then ks else flat (map elements cs) ks
  end.

(* length of the leftmost path: the fuel the loops need *)
Fixpoint height (x : bt) : nat :=
  match x with
  | Node leaf _ cs => if leaf then O else match cs with [] => O | c :: _ => S (height c) end
  end.

(* ---- btreeNew --------------------------------------------------------------------- *)
Definition btreeNew : bt := Node true [] [].

(* ---- the two linear scans --------------------------------------------------------- *)
(* for (xp = x0; xp < xN && k > xp->key; xp++) ;           index of the first key with !(k > key) *)
Fixpoint lscan (ks : list kv) (k : key) : nat :=
  match ks with
  | [] => O
  | p :: r => if k >? fst p then S (lscan r k) else O
  end.

(* for (i = nKeys-1; i >= 0 && k < key[i]; i--) ; i++      from the right: index after the last key
   with !(k < key) *)
Fixpoint rscan (ks : list kv) (k : key) : nat :=
  match ks with
  | [] => O
  | p :: r => let q := rscan r k in
              if Nat.eqb q 0 && (k <? fst p) then O else S q
  end.

(* ---- searches --------------------------------------------------------------------- *)
Inductive sres := SFuel | SNotFound | SFound (x : bt) (i : Z).

Fixpoint searchEQ (f : nat) (x : bt) (k : key) : sres :=
  match f with
  | O => SFuel
  | S f' =>
      match x with
      | Node leaf ks cs =>
          let i := lscan ks k in
          if Nat.ltb i (length ks) && (k =? fst (nth i ks dkv)) then SFound x (Z.of_nat i)
          else if leaf then SNotFound
          else searchEQ f' (nth i cs dummy) k
      end
  end.

Fixpoint searchGE (f : nat) (x : bt) (k : key) (last : option (bt * Z)) : sres :=
  match f with
  | O => SFuel
  | S f' =>
      match x with
      | Node leaf ks cs =>
          let i := lscan ks k in
          if Nat.ltb i (length ks) && (k =? fst (nth i ks dkv)) then SFound x (Z.of_nat i)
          else if leaf then
            if Nat.ltb i (length ks) && (k <=? fst (nth i ks dkv)) then SFound x (Z.of_nat i)
            else match last with
                 | Some (lx, li) => SFound lx li
                 | None => SNotFound
                 end
          else
            let last' := if Nat.ltb i (length ks) then Some (x, Z.of_nat i) else last in
            searchGE f' (nth i cs dummy) k last'
      end
  end.

Fixpoint searchMin (f : nat) (x : bt) : sres :=
  match f with
  | O => SFuel
  | S f' => if isLeaf x then SFound x 0 else searchMin f' (nth 0 (kidsOf x) dummy)
  end.

Fixpoint searchMax (f : nat) (x : bt) : sres :=
  match f with
  | O => SFuel
  | S f' => if isLeaf x then SFound x (Z.of_nat (nKeys x) - 1)
            else searchMax f' (nth (nKeys x) (kidsOf x) dummy)
  end.

Definition btreeSearchEQ (x : bt) (k : key) : sres := searchEQ (S (height x)) x k.
Definition btreeSearchGE (x : bt) (k : key) : sres := searchGE (S (height x)) x k None.
Definition btreeSearchMin (x : bt) : sres := searchMin (S (height x)) x.
Definition btreeSearchMax (x : bt) : sres := searchMax (S (height x)) x.

(* ---- btreeCheck ------------------------------------------------------------------- *)
Definition key_gt_opt (lo : option key) (k : key) : bool :=
  match lo with Some l => l >? k | None => false end.

(* for (xp = x0+1; xp < xN; xp++) if ((xp-1)->key > xp->key) return -5; *)
Fixpoint keys_ordered (ks : list kv) : bool :=
  match ks with
  | [] => true
  | p :: r => match r with
              | [] => true
              | q :: _ => if fst p >? fst q then false else keys_ordered r
              end
  end.

(* the three groups of recursive calls of btreeCheck0: first branch (-7), middle branches (-8),
   last branch (-9) *)
Section CheckKids.
Variable chk : bt -> option key -> option key -> Z.
Fixpoint check_kids (cs : list bt) (ks : list kv) (lo hi : option key) (first : bool) : Z :=
  match cs with
  | [] => 0
  | c :: cs' =>
      match ks with
      | [] => if chk c lo hi =? 0 then 0 else -9
      | p :: ks' =>
          if chk c lo (Some (fst p)) =? 0
          then check_kids cs' ks' (Some (fst p)) hi false
          else if first then -7 else -8
      end
  end.
End CheckKids.

Fixpoint check0 (t : nat) (x : bt) (lo hi : option key) : Z :=
  match x with
  | Node leaf ks cs =>
      let n := length ks in
      let isroot := match lo, hi with None, None => true | _, _ => false end in
      if isroot && Nat.ltb (2 * t - 1) n then -2
      else if negb isroot && (Nat.ltb n (t - 1) || Nat.ltb (2 * t - 1) n) then -3
      else if key_gt_opt lo (fst (nth 0 ks dkv)) then -4
      else if negb (keys_ordered ks) then -5
      else if match hi with Some h => fst (nth (n - 1) ks dkv) >? h | None => false end then -6
      else if leaf then 0
      else check_kids (check0 t) cs ks lo hi true
  end.

Definition btreeCheck (t : nat) (x : bt) : Z := check0 t x None None.

(* ---- btreeSplitChild -------------------------------------------------------------- *)
Definition splitChild (t : nat) (x : bt) (i : nat) : bt :=
  match x with
  | Node xl xks xcs =>
      match nth i xcs dummy with
      | Node yl yks ycs =>
          let z := Node yl (firstn (t - 1) (skipn t yks)) (if yl then [] else firstn t (skipn t ycs)) in
          let y' := Node yl (firstn (t - 1) yks) (if yl then [] else firstn t ycs) in
          let m := nth (t - 1) yks dkv in
          Node xl (firstn i xks ++ m :: skipn i xks) (firstn i xcs ++ y' :: z :: skipn (S i) xcs)
      end
  end.

(* ---- btreeUnsplitChild ------------------------------------------------------------ *)
Definition unsplitChild (x : bt) (i : nat) : bt :=
  match x with
  | Node xl xks xcs =>
      match nth i xcs dummy, nth (S i) xcs dummy with
      | Node yl yks ycs, Node zl zks zcs =>
          let zn := length yks in                 (* zn = y->nKeys, as coded *)
          let y' := Node yl (yks ++ nth i xks dkv :: firstn zn zks)
                         (if yl then [] else ycs ++ firstn (S zn) zcs) in
          Node xl (firstn i xks ++ skipn (S i) xks) (firstn i xcs ++ y' :: skipn (S (S i)) xcs)
      end
  end.

(* ---- btreeRotateDown: a key of branch i+1 goes up to x, x's key i goes down to branch i ---- *)
Definition rotateDown (x : bt) (i : nat) : bt :=
  match x with
  | Node xl xks xcs =>
      match nth i xcs dummy, nth (S i) xcs dummy with
      | Node yl yks ycs, Node zl zks zcs =>
          let y' := Node yl (yks ++ [nth i xks dkv]) (if yl then [] else ycs ++ [nth 0 zcs dummy]) in
          let z' := Node zl (tl zks) (if zl then [] else tl zcs) in
          Node xl (setnth xks i (nth 0 zks dkv)) (firstn i xcs ++ y' :: z' :: skipn (S (S i)) xcs)
      end
  end.

(* ---- btreeRotateUp: a key of branch ii goes up to x, x's key ii goes down to branch ii+1 ---- *)
Definition rotateUp (x : bt) (ii : nat) : bt :=
  match x with
  | Node xl xks xcs =>
      match nth ii xcs dummy, nth (S ii) xcs dummy with
      | Node zl zks zcs, Node yl yks ycs =>
          let zn := length zks in
          let y' := Node yl (nth ii xks dkv :: yks) (if yl then [] else nth zn zcs dummy :: ycs) in
          let z' := Node zl (firstn (zn - 1) zks) (if zl then [] else firstn zn zcs) in
          Node xl (setnth xks ii (nth (zn - 1) zks dkv)) (firstn ii xcs ++ z' :: y' :: skipn (S (S ii)) xcs)
      end
  end.

(* ---- btreeInsertX ----------------------------------------------------------------- *)
Definition leaf_insert (ks : list kv) (k : key) (e : entry) : list kv :=
  let p := rscan ks k in firstn p ks ++ (k, e) :: skipn p ks.

Fixpoint ins_loop (f : nat) (t : nat) (x : bt) (k : key) (e : entry) : option bt :=
  match f with
  | O => None
  | S f' =>
      match x with
      | Node leaf ks cs =>
          if leaf then Some (Node leaf (leaf_insert ks k e) cs)
          else
            let i := rscan ks k in
            if Nat.eqb (nKeys (nth i cs dummy)) (2 * t - 1) then
              let x1 := splitChild t x i in
              let i1 := if k >? fst (nth i (keysOf x1) dkv) then S i else i in
              match ins_loop f' t (nth i1 (kidsOf x1) dummy) k e with
              | Some c => Some (setKid x1 i1 c)
              | None => None
              end
            else
              match ins_loop f' t (nth i cs dummy) k e with
              | Some c => Some (setKid x i c)
              | None => None
              end
      end
  end.

Definition btreeInsert (t : nat) (x : bt) (k : key) (e : entry) : option bt :=
  let x1 := if Nat.eqb (nKeys x) (2 * t - 1) then splitChild t (Node false [] [x]) 0 else x in
  ins_loop (S (height x1)) t x1 k e.

(* ---- btreeDelete0 / btreeDeleteX -------------------------------------------------- *)
Definition entry_or0 (o : option entry) : entry := match o with Some e => e | None => 0 end.

Fixpoint del0 (f : nat) (t : nat) (x : bt) (k : key) : option (bt * option entry) :=
  match f with
  | O => None
  | S f' =>
      match x with
      | Node leaf ks cs =>
          let xn := length ks in
          let i := lscan ks k in
          if Nat.ltb i xn && (k =? fst (nth i ks dkv)) then
            let pe := snd (nth i ks dkv) in
            if leaf then Some (Node leaf (firstn i ks ++ skipn (S i) ks) cs, Some pe)
            else if Nat.ltb (t - 1) (nKeys (nth i cs dummy)) then
              (* replace k by the max of branch i *)
              match searchMax f' (nth i cs dummy) with
              | SFound ox j =>
                  let ok := fst (nth (Z.to_nat j) (keysOf ox) dkv) in
                  match del0 f' t (nth i cs dummy) ok with
                  | Some (c', oe) => Some (Node leaf (setnth ks i (ok, entry_or0 oe)) (setnth cs i c'), Some pe)
                  | None => None
                  end
              | _ => None
              end
            else if Nat.ltb (t - 1) (nKeys (nth (S i) cs dummy)) then
              (* replace k by the min of branch i+1 *)
              match searchMin f' (nth (S i) cs dummy) with
              | SFound ox j =>
                  let ok := fst (nth (Z.to_nat j) (keysOf ox) dkv) in
                  match del0 f' t (nth (S i) cs dummy) ok with
                  | Some (c', oe) => Some (Node leaf (setnth ks i (ok, entry_or0 oe)) (setnth cs (S i) c'), Some pe)
                  | None => None
                  end
              | _ => None
              end
            else
              let x1 := unsplitChild x i in
              match del0 f' t (nth i (kidsOf x1) dummy) k with
              | Some (c', pe') => Some (setKid x1 i c', match pe' with Some v => Some v | None => Some pe end)
              | None => None
              end
          else if leaf then Some (x, None)          (* k is not in the tree: nothing to delete *)
          else
            let xi :=
              if Nat.eqb (nKeys (nth i cs dummy)) (t - 1) then
                if Nat.ltb i xn && Nat.ltb (t - 1) (nKeys (nth (S i) cs dummy)) then (rotateDown x i, i)
                else if Nat.ltb 0 i && Nat.ltb (t - 1) (nKeys (nth (i - 1) cs dummy)) then (rotateUp x (i - 1), i)
                else let i' := if Nat.eqb i xn then (i - 1)%nat else i in (unsplitChild x i', i')
              else (x, i) in
            match del0 f' t (nth (snd xi) (kidsOf (fst xi)) dummy) k with
            | Some (c', pe) => Some (setKid (fst xi) (snd xi) c', pe)
            | None => None
            end
      end
  end.

Definition btreeDelete (t : nat) (x : bt) (k : key) : option (bt * option entry) :=
  match del0 (S (height x)) t x k with
  | Some (x', pe) =>
      Some ((if Nat.eqb (nKeys x') 0 && negb (isLeaf x') then nth 0 (kidsOf x') dummy else x'), pe)
  | None => None
  end.

(* ---- btreeNMap -------------------------------------------------------------------- *)
Fixpoint nmap (g : entry -> entry) (x : bt) : bt :=
  match x with
  | Node leaf ks cs => Node leaf (map (fun p => (fst p, g (snd p))) ks) (map (nmap g) cs)
  end.

Definition nmap_fun (e : entry) : entry := e + 1.
