(* Proofs about the model of btree.c, part 4: btreeSearchEQ / GE / Min / Max. *)
Require Import ZArith List Bool Lia Permutation Arith ZifyBool.
Require Import AV.BTree.Model AV.BTree.Facts AV.BTree.FactsIns AV.BTree.FactsDel.
Import ListNotations.
Local Open Scope Z_scope.

Notation E := elements.

(* first element with key >= k *)
Definition first_ge (k : key) (l : list kv) : option kv := find (fun p => k <=? fst p) l.

Lemma first_ge_app_lt k a b : (forall q, In q a -> fst q < k) -> first_ge k (a ++ b) = first_ge k b.
Proof.
  induction a as [|p r IH]; intros H; [reflexivity|]. unfold first_ge in *. cbn [app find].
  specialize (H p (or_introl eq_refl)) as Hp. destruct (k <=? fst p) eqn:Ep; [apply Z.leb_le in Ep; klia|].
  apply IH. intros q Hq. apply H. now right.
Qed.

Lemma first_ge_app k a b :
  first_ge k (a ++ b) = match first_ge k a with Some p => Some p | None => first_ge k b end.
Proof.
  unfold first_ge, kv, key, entry in *. induction a as [|p r IH]; [reflexivity|]. cbn [app find].
  destruct (k <=? fst p); [reflexivity | exact IH].
Qed.

Lemma first_ge_some k l p :
  sorted l -> first_ge k l = Some p ->
  In p l /\ k <= fst p /\ forall q, In q l -> k <= fst q -> fst p <= fst q.
Proof.
  unfold first_ge, kv, key, entry in *. induction l as [|a r IH]; intros HS H; [discriminate|]. cbn [find] in H.
  apply sorted_cons in HS as [Ha HSr]. destruct (k <=? fst a) eqn:Ea.
  - inversion H; subst. apply Z.leb_le in Ea. split; [now left|]. split; [exact Ea|].
    intros q [<-|Hq] _; [klia | auto].
  - apply Z.leb_gt in Ea. destruct (IH HSr H) as (I1 & I2 & I3). split; [now right|]. split; [exact I2|].
    intros q [<-|Hq] Hk; [klia | auto].
Qed.

Lemma first_ge_none k l : first_ge k l = None -> forall q, In q l -> fst q < k.
Proof.
  unfold first_ge, kv, key, entry in *. induction l as [|a r IH]; intros H q Hq; [destruct Hq|]. cbn [find] in H.
  destruct (k <=? fst a) eqn:Ea; [discriminate|]. apply Z.leb_gt in Ea.
  destruct Hq as [<-|Hq]; [exact Ea | auto].
Qed.

Section Search.
Variable t : nat.
Hypothesis Ht : (2 <= t)%nat.

(* around the branch a search descends into *)
Lemma focus_bounds h lo ks cs k :
  (lo <= length ks <= 2 * t - 1)%nat -> length cs = S (length ks) ->
  Forall (shape t (t - 1) h) cs -> sorted (E (Node false ks cs)) ->
  Nat.ltb (lscan ks k) (length ks) && (k =? fst (nth (lscan ks k) ks dkv)) = false ->
  exists cs1 c cs2 ks1 ks2,
    cs = cs1 ++ c :: cs2 /\ ks = ks1 ++ ks2 /\ length cs1 = lscan ks k /\ length ks1 = lscan ks k /\
    nth (lscan ks k) cs dummy = c /\ shape t (t - 1) h c /\ sorted (E c) /\
    E (Node false ks cs) = flat (map E cs1) ks1 ++ E c ++ tlf (map E cs2) ks2 /\
    (forall q, In q (flat (map E cs1) ks1) -> fst q < k) /\
    (forall q, In q (tlf (map E cs2) ks2) -> k < fst q) /\
    (forall q r, ks2 = q :: r -> k < fst q /\ nth (lscan ks k) ks dkv = q).
Proof.
  intros Bk Lc Fc HS EF.
  pose proof (lscan_le ks k) as Hle. pose proof (lscan_before ks k) as Hbef. pose proof (lscan_at ks k) as Hat.
  set (i := lscan ks k) in *.
  assert (Hafter : forall q r, skipn i ks = q :: r -> k < fst q /\ nth i ks dkv = q).
  { intros q r Hq. assert (Hi : (i < length ks)%nat).
    { destruct (Nat.lt_ge_cases i (length ks)) as [?|G]; [assumption|].
      rewrite skipn_all2 in Hq by exact G. discriminate. }
    specialize (Hat Hi). assert (Nq : nth i ks dkv = q).
    { rewrite <- (firstn_skipn i ks) at 1. rewrite Hq. apply nth_app_i. rewrite firstn_length. lia. }
    rewrite Nq in *. apply Nat.ltb_lt in Hi. rewrite Hi in EF. cbn [andb] in EF.
    apply Z.eqb_neq in EF. split; [klia | reflexivity]. }
  clearbody i. clear Hat EF.
  destruct (node_split1' cs ks i Lc Hle) as (cs1 & c & cs2 & Ecs & Eks & L1 & L2 & Nc & L3).
  set (ks1 := firstn i ks) in *. set (ks2 := skipn i ks) in *.
  assert (L12 : length cs1 = length ks1) by lia.
  exists cs1, c, cs2, ks1, ks2. split; [exact Ecs|]. split; [exact Eks|]. split; [exact L1|].
  split; [exact L2|]. split; [exact Nc|].
  assert (Fcc : shape t (t - 1) h c).
  { rewrite Ecs in Fc. apply Forall_app in Fc as [_ F]. now apply Forall_cons_iff in F. }
  split; [exact Fcc|].
  assert (EX : E (Node false ks cs) = flat (map E cs1) ks1 ++ E c ++ tlf (map E cs2) ks2).
  { rewrite Ecs. rewrite Eks at 1. apply elements_node1. exact L12. }
  rewrite EX in HS. split; [eapply sorted_mid; exact HS|]. split; [exact EX|]. split; [|split].
  - apply (bounds_A t Ht (map E cs1) ks1 (E c ++ tlf (map E cs2) ks2) k); [rewrite map_length; exact L12 | exact HS | exact Hbef].
  - eapply (bounds_H t Ht); [|intros q r Hq; now apply (Hafter q r)]. eapply sorted_suffix. eapply sorted_suffix. exact HS.
  - exact Hafter.
Qed.

(* ------------------------------------------------------------------ btreeSearchEQ finds iff present *)
Lemma searchEQ_spec : forall h lo x f k,
  (h < f)%nat -> shape t lo h x -> sorted (E x) ->
  (In k (map fst (E x)) ->
     exists y j, searchEQ f x k = SFound y (Z.of_nat j) /\ (j < nKeys y)%nat /\
                 fst (nth j (keysOf y) dkv) = k /\ In (nth j (keysOf y) dkv) (E x)) /\
  (~ In k (map fst (E x)) -> searchEQ f x k = SNotFound).
Proof.
  induction h as [|h IH]; intros lo x f k Hf Hs HS; (destruct f as [|f]; [lia|]); destruct x as [lf ks cs];
    cbn [searchEQ]; cbv zeta;
    destruct (Nat.ltb (lscan ks k) (length ks) && (k =? fst (nth (lscan ks k) ks dkv))) eqn:EF.
  - apply andb_true_iff in EF as [E1 E2]. apply Nat.ltb_lt in E1. apply Z.eqb_eq in E2. split.
    + intros _. eexists. exists (lscan ks k). split; [reflexivity|]. unfold nKeys. cbn [keysOf].
      split; [exact E1|]. split; [now symmetry|]. apply (keys_in_elements _ _ _ _ Hs). cbn [keysOf]. now apply nth_In.
    + intros N. exfalso. apply N. apply in_map_iff. exists (nth (lscan ks k) ks dkv). split; [now symmetry|].
      apply (keys_in_elements _ _ _ _ Hs). cbn [keysOf]. now apply nth_In.
  - apply shape_leaf' in Hs as (-> & -> & _). cbn [elements] in *. split; [|reflexivity].
    intros Hin. exfalso. exact (lscan_notin t Ht ks k HS EF Hin).
  - apply andb_true_iff in EF as [E1 E2]. apply Nat.ltb_lt in E1. apply Z.eqb_eq in E2. split.
    + intros _. eexists. exists (lscan ks k). split; [reflexivity|]. unfold nKeys. cbn [keysOf].
      split; [exact E1|]. split; [now symmetry|]. apply (keys_in_elements _ _ _ _ Hs). cbn [keysOf]. now apply nth_In.
    + intros N. exfalso. apply N. apply in_map_iff. exists (nth (lscan ks k) ks dkv). split; [now symmetry|].
      apply (keys_in_elements _ _ _ _ Hs). cbn [keysOf]. now apply nth_In.
  - apply shape_node' in Hs as (-> & Bk & Lc & Fc).
    destruct (focus_bounds h lo ks cs k Bk Lc Fc HS EF)
      as (cs1 & c & cs2 & ks1 & ks2 & _ & _ & _ & _ & Nc & Fcc & HSc & EX & BA & BH & _).
    rewrite Nc. destruct (IH (t - 1)%nat c f k ltac:(lia) Fcc HSc) as [I1 I2].
    assert (IFF : In k (map fst (E (Node false ks cs))) <-> In k (map fst (E c))).
    { rewrite EX, !map_app, !in_app_iff. split; [|tauto]. intros [H|[H|H]]; [|exact H|].
      - apply in_map_iff in H as (q & <- & Hq). specialize (BA q Hq). klia.
      - apply in_map_iff in H as (q & <- & Hq). specialize (BH q Hq). klia. }
    split.
    + intros Hin. apply IFF in Hin. destruct (I1 Hin) as (y & j & H1 & H2 & H3 & H4).
      exists y, j. repeat split; auto. rewrite EX. apply in_or_app. right. apply in_or_app. now left.
    + intros N. apply I2. intros Hc. apply N. now apply IFF.
Qed.

(* ------------------------------------------------------------------ btreeSearchGE finds the least key >= k *)
Lemma searchGE_spec : forall h lo x f k last,
  (h < f)%nat -> shape t lo h x -> sorted (E x) ->
  match first_ge k (E x) with
  | Some p => exists y j, searchGE f x k last = SFound y (Z.of_nat j) /\ (j < nKeys y)%nat /\
                          fst (nth j (keysOf y) dkv) = fst p /\ In (nth j (keysOf y) dkv) (E x)
  | None => searchGE f x k last = match last with Some (lx, li) => SFound lx li | None => SNotFound end
  end.
Proof.
  induction h as [|h IH]; intros lo x f k last Hf Hs HS; (destruct f as [|f]; [lia|]); destruct x as [lf ks cs];
    cbn [searchGE]; cbv zeta;
    destruct (Nat.ltb (lscan ks k) (length ks) && (k =? fst (nth (lscan ks k) ks dkv))) eqn:EF.
  1,3: (* k is a key of this node *)
    apply andb_true_iff in EF as [E1 E2]; apply Nat.ltb_lt in E1; apply Z.eqb_eq in E2;
    assert (Hin : In (nth (lscan ks k) ks dkv) (E (Node lf ks cs)))
      by (apply (keys_in_elements _ _ _ _ Hs); cbn [keysOf]; now apply nth_In);
    destruct (first_ge k (E (Node lf ks cs))) as [p|] eqn:FG;
    [ destruct (first_ge_some _ _ _ HS FG) as (P1 & P2 & P3);
      specialize (P3 _ Hin ltac:(klia));
      eexists; exists (lscan ks k); split; [reflexivity|]; unfold nKeys; cbn [keysOf];
      split; [exact E1|]; split; [klia | exact Hin]
    | pose proof (first_ge_none _ _ FG _ Hin); klia ].
  - (* leaf *)
    apply shape_leaf' in Hs as (-> & -> & _). cbn [elements] in *.
    pose proof (lscan_le ks k) as Hle. pose proof (lscan_before ks k) as Hbef. pose proof (lscan_at ks k) as Hat.
    set (i := lscan ks k) in *.
    replace (first_ge k ks) with (first_ge k (firstn i ks ++ skipn i ks)) by (now rewrite firstn_skipn).
    rewrite first_ge_app_lt by exact Hbef.
    destruct (Nat.ltb i (length ks)) eqn:Ei.
    + apply Nat.ltb_lt in Ei. specialize (Hat Ei). cbn [andb] in *.
      assert (Es : skipn i ks = nth i ks dkv :: skipn (S i) ks).
      { pose proof (split_nth ks i dkv Ei) as Eks. rewrite Eks at 1.
        apply skipn_app_i. rewrite firstn_length. lia. }
      rewrite Es. unfold first_ge. cbn [find].
      assert (EL : (k <=? fst (nth i ks dkv)) = true) by (apply Z.leb_le; exact Hat).
      unfold kv, key, entry in *. rewrite !EL. eexists. exists i. split; [reflexivity|]. unfold nKeys. cbn [keysOf elements].
      split; [exact Ei|]. split; [reflexivity|]. now apply nth_In.
    + cbn [andb]. apply Nat.ltb_ge in Ei. rewrite skipn_all2 by exact Ei. reflexivity.
  - (* interior node, k is not one of its keys *)
    apply shape_node' in Hs as (-> & Bk & Lc & Fc).
    destruct (focus_bounds h lo ks cs k Bk Lc Fc HS EF)
      as (cs1 & c & cs2 & ks1 & ks2 & _ & Eks & _ & L2 & Nc & Fcc & HSc & EX & BA & BH & Hhd).
    rewrite Nc. rewrite EX. rewrite first_ge_app_lt by exact BA. rewrite first_ge_app.
    set (last' := if Nat.ltb (lscan ks k) (length ks) then Some (Node false ks cs, Z.of_nat (lscan ks k)) else last).
    specialize (IH (t - 1)%nat c f k last' ltac:(lia) Fcc HSc).
    destruct (first_ge k (E c)) as [p|] eqn:FG.
    + destruct IH as (y & j & H1 & H2 & H3 & H4). exists y, j. repeat split; auto.
      apply in_or_app. right. apply in_or_app. now left.
    + rewrite IH. unfold last'. destruct ks2 as [|q r].
      * (* rightmost branch: the candidate is inherited *)
        rewrite app_nil_r in Eks. assert (Ei : Nat.ltb (lscan ks k) (length ks) = false).
        { apply Nat.ltb_ge. pose proof (f_equal (@length _) Eks) as EL0. lia. }
        rewrite Ei. reflexivity.
      * destruct (Hhd q r eq_refl) as [Hq Nq].
        assert (Ei : Nat.ltb (lscan ks k) (length ks) = true).
        { apply Nat.ltb_lt. pose proof (f_equal (@length _) Eks) as EL0. rewrite app_length in EL0. cbn [length] in EL0. lia. }
        rewrite Ei. cbn [tlf]. unfold first_ge. cbn [find].
        assert (EL : (k <=? fst q) = true) by (apply Z.leb_le; klia). unfold kv, key, entry in *. rewrite !EL.
        eexists. exists (lscan ks k). split; [reflexivity|]. unfold nKeys. cbn [keysOf].
        apply Nat.ltb_lt in Ei. split; [exact Ei|]. rewrite Nq. split; [reflexivity|].
        apply in_or_app. right. apply in_or_app. right. now left.
Qed.

(* ------------------------------------------------------------------ top level *)
Theorem searchEQ_finds_iff_present x k :
  wfb t x ->
  (In k (map fst (E x)) ->
     exists y j, btreeSearchEQ x k = SFound y (Z.of_nat j) /\ (j < nKeys y)%nat /\
                 fst (nth j (keysOf y) dkv) = k /\ In (nth j (keysOf y) dkv) (E x)) /\
  (~ In k (map fst (E x)) -> btreeSearchEQ x k = SNotFound).
Proof.
  intros (h & Hs & HS). unfold btreeSearchEQ. rewrite (shape_height _ _ _ _ Hs).
  apply (searchEQ_spec h _ x (S h) k ltac:(lia) Hs HS).
Qed.

Theorem searchGE_least x k :
  wfb t x ->
  (exists y j, btreeSearchGE x k = SFound y (Z.of_nat j) /\ (j < nKeys y)%nat /\
               In (nth j (keysOf y) dkv) (E x) /\ k <= fst (nth j (keysOf y) dkv) /\
               forall q, In q (E x) -> k <= fst q -> fst (nth j (keysOf y) dkv) <= fst q)
  \/ (btreeSearchGE x k = SNotFound /\ forall q, In q (E x) -> fst q < k).
Proof.
  intros (h & Hs & HS). unfold btreeSearchGE. rewrite (shape_height _ _ _ _ Hs).
  pose proof (searchGE_spec h _ x (S h) k None ltac:(lia) Hs HS) as G.
  destruct (first_ge k (E x)) as [p|] eqn:FG.
  - left. destruct G as (y & j & H1 & H2 & H3 & H4). destruct (first_ge_some _ _ _ HS FG) as (P1 & P2 & P3).
    exists y, j. split; [exact H1|]. split; [exact H2|]. split; [exact H4|]. rewrite H3. split; [exact P2 | exact P3].
  - right. split; [exact G | exact (first_ge_none _ _ FG)].
Qed.

Theorem searchMin_is_min x :
  wfb t x -> (1 <= nKeys x)%nat ->
  exists y j l, btreeSearchMin x = SFound y j /\ E x = nth (Z.to_nat j) (keysOf y) dkv :: l.
Proof.
  intros (h & Hs & HS) Hn. unfold btreeSearchMin. rewrite (shape_height _ _ _ _ Hs).
  apply (searchMin_spec t Ht h 1%nat x (S h) ltac:(lia)); [|lia]. eapply shape_lo; eauto.
Qed.

Theorem searchMax_is_max x :
  wfb t x -> (1 <= nKeys x)%nat ->
  exists y j l, btreeSearchMax x = SFound y j /\ E x = l ++ [nth (Z.to_nat j) (keysOf y) dkv].
Proof.
  intros (h & Hs & HS) Hn. unfold btreeSearchMax. rewrite (shape_height _ _ _ _ Hs).
  apply (searchMax_spec t Ht h 1%nat x (S h) ltac:(lia)); [|lia]. eapply shape_lo; eauto.
Qed.

End Search.
