(* Proofs about the model of btree.c, part 3: btreeDelete0 / btreeDeleteX. *)
Require Import ZArith List Bool Lia Permutation Arith ZifyBool.
Require Import AV.BTree.Model AV.BTree.Facts AV.BTree.FactsIns.
Import ListNotations.
Local Open Scope Z_scope.

Notation E := elements.

(* ------------------------------------------------------------------ lscan *)
Lemma lscan_cons p r k : lscan (p :: r) k = if k >? fst p then S (lscan r k) else O.
Proof. reflexivity. Qed.

Lemma lscan_le ks k : (lscan ks k <= length ks)%nat.
Proof.
  induction ks as [|p r IH]; [apply Nat.le_0_l|]. rewrite lscan_cons. cbn [length].
  destruct (k >? fst p); lia.
Qed.

Lemma lscan_before ks k : forall q, In q (firstn (lscan ks k) ks) -> fst q < k.
Proof.
  induction ks as [|p r IH]; intros q Hq; [destruct Hq|]. rewrite lscan_cons in Hq.
  destruct (k >? fst p) eqn:E1; [|destruct Hq]. cbn [firstn] in Hq. destruct Hq as [<-|Hq]; [|auto].
  apply Z.gtb_lt in E1. exact E1.
Qed.

Lemma lscan_at ks k : (lscan ks k < length ks)%nat -> k <= fst (nth (lscan ks k) ks dkv).
Proof.
  induction ks as [|p r IH]; cbn [length]; intros H; [lia|]. rewrite lscan_cons in *.
  destruct (k >? fst p) eqn:E1.
  - cbn [nth]. apply IH. lia.
  - cbn [nth]. rewrite Z.gtb_ltb in E1. apply Z.ltb_ge in E1. exact E1.
Qed.

(* keys of a node occur in its in-order contents *)
Lemma flat_keys_in es ks : length es = S (length ks) -> forall q, In q ks -> In q (flat es ks).
Proof.
  revert ks. induction es as [|e r IH]; intros ks H q Hq; [discriminate|].
  destruct ks as [|k ks']; [destruct Hq|]. cbn [flat]. apply in_or_app. right.
  destruct Hq as [<-|Hq]; [now left|]. right. apply IH; [cbn in H; lia | exact Hq].
Qed.

Lemma keys_in_elements t lo h x : shape t lo h x -> forall q, In q (keysOf x) -> In q (E x).
Proof.
  destruct x as [l ks cs]. destruct h; intros Hs q Hq; cbn [keysOf] in Hq.
  - apply shape_leaf' in Hs as (-> & -> & _). exact Hq.
  - apply shape_node' in Hs as (-> & _ & Lc & _). rewrite elements_nonleaf.
    apply flat_keys_in; [now rewrite map_length | exact Hq].
Qed.

(* ------------------------------------------------------------------ btreeSearchMax / btreeSearchMin *)
Section Del.
Variable t : nat.
Hypothesis Ht : (2 <= t)%nat.

Lemma searchMax_spec : forall h lo x f,
  (h < f)%nat -> shape t lo h x -> (1 <= lo)%nat ->
  exists ox j l, searchMax f x = SFound ox j /\ E x = l ++ [nth (Z.to_nat j) (keysOf ox) dkv].
Proof.
  induction h as [|h IH]; intros lo x f Hf Hs Hlo; (destruct f as [|f]; [lia|]); destruct x as [lf ks cs].
  - apply shape_leaf' in Hs as (-> & -> & Bk). cbn [searchMax isLeaf].
    destruct (snoc_cases ks) as [->|(ks' & a & ->)]; [cbn in Bk; lia|].
    exists (Node true (ks' ++ [a]) []), (Z.of_nat (nKeys (Node true (ks' ++ [a]) [])) - 1), ks'.
    split; [reflexivity|]. unfold nKeys. cbn [keysOf elements]. rewrite app_length. cbn [length].
    replace (Z.to_nat (Z.of_nat (length ks' + 1) - 1)) with (length ks') by lia.
    now rewrite nth_app_exact.
  - apply shape_node' in Hs as (-> & Bk & Lc & Fc). cbn [searchMax isLeaf kidsOf]. unfold nKeys. cbn [keysOf].
    destruct (snoc_cases cs) as [->|(cs' & c & ->)]; [discriminate|].
    rewrite app_length in Lc. cbn [length] in Lc.
    rewrite (nth_app_i cs' [] c dummy (length ks) ltac:(lia)).
    apply Forall_app in Fc as [_ Fc]. apply Forall_cons_iff in Fc as [Fc _].
    destruct (IH (t - 1)%nat c f ltac:(lia) Fc ltac:(lia)) as (ox & j & l & H1 & H2).
    exists ox, j, (flat (map E cs') ks ++ l). split; [exact H1|].
    rewrite elements_nonleaf, map_app. cbn [map].
    rewrite <- (app_nil_r ks) at 1. rewrite flat_app by (rewrite map_length; lia).
    cbn [flat]. rewrite H2. now rewrite app_assoc.
Qed.

Lemma searchMin_spec : forall h lo x f,
  (h < f)%nat -> shape t lo h x -> (1 <= lo)%nat ->
  exists ox j l, searchMin f x = SFound ox j /\ E x = nth (Z.to_nat j) (keysOf ox) dkv :: l.
Proof.
  induction h as [|h IH]; intros lo x f Hf Hs Hlo; (destruct f as [|f]; [lia|]); destruct x as [lf ks cs].
  - apply shape_leaf' in Hs as (-> & -> & Bk). cbn [searchMin isLeaf].
    destruct ks as [|a ks']; [cbn in Bk; lia|].
    exists (Node true (a :: ks') []), 0, ks'. split; reflexivity.
  - apply shape_node' in Hs as (-> & Bk & Lc & Fc). cbn [searchMin isLeaf kidsOf].
    destruct cs as [|c cs']; [discriminate|]. cbn [nth].
    apply Forall_cons_iff in Fc as [Fc _].
    destruct (IH (t - 1)%nat c f ltac:(lia) Fc ltac:(lia)) as (ox & j & l & H1 & H2).
    exists ox, j, (l ++ tlf (map E cs') ks). split; [exact H1|].
    rewrite elements_nonleaf. cbn [map]. rewrite flat_cons, H2. reflexivity.
Qed.

(* ------------------------------------------------------------------ what a deletion does to the contents *)
Definition deleted (k : key) (pe : option entry) (old new : list kv) : Prop :=
  match pe with
  | None => new = old /\ ~ In k (map fst old)
  | Some v => Permutation old ((k, v) :: new)
  end.

Lemma perm_ctx {X} (p : X) A B old new :
  Permutation old (p :: new) -> Permutation (A ++ old ++ B) (p :: A ++ new ++ B).
Proof.
  intros P. eapply Permutation_trans; [|apply Permutation_sym; apply Permutation_middle].
  apply Permutation_app_head. change (p :: new ++ B) with ((p :: new) ++ B).
  now apply Permutation_app_tail.
Qed.

Lemma deleted_ctx k pe A B old new :
  deleted k pe old new ->
  (forall q, In q A -> fst q < k) -> (forall q, In q B -> k < fst q) ->
  deleted k pe (A ++ old ++ B) (A ++ new ++ B).
Proof.
  destruct pe as [v|]; cbn [deleted].
  - intros P _ _. now apply perm_ctx.
  - intros [-> N] HA HB. split; [reflexivity|]. rewrite !map_app, !in_app_iff. intros [H|[H|H]]; auto.
    + apply in_map_iff in H as (q & <- & Hq). specialize (HA q Hq). klia.
    + apply in_map_iff in H as (q & <- & Hq). specialize (HB q Hq). klia.
Qed.

Lemma deleted_ctx_some k v A B old new :
  deleted k (Some v) old new -> deleted k (Some v) (A ++ old ++ B) (A ++ new ++ B).
Proof. cbn [deleted]. apply perm_ctx. Qed.

Lemma sorted_del_ctx k pe A B old new :
  sorted (A ++ old ++ B) -> deleted k pe old new -> sorted new -> sorted (A ++ new ++ B).
Proof.
  destruct pe as [v|]; cbn [deleted].
  - intros HS P HN. eapply sorted_shrink_mid; eauto.
  - intros HS [-> _] _. exact HS.
Qed.

Lemma deleted_present k pe old new : deleted k pe old new -> In k (map fst old) -> exists v, pe = Some v.
Proof. destruct pe as [v|]; [now exists v | intros [_ N] H; contradiction]. Qed.

Lemma lscan_notin ks k :
  sorted ks -> Nat.ltb (lscan ks k) (length ks) && (k =? fst (nth (lscan ks k) ks dkv)) = false ->
  ~ In k (map fst ks).
Proof.
  induction ks as [|p r IH]; intros HS HF; [intros []|]. apply sorted_cons in HS as [HS1 HS2].
  rewrite lscan_cons in HF. cbn [map]. destruct (k >? fst p) eqn:E1.
  - apply Z.gtb_lt in E1. cbn [length nth] in HF. change (Nat.ltb (S (lscan r k)) (S (length r))) with (Nat.ltb (lscan r k) (length r)) in HF.
    intros [H|H]; [klia | exact (IH HS2 HF H)].
  - rewrite Z.gtb_ltb in E1. apply Z.ltb_ge in E1. cbn [length nth andb] in HF.
    change (Nat.ltb 0 (S (length r))) with true in HF. cbn [andb] in HF. apply Z.eqb_neq in HF.
    intros [H|H]; [klia|]. apply in_map_iff in H as (q & <- & Hq). specialize (HS1 q Hq). klia.
Qed.

(* bounds around the branch the search descends into *)
Lemma pos_bounds es1 ks1 es2 ks2 M k :
  length es1 = length ks1 -> sorted (flat es1 ks1 ++ M ++ tlf es2 ks2) ->
  (forall q, In q ks1 -> fst q < k) -> (forall q r, ks2 = q :: r -> k < fst q) ->
  (forall q, In q (flat es1 ks1) -> fst q < k) /\ (forall q, In q (tlf es2 ks2) -> k < fst q).
Proof.
  intros L HS B1 B2.
  assert (HSA : sorted (flat es1 ks1)) by (apply sorted_app in HS; tauto).
  assert (HSH : sorted (tlf es2 ks2)) by (apply sorted_app in HS as (_ & H2 & _); apply sorted_app in H2; tauto).
  split.
  - intros q Hq. pose proof (flat_le_last es1 ks1 L HSA q Hq) as Hl.
    destruct (snoc_cases ks1) as [->|(ks' & a & ->)].
    + destruct es1; [destruct Hq | discriminate].
    + rewrite last_snoc in Hl. specialize (B1 a ltac:(apply in_or_app; right; now left)). klia.
  - intros q Hq. pose proof (tlf_ge_head es2 ks2 HSH q Hq) as Hh.
    destruct ks2 as [|kh r]; [destruct Hq|]. cbn [hd] in Hh. specialize (B2 kh r eq_refl). klia.
Qed.

Lemma descend_step h' f k :
  (forall lo x, shape t lo h' x -> (h' <> O -> (1 <= lo)%nat) -> sorted (E x) ->
     exists x' pe, del0 f t x k = Some (x', pe) /\ shape t (lo - 1) h' x' /\ sorted (E x') /\
                   deleted k pe (E x) (E x')) ->
  forall ks1 ks2 cs1 c cs2 lo',
    length cs1 = length ks1 -> length cs2 = length ks2 ->
    Forall (shape t (t - 1) h') (cs1 ++ c :: cs2) -> (t <= nKeys c)%nat ->
    (lo' <= length (ks1 ++ ks2) <= 2 * t - 1)%nat ->
    sorted (E (Node false (ks1 ++ ks2) (cs1 ++ c :: cs2))) ->
    (forall q, In q (flat (map E cs1) ks1) -> fst q < k) ->
    (forall q, In q (tlf (map E cs2) ks2) -> k < fst q) ->
    exists c' pe, del0 f t c k = Some (c', pe) /\
      shape t lo' (S h') (Node false (ks1 ++ ks2) (cs1 ++ c' :: cs2)) /\
      sorted (E (Node false (ks1 ++ ks2) (cs1 ++ c' :: cs2))) /\
      deleted k pe (E (Node false (ks1 ++ ks2) (cs1 ++ c :: cs2)))
                   (E (Node false (ks1 ++ ks2) (cs1 ++ c' :: cs2))).
Proof.
  intros IH ks1 ks2 cs1 c cs2 lo' L1 L2 Fc Hn Bk HS BA BH.
  rewrite elements_node1 in HS by exact L1.
  apply Forall_app in Fc as [Fc1 Fc2]. apply Forall_cons_iff in Fc2 as [Fcc Fc2].
  assert (HSc : sorted (E c)) by (apply sorted_app in HS as (_ & H2 & _); apply sorted_app in H2; tauto).
  destruct (IH t c (shape_lo _ _ t _ _ Fcc Hn) ltac:(intros _; lia) HSc) as (c' & pe & Hd & Sc' & HSc' & Dc).
  exists c', pe. split; [exact Hd|]. split.
  - apply shape_node. split; [exact Bk|]. split.
    + rewrite !app_length in *. cbn [length]. lia.
    + apply Forall_app. split; [exact Fc1|]. constructor; assumption.
  - rewrite !elements_node1 by exact L1. split.
    + eapply sorted_del_ctx; eauto.
    + apply deleted_ctx; assumption.
Qed.

Lemma sorted_mid A M B : sorted (A ++ M ++ B) -> sorted M.
Proof. intros HS. apply sorted_app in HS as (_ & H2 & _). apply sorted_app in H2. tauto. Qed.

Lemma bounds_A es1 ks1 R k :
  length es1 = length ks1 -> sorted (flat es1 ks1 ++ R) ->
  (forall q, In q ks1 -> fst q < k) -> forall q, In q (flat es1 ks1) -> fst q < k.
Proof.
  intros L HS B1 q Hq. assert (HSA : sorted (flat es1 ks1)) by (apply sorted_app in HS; tauto).
  pose proof (flat_le_last es1 ks1 L HSA q Hq) as Hl.
  destruct (snoc_cases ks1) as [->|(ks' & a & ->)].
  - destruct es1; [destruct Hq | discriminate].
  - rewrite last_snoc in Hl. specialize (B1 a ltac:(apply in_or_app; right; now left)). klia.
Qed.

Lemma bounds_H es2 ks2 k :
  sorted (tlf es2 ks2) -> (forall q r, ks2 = q :: r -> k < fst q) ->
  forall q, In q (tlf es2 ks2) -> k < fst q.
Proof.
  intros HSH B2 q Hq. pose proof (tlf_ge_head es2 ks2 HSH q Hq) as Hh.
  destruct ks2 as [|kh r]; [destruct Hq|]. cbn [hd] in Hh. specialize (B2 kh r eq_refl). klia.
Qed.

Lemma sorted_key_mid A Y m R :
  sorted (A ++ Y ++ m :: R) -> (forall q, In q Y -> fst q <= fst m) /\ (forall q, In q R -> fst m <= fst q).
Proof.
  intros HS. apply sorted_app in HS as (_ & HS & _). apply sorted_app in HS as (_ & H2 & H3). split.
  - intros q Hq. apply H3; [exact Hq | now left].
  - apply sorted_cons in H2 as [H2 _]. exact H2.
Qed.

Lemma sorted_suffix A B : sorted (A ++ B) -> sorted B.
Proof. intros HS. apply sorted_app in HS. tauto. Qed.

(* The not-found branch of btreeDelete0 up to the recursive call: whichever of RotateDown / RotateUp /
   UnsplitChild / nothing is chosen, the node keeps its contents, the branch to descend into has at least
   t keys, everything left of it is < k and everything right of it is > k. *)
Lemma prepare_descent h lo ks cs k i :
  (1 <= lo)%nat -> (lo <= length ks <= 2 * t - 1)%nat -> length cs = S (length ks) ->
  Forall (shape t (t - 1) h) cs -> sorted (E (Node false ks cs)) ->
  (i <= length ks)%nat ->
  (forall q, In q (firstn i ks) -> fst q < k) -> (forall q r, skipn i ks = q :: r -> k < fst q) ->
  exists ks1 ks2 cs1 c1 cs2,
    (if Nat.eqb (nKeys (nth i cs dummy)) (t - 1)
     then if Nat.ltb i (length ks) && Nat.ltb (t - 1) (nKeys (nth (S i) cs dummy))
          then (rotateDown (Node false ks cs) i, i)
          else if Nat.ltb 0 i && Nat.ltb (t - 1) (nKeys (nth (i - 1) cs dummy))
               then (rotateUp (Node false ks cs) (i - 1), i)
               else (unsplitChild (Node false ks cs) (if Nat.eqb i (length ks) then (i - 1)%nat else i),
                     if Nat.eqb i (length ks) then (i - 1)%nat else i)
     else (Node false ks cs, i))
    = (Node false (ks1 ++ ks2) (cs1 ++ c1 :: cs2), length ks1) /\
    length cs1 = length ks1 /\ length cs2 = length ks2 /\
    Forall (shape t (t - 1) h) (cs1 ++ c1 :: cs2) /\ (t <= nKeys c1)%nat /\
    (lo - 1 <= length (ks1 ++ ks2) <= 2 * t - 1)%nat /\
    E (Node false (ks1 ++ ks2) (cs1 ++ c1 :: cs2)) = E (Node false ks cs) /\
    (forall q, In q (flat (map E cs1) ks1) -> fst q < k) /\
    (forall q, In q (tlf (map E cs2) ks2) -> k < fst q).
Proof.
  intros Hlo Bk Lc Fc HS Hle Hbef Hafter.
  destruct (Nat.eqb (nKeys (nth i cs dummy)) (t - 1)) eqn:Ec.
  2:{ (* the branch already has at least t keys *)
    apply Nat.eqb_neq in Ec.
    destruct (node_split1' cs ks i Lc Hle) as (cs1 & c & cs2 & Ecs & Eks & L1 & L2 & Nc & L3).
    set (ks1 := firstn i ks) in *. set (ks2 := skipn i ks) in *. clearbody ks1 ks2.
    rewrite Nc in Ec. subst cs ks.
    assert (L12 : length cs1 = length ks1) by lia.
    assert (Fcc : shape t (t - 1) h c) by (apply Forall_app in Fc as [_ F]; now apply Forall_cons_iff in F).
    pose proof (shape_nKeys _ _ _ _ Fcc) as Bc.
    exists ks1, ks2, cs1, c, cs2. rewrite <- L2. split; [reflexivity|]. rewrite L2.
    repeat (split; [first [assumption | lia | reflexivity]|]).
    rewrite elements_node1 in HS by exact L12. split.
    - eapply bounds_A; [now rewrite map_length | exact HS | exact Hbef].
    - eapply bounds_H; [|exact Hafter]. eapply sorted_suffix. eapply sorted_suffix. exact HS. }
  apply Nat.eqb_eq in Ec.
  destruct (Nat.ltb i (length ks) && Nat.ltb (t - 1) (nKeys (nth (S i) cs dummy))) eqn:C1.
  - (* RotateDown x i *)
    apply andb_true_iff in C1 as [C1 C2]. apply Nat.ltb_lt in C1, C2.
    destruct (node_split2 cs ks i dummy Lc C1)
      as (cs1 & y & z & cs2 & ks1 & m & ks2 & Ecs & Eks & L1 & L2 & Ny & Nz & Nm & L3).
    rewrite Ny in Ec. rewrite Nz in C2. subst cs ks.
    rewrite (firstn_app_i ks1 (m :: ks2) i L2) in Hbef. rewrite (skipn_app_i ks1 (m :: ks2) i L2) in Hafter.
    assert (L12 : length cs1 = length ks1) by lia.
    apply Forall_app in Fc as [Fc1 Fc2]. apply Forall_cons_iff in Fc2 as [Fy Fc2].
    apply Forall_cons_iff in Fc2 as [Fz Fc2].
    destruct y as [yl yks ycs], z as [zl zks zcs]. unfold nKeys in Ec, C2. cbn [keysOf] in Ec, C2.
    rewrite <- L2. rewrite rotateDown_explicit by exact L12.
    destruct (rot_down_children t h yl yks ycs zl zks zcs m ltac:(lia) Fy Fz Ec C2) as (Sy' & Sz' & Ny' & EQ).
    set (y' := Node yl (yks ++ [m]) (if yl then [] else ycs ++ [nth 0 zcs dummy])) in *.
    set (z' := Node zl (tl zks) (if zl then [] else tl zcs)) in *.
    set (zk0 := nth 0 zks dkv) in *.
    exists ks1, (zk0 :: ks2), cs1, y', (z' :: cs2). split; [reflexivity|].
    split; [exact L12|]. split; [cbn [length]; lia|].
    split; [apply Forall_app; split; [exact Fc1|]; repeat (constructor; try assumption)|].
    split; [lia|]. split; [rewrite !app_length in *; cbn [length] in *; lia|].
    rewrite !elements_node2 in * by exact L12.
    assert (EQX : flat (map E cs1) ks1 ++ E y' ++ zk0 :: E z' ++ tlf (map E cs2) ks2 =
                  flat (map E cs1) ks1 ++ E (Node yl yks ycs) ++ m :: E (Node zl zks zcs) ++ tlf (map E cs2) ks2).
    { f_equal. replace (E y' ++ zk0 :: E z' ++ tlf (map E cs2) ks2)
        with ((E y' ++ zk0 :: E z') ++ tlf (map E cs2) ks2) by (rewrite <- app_assoc; reflexivity).
      rewrite <- EQ. rewrite <- app_assoc. reflexivity. }
    split; [exact EQX|].
    assert (Hm : k < fst m) by (apply (Hafter m ks2 eq_refl)).
    destruct (sorted_key_mid _ _ _ _ HS) as [_ Bm].
    assert (Hz0 : k < fst zk0).
    { assert (In zk0 (E (Node zl zks zcs))).
      { apply (keys_in_elements _ _ _ _ Fz). cbn [keysOf]. unfold zk0.
        destruct zks; [cbn in C2; lia | now left]. }
      specialize (Bm zk0 ltac:(apply in_or_app; now left)). klia. }
    rewrite <- EQX in HS. split.
    + eapply bounds_A; [now rewrite map_length | exact HS | exact Hbef].
    + eapply bounds_H; [|intros q r Hq; injection Hq as <- _; exact Hz0].
      cbn [map tlf]. rewrite flat_cons. eapply sorted_suffix. eapply sorted_suffix. exact HS.
  - destruct (Nat.ltb 0 i && Nat.ltb (t - 1) (nKeys (nth (i - 1) cs dummy))) eqn:C2.
    + (* RotateUp x (i-1) *)
      apply andb_true_iff in C2 as [C2a C2b]. apply Nat.ltb_lt in C2a, C2b. clear C1.
      destruct i as [|i0]; [lia|]. replace (S i0 - 1)%nat with i0 in * by lia.
      destruct (node_split2 cs ks i0 dummy Lc ltac:(lia))
        as (cs1 & zL & y & cs2 & ks1 & m & ks2 & Ecs & Eks & L1 & L2 & Nz & Ny & Nm & L3).
      rewrite Ny in Ec. rewrite Nz in C2b. subst cs ks.
      assert (F1 : firstn (S i0) (ks1 ++ m :: ks2) = ks1 ++ [m]).
      { replace (ks1 ++ m :: ks2) with ((ks1 ++ [m]) ++ ks2) by (now rewrite <- app_assoc).
        apply firstn_app_i. rewrite app_length. cbn [length]. lia. }
      rewrite F1 in Hbef. rewrite (skipn_S_app_i ks1 ks2 m i0 L2) in Hafter.
      assert (L12 : length cs1 = length ks1) by lia.
      apply Forall_app in Fc as [Fc1 Fc2]. apply Forall_cons_iff in Fc2 as [Fz Fc2].
      apply Forall_cons_iff in Fc2 as [Fy Fc2].
      destruct zL as [zl zks zcs], y as [yl yks ycs]. unfold nKeys in Ec, C2b. cbn [keysOf] in Ec, C2b.
      rewrite <- L2. rewrite rotateUp_explicit by exact L12.
      destruct (rot_up_children t h yl yks ycs zl zks zcs m ltac:(lia) Fy Fz Ec C2b) as (Sy' & Sz' & Ny' & EQ).
      set (z' := Node zl (firstn (length zks - 1) zks) (if zl then [] else firstn (length zks) zcs)) in *.
      set (y' := Node yl (m :: yks) (if yl then [] else nth (length zks) zcs dummy :: ycs)) in *.
      set (zlast := nth (length zks - 1) zks dkv) in *.
      exists (ks1 ++ [zlast]), ks2, (cs1 ++ [z']), y', cs2.
      assert (EN : Node false ((ks1 ++ [zlast]) ++ ks2) ((cs1 ++ [z']) ++ y' :: cs2) =
                   Node false (ks1 ++ zlast :: ks2) (cs1 ++ z' :: y' :: cs2))
        by (rewrite <- !app_assoc; reflexivity).
      rewrite EN.
      split; [rewrite app_length; cbn [length]; rewrite Nat.add_1_r; reflexivity|].
      split; [rewrite !app_length; cbn [length]; lia|]. split; [exact L3|].
      split; [rewrite <- app_assoc; cbn [app]; apply Forall_app; split; [exact Fc1|];
              repeat (constructor; try assumption)|].
      split; [lia|]. split; [rewrite !app_length in *; cbn [length] in *; lia|].
      rewrite !elements_node2 in * by exact L12.
      assert (EQX : flat (map E cs1) ks1 ++ E z' ++ zlast :: E y' ++ tlf (map E cs2) ks2 =
                    flat (map E cs1) ks1 ++ E (Node zl zks zcs) ++ m :: E (Node yl yks ycs) ++ tlf (map E cs2) ks2).
      { f_equal. replace (E z' ++ zlast :: E y' ++ tlf (map E cs2) ks2)
          with ((E z' ++ zlast :: E y') ++ tlf (map E cs2) ks2) by (rewrite <- app_assoc; reflexivity).
        rewrite <- EQ. rewrite <- app_assoc. reflexivity. }
      split; [exact EQX|].
      assert (Hm : fst m < k) by (apply Hbef; apply in_or_app; right; now left).
      destruct (sorted_key_mid _ _ _ _ HS) as [Bm _].
      assert (Hzl : fst zlast < k).
      { assert (In zlast (E (Node zl zks zcs))).
        { apply (keys_in_elements _ _ _ _ Fz). cbn [keysOf]. unfold zlast. apply nth_In. lia. }
        specialize (Bm zlast H). klia. }
      rewrite <- EQX in HS. split.
      * assert (L' : length (map E (cs1 ++ [z'])) = length (ks1 ++ [zlast]))
          by (rewrite map_length, !app_length; cbn [length]; lia).
        eapply (bounds_A _ _ (E y' ++ tlf (map E cs2) ks2) k L').
        -- rewrite map_app. cbn [map]. rewrite flat_snoc_last by (now rewrite map_length).
           rewrite <- !app_assoc. cbn [app]. exact HS.
        -- intros q Hq. apply in_app_iff in Hq as [Hq|[<-|[]]]; [|exact Hzl].
           apply Hbef. apply in_or_app. now left.
      * eapply bounds_H; [|exact Hafter].
        eapply sorted_suffix. eapply sorted_suffix. 
        replace (zlast :: E y' ++ tlf (map E cs2) ks2) with ((zlast :: E y') ++ tlf (map E cs2) ks2) in HS by reflexivity.
        eapply sorted_suffix. exact HS.
    + destruct (Nat.eqb i (length ks)) eqn:C3.
      * (* i = nKeys: UnsplitChild x (i-1) *)
        apply Nat.eqb_eq in C3. destruct i as [|i0]; [lia|]. replace (S i0 - 1)%nat with i0 in * by lia.
        cbn [Nat.ltb Nat.leb andb] in C2. change (Nat.ltb 0 (S i0)) with true in C2. cbn [andb] in C2.
        apply Nat.ltb_ge in C2. clear C1.
        destruct (node_split2 cs ks i0 dummy Lc ltac:(lia))
          as (cs1 & zL & y & cs2 & ks1 & m & ks2 & Ecs & Eks & L1 & L2 & Nz & Ny & Nm & L3).
        rewrite Ny in Ec. rewrite Nz in C2. subst cs ks.
        assert (ks2 = []).
        { rewrite app_length in C3. cbn [length] in C3. destruct ks2; [reflexivity | cbn [length] in C3; lia]. }
        subst ks2. assert (cs2 = []) by (destruct cs2; [reflexivity | discriminate]). subst cs2.
        assert (F1 : firstn (S i0) (ks1 ++ [m]) = ks1 ++ [m]).
        { apply firstn_all2. rewrite app_length. cbn [length]. lia. }
        rewrite F1 in Hbef.
        assert (L12 : length cs1 = length ks1) by lia.
        apply Forall_app in Fc as [Fc1 Fc2]. apply Forall_cons_iff in Fc2 as [Fz Fc2].
        apply Forall_cons_iff in Fc2 as [Fy _].
        pose proof (shape_nKeys _ _ _ _ Fz) as Bz.
        destruct zL as [zl zks zcs], y as [yl yks ycs]. unfold nKeys in Ec, C2, Bz. cbn [keysOf] in Ec, C2, Bz.
        rewrite <- L2. rewrite unsplitChild_explicit by exact L12.
        destruct (merge_children t h zl zks zcs yl yks ycs m ltac:(lia) Fz Fy ltac:(lia) Ec) as (Sm & Nm' & Em).
        set (ym := Node zl (zks ++ m :: firstn (length zks) yks)
                        (if zl then [] else zcs ++ firstn (S (length zks)) ycs)) in *.
        exists ks1, [], cs1, ym, []. split; [reflexivity|]. split; [exact L12|]. split; [reflexivity|].
        split; [apply Forall_app; split; [exact Fc1|]; repeat constructor; exact Sm|].
        split; [lia|]. split; [rewrite !app_length in *; cbn [length] in *; lia|].
        rewrite elements_node1 by exact L12. rewrite elements_node2 in * by exact L12.
        split; [rewrite Em, <- !app_assoc; reflexivity|]. split.
        -- eapply bounds_A; [now rewrite map_length | exact HS |].
           intros q Hq. apply Hbef. apply in_or_app. now left.
        -- intros q [].
      * (* i < nKeys: UnsplitChild x i *)
        apply Nat.eqb_neq in C3. assert (Hi : (i < length ks)%nat) by lia.
        apply Nat.ltb_lt in Hi. rewrite Hi in C1. cbn [andb] in C1. apply Nat.ltb_ge in C1.
        apply Nat.ltb_lt in Hi. clear C2.
        destruct (node_split2 cs ks i dummy Lc Hi)
          as (cs1 & y & z & cs2 & ks1 & m & ks2 & Ecs & Eks & L1 & L2 & Ny & Nz & Nm & L3).
        rewrite Ny in Ec. rewrite Nz in C1. subst cs ks.
        rewrite (firstn_app_i ks1 (m :: ks2) i L2) in Hbef. rewrite (skipn_app_i ks1 (m :: ks2) i L2) in Hafter.
        assert (L12 : length cs1 = length ks1) by lia.
        apply Forall_app in Fc as [Fc1 Fc2]. apply Forall_cons_iff in Fc2 as [Fy Fc2].
        apply Forall_cons_iff in Fc2 as [Fz Fc2].
        pose proof (shape_nKeys _ _ _ _ Fz) as Bz.
        destruct y as [yl yks ycs], z as [zl zks zcs]. unfold nKeys in Ec, C1, Bz. cbn [keysOf] in Ec, C1, Bz.
        rewrite <- L2. rewrite unsplitChild_explicit by exact L12.
        destruct (merge_children t h yl yks ycs zl zks zcs m ltac:(lia) Fy Fz Ec ltac:(lia)) as (Sm & Nm' & Em).
        set (ym := Node yl (yks ++ m :: firstn (length yks) zks)
                        (if yl then [] else ycs ++ firstn (S (length yks)) zcs)) in *.
        exists ks1, ks2, cs1, ym, cs2. split; [reflexivity|]. split; [exact L12|]. split; [exact L3|].
        split; [apply Forall_app; split; [exact Fc1|]; constructor; assumption|].
        split; [lia|]. split; [rewrite !app_length in *; cbn [length] in *; lia|].
        rewrite elements_node1 by exact L12. rewrite elements_node2 in * by exact L12.
        split; [rewrite Em, <- !app_assoc; reflexivity|]. split.
        -- eapply bounds_A; [now rewrite map_length | exact HS | exact Hbef].
        -- assert (Hm : k < fst m) by (apply (Hafter m ks2 eq_refl)).
           destruct (sorted_key_mid _ _ _ _ HS) as [_ Bm].
           intros q Hq. specialize (Bm q ltac:(apply in_or_app; now right)). klia.
Qed.

Lemma perm_snoc {X} (l l' : list X) p : Permutation l (p :: l') -> Permutation l (l' ++ [p]).
Proof. intros P. eapply Permutation_trans; [exact P | apply Permutation_cons_append]. Qed.

Lemma del0_spec : forall h f k lo x,
  (h < f)%nat -> shape t lo h x -> (h <> O -> (1 <= lo)%nat) -> sorted (E x) ->
  exists x' pe, del0 f t x k = Some (x', pe) /\ shape t (lo - 1) h x' /\ sorted (E x') /\
                deleted k pe (E x) (E x').
Proof.
  induction h as [|h IH]; intros f k lo x Hf Hs Hlo HS; (destruct f as [|f]; [lia|]); destruct x as [lf ks cs].
  - (* ---------------- leaf ---------------- *)
    apply shape_leaf' in Hs as (-> & -> & Bk). cbn [del0]. cbv zeta.
    pose proof (lscan_le ks k) as Hle.
    destruct (Nat.ltb (lscan ks k) (length ks) && (k =? fst (nth (lscan ks k) ks dkv))) eqn:EF.
    + apply andb_true_iff in EF as [E1 E2]. apply Nat.ltb_lt in E1. apply Z.eqb_eq in E2.
      set (i := lscan ks k) in *. clearbody i.
      pose proof (split_nth ks i dkv E1) as Eks.
      destruct (nth i ks dkv) as [k0 v]. cbn [fst snd] in *. subst k0.
      eexists. eexists. split; [reflexivity|].
      assert (Ln : length ks = S (length (firstn i ks ++ skipn (S i) ks))).
      { rewrite Eks at 1. rewrite !app_length. cbn [length]. lia. }
      split; [apply shape_leaf; lia|]. cbn [elements] in *. split.
      * rewrite Eks in HS. eapply sorted_remove; exact HS.
      * cbn [deleted]. rewrite Eks at 1. apply Permutation_sym, Permutation_middle.
    + eexists. eexists. split; [reflexivity|]. split; [apply shape_leaf; lia|]. split; [exact HS|].
      cbn [deleted elements] in *. split; [reflexivity|]. now apply lscan_notin.
  - (* ---------------- interior node ---------------- *)
    apply shape_node' in Hs as (-> & Bk & Lc & Fc). specialize (Hlo ltac:(discriminate)).
    cbn [del0]. cbv zeta.
    pose proof (lscan_le ks k) as Hle. pose proof (lscan_before ks k) as Hbef. pose proof (lscan_at ks k) as Hat.
    destruct (Nat.ltb (lscan ks k) (length ks) && (k =? fst (nth (lscan ks k) ks dkv))) eqn:EF.
    + (* ---- k is a key of this node ---- *)
      apply andb_true_iff in EF as [E1 E2]. apply Nat.ltb_lt in E1. apply Z.eqb_eq in E2.
      set (i := lscan ks k) in *. clearbody i. clear Hbef Hat.
      destruct (node_split2 cs ks i dummy Lc E1)
        as (cs1 & y & z & cs2 & ks1 & m & ks2 & Ecs & Eks & L1 & L2 & Ny & Nz & Nm & L3).
      rewrite Ny, Nz, Nm in *. destruct m as [k0 v]. cbn [fst snd] in *. subst k0. subst cs ks.
      assert (L12 : length cs1 = length ks1) by lia.
      apply Forall_app in Fc as [Fc1 Fc2]. apply Forall_cons_iff in Fc2 as [Fy Fc2].
      apply Forall_cons_iff in Fc2 as [Fz Fc2].
      set (A := flat (map E cs1) ks1) in *. set (H := tlf (map E cs2) ks2) in *.
      assert (EX2 : forall a b m', E (Node false (ks1 ++ m' :: ks2) (cs1 ++ a :: b :: cs2)) = A ++ E a ++ m' :: E b ++ H)
        by (intros a b m'; apply elements_node2; exact L12).
      rewrite EX2 in HS.
      assert (HSy : sorted (E y)) by (apply sorted_app in HS as (_ & H2 & _); apply sorted_app in H2; tauto).
      assert (HSz : sorted (E z)).
      { apply sorted_app in HS as (_ & H2 & _). apply sorted_app in H2 as (_ & H2 & _).
        apply sorted_cons in H2 as (_ & H2). apply sorted_app in H2; tauto. }
      rewrite app_length in Bk. cbn [length] in Bk.
      destruct (Nat.ltb (t - 1) (nKeys y)) eqn:Ey.
      * (* replace k by the maximum of branch i *)
        apply Nat.ltb_lt in Ey.
        destruct (searchMax_spec h (t - 1)%nat y f ltac:(lia) Fy ltac:(lia)) as (ox & j & l & Hmax & El).
        rewrite Hmax. set (pm := nth (Z.to_nat j) (keysOf ox) dkv) in *.
        destruct (IH f (fst pm) t y ltac:(lia) (shape_lo _ _ t _ _ Fy ltac:(lia)) ltac:(intros _; lia) HSy)
          as (y' & oe & Hd & Sy' & HSy' & Dy).
        rewrite Hd.
        destruct (deleted_present _ _ _ _ Dy) as (w & ->).
        { rewrite El, map_app, in_app_iff. right. now left. }
        cbn [entry_or0 deleted] in *.
        rewrite (setnth_app_i ks1 ks2 (k, v) (fst pm, w) i L2), (setnth_app_i cs1 (z :: cs2) y y' i L1).
        eexists. eexists. split; [reflexivity|]. split; [|rewrite !EX2; split].
        -- apply shape_node. rewrite !app_length. cbn [length]. split; [lia|]. split; [lia|].
           apply Forall_app. split; [exact Fc1|]. repeat (constructor; try assumption).
        -- assert (S1 : sorted (A ++ E y ++ (E z ++ H))).
           { rewrite app_assoc. rewrite app_assoc in HS. eapply sorted_remove. exact HS. }
           assert (S2 : sorted (A ++ (E y' ++ [(fst pm, w)]) ++ (E z ++ H))).
           { eapply sorted_perm_mid; [exact S1 | apply perm_snoc; exact Dy |].
             apply sorted_app. split; [exact HSy'|]. split; [cbn; auto|].
             intros a b Ha [<-|[]]. cbn [fst].
             assert (Ha' : In a (E y)) by (eapply Permutation_in; [apply Permutation_sym; exact Dy | now right]).
             rewrite El in HSy, Ha'. exact (sorted_last_max _ _ HSy a Ha'). }
           rewrite <- !app_assoc in S2. exact S2.
        -- cbn [deleted]. eapply Permutation_trans.
           { rewrite app_assoc. apply Permutation_sym. apply Permutation_middle. }
           apply perm_skip. rewrite <- app_assoc. apply Permutation_app_head.
           eapply Permutation_trans; [apply Permutation_app_tail; exact Dy|].
           cbn [app]. apply Permutation_middle.
      * destruct (Nat.ltb (t - 1) (nKeys z)) eqn:Ez.
        -- (* replace k by the minimum of branch i+1 *)
           apply Nat.ltb_lt in Ez.
           destruct (searchMin_spec h (t - 1)%nat z f ltac:(lia) Fz ltac:(lia)) as (ox & j & l & Hmin & El).
           rewrite Hmin. set (pm := nth (Z.to_nat j) (keysOf ox) dkv) in *.
           destruct (IH f (fst pm) t z ltac:(lia) (shape_lo _ _ t _ _ Fz ltac:(lia)) ltac:(intros _; lia) HSz)
             as (z' & oe & Hd & Sz' & HSz' & Dz).
           rewrite Hd.
           destruct (deleted_present _ _ _ _ Dz) as (w & ->).
           { rewrite El. now left. }
           cbn [entry_or0 deleted] in *.
           rewrite (setnth_app_i ks1 ks2 (k, v) (fst pm, w) i L2), (setnth_S_app_i cs1 cs2 y z z' i L1).
           eexists. eexists. split; [reflexivity|]. split; [|rewrite !EX2; split].
           ++ apply shape_node. rewrite !app_length. cbn [length]. split; [lia|]. split; [lia|].
              apply Forall_app. split; [exact Fc1|]. repeat (constructor; try assumption).
           ++ assert (S1 : sorted ((A ++ E y) ++ E z ++ H)).
              { rewrite app_assoc in HS. eapply sorted_remove. exact HS. }
              assert (S2 : sorted ((A ++ E y) ++ ((fst pm, w) :: E z') ++ H)).
              { eapply sorted_perm_mid; [exact S1 | exact Dz |].
                apply sorted_cons. split; [|exact HSz']. intros b Hb. cbn [fst].
                assert (Hb' : In b (E z)) by (eapply Permutation_in; [apply Permutation_sym; exact Dz | now right]).
                rewrite El in HSz, Hb'. apply sorted_cons in HSz as [HSz _].
                destruct Hb' as [<-|Hb']; [lia | auto]. }
              rewrite <- app_assoc in S2. exact S2.
           ++ cbn [deleted]. eapply Permutation_trans.
              { rewrite app_assoc. apply Permutation_sym. apply Permutation_middle. }
              apply perm_skip. rewrite <- app_assoc. apply Permutation_app_head, Permutation_app_head.
              change ((fst pm, w) :: E z' ++ H) with (((fst pm, w) :: E z') ++ H).
              apply Permutation_app_tail. exact Dz.
        -- (* merge the two branches around k and delete k from the merged branch *)
           apply Nat.ltb_ge in Ey, Ez.
           pose proof (shape_nKeys _ _ _ _ Fy) as By. pose proof (shape_nKeys _ _ _ _ Fz) as Bz.
           destruct y as [yl yks ycs], z as [zl zks zcs]. unfold nKeys in *. cbn [keysOf] in *.
           replace i with (length ks1) by exact L2.
           rewrite unsplitChild_explicit by exact L12.
           cbn [kidsOf].
           match goal with |- context [nth _ (cs1 ++ ?c :: cs2) dummy] => set (ym := c) in * end.
           destruct (merge_children t h yl yks ycs zl zks zcs (k, v) ltac:(lia) Fy Fz ltac:(lia) ltac:(lia))
             as (Sm & Nm' & Em). fold ym in Sm, Nm', Em. rewrite (nth_app_i cs1 cs2 ym dummy (length ks1) L12).
           assert (HSm : sorted (E ym)).
           { rewrite Em. apply (sorted_mid A _ H). rewrite <- app_assoc. cbn [app]. exact HS. }
           destruct (IH f k t ym ltac:(lia) (shape_lo _ _ t _ _ Sm ltac:(lia)) ltac:(intros _; lia) HSm)
             as (c' & pe' & Hd & Sc' & HSc' & Dc).
           rewrite Hd.
           destruct (deleted_present _ _ _ _ Dc) as (w & ->).
           { rewrite Em, map_app, in_app_iff. right. now left. }
           unfold setKid. rewrite (setnth_app_i cs1 cs2 ym c' (length ks1) L12).
           eexists. eexists. split; [reflexivity|].
           assert (EXm : forall c0, E (Node false (ks1 ++ ks2) (cs1 ++ c0 :: cs2)) = A ++ E c0 ++ H)
             by (intros c0; apply elements_node1; exact L12).
           assert (HS' : sorted (A ++ E ym ++ H)).
           { rewrite Em, <- app_assoc. cbn [app]. exact HS. }
           split; [|rewrite EXm; split].
           ++ apply shape_node. rewrite !app_length in *. cbn [length] in *. split; [lia|]. split; [lia|].
              apply Forall_app. split; [exact Fc1|]. constructor; assumption.
           ++ eapply sorted_del_ctx; eauto.
           ++ match goal with |- deleted _ _ ?old _ =>
                replace old with (A ++ E ym ++ H) by (rewrite EX2, Em, <- !app_assoc; reflexivity) end.
              now apply deleted_ctx_some.
    + (* ---- k is not a key of this node: descend ---- *)
      set (i := lscan ks k) in *.
      assert (Hafter : forall q r, skipn i ks = q :: r -> k < fst q).
      { intros q r Hq. assert (Hi : (i < length ks)%nat).
        { destruct (Nat.lt_ge_cases i (length ks)) as [?|G]; [assumption|].
          rewrite skipn_all2 in Hq by exact G. discriminate. }
        specialize (Hat Hi). assert (Nq : nth i ks dkv = q).
        { rewrite <- (firstn_skipn i ks) at 1. rewrite Hq.
          apply nth_app_i. rewrite firstn_length. lia. }
        rewrite Nq in *. apply Nat.ltb_lt in Hi. rewrite Hi in EF. cbn [andb] in EF.
        apply Z.eqb_neq in EF. klia. }
      clearbody i. clear Hat EF.
      (* the descent, once the node has been brought into the form  ks1++ks2 / cs1++c::cs2 *)
      pose proof (descend_step h f k (fun lo x => IH f k lo x ltac:(lia))) as DS.
      destruct (prepare_descent h lo ks cs k i Hlo Bk Lc Fc HS Hle Hbef Hafter)
        as (ks1 & ks2 & cs1 & c1 & cs2 & EQ & L1 & L2 & Fc' & Hn & Bk' & EE & BA & BH).
      rewrite EQ. cbn [fst snd kidsOf]. rewrite (nth_app_i cs1 cs2 c1 dummy (length ks1) L1).
      rewrite <- EE in HS.
      destruct (DS ks1 ks2 cs1 c1 cs2 (lo - 1)%nat L1 L2 Fc' Hn Bk' HS BA BH) as (c' & pe & Hd & Sx' & HSx' & Dx).
      rewrite Hd. unfold setKid. rewrite (setnth_app_i cs1 cs2 c1 c' (length ks1) L1).
      eexists. eexists. split; [reflexivity|]. rewrite <- EE. auto.
Qed.


Theorem delete_refines x k :
  wfb t x ->
  exists x' pe, btreeDelete t x k = Some (x', pe) /\ wfb t x' /\ deleted k pe (E x) (E x').
Proof.
  intros (h & Hs & HS). unfold btreeDelete. rewrite (shape_height _ _ _ _ Hs).
  destruct (del0_spec h (S h) k (root_lo h) x ltac:(lia) Hs ltac:(destruct h; [congruence | cbn; lia]) HS)
    as (x0 & pe & Hd & S0 & HS0 & D0).
  rewrite Hd. destruct h as [|h].
  - (* the root is a leaf *)
    rewrite (shape_isLeaf _ _ _ _ S0). rewrite andb_false_r.
    eexists. eexists. split; [reflexivity|]. split; [|exact D0]. exists O. split; [exact S0 | exact HS0].
  - rewrite (shape_isLeaf _ _ _ _ S0). cbn [negb]. rewrite andb_true_r.
    destruct (Nat.eqb (nKeys x0) 0) eqn:E0.
    + (* the root lost its last key: its only branch becomes the root *)
      apply Nat.eqb_eq in E0. destruct x0 as [l0 ks0 cs0]. apply shape_node' in S0 as (-> & _ & Lc & Fc).
      unfold nKeys in E0. cbn [keysOf] in E0. destruct ks0; [|discriminate].
      destruct cs0 as [|c [|c2 cs']]; try discriminate. apply Forall_cons_iff in Fc as [Fc _].
      cbn [kidsOf nth]. eexists. eexists. split; [reflexivity|].
      assert (EE : E (Node false [] [c]) = E c) by (rewrite elements_nonleaf; reflexivity).
      rewrite EE in *. split; [|exact D0]. exists h. split; [|exact HS0].
      pose proof (shape_nKeys _ _ _ _ Fc) as Bc. eapply shape_lo; [exact Fc|]. destruct h; cbn [root_lo]; lia.
    + apply Nat.eqb_neq in E0. eexists. eexists. split; [reflexivity|]. split; [|exact D0].
      exists (S h). split; [|exact HS0]. eapply shape_lo; [exact S0 | cbn [root_lo]; lia].
Qed.

(* a present key: one occurrence (k, v) is removed and v is what *pe receives; an absent key: unchanged *)
Corollary delete_present x k :
  wfb t x -> In k (map fst (E x)) ->
  exists x' v, btreeDelete t x k = Some (x', Some v) /\ wfb t x' /\ Permutation (E x) ((k, v) :: E x').
Proof.
  intros W Hin. destruct (delete_refines x k W) as (x' & pe & Hd & W' & D).
  destruct (deleted_present _ _ _ _ D Hin) as (v & ->). exists x', v. auto.
Qed.

Corollary delete_absent x k :
  wfb t x -> ~ In k (map fst (E x)) ->
  exists x', btreeDelete t x k = Some (x', None) /\ wfb t x' /\ E x' = E x.
Proof.
  intros W Hnin. destruct (delete_refines x k W) as (x' & pe & Hd & W' & D).
  destruct pe as [v|]; cbn [deleted] in D.
  - exfalso. apply Hnin. apply in_map_iff. exists (k, v). split; [reflexivity|].
    eapply Permutation_in; [apply Permutation_sym; exact D | now left].
  - exists x'. destruct D as [D _]. auto.
Qed.

End Del.

(* ------------------------------------------------------------------ distinct keys: the list-level statement *)
Lemma sorted_perm_unique l l' :
  sorted l -> sorted l' -> Permutation l l' -> NoDup (map fst l) -> l = l'.
Proof.
  revert l'. induction l as [|a r IH]; intros l' HS HS' P ND.
  - apply Permutation_nil in P. now subst.
  - destruct l' as [|b r']; [apply Permutation_sym, Permutation_nil in P; discriminate|].
    apply sorted_cons in HS as [Ha HSr]. apply sorted_cons in HS' as [Hb HSr'].
    assert (Hba : In b (a :: r)) by (eapply Permutation_in; [apply Permutation_sym; exact P | now left]).
    assert (Hab : In a (b :: r')) by (eapply Permutation_in; [exact P | now left]).
    assert (a = b).
    { destruct Hba as [->|Hba]; [reflexivity|]. destruct Hab as [->|Hab]; [reflexivity|].
      specialize (Ha b Hba). specialize (Hb a Hab). assert (Ef : fst a = fst b) by klia.
      cbn [map] in ND. inversion ND as [|? ? N1 N2]; subst. exfalso. apply N1. rewrite Ef.
      now apply in_map. }
    subst b. f_equal. apply IH; auto.
    + eapply Permutation_cons_inv. exact P.
    + cbn [map] in ND. now inversion ND.
Qed.

Theorem delete_distinct t x k :
  (2 <= t)%nat -> wfb t x -> NoDup (map fst (E x)) ->
  exists x' pe, btreeDelete t x k = Some (x', pe) /\ wfb t x' /\
                E x' = filter (fun p => negb (fst p =? k)) (E x) /\
                pe = option_map snd (find (fun p => fst p =? k) (E x)).
Proof.
  intros Ht W ND. destruct (delete_refines t Ht x k W) as (x' & pe & Hd & W' & D).
  exists x', pe. split; [exact Hd|]. split; [exact W'|].
  destruct W as (h & _ & HS). destruct W' as (h' & _ & HS').
  assert (FN : forall l, ~ In k (map fst l) -> filter (fun p => negb (fst p =? k)) l = l /\
                                               find (fun p : kv => fst p =? k) l = None).
  { unfold kv, key, entry in *. induction l as [|p r IHl]; intros Hn; [split; reflexivity|]. cbn [map] in Hn. cbn [filter find].
    destruct (fst p =? k) eqn:Ep; [apply Z.eqb_eq in Ep; exfalso; apply Hn; now left|].
    cbn [negb]. destruct IHl as [I1 I2]; [intros Hr; apply Hn; now right|]. rewrite I1. split; [reflexivity | exact I2]. }
  destruct pe as [v|]; cbn [deleted] in D.
  - assert (Hin : In (k, v) (E x)) by (eapply Permutation_in; [apply Permutation_sym; exact D | now left]).
    apply in_split in Hin as (l1 & l2 & EQ). rewrite EQ in *.
    assert (P' : Permutation (l1 ++ l2) (E x')).
    { eapply Permutation_cons_inv. eapply Permutation_trans; [apply Permutation_middle | exact D]. }
    assert (ND' : NoDup (map fst (l1 ++ l2))).
    { rewrite map_app in *. cbn [map] in ND. eapply NoDup_remove_1. exact ND. }
    assert (N1 : ~ In k (map fst l1) /\ ~ In k (map fst l2)).
    { rewrite map_app in ND. cbn [map fst] in ND. apply NoDup_remove_2 in ND.
      rewrite in_app_iff in ND. tauto. }
    rewrite <- (sorted_perm_unique _ _ (sorted_remove _ _ _ HS) HS' P' ND').
    rewrite filter_app. cbn [filter fst]. rewrite Z.eqb_refl. cbn [negb].
    destruct (FN l1 (proj1 N1)) as [F1 G1]. destruct (FN l2 (proj2 N1)) as [F2 G2].
    unfold kv, key, entry in *. rewrite F1, F2. split; [reflexivity|].
    clear - G1. induction l1 as [|p r IHr]; cbn [app find fst]; [now rewrite Z.eqb_refl|].
    cbn [find] in G1. destruct (fst p =? k); [discriminate | auto].
  - destruct D as [-> Hn]. destruct (FN _ Hn) as [F1 G1]. unfold kv, key, entry in *. now rewrite F1, G1.
Qed.
