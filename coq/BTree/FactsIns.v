(* Proofs about the model of btree.c, part 2: btreeInsertX. *)
Require Import ZArith List Bool Lia Permutation Arith ZifyBool.
Require Import AV.BTree.Model AV.BTree.Facts.
Import ListNotations.
Local Open Scope Z_scope.

Notation E := elements.

(* ------------------------------------------------------------------ well-formed trees *)
(* root: any number of keys <= 2t-1 (at least one when it is not a leaf); other nodes t-1 .. 2t-1 keys;
   a non-leaf with n keys has n+1 branches; all leaves at the same depth; in-order contents sorted. *)
Definition root_lo (h : nat) : nat := match h with O => O | S _ => 1%nat end.
Definition wfb (t : nat) (x : bt) : Prop := exists h, shape t (root_lo h) h x /\ sorted (E x).

(* ------------------------------------------------------------------ position facts from sortedness *)
Lemma flat_snoc_last es ks e k :
  length es = length ks -> flat (es ++ [e]) (ks ++ [k]) = flat es ks ++ e ++ [k].
Proof. intros H. rewrite flat_app by exact H. cbn. reflexivity. Qed.

Lemma flat_le_last es ks :
  length es = length ks -> sorted (flat es ks) -> forall p, In p (flat es ks) -> fst p <= fst (last ks dkv).
Proof.
  intros HL HS p Hp. destruct (snoc_cases ks) as [->|(ks' & kl & ->)].
  - destruct es; [destruct Hp | discriminate].
  - destruct (snoc_cases es) as [->|(es' & el & ->)]; [rewrite app_length in HL; cbn in HL; klia|].
    rewrite !app_length in HL. cbn [length] in HL.
    rewrite flat_snoc_last in * by klia. rewrite last_snoc.
    rewrite app_assoc in HS, Hp. apply (sorted_last_max _ _ HS). exact Hp.
Qed.

Lemma tlf_ge_head es ks : sorted (tlf es ks) -> forall p, In p (tlf es ks) -> fst (hd dkv ks) <= fst p.
Proof.
  destruct ks as [|k ks']; cbn [tlf hd]; intros HS p Hp; [destruct Hp|].
  apply sorted_cons in HS as [H _]. destruct Hp as [<-|Hp]; [klia | auto].
Qed.

Lemma node_split1' (cs : list bt) (ks : list kv) i :
  length cs = S (length ks) -> (i <= length ks)%nat ->
  exists cs1 c cs2,
    cs = cs1 ++ c :: cs2 /\ ks = firstn i ks ++ skipn i ks /\ length cs1 = i /\ length (firstn i ks) = i /\
    nth i cs dummy = c /\ length cs2 = length (skipn i ks).
Proof.
  intros HL Hi. exists (firstn i cs), (nth i cs dummy), (skipn (S i) cs).
  assert (L1 : length (firstn i cs) = i) by (rewrite firstn_length; klia).
  assert (L2 : length (firstn i ks) = i) by (rewrite firstn_length; klia).
  repeat split; auto.
  - apply split_nth. klia.
  - symmetry. apply firstn_skipn.
  - rewrite !skipn_length. klia.
Qed.

(* ------------------------------------------------------------------ rscan *)
Lemma rscan_cons p r k :
  rscan (p :: r) k = if Nat.eqb (rscan r k) 0 && (k <? fst p) then O else S (rscan r k).
Proof. reflexivity. Qed.

Lemma rscan_le ks k : (rscan ks k <= length ks)%nat.
Proof.
  induction ks as [|p r IH]; [apply Nat.le_0_l|]. rewrite rscan_cons. cbn [length].
  destruct (Nat.eqb (rscan r k) 0 && (k <? fst p)); klia.
Qed.

Lemma rscan_after ks k : Forall (fun q => k < fst q) (skipn (rscan ks k) ks).
Proof.
  induction ks as [|p r IH]; [constructor|]. rewrite rscan_cons.
  destruct (Nat.eqb (rscan r k) 0) eqn:E0; cbn [andb].
  - apply Nat.eqb_eq in E0. rewrite E0 in IH. cbn [skipn] in IH.
    destruct (k <? fst p) eqn:E1.
    + cbn [skipn]. apply Z.ltb_lt in E1. constructor; [exact E1 | exact IH].
    + cbn [skipn]. rewrite E0. cbn [skipn]. exact IH.
  - cbn [skipn]. exact IH.
Qed.

Lemma rscan_before ks k :
  rscan ks k = O \/ fst (last (firstn (rscan ks k) ks) dkv) <= k.
Proof.
  induction ks as [|p r IH]; [now left|]. rewrite rscan_cons.
  destruct (Nat.eqb (rscan r k) 0) eqn:E0; cbn [andb].
  - destruct (k <? fst p) eqn:E1; [now left|]. right. apply Nat.eqb_eq in E0. rewrite E0.
    apply Z.ltb_ge in E1. cbn [firstn last]. exact E1.
  - right. apply Nat.eqb_neq in E0. destruct IH as [IH|IH]; [contradiction|].
    cbn [firstn]. destruct (firstn (rscan r k) r) eqn:EF.
    + exfalso. destruct r as [|q r']; [now apply E0|].
      destruct (rscan (q :: r') k) eqn:ER; [now apply E0 | discriminate EF].
    + exact IH.
Qed.

Lemma sorted_insert_mid l1 l2 k e :
  sorted (l1 ++ l2) -> (forall p, In p l1 -> fst p <= k) -> (forall p, In p l2 -> k <= fst p) ->
  sorted (l1 ++ (k, e) :: l2).
Proof.
  rewrite !sorted_app, sorted_cons. intros (H1 & H2 & H3) B1 B2. repeat split; auto.
  intros x y Hx [<-|Hy]; cbn [fst]; auto.
Qed.

(* what an insertion does to the in-order contents *)
Definition inserted (k : key) (e : entry) (old new : list kv) : Prop :=
  exists l1 l2, old = l1 ++ l2 /\ new = l1 ++ (k, e) :: l2 /\
                (forall p, In p l1 -> fst p <= k) /\ (forall p, In p l2 -> k <= fst p).

Lemma inserted_ctx k e A B old new :
  inserted k e old new -> (forall p, In p A -> fst p <= k) -> (forall p, In p B -> k <= fst p) ->
  inserted k e (A ++ old ++ B) (A ++ new ++ B).
Proof.
  intros (l1 & l2 & -> & -> & B1 & B2) HA HB. exists (A ++ l1), (l2 ++ B).
  repeat split.
  - now rewrite <- !app_assoc.
  - rewrite <- !app_assoc. reflexivity.
  - intros p Hp. apply in_app_iff in Hp as [Hp|Hp]; auto.
  - intros p Hp. apply in_app_iff in Hp as [Hp|Hp]; auto.
Qed.

Lemma setnth_S_app_i {A} (l1 l2 : list A) a b v i :
  length l1 = i -> setnth (l1 ++ a :: b :: l2) (S i) v = l1 ++ a :: v :: l2.
Proof.
  intros <-. unfold setnth.
  replace (l1 ++ a :: b :: l2) with ((l1 ++ [a]) ++ b :: l2) by (now rewrite <- app_assoc).
  replace (S (length l1)) with (length (l1 ++ [a])) by (rewrite app_length; cbn; klia).
  rewrite firstn_app_exact, skipn_S_app_exact. now rewrite <- app_assoc.
Qed.

Section Ins.
Variable t : nat.
Hypothesis Ht : (2 <= t)%nat.
Variable k : key.
Variable e : entry.

Lemma ins_loop_spec : forall h lo x f,
  (h < f)%nat -> shape t lo h x -> (nKeys x < 2 * t - 1)%nat -> sorted (E x) ->
  exists x', ins_loop f t x k e = Some x' /\ shape t lo h x' /\ inserted k e (E x) (E x').
Proof.
  induction h as [|h IH]; intros lo x f Hf Hs Hn HS; (destruct f as [|f]; [klia|]).
  - (* leaf *)
    destruct x as [l ks cs]. apply shape_leaf' in Hs as (-> & -> & Bk). unfold nKeys in Hn. cbn [keysOf] in Hn.
    cbn [ins_loop]. eexists. split; [reflexivity|]. unfold leaf_insert.
    pose proof (rscan_le ks k) as Hle. pose proof (rscan_after ks k) as Haft.
    pose proof (rscan_before ks k) as Hbef.
    set (p := rscan ks k) in *.
    assert (Eks : ks = firstn p ks ++ skipn p ks) by (symmetry; apply firstn_skipn).
    split.
    + apply shape_leaf. rewrite app_length. cbn [length]. rewrite firstn_length, skipn_length. klia.
    + cbn [elements]. exists (firstn p ks), (skipn p ks). repeat split; auto.
      * intros q Hq. destruct Hbef as [H0|Hb].
        { rewrite H0 in Hq. destruct Hq. }
        cbn [elements] in HS. rewrite Eks in HS. apply sorted_app in HS as (HS1 & _).
        destruct (snoc_cases (firstn p ks)) as [E0|(l' & a & E1)]; [rewrite E0 in Hq; destruct Hq|].
        rewrite E1 in *. rewrite last_snoc in Hb.
        pose proof (sorted_last_max _ _ HS1 q Hq). klia.
      * intros q Hq. rewrite Forall_forall in Haft. specialize (Haft q Hq). cbn beta in Haft. klia.
  - (* interior node *)
    destruct x as [l ks cs]. apply shape_node' in Hs as (-> & Bk & Lc & Fc).
    unfold nKeys in Hn. cbn [keysOf] in Hn. cbn [ins_loop].
    pose proof (rscan_le ks k) as Hle. pose proof (rscan_after ks k) as Haft.
    pose proof (rscan_before ks k) as Hbef.
    set (i := rscan ks k) in *.
    destruct (node_split1' cs ks i Lc Hle) as (cs1 & c & cs2 & Ecs & Eks & L1 & L2 & Nc & L3).
    set (ks1 := firstn i ks) in *. set (ks2 := skipn i ks) in *.
    rewrite Nc. clearbody ks1 ks2. subst cs. subst ks.
    assert (L12 : length cs1 = length ks1) by klia.
    apply Forall_app in Fc as [Fc1 Fc2]. apply Forall_cons_iff in Fc2 as [Fcc Fc2].
    (* contents and bounds around branch i *)
    set (A := flat (map E cs1) ks1). set (H := tlf (map E cs2) ks2).
    assert (EX : forall c0, E (Node false (ks1 ++ ks2) (cs1 ++ c0 :: cs2)) = A ++ E c0 ++ H)
      by (intros c0; apply elements_node1; exact L12).
    rewrite EX in HS.
    assert (HSA : sorted A) by (apply sorted_app in HS; tauto).
    assert (HSH : sorted H) by (apply sorted_app in HS as (_ & HS2 & _); apply sorted_app in HS2; tauto).
    assert (BA : forall q, In q A -> fst q <= k).
    { intros q Hq. destruct Hbef as [H0|Hb].
      - assert (ks1 = []) by (destruct ks1; [reflexivity | cbn [length] in L2; klia]). subst ks1.
        destruct cs1; [destruct Hq | cbn [length] in L12; discriminate].
      - pose proof (flat_le_last (map E cs1) ks1 ltac:(now rewrite map_length) HSA q Hq). klia. }
    assert (BH : forall q, In q H -> k <= fst q).
    { intros q Hq. pose proof (tlf_ge_head _ _ HSH q Hq) as Hh. unfold H in Hq.
      destruct ks2 as [|kh ks2']; [destruct Hq|]. apply Forall_cons_iff in Haft as [Hk _]. cbn [hd] in Hh. klia. }
    assert (HSc : sorted (E c)) by (apply sorted_app in HS as (_ & HS2 & _); apply sorted_app in HS2; tauto).
    destruct (Nat.eqb (nKeys c) (2 * t - 1)) eqn:Efull.
    + (* full child: split first *)
      apply Nat.eqb_eq in Efull. destruct c as [yl yks ycs]. unfold nKeys in Efull. cbn [keysOf] in Efull.
      replace i with (length ks1) by exact L2.
      rewrite splitChild_explicit by exact L12.
      destruct (split_full_child t h yl yks ycs ltac:(lia) Fcc Efull) as (Sy & Sz & Ny & Nz & Ey).
      set (y' := Node yl (firstn (t - 1) yks) (if yl then [] else firstn t ycs)) in *.
      set (z := Node yl (firstn (t - 1) (skipn t yks)) (if yl then [] else firstn t (skipn t ycs))) in *.
      set (m := nth (t - 1) yks dkv) in *.
      cbn [keysOf kidsOf]. rewrite (nth_app_i ks1 ks2 m dkv (length ks1) eq_refl).
      rewrite Ey in HS, HSc.
      assert (Bym : forall q, In q (E y') -> fst q <= fst m).
      { apply sorted_app in HSc as (_ & _ & Hc). intros q Hq. apply Hc; [exact Hq | now left]. }
      assert (Bmz : forall q, In q (E z) -> fst m <= fst q).
      { apply sorted_app in HSc as (_ & Hc & _). apply sorted_cons in Hc as [Hc _]. exact Hc. }
      assert (HSy : sorted (E y')) by (apply sorted_app in HSc; tauto).
      assert (HSz : sorted (E z)).
      { apply sorted_app in HSc as (_ & Hc & _). now apply sorted_cons in Hc. }
      assert (EX2 : forall a b, E (Node false (ks1 ++ m :: ks2) (cs1 ++ a :: b :: cs2)) = A ++ E a ++ m :: E b ++ H)
        by (intros a b; apply elements_node2; exact L12).
      destruct (k >? fst m) eqn:Ekm.
      * (* descend into z at i+1 *)
        rewrite (nth_S_app_i cs1 cs2 y' z dummy (length ks1) L12).
        destruct (IH (t - 1)%nat z f ltac:(lia) Sz ltac:(lia) HSz) as (z' & Hz' & Sz' & Iz).
        rewrite Hz'. eexists. split; [reflexivity|]. unfold setKid.
        rewrite (setnth_S_app_i cs1 cs2 y' z z' (length ks1) L12). split.
        -- apply shape_node. rewrite app_length in *. cbn [length] in *.
           split; [klia|]. split; [rewrite app_length; cbn [length]; klia|].
           apply Forall_app. split; [exact Fc1|]. repeat constructor; assumption.
        -- rewrite EX, EX2, Ey.
           replace (A ++ (E y' ++ m :: E z) ++ H) with ((A ++ E y' ++ [m]) ++ E z ++ H)
             by (rewrite <- !app_assoc; reflexivity).
           replace (A ++ E y' ++ m :: E z' ++ H) with ((A ++ E y' ++ [m]) ++ E z' ++ H)
             by (rewrite <- !app_assoc; reflexivity).
           apply inserted_ctx; [exact Iz | | exact BH].
           intros q Hq. apply in_app_iff in Hq as [Hq|Hq]; [auto|].
           apply in_app_iff in Hq as [Hq|[<-|[]]]; [specialize (Bym q Hq); klia | klia].
      * (* descend into y' at i *)
        rewrite (nth_app_i cs1 (z :: cs2) y' dummy (length ks1) L12).
        destruct (IH (t - 1)%nat y' f ltac:(lia) Sy ltac:(lia) HSy) as (y'' & Hy' & Sy' & Iy).
        rewrite Hy'. eexists. split; [reflexivity|]. unfold setKid.
        rewrite (setnth_app_i cs1 (z :: cs2) y' y'' (length ks1) L12). split.
        -- apply shape_node. rewrite app_length in *. cbn [length] in *.
           split; [klia|]. split; [rewrite app_length; cbn [length]; klia|].
           apply Forall_app. split; [exact Fc1|]. repeat constructor; assumption.
        -- rewrite EX, EX2, Ey.
           replace (A ++ (E y' ++ m :: E z) ++ H) with (A ++ E y' ++ (m :: E z ++ H))
             by (rewrite <- !app_assoc; reflexivity).
           replace (A ++ E y'' ++ m :: E z ++ H) with (A ++ E y'' ++ (m :: E z ++ H)) by reflexivity.
           apply inserted_ctx; [exact Iy | exact BA |].
           intros q [<-|Hq]; [klia|]. apply in_app_iff in Hq as [Hq|Hq]; [specialize (Bmz q Hq); klia | auto].
    + (* child has room *)
      apply Nat.eqb_neq in Efull.
      pose proof (shape_nKeys _ _ _ _ Fcc) as Bc.
      destruct (IH (t - 1)%nat c f ltac:(lia) Fcc ltac:(lia) HSc) as (c' & Hc' & Sc' & Ic).
      rewrite Hc'. eexists. split; [reflexivity|]. unfold setKid.
      rewrite (setnth_app_i cs1 cs2 c c' i L1). split.
      * apply shape_node. split; [exact Bk|]. split; [rewrite app_length in *; cbn [length] in *; klia|].
        apply Forall_app. split; [exact Fc1|]. constructor; assumption.
      * rewrite !EX. apply inserted_ctx; assumption.
Qed.

Theorem insert_refines x :
  wfb t x ->
  exists x', btreeInsert t x k e = Some x' /\ wfb t x' /\ inserted k e (E x) (E x').
Proof.
  intros (h & Hs & HS). unfold btreeInsert.
  destruct (Nat.eqb (nKeys x) (2 * t - 1)) eqn:Efull.
  - apply Nat.eqb_eq in Efull. destruct x as [yl yks ycs]. unfold nKeys in Efull. cbn [keysOf] in Efull.
    assert (Hs' : shape t (t - 1) h (Node yl yks ycs)) by (eapply shape_lo; [exact Hs | unfold nKeys; cbn [keysOf]; klia]).
    pose proof (splitChild_explicit t false [] [] [] yl yks ycs [] eq_refl) as EQ.
    cbn [app length] in EQ. rewrite EQ. clear EQ.
    destruct (split_full_child t h yl yks ycs ltac:(lia) Hs' Efull) as (Sy & Sz & Ny & Nz & Ey).
    set (y' := Node yl (firstn (t - 1) yks) (if yl then [] else firstn t ycs)) in *.
    set (z := Node yl (firstn (t - 1) (skipn t yks)) (if yl then [] else firstn t (skipn t ycs))) in *.
    set (m := nth (t - 1) yks dkv) in *.
    assert (S1 : shape t 1 (S h) (Node false [m] [y'; z])).
    { apply shape_node. cbn [length]. split; [klia|]. split; [reflexivity|]. repeat constructor; assumption. }
    assert (E1 : E (Node false [m] [y'; z]) = E (Node yl yks ycs)).
    { rewrite Ey. rewrite elements_nonleaf. cbn [map flat]. reflexivity. }
    rewrite (shape_height _ _ _ _ S1).
    destruct (ins_loop_spec (S h) 1%nat (Node false [m] [y'; z]) (S (S h)) ltac:(lia) S1) as (x' & Hx' & Sx' & Ix).
    { unfold nKeys. cbn [keysOf length]. klia. }
    { rewrite E1. exact HS. }
    exists x'. split; [exact Hx'|]. rewrite E1 in Ix. split; [|exact Ix].
    exists (S h). split; [exact Sx'|].
    destruct Ix as (l1 & l2 & E0 & -> & B1 & B2). apply sorted_insert_mid; auto. now rewrite <- E0.
  - apply Nat.eqb_neq in Efull. pose proof (shape_nKeys _ _ _ _ Hs) as Bx.
    rewrite (shape_height _ _ _ _ Hs).
    destruct (ins_loop_spec h (root_lo h) x (S h) ltac:(lia) Hs ltac:(lia) HS) as (x' & Hx' & Sx' & Ix).
    exists x'. split; [exact Hx'|]. split; [|exact Ix].
    exists h. split; [exact Sx'|].
    destruct Ix as (l1 & l2 & E0 & -> & B1 & B2). apply sorted_insert_mid; auto. now rewrite <- E0.
Qed.

End Ins.
