Require Import ExtrOcamlBasic.
Require Import AV.BTree.Model.
Extraction "BTree/extracted/btree_model.ml"
  btreeNew btreeInsert btreeDelete btreeSearchEQ btreeSearchGE btreeSearchMin btreeSearchMax
  btreeCheck elements nmap nmap_fun height.
