(* Driver for the extracted model of btree.c: one operation per line on stdin, one result per line.
   Only I/O conversions (decimal text <-> the extracted Z / nat) are done here. *)
open Btree_model

let rec pos_of_int64 (n : int64) : positive =
  if Int64.equal n 1L then XH
  else if Int64.equal (Int64.logand n 1L) 0L then XO (pos_of_int64 (Int64.shift_right_logical n 1))
  else XI (pos_of_int64 (Int64.shift_right_logical n 1))

let z_of_int64 (n : int64) : z =
  if Int64.equal n 0L then Z0
  else if Int64.compare n 0L > 0 then Zpos (pos_of_int64 n)
  else Zneg (pos_of_int64 (Int64.neg n))

let rec int64_of_pos (p : positive) : int64 =
  match p with
  | XH -> 1L
  | XO q -> Int64.shift_left (int64_of_pos q) 1
  | XI q -> Int64.logor (Int64.shift_left (int64_of_pos q) 1) 1L

let str_of_z (x : z) : string =
  match x with
  | Z0 -> "0"
  | Zpos p -> Printf.sprintf "%Lu" (int64_of_pos p)
  | Zneg p -> "-" ^ Printf.sprintf "%Lu" (int64_of_pos p)

let z_of_string s = z_of_int64 (Int64.of_string s)
let rec nat_of_int n = if n <= 0 then O else S (nat_of_int (n - 1))

let kvs l = String.concat " " (List.map (fun (k, e) -> str_of_z k ^ "=" ^ str_of_z e) l)

let rec dump b (Node (leaf, ks, cs)) =
  if leaf then Buffer.add_string b ("(L" ^ (if ks = [] then "" else " ") ^ kvs ks ^ ")")
  else begin
    Buffer.add_string b "(N";
    let rec go cs ks =
      match cs, ks with
      | c :: cs', (k, e) :: ks' ->
        Buffer.add_char b ' '; dump b c;
        Buffer.add_string b (" " ^ str_of_z k ^ "=" ^ str_of_z e); go cs' ks'
      | c :: cs', [] -> Buffer.add_char b ' '; dump b c; go cs' []
      | [], _ -> ()
    in
    go cs ks; Buffer.add_char b ')'
  end

let sres_str r =
  match r with
  | SFuel -> "FUEL"
  | SNotFound -> "none"
  | SFound (Node (_, ks, _), i) -> "found " ^ str_of_z i ^ " [" ^ kvs ks ^ "]"

let () =
  let t = ref O in
  let r = ref btreeNew in
  let buf = Buffer.create 65536 in
  (try
     while true do
       let line = input_line stdin in
       (match String.split_on_char ' ' (String.trim line) with
        | ["new"; n] -> t := nat_of_int (int_of_string n); r := btreeNew; Buffer.add_string buf "ok\n"
        | ["ins"; k; e] ->
          (match btreeInsert !t !r (z_of_string k) (z_of_string e) with
           | Some x -> r := x; Buffer.add_string buf "ok\n"
           | None -> Buffer.add_string buf "FUEL\n")
        | ["del"; k] ->
          (match btreeDelete !t !r (z_of_string k) with
           | Some (x, pe) ->
             r := x;
             Buffer.add_string buf ("del " ^ (match pe with Some e -> str_of_z e | None -> "-") ^ "\n")
           | None -> Buffer.add_string buf "FUEL\n")
        | ["eq"; k] -> Buffer.add_string buf (sres_str (btreeSearchEQ !r (z_of_string k)) ^ "\n")
        | ["ge"; k] -> Buffer.add_string buf (sres_str (btreeSearchGE !r (z_of_string k)) ^ "\n")
        | ["min"] -> Buffer.add_string buf (sres_str (btreeSearchMin !r) ^ "\n")
        | ["max"] -> Buffer.add_string buf (sres_str (btreeSearchMax !r) ^ "\n")
        | ["check"] -> Buffer.add_string buf ("check " ^ str_of_z (btreeCheck !t !r) ^ "\n")
        | ["elems"] -> Buffer.add_string buf ("elems " ^ kvs (elements !r) ^ "\n")
        | ["nmap"] -> r := nmap nmap_fun !r; Buffer.add_string buf "ok\n"
        | ["dump"] -> Buffer.add_string buf "dump "; dump buf !r; Buffer.add_char buf '\n'
        | [""] -> ()
        | _ -> Buffer.add_string buf ("?? " ^ line ^ "\n"));
       if Buffer.length buf > 60000 then (print_string (Buffer.contents buf); Buffer.clear buf)
     done
   with End_of_file -> ());
  print_string (Buffer.contents buf)
