(* Proofs about the model of btree.c, part 1: lists, in-order contents, the shape invariant and the four
   restructuring operations (SplitChild, UnsplitChild, RotateDown, RotateUp): each preserves the in-order
   contents exactly and the shape. *)
Require Import ZArith List Bool Lia Permutation Arith.
Require Import AV.BTree.Model.
Import ListNotations.
Local Open Scope Z_scope.

(* ------------------------------------------------------------------ lists *)
Lemma nth_app_exact {A} (l1 l2 : list A) a d : nth (length l1) (l1 ++ a :: l2) d = a.
Proof. induction l1; cbn; auto. Qed.

Lemma firstn_app_exact {A} (l1 l2 : list A) : firstn (length l1) (l1 ++ l2) = l1.
Proof. induction l1; cbn; [now destruct l2 | now f_equal]. Qed.

Lemma skipn_app_exact {A} (l1 l2 : list A) : skipn (length l1) (l1 ++ l2) = l2.
Proof. induction l1; cbn; auto. Qed.

Lemma skipn_S_app_exact {A} (l1 l2 : list A) a : skipn (S (length l1)) (l1 ++ a :: l2) = l2.
Proof. induction l1; cbn; auto. Qed.

Lemma skipn_SS_app_exact {A} (l1 l2 : list A) a b : skipn (S (S (length l1))) (l1 ++ a :: b :: l2) = l2.
Proof. induction l1; cbn; auto. Qed.

Lemma setnth_app_exact {A} (l1 l2 : list A) a v : setnth (l1 ++ a :: l2) (length l1) v = l1 ++ v :: l2.
Proof. unfold setnth. now rewrite firstn_app_exact, skipn_S_app_exact. Qed.

Lemma split_nth {A} (l : list A) i d : (i < length l)%nat -> l = firstn i l ++ nth i l d :: skipn (S i) l.
Proof.
  revert i. induction l as [|a r IH]; intros i H; cbn in H; [lia|].
  destruct i; cbn; [reflexivity|]. f_equal. apply IH. lia.
Qed.

Lemma nth_app_i {A} (l1 l2 : list A) a d i : length l1 = i -> nth i (l1 ++ a :: l2) d = a.
Proof. intros <-. apply nth_app_exact. Qed.
Lemma nth_S_app_i {A} (l1 l2 : list A) a b d i : length l1 = i -> nth (S i) (l1 ++ a :: b :: l2) d = b.
Proof. intros <-. induction l1; cbn; auto. Qed.
Lemma firstn_app_i {A} (l1 l2 : list A) i : length l1 = i -> firstn i (l1 ++ l2) = l1.
Proof. intros <-. apply firstn_app_exact. Qed.
Lemma skipn_app_i {A} (l1 l2 : list A) i : length l1 = i -> skipn i (l1 ++ l2) = l2.
Proof. intros <-. apply skipn_app_exact. Qed.
Lemma skipn_S_app_i {A} (l1 l2 : list A) a i : length l1 = i -> skipn (S i) (l1 ++ a :: l2) = l2.
Proof. intros <-. apply skipn_S_app_exact. Qed.
Lemma skipn_SS_app_i {A} (l1 l2 : list A) a b i : length l1 = i -> skipn (S (S i)) (l1 ++ a :: b :: l2) = l2.
Proof. intros <-. apply skipn_SS_app_exact. Qed.
Lemma setnth_app_i {A} (l1 l2 : list A) a v i : length l1 = i -> setnth (l1 ++ a :: l2) i v = l1 ++ v :: l2.
Proof. intros <-. apply setnth_app_exact. Qed.

(* `key` / `entry` are aliases of Z; lia treats @fst key _ and @fst Z _ as different atoms *)
Ltac klia := unfold key, entry in *; lia.

Ltac norm_idx H :=
  rewrite ?(nth_app_i _ _ _ _ _ H), ?(nth_S_app_i _ _ _ _ _ _ H), ?(firstn_app_i _ _ _ H),
          ?(skipn_app_i _ _ _ H), ?(skipn_S_app_i _ _ _ _ H), ?(skipn_SS_app_i _ _ _ _ _ H),
          ?(setnth_app_i _ _ _ _ _ H).

Lemma last_snoc {A} (l : list A) a d : last (l ++ [a]) d = a.
Proof. induction l as [|b r IH]; cbn; [reflexivity|]. destruct (r ++ [a]) eqn:E; [destruct r; discriminate | exact IH]. Qed.

Lemma snoc_cases {A} (l : list A) : l = [] \/ exists l' a, l = l' ++ [a].
Proof.
  induction l as [|b r IH]; [now left|]. right. destruct IH as [->|(l' & a & ->)].
  - now exists [], b.
  - now exists (b :: l'), a.
Qed.

(* ------------------------------------------------------------------ sortedness (by key, duplicates allowed) *)
Fixpoint sorted (l : list kv) : Prop :=
  match l with
  | [] => True
  | a :: r => Forall (fun b => fst a <= fst b) r /\ sorted r
  end.

Lemma sorted_app a b :
  sorted (a ++ b) <-> sorted a /\ sorted b /\ (forall x y, In x a -> In y b -> fst x <= fst y).
Proof.
  induction a as [|p r IH]; cbn [app sorted].
  - split; [intros H; repeat split; auto; intros x y [] | tauto].
  - rewrite Forall_app, IH. split.
    + intros ((H1 & H2) & H3 & H4 & H5). repeat split; auto.
      intros x y [<-|Hx] Hy; [rewrite Forall_forall in H2; auto | auto].
    + intros ((H1 & H2) & H3 & H4). repeat split; auto.
      * apply Forall_forall. intros y Hy. apply H4; [now left | exact Hy].
      * intros x y Hx Hy. apply H4; [now right | exact Hy].
Qed.

Lemma sorted_cons p l : sorted (p :: l) <-> (forall y, In y l -> fst p <= fst y) /\ sorted l.
Proof. cbn [sorted]. rewrite Forall_forall. tauto. Qed.

Lemma sorted_remove a x b : sorted (a ++ x :: b) -> sorted (a ++ b).
Proof.
  rewrite !sorted_app, sorted_cons. intros (H1 & (H2 & H3) & H4). repeat split; auto.
  intros p q Hp Hq. apply H4; [exact Hp | now right].
Qed.

(* replace a middle segment by a sorted permutation of it *)
Lemma sorted_perm_mid A M M' B :
  sorted (A ++ M ++ B) -> Permutation M M' -> sorted M' -> sorted (A ++ M' ++ B).
Proof.
  rewrite !sorted_app. intros (HA & (HM & HB & HMB) & HAMB) P HM'. repeat split; auto.
  - intros x y Hx Hy. apply HMB; [eapply Permutation_in; [apply Permutation_sym; exact P | exact Hx] | exact Hy].
  - intros x y Hx Hy. apply HAMB; [exact Hx|]. apply in_app_iff in Hy as [Hy|Hy]; apply in_or_app.
    + left. eapply Permutation_in; [apply Permutation_sym; exact P | exact Hy].
    + now right.
Qed.

(* remove one element from a middle segment *)
Lemma sorted_shrink_mid A M M' B p :
  sorted (A ++ M ++ B) -> Permutation M (p :: M') -> sorted M' -> sorted (A ++ M' ++ B).
Proof.
  rewrite !sorted_app. intros (HA & (HM & HB & HMB) & HAMB) P HM'.
  assert (Sub : forall x, In x M' -> In x M).
  { intros x Hx. eapply Permutation_in; [apply Permutation_sym; exact P | now right]. }
  repeat split; auto.
  intros x y Hx Hy. apply HAMB; [exact Hx|]. apply in_app_iff in Hy as [Hy|Hy]; apply in_or_app; auto.
Qed.

Lemma sorted_last_max l p : sorted (l ++ [p]) -> forall y, In y (l ++ [p]) -> fst y <= fst p.
Proof.
  rewrite sorted_app. intros (_ & _ & H) y Hy. apply in_app_iff in Hy as [Hy|[<-|[]]]; [|lia].
  apply H; [exact Hy | now left].
Qed.

(* ------------------------------------------------------------------ flat *)
Definition tlf (es : list (list kv)) (ks : list kv) : list kv :=
  match ks with [] => [] | k :: ks' => k :: flat es ks' end.

Lemma flat_cons e es ks : flat (e :: es) ks = e ++ tlf es ks.
Proof. destruct ks; cbn; [now rewrite app_nil_r | reflexivity]. Qed.

Lemma flat_app es1 es2 ks1 ks2 :
  length es1 = length ks1 -> flat (es1 ++ es2) (ks1 ++ ks2) = flat es1 ks1 ++ flat es2 ks2.
Proof.
  revert ks1. induction es1 as [|e r IH]; intros [|k ks1] H; cbn in H; try discriminate; [reflexivity|].
  cbn [app flat]. rewrite IH by lia. now rewrite <- app_assoc.
Qed.

Lemma flat_split_at es1 es2 ks1 m ks2 :
  length es1 = S (length ks1) ->
  flat (es1 ++ es2) (ks1 ++ m :: ks2) = flat es1 ks1 ++ m :: flat es2 ks2.
Proof.
  revert ks1. induction es1 as [|e r IH]; intros ks1 H; cbn in H; [discriminate|].
  destruct ks1 as [|k ks1].
  - destruct r; [|discriminate]. cbn. reflexivity.
  - cbn [app flat]. cbn in H. rewrite IH by lia. now rewrite <- app_assoc.
Qed.

Notation E := elements.

Lemma elements_nonleaf ks cs : E (Node false ks cs) = flat (map E cs) ks.
Proof. reflexivity. Qed.

Lemma elements_node1 ks1 ks2 cs1 c cs2 :
  length cs1 = length ks1 ->
  E (Node false (ks1 ++ ks2) (cs1 ++ c :: cs2)) = flat (map E cs1) ks1 ++ E c ++ tlf (map E cs2) ks2.
Proof.
  intros H. rewrite elements_nonleaf, map_app, flat_app by (now rewrite map_length).
  cbn [map]. now rewrite flat_cons.
Qed.

Lemma elements_node2 ks1 m ks2 cs1 y z cs2 :
  length cs1 = length ks1 ->
  E (Node false (ks1 ++ m :: ks2) (cs1 ++ y :: z :: cs2)) =
  flat (map E cs1) ks1 ++ E y ++ m :: E z ++ tlf (map E cs2) ks2.
Proof.
  intros H. rewrite elements_node1 by exact H. cbn [tlf map]. now rewrite flat_cons.
Qed.

(* ------------------------------------------------------------------ shape: what the array layout and the
   recursion of btree.c rely on (key counts, branch counts, uniform depth h) *)
Fixpoint shape (t lo h : nat) (x : bt) : Prop :=
  match x with
  | Node l ks cs =>
      (lo <= length ks <= 2 * t - 1)%nat /\
      match h with
      | O => l = true /\ cs = []
      | S h' => l = false /\ length cs = S (length ks) /\ Forall (shape t (t - 1) h') cs
      end
  end.

Lemma shape_leaf t lo ks : shape t lo 0 (Node true ks []) <-> (lo <= length ks <= 2 * t - 1)%nat.
Proof. cbn [shape]. tauto. Qed.

Lemma shape_node t lo h ks cs :
  shape t lo (S h) (Node false ks cs) <->
  (lo <= length ks <= 2 * t - 1)%nat /\ length cs = S (length ks) /\ Forall (shape t (t - 1) h) cs.
Proof. cbn [shape]. tauto. Qed.

Lemma shape_node' t lo h l ks cs :
  shape t lo (S h) (Node l ks cs) ->
  l = false /\ (lo <= length ks <= 2 * t - 1)%nat /\ length cs = S (length ks) /\ Forall (shape t (t - 1) h) cs.
Proof. cbn [shape]. tauto. Qed.

Lemma shape_leaf' t lo l ks cs :
  shape t lo 0 (Node l ks cs) -> l = true /\ cs = [] /\ (lo <= length ks <= 2 * t - 1)%nat.
Proof. cbn [shape]. tauto. Qed.

Lemma shape_inv_0 t lo x : shape t lo 0 x -> exists ks, x = Node true ks [] /\ (lo <= length ks <= 2 * t - 1)%nat.
Proof. destruct x as [l ks cs]. intros H. apply shape_leaf' in H as (-> & -> & H). now exists ks. Qed.

Lemma shape_inv_S t lo h x : shape t lo (S h) x ->
  exists ks cs, x = Node false ks cs /\ (lo <= length ks <= 2 * t - 1)%nat /\
                length cs = S (length ks) /\ Forall (shape t (t - 1) h) cs.
Proof. destruct x as [l ks cs]. intros H. apply shape_node' in H as (-> & H). now exists ks, cs. Qed.

Lemma shape_lo t lo lo' h x : shape t lo h x -> (lo' <= nKeys x)%nat -> shape t lo' h x.
Proof.
  destruct x as [l ks cs]. unfold nKeys. cbn [keysOf]. destruct h; cbn [shape]; intros ((H1 & H2) & H3) H;
    (split; [split; assumption | exact H3]).
Qed.

Lemma shape_nKeys t lo h x : shape t lo h x -> (lo <= nKeys x <= 2 * t - 1)%nat.
Proof. destruct x as [l ks cs]. unfold nKeys. cbn [keysOf]. destruct h; cbn [shape]; tauto. Qed.

Lemma shape_isLeaf t lo h x : shape t lo h x -> isLeaf x = match h with O => true | S _ => false end.
Proof. destruct x as [l ks cs]. cbn [isLeaf]. destruct h; cbn [shape]; intros (_ & -> & _); reflexivity. Qed.

Lemma shape_height t lo h x : shape t lo h x -> height x = h.
Proof.
  revert lo x. induction h as [|h IH]; intros lo [l ks cs]; cbn [shape height].
  - now intros (_ & -> & ->).
  - intros (_ & -> & HL & HF). destruct cs as [|c cs']; [discriminate|].
    inversion HF; subst. f_equal. eauto.
Qed.

(* a branch index splits the two arrays *)
Lemma node_split1 {B} (cs : list B) (ks : list kv) i d :
  length cs = S (length ks) -> (i <= length ks)%nat ->
  exists cs1 c cs2 ks1 ks2,
    cs = cs1 ++ c :: cs2 /\ ks = ks1 ++ ks2 /\ length cs1 = i /\ length ks1 = i /\
    nth i cs d = c /\ length cs2 = length ks2.
Proof.
  intros HL Hi.
  exists (firstn i cs), (nth i cs d), (skipn (S i) cs), (firstn i ks), (skipn i ks).
  assert (L1 : length (firstn i cs) = i) by (rewrite firstn_length; lia).
  assert (L2 : length (firstn i ks) = i) by (rewrite firstn_length; lia).
  repeat split; auto.
  - apply split_nth. lia.
  - symmetry. apply firstn_skipn.
  - rewrite !skipn_length. lia.
Qed.

Lemma node_split2 {B} (cs : list B) (ks : list kv) i d :
  length cs = S (length ks) -> (i < length ks)%nat ->
  exists cs1 y z cs2 ks1 m ks2,
    cs = cs1 ++ y :: z :: cs2 /\ ks = ks1 ++ m :: ks2 /\ length cs1 = i /\ length ks1 = i /\
    nth i cs d = y /\ nth (S i) cs d = z /\ nth i ks dkv = m /\ length cs2 = length ks2.
Proof.
  intros HL Hi.
  destruct (node_split1 cs ks i d HL ltac:(lia)) as (cs1 & y & cs2 & ks1 & ks2 & -> & -> & L1 & L2 & N & L3).
  destruct cs2 as [|z cs2]; [cbn in L3; rewrite app_length in Hi; lia|].
  destruct ks2 as [|m ks2]; [discriminate|].
  exists cs1, y, z, cs2, ks1, m, ks2. repeat split; auto.
  - rewrite <- L1.
    replace (cs1 ++ y :: z :: cs2) with ((cs1 ++ [y]) ++ z :: cs2) by (now rewrite <- app_assoc).
    replace (S (length cs1)) with (length (cs1 ++ [y])) by (rewrite app_length; cbn; lia).
    apply nth_app_exact.
  - rewrite <- L2. apply nth_app_exact.
Qed.

(* ------------------------------------------------------------------ child-level facts *)
Definition yE (l : bool) (ks : list kv) (cs : list bt) : list kv := E (Node l ks cs).

(* a node cut at key m: left part, m, right part *)
Lemma elements_cut l k1 m k2 c1 c2 :
  (l = true -> c1 = [] /\ c2 = []) -> (l = false -> length c1 = S (length k1)) ->
  E (Node l (k1 ++ m :: k2) (c1 ++ c2)) = E (Node l k1 c1) ++ m :: E (Node l k2 c2).
Proof.
  intros HT HF. destruct l.
  - destruct (HT eq_refl) as [-> ->]. reflexivity.
  - rewrite !elements_nonleaf, map_app. apply flat_split_at. rewrite map_length. now apply HF.
Qed.

(* ------------------------------------------------------------------ btreeSplitChild *)
Lemma splitChild_explicit t xl ks1 ks2 cs1 yl yks ycs cs2 :
  length cs1 = length ks1 ->
  splitChild t (Node xl (ks1 ++ ks2) (cs1 ++ Node yl yks ycs :: cs2)) (length ks1) =
  Node xl (ks1 ++ nth (t - 1) yks dkv :: ks2)
       (cs1 ++ Node yl (firstn (t - 1) yks) (if yl then [] else firstn t ycs)
            :: Node yl (firstn (t - 1) (skipn t yks)) (if yl then [] else firstn t (skipn t ycs)) :: cs2).
Proof.
  intros H. assert (H2 : length ks1 = length ks1) by reflexivity.
  unfold splitChild. norm_idx H. norm_idx H2. reflexivity.
Qed.

(* cutting a full child in the middle *)
Lemma split_full_child t h yl yks ycs :
  (1 <= t)%nat -> shape t (t - 1) h (Node yl yks ycs) -> length yks = (2 * t - 1)%nat ->
  let y' := Node yl (firstn (t - 1) yks) (if yl then [] else firstn t ycs) in
  let z := Node yl (firstn (t - 1) (skipn t yks)) (if yl then [] else firstn t (skipn t ycs)) in
  shape t (t - 1) h y' /\ shape t (t - 1) h z /\ nKeys y' = (t - 1)%nat /\ nKeys z = (t - 1)%nat /\
  E (Node yl yks ycs) = E y' ++ nth (t - 1) yks dkv :: E z.
Proof.
  intros Ht Hs Hn.
  assert (Ek : yks = firstn (t - 1) yks ++ nth (t - 1) yks dkv :: skipn t yks).
  { replace t with (S (t - 1)) at 3 by lia. apply split_nth. lia. }
  assert (L1 : length (firstn (t - 1) yks) = (t - 1)%nat) by (rewrite firstn_length; lia).
  assert (L2 : length (skipn t yks) = (t - 1)%nat) by (rewrite skipn_length; lia).
  assert (F2 : firstn (t - 1) (skipn t yks) = skipn t yks) by (apply firstn_all2; lia).
  cbn zeta. rewrite F2. destruct h as [|h].
  - apply shape_leaf' in Hs as (-> & -> & _). unfold nKeys. cbn [keysOf].
    split; [apply shape_leaf; lia|]. split; [apply shape_leaf; lia|]. split; [exact L1|]. split; [exact L2|].
    cbn [elements]. exact Ek.
  - apply shape_node' in Hs. destruct Hs as (-> & _ & HL & HF).
    assert (Ec : ycs = firstn t ycs ++ skipn t ycs) by (symmetry; apply firstn_skipn).
    assert (L3 : length (firstn t ycs) = t) by (rewrite firstn_length; lia).
    assert (L4 : length (skipn t ycs) = t) by (rewrite skipn_length; lia).
    assert (F4 : firstn t (skipn t ycs) = skipn t ycs) by (apply firstn_all2; lia).
    rewrite F4. unfold nKeys. cbn [keysOf].
    assert (HF1 : Forall (shape t (t - 1) h) (firstn t ycs)) by (rewrite Ec in HF; now apply Forall_app in HF).
    assert (HF2 : Forall (shape t (t - 1) h) (skipn t ycs)) by (rewrite Ec in HF; now apply Forall_app in HF).
    split; [apply shape_node; repeat split; auto; lia|].
    split; [apply shape_node; repeat split; auto; lia|].
    split; [exact L1|]. split; [exact L2|].
    rewrite Ek at 1. rewrite Ec at 1. apply elements_cut; [discriminate | intros _; lia].
Qed.

Lemma nth_S_app_exact {A} (l1 l2 : list A) a b d : nth (S (length l1)) (l1 ++ a :: b :: l2) d = b.
Proof. induction l1; cbn; auto. Qed.

Lemma firstn_mid_exact {A} (l1 l2 : list A) a : firstn (length l1) (l1 ++ a :: l2) = l1.
Proof. apply firstn_app_exact. Qed.

Lemma setnth_mid_exact {A} (l1 l2 : list A) a v : setnth (l1 ++ a :: l2) (length l1) v = l1 ++ v :: l2.
Proof. apply setnth_app_exact. Qed.

(* ------------------------------------------------------------------ btreeUnsplitChild *)
Lemma unsplitChild_explicit xl ks1 m ks2 cs1 yl yks ycs zl zks zcs cs2 :
  length cs1 = length ks1 ->
  unsplitChild (Node xl (ks1 ++ m :: ks2) (cs1 ++ Node yl yks ycs :: Node zl zks zcs :: cs2)) (length ks1) =
  Node xl (ks1 ++ ks2)
       (cs1 ++ Node yl (yks ++ m :: firstn (length yks) zks)
                    (if yl then [] else ycs ++ firstn (S (length yks)) zcs) :: cs2).
Proof.
  intros H. assert (H2 : length ks1 = length ks1) by reflexivity.
  unfold unsplitChild. norm_idx H. norm_idx H2. reflexivity.
Qed.

Lemma merge_children t h yl yks ycs zl zks zcs m :
  (1 <= t)%nat -> shape t (t - 1) h (Node yl yks ycs) -> shape t (t - 1) h (Node zl zks zcs) ->
  length yks = (t - 1)%nat -> length zks = (t - 1)%nat ->
  let y' := Node yl (yks ++ m :: firstn (length yks) zks)
                 (if yl then [] else ycs ++ firstn (S (length yks)) zcs) in
  shape t (t - 1) h y' /\ nKeys y' = (2 * t - 1)%nat /\
  E y' = E (Node yl yks ycs) ++ m :: E (Node zl zks zcs).
Proof.
  intros Ht Hy Hz Ly Lz. cbn zeta.
  rewrite (firstn_all2 zks) by lia.
  assert (Ln : length (yks ++ m :: zks) = (2 * t - 1)%nat) by (rewrite app_length; cbn [length]; lia).
  destruct h as [|h].
  - apply shape_leaf' in Hy as (-> & -> & _). apply shape_leaf' in Hz as (-> & -> & _).
    unfold nKeys. cbn [keysOf]. split; [apply shape_leaf; lia|]. split; [exact Ln|]. reflexivity.
  - apply shape_node' in Hy as (-> & _ & Lcy & Fy). apply shape_node' in Hz as (-> & _ & Lcz & Fz).
    rewrite (firstn_all2 zcs) by lia. unfold nKeys. cbn [keysOf].
    split; [|split; [exact Ln|]].
    + apply shape_node. split; [lia|]. split; [rewrite app_length; lia|]. apply Forall_app. now split.
    + apply elements_cut; [discriminate | intros _; exact Lcy].
Qed.

(* ------------------------------------------------------------------ btreeRotateDown *)
Lemma rotateDown_explicit xl ks1 m ks2 cs1 yl yks ycs zl zks zcs cs2 :
  length cs1 = length ks1 ->
  rotateDown (Node xl (ks1 ++ m :: ks2) (cs1 ++ Node yl yks ycs :: Node zl zks zcs :: cs2)) (length ks1) =
  Node xl (ks1 ++ nth 0 zks dkv :: ks2)
       (cs1 ++ Node yl (yks ++ [m]) (if yl then [] else ycs ++ [nth 0 zcs dummy])
            :: Node zl (tl zks) (if zl then [] else tl zcs) :: cs2).
Proof.
  intros H. assert (H2 : length ks1 = length ks1) by reflexivity.
  unfold rotateDown. norm_idx H. norm_idx H2. reflexivity.
Qed.

Lemma rot_down_children t h yl yks ycs zl zks zcs m :
  (1 <= t)%nat -> shape t (t - 1) h (Node yl yks ycs) -> shape t (t - 1) h (Node zl zks zcs) ->
  length yks = (t - 1)%nat -> (t - 1 < length zks)%nat ->
  let y' := Node yl (yks ++ [m]) (if yl then [] else ycs ++ [nth 0 zcs dummy]) in
  let z' := Node zl (tl zks) (if zl then [] else tl zcs) in
  shape t (t - 1) h y' /\ shape t (t - 1) h z' /\ nKeys y' = t /\
  E (Node yl yks ycs) ++ m :: E (Node zl zks zcs) = E y' ++ nth 0 zks dkv :: E z'.
Proof.
  intros Ht Hy Hz Ly Lz. cbn zeta.
  destruct zks as [|zk0 zks']; [cbn in Lz; lia|]. cbn [length] in Lz. cbn [tl nth].
  assert (Ln : length (yks ++ [m]) = t) by (rewrite app_length; cbn [length]; lia).
  destruct h as [|h].
  - apply shape_leaf' in Hy as (-> & -> & _). apply shape_leaf' in Hz as (-> & -> & Bz). cbn [length] in Bz.
    unfold nKeys. cbn [keysOf]. split; [apply shape_leaf; lia|]. split; [apply shape_leaf; lia|].
    split; [exact Ln|]. cbn [elements]. now rewrite <- app_assoc.
  - apply shape_node' in Hy as (-> & _ & Lcy & Fy). apply shape_node' in Hz as (-> & Bz & Lcz & Fz).
    cbn [length] in Bz, Lcz. destruct zcs as [|zc0 zcs']; [discriminate|]. cbn [length] in Lcz.
    cbn [tl nth]. unfold nKeys. cbn [keysOf]. apply Forall_cons_iff in Fz as [Fz0 Fz'].
    split; [|split; [|split; [exact Ln|]]].
    + apply shape_node. split; [lia|]. split; [rewrite !app_length; cbn [length]; lia|].
      apply Forall_app. split; [exact Fy | now constructor].
    + apply shape_node. split; [lia|]. split; [lia | exact Fz'].
    + rewrite (elements_cut false yks m [] ycs [zc0]); [|discriminate | intros _; exact Lcy].
      rewrite !elements_nonleaf. cbn [map flat]. rewrite <- !app_assoc. reflexivity.
Qed.

(* ------------------------------------------------------------------ btreeRotateUp *)
Lemma rotateUp_explicit xl ks1 m ks2 cs1 yl yks ycs zl zks zcs cs2 :
  length cs1 = length ks1 ->
  rotateUp (Node xl (ks1 ++ m :: ks2) (cs1 ++ Node zl zks zcs :: Node yl yks ycs :: cs2)) (length ks1) =
  Node xl (ks1 ++ nth (length zks - 1) zks dkv :: ks2)
       (cs1 ++ Node zl (firstn (length zks - 1) zks) (if zl then [] else firstn (length zks) zcs)
            :: Node yl (m :: yks) (if yl then [] else nth (length zks) zcs dummy :: ycs) :: cs2).
Proof.
  intros H. assert (H2 : length ks1 = length ks1) by reflexivity.
  unfold rotateUp. norm_idx H. norm_idx H2. reflexivity.
Qed.

Lemma rot_up_children t h yl yks ycs zl zks zcs m :
  (1 <= t)%nat -> shape t (t - 1) h (Node yl yks ycs) -> shape t (t - 1) h (Node zl zks zcs) ->
  length yks = (t - 1)%nat -> (t - 1 < length zks)%nat ->
  let z' := Node zl (firstn (length zks - 1) zks) (if zl then [] else firstn (length zks) zcs) in
  let y' := Node yl (m :: yks) (if yl then [] else nth (length zks) zcs dummy :: ycs) in
  shape t (t - 1) h y' /\ shape t (t - 1) h z' /\ nKeys y' = t /\
  E (Node zl zks zcs) ++ m :: E (Node yl yks ycs) = E z' ++ nth (length zks - 1) zks dkv :: E y'.
Proof.
  intros Ht Hy Hz Ly Lz. cbn zeta.
  destruct (snoc_cases zks) as [->|(zks' & zl0 & ->)]; [cbn in Lz; lia|].
  rewrite app_length in *. cbn [length] in *.
  replace (length zks' + 1 - 1)%nat with (length zks') by lia.
  rewrite firstn_app_exact, nth_app_exact.
  destruct h as [|h].
  - apply shape_leaf' in Hy as (-> & -> & _). apply shape_leaf' in Hz as (-> & -> & Bz).
    rewrite app_length in Bz. cbn [length] in Bz.
    unfold nKeys. cbn [keysOf length]. split; [apply shape_leaf; cbn [length]; lia|].
    split; [apply shape_leaf; lia|]. split; [lia|]. cbn [elements]. now rewrite <- app_assoc.
  - apply shape_node' in Hy as (-> & _ & Lcy & Fy). apply shape_node' in Hz as (-> & Bz & Lcz & Fz).
    rewrite app_length in Bz, Lcz. cbn [length] in Bz, Lcz.
    destruct (snoc_cases zcs) as [->|(zcs' & zc0 & ->)]; [discriminate|].
    rewrite app_length in Lcz. cbn [length] in Lcz.
    assert (Lz' : length zcs' = (length zks' + 1)%nat) by lia.
    rewrite <- Lz'. rewrite firstn_app_exact, nth_app_exact.
    apply Forall_app in Fz as [Fz' Fz0]. apply Forall_cons_iff in Fz0 as [Fz0 _].
    unfold nKeys. cbn [keysOf length]. split; [|split; [|split; [lia|]]].
    + apply shape_node. cbn [length]. split; [lia|]. split; [lia|]. now constructor.
    + apply shape_node. split; [lia|]. split; [lia | exact Fz'].
    + rewrite (elements_cut false zks' zl0 [] zcs' [zc0]); [|discriminate | intros _; lia].
      rewrite !elements_nonleaf. cbn [map flat]. rewrite <- !app_assoc. reflexivity.
Qed.
