(* Proofs about the model of btree.c, part 5: btreeNew, btreeCheck on well-formed trees, histories. *)
Require Import ZArith List Bool Lia Permutation Arith ZifyBool.
Require Import AV.BTree.Model AV.BTree.Facts AV.BTree.FactsIns AV.BTree.FactsDel.
Import ListNotations.
Local Open Scope Z_scope.

Notation E := elements.

Theorem new_wf t : wfb t btreeNew /\ E btreeNew = [].
Proof.
  split; [|reflexivity]. exists O. split; [|exact I]. apply shape_leaf. cbn [root_lo length]. lia.
Qed.

(* ------------------------------------------------------------------ btreeCheck *)
Definition inb (blo bhi : option key) (l : list kv) : Prop :=
  (forall b, blo = Some b -> forall q, In q l -> b <= fst q) /\
  (forall b, bhi = Some b -> forall q, In q l -> fst q <= b).

Lemma keys_ordered_sorted ks : sorted ks -> keys_ordered ks = true.
Proof.
  induction ks as [|p r IH]; intros HS; [reflexivity|]. apply sorted_cons in HS as [Hp HSr].
  cbn [keys_ordered]. destruct r as [|q r']; [reflexivity|].
  specialize (Hp q (or_introl eq_refl)).
  assert (G : (fst p >? fst q) = false) by (rewrite Z.gtb_ltb; apply Z.ltb_ge; exact Hp).
  unfold kv, key, entry in *. rewrite G. now apply IH.
Qed.

Lemma flat_sorted_keys es ks : length es = S (length ks) -> sorted (flat es ks) -> sorted ks.
Proof.
  revert ks. induction es as [|e r IH]; intros ks L HS; [discriminate|].
  destruct ks as [|k ks']; [exact I|]. cbn [flat] in HS. cbn [length] in L.
  apply sorted_app in HS as (_ & HS & _). apply sorted_cons in HS as [Hk HSr].
  apply sorted_cons. split; [|apply IH; [lia | exact HSr]].
  intros y Hy. apply Hk. apply flat_keys_in; [lia | exact Hy].
Qed.

Section Check.
Variable t : nat.
Hypothesis Ht : (2 <= t)%nat.

Lemma check_kids_ok h bhi :
  (forall c blo bhi', shape t (t - 1) h c -> sorted (E c) -> inb blo bhi' (E c) ->
                      (blo <> None \/ bhi' <> None) -> check0 t c blo bhi' = 0) ->
  forall cs ks blo first,
    Forall (shape t (t - 1) h) cs -> length cs = S (length ks) ->
    sorted (flat (map E cs) ks) -> inb blo bhi (flat (map E cs) ks) ->
    (blo <> None \/ bhi <> None \/ ks <> []) ->
    check_kids (check0 t) cs ks blo bhi first = 0.
Proof.
  intros IHk. induction cs as [|c cs' IH]; intros ks blo first Fc L HS HB HN; [reflexivity|].
  apply Forall_cons_iff in Fc as [Fcc Fc']. cbn [map] in HS, HB. cbn [check_kids].
  destruct ks as [|p ks'].
  - destruct cs'; [|discriminate]. cbn [flat map] in HS, HB.
    rewrite IHk; [reflexivity | exact Fcc | exact HS | exact HB |].
    destruct HN as [?|[?|?]]; [now left | now right | congruence].
  - cbn [flat] in HS, HB. cbn [length] in L. destruct HB as [HB1 HB2].
    assert (HSc : sorted (E c)) by (apply sorted_app in HS; tauto).
    assert (Hcp : forall q, In q (E c) -> fst q <= fst p).
    { apply sorted_app in HS as (_ & _ & H3). intros q Hq. apply H3; [exact Hq | now left]. }
    assert (HSr : sorted (flat (map E cs') ks')).
    { apply sorted_app in HS as (_ & H2 & _). now apply sorted_cons in H2. }
    assert (Hpr : forall q, In q (flat (map E cs') ks') -> fst p <= fst q).
    { apply sorted_app in HS as (_ & H2 & _). now apply sorted_cons in H2. }
    rewrite IHk; [ | exact Fcc | exact HSc | | right; discriminate].
    + cbn [Z.eqb]. apply IH; [exact Fc' | lia | exact HSr | | left; discriminate].
      split.
      * intros b Hb q Hq. inversion Hb; subst. auto.
      * intros b Hb q Hq. apply (HB2 b Hb). apply in_or_app. right. now right.
    + split.
      * intros b Hb q Hq. apply (HB1 b Hb). apply in_or_app. now left.
      * intros b Hb q Hq. inversion Hb; subst. auto.
Qed.

Lemma check0_ok : forall h lo x blo bhi,
  shape t lo h x -> sorted (E x) -> inb blo bhi (E x) ->
  ((blo = None /\ bhi = None /\ (h = O \/ (1 <= nKeys x)%nat)) \/
   ((blo <> None \/ bhi <> None) /\ (t - 1 <= nKeys x)%nat)) ->
  check0 t x blo bhi = 0.
Proof.
  induction h as [|h IH]; intros lo x blo bhi Hs HS HB HP; destruct x as [lf ks cs];
    pose proof (shape_nKeys _ _ _ _ Hs) as Bn; unfold nKeys in Bn, HP; cbn [keysOf] in Bn, HP;
    cbn [check0]; cbv zeta.
  all: set (isroot := match blo with Some _ => false | None => match bhi with Some _ => false | None => true end end).
  all: assert (C1 : isroot && Nat.ltb (2 * t - 1) (length ks) = false)
         by (apply andb_false_iff; right; apply Nat.ltb_ge; lia).
  all: assert (C2 : negb isroot && (Nat.ltb (length ks) (t - 1) || Nat.ltb (2 * t - 1) (length ks)) = false).
  1,3: destruct HP as [(-> & -> & _)|[HN Hc]];
       [ reflexivity
       | apply andb_false_iff; right; apply orb_false_iff; split; apply Nat.ltb_ge; lia ].
  all: assert (Hks : forall q, In q ks -> In q (E (Node lf ks cs)))
         by (intros q Hq; apply (keys_in_elements _ _ _ _ Hs); exact Hq).
  all: assert (Hn1 : (blo <> None \/ bhi <> None) -> (1 <= length ks)%nat)
         by (intros HN; destruct HP as [(-> & -> & _)|[_ Hc]]; [destruct HN; congruence | lia]).
  all: assert (C3 : key_gt_opt blo (fst (nth 0 ks dkv)) = false).
  1,3: destruct blo as [b|]; [|reflexivity]; cbn [key_gt_opt];
       rewrite Z.gtb_ltb; apply Z.ltb_ge;
       apply (proj1 HB b eq_refl); apply Hks; apply nth_In;
       specialize (Hn1 ltac:(left; discriminate)); lia.
  all: assert (C5 : match bhi with Some hb => fst (nth (length ks - 1) ks dkv) >? hb | None => false end = false).
  1,3: destruct bhi as [b|]; [|reflexivity];
       rewrite Z.gtb_ltb; apply Z.ltb_ge;
       apply (proj2 HB b eq_refl); apply Hks; apply nth_In;
       specialize (Hn1 ltac:(right; discriminate)); lia.
  - (* leaf *)
    apply shape_leaf' in Hs as (-> & -> & _). cbn [elements] in *.
    assert (C4 : keys_ordered ks = true) by (now apply keys_ordered_sorted).
    fold isroot. rewrite C1, C2, C3, C4. cbn [negb]. unfold kv, key, entry in *. rewrite C5. reflexivity.
  - (* interior node *)
    apply shape_node' in Hs as (-> & _ & Lc & Fc). rewrite elements_nonleaf in *.
    assert (HSk : sorted ks) by (apply (flat_sorted_keys (map E cs) ks); [now rewrite map_length | exact HS]).
    assert (C4 : keys_ordered ks = true) by (now apply keys_ordered_sorted).
    fold isroot. rewrite C1, C2, C3, C4. cbn [negb]. unfold kv, key, entry in *. rewrite C5.
    apply (check_kids_ok h bhi); auto.
    + intros c blo' bhi' Sc HSc HBc HNc. apply (IH (t - 1)%nat c blo' bhi' Sc HSc HBc).
      right. split; [exact HNc|]. exact (proj1 (shape_nKeys _ _ _ _ Sc)).
    + destruct HP as [(-> & -> & [?|Hc])|[HN Hc]]; [discriminate | | tauto].
      right. right. destruct ks; [cbn in Hc; lia | discriminate].
Qed.

Theorem wf_passes_check x : wfb t x -> btreeCheck t x = 0.
Proof.
  intros (h & Hs & HS). unfold btreeCheck. apply (check0_ok h _ x None None Hs HS).
  - split; intros b Hb; discriminate.
  - left. split; [reflexivity|]. split; [reflexivity|]. destruct h; [now left | right].
    pose proof (shape_nKeys _ _ _ _ Hs). cbn [root_lo] in *. lia.
Qed.

(* ------------------------------------------------------------------ histories *)
Inductive bop := BIns (k : key) (e : entry) | BDel (k : key).

Fixpoint brun (x : bt) (ops : list bop) : option bt :=
  match ops with
  | [] => Some x
  | BIns k e :: r => match btreeInsert t x k e with Some x' => brun x' r | None => None end
  | BDel k :: r => match btreeDelete t x k with Some (x', _) => brun x' r | None => None end
  end.

(* the ordered-multimap reading of a history: each insert is a sorted insertion, each delete removes one
   occurrence of a present key (or nothing), on plain sorted lists *)
Fixpoint hist (ops : list bop) (l l' : list kv) : Prop :=
  match ops with
  | [] => l' = l
  | BIns k e :: r => exists m, inserted k e l m /\ hist r m l'
  | BDel k :: r => exists m pe, deleted k pe l m /\ sorted m /\ hist r m l'
  end.

Definition history_ok (ops : list bop) (l' : list kv) : Prop := hist ops [] l' /\ sorted l'.

Lemma run_refines_from ops : forall x,
  wfb t x -> exists x', brun x ops = Some x' /\ wfb t x' /\ hist ops (E x) (E x').
Proof.
  induction ops as [|o r IH]; intros x W.
  - exists x. repeat split; auto.
  - destruct o as [k e|k]; cbn [brun hist].
    + destruct (insert_refines t Ht k e x W) as (x1 & H1 & W1 & I1). rewrite H1.
      destruct (IH x1 W1) as (x' & H' & W' & Hh). exists x'. split; [exact H'|]. split; [exact W'|].
      exists (E x1). auto.
    + destruct (delete_refines t Ht x k W) as (x1 & pe & H1 & W1 & D1). rewrite H1.
      destruct (IH x1 W1) as (x' & H' & W' & Hh). exists x'. split; [exact H'|]. split; [exact W'|].
      exists (E x1), pe. split; [exact D1|]. split; [|exact Hh]. destruct W1 as (h1 & _ & HS1). exact HS1.
Qed.

End Check.

Theorem run_refines t : (2 <= t)%nat -> forall ops : list bop,
  exists x, brun t btreeNew ops = Some x /\ wfb t x /\ history_ok ops (E x).
Proof.
  intros Ht ops. destruct (run_refines_from t Ht ops btreeNew (proj1 (new_wf t))) as (x & H1 & W & Hh).
  exists x. split; [exact H1|]. split; [exact W|]. split; [exact Hh|]. destruct W as (h & _ & HS). exact HS.
Qed.

(* ------------------------------------------------------------------ the statements are not vacuous *)
Definition ex_ops : list bop :=
  map (fun i => BIns (Z.of_nat (i * 7 mod 10)) (Z.of_nat i)) (seq 0 30) ++ [BDel 3; BDel 11; BDel 0; BDel 0].

Example ex_run :
  match brun 2 btreeNew ex_ops with
  | Some x => btreeCheck 2 x = 0 /\ height x = 2%nat /\ length (elements x) = 27%nat /\
              map fst (firstn 4 (elements x)) = [0; 1; 1; 1]
  | None => False
  end.
Proof. vm_compute. repeat split. Qed.

Example ex_wf : exists x, brun 2 btreeNew ex_ops = Some x /\ wfb 2 x.
Proof. destruct (run_refines 2 ltac:(lia) ex_ops) as (x & H & W & _). exists x. split; [exact H | exact W]. Qed.
