From Coq Require Import List Bool Arith Lia.
Require Import AV.Emit.Model.
Import ListNotations.

Lemma emit_one_checked_complete e : emit_one true e = false -> complete e = true.
Proof.
  unfold emit_one, complete. destruct (ev_open e); [|discriminate]. cbn.
  intros H. apply orb_false_iff in H. destruct H as [H1 H2]. rewrite H1, H2. reflexivity.
Qed.

Lemma emit_one_complete chk e : complete e = true -> emit_one chk e = false.
Proof.
  unfold emit_one, complete. intros H. apply andb_true_iff in H. destruct H as [H H3].
  apply andb_true_iff in H. destruct H as [H1 H2].
  destruct (ev_open e); [|discriminate]. destruct chk; [|reflexivity].
  apply negb_true_iff in H2, H3. rewrite H2, H3. reflexivity.
Qed.

(* exit status 0  ->  every requested output is complete, when every site is checked *)
Lemma exit0_all_complete sites :
  forallb fst sites = true -> exit_status sites = 0 -> forallb (fun s => complete (snd s)) sites = true.
Proof.
  unfold exit_status. induction sites as [|[chk e] rest IH]; cbn; [reflexivity|].
  intros Hc. apply andb_true_iff in Hc. destruct Hc as [Hc Hr]. cbn in Hc. subst chk.
  destruct (emit_one true e) eqn:E; cbn; [discriminate|].
  destruct (run rest) as [n k] eqn:R. cbn. intros ->.
  rewrite (emit_one_checked_complete e E). cbn. apply IH; [exact Hr|reflexivity].
Qed.

(* any failing open / write / close on any requested output -> non-zero status *)
Lemma failure_reported sites :
  forallb fst sites = true -> forallb (fun s => complete (snd s)) sites = false -> exit_status sites <> 0.
Proof.
  intros Hc Hf H0. rewrite (exit0_all_complete sites Hc H0) in Hf. discriminate.
Qed.

(* no false alarms: when nothing fails the status is 0 and every output was attempted *)
Lemma all_complete_exit0 sites :
  forallb (fun s => complete (snd s)) sites = true -> run sites = (0, length sites).
Proof.
  induction sites as [|[chk e] rest IH]; cbn; [reflexivity|].
  intros H. apply andb_true_iff in H. destruct H as [H1 H2]. cbn in H1.
  rewrite (emit_one_complete chk e H1), (IH H2). reflexivity.
Qed.

(* the statement is false as soon as one site closes its stream unchecked *)
Lemma unchecked_refuted :
  exists e, exit_status [(false, e)] = 0 /\ complete e = false.
Proof. exists {| ev_open := Ok; ev_writes := [Ok; Err]; ev_close := Ok |}. split; reflexivity. Qed.
