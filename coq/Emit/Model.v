(* C18: the output commit protocol of emit.c / lib.c as an event model.
   Each requested output is a run of events  open ; write* ; close  whose results the
   environment (disk, device) chooses.  A site is "checked" when the emitter closes the
   stream through emitClose()/libClose's error test (stdio's error flag is sticky, so a
   failed flush of any buffer is seen at close time); the table of sites and their
   flags is regenerated from the current emit.c/lib.c (AV.Gen.EmitSites). *)
From Coq Require Import List Bool Arith.
Import ListNotations.

Inductive res := Ok | Err.
Definition is_err (r : res) : bool := match r with Err => true | Ok => false end.

Record out_ev := { ev_open : res; ev_writes : list res; ev_close : res }.

Definition complete (e : out_ev) : bool :=
  negb (is_err (ev_open e)) && negb (existsb is_err (ev_writes e)) && negb (is_err (ev_close e)).

(* one emitter: returns true when it raises the fatal "could not open/write" error *)
Definition emit_one (checked : bool) (e : out_ev) : bool :=
  match ev_open e with
  | Err => true                                  (* fileMustOpen -> fileError -> comsgFatal *)
  | Ok => if checked then existsb is_err (ev_writes e) || is_err (ev_close e) else false
  end.

(* the compiler writes the requested outputs in order and stops at the first fatal error;
   result: (number of errors reported, outputs attempted) *)
Fixpoint run (sites : list (bool * out_ev)) : nat * nat :=
  match sites with
  | [] => (0, 0)
  | (chk, e) :: rest =>
      if emit_one chk e then (1, 1)
      else let '(n, k) := run rest in (n, S k)
  end.

Definition exit_status (sites : list (bool * out_ev)) : nat := fst (run sites).
