(* C11 — Knuth's Algorithm D as coded in iintDivide: one step (D3-D6) computes the exact quotient digit. *)
Require Import ZArith List Bool Lia ZifyBool.
Require Import AV.BigInt.Model AV.BigInt.Facts AV.BigInt.FactsCmp AV.BigInt.FactsAdd AV.BigInt.FactsMul
               AV.BigInt.FactsBits AV.BigInt.FactsDivS AV.BigInt.FactsShift.
Import ListNotations.
Local Open Scope Z_scope.
Ltac Zify.zify_post_hook ::= Z.div_mod_to_equations.

Lemma lval_hd_tl : forall v, lval v = hd 0 v + R * lval (tl v).
Proof. intros [|x t]; cbn [lval hd tl]; lia. Qed.
Lemma dok_hd_tl : forall v, dok v -> 0 <= hd 0 v < R /\ dok (tl v).
Proof.
  intros [|x t] H; cbn [hd tl].
  - split; [unfold R; lia | exact H].
  - apply dok_cons in H. exact H.
Qed.

(* ------------------------------------------------------------------ D4: multiply and subtract *)
Lemma mulsub_spec : forall w v qhat k, dok w -> dok v -> (length v <= length w)%nat ->
  0 <= qhat < R -> 0 <= k < R ->
  lval (fst (mulsub w v qhat k)) - Rp (length w) * snd (mulsub w v qhat k) = lval w - qhat * lval v - k /\
  dok (fst (mulsub w v qhat k)) /\ length (fst (mulsub w v qhat k)) = length w /\
  0 <= snd (mulsub w v qhat k) < R.
Proof.
  induction w as [|ujj w' IH]; intros v qhat k Hw Hv Hl Hq Hk.
  - destruct v; [|cbn [length] in Hl; lia]. cbn [mulsub fst snd lval length]. rewrite Rp_0.
    split; [lia|]. split; [apply dok_nil|]. split; [reflexivity | exact Hk].
  - apply dok_cons in Hw. destruct Hw as [Hu Hw'].
    destruct (dok_hd_tl v Hv) as (Hvi & Hvt).
    cbn [mulsub]. set (vi := hd 0 v) in *.
    pose proof (TimesDouble_spec qhat vi Hq Hvi) as (E1 & Hul & Huh).
    destruct (TimesDouble qhat vi) as [uh ul]. cbn [fst snd] in *.
    pose proof (MinusStep_spec ujj ul 1 Hu Hul ltac:(lia)) as (E2 & Hu1 & Hkk).
    destruct (MinusStep ujj ul 1) as [kk u1]. cbn [fst snd] in *.
    rewrite (toS_id u1) by exact Hu1.
    assert (Hb1 : b2z (kk =? 0) = 1 - kk) by (destruct (Z.eqb_spec kk 0); cbn [b2z]; lia).
    rewrite Hb1. rewrite (toS_id (uh + (1 - kk))) by lia.
    pose proof (MinusStep_spec u1 k 1 Hu1 Hk ltac:(lia)) as (E3 & Hu2 & Hkk2).
    destruct (MinusStep u1 k 1) as [kk2 u2]. cbn [fst snd] in *.
    assert (Hb2 : b2z (kk2 =? 0) = 1 - kk2) by (destruct (Z.eqb_spec kk2 0); cbn [b2z]; lia).
    rewrite Hb2.
    pose proof (mul_bound qhat vi Hq Hvi) as Hm.
    assert (Huh2 : 0 <= uh + (1 - kk) + (1 - kk2) < R) by (unfold R in *; lia).
    rewrite (toS_id (uh + (1 - kk) + (1 - kk2))) by exact Huh2.
    destruct (IH (tl v) qhat (uh + (1 - kk) + (1 - kk2)) Hw' Hvt
                ltac:(destruct v; cbn [tl length] in *; lia) Hq Huh2) as (V & D & L & Kf).
    destruct (mulsub w' (tl v) qhat (uh + (1 - kk) + (1 - kk2))) as [rest kf]. cbn [fst snd] in *.
    rewrite (toS_id u2) by exact Hu2.
    cbn [lval length]. rewrite Rp_S, L. rewrite (lval_hd_tl v). fold vi.
    split; [unfold R in *; nia|]. split; [apply dok_cons; auto|]. split; [reflexivity | exact Kf].
Qed.

(* D6: add back *)
Lemma addback_spec : forall w v k, dok w -> dok v -> (length v <= length w)%nat -> 0 <= k <= 1 ->
  exists kf, 0 <= kf <= 1 /\ lval (addback w v k) + Rp (length w) * kf = lval w + lval v + k /\
             dok (addback w v k) /\ length (addback w v k) = length w.
Proof.
  induction w as [|ujj w' IH]; intros v k Hw Hv Hl Hk.
  - destruct v; [|cbn [length] in Hl; lia]. exists k. cbn [addback lval length]. rewrite Rp_0.
    split; [lia|]. split; [lia|]. split; [apply dok_nil | reflexivity].
  - apply dok_cons in Hw. destruct Hw as [Hu Hw'].
    destruct (dok_hd_tl v Hv) as (Hvi & Hvt).
    cbn [addback]. set (vi := hd 0 v) in *.
    pose proof (PlusStep_spec vi ujj k Hvi Hu Hk) as (E & Hs & Hk').
    destruct (PlusStep vi ujj k) as [k' s]. cbn [fst snd] in *.
    destruct (IH (tl v) k' Hw' Hvt ltac:(destruct v; cbn [tl length] in *; lia) Hk') as (kf & Hkf & V & D & L).
    exists kf. rewrite (toS_id s) by exact Hs. cbn [lval length]. rewrite Rp_S, L, (lval_hd_tl v). fold vi.
    split; [exact Hkf|]. split; [unfold R in *; lia|]. split; [apply dok_cons; auto | reflexivity].
Qed.

(* ------------------------------------------------------------------ D3: arithmetic of the estimate *)
(* W = Wl + P*T3 (dividend window, T3 its three leading places), V = Vl + P*T2 (divisor, T2 its two
   leading places), q = the true quotient digit *)
Definition ectx (W V Wl Vl P T3 T2 q uj0 uj1 uj2 v1 v2 : Z) : Prop :=
  W = Wl + P * T3 /\ V = Vl + P * T2 /\ 0 <= Wl < P /\ 0 <= Vl < P /\
  T3 = uj2 + R * uj1 + R * R * uj0 /\ T2 = v2 + R * v1 /\
  0 <= uj0 < R /\ 0 <= uj1 < R /\ 0 <= uj2 < R /\ 1 <= v1 < R /\ 0 <= v2 < R /\
  (q * V <= W < (q + 1) * V) /\ W < V * R.

Lemma mul_mono_l : forall p a b, 0 <= p -> a <= b -> p * a <= p * b.
Proof. intros. apply Z.mul_le_mono_nonneg_l; assumption. Qed.
Lemma mul_lt_lt : forall a b c d, 0 <= a < b -> 0 <= c < d -> a * c < b * d.
Proof. intros a b c d H1 H2. apply Z.mul_lt_mono_nonneg; lia. Qed.
Lemma mul_cancel_lt : forall a b v, 0 < v -> a * v < b * v -> a < b.
Proof. intros a b v Hv H. apply Z.mul_lt_mono_pos_r in H; assumption. Qed.
Lemma mul_mono_r_le : forall a b v, 0 <= v -> a <= b -> a * v <= b * v.
Proof. intros. apply Z.mul_le_mono_nonneg_r; assumption. Qed.

Section Estimate.
  Variables W V Wl Vl P T3 T2 q uj0 uj1 uj2 v1 v2 : Z.
  Hypothesis C : ectx W V Wl Vl P T3 T2 q uj0 uj1 uj2 v1 v2.

  Lemma est_V_ge : P * R <= V /\ 0 < V /\ 0 < P /\ 0 <= W.
  Proof.
    destruct C as (HW&HV&HWl&HVl&HT3&HT2&Hu0&Hu1&Hu2&Hv1&Hv2&Hq&HWV).
    assert (Pp : 0 < P) by lia.
    assert (A : P * R <= P * T2) by (apply mul_mono_l; [lia | subst T2; unfold R in *; lia]).
    assert (B : 0 <= P * T3) by (apply Z.mul_nonneg_nonneg; [lia | subst T3; unfold R in *; lia]).
    assert (Pr : 0 < P * R) by (apply Z.mul_pos_pos; [lia | unfold R; lia]).
    repeat split; lia.
  Qed.
  Lemma est_q_range : 0 <= q < R.
  Proof.
    destruct est_V_ge as (Vg & Vp & Pp & W0).
    destruct C as (HW&HV&HWl&HVl&HT3&HT2&Hu0&Hu1&Hu2&Hv1&Hv2&Hq&HWV).
    split.
    - destruct (Z_le_gt_dec 0 q) as [L|L]; [exact L | exfalso].
      assert ((q + 1) * V <= 0 * V) by (apply mul_mono_r_le; lia). lia.
    - apply (mul_cancel_lt q R V Vp). rewrite (Z.mul_comm R V). lia.
  Qed.
  Lemma est_uj0_le : uj0 <= v1.
  Proof.
    destruct est_V_ge as (Vg & Vp & Pp & W0).
    destruct C as (HW&HV&HWl&HVl&HT3&HT2&Hu0&Hu1&Hu2&Hv1&Hv2&Hq&HWV).
    destruct (Z_le_gt_dec uj0 v1) as [H|H]; [exact H | exfalso].
    assert (A : P * (T2 + 1) <= P * (R * (v1 + 1))) by (apply mul_mono_l; [lia | subst T2; unfold R in *; lia]).
    assert (B : P * (R * R * (v1 + 1)) <= P * T3) by (apply mul_mono_l; [lia | subst T3; unfold R in *; lia]).
    unfold R in *. lia.
  Qed.
  (* the test "v2*qhat > rhat*R + uj2" true: qhat is too large *)
  Lemma est_too_big : forall qh, 0 <= qh -> T3 < qh * T2 -> q < qh.
  Proof.
    intros qh Hqh H.
    destruct est_V_ge as (Vg & Vp & Pp & W0).
    destruct C as (HW&HV&HWl&HVl&HT3&HT2&Hu0&Hu1&Hu2&Hv1&Hv2&Hq&HWV).
    assert (A1 : P * (T3 + 1) <= P * (qh * T2)) by (apply mul_mono_l; lia).
    assert (A2 : 0 <= qh * Vl) by (apply Z.mul_nonneg_nonneg; lia).
    assert (A3 : qh * V = qh * Vl + P * (qh * T2)) by (subst V; ring).
    assert (A4 : W < qh * V) by lia.
    apply (mul_cancel_lt q qh V Vp). lia.
  Qed.
  (* the test false: qhat is at most one too large *)
  Lemma est_close : forall qh, 0 <= qh < R -> qh * T2 <= T3 -> qh <= q + 1.
  Proof.
    intros qh Hqh H.
    destruct est_V_ge as (Vg & Vp & Pp & W0).
    destruct C as (HW&HV&HWl&HVl&HT3&HT2&Hu0&Hu1&Hu2&Hv1&Hv2&Hq&HWV).
    assert (A0 : P * (qh * T2) <= P * T3) by (apply mul_mono_l; lia).
    assert (A3 : qh * V = qh * Vl + P * (qh * T2)) by (subst V; ring).
    assert (H2 : qh * Vl < R * P).
    { destruct (Z.eq_dec qh 0) as [->|Hnz]; [rewrite Z.mul_0_l; rewrite Z.mul_comm; lia|].
      apply mul_lt_lt; lia. }
    assert (H3 : (qh - 1) * V < (q + 1) * V) by (rewrite Z.mul_sub_distr_r; lia).
    apply mul_cancel_lt in H3; [lia | exact Vp].
  Qed.
  (* Theorem A: the first estimate is not too small *)
  Lemma est_first : forall qh rh, qh * v1 + rh = uj0 * R + uj1 -> 0 <= rh < v1 -> q <= qh.
  Proof.
    intros qh rh E Hr.
    destruct est_V_ge as (Vg & Vp & Pp & W0).
    destruct C as (HW&HV&HWl&HVl&HT3&HT2&Hu0&Hu1&Hu2&Hv1&Hv2&Hq&HWV).
    destruct (Z_le_gt_dec q qh) as [L|L]; [exact L | exfalso].
    assert (H1 : P * (R * v1) <= P * T2) by (apply mul_mono_l; [lia | subst T2; lia]).
    assert (H2 : P * (T3 + 1) <= P * (R * (uj0 * R + uj1 + 1))) by (apply mul_mono_l; [lia | subst T3; unfold R in *; lia]).
    assert (H5 : uj0 * R + uj1 + 1 <= (qh + 1) * v1) by lia.
    assert (H6 : P * (R * (uj0 * R + uj1 + 1)) <= P * (R * ((qh + 1) * v1))).
    { apply mul_mono_l; [lia|]. apply mul_mono_l; [unfold R; lia | exact H5]. }
    assert (Hqh : 0 <= qh + 1).
    { destruct (Z_le_gt_dec 0 (qh + 1)) as [G|G]; [exact G | exfalso].
      assert ((qh + 1) * v1 <= 0 * v1) by (apply mul_mono_r_le; lia). unfold R in *. lia. }
    assert (H7 : (qh + 1) * (P * (R * v1)) <= (qh + 1) * V) by (apply mul_mono_l; lia).
    assert (H8 : (qh + 1) * V <= q * V) by (apply mul_mono_r_le; lia).
    assert (H9 : (qh + 1) * (P * (R * v1)) = P * (R * ((qh + 1) * v1))) by ring.
    lia.
  Qed.
  (* overflow of rhat: the test would be false *)
  Lemma est_overflow : forall qh, 0 <= qh < R -> R <= uj0 * R + uj1 - qh * v1 -> qh * T2 <= T3.
  Proof.
    intros qh Hqh H.
    destruct C as (HW&HV&HWl&HVl&HT3&HT2&Hu0&Hu1&Hu2&Hv1&Hv2&Hq&HWV).
    assert (A : qh * v2 < R * R) by (destruct (Z.eq_dec qh 0) as [->|]; [unfold R; lia | apply mul_lt_lt; lia]).
    subst T2 T3. unfold R in *. lia.
  Qed.
End Estimate.
