(* C11 — the representation invariant for every operation result, in one statement: whatever bintXxx / fiBIntXxx
   returns for operands in normal form is again in normal form (immediate exactly when |v| <= 2^62-1, otherwise
   allocated with digits in range and a non-zero top place), hence is THE representation of its value. *)
Require Import ZArith List Bool Lia.
Require Import AV.BigInt.Model AV.BigInt.Facts AV.BigInt.FactsCmp AV.BigInt.FactsAdd AV.BigInt.FactsMul
               AV.BigInt.FactsBits AV.BigInt.FactsShift AV.BigInt.FactsPow AV.BigInt.FactsConv AV.BigInt.FactsDiv5
               AV.BigInt.FactsGcd AV.BigInt.FactsMod AV.BigInt.FactsPowMod AV.BigInt.FactsRepr.
Import ListNotations.
Local Open Scope Z_scope.

Theorem every_result_normal : forall a b c n k,
  norm a -> norm b -> norm c -> - H63 <= k < H63 ->
  norm (bintPlus a b) /\ norm (bintMinus a b) /\ norm (bintTimes a b) /\ norm (fiBIntTimesPlus a b c) /\
  norm (bintNegate a) /\ norm (bintAbs a) /\ norm (bintShift a n) /\ norm (bintNew k) /\
  (val b <> 0 -> norm (fst (bintDivide a b)) /\ norm (snd (bintDivide a b)) /\
                 exists r, bintMod a b = Some r /\ norm r) /\
  (exists g, fiBIntGcd a b = Some g /\ norm g) /\
  (0 <= k -> exists p, fiBIntSIPower a k = Some p /\ norm p) /\
  (0 <= val b -> exists p, fiBIntBIPower a b = Some p /\ norm p) /\
  (0 <= val b -> val c <> 0 -> exists p, fiBIntPowerMod a b c = Some p /\ norm p).
Proof.
  intros a b c n k Na Nb Nc Hk.
  split; [apply plus_exact; assumption|]. split; [apply minus_exact; assumption|].
  split; [apply times_exact; assumption|].
  split; [unfold fiBIntTimesPlus; apply plus_exact; [apply times_exact; assumption | assumption]|].
  split; [apply negate_exact; assumption|]. split; [apply abs_exact; assumption|].
  split; [apply shift_exact; assumption|]. split; [apply bintNew_spec; assumption|].
  split.
  { intros Hb. pose proof (divide_exact a b Na Nb Hb) as D. cbv zeta in D.
    destruct D as (_ & _ & _ & _ & _ & Nq & Nr). split; [exact Nq|]. split; [exact Nr|].
    destruct (mod_exact a b Na Nb Hb) as (r & E & _ & N). exists r. auto. }
  split; [destruct (gcd_exact a b Na Nb) as (g & E & _ & N); exists g; auto|].
  split; [intros H0; destruct (power_si_exact a k Na ltac:(lia)) as (p & E & _ & N); exists p; auto|].
  split; [intros H0; destruct (power_bi_exact a b Na Nb H0) as (p & E & _ & N); exists p; auto|].
  intros H0 Hc. destruct (powermod_exact a b c Na Nb Nc Hc H0) as (p & E & _ & N). exists p. auto.
Qed.

(* and two results with the same value are the same object representation *)
Corollary results_canonical : forall a b, norm a -> norm b ->
  bintPlus a b = bintPlus b a /\ bintMinus (bintPlus a b) b = a.
Proof.
  intros a b Na Nb.
  destruct (plus_exact a b Na Nb) as (V1 & N1). destruct (plus_exact b a Nb Na) as (V2 & N2).
  split; [apply norm_unique; [exact N1 | exact N2 | lia]|].
  destruct (minus_exact _ b N1 Nb) as (V3 & N3). apply norm_unique; [exact N3 | exact Na | lia].
Qed.
