(* C11 — fiBIntSIPower / fiBIntBIPower (square and multiply) are exact. *)
Require Import ZArith List Bool Lia ZifyBool.
Require Import AV.BigInt.Model AV.BigInt.Facts AV.BigInt.FactsCmp AV.BigInt.FactsAdd AV.BigInt.FactsMul
               AV.BigInt.FactsBits AV.BigInt.FactsShift.
Import ListNotations.
Local Open Scope Z_scope.
Ltac Zify.zify_post_hook ::= Z.div_mod_to_equations.

Lemma bit_div2 : forall e i, 0 <= e -> 0 <= i ->
  e / 2 ^ i = Z.b2z (Z.testbit e i) + 2 * (e / 2 ^ (i + 1)).
Proof.
  intros e i He Hi. rewrite Z.pow_add_r by lia. change (2 ^ 1) with 2.
  rewrite <- Z.div_div by (try apply pow2_pos; lia).
  destruct (Z.testbit e i) eqn:E.
  - apply Z.testbit_true in E; [|lia]. cbn [Z.b2z]. lia.
  - apply Z.testbit_false in E; [|lia]. cbn [Z.b2z]. lia.
Qed.

Lemma power_loop_spec : forall fuel i l bit e p a,
  0 <= e < 2 ^ l -> 0 <= i <= l -> fuel = Z.to_nat (l - i) ->
  (forall j, 0 <= j -> bit j = Z.testbit e j) -> norm p -> norm a ->
  val (power_loop fuel i l bit p a) = val p * val a ^ (e / 2 ^ i) /\ norm (power_loop fuel i l bit p a).
Proof.
  induction fuel as [|f IH]; intros i l bit e p a He Hi Hf Hbit Np Na.
  - assert (i = l) by lia. subst i. cbn [power_loop]. rewrite Hbit by lia.
    assert (E0 : e / 2 ^ l = 0) by (apply Z.div_small; lia).
    assert (Eb : Z.testbit e l = false).
    { apply Z.testbit_false; [lia|]. rewrite E0. reflexivity. }
    rewrite Eb, E0. change (val a ^ 0) with 1. split; [lia | exact Np].
  - cbn [power_loop]. rewrite Hbit by lia.
    destruct (Z.leb_spec l i) as [Hle|Hlt]; [lia|].
    set (p' := if Z.testbit e i then bintTimes p a else p).
    assert (Hp' : val p' = val p * val a ^ Z.b2z (Z.testbit e i) /\ norm p').
    { unfold p'. destruct (Z.testbit e i); cbn [Z.b2z].
      - destruct (times_exact p a Np Na) as (V & N). rewrite V. split; [rewrite Z.pow_1_r; reflexivity | exact N].
      - change (val a ^ 0) with 1. split; [lia | exact Np]. }
    destruct Hp' as (Vp' & Np').
    destruct (times_exact a a Na Na) as (Va2 & Na2).
    destruct (IH (i + 1) l bit e p' (bintTimes a a) He ltac:(lia) ltac:(lia) Hbit Np' Na2) as (V & N).
    split; [|exact N]. rewrite V, Vp', Va2.
    rewrite (bit_div2 e i) by lia.
    assert (0 <= e / 2 ^ (i + 1)) by (apply Z.div_pos; [lia | apply pow2_pos; lia]).
    rewrite (Z.pow_add_r (val a)) by (try lia; destruct (Z.testbit e i); cbn; lia).
    rewrite (Z.pow_mul_r (val a)) by lia. rewrite Z.pow_2_r. lia.
Qed.

Lemma sintLength_loop_spec : forall fuel x c, 0 <= x < 2 ^ Z.of_nat fuel ->
  c <= sintLength_loop fuel x c /\ x < 2 ^ (sintLength_loop fuel x c - c).
Proof.
  induction fuel as [|f IH]; intros x c Hx.
  - cbn [sintLength_loop]. change (2 ^ Z.of_nat 0) with 1 in Hx. rewrite Z.sub_diag. cbn. lia.
  - cbn [sintLength_loop]. destruct (Z.eqb_spec x 0) as [->|Hnz].
    + rewrite Z.sub_diag. cbn. lia.
    + rewrite Nat2Z.inj_succ, Z.pow_succ_r in Hx by lia.
      rewrite Z.shiftr_div_pow2 by lia. change (2 ^ 1) with 2.
      destruct (IH (x / 2) (c + 1) ltac:(lia)) as (H1 & H2).
      split; [lia|].
      replace (sintLength_loop f (x / 2) (c + 1) - c) with (Z.succ (sintLength_loop f (x / 2) (c + 1) - (c + 1))) by lia.
      rewrite Z.pow_succ_r by lia. lia.
Qed.

Theorem power_si_exact : forall a b, norm a -> 0 <= b < H63 ->
  exists r, fiBIntSIPower a b = Some r /\ val r = val a ^ b /\ norm r.
Proof.
  intros a b Na Hb. unfold fiBIntSIPower.
  destruct (Z.ltb_spec b 0); [lia|].
  assert (N1 : norm bint1) by (apply norm_imm; unfold IMM_MIN, IMM_MAX; lia).
  destruct (Z.eqb_spec b 0) as [->|Hnz].
  - exists bint1. split; [reflexivity|]. split; [reflexivity | exact N1].
  - set (l := fiSIntLength b).
    assert (Hl : 0 <= l /\ b < 2 ^ l).
    { unfold l, fiSIntLength, uabs. rewrite u64_id by (unfold W64, H63 in *; lia). rewrite Z.abs_eq by lia.
      destruct (sintLength_loop_spec 65 b 0) as (H1 & H2).
      - change (2 ^ Z.of_nat 65) with 36893488147419103232. unfold H63 in Hb. lia.
      - rewrite Z.sub_0_r in H2. split; assumption. }
    destruct Hl as (Hl0 & Hl1).
    assert (Hbit : forall j, 0 <= j -> fiSIntBit b j = Z.testbit b j).
    { intros j Hj. unfold fiSIntBit. rewrite u64_id by (unfold W64, H63 in *; lia).
      destruct (Z.ltb_spec j 64); [apply andb_true_r|]. rewrite andb_false_r. symmetry.
      apply Z.bits_above_log2; [lia|]. assert (Z.log2 b < 64); [|lia].
      apply Z.log2_lt_pow2; [lia|]. change (2 ^ 64) with 18446744073709551616. unfold H63 in Hb. lia. }
    destruct (power_loop_spec (Z.to_nat l) 0 l (fiSIntBit b) b bint1 a ltac:(lia) ltac:(lia) ltac:(f_equal; lia) Hbit N1 Na)
      as (V & N).
    eexists. split; [reflexivity|]. split; [|exact N]. rewrite V.
    change (2 ^ 0) with 1. rewrite Z.div_1_r. cbn [val bint1]. lia.
Qed.

Theorem power_bi_exact : forall a b, norm a -> norm b -> 0 <= val b ->
  exists r, fiBIntBIPower a b = Some r /\ val r = val a ^ val b /\ norm r.
Proof.
  intros a b Na Nb Hb. unfold fiBIntBIPower.
  destruct (sign_tests_exact b Nb) as (En & Ez & _). rewrite En, Ez.
  destruct (Z.ltb_spec (val b) 0); [lia|].
  assert (N1 : norm bint1) by (apply norm_imm; unfold IMM_MIN, IMM_MAX; lia).
  destruct (Z.eqb_spec (val b) 0) as [E0|Hnz].
  - exists bint1. split; [reflexivity|]. rewrite E0. split; [reflexivity | exact N1].
  - rewrite (length_exact b Nb). rewrite Z.abs_eq by lia.
    destruct (bitlen_bounds (val b) Hb) as (L1 & L2 & _).
    assert (Hbit : forall j, 0 <= j -> bintBit b j = Z.testbit (val b) j).
    { intros j Hj. rewrite bit_exact by assumption. rewrite Z.abs_eq by lia. reflexivity. }
    destruct (power_loop_spec (Z.to_nat (bitlen (val b))) 0 (bitlen (val b)) (bintBit b) (val b) bint1 a
                ltac:(lia) ltac:(lia) ltac:(f_equal; lia) Hbit N1 Na) as (V & N).
    eexists. split; [reflexivity|]. split; [|exact N]. rewrite V.
    change (2 ^ 0) with 1. rewrite Z.div_1_r. cbn [val bint1]. lia.
Qed.
