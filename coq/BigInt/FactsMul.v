(* C11 — iintTimes (schoolbook), iintTimesS, iintTimesPlusS, bintTimes are exact. *)
Require Import ZArith List Bool Lia ZifyBool.
Require Import AV.BigInt.Model AV.BigInt.Facts AV.BigInt.FactsCmp.
Import ListNotations.
Local Open Scope Z_scope.
Ltac Zify.zify_post_hook ::= Z.div_mod_to_equations.

(* one row: r[j..j+ac] = w + a*bj + k *)
Lemma times_row_spec : forall a w bj k, dok a -> dok w -> length w = length a -> 0 <= bj < R -> 0 <= k < R ->
  lval (times_row a w bj k) = lval a * bj + lval w + k /\ dok (times_row a w bj k) /\
  length (times_row a w bj k) = S (length a).
Proof.
  induction a as [|ai a' IH]; intros w bj k Ha Hw Hl Hb Hk.
  - destruct w; [|discriminate]. cbn [times_row lval length]. rewrite toS_id by exact Hk.
    split; [lia|]. split; [apply dok_cons; auto using dok_nil | reflexivity].
  - destruct w as [|wi w']; [discriminate|].
    apply dok_cons in Ha. apply dok_cons in Hw. destruct Ha as [Hai Ha'], Hw as [Hwi Hw'].
    cbn [times_row hd tl].
    pose proof (TimesStep_spec ai bj wi k Hai Hb Hwi Hk) as (E & Hr & Hk').
    destruct (TimesStep ai bj wi k) as [k' r]. cbn [fst snd] in *.
    rewrite (toS_id r) by exact Hr. rewrite (toS_id k') by exact Hk'.
    destruct (IH w' bj k' Ha' Hw' ltac:(cbn [length] in Hl; lia) Hb Hk') as (V & D & L).
    cbn [lval length]. rewrite V, L. split; [lia|]. split; [apply dok_cons; auto | reflexivity].
Qed.

Lemma times_rows_spec : forall b a w, dok a -> dok b -> dok w -> length w = length a ->
  lval (times_rows a b w) = lval w + lval a * lval b /\ dok (times_rows a b w) /\
  length (times_rows a b w) = (length b + length a)%nat.
Proof.
  induction b as [|bj b' IH]; intros a w Ha Hb Hw Hl.
  - cbn [times_rows lval length]. split; [lia|]. split; [exact Hw | lia].
  - apply dok_cons in Hb. destruct Hb as [Hbj Hb'].
    cbn [times_rows].
    set (w' := if bj =? 0 then w ++ [0] else times_row a w bj 0).
    assert (Hw' : lval w' = lval a * bj + lval w /\ dok w' /\ length w' = S (length a)).
    { unfold w'. destruct (Z.eqb_spec bj 0) as [->|Hnz].
      - rewrite lval_app. cbn [lval]. split; [lia|]. split.
        + apply dok_app. split; [exact Hw|]. apply dok_cons. split; [unfold R; lia | apply dok_nil].
        + rewrite app_length. cbn [length]. lia.
      - destruct (times_row_spec a w bj 0 Ha Hw Hl Hbj ltac:(unfold R; lia)) as (V & D & L).
        split; [lia | auto]. }
    destruct Hw' as (V & D & L).
    destruct w' as [|d rest]; [discriminate|].
    apply dok_cons in D. destruct D as [Hd Hrest].
    destruct (IH a rest Ha Hb' Hrest ltac:(cbn [length] in L; lia)) as (V2 & D2 & L2).
    cbn [lval length] in *. rewrite V2, L2. split; [lia|]. split; [apply dok_cons; auto | lia].
Qed.

Lemma map_zero_spec : forall a : list Z, lval (map (fun _ => 0) a) = 0 /\ dok (map (fun _ => 0) a) /\
  length (map (fun _ => 0) a) = length a.
Proof.
  induction a as [|x a IH]; cbn [map lval length].
  - repeat split. apply dok_nil.
  - destruct IH as (V & D & L). rewrite V, L. split; [lia|]. split; [|reflexivity].
    apply dok_cons. split; [unfold R; lia | exact D].
Qed.

Lemma strip_res_ok : forall ds, dok ds -> res_ok (strip ds).
Proof.
  intros ds Hd. split; [apply strip_dok; exact Hd|]. intros H3.
  destruct (strip_last ds) as [E|E]; [rewrite E in H3; cbn in H3; lia | exact E].
Qed.

Lemma iintTimes_spec : forall a b, dok a -> dok b ->
  lval (iintTimes a b) = lval a * lval b /\ res_ok (iintTimes a b).
Proof.
  intros a b Ha Hb. unfold iintTimes.
  destruct (len a <? len b).
  - destruct (map_zero_spec b) as (V0 & D0 & L0).
    destruct (times_rows_spec a b _ Hb Ha D0 L0) as (V & D & L).
    rewrite strip_lval. split; [lia | apply strip_res_ok; exact D].
  - destruct (map_zero_spec a) as (V0 & D0 & L0).
    destruct (times_rows_spec b a _ Ha Hb D0 L0) as (V & D & L).
    rewrite strip_lval. split; [lia | apply strip_res_ok; exact D].
Qed.

Lemma bintTimes_gen_spec : forall da db, dok da -> dok db ->
  val (bintTimes_gen da db) = lval da * lval db /\ norm (bintTimes_gen da db).
Proof.
  intros da db Ha Hb. unfold bintTimes_gen.
  destruct (iintTimes_spec da db Ha Hb) as (V & Rk).
  destruct (xintImmedIfCan_ok false _ Rk) as (V2 & N). rewrite V2. cbn [val]. split; [lia | exact N].
Qed.

(* iintTimesS / iintTimesPlusS: a*b + c *)
Lemma timesS_loop_spec : forall a b c, dok a -> 0 <= b < R -> 0 <= c < R ->
  lval (timesS_loop a b c) = lval a * b + c /\ dok (timesS_loop a b c) /\
  (length a <= length (timesS_loop a b c) <= S (length a))%nat /\
  (timesS_loop a b c = [] \/ last a 0 = 0 \/ last (timesS_loop a b c) 0 <> 0 \/ b = 0).
Proof.
  induction a as [|aj a' IH]; intros b c Ha Hb Hc.
  - cbn [timesS_loop]. destruct (Z.eqb_spec c 0) as [->|Hnz]; cbn [lval length last].
    + split; [lia|]. split; [apply dok_nil|]. split; [lia | left; reflexivity].
    + split; [lia|]. split; [apply dok_cons; auto using dok_nil|]. split; [lia | right; right; left; exact Hnz].
  - apply dok_cons in Ha. destruct Ha as [Haj Ha'].
    cbn [timesS_loop].
    pose proof (TimesStep_spec aj b c 0 Haj Hb Hc ltac:(unfold R; lia)) as (E & Hr & Hk').
    destruct (TimesStep aj b c 0) as [c' r]. cbn [fst snd] in *.
    rewrite (toS_id r) by exact Hr. rewrite (toS_id c') by exact Hk'.
    destruct (IH b c' Ha' Hb Hk') as (V & D & L & T).
    cbn [lval length]. rewrite V. split; [lia|]. split; [apply dok_cons; auto|]. split; [lia|].
    destruct (Z.eq_dec b 0) as [->|Hbnz]; [right; right; right; reflexivity|].
    destruct a' as [|e t'].
    + (* aj is the top place *)
      cbn [last]. destruct (Z.eq_dec aj 0) as [->|Hajnz]; [right; left; reflexivity|].
      right; right; left.
      cbn [timesS_loop] in *. destruct (Z.eqb_spec c' 0) as [->|Hc'nz].
      * cbn [last]. assert (0 < aj * b) by nia. cbn [lval] in *. unfold R in *. lia.
      * cbn [last]. exact Hc'nz.
    + rewrite last_cons_cons.
      destruct T as [T|[T|[T|T]]]; [|right; left; exact T| |lia].
      * exfalso. cbn [timesS_loop] in T. destruct (TimesStep e b c' 0). discriminate.
      * right; right; left.
        destruct (timesS_loop (e :: t') b c') as [|y ys] eqn:EE; [cbn [timesS_loop] in EE; destruct (TimesStep e b c' 0); discriminate|].
        rewrite last_cons_cons. exact T.
Qed.

(* ------------------------------------------------------------------ bintTimes *)
Lemma times_slow_ok : forall a b, norm a -> norm b ->
  let a' := xintStore a in
  let b' := xintStore b in
  let aNeg := bintIsNeg a' in
  let bNeg := bintIsNeg b' in
  let da := sto_ds a' in
  let db := sto_ds b' in
  let r := if aNeg && bNeg then bintTimes_gen da db
           else if aNeg then BINT_NEGATE (bintTimes_gen da db)
           else if bNeg then BINT_NEGATE (bintTimes_gen da db)
           else bintTimes_gen da db in
  val r = val a * val b /\ norm r.
Proof.
  intros a b Na Nb.
  destruct (xintStore_spec a Na) as (da & Ea & Wa & Va).
  destruct (xintStore_spec b Nb) as (db & Eb & Wb & Vb).
  rewrite Ea, Eb. cbn [bintIsNeg sto_ds]. cbv zeta.
  destruct Wa as (Da & _), Wb as (Db & _).
  destruct (bintTimes_gen_spec da db Da Db) as (Vp & Np).
  unfold BINT_NEGATE. destruct (negate_exact _ Np) as (Vn & Nn).
  destruct (Z.ltb_spec (val a) 0) as [La|La]; destruct (Z.ltb_spec (val b) 0) as [Lb|Lb]; cbn [andb].
  - rewrite Vp, Va, Vb. split; [nia | exact Np].
  - rewrite Vn, Vp, Va, Vb. split; [nia | exact Nn].
  - rewrite Vn, Vp, Va, Vb. split; [nia | exact Nn].
  - rewrite Vp, Va, Vb. split; [nia | exact Np].
Qed.

Theorem times_exact : forall a b, norm a -> norm b ->
  val (bintTimes a b) = val a * val b /\ norm (bintTimes a b).
Proof.
  intros a b Na Nb. unfold bintTimes.
  (* first shortcut: both immediate and half-word *)
  assert (C1 : forall r,
    match a, b with
    | Imm ai, Imm bi => if INT_IS_HALF ai && INT_IS_HALF bi then Some (bintNew (s64 (ai * bi))) else None
    | _, _ => None
    end = Some r -> val r = val a * val b /\ norm r).
  { intros r. destruct a as [ai|]; [destruct b as [bi|]|]; try discriminate.
    destruct (INT_IS_HALF ai && INT_IS_HALF bi) eqn:Hh; [|discriminate].
    intros [= <-]. unfold INT_IS_HALF, HALF_MAX in Hh.
    assert (Hp : - (2147483647 * 2147483647) <= ai * bi <= 2147483647 * 2147483647) by nia.
    rewrite s64_id by (unfold H63; lia).
    apply bintNew_spec. unfold H63. lia. }
  destruct (match a, b with
    | Imm ai, Imm bi => if INT_IS_HALF ai && INT_IS_HALF bi then Some (bintNew (s64 (ai * bi))) else None
    | _, _ => None end) as [r1|] eqn:E1; [apply C1; reflexivity|]. clear C1 E1.
  assert (Z0 : val (IntToBInt 0) = 0 /\ norm (IntToBInt 0)).
  { destruct (IntToBInt_norm 0) as (E & N); [unfold IMM_MIN, IMM_MAX; lia|]. rewrite E. auto. }
  (* second: a is 0, 1, -1 *)
  destruct a as [ai|na da].
  - destruct (Z.eqb_spec ai 0) as [->|A0]; [cbn [val]; destruct Z0; split; [lia | assumption]|].
    destruct (Z.eqb_spec ai 1) as [->|A1]; [unfold bintCopy; cbn [val]; split; [lia | exact Nb]|].
    destruct (Z.eqb_spec ai (-1)) as [->|A2];
      [destruct (negate_exact b Nb) as (V & N); rewrite V; cbn [val]; split; [lia | exact N]|].
    destruct b as [bi|nb db].
    + destruct (Z.eqb_spec bi 0) as [->|B0]; [cbn [val]; destruct Z0; split; [lia | assumption]|].
      destruct (Z.eqb_spec bi 1) as [->|B1]; [unfold bintCopy; cbn [val]; split; [lia | exact Na]|].
      destruct (Z.eqb_spec bi (-1)) as [->|B2];
        [destruct (negate_exact _ Na) as (V & N); rewrite V; cbn [val]; split; [lia | exact N]|].
      apply times_slow_ok; assumption.
    + apply times_slow_ok; assumption.
  - destruct b as [bi|nb db].
    + destruct (Z.eqb_spec bi 0) as [->|B0]; [cbn [val]; destruct Z0; split; [lia | assumption]|].
      destruct (Z.eqb_spec bi 1) as [->|B1]; [unfold bintCopy; cbn [val]; split; [lia | exact Na]|].
      destruct (Z.eqb_spec bi (-1)) as [->|B2];
        [destruct (negate_exact _ Na) as (V & N); rewrite V; cbn [val]; split; [lia | exact N]|].
      apply times_slow_ok; assumption.
    + apply times_slow_ok; assumption.
Qed.
