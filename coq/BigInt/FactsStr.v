(* C11 — decimal output (bintIntoString) and decimal input (bintScanFrString) are exact. *)
Require Import ZArith List Bool Lia ZifyBool.
Require Import AV.BigInt.Model AV.BigInt.Facts AV.BigInt.FactsCmp AV.BigInt.FactsAdd AV.BigInt.FactsMul
               AV.BigInt.FactsBits AV.BigInt.FactsDivS.
Import ListNotations.
Local Open Scope Z_scope.
Ltac Zify.zify_post_hook ::= Z.div_mod_to_equations.

(* ------------------------------------------------------------------ decimal strings *)
Definition isdig (c : Z) : Prop := 48 <= c <= 57.
Definition alldig (s : list Z) : Prop := Forall isdig s.
(* value of a string of decimal digit characters *)
Fixpoint dval (s : list Z) : Z :=
  match s with
  | [] => 0
  | c :: t => (c - 48) * 10 ^ len t + dval t
  end.
(* shortest decimal form: at least one digit, no leading zero except for "0" itself *)
Definition canon_digits (s : list Z) : Prop := s <> [] /\ alldig s /\ (s = [48] \/ hd 0 s <> 48).
(* s is the decimal text of v: optional '-' (only for negative v), then the shortest digit string *)
Definition dec_repr (s : list Z) (v : Z) : Prop :=
  if v <? 0 then exists t, s = 45 :: t /\ canon_digits t /\ dval t = - v
  else canon_digits s /\ dval s = v.
(* the usual reader: optional '-', then Horner over the digits *)
Definition parse_dec (s : list Z) : Z :=
  match s with
  | 45 :: t => - fold_left (fun a c => 10 * a + (c - 48)) t 0
  | _ => fold_left (fun a c => 10 * a + (c - 48)) s 0
  end.

Lemma pow10_pos : forall n, 0 <= n -> 0 < 10 ^ n.
Proof. intros n Hn. apply Z.pow_pos_nonneg; lia. Qed.
Lemma dval_app : forall a b, dval (a ++ b) = dval a * 10 ^ len b + dval b.
Proof.
  induction a as [|c a IH]; intros b; cbn [app dval]; [lia|].
  rewrite IH, len_app, Z.pow_add_r by apply len_nonneg. lia.
Qed.
Lemma fold_dval : forall s acc, fold_left (fun a c => 10 * a + (c - 48)) s acc = acc * 10 ^ len s + dval s.
Proof.
  induction s as [|c t IH]; intros acc; cbn [fold_left dval]; [rewrite len_nil; lia|].
  rewrite IH, len_cons, Z.pow_add_r by (try apply len_nonneg; lia). lia.
Qed.
Lemma dval_nonneg : forall s, alldig s -> 0 <= dval s.
Proof.
  induction s as [|c t IH]; intros H; cbn [dval]; [lia|].
  inversion H; subst. specialize (IH H3). unfold isdig in H2.
  pose proof (pow10_pos (len t) (len_nonneg t)). nia.
Qed.
Lemma dec_repr_parse : forall s v, dec_repr s v -> parse_dec s = v.
Proof.
  intros s v H. unfold dec_repr in H. destruct (Z.ltb_spec v 0) as [L|L].
  - destruct H as (t & -> & _ & E). unfold parse_dec. rewrite fold_dval. lia.
  - destruct H as ((Hne & Hd & _) & E). destruct s as [|c t]; [congruence|].
    assert (c <> 45) by (inversion Hd; subst; unfold isdig in *; lia).
    unfold parse_dec.
    assert (E2 : fold_left (fun a c0 => 10 * a + (c0 - 48)) (c :: t) 0 = v) by (rewrite fold_dval; lia).
    destruct c as [|p|p]; try exact E2.
    do 6 (destruct p as [p|p|]; try exact E2). lia.
Qed.

(* ------------------------------------------------------------------ sprintf("%ld") *)
Lemma dec_digits_spec : forall fuel u acc, (1 <= fuel)%nat -> 0 <= u < 10 ^ Z.of_nat fuel ->
  alldig acc -> (0 < u \/ acc = []) ->
  let s := dec_digits fuel u acc in
  dval s = u * 10 ^ len acc + dval acc /\ alldig s /\ s <> [] /\ (hd 0 s <> 48 \/ (u = 0 /\ s = [48])).
Proof.
  induction fuel as [|f IH]; intros u acc Hf Hu Ha Hz; [lia|].
  cbn [dec_digits]. cbv zeta.
  assert (Hc : isdig (48 + u mod 10)) by (unfold isdig; lia).
  assert (Ha' : alldig ((48 + u mod 10) :: acc)) by (constructor; auto).
  destruct (Z.eqb_spec (u / 10) 0) as [E|E].
  - assert (u < 10) by lia.
    cbn [dval hd]. split; [replace (48 + u mod 10 - 48) with u by lia; lia|].
    split; [exact Ha'|]. split; [congruence|].
    destruct (Z.eq_dec u 0) as [->|]; [right | left; lia].
    split; [reflexivity|]. destruct Hz as [Hz | Hz]; [lia | rewrite Hz; reflexivity].
  - rewrite Nat2Z.inj_succ, Z.pow_succ_r in Hu by lia.
    assert (Hf' : (1 <= f)%nat).
    { destruct f; [|lia]. cbn in Hu. lia. }
    destruct (IH (u / 10) ((48 + u mod 10) :: acc) Hf' ltac:(lia) Ha' ltac:(lia)) as (V & D & N & H).
    split; [|split; [exact D | split; [exact N|]]].
    + rewrite V. cbn [dval]. rewrite len_cons, Z.pow_add_r by (try apply len_nonneg; lia).
      pose proof (pow10_pos (len acc) (len_nonneg acc)). nia.
    + destruct H as [H|(H & _)]; [left; exact H | lia].
Qed.

Lemma sprintf_ld_repr : forall n, - H63 <= n < H63 -> dec_repr (sprintf_ld n) n.
Proof.
  intros n Hn. unfold sprintf_ld, dec_repr.
  assert (P : 10 ^ Z.of_nat 20 = 100000000000000000000) by (vm_compute; reflexivity).
  destruct (Z.ltb_spec n 0) as [L|L].
  - exists (dec_digits 20 (- n) []). split; [reflexivity|].
    assert (Hu : 0 <= - n < 10 ^ Z.of_nat 20) by (rewrite P; unfold H63 in *; lia).
    destruct (dec_digits_spec 20 (- n) [] ltac:(lia) Hu ltac:(constructor) ltac:(lia))
      as (V & D & N & H).
    cbn [dval] in V. rewrite len_nil in V. split; [|lia].
    split; [exact N|]. split; [exact D|]. destruct H as [H|(H & _)]; [right; exact H | lia].
  - assert (Hu : 0 <= n < 10 ^ Z.of_nat 20) by (rewrite P; unfold H63 in *; lia).
    destruct (dec_digits_spec 20 n [] ltac:(lia) Hu ltac:(constructor) ltac:(right; reflexivity))
      as (V & D & N & H).
    cbn [dval] in V. rewrite len_nil in V. split; [|lia].
    split; [exact N|]. split; [exact D|]. destruct H as [H|(_ & H)]; [right; exact H | left; exact H].
Qed.

(* ------------------------------------------------------------------ the chunked conversion loop *)
Lemma dec_rio_eq : dec_rio = (1000000000, 9). Proof. vm_compute. reflexivity. Qed.
Lemma dec_rim_eq : dec_rim = (1000000000000000000, 18). Proof. vm_compute. reflexivity. Qed.

Lemma emit_dec_spec : forall j r acc, 0 <= r -> alldig acc ->
  dval (emit_dec j r acc) = (r mod 10 ^ Z.of_nat j) * 10 ^ len acc + dval acc /\
  alldig (emit_dec j r acc) /\ len (emit_dec j r acc) = Z.of_nat j + len acc.
Proof.
  induction j as [|j IH]; intros r acc Hr Ha.
  - cbn [emit_dec]. change (10 ^ Z.of_nat 0) with 1. rewrite Z.mod_1_r. split; [lia | split; [exact Ha | lia]].
  - cbn [emit_dec].
    assert (Ha' : alldig ((48 + r mod 10) :: acc)) by (constructor; [unfold isdig; lia | exact Ha]).
    destruct (IH (r / 10) _ ltac:(apply Z.div_pos; lia) Ha') as (V & D & L).
    rewrite V, L. cbn [dval]. rewrite len_cons.
    split; [|split; [exact D | lia]].
    rewrite Nat2Z.inj_succ, Z.pow_succ_r by lia.
    rewrite (Z.rem_mul_r r 10 (10 ^ Z.of_nat j)) by (try apply Z.pow_pos_nonneg; lia).
    rewrite Z.pow_add_r by (try apply len_nonneg; lia).
    pose proof (pow10_pos (len acc) (len_nonneg acc)). nia.
Qed.

Lemma tostr_loop_spec : forall fuel ds acc, normal ds -> alldig acc ->
  lval ds < 1000000000 ^ Z.of_nat fuel ->
  exists s, tostr_loop fuel ds acc = Some s /\ dval s = lval ds * 10 ^ len acc + dval acc /\ alldig s.
Proof.
  induction fuel as [|f IH]; intros ds acc Hn Ha Hv.
  - change (1000000000 ^ Z.of_nat 0) with 1 in Hv.
    destruct Hn as (Hd & Hl). pose proof (lval_bound _ Hd).
    rewrite (normal_zero ds (conj Hd Hl) ltac:(lia)). cbn [tostr_loop lval]. exists acc. split; [reflexivity|]. split; [lia | exact Ha].
  - destruct ds as [|d0 dt].
    + cbn [tostr_loop lval]. exists acc. split; [reflexivity|]. split; [lia | exact Ha].
    + cbn [tostr_loop]. rewrite dec_rio_eq. cbn [fst snd].
      destruct (iintDivideS_spec (d0 :: dt) 1000000000 Hn ltac:(unfold R; lia)) as (V & Hr & Nq).
      destruct (iintDivideS (d0 :: dt) 1000000000) as [q r]. cbn [fst snd] in *.
      destruct (emit_dec_spec (Z.to_nat 9) r acc ltac:(lia) Ha) as (Ve & De & Le).
      rewrite Nat2Z.inj_succ, Z.pow_succ_r in Hv by lia.
      destruct Nq as (Dq & Nq). pose proof (lval_bound _ Dq) as Bq.
      destruct (IH q (emit_dec (Z.to_nat 9) r acc) (conj Dq Nq) De ltac:(nia)) as (s & Es & Vs & Ds).
      exists s. split; [exact Es|]. split; [|exact Ds].
      rewrite Vs, Ve, Le. change (Z.of_nat (Z.to_nat 9)) with 9.
      rewrite Z.mod_small by lia.
      rewrite Z.pow_add_r by (try apply len_nonneg; lia).
      change (10 ^ 9) with 1000000000.
      pose proof (pow10_pos (len acc) (len_nonneg acc)). nia.
Qed.

Lemma skip_zeros_spec : forall s, alldig s ->
  dval (skip_zeros s) = dval s /\ alldig (skip_zeros s) /\ (skip_zeros s = [] \/ hd 0 (skip_zeros s) <> 48).
Proof.
  induction s as [|c t IH]; intros H.
  - cbn [skip_zeros]. split; [reflexivity|]. split; [exact H | left; reflexivity].
  - inversion H as [|? ? Hc Ht]; subst. specialize (IH Ht).
    destruct (Z.eq_dec c 48) as [->|Hne].
    + change (skip_zeros (48 :: t)) with (skip_zeros t). cbn [dval]. destruct IH as (V & D & Hh). split; [lia | auto].
    + assert (E : skip_zeros (c :: t) = c :: t).
      { cbn [skip_zeros]. destruct c as [|p|p]; try reflexivity.
        do 6 (destruct p as [p|p|]; try reflexivity). congruence. }
      rewrite E. split; [reflexivity|]. split; [exact H | right; exact Hne].
Qed.

Lemma pow_2_29_le : forall n, 0 <= n -> 2 ^ (29 * n) <= 1000000000 ^ n.
Proof.
  intros n Hn. rewrite Z.pow_mul_r by lia. apply Z.pow_le_mono_l. change (2 ^ 29) with 536870912. lia.
Qed.

Theorem to_string_exact : forall a, norm a ->
  exists s, bintToString a = Some s /\ dec_repr s (val a) /\ parse_dec s = val a.
Proof.
  intros a Ha.
  enough (H : exists s, bintToString a = Some s /\ dec_repr s (val a)).
  { destruct H as (s & E & Hr). exists s. split; [exact E|]. split; [exact Hr | apply dec_repr_parse; exact Hr]. }
  destruct a as [n|neg ds].
  - exists (sprintf_ld n). split; [reflexivity|]. cbn [val]. apply sprintf_ld_repr. apply imm_range. exact Ha.
  - pose proof (length_exact _ Ha) as HL.
    pose proof (norm_sto_len _ _ Ha) as Hlen.
    pose proof Ha as Ha'. apply norm_sto in Ha'. destruct Ha' as (Hd & Hnz & Hv). unfold IMM_MAX in Hv.
    assert (Ea : Z.abs (val (Sto neg ds)) = lval ds) by (cbn [val]; destruct neg; lia).
    rewrite Ea in HL.
    unfold bintToString, bintIntoString, bintStringSize. rewrite dec_rio_eq. cbn [snd]. rewrite HL.
    set (L := bitlen (lval ds)).
    assert (HLb : 1 <= L /\ lval ds < 2 ^ L).
    { unfold L, bitlen. destruct (Z.eqb_spec (lval ds) 0); [lia|].
      pose proof (Z.log2_spec (lval ds) ltac:(lia)) as (_ & Hi). pose proof (Z.log2_nonneg (lval ds)).
      replace (Z.log2 (lval ds) + 1) with (Z.succ (Z.log2 (lval ds))) by lia. split; [lia | exact Hi]. }
    destruct HLb as (HL1 & HL2).
    set (fuel := Z.to_nat ((Z.quot L 3 + 3 + 9 - 1) / 9)).
    assert (Hfuel : L <= 29 * Z.of_nat fuel).
    { unfold fuel. rewrite Z.quot_div_nonneg by lia. rewrite Z2Nat.id by (apply Z.div_pos; lia). lia. }
    assert (Hlt : lval ds < 1000000000 ^ Z.of_nat fuel).
    { pose proof (pow_2_29_le (Z.of_nat fuel) ltac:(lia)).
      assert (2 ^ L <= 2 ^ (29 * Z.of_nat fuel)) by (apply Z.pow_le_mono_r; lia). lia. }
    destruct (tostr_loop_spec fuel ds [] (conj Hd (or_intror Hnz)) ltac:(constructor) Hlt) as (s & Es & Vs & Ds).
    rewrite Es. cbn [dval] in Vs. rewrite len_nil in Vs.
    destruct (skip_zeros_spec s Ds) as (V2 & D2 & H2).
    set (s2 := skip_zeros s) in *.
    assert (Hs2 : s2 <> []) by (intros E; rewrite E in V2; cbn [dval] in V2; lia).
    assert (Em : match s2 with [] => [48] | _ :: _ => s2 end = s2) by (destruct s2; congruence).
    rewrite Em.
    assert (Cd : canon_digits s2).
    { split; [exact Hs2|]. split; [exact D2|]. destruct H2 as [H2|H2]; [congruence | right; exact H2]. }
    destruct neg.
    + exists (45 :: s2). split; [reflexivity|]. unfold dec_repr. cbn [val].
      destruct (Z.ltb_spec (- lval ds) 0); [|lia]. exists s2. split; [reflexivity|]. split; [exact Cd | lia].
    + exists s2. split; [reflexivity|]. unfold dec_repr. cbn [val].
      destruct (Z.ltb_spec (lval ds) 0); [lia|]. split; [exact Cd | lia].
Qed.
