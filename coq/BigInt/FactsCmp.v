(* C11 — uintLength, xintStore, xintImmedIfCan, bintNew, comparison, negate, abs. *)
Require Import ZArith List Bool Lia ZifyBool.
Require Import AV.BigInt.Model AV.BigInt.Facts.
Import ListNotations.
Local Open Scope Z_scope.
Ltac Zify.zify_post_hook ::= Z.div_mod_to_equations.

(* ------------------------------------------------------------------ uintLength *)
(* the loop "for (i = 1, p = 2; ; i++, p <<= 1) if (!p || u < p) break;" returns the least i >= 1
   with u < 2^i (64 when there is none below 64) *)
Lemma uintLength_loop_spec : forall fuel i u,
  0 <= u < W64 -> 1 <= i <= 64 -> (Z.to_nat (65 - i) <= fuel)%nat ->
  (forall j, 1 <= j < i -> 2 ^ j <= u) ->
  let r := uintLength_loop fuel i (u64 (2 ^ i)) u in
  i <= r <= 64 /\ u < 2 ^ r /\ (forall j, 1 <= j < r -> 2 ^ j <= u).
Proof.
  induction fuel as [|f IH]; intros i u Hu Hi Hf Hlow; [lia|].
  cbn [uintLength_loop].
  destruct (Z.eq_dec i 64) as [->|Hne].
  - assert (E : u64 (2 ^ 64) = 0) by reflexivity. rewrite E. cbn [Z.eqb orb].
    split; [lia|]. split; [unfold W64 in Hu; change (2 ^ 64) with 18446744073709551616; lia | exact Hlow].
  - assert (Hp : 0 < 2 ^ i < W64).
    { split; [apply Z.pow_pos_nonneg; lia|]. change W64 with (2 ^ 64). apply Z.pow_lt_mono_r; lia. }
    rewrite (u64_id (2 ^ i)) by lia.
    destruct (Z.eqb_spec (2 ^ i) 0) as [E0|_]; [lia|]. cbn [orb].
    destruct (Z.ltb_spec u (2 ^ i)) as [Hlt|Hge].
    + split; [lia|]. split; [exact Hlt | exact Hlow].
    + assert (E2 : 2 ^ i * 2 = 2 ^ (i + 1)) by (rewrite Z.pow_add_r by lia; lia).
      rewrite E2.
      specialize (IH (i + 1) u Hu ltac:(lia) ltac:(lia)).
      assert (Hlow' : forall j, 1 <= j < i + 1 -> 2 ^ j <= u).
      { intros j Hj. destruct (Z.eq_dec j i) as [->|]; [exact Hge | apply Hlow; lia]. }
      specialize (IH Hlow'). cbv zeta in IH. destruct IH as (H1 & H2 & H3).
      split; [lia|]. split; assumption.
Qed.
Lemma uintLength_spec : forall u, 0 <= u < W64 ->
  1 <= uintLength u <= 64 /\ u < 2 ^ uintLength u /\ (1 < uintLength u -> 2 ^ (uintLength u - 1) <= u).
Proof.
  intros u Hu. unfold uintLength.
  pose proof (uintLength_loop_spec 64 1 u Hu ltac:(lia) ltac:(cbn; lia) ltac:(intros; lia)) as H.
  cbv zeta in H. change (u64 (2 ^ 1)) with 2 in H. destruct H as (H1 & H2 & H3).
  split; [lia|]. split; [exact H2|]. intros Hgt. apply H3. lia.
Qed.
Lemma uintLength_digit : forall d, 0 <= d < R -> 1 <= uintLength d <= 32.
Proof.
  intros d Hd. pose proof (uintLength_spec d ltac:(unfold W64, R in *; lia)) as (H1 & H2 & H3).
  destruct (Z_le_gt_dec (uintLength d) 32) as [H|H]; [lia|].
  specialize (H3 ltac:(lia)).
  assert (2 ^ 32 <= 2 ^ (uintLength d - 1)) by (apply Z.pow_le_mono_r; lia).
  change (2 ^ 32) with R in *. lia.
Qed.

(* ------------------------------------------------------------------ digitsR, xintStore *)
Lemma digitsR_spec : forall fuel u, 0 <= u < Rp fuel ->
  lval (digitsR fuel u) = u /\ dok (digitsR fuel u) /\
  (digitsR fuel u = [] \/ last (digitsR fuel u) 0 <> 0) /\ (u <> 0 -> digitsR fuel u <> []).
Proof.
  induction fuel as [|f IH]; intros u Hu.
  - rewrite Rp_0 in Hu. cbn [digitsR lval]. repeat split; auto using dok_nil; lia.
  - rewrite Rp_S in Hu. cbn [digitsR]. destruct (Z.eqb_spec u 0) as [->|Hne].
    + cbn [lval]. repeat split; auto using dok_nil; lia.
    + assert (Hq : 0 <= u / R < Rp f).
      { split; [apply Z.div_pos; unfold R; lia | apply Z.div_lt_upper_bound; unfold R in *; lia]. }
      destruct (IH (u / R) Hq) as (Hv & Hd & Hl & Hn).
      cbn [lval]. rewrite Hv. split; [unfold R; lia|].
      split; [apply dok_cons; split; [unfold R; lia | exact Hd]|].
      split; [|congruence].
      right. destruct (digitsR f (u / R)) as [|e t] eqn:E.
      * cbn [last]. cbn [lval] in Hv. unfold R in *. lia.
      * rewrite last_cons_cons. destruct Hl as [Hl|Hl]; [discriminate | exact Hl].
Qed.

Lemma xintCopyInI_spec : forall n, - H63 <= n < H63 ->
  exists ds, xintCopyInI n = Sto (n <? 0) ds /\ wf ds /\ lval ds = Z.abs n.
Proof.
  intros n Hn. unfold xintCopyInI, uabs. rewrite u64_id by (unfold W64, H63 in *; lia).
  destruct (Z.ltb_spec (Z.abs n) R) as [Hlt|Hge].
  - exists [Z.abs n]. split; [reflexivity|]. split.
    + split; [apply dok_cons; split; [lia | apply dok_nil]|]. split; [congruence|]. cbn. lia.
    + cbn [lval]. lia.
  - destruct (digitsR_spec 4 (Z.abs n)) as (Hv & Hd & Hl & Hne).
    { change (Rp 4) with (R * R * R * R). unfold R, H63 in *. lia. }
    exists (digitsR 4 (Z.abs n)). split; [reflexivity|]. split; [|exact Hv].
    split; [exact Hd|]. split; [apply Hne; unfold R in *; lia|].
    intros _. destruct Hl as [Hl|Hl]; [|exact Hl]. exfalso. apply Hne; [unfold R in *; lia | exact Hl].
Qed.

Lemma imm_range : forall n, norm (Imm n) -> - H63 <= n < H63.
Proof. intros n H. apply norm_imm in H. unfold IMM_MIN, IMM_MAX, H63 in *. lia. Qed.

(* xintStore of a normal number: sign and a well-formed magnitude *)
Lemma xintStore_spec : forall a, norm a ->
  exists ds, xintStore a = Sto (val a <? 0) ds /\ wf ds /\ lval ds = Z.abs (val a).
Proof.
  intros [n|neg ds] Ha.
  - unfold xintStore, xintStoreI, val. apply xintCopyInI_spec. apply imm_range; exact Ha.
  - exists ds. pose proof (norm_sto_wf _ _ Ha) as Hwf. apply norm_sto in Ha.
    destruct Ha as (Hd & Hl & Hv). unfold xintStore, val. unfold IMM_MAX in Hv.
    split; [|split; [exact Hwf|]].
    + destruct neg; f_equal; lia.
    + destruct neg; lia.
Qed.

(* ------------------------------------------------------------------ xintImmedIfCan *)
Lemma IntToBInt_norm : forall n, IMM_MIN <= n <= IMM_MAX ->
  IntToBInt n = Imm n /\ norm (Imm n).
Proof.
  intros n Hn. unfold IntToBInt. rewrite wrap63_id by (unfold IMM_MIN, IMM_MAX in *; lia).
  split; [reflexivity | apply norm_imm; exact Hn].
Qed.

Lemma xintImmedIfCan_ok : forall neg ds, res_ok ds ->
  val (xintImmedIfCan (Sto neg ds)) = val (Sto neg ds) /\ norm (xintImmedIfCan (Sto neg ds)).
Proof.
  intros neg ds (Hd & Hl).
  destruct ds as [|d0 [|d1 [|d2 t]]].
  - cbn [xintImmedIfCan]. destruct (IntToBInt_norm 0) as (E & N); [unfold IMM_MIN, IMM_MAX; lia|].
    rewrite E. split; [|exact N]. unfold val. cbn [lval]. destruct neg; reflexivity.
  - apply dok_cons in Hd. destruct Hd as (H0 & _).
    cbn [xintImmedIfCan].
    assert (Hlt : (IMM_MAX <? d0) = false) by (unfold IMM_MAX, R in *; lia).
    rewrite Hlt. unfold val at 2. cbn [lval].
    destruct neg.
    + destruct (IntToBInt_norm (- d0)) as (E & N); [unfold IMM_MIN, IMM_MAX, R in *; lia|].
      rewrite E. split; [cbn [val]; lia | exact N].
    + destruct (IntToBInt_norm d0) as (E & N); [unfold IMM_MIN, IMM_MAX, R in *; lia|].
      rewrite E. split; [cbn [val]; lia | exact N].
  - pose proof Hd as Hd'. apply dok_cons in Hd. destruct Hd as (H0 & Hd). apply dok_cons in Hd. destruct Hd as (H1 & _).
    cbn [xintImmedIfCan].
    rewrite u64_id by (unfold W64, R in *; lia).
    assert (Ev : lval [d0; d1] = d1 * R + d0) by (cbn [lval]; lia).
    destruct (Z.ltb_spec IMM_MAX (d1 * R + d0)) as [Hbig|Hsmall].
    + assert (N : norm (Sto neg [d0; d1])).
      { apply norm_sto. split; [exact Hd'|]. split; [|rewrite Ev; exact Hbig].
        cbn [last]. unfold IMM_MAX, R in *. lia. }
      destruct neg; (split; [reflexivity | exact N]).
    + destruct neg.
      * destruct (IntToBInt_norm (- (d1 * R + d0))) as (E & N); [unfold IMM_MIN, IMM_MAX, R in *; lia|].
        rewrite E. split; [unfold val; rewrite Ev; reflexivity | exact N].
      * destruct (IntToBInt_norm (d1 * R + d0)) as (E & N); [unfold IMM_MIN, IMM_MAX, R in *; lia|].
        rewrite E. split; [unfold val; rewrite Ev; reflexivity | exact N].
  - cbn [xintImmedIfCan]. split; [reflexivity|].
    apply norm_sto. split; [exact Hd|].
    assert (H3 : 3 <= len (d0 :: d1 :: d2 :: t)) by (rewrite !len_cons; pose proof (len_nonneg t); lia).
    specialize (Hl H3). split; [exact Hl|].
    pose proof (last_nz_ge _ Hd ltac:(congruence) Hl) as Hge.
    assert (Rp 2 <= Rp (length (d0 :: d1 :: d2 :: t) - 1)) by (apply Rp_mono; cbn [length]; lia).
    rewrite Rp_2 in *. unfold IMM_MAX. lia.
Qed.

Lemma bintNew_spec : forall n, - H63 <= n < H63 -> val (bintNew n) = n /\ norm (bintNew n).
Proof.
  intros n Hn. unfold bintNew. destruct (INT_IS_IMMED n) eqn:E.
  - assert (IMM_MIN <= n <= IMM_MAX) by (unfold INT_IS_IMMED in E; lia).
    destruct (IntToBInt_norm n H) as (E1 & N). rewrite E1. split; [reflexivity | exact N].
  - assert (Hout : n < IMM_MIN \/ IMM_MAX < n) by (unfold INT_IS_IMMED in E; lia).
    unfold xintStoreI. destruct (xintCopyInI_spec n Hn) as (ds & E1 & Hwf & Hv).
    rewrite E1. unfold val. rewrite Hv.
    split; [destruct (Z.ltb_spec n 0); lia|].
    apply norm_sto. destruct Hwf as (Hd & Hne & Hl).
    assert (Hbig : IMM_MAX < lval ds) by (unfold IMM_MIN, IMM_MAX in *; lia).
    split; [exact Hd|]. split; [|exact Hbig].
    apply Hl. pose proof (lval_bound ds Hd) as Hb.
    destruct ds as [|x [|y t]]; [congruence| |rewrite !len_cons; pose proof (len_nonneg t); lia].
    cbn [length] in Hb. rewrite Rp_1 in Hb. unfold IMM_MAX, R in *. lia.
Qed.

(* ------------------------------------------------------------------ comparison *)
Lemma lcmp_spec : forall a b, dok a -> dok b -> length a = length b -> lcmp a b = (lval a ?= lval b).
Proof.
  induction a as [|x a IH]; intros [|y b] Ha Hb Hl; cbn [length] in Hl; try discriminate.
  - reflexivity.
  - apply dok_cons in Ha. apply dok_cons in Hb. destruct Ha as [Hx Ha], Hb as [Hy Hb].
    cbn [lcmp lval]. rewrite (IH b Ha Hb ltac:(lia)).
    destruct (Z.compare_spec (lval a) (lval b)) as [E|E|E].
    + rewrite E. destruct (Z.compare_spec x y); symmetry; [apply Z.compare_eq_iff | apply Z.compare_lt_iff | apply Z.compare_gt_iff]; lia.
    + symmetry. apply Z.compare_lt_iff. unfold R in *. lia.
    + symmetry. apply Z.compare_gt_iff. unfold R in *. lia.
Qed.
Lemma leqb_spec : forall a b, dok a -> dok b -> length a = length b -> leqb a b = (lval a =? lval b).
Proof.
  induction a as [|x a IH]; intros [|y b] Ha Hb Hl; cbn [length] in Hl; try discriminate.
  - reflexivity.
  - apply dok_cons in Ha. apply dok_cons in Hb. destruct Ha as [Hx Ha], Hb as [Hy Hb].
    cbn [leqb lval]. rewrite (IH b Ha Hb ltac:(lia)). unfold R in *. lia.
Qed.

Lemma len_eqb : forall a b : list Z, (len a =? len b) = true -> length a = length b.
Proof. intros a b H. unfold len in H. lia. Qed.

Lemma lt_mag_spec : forall a b, wf a -> wf b -> lt_mag a b = (lval a <? lval b).
Proof.
  intros a b Ha Hb. unfold lt_mag.
  destruct (Z.eqb_spec (len a) (len b)) as [E|E]; cbn [negb].
  - destruct Ha as (Hda & _), Hb as (Hdb & _).
    rewrite lcmp_spec by (auto; unfold len in E; lia).
    destruct (Z.compare_spec (lval a) (lval b)); lia.
  - destruct (Z.ltb_spec (len a) (len b)) as [L|L].
    + pose proof (wf_len_lt a b Ha Hb L). lia.
    + pose proof (wf_len_lt b a Hb Ha ltac:(lia)). lia.
Qed.
Lemma gt_mag_spec : forall a b, wf a -> wf b -> gt_mag a b = (lval b <? lval a).
Proof.
  intros a b Ha Hb. unfold gt_mag.
  destruct (Z.eqb_spec (len a) (len b)) as [E|E]; cbn [negb].
  - destruct Ha as (Hda & _), Hb as (Hdb & _).
    rewrite lcmp_spec by (auto; unfold len in E; lia).
    destruct (Z.compare_spec (lval a) (lval b)); lia.
  - destruct (Z.ltb_spec (len b) (len a)) as [L|L].
    + pose proof (wf_len_lt b a Hb Ha L). lia.
    + pose proof (wf_len_lt a b Ha Hb ltac:(lia)). lia.
Qed.

Lemma sto_val_big : forall neg ds, norm (Sto neg ds) ->
  (neg = true /\ val (Sto neg ds) < IMM_MIN) \/ (neg = false /\ IMM_MAX < val (Sto neg ds)).
Proof.
  intros neg ds H. apply norm_sto in H. destruct H as (_ & _ & Hv). unfold val, IMM_MIN.
  destruct neg; [left | right]; split; auto; lia.
Qed.

Theorem lt_exact : forall a b, norm a -> norm b -> bintLT a b = (val a <? val b).
Proof.
  intros [x|na da] [y|nb db] Ha Hb.
  - reflexivity.
  - apply norm_imm in Ha. destruct (sto_val_big _ _ Hb) as [(-> & H)|(-> & H)];
      unfold IMM_MIN, IMM_MAX in *; cbn [bintLT negb val] in *; lia.
  - apply norm_imm in Hb. destruct (sto_val_big _ _ Ha) as [(-> & H)|(-> & H)];
      unfold IMM_MIN, IMM_MAX in *; cbn [bintLT val] in *; lia.
  - pose proof (norm_sto_wf _ _ Ha) as Wa. pose proof (norm_sto_wf _ _ Hb) as Wb.
    apply norm_sto in Ha. apply norm_sto in Hb. destruct Ha as (_ & _ & Va), Hb as (_ & _ & Vb).
    unfold IMM_MAX in *. cbn [bintLT val].
    destruct na, nb; cbn [Bool.eqb negb andb];
      rewrite ?lt_mag_spec, ?gt_mag_spec by assumption; lia.
Qed.
Theorem gt_exact : forall a b, norm a -> norm b -> bintGT a b = (val b <? val a).
Proof.
  intros [x|na da] [y|nb db] Ha Hb.
  - reflexivity.
  - apply norm_imm in Ha. destruct (sto_val_big _ _ Hb) as [(-> & H)|(-> & H)];
      unfold IMM_MIN, IMM_MAX in *; cbn [bintGT val] in *; lia.
  - apply norm_imm in Hb. destruct (sto_val_big _ _ Ha) as [(-> & H)|(-> & H)];
      unfold IMM_MIN, IMM_MAX in *; cbn [bintGT negb val] in *; lia.
  - pose proof (norm_sto_wf _ _ Ha) as Wa. pose proof (norm_sto_wf _ _ Hb) as Wb.
    apply norm_sto in Ha. apply norm_sto in Hb. destruct Ha as (_ & _ & Va), Hb as (_ & _ & Vb).
    unfold IMM_MAX in *. cbn [bintGT val].
    destruct na, nb; cbn [Bool.eqb negb andb];
      rewrite ?lt_mag_spec, ?gt_mag_spec by assumption; lia.
Qed.
Theorem eq_exact : forall a b, norm a -> norm b -> bintEQ a b = (val a =? val b).
Proof.
  intros [x|na da] [y|nb db] Ha Hb.
  - reflexivity.
  - apply norm_imm in Ha. destruct (sto_val_big _ _ Hb) as [(-> & H)|(-> & H)];
      unfold IMM_MIN, IMM_MAX in *; cbn [bintEQ val] in *; lia.
  - apply norm_imm in Hb. destruct (sto_val_big _ _ Ha) as [(-> & H)|(-> & H)];
      unfold IMM_MIN, IMM_MAX in *; cbn [bintEQ val] in *; lia.
  - pose proof (norm_sto_wf _ _ Ha) as Wa. pose proof (norm_sto_wf _ _ Hb) as Wb.
    apply norm_sto in Ha. apply norm_sto in Hb. destruct Ha as (Da & _ & Va), Hb as (Db & _ & Vb).
    unfold IMM_MAX in *. cbn [bintEQ val].
    destruct na, nb; cbn [Bool.eqb negb]; try lia.
    + destruct (Z.eqb_spec (len da) (len db)) as [E|E]; cbn [negb].
      * rewrite leqb_spec by (auto; unfold len in E; lia). lia.
      * destruct (Z_lt_le_dec (len da) (len db)) as [L|L].
        -- pose proof (wf_len_lt _ _ Wa Wb L). lia.
        -- pose proof (wf_len_lt _ _ Wb Wa ltac:(lia)). lia.
    + destruct (Z.eqb_spec (len da) (len db)) as [E|E]; cbn [negb].
      * rewrite leqb_spec by (auto; unfold len in E; lia). lia.
      * destruct (Z_lt_le_dec (len da) (len db)) as [L|L].
        -- pose proof (wf_len_lt _ _ Wa Wb L). lia.
        -- pose proof (wf_len_lt _ _ Wb Wa ltac:(lia)). lia.
Qed.
Theorem le_exact : forall a b, norm a -> norm b -> bintLE a b = (val a <=? val b).
Proof. intros a b Ha Hb. unfold bintLE. rewrite gt_exact by assumption. lia. Qed.
Theorem ge_exact : forall a b, norm a -> norm b -> bintGE a b = (val b <=? val a).
Proof. intros a b Ha Hb. unfold bintGE. rewrite lt_exact by assumption. lia. Qed.
Theorem ne_exact : forall a b, norm a -> norm b -> bintNE a b = negb (val a =? val b).
Proof. intros a b Ha Hb. unfold bintNE. rewrite eq_exact by assumption. reflexivity. Qed.

Theorem sign_tests_exact : forall a, norm a ->
  bintIsNeg a = (val a <? 0) /\ bintIsZero a = (val a =? 0) /\ bintIsPos a = (0 <? val a).
Proof.
  intros [n|neg ds] Ha.
  - cbn [bintIsNeg bintIsZero bintIsPos val]. auto.
  - pose proof (norm_sto_len _ _ Ha) as Hl. destruct (sto_val_big _ _ Ha) as [(-> & H)|(-> & H)];
      unfold IMM_MIN, IMM_MAX in H; cbn [bintIsNeg bintIsZero bintIsPos negb]; repeat split; lia.
Qed.

(* ------------------------------------------------------------------ negate / abs *)
Theorem negate_exact : forall a, norm a -> val (bintNegate a) = - val a /\ norm (bintNegate a).
Proof.
  intros [n|neg ds] Hn.
  - apply norm_imm in Hn. unfold bintNegate.
    destruct (IntToBInt_norm (- n)) as (E & N); [unfold IMM_MIN, IMM_MAX in *; lia|].
    rewrite E. split; [reflexivity | exact N].
  - unfold bintNegate, val. split.
    + destruct neg; cbn [negb]; lia.
    + apply norm_sto in Hn. apply norm_sto. exact Hn.
Qed.
Theorem abs_exact : forall a, norm a -> val (bintAbs a) = Z.abs (val a) /\ norm (bintAbs a).
Proof.
  intros [n|neg ds] Hn.
  - pose proof Hn as Hn'. apply norm_imm in Hn. unfold bintAbs. destruct (Z.ltb_spec n 0) as [L|L].
    + destruct (bintNew_spec (- n)) as (V & N); [unfold IMM_MIN, IMM_MAX, H63 in *; lia|].
      rewrite V. split; [cbn [val]; lia | exact N].
    + split; [cbn [val]; lia | exact Hn'].
  - unfold bintAbs. split.
    + apply norm_sto in Hn. destruct Hn as (_ & _ & Hv). unfold IMM_MAX in Hv. cbn [val]. destruct neg; lia.
    + apply norm_sto in Hn. apply norm_sto. exact Hn.
Qed.
