(* C11 — decimal input: bintScanFrString returns the exact value of the digit string, in normal form,
   and stops at the first character that is not a digit. *)
Require Import ZArith List Bool Lia ZifyBool.
Require Import AV.BigInt.Model AV.BigInt.Facts AV.BigInt.FactsCmp AV.BigInt.FactsAdd AV.BigInt.FactsMul
               AV.BigInt.FactsBits AV.BigInt.FactsDivS AV.BigInt.FactsStr.
Import ListNotations.
Local Open Scope Z_scope.
Ltac Zify.zify_post_hook ::= Z.div_mod_to_equations.

Definition notdig_head (rest : list Z) : Prop := match rest with c :: _ => ~ isdig c | [] => True end.

Lemma isdigit_iff : forall c, isdigit c = true <-> isdig c.
Proof. intros c. unfold isdigit, isdig. lia. Qed.

Lemma sign_match : forall (s : list Z),
  (match s with 45 :: t => (true, t) | _ => (false, s) end) =
  match s with c :: t => if c =? 45 then (true, t) else (false, s) | [] => (false, s) end.
Proof.
  intros [|c t]; [reflexivity|].
  destruct c as [|p|p]; try reflexivity.
  do 6 (destruct p as [p|p|]; try reflexivity).
Qed.

Lemma take_skip_digits : forall ds rest, alldig ds -> notdig_head rest ->
  take_while isdigit (ds ++ rest) = ds /\ skip_while isdigit (ds ++ rest) = rest.
Proof.
  induction ds as [|c t IH]; intros rest Hd Hr.
  - cbn [app]. destruct rest as [|c r]; [split; reflexivity|].
    cbn [notdig_head] in Hr. cbn [take_while skip_while].
    destruct (isdigit c) eqn:E; [apply isdigit_iff in E; contradiction | split; reflexivity].
  - inversion Hd as [|? ? Hc Ht]; subst. destruct (IH rest Ht Hr) as (E1 & E2).
    cbn [app take_while skip_while]. apply isdigit_iff in Hc. rewrite Hc, E1, E2. split; reflexivity.
Qed.

Lemma skip_zeros_app : forall ds rest, alldig ds -> notdig_head rest ->
  exists ds', skip_while (fun c => c =? 48) (ds ++ rest) = ds' ++ rest /\
              alldig ds' /\ dval ds' = dval ds /\ len ds' <= len ds.
Proof.
  induction ds as [|c t IH]; intros rest Hd Hr.
  - exists []. cbn [app]. split; [|split; [constructor | split; [reflexivity | lia]]].
    destruct rest as [|c r]; [reflexivity|]. cbn [notdig_head] in Hr. cbn [skip_while].
    destruct (Z.eqb_spec c 48) as [->|]; [exfalso; apply Hr; unfold isdig; lia | reflexivity].
  - inversion Hd as [|? ? Hc Ht]; subst. cbn [app skip_while].
    destruct (Z.eqb_spec c 48) as [->|Hne].
    + destruct (IH rest Ht Hr) as (ds' & E & D & V & L). exists ds'.
      split; [exact E|]. split; [exact D|]. split; [cbn [dval]; lia | rewrite len_cons; lia].
    + exists (c :: t). split; [reflexivity|]. split; [exact Hd|]. split; [reflexivity | lia].
Qed.

Lemma dval_lt : forall s, alldig s -> 0 <= dval s < 10 ^ len s.
Proof.
  induction s as [|c t IH]; intros H.
  - cbn [dval]. rewrite len_nil. change (10 ^ 0) with 1. lia.
  - inversion H as [|? ? Hc Ht]; subst. specialize (IH Ht). unfold isdig in Hc.
    cbn [dval]. rewrite len_cons, Z.pow_add_r by (try apply len_nonneg; lia).
    pose proof (pow10_pos (len t) (len_nonneg t)). nia.
Qed.

Lemma digval_dig : forall c, isdig c -> digval c = c - 48.
Proof. intros c H. unfold digval, isdig in *. destruct (Z.leb_spec c 57); lia. Qed.

Lemma horner10_spec : forall cs n, alldig cs -> 0 <= n -> n * 10 ^ len cs + dval cs < H63 ->
  horner 10 cs n = n * 10 ^ len cs + dval cs.
Proof.
  induction cs as [|c t IH]; intros n Hd Hn Hb.
  - cbn [horner dval]. rewrite len_nil. lia.
  - inversion Hd as [|? ? Hc Ht]; subst. pose proof (dval_lt t Ht) as Bt.
    pose proof (pow10_pos (len t) (len_nonneg t)) as Pp.
    cbn [horner dval] in *. rewrite len_cons, Z.pow_add_r in Hb by (try apply len_nonneg; lia).
    rewrite digval_dig by exact Hc. unfold isdig in Hc.
    assert (Hm : 0 <= 10 * n + (c - 48) /\ (10 * n + (c - 48)) * 10 ^ len t + dval t < H63) by nia.
    assert (Hs : 10 * n + (c - 48) < H63) by nia.
    rewrite s64_id by (unfold H63 in *; lia).
    rewrite IH by (try exact Ht; lia).
    rewrite len_cons, Z.pow_add_r by (try apply len_nonneg; lia). lia.
Qed.

(* the accumulator of the chunk loop: never empty; a zero top place only as the one-place zero *)
Definition semi (acc : list Z) : Prop := dok acc /\ acc <> [] /\ (last acc 0 <> 0 \/ acc = [0]).

Lemma timesS_semi : forall acc b c, semi acc -> 0 < b < R -> 0 <= c < R ->
  semi (timesS_loop acc b c) /\ lval (timesS_loop acc b c) = lval acc * b + c.
Proof.
  intros acc b c (Da & Na & La) Hb Hc.
  destruct (timesS_loop_spec acc b c Da ltac:(lia) Hc) as (V & D & L & T).
  split; [|exact V]. split; [exact D|].
  assert (Hne : timesS_loop acc b c <> []).
  { intros E. rewrite E in L. cbn [length] in L. destruct acc; [congruence | cbn [length] in L; lia]. }
  split; [exact Hne|].
  destruct La as [La | La]; [|subst acc].
  - left. destruct T as [T|[T|[T|T]]]; [congruence | congruence | exact T | lia].
  - cbn [timesS_loop]. unfold TimesStep. rewrite u64_id by (unfold W64, R in *; lia).
    replace ((0 * b + c + 0) / R) with 0 by (unfold R in *; lia).
    replace ((0 * b + c + 0) mod R) with c by (unfold R in *; lia).
    rewrite !toS_id by (unfold R in *; lia). cbn [Z.eqb].
    destruct (Z.eq_dec c 0) as [->|Hnz]; [right; reflexivity | left; cbn [last]; exact Hnz].
Qed.

Lemma semi_res_ok : forall acc, semi acc -> res_ok acc.
Proof.
  intros acc (D & N & L). split; [exact D|]. intros H3. destruct L as [L | L]; [exact L | subst acc; cbn in H3; lia].
Qed.

Lemma firstn_skipn_len : forall (n : nat) (cs : list Z), (n <= length cs)%nat ->
  len (firstn n cs) = Z.of_nat n /\ len (skipn n cs) = len cs - Z.of_nat n.
Proof.
  intros n cs H. unfold len. rewrite firstn_length, skipn_length. lia.
Qed.
Lemma alldig_firstn : forall n cs, alldig cs -> alldig (firstn n cs).
Proof.
  intros n cs H. unfold alldig in *. rewrite Forall_forall in *. intros x Hx. apply H.
  rewrite <- (firstn_skipn n cs). apply in_or_app. left. exact Hx.
Qed.
Lemma alldig_skipn : forall n cs, alldig cs -> alldig (skipn n cs).
Proof.
  intros n cs H. unfold alldig in *. rewrite Forall_forall in *. intros x Hx. apply H.
  rewrite <- (firstn_skipn n cs). apply in_or_app. right. exact Hx.
Qed.

Lemma scan_chunks_spec : forall fuel cs acc, alldig cs -> (length cs <= fuel)%nat ->
  (exists k, len cs = 9 * k) -> semi acc ->
  semi (scan_chunks fuel 10 1000000000 9 cs acc) /\
  lval (scan_chunks fuel 10 1000000000 9 cs acc) = lval acc * 10 ^ len cs + dval cs.
Proof.
  induction fuel as [|f IH]; intros cs acc Hd Hf (k & Hk) Hs.
  - destruct cs; [|cbn [length] in Hf; lia]. cbn [scan_chunks dval]. rewrite len_nil. split; [exact Hs | lia].
  - destruct cs as [|c0 ct] eqn:Ecs.
    + cbn [scan_chunks dval]. rewrite len_nil. split; [exact Hs | lia].
    + rewrite <- Ecs in *. assert (Hcs : cs <> []) by (rewrite Ecs; congruence).
      assert (H9 : (9 <= length cs)%nat).
      { unfold len in Hk. destruct (Z_le_gt_dec k 0); [rewrite Ecs in Hk; cbn [length] in Hk; lia | lia]. }
      destruct (firstn_skipn_len 9 cs H9) as (L1 & L2).
      pose proof (alldig_firstn 9 cs Hd) as D1. pose proof (alldig_skipn 9 cs Hd) as D2.
      pose proof (dval_lt _ D1) as B1. rewrite L1 in B1. change (10 ^ Z.of_nat 9) with 1000000000 in B1.
      assert (En : horner 10 (firstn 9 cs) 0 = dval (firstn 9 cs)).
      { rewrite horner10_spec; [lia | exact D1 | lia | unfold H63; lia]. }
      assert (Estep : scan_chunks (S f) 10 1000000000 9 cs acc =
                      scan_chunks f 10 1000000000 9 (skipn 9 cs)
                        (iintTimesPlusS acc (toS 1000000000) (toS (horner 10 (firstn 9 cs) 0)))).
      { rewrite Ecs. reflexivity. }
      rewrite Estep, En.
      rewrite (toS_id 1000000000) by (unfold R; lia). rewrite toS_id by (unfold R; lia).
      unfold iintTimesPlusS. change (1000000000 =? 0) with false. cbv iota.
      destruct (timesS_semi acc 1000000000 (dval (firstn 9 cs)) Hs ltac:(unfold R; lia) ltac:(unfold R; lia))
        as (S' & V').
      destruct (IH (skipn 9 cs) _ D2 ltac:(rewrite skipn_length; lia)
                  ltac:(exists (k - 1); rewrite L2; lia) S') as (S2 & V2).
      split; [exact S2|]. rewrite V2, V', L2.
      assert (Edv : dval cs = dval (firstn 9 cs) * 10 ^ (len cs - 9) + dval (skipn 9 cs)).
      { rewrite <- (firstn_skipn 9 cs) at 1. rewrite dval_app, L2. reflexivity. }
      rewrite Edv. change (Z.of_nat 9) with 9 in *.
      assert (H9z : 9 <= len cs) by (unfold len; lia).
      assert (Ep : 10 ^ len cs = 1000000000 * 10 ^ (len cs - 9)).
      { replace (len cs) with (9 + (len cs - 9)) at 1 by lia. rewrite Z.pow_add_r by lia. reflexivity. }
      rewrite Ep. lia.
Qed.

Lemma scan_big10_spec : forall neg cs, alldig cs ->
  val (scan_big 10 1000000000 9 neg cs) = (if neg then - dval cs else dval cs) /\
  norm (scan_big 10 1000000000 9 neg cs).
Proof.
  intros neg cs Hd. unfold scan_big.
  set (l0 := Z.rem (len cs) 9).
  assert (Hl0 : 0 <= l0 < 9 /\ l0 = len cs mod 9).
  { unfold l0. pose proof (len_nonneg cs). rewrite Z.rem_mod_nonneg by lia. lia. }
  destruct Hl0 as (Hl0 & El0).
  assert (Hle : (Z.to_nat l0 <= length cs)%nat) by (unfold len in *; lia).
  destruct (firstn_skipn_len (Z.to_nat l0) cs Hle) as (L1 & L2). rewrite Z2Nat.id in L1, L2 by lia.
  pose proof (alldig_firstn (Z.to_nat l0) cs Hd) as D1. pose proof (alldig_skipn (Z.to_nat l0) cs Hd) as D2.
  pose proof (dval_lt _ D1) as B1. rewrite L1 in B1.
  assert (P9 : 10 ^ l0 <= 10 ^ 9) by (apply Z.pow_le_mono_r; lia). change (10 ^ 9) with 1000000000 in P9.
  assert (En : horner 10 (firstn (Z.to_nat l0) cs) 0 = dval (firstn (Z.to_nat l0) cs)).
  { rewrite horner10_spec; [lia | exact D1 | lia | unfold H63; lia]. }
  rewrite En. set (n0 := dval (firstn (Z.to_nat l0) cs)) in *.
  assert (Eb0 : sto_ds (xintCopyInI n0) = [n0]).
  { unfold xintCopyInI, uabs. rewrite u64_id by (unfold W64; lia). rewrite Z.abs_eq by lia.
    destruct (Z.ltb_spec n0 R); [reflexivity | unfold R in *; lia]. }
  rewrite Eb0.
  assert (S0 : semi [n0]).
  { split; [apply dok_cons; split; [unfold R; lia | apply dok_nil]|]. split; [congruence|].
    destruct (Z.eq_dec n0 0) as [->|]; [right; reflexivity | left; cbn [last]; assumption]. }
  change (Z.to_nat 9) with 9%nat.
  destruct (scan_chunks_spec (length cs) (skipn (Z.to_nat l0) cs) [n0] D2
              ltac:(rewrite skipn_length; lia) ltac:(exists (len cs / 9); rewrite L2; lia) S0) as (S1 & V1).
  destruct (xintImmedIfCan_ok neg _ (semi_res_ok _ S1)) as (V2 & N2).
  split; [|exact N2]. rewrite V2. cbn [val]. rewrite V1. cbn [lval].
  assert (Edv : dval cs = n0 * 10 ^ len (skipn (Z.to_nat l0) cs) + dval (skipn (Z.to_nat l0) cs)).
  { rewrite <- (firstn_skipn (Z.to_nat l0) cs) at 1. rewrite dval_app. reflexivity. }
  rewrite Edv. destruct neg; lia.
Qed.

(* the statement: optional '-', a non-empty string of decimal digits (leading zeros allowed), then
   anything that does not start with a digit *)
Theorem fr_string_exact : forall (neg : bool) (ds rest : list Z),
  alldig ds -> ds <> [] -> notdig_head rest ->
  let r := bintScanFrString ((if neg then [45] else []) ++ ds ++ rest) in
  val (fst r) = (if neg then - dval ds else dval ds) /\ norm (fst r) /\ snd r = rest.
Proof.
  intros neg ds rest Hd Hne Hr. cbv zeta. unfold bintScanFrString.
  rewrite dec_rim_eq, dec_rio_eq.
  destruct ds as [|d0 dt]; [congruence|]. clear Hne.
  assert (Hd0 : isdig d0) by (inversion Hd; assumption).
  (* no leading white space *)
  assert (E1 : skip_while isspace ((if neg then [45] else []) ++ (d0 :: dt) ++ rest) =
               (if neg then [45] else []) ++ (d0 :: dt) ++ rest).
  { destruct neg; cbn [app skip_while]; [reflexivity|].
    assert (isspace d0 = false) by (unfold isspace, isdig in *; lia). rewrite H. reflexivity. }
  rewrite E1. rewrite sign_match.
  assert (E2 : (match (if neg then [45] else []) ++ (d0 :: dt) ++ rest with
                | c :: t => if c =? 45 then (true, t) else (false, (if neg then [45] else []) ++ (d0 :: dt) ++ rest)
                | [] => (false, (if neg then [45] else []) ++ (d0 :: dt) ++ rest) end) =
               (neg, (d0 :: dt) ++ rest)).
  { destruct neg; cbn [app]; [reflexivity|].
    destruct (Z.eqb_spec d0 45); [unfold isdig in Hd0; lia | reflexivity]. }
  rewrite E2.
  destruct (skip_zeros_app (d0 :: dt) rest Hd Hr) as (ds' & E3 & D3 & V3 & L3).
  rewrite E3. destruct (take_skip_digits ds' rest D3 Hr) as (E4 & E5). rewrite E4, E5.
  destruct (Z.leb_spec (len ds') 18) as [Hs|Hb].
  - pose proof (dval_lt ds' D3) as B.
    assert (P : 10 ^ len ds' <= 10 ^ 18) by (apply Z.pow_le_mono_r; [lia | exact Hs]).
    change (10 ^ 18) with 1000000000000000000 in P.
    rewrite horner10_spec by (try exact D3; unfold H63; lia).
    replace (0 * 10 ^ len ds' + dval ds') with (dval ds') by lia.
    cbn [fst snd]. rewrite V3 in *.
    destruct neg.
    + rewrite s64_id by (unfold H63; lia).
      destruct (IntToBInt_norm (- dval (d0 :: dt))) as (E & N); [unfold IMM_MIN, IMM_MAX; lia|].
      rewrite E. cbn [val]. auto.
    + destruct (IntToBInt_norm (dval (d0 :: dt))) as (E & N); [unfold IMM_MIN, IMM_MAX; lia|].
      rewrite E. cbn [val]. auto.
  - cbn [fst snd]. destruct (scan_big10_spec neg ds' D3) as (V & N). rewrite V, V3. auto.
Qed.
