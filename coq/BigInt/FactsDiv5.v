(* C11 — iintDivide, bintDivide: divide_exact (full statement, no size bound). *)
Require Import ZArith List Bool Lia ZifyBool.
Require Import AV.BigInt.Model AV.BigInt.Facts AV.BigInt.FactsCmp AV.BigInt.FactsAdd AV.BigInt.FactsMul
               AV.BigInt.FactsBits AV.BigInt.FactsDivS AV.BigInt.FactsShift AV.BigInt.FactsDiv
               AV.BigInt.FactsDiv2 AV.BigInt.FactsDiv3 AV.BigInt.FactsDiv4.
Import ListNotations.
Local Open Scope Z_scope.
Ltac Zify.zify_post_hook ::= Z.div_mod_to_equations.

Lemma iintDivide_spec : forall u v, wf u -> dok v -> v <> [] -> last v 0 <> 0 ->
  lval u = lval (fst (iintDivide u v)) * lval v + lval (snd (iintDivide u v)) /\
  0 <= lval (snd (iintDivide u v)) < lval v /\
  res_ok (fst (iintDivide u v)) /\ res_ok (snd (iintDivide u v)).
Proof.
  intros u v Wu Dv Nv Lv.
  assert (Wv : wf v) by (split; [exact Dv | split; [exact Nv | intros _; exact Lv]]).
  pose proof Wu as (Du & Nu & Lu).
  unfold iintDivide.
  destruct (Z.eqb_spec (len v) 1) as [E1|N1].
  - (* one-place divisor *)
    destruct v as [|v0 [|v1 t]]; [congruence | | rewrite !len_cons in E1; pose proof (len_nonneg t); lia].
    cbn [last] in Lv. apply dok_cons in Dv. destruct Dv as (Bv0 & _). cbn [hd lval].
    replace (v0 + R * 0) with v0 by lia.
    destruct (Z_le_gt_dec 2 (len u)) as [H2|H1].
    + assert (Nm : normal u) by (split; [exact Du | right; apply Lu; exact H2]).
      destruct (iintDivideS_spec u v0 Nm ltac:(lia)) as (V & Br & (Dq & Nq)).
      destruct (iintDivideS u v0) as [q r]. cbn [fst snd lval] in *.
      split; [lia|]. split; [lia|]. split.
      * split; [exact Dq|]. intros H3. destruct Nq as [->|Nq]; [cbn in H3; lia | exact Nq].
      * split; [apply dok_cons; split; [lia | apply dok_nil] | cbn; lia].
    + unfold iintDivideS.
      destruct (divS_loop_spec u v0 Du ltac:(lia)) as (V & Br & Dq & Lq).
      destruct (divS_loop u v0) as [q r]. cbn [fst snd lval] in *.
      rewrite strip1_lval. split; [lia|]. split; [lia|]. split.
      * split; [apply strip1_dok; exact Dq|]. intros H3. pose proof (strip1_length q). unfold len in *. lia.
      * split; [apply dok_cons; split; [lia | apply dok_nil] | cbn; lia].
  - rewrite bintLT_sto_false by assumption.
    destruct (Z.ltb_spec (lval u) (lval v)) as [Hlt|Hge].
    + cbn [fst snd lval]. pose proof (lval_bound u Du). split; [lia|]. split; [lia|].
      split; [split; [apply dok_nil | cbn; lia] | apply wf_res_ok; exact Wu].
    + assert (Hn : (2 <= length v)%nat).
      { pose proof (wf_pos_len v Wv). unfold len in *. lia. }
      pose proof (knuth_general u v Wu Dv Hn Lv Hge) as K. cbv zeta in K.
      destruct (divide_loop _ _ _ _ _ _) as [q wf0].
      destruct (iintDivideS _ _) as [r x]. cbn [fst snd]. exact K.
Qed.

Lemma bintDivide_gen_spec : forall da db, wf da -> wf db -> 0 < lval db ->
  let s := bintDivide_gen da db in
  lval da = val (fst s) * lval db + val (snd s) /\ 0 <= val (snd s) < lval db /\ 0 <= val (fst s) /\
  norm (fst s) /\ norm (snd s).
Proof.
  intros da db Wa Wb Hpos. cbv zeta. unfold bintDivide_gen.
  pose proof Wb as (Db & Nb & Lb).
  assert (Lb' : last db 0 <> 0).
  { destruct db as [|x [|y t]]; [congruence | | apply Lb; rewrite !len_cons; pose proof (len_nonneg t); lia].
    cbn [last]. cbn [lval] in Hpos. lia. }
  destruct (iintDivide_spec da db Wa Db Nb Lb') as (E & Br & Rq & Rr).
  destruct (iintDivide da db) as [q r]. cbn [fst snd] in *.
  destruct (xintImmedIfCan_ok false q Rq) as (Vq & Nq).
  destruct (xintImmedIfCan_ok false r Rr) as (Vr & Nr).
  rewrite Vq, Vr. cbn [val]. destruct Rq as (Dq & _). pose proof (lval_bound q Dq).
  split; [exact E|]. split; [exact Br|]. split; [lia|]. split; assumption.
Qed.

(* the property statement: truncated quotient, remainder with the sign of the dividend *)
Theorem divide_exact : forall a b, norm a -> norm b -> val b <> 0 ->
  let q := fst (bintDivide a b) in let r := snd (bintDivide a b) in
  val a = val q * val b + val r /\ Z.abs (val r) < Z.abs (val b) /\
  (val r = 0 \/ Z.sgn (val r) = Z.sgn (val a)) /\
  val q = Z.quot (val a) (val b) /\ val r = Z.rem (val a) (val b) /\ norm q /\ norm r.
Proof.
  intros a b Na Nb Hb. cbv zeta.
  destruct (xintStore_spec a Na) as (da & Ea & Wa & Va).
  destruct (xintStore_spec b Nb) as (db & Eb & Wb & Vb).
  unfold bintDivide. rewrite Ea, Eb. cbn [bintIsNeg sto_ds].
  pose proof (bintDivide_gen_spec da db Wa Wb ltac:(lia)) as G. cbv zeta in G.
  destruct (bintDivide_gen da db) as [q r]. cbn [fst snd] in G.
  destruct G as (E & Br & Bq & Nq & Nr). rewrite Va, Vb in *.
  unfold BINT_NEGATE.
  destruct (negate_exact q Nq) as (Vnq & Nnq). destruct (negate_exact r Nr) as (Vnr & Nnr).
  (* the mathematical quotient and remainder of the magnitudes *)
  assert (Hdiv : val q = Z.abs (val a) / Z.abs (val b)).
  { apply (Z.div_unique_pos _ _ _ (val r)); lia. }
  assert (Hmod : val r = Z.abs (val a) mod Z.abs (val b)).
  { apply (Z.mod_unique_pos _ _ (val q)); lia. }
  pose proof (Z.quot_div (val a) (val b) Hb) as Qd.
  pose proof (Z.rem_mod (val a) (val b) Hb) as Rm.
  rewrite <- Hdiv in Qd. rewrite <- Hmod in Rm.
  destruct (Z.ltb_spec (val a) 0) as [La|La]; destruct (Z.ltb_spec (val b) 0) as [Lb|Lb]; cbn [andb fst snd].
  - rewrite Vnr. rewrite Qd, Rm.
    assert (Sa : Z.sgn (val a) = -1) by lia. assert (Sb : Z.sgn (val b) = -1) by lia. rewrite Sa, Sb.
    repeat split; try assumption; try lia. all: try (destruct (Z.eq_dec (val r) 0); [left | right]; lia).
  - rewrite Vnq, Vnr. rewrite Qd, Rm.
    assert (Sa : Z.sgn (val a) = -1) by lia. assert (Sb : Z.sgn (val b) = 1) by lia. rewrite Sa, Sb.
    repeat split; try assumption; try lia. all: try (destruct (Z.eq_dec (val r) 0); [left | right]; lia).
  - rewrite Vnq. rewrite Qd, Rm.
    assert (Sb : Z.sgn (val b) = -1) by lia. rewrite Sb.
    destruct (Z.eq_dec (val a) 0) as [Ez|Nz].
    + rewrite Ez in *. cbn [Z.sgn Z.abs] in *. assert (val q = 0) by lia. assert (val r = 0) by lia.
      repeat split; try assumption; try lia.
    + assert (Sa : Z.sgn (val a) = 1) by lia. rewrite Sa.
      repeat split; try assumption; try lia. all: try (destruct (Z.eq_dec (val r) 0); [left | right]; lia).
  - rewrite Qd, Rm.
    assert (Sb : Z.sgn (val b) = 1) by lia. rewrite Sb.
    destruct (Z.eq_dec (val a) 0) as [Ez|Nz].
    + rewrite Ez in *. cbn [Z.sgn Z.abs] in *. assert (val q = 0) by lia. assert (val r = 0) by lia.
      repeat split; try assumption; try lia.
    + assert (Sa : Z.sgn (val a) = 1) by lia. rewrite Sa.
      repeat split; try assumption; try lia. all: try (destruct (Z.eq_dec (val r) 0); [left | right]; lia).
Qed.
