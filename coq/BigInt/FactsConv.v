(* C11 — conversion from and to machine integers (bintNew / fiBIntFrInt, fiBIntToSInt, fiBIntIsSingle). *)
Require Import ZArith List Bool Lia ZifyBool.
Require Import AV.BigInt.Model AV.BigInt.Facts AV.BigInt.FactsCmp AV.BigInt.FactsAdd
               AV.BigInt.FactsBits AV.BigInt.FactsShift AV.BigInt.FactsPow.
Import ListNotations.
Local Open Scope Z_scope.
Ltac Zify.zify_post_hook ::= Z.div_mod_to_equations.

Theorem of_long_exact : forall n, - H63 <= n < H63 -> val (fiBIntFrInt n) = n /\ norm (fiBIntFrInt n).
Proof. intros n Hn. unfold fiBIntFrInt. apply bintNew_spec. exact Hn. Qed.

Lemma tosint_step : forall v i n, 0 <= v < H63 -> 0 <= i -> n = v / 2 ^ (i + 1) ->
  (if Z.testbit v i then s64 (s64 (Z.shiftl n 1) + 1) else s64 (Z.shiftl n 1)) = v / 2 ^ i.
Proof.
  intros v i n Hv Hi En.
  pose proof (bit_div2 v i ltac:(lia) Hi) as B. rewrite <- En in B.
  assert (Hq : 0 <= v / 2 ^ i <= v).
  { split; [apply Z.div_pos; [lia | apply pow2_pos; lia]|].
    apply Z.div_le_upper_bound; [apply pow2_pos; lia|]. pose proof (pow2_pos i Hi). nia. }
  assert (Hn0 : 0 <= n) by (subst n; apply Z.div_pos; [lia | apply pow2_pos; lia]).
  rewrite Z.shiftl_mul_pow2 by lia. change (2 ^ 1) with 2.
  destruct (Z.testbit v i); cbn [Z.b2z] in B.
  - rewrite (s64_id (n * 2)) by (unfold H63 in *; lia). rewrite s64_id by (unfold H63 in *; lia). lia.
  - rewrite (s64_id (n * 2)) by (unfold H63 in *; lia). lia.
Qed.

Lemma tosint_loop_spec : forall i b n v, norm b -> v = Z.abs (val b) -> v < H63 ->
  n = v / 2 ^ (Z.of_nat i + 1) -> tosint_loop i b n = v.
Proof.
  induction i as [|j IH]; intros b n v Nb Ev Hv En.
  - cbn [tosint_loop]. rewrite bit_exact by (auto; lia). rewrite <- Ev.
    assert (Hv0 : 0 <= v < H63) by lia.
    rewrite (tosint_step v (Z.of_nat 0) n Hv0 ltac:(lia) En).
    change (2 ^ Z.of_nat 0) with 1. apply Z.div_1_r.
  - cbn [tosint_loop]. rewrite bit_exact by (auto; lia). rewrite <- Ev.
    assert (Hv0 : 0 <= v < H63) by lia.
    rewrite (tosint_step v (Z.of_nat (S j)) n Hv0 ltac:(lia) En).
    apply (IH b _ v Nb Ev Hv). f_equal. f_equal. lia.
Qed.

Theorem to_long_exact : forall a, norm a -> Z.abs (val a) < H63 -> fiBIntToSInt a = val a.
Proof.
  intros [n|neg ds] Na Hv; [reflexivity|].
  unfold fiBIntToSInt.
  rewrite (tosint_loop_spec 63 (Sto neg ds) 0 (Z.abs (val (Sto neg ds))) Na eq_refl Hv).
  - pose proof Na as Na'. apply norm_sto in Na'. destruct Na' as (Dd & _ & Vd). unfold IMM_MAX in Vd.
    cbn [bintIsNeg]. cbn [val] in *. destruct neg; [|lia]. rewrite s64_id by (unfold H63 in *; lia). lia.
  - symmetry. apply Z.div_small. change (2 ^ (Z.of_nat 63 + 1)) with 18446744073709551616. unfold H63 in Hv. lia.
Qed.

Theorem is_single_exact : forall a, norm a -> fiBIntIsSingle a = (Z.abs (val a) <? H63).
Proof.
  intros a Na. unfold fiBIntIsSingle. rewrite (length_exact a Na).
  destruct (bitlen_bounds (Z.abs (val a)) ltac:(lia)) as (L1 & L2 & L3).
  destruct (Z.ltb_spec (bitlen (Z.abs (val a))) 64) as [H|H];
    destruct (Z.ltb_spec (Z.abs (val a)) H63) as [G|G]; try reflexivity; exfalso.
  - assert (2 ^ bitlen (Z.abs (val a)) <= 2 ^ 63) by (apply Z.pow_le_mono_r; lia).
    change (2 ^ 63) with H63 in *. lia.
  - assert (Hp : 0 < Z.abs (val a)).
    { destruct (Z.eq_dec (Z.abs (val a)) 0) as [E|E]; [rewrite E in H; unfold bitlen in H; cbn in H; lia | lia]. }
    specialize (L3 Hp).
    assert (2 ^ 63 <= 2 ^ (bitlen (Z.abs (val a)) - 1)) by (apply Z.pow_le_mono_r; lia).
    change (2 ^ 63) with H63 in *. lia.
Qed.

(* bintFrPlacev (how generated code builds its big literals): sign and places, high-order zero places allowed *)
Theorem frplacev_exact : forall neg data, dok data ->
  val (bintFrPlacev neg data) = (if neg then - lval data else lval data) /\ norm (bintFrPlacev neg data).
Proof.
  intros neg data Hd. unfold bintFrPlacev.
  assert (Rk : res_ok (strip data)).
  { split; [apply strip_dok; exact Hd|]. intros H3.
    destruct (strip_last data) as [E|E]; [rewrite E in H3; cbn in H3; lia | exact E]. }
  destruct (xintImmedIfCan_ok neg _ Rk) as (V & N). rewrite V. cbn [val]. rewrite strip_lval. split; [reflexivity | exact N].
Qed.
