(* C11 — iintDivideS (division by one place) is exact and keeps the normal form. *)
Require Import ZArith List Bool Lia ZifyBool.
Require Import AV.BigInt.Model AV.BigInt.Facts AV.BigInt.FactsCmp AV.BigInt.FactsAdd AV.BigInt.FactsBits.
Import ListNotations.
Local Open Scope Z_scope.
Ltac Zify.zify_post_hook ::= Z.div_mod_to_equations.

Definition normal (ds : list Z) : Prop := dok ds /\ (ds = [] \/ last ds 0 <> 0).

Lemma normal_zero : forall ds, normal ds -> lval ds = 0 -> ds = [].
Proof.
  intros ds (Hd & [E|Hl]) Hv; [exact E|]. destruct ds as [|d t]; [reflexivity|].
  pose proof (last_nz_ge _ Hd ltac:(congruence) Hl) as H. pose proof (Rp_pos (length (d :: t) - 1)). lia.
Qed.
Lemma normal_pos : forall ds, normal ds -> ds <> [] -> 0 < lval ds.
Proof.
  intros ds (Hd & [E|Hl]) Hne; [congruence|].
  pose proof (last_nz_ge _ Hd Hne Hl) as H. pose proof (Rp_pos (length ds - 1)). lia.
Qed.

Lemma divS_loop_spec : forall a b, dok a -> 0 < b < R ->
  lval (fst (divS_loop a b)) * b + snd (divS_loop a b) = lval a /\
  0 <= snd (divS_loop a b) < b /\ dok (fst (divS_loop a b)) /\
  length (fst (divS_loop a b)) = length a.
Proof.
  induction a as [|aj t IH]; intros b Ha Hb.
  - cbn [divS_loop fst snd lval length]. repeat split; try lia. apply dok_nil.
  - apply dok_cons in Ha. destruct Ha as [Haj Ht].
    destruct (IH b Ht Hb) as (V & Hr & D & L).
    cbn [divS_loop]. destruct (divS_loop t b) as [qt r]. cbn [fst snd] in *.
    pose proof (DivideDouble_spec r aj b Hr Haj Hb) as (E & Hr' & Hq).
    destruct (DivideDouble r aj b) as [qj r']. cbn [fst snd] in *.
    rewrite (toS_id qj) by exact Hq. rewrite (toS_id r') by (unfold R in *; lia).
    cbn [lval length]. split; [nia|]. split; [lia|]. split; [apply dok_cons; auto | lia].
Qed.

Lemma strip1_cases : forall ds, ds <> [] ->
  (last ds 0 = 0 -> strip1 ds = removelast ds) /\ (last ds 0 <> 0 -> strip1 ds = ds).
Proof.
  induction ds as [|d t IH]; intros Hne; [congruence|].
  destruct t as [|e t'].
  - cbn [last strip1 removelast]. split; intros H; destruct (Z.eqb_spec d 0); congruence.
  - rewrite last_cons_cons. change (strip1 (d :: e :: t')) with (d :: strip1 (e :: t')).
    change (removelast (d :: e :: t')) with (d :: removelast (e :: t')).
    destruct (IH ltac:(congruence)) as (H0 & H1). split; intros H; f_equal; auto.
Qed.

(* quotient of a normal list by a one-place divisor: exact, remainder below b, quotient normal *)
Lemma iintDivideS_spec : forall a b, normal a -> 0 < b < R ->
  lval (fst (iintDivideS a b)) * b + snd (iintDivideS a b) = lval a /\
  0 <= snd (iintDivideS a b) < b /\ normal (fst (iintDivideS a b)).
Proof.
  intros a b (Da & Na) Hb. unfold iintDivideS.
  destruct (divS_loop_spec a b Da Hb) as (V & Hr & D & L).
  destruct (divS_loop a b) as [q r]. cbn [fst snd] in *.
  rewrite strip1_lval. split; [exact V|]. split; [exact Hr|].
  split; [apply strip1_dok; exact D|].
  destruct a as [|a0 at']; [destruct q; [left; reflexivity | discriminate]|].
  destruct Na as [Na|Na]; [discriminate|].
  assert (Hq : q <> []) by (intros ->; discriminate).
  destruct (strip1_cases q Hq) as (C0 & C1).
  destruct (Z.eq_dec (last q 0) 0) as [Z|NZ]; [|right; rewrite C1 by exact NZ; exact NZ].
  rewrite C0 by exact Z.
  destruct (lval_split_last q Hq) as (E & Lr & Dr). specialize (Dr D).
  rewrite Z in E.
  pose proof (last_nz_ge _ Da ltac:(congruence) Na) as Hge.
  destruct (removelast q) as [|x xs] eqn:ER; [left; reflexivity|]. right.
  apply ge_last_nz; [exact Dr | congruence|].
  (* lval q >= R^(l-2) *)
  rewrite Lr, L.
  assert (HL : (2 <= length (a0 :: at'))%nat) by (cbn [length] in Lr; rewrite L in Lr; cbn [length] in *; lia).
  remember (length (a0 :: at')) as l.
  replace (l - 1)%nat with (S (l - 1 - 1)) in Hge by lia. rewrite Rp_S in Hge.
  pose proof (Rp_pos (l - 1 - 1)) as Hp.
  assert (lval q = lval (x :: xs)) by lia.
  destruct (Z_lt_le_dec (lval (x :: xs)) (Rp (l - 1 - 1))) as [Hlt|Hle]; [|exact Hle].
  exfalso. unfold R in *. nia.
Qed.
