(* C11 — fiBIntGcd (Euclid's algorithm on bintDivide) is exact. *)
Require Import ZArith List Bool Lia ZifyBool.
Require Import AV.BigInt.Model AV.BigInt.Facts AV.BigInt.FactsCmp AV.BigInt.FactsAdd
               AV.BigInt.FactsBits AV.BigInt.FactsShift AV.BigInt.FactsDiv5.
Import ListNotations.
Local Open Scope Z_scope.
Ltac Zify.zify_post_hook ::= Z.div_mod_to_equations.

Lemma norm_bint0 : norm bint0.
Proof. apply norm_imm. unfold IMM_MIN, IMM_MAX. lia. Qed.

(* with d <= c and c*d < 2^f, f+1 rounds of the loop are enough *)
Lemma gcd_loop_spec : forall f fuel c d, (S f <= fuel)%nat -> norm c -> norm d ->
  0 <= val d <= val c -> val c * val d < 2 ^ Z.of_nat f ->
  exists g, gcd_loop fuel c d = Some g /\ val g = Z.gcd (val c) (val d) /\ norm g.
Proof.
  induction f as [|f IH]; intros fuel c d Hf Nc Nd Hcd Hprod.
  - (* c*d < 1: d = 0 *)
    change (2 ^ Z.of_nat 0) with 1 in Hprod.
    assert (Ed : val d = 0) by nia.
    destruct fuel as [|fuel]; [lia|]. cbn [gcd_loop].
    rewrite (ne_exact d bint0 Nd norm_bint0). cbn [val bint0]. rewrite Ed. cbn [Z.eqb negb].
    exists c. split; [reflexivity|]. split; [rewrite Z.gcd_0_r; lia | exact Nc].
  - destruct fuel as [|fuel]; [lia|]. cbn [gcd_loop].
    rewrite (ne_exact d bint0 Nd norm_bint0). cbn [val bint0].
    destruct (Z.eqb_spec (val d) 0) as [Ed|Nz]; cbn [negb].
    + exists c. split; [reflexivity|]. rewrite Ed. split; [rewrite Z.gcd_0_r; lia | exact Nc].
    + pose proof (divide_exact c d Nc Nd Nz) as D. cbv zeta in D.
      destruct D as (E & Babs & _ & _ & Er & _ & Nr).
      set (r := snd (bintDivide c d)) in *.
      rewrite Z.rem_mod_nonneg in Er by lia.
      assert (Br : 0 <= val r < val d) by (rewrite Er; apply Z.mod_pos_bound; lia).
      assert (Hhalf : 2 * val r <= val c).
      { pose proof (Z.div_mod (val c) (val d) Nz) as DM. rewrite <- Er in DM.
        assert (1 <= val c / val d) by (apply Z.div_le_lower_bound; lia). nia. }
      rewrite Nat2Z.inj_succ, Z.pow_succ_r in Hprod by lia.
      destruct (IH fuel d r ltac:(lia) Nd Nr ltac:(lia) ltac:(nia)) as (g & Eg & Vg & Ng).
      exists g. split; [exact Eg|]. split; [|exact Ng].
      rewrite Vg, Er. rewrite (Z.gcd_comm (val d)), Z.gcd_mod by exact Nz. apply Z.gcd_comm.
Qed.

Lemma pow2_bitlen_prod : forall x y, 0 <= x -> 0 <= y -> x * y < 2 ^ (bitlen x + bitlen y).
Proof.
  intros x y Hx Hy. destruct (bitlen_bounds x Hx) as (A1 & A2 & _). destruct (bitlen_bounds y Hy) as (B1 & B2 & _).
  rewrite Z.pow_add_r by lia. apply Z.mul_lt_mono_nonneg; lia.
Qed.

Theorem gcd_exact : forall a b, norm a -> norm b ->
  exists g, fiBIntGcd a b = Some g /\ val g = Z.gcd (val a) (val b) /\ norm g.
Proof.
  intros a b Na Nb. unfold fiBIntGcd.
  rewrite (lt_exact a bint0 Na norm_bint0), (lt_exact b bint0 Nb norm_bint0). cbn [val bint0].
  rewrite (length_exact a Na), (length_exact b Nb).
  set (c := if val a <? 0 then bintNegate a else a).
  set (d := if val b <? 0 then bintNegate b else b).
  assert (Hc : val c = Z.abs (val a) /\ norm c).
  { unfold c. destruct (Z.ltb_spec (val a) 0).
    - destruct (negate_exact a Na) as (V & N). rewrite V. split; [lia | exact N].
    - split; [lia | exact Na]. }
  assert (Hd : val d = Z.abs (val b) /\ norm d).
  { unfold d. destruct (Z.ltb_spec (val b) 0).
    - destruct (negate_exact b Nb) as (V & N). rewrite V. split; [lia | exact N].
    - split; [lia | exact Nb]. }
  destruct Hc as (Vc & Nc). destruct Hd as (Vd & Nd).
  set (La := bitlen (Z.abs (val a))). set (Lb := bitlen (Z.abs (val b))).
  destruct (bitlen_bounds (Z.abs (val a)) ltac:(lia)) as (A1 & _). fold La in A1.
  destruct (bitlen_bounds (Z.abs (val b)) ltac:(lia)) as (B1 & _). fold Lb in B1.
  pose proof (pow2_bitlen_prod (Z.abs (val a)) (Z.abs (val b)) ltac:(lia) ltac:(lia)) as Hp. fold La Lb in Hp.
  set (fuel := Z.to_nat (2 * (La + Lb) + 4)).
  assert (Egcd : Z.gcd (val c) (val d) = Z.gcd (val a) (val b)).
  { rewrite Vc, Vd. rewrite Z.gcd_abs_l, Z.gcd_abs_r. reflexivity. }
  rewrite <- Egcd.
  destruct (Z_le_gt_dec (val d) (val c)) as [Hle|Hgt].
  - apply (gcd_loop_spec (Z.to_nat (La + Lb)) fuel c d); [unfold fuel; lia | exact Nc | exact Nd | lia |].
    rewrite Z2Nat.id by lia. rewrite Vc, Vd. exact Hp.
  - (* first round swaps *)
    assert (Nz : val d <> 0) by lia.
    assert (Ef : fuel = S (Z.to_nat (2 * (La + Lb) + 3))) by (unfold fuel; lia).
    rewrite Ef. cbn [gcd_loop].
    rewrite (ne_exact d bint0 Nd norm_bint0). cbn [val bint0].
    destruct (Z.eqb_spec (val d) 0); [lia|]. cbn [negb].
    pose proof (divide_exact c d Nc Nd Nz) as D. cbv zeta in D.
    destruct D as (E & Babs & _ & _ & Er & _ & Nr).
    set (r := snd (bintDivide c d)) in *.
    rewrite Z.rem_mod_nonneg in Er by lia. rewrite Z.mod_small in Er by lia.
    destruct (gcd_loop_spec (Z.to_nat (La + Lb)) (Z.to_nat (2 * (La + Lb) + 3)) d r ltac:(lia) Nd Nr ltac:(lia))
      as (g & Eg & Vg & Ng).
    + rewrite Z2Nat.id by lia. rewrite Er, Vc, Vd. rewrite Z.mul_comm. exact Hp.
    + exists g. split; [exact Eg|]. split; [|exact Ng]. rewrite Vg, Er. apply Z.gcd_comm.
Qed.
