(* C11 — bintMod (bintModi both branches, dword.c xxTimesDouble / xxModDouble, and the bintDivide branch). *)
Require Import ZArith List Bool Lia ZifyBool.
Require Import AV.BigInt.Model AV.BigInt.Facts AV.BigInt.FactsCmp AV.BigInt.FactsAdd
               AV.BigInt.FactsBits AV.BigInt.FactsShift AV.BigInt.FactsDiv AV.BigInt.FactsDiv5.
Import ListNotations.
Local Open Scope Z_scope.
Ltac Zify.zify_post_hook ::= Z.div_mod_to_equations.

Lemma land_R1 : forall x, 0 <= x -> Z.land x (R - 1) = x mod R.
Proof. intros x Hx. change (R - 1) with (Z.ones 32). rewrite Z.land_ones by lia. reflexivity. Qed.
Lemma shiftr32 : forall x, Z.shiftr x 32 = x / R.
Proof. intros x. rewrite Z.shiftr_div_pow2 by lia. reflexivity. Qed.
Lemma shiftl32 : forall x, Z.shiftl x 32 = x * R.
Proof. intros x. rewrite Z.shiftl_mul_pow2 by lia. reflexivity. Qed.

(* one wrapped addition with its carry test *)
Lemma add_carry : forall x y, 0 <= x < W64 -> 0 <= y < W64 ->
  u64 (x + y) + W64 * b2z (u64 (x + y) <? x) = x + y /\ 0 <= u64 (x + y) < W64.
Proof.
  intros x y Hx Hy. unfold u64, W64 in *.
  destruct (Z.ltb_spec ((x + y) mod 18446744073709551616) x); cbn [b2z]; lia.
Qed.

(* arithmetic core of xxTimesDouble, on plain integers *)
Lemma xxTD_core : forall p1 p2 p3 p4 Mh Ml Nh Nl L1 c1 L2 c2 AB,
  AB = p1 * W64 + (p2 + p3) * R + p4 -> 0 <= AB < W64 * W64 ->
  0 <= p1 -> p2 = Mh * R + Ml -> p3 = Nh * R + Nl -> 0 <= Mh -> 0 <= Nh ->
  L1 + W64 * c1 = p4 + Ml * R -> L2 + W64 * c2 = L1 + Nl * R ->
  0 <= L2 < W64 -> 0 <= c1 <= 1 -> 0 <= c2 <= 1 ->
  (p1 + c1 + Mh + c2 + Nh) * W64 + L2 = AB /\ 0 <= p1 + c1 + Mh + c2 + Nh < W64.
Proof.
  intros p1 p2 p3 p4 Mh Ml Nh Nl L1 c1 L2 c2 AB EAB HAB Hp1 EM EN HMh HNh C1 C2 B2 Hc1 Hc2.
  assert (E : (p1 + c1 + Mh + c2 + Nh) * W64 + L2 = AB).
  { subst AB p2 p3. unfold W64, R in *. lia. }
  split; [exact E|]. unfold W64 in *. lia.
Qed.

(* dword.c xxTimesDouble: the full 128-bit product of two 64-bit words *)
Lemma xxTimesDouble_spec : forall A B, 0 <= A < W64 -> 0 <= B < W64 ->
  fst (xxTimesDouble A B) * W64 + snd (xxTimesDouble A B) = A * B /\
  0 <= snd (xxTimesDouble A B) < W64 /\ 0 <= fst (xxTimesDouble A B) < W64.
Proof.
  intros A B HA HB.
  assert (HAh : 0 <= A / R < R) by (unfold W64, R in *; lia).
  assert (HAl : 0 <= A mod R < R) by (unfold R; lia).
  assert (HBh : 0 <= B / R < R) by (unfold W64, R in *; lia).
  assert (HBl : 0 <= B mod R < R) by (unfold R; lia).
  assert (EA : A = A / R * R + A mod R) by (unfold R; lia).
  assert (EB : B = B / R * R + B mod R) by (unfold R; lia).
  assert (HAB : 0 <= A * B < W64 * W64) by (split; [apply Z.mul_nonneg_nonneg; lia | apply Z.mul_lt_mono_nonneg; lia]).
  unfold xxTimesDouble. cbv zeta.
  rewrite !shiftr32. rewrite (land_R1 A), (land_R1 B) by lia.
  revert HAh HAl HBh HBl EA EB.
  generalize (A / R) (A mod R) (B / R) (B mod R). intros Ah Al Bh Bl HAh HAl HBh HBl EA EB.
  pose proof (mul_bound Ah Bh HAh HBh) as P1. pose proof (mul_bound Al Bh HAl HBh) as P2.
  pose proof (mul_bound Ah Bl HAh HBl) as P3. pose proof (mul_bound Al Bl HAl HBl) as P4.
  assert (EAB : A * B = (Ah * Bh) * W64 + (Al * Bh + Ah * Bl) * R + Al * Bl).
  { rewrite EA at 1. rewrite EB at 1. change W64 with (R * R). ring. }
  clear EA EB HA HB.
  revert HAB P1 P2 P3 P4 EAB. generalize (A * B).
  generalize (Ah * Bh) (Al * Bh) (Ah * Bl) (Al * Bl). clear.
  intros p1 p2 p3 p4 AB HAB P1 P2 P3 P4 EAB.
  rewrite (u64_id p1), (u64_id p2), (u64_id p3), (u64_id p4) by (unfold W64, R in *; lia).
  rewrite (land_R1 p2), (land_R1 p3) by lia. rewrite !shiftl32.
  assert (HM : p2 = p2 / R * R + p2 mod R /\ 0 <= p2 mod R < R /\ 0 <= p2 / R) by (unfold R in *; lia).
  assert (HN : p3 = p3 / R * R + p3 mod R /\ 0 <= p3 mod R < R /\ 0 <= p3 / R) by (unfold R in *; lia).
  revert HM HN. generalize (p2 / R) (p2 mod R) (p3 / R) (p3 mod R). intros Mh Ml Nh Nl (EM & BMl & BMh) (EN & BNl & BNh).
  rewrite (u64_id (Ml * R)), (u64_id (Nl * R)) by (unfold W64, R in *; lia).
  destruct (add_carry p4 (Ml * R) ltac:(unfold W64, R in *; lia) ltac:(unfold W64, R in *; lia)) as (C1 & B1).
  revert C1 B1. generalize (u64 (p4 + Ml * R)). intros L1 C1 B1.
  assert (Hc1 : 0 <= b2z (L1 <? p4) <= 1) by (destruct (L1 <? p4); cbn [b2z]; lia).
  revert C1 Hc1. generalize (b2z (L1 <? p4)). intros c1 C1 Hc1.
  destruct (add_carry L1 (Nl * R) B1 ltac:(unfold W64, R in *; lia)) as (C2 & B2).
  revert C2 B2. generalize (u64 (L1 + Nl * R)). intros L2 C2 B2.
  assert (Hc2 : 0 <= b2z (L2 <? L1) <= 1) by (destruct (L2 <? L1); cbn [b2z]; lia).
  revert C2 Hc2. generalize (b2z (L2 <? L1)). intros c2 C2 Hc2.
  cbn [fst snd].
  destruct (xxTD_core p1 p2 p3 p4 Mh Ml Nh Nl L1 c1 L2 c2 AB EAB HAB ltac:(lia) EM EN BMh BNh
              ltac:(lia) ltac:(lia) B2 Hc1 Hc2) as (Etot & Hhi).
  rewrite (u64_id (p1 + c1)) by (unfold W64 in *; lia).
  rewrite (u64_id (p1 + c1 + Mh)) by (unfold W64 in *; lia).
  rewrite (u64_id (p1 + c1 + Mh + c2)) by (unfold W64 in *; lia).
  rewrite (u64_id (p1 + c1 + Mh + c2 + Nh)) by exact Hhi.
  split; [exact Etot|]. split; [exact B2 | exact Hhi].
Qed.

(* ------------------------------------------------------------------ xxModDouble *)
Lemma mod_combine : forall rh rl d, 0 < d ->
  ((rh mod d) * (W64 mod d) + rl mod d) mod d = (rh * W64 + rl) mod d.
Proof.
  intros rh rl d Hd.
  rewrite Z.add_mod by lia. rewrite <- Z.mul_mod by lia. rewrite Z.mod_mod by lia.
  rewrite <- Z.add_mod by lia. reflexivity.
Qed.

Lemma xxMod_step : forall rh rl d, R <= d < H63 -> 0 <= rh < W64 -> 0 <= rl < W64 ->
  let rrh := rh mod d in let rrl := rl mod d in
  let tt := xxTimesDouble rrh (W64 mod d) in
  let rl' := u64 (snd tt + rrl) in
  let rh' := u64 (fst tt + b2z (rl' <? rrl)) in
  rh' * W64 + rl' = rrh * (W64 mod d) + rrl /\ 0 <= rl' < W64 /\ 0 <= rh' < W64 /\ 2 * rh' <= rh /\
  (rh = 0 -> rh' = 0 /\ rl' < d).
Proof.
  intros rh rl d Hd Hrh Hrl. cbv zeta.
  assert (Brrh : 0 <= rh mod d < d) by (apply Z.mod_pos_bound; unfold R in *; lia).
  assert (Brrl : 0 <= rl mod d < d) by (apply Z.mod_pos_bound; unfold R in *; lia).
  assert (BrB : 0 <= W64 mod d < d) by (apply Z.mod_pos_bound; unfold R in *; lia).
  assert (Hle : rh mod d <= rh) by (apply Z.mod_le; unfold R in *; lia).
  destruct (xxTimesDouble_spec (rh mod d) (W64 mod d) ltac:(unfold W64, H63 in *; lia) ltac:(unfold W64, H63 in *; lia))
    as (Et & Btl & Bth).
  revert Et Btl Bth. generalize (xxTimesDouble (rh mod d) (W64 mod d)). intros [th tl]. cbn [fst snd]. intros Et Btl Bth.
  rewrite (Z.add_comm tl (rl mod d)).
  destruct (add_carry (rl mod d) tl ltac:(unfold W64, H63 in *; lia) Btl) as (C1 & B1).
  revert C1 B1. generalize (u64 (rl mod d + tl)). intros rl' C1 B1.
  assert (Hc : 0 <= b2z (rl' <? rl mod d) <= 1) by (destruct (rl' <? rl mod d); cbn [b2z]; lia).
  revert C1 Hc. generalize (b2z (rl' <? rl mod d)). intros c C1 Hc.
  assert (Hprod : 0 <= (rh mod d) * (W64 mod d) <= rh * (d - 1)).
  { split; [apply Z.mul_nonneg_nonneg; lia|]. apply Z.mul_le_mono_nonneg; lia. }
  revert Et Hprod. generalize ((rh mod d) * (W64 mod d)). intros pr Et Hprod.
  assert (Hrd : rh * (d - 1) <= rh * (H63 - 1)) by (apply mul_mono_l; lia).
  assert (Hno : th + c < W64).
  { assert ((th + c) * W64 + rl' = pr + rl mod d) by lia. unfold W64, H63 in *. lia. }
  rewrite (u64_id (th + c)) by lia.
  split; [lia|]. split; [exact B1|]. split; [lia|]. split.
  - assert ((th + c) * W64 + rl' = pr + rl mod d) by lia. unfold W64, H63 in *. lia.
  - intros E0. subst rh. rewrite Z.mod_0_l in * by (unfold R in *; lia).
    assert (pr = 0) by lia. subst pr. unfold W64, H63 in *. lia.
Qed.

Lemma xxMod_loop_done : forall fuel rl d rB, (1 <= fuel)%nat -> 0 <= rl < d ->
  xxMod_loop fuel 0 rl d rB = Some rl.
Proof.
  intros [|f] rl d rB Hf Hrl; [lia|]. cbn [xxMod_loop]. cbn [Z.eqb negb orb].
  destruct (Z.leb_spec d rl); [lia | reflexivity].
Qed.

Lemma xxMod_loop_spec : forall k fuel rh rl d, (k + 2 <= fuel)%nat -> R <= d < H63 ->
  0 <= rh < 2 ^ Z.of_nat k -> rh < W64 -> 0 <= rl < W64 ->
  xxMod_loop fuel rh rl d (W64 mod d) = Some ((rh * W64 + rl) mod d).
Proof.
  induction k as [|k IH]; intros fuel rh rl d Hf Hd Hrh Hrh2 Hrl.
  - change (2 ^ Z.of_nat 0) with 1 in Hrh. assert (rh = 0) by lia. subst rh.
    destruct fuel as [|f]; [lia|]. cbn [xxMod_loop]. cbn [Z.eqb negb orb].
    destruct (Z.leb_spec d rl) as [Hge|Hlt].
    + pose proof (xxMod_step 0 rl d Hd ltac:(unfold W64; lia) Hrl) as S. cbv zeta in S.
      destruct (xxTimesDouble (0 mod d) (W64 mod d)) as [th tl]. cbn [fst snd] in *.
      destruct S as (E & B1 & B2 & _ & Hz). destruct (Hz eq_refl) as (Ez & Hlt).
      rewrite Ez. rewrite xxMod_loop_done by lia.
      f_equal. rewrite Ez in E. rewrite Z.mod_0_l in E by (unfold R in *; lia).
      cbn [Z.mul Z.add] in *. lia.
    + f_equal. cbn [Z.mul Z.add]. symmetry. apply Z.mod_small. lia.
  - destruct fuel as [|f]; [lia|]. cbn [xxMod_loop].
    destruct (negb (rh =? 0) || (d <=? rl)) eqn:Ec.
    + pose proof (xxMod_step rh rl d Hd ltac:(lia) Hrl) as S. cbv zeta in S.
      destruct (xxTimesDouble (rh mod d) (W64 mod d)) as [th tl]. cbn [fst snd] in *.
      destruct S as (E & B1 & B2 & Hhalf & _).
      rewrite Nat2Z.inj_succ, Z.pow_succ_r in Hrh by lia.
      rewrite (IH f (u64 (th + b2z (u64 (tl + rl mod d) <? rl mod d))) (u64 (tl + rl mod d)) d);
        [| lia | exact Hd | lia | lia | exact B1].
      f_equal. rewrite E. apply mod_combine. unfold R in *. lia.
    + assert (rh = 0 /\ rl < d) by lia. destruct H as (-> & Hlt).
      f_equal. cbn [Z.mul Z.add]. symmetry. apply Z.mod_small. lia.
Qed.

Lemma xxModDouble_spec : forall nh nl d, R <= d < H63 -> 0 <= nh < R -> 0 <= nl < W64 ->
  xxModDouble nh nl d = Some ((nh * W64 + nl) mod d).
Proof.
  intros nh nl d Hd Hnh Hnl. unfold xxModDouble.
  destruct (Z.eqb_spec d 1); [unfold R in *; lia|].
  destruct (Z.ltb_spec d R); [lia|].
  assert (ErB : (W64 - 1 - (d - 1)) mod d = W64 mod d).
  { replace (W64 - 1 - (d - 1)) with (W64 + (-1) * d) by lia. apply Z.mod_add. unfold R in *. lia. }
  rewrite ErB.
  apply (xxMod_loop_spec 32 400); [lia | exact Hd | | unfold W64, R in *; lia | exact Hnl].
  change (2 ^ Z.of_nat 32) with R. exact Hnh.
Qed.

(* ------------------------------------------------------------------ bintModi *)
Lemma modi_small_spec : forall ds b, dok ds -> ds <> [] -> 1 <= b < R ->
  modi_small ds b (R mod b) = lval ds mod b.
Proof.
  induction ds as [|ai t IH]; intros b Hd Hne Hb; [congruence|].
  apply dok_cons in Hd. destruct Hd as [Hai Ht].
  destruct t as [|a2 t'].
  - cbn [modi_small lval]. f_equal. lia.
  - change (modi_small (ai :: a2 :: t') b (R mod b)) with
      (let acc := modi_small (a2 :: t') b (R mod b) in
       let acc := u64 (acc * (R mod b)) mod b in
       let tmp := s64 (acc - b + ai mod b) in
       let tmp := if tmp <? 0 then s64 (tmp + b) else tmp in u64 tmp).
    cbv zeta. rewrite (IH b Ht ltac:(congruence) Hb).
    set (x := lval (a2 :: t')).
    assert (Bx : 0 <= x mod b < b) by (apply Z.mod_pos_bound; lia).
    assert (Bd : 0 <= R mod b < b) by (apply Z.mod_pos_bound; lia).
    assert (Bp : 0 <= x mod b * (R mod b) < W64).
    { split; [apply Z.mul_nonneg_nonneg; lia|].
      assert (x mod b * (R mod b) < b * b) by (apply Z.mul_lt_mono_nonneg; lia).
      assert (b * b <= R * R) by (apply Z.mul_le_mono_nonneg; lia). change W64 with (R * R). lia. }
    rewrite (u64_id (x mod b * (R mod b))) by exact Bp.
    rewrite <- Z.mul_mod by lia.
    assert (By : 0 <= (x * R) mod b < b) by (apply Z.mod_pos_bound; lia).
    assert (Ba : 0 <= ai mod b < b) by (apply Z.mod_pos_bound; lia).
    set (y := (x * R) mod b) in *. set (z := ai mod b) in *.
    assert (Egoal : lval (ai :: a2 :: t') mod b = (y + z) mod b).
    { change (lval (ai :: a2 :: t')) with (ai + R * x). unfold y, z.
      rewrite <- Z.add_mod by lia. f_equal. lia. }
    rewrite Egoal. clearbody y z. clear - By Ba Hb.
    rewrite (s64_id (y - b + z)) by (unfold H63, R in *; lia).
    destruct (Z.ltb_spec (y - b + z) 0) as [Hn|Hp].
    + rewrite s64_id by (unfold H63, R in *; lia). rewrite u64_id by (unfold W64, R in *; lia).
      replace (y - b + z + b) with (y + z) by lia. symmetry. apply Z.mod_small. lia.
    + rewrite u64_id by (unfold W64, R in *; lia).
      symmetry. replace (y + z) with ((y - b + z) + 1 * b) by lia. rewrite Z.mod_add by lia. apply Z.mod_small. lia.
Qed.

Lemma modi_big_spec : forall ds b, dok ds -> ds <> [] -> R <= b < H63 ->
  modi_big ds b = Some (lval ds mod b).
Proof.
  induction ds as [|ai t IH]; intros b Hd Hne Hb; [congruence|].
  apply dok_cons in Hd. destruct Hd as [Hai Ht].
  destruct t as [|a2 t'].
  - cbn [modi_big lval]. f_equal. replace (ai + R * 0) with ai by lia. symmetry. apply Z.mod_small. lia.
  - change (modi_big (ai :: a2 :: t') b) with
      (match modi_big (a2 :: t') b with
       | None => None
       | Some acc =>
           let hi := Z.shiftr acc 32 in
           let lo := u64 (Z.shiftl acc 32) in
           match xxModDouble hi lo b with
           | None => None
           | Some rem =>
               let tmp := s64 (rem - s64 b + ai) in
               let tmp := if tmp <? 0 then s64 (tmp + b) else tmp in
               Some (u64 tmp)
           end
       end).
    rewrite (IH b Ht ltac:(congruence) Hb). cbv zeta.
    set (x := lval (a2 :: t')).
    assert (Bx : 0 <= x mod b < b) by (apply Z.mod_pos_bound; unfold R in *; lia).
    set (acc := x mod b) in *.
    rewrite shiftr32, shiftl32.
    assert (Ehl : acc / R * W64 + u64 (acc * R) = acc * R /\ 0 <= u64 (acc * R) < W64 /\ 0 <= acc / R < R).
    { unfold u64. change W64 with (R * R). rewrite Z.mul_mod_distr_r by (unfold R; lia).
      unfold H63, R in *. lia. }
    destruct Ehl as (Ehl & Blo & Bhi).
    rewrite (xxModDouble_spec (acc / R) (u64 (acc * R)) b Hb Bhi Blo). rewrite Ehl.
    assert (By : 0 <= (acc * R) mod b < b) by (apply Z.mod_pos_bound; unfold R in *; lia).
    set (y := (acc * R) mod b) in *.
    rewrite (s64_id b) by (unfold H63, R in *; lia).
    rewrite (s64_id (y - b + ai)) by (unfold H63, R in *; lia).
    assert (Egoal : lval (ai :: a2 :: t') mod b = (y + ai) mod b).
    { change (lval (ai :: a2 :: t')) with (ai + R * x). unfold y, acc.
      rewrite Z.mul_mod_idemp_l by (unfold R in *; lia).
      rewrite Z.add_mod_idemp_l by (unfold R in *; lia). f_equal. lia. }
    rewrite Egoal. f_equal. clearbody y. clear - By Hai Hb.
    destruct (Z.ltb_spec (y - b + ai) 0) as [Hn|Hp].
    + rewrite s64_id by (unfold H63, R in *; lia). rewrite u64_id by (unfold W64, H63, R in *; lia).
      replace (y - b + ai + b) with (y + ai) by lia. symmetry. apply Z.mod_small. lia.
    + rewrite u64_id by (unfold W64, H63, R in *; lia).
      symmetry. replace (y + ai) with ((y - b + ai) + 1 * b) by lia.
      rewrite Z.mod_add by (unfold R in *; lia). apply Z.mod_small. unfold R in *. lia.
Qed.

Lemma bintModi_spec : forall a b, norm a -> 0 <= val a -> 1 <= b < H63 ->
  exists r, bintModi a b = Some r /\ val r = val a mod b /\ norm r.
Proof.
  intros a b Na Ha Hb.
  assert (Bm : 0 <= val a mod b < b) by (apply Z.mod_pos_bound; lia).
  destruct a as [n|neg ds].
  - cbn [val] in *. pose proof (imm_range n Na) as Rn.
    unfold bintModi. rewrite u64_id by (unfold W64, H63 in *; lia).
    rewrite s64_id by (unfold H63 in *; lia).
    destruct (bintNew_spec (n mod b) ltac:(unfold H63 in *; lia)) as (V & N).
    eexists. split; [reflexivity|]. split; [exact V | exact N].
  - pose proof (norm_sto_len _ _ Na) as L2. pose proof Na as Na'. apply norm_sto in Na'.
    destruct Na' as (Dd & Ld & Vd). unfold IMM_MAX in Vd.
    assert (Nd : ds <> []) by (intros ->; cbn in L2; lia).
    assert (neg = false) by (destruct neg; [cbn [val] in Ha; lia | reflexivity]). subst neg.
    cbn [val] in *. unfold bintModi.
    destruct (Z.ltb_spec b R) as [Hs|Hbig].
    + rewrite modi_small_spec by (auto; lia).
      rewrite s64_id by (unfold H63, R in *; lia).
      destruct (bintNew_spec (lval ds mod b) ltac:(unfold H63, R in *; lia)) as (V & N).
      eexists. split; [reflexivity|]. split; [exact V | exact N].
    + rewrite modi_big_spec by (auto; lia).
      rewrite s64_id by (unfold H63 in *; lia).
      destruct (bintNew_spec (lval ds mod b) ltac:(unfold H63 in *; lia)) as (V & N).
      eexists. split; [reflexivity|]. split; [exact V | exact N].
Qed.

(* the remainder with the sign of the dividend, for every divisor *)
Theorem mod_exact : forall a b, norm a -> norm b -> val b <> 0 ->
  exists r, bintMod a b = Some r /\ val r = Z.rem (val a) (val b) /\ norm r.
Proof.
  intros a b Na Nb Hb. unfold bintMod.
  destruct (sign_tests_exact a Na) as (Ena & _). destruct (sign_tests_exact b Nb) as (Enb & _).
  rewrite Ena, Enb.
  set (a' := if val a <? 0 then bintNegate a else a).
  set (b' := if val b <? 0 then bintNegate b else b).
  assert (Ha' : val a' = Z.abs (val a) /\ norm a').
  { unfold a'. destruct (Z.ltb_spec (val a) 0).
    - destruct (negate_exact a Na) as (V & N). rewrite V. split; [lia | exact N].
    - split; [lia | exact Na]. }
  assert (Hb' : val b' = Z.abs (val b) /\ norm b').
  { unfold b'. destruct (Z.ltb_spec (val b) 0).
    - destruct (negate_exact b Nb) as (V & N). rewrite V. split; [lia | exact N].
    - split; [lia | exact Nb]. }
  destruct Ha' as (Va' & Na'). destruct Hb' as (Vb' & Nb').
  pose proof (Z.rem_mod (val a) (val b) Hb) as Rm.
  (* the unsigned remainder *)
  assert (Hr : exists r, match b' with
                         | Imm bi => bintModi a' (u64 bi)
                         | Sto _ _ => if bintLength b' <? 64 then bintModi a' (bintToULong b')
                                      else Some (snd (bintDivide a' b'))
                         end = Some r /\ val r = Z.abs (val a) mod Z.abs (val b) /\ norm r).
  { destruct b' as [bi|nb db] eqn:Eb'.
    - cbn [val] in Vb'. pose proof (imm_range bi Nb') as Rb.
      rewrite u64_id by (unfold W64, H63 in *; lia).
      destruct (bintModi_spec a' bi Na' ltac:(lia) ltac:(lia)) as (r & E & V & N).
      exists r. split; [exact E|]. split; [rewrite V, Va', Vb'; reflexivity | exact N].
    - rewrite (length_exact _ Nb'). rewrite Vb'. rewrite Z.abs_involutive.
      destruct (bitlen_bounds (Z.abs (val b)) ltac:(lia)) as (L1 & L2 & L3).
      destruct (Z.ltb_spec (bitlen (Z.abs (val b))) 64) as [Hs|Hbig].
      + (* two places, below 2^63 *)
        assert (Hlt : Z.abs (val b) < H63).
        { assert (2 ^ bitlen (Z.abs (val b)) <= 2 ^ 63) by (apply Z.pow_le_mono_r; lia).
          change (2 ^ 63) with H63 in *. lia. }
        pose proof (norm_sto_len _ _ Nb') as Ll. pose proof Nb' as Nb2. apply norm_sto in Nb2.
        destruct Nb2 as (Dd & Ld & Vd). unfold IMM_MAX in Vd.
        assert (Enb0 : nb = false) by (destruct nb; [cbn [val] in Vb'; lia | reflexivity]). subst nb.
        cbn [val] in Vb'.
        assert (Eu : bintToULong (Sto false db) = lval db).
        { destruct db as [|d0 [|d1 [|d2 t]]]; [cbn in Ll; lia | cbn in Ll; lia | |].
          - apply dok_cons in Dd. destruct Dd as (B0 & Dd). apply dok_cons in Dd. destruct Dd as (B1 & _).
            assert (E0 : znth 0 [d0; d1] = d0) by reflexivity.
            assert (E1 : znth 1 [d0; d1] = d1) by reflexivity.
            unfold bintToULong. rewrite E0, E1, shiftl32. cbn [lval].
            replace (d0 + R * (d1 + R * 0)) with (d0 + d1 * R) by lia.
            apply u64_id. unfold W64, R in *. lia.
          - exfalso. pose proof (last_nz_ge _ Dd ltac:(congruence) Ld) as G.
            assert (Rp 2 <= Rp (length (d0 :: d1 :: d2 :: t) - 1)) by (apply Rp_mono; cbn [length]; lia).
            rewrite Rp_2 in *. unfold H63 in *. lia. }
        rewrite Eu.
        destruct (bintModi_spec a' (lval db) Na' ltac:(lia) ltac:(lia)) as (r & E & V & N).
        exists r. split; [exact E|]. split; [rewrite V, Va', Vb'; reflexivity | exact N].
      + assert (Nz : val (Sto nb db) <> 0) by lia.
        pose proof (divide_exact a' (Sto nb db) Na' Nb' Nz) as D. cbv zeta in D.
        destruct D as (_ & _ & _ & _ & Er & _ & Nr).
        eexists. split; [reflexivity|]. split; [|exact Nr].
        rewrite Er, Va', Vb'. apply Z.rem_mod_nonneg; lia. }
  destruct Hr as (r & Er & Vr & Nr). rewrite Er.
  destruct (Z.ltb_spec (val a) 0) as [La|La].
  - unfold xintNegate. destruct (negate_exact r Nr) as (V & N).
    eexists. split; [reflexivity|]. split; [|exact N]. rewrite V, Vr, Rm. lia.
  - eexists. split; [reflexivity|]. split; [|exact Nr]. rewrite Vr, Rm.
    destruct (Z.eq_dec (val a) 0) as [Ez|Nz]; [rewrite Ez; change (Z.abs 0) with 0; change (Z.sgn 0) with 0; rewrite Z.mod_0_l by lia; reflexivity | lia].
Qed.
