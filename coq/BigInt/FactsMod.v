(* C11 — bintMod (bintModi both branches, dword.c xxTimesDouble / xxModDouble, and the bintDivide branch). *)
Require Import ZArith List Bool Lia ZifyBool.
Require Import AV.BigInt.Model AV.BigInt.Facts AV.BigInt.FactsCmp AV.BigInt.FactsAdd
               AV.BigInt.FactsBits AV.BigInt.FactsShift AV.BigInt.FactsDiv AV.BigInt.FactsDiv5.
Import ListNotations.
Local Open Scope Z_scope.
Ltac Zify.zify_post_hook ::= Z.div_mod_to_equations.

Lemma land_R1 : forall x, 0 <= x -> Z.land x (R - 1) = x mod R.
Proof. intros x Hx. change (R - 1) with (Z.ones 32). rewrite Z.land_ones by lia. reflexivity. Qed.
Lemma shiftr32 : forall x, Z.shiftr x 32 = x / R.
Proof. intros x. rewrite Z.shiftr_div_pow2 by lia. reflexivity. Qed.
Lemma shiftl32 : forall x, Z.shiftl x 32 = x * R.
Proof. intros x. rewrite Z.shiftl_mul_pow2 by lia. reflexivity. Qed.

(* one wrapped addition with its carry test *)
Lemma add_carry : forall x y, 0 <= x < W64 -> 0 <= y < W64 ->
  u64 (x + y) + W64 * b2z (u64 (x + y) <? x) = x + y /\ 0 <= u64 (x + y) < W64.
Proof.
  intros x y Hx Hy. unfold u64, W64 in *.
  destruct (Z.ltb_spec ((x + y) mod 18446744073709551616) x); cbn [b2z]; lia.
Qed.

(* dword.c xxTimesDouble: the full 128-bit product of two 64-bit words *)
Lemma xxTimesDouble_spec : forall A B, 0 <= A < W64 -> 0 <= B < W64 ->
  fst (xxTimesDouble A B) * W64 + snd (xxTimesDouble A B) = A * B /\
  0 <= snd (xxTimesDouble A B) < W64 /\ 0 <= fst (xxTimesDouble A B) < W64.
Proof.
  intros A B HA HB. unfold xxTimesDouble. cbv zeta.
  rewrite !shiftr32. rewrite (land_R1 A), (land_R1 B) by lia.
  set (Ah := A / R). set (Al := A mod R). set (Bh := B / R). set (Bl := B mod R).
  assert (HAh : 0 <= Ah < R) by (unfold Ah, W64, R in *; lia).
  assert (HAl : 0 <= Al < R) by (unfold Al, R; lia).
  assert (HBh : 0 <= Bh < R) by (unfold Bh, W64, R in *; lia).
  assert (HBl : 0 <= Bl < R) by (unfold Bl, R; lia).
  assert (EA : A = Ah * R + Al) by (unfold Ah, Al, R; lia).
  assert (EB : B = Bh * R + Bl) by (unfold Bh, Bl, R; lia).
  pose proof (mul_bound Ah Bh HAh HBh) as P1. pose proof (mul_bound Al Bh HAl HBh) as P2.
  pose proof (mul_bound Ah Bl HAh HBl) as P3. pose proof (mul_bound Al Bl HAl HBl) as P4.
  assert (EAB : A * B = (Ah * Bh) * W64 + (Al * Bh + Ah * Bl) * R + Al * Bl).
  { rewrite EA at 1. rewrite EB at 1. change W64 with (R * R). ring. }
  set (p1 := Ah * Bh) in *. set (p2 := Al * Bh) in *. set (p3 := Ah * Bl) in *. set (p4 := Al * Bl) in *.
  rewrite (u64_id p1), (u64_id p2), (u64_id p3), (u64_id p4) by (unfold W64, R in *; lia).
  rewrite ?shiftr32. rewrite (land_R1 p2), (land_R1 p3) by lia. rewrite !shiftl32.
  set (Mh := p2 / R). set (Ml := p2 mod R). set (Nh := p3 / R). set (Nl := p3 mod R).
  assert (HM : p2 = Mh * R + Ml /\ 0 <= Ml < R /\ 0 <= Mh < R) by (unfold Mh, Ml, R in *; lia).
  assert (HN : p3 = Nh * R + Nl /\ 0 <= Nl < R /\ 0 <= Nh < R) by (unfold Nh, Nl, R in *; lia).
  destruct HM as (EM & BMl & BMh). destruct HN as (EN & BNl & BNh).
  rewrite (u64_id (Ml * R)), (u64_id (Nl * R)) by (unfold W64, R in *; lia).
  destruct (add_carry p4 (Ml * R) ltac:(unfold W64, R in *; lia) ltac:(unfold W64, R in *; lia)) as (C1 & B1).
  set (L1 := u64 (p4 + Ml * R)) in *. set (c1 := b2z (L1 <? p4)) in *.
  assert (Hc1 : 0 <= c1 <= 1) by (unfold c1; destruct (L1 <? p4); cbn [b2z]; lia).
  destruct (add_carry L1 (Nl * R) B1 ltac:(unfold W64, R in *; lia)) as (C2 & B2).
  set (L2 := u64 (L1 + Nl * R)) in *. set (c2 := b2z (L2 <? L1)) in *.
  assert (Hc2 : 0 <= c2 <= 1) by (unfold c2; destruct (L2 <? L1); cbn [b2z]; lia).
  cbn [fst snd].
  (* the high word never wraps: A*B < W64^2 *)
  assert (HAB : A * B < W64 * W64) by (apply Z.mul_lt_mono_nonneg; lia).
  assert (Etot : (p1 + c1 + Mh + c2 + Nh) * W64 + L2 = A * B).
  { rewrite EAB, EM, EN. change W64 with (R * R) in *. unfold R in *. lia. }
  assert (Hhi : 0 <= p1 + c1 + Mh + c2 + Nh < W64) by (unfold W64 in *; lia).
  rewrite (u64_id (p1 + c1)) by (unfold W64 in *; lia).
  rewrite (u64_id (p1 + c1 + Mh)) by (unfold W64 in *; lia).
  rewrite (u64_id (p1 + c1 + Mh + c2)) by (unfold W64 in *; lia).
  rewrite (u64_id (p1 + c1 + Mh + c2 + Nh)) by exact Hhi.
  split; [exact Etot|]. split; [exact B2 | exact Hhi].
Qed.
