(* C11 — bintLength and bintBit are exact (on the magnitude, as the code's comment says). *)
Require Import ZArith List Bool Lia ZifyBool.
Require Import AV.BigInt.Model AV.BigInt.Facts AV.BigInt.FactsCmp AV.BigInt.FactsAdd.
Import ListNotations.
Local Open Scope Z_scope.
Ltac Zify.zify_post_hook ::= Z.div_mod_to_equations.

Lemma Rp_pow2 : forall n, Rp n = 2 ^ (32 * Z.of_nat n).
Proof. intros n. unfold Rp. rewrite R_eq, <- Z.pow_mul_r by lia. reflexivity. Qed.

(* bit length of a non-negative integer: 1 for 0 *)
Definition bitlen (u : Z) : Z := if u =? 0 then 1 else Z.log2 u + 1.

Lemma bitlen_unique : forall u r, 1 <= r -> 0 < u -> 2 ^ (r - 1) <= u < 2 ^ r -> bitlen u = r.
Proof.
  intros u r Hr Hu Hb. unfold bitlen. destruct (Z.eqb_spec u 0); [lia|].
  rewrite (Z.log2_unique u (r - 1)); [lia | lia |]. replace (Z.succ (r - 1)) with r by lia. exact Hb.
Qed.

Lemma uintLength_bitlen : forall u, 0 <= u < W64 -> uintLength u = bitlen u.
Proof.
  intros u Hu. destruct (uintLength_spec u Hu) as (H1 & H2 & H3).
  destruct (Z.eq_dec u 0) as [->|Hnz].
  - unfold bitlen. cbn [Z.eqb]. destruct (Z_le_gt_dec (uintLength 0) 1); [lia|].
    specialize (H3 ltac:(lia)). assert (0 < 2 ^ (uintLength 0 - 1)) by (apply Z.pow_pos_nonneg; lia). lia.
  - symmetry. destruct (Z.eq_dec (uintLength u) 1) as [E|E].
    + rewrite E in *. change (2 ^ 1) with 2 in H2. assert (u = 1) by lia. subst u. reflexivity.
    + apply bitlen_unique; [lia | lia |]. split; [apply H3; lia | exact H2].
Qed.

Lemma lval_split_last : forall ds, ds <> [] ->
  lval ds = lval (removelast ds) + Rp (length ds - 1) * last ds 0 /\
  length (removelast ds) = (length ds - 1)%nat /\ (dok ds -> dok (removelast ds)).
Proof.
  intros ds Hne. pose proof (app_removelast_last 0 Hne) as E.
  assert (L : length (removelast ds) = (length ds - 1)%nat).
  { rewrite E at 2. rewrite app_length. cbn [length]. lia. }
  split; [|split; [exact L|]].
  - rewrite E at 1. rewrite lval_app, L. cbn [lval]. lia.
  - intros Hd. rewrite E in Hd. apply dok_app in Hd. tauto.
Qed.

Theorem length_exact : forall a, norm a -> bintLength a = bitlen (Z.abs (val a)).
Proof.
  intros [n|neg ds] Ha.
  - pose proof (imm_range n Ha) as Hr. cbn [bintLength val]. unfold intLength, uabs.
    rewrite u64_id by (unfold W64, H63 in *; lia).
    apply uintLength_bitlen. unfold W64, H63 in *. lia.
  - pose proof (norm_sto_len _ _ Ha) as Hl. apply norm_sto in Ha. destruct Ha as (Hd & Hn & Hv).
    assert (Hne : ds <> []) by (intros ->; cbn in Hl; lia).
    destruct (lval_split_last ds Hne) as (E & L & D). specialize (D Hd).
    pose proof (dok_last ds Hd Hne) as Ht.
    pose proof (lval_bound _ D) as Hlow. rewrite L in Hlow.
    assert (Ea : Z.abs (val (Sto neg ds)) = lval ds) by (cbn [val]; unfold IMM_MAX in Hv; destruct neg; lia).
    rewrite Ea. cbn [bintLength].
    rewrite uintLength_bitlen by (unfold W64, R in *; lia).
    set (t := last ds 0) in *. set (m := (length ds - 1)%nat) in *.
    assert (Hm : len ds - 1 = Z.of_nat m) by (unfold len, m in *; lia). rewrite Hm.
    assert (Ht0 : 0 < t) by lia.
    symmetry. apply bitlen_unique.
    + unfold LG, bitlen. destruct (Z.eqb_spec t 0); [lia|]. pose proof (Z.log2_nonneg t). lia.
    + unfold IMM_MAX in Hv. lia.
    + unfold bitlen. destruct (Z.eqb_spec t 0); [lia|].
      pose proof (Z.log2_spec t Ht0) as (Lo & Hi). pose proof (Z.log2_nonneg t) as Lnn.
      unfold LG. rewrite Rp_pow2 in *.
      replace (32 * Z.of_nat m + (Z.log2 t + 1) - 1) with (32 * Z.of_nat m + Z.log2 t) by lia.
      replace (32 * Z.of_nat m + (Z.log2 t + 1)) with (32 * Z.of_nat m + Z.succ (Z.log2 t)) by lia.
      rewrite !Z.pow_add_r by lia.
      assert (0 < 2 ^ (32 * Z.of_nat m)) by (apply Z.pow_pos_nonneg; lia).
      nia.
Qed.

(* ------------------------------------------------------------------ bit test *)
Lemma testbit_cons : forall d x ix, 0 <= d < R -> 0 <= ix ->
  Z.testbit (d + R * x) ix = if ix <? 32 then Z.testbit d ix else Z.testbit x (ix - 32).
Proof.
  intros d x ix Hd Hix. destruct (Z.ltb_spec ix 32) as [L|L].
  - rewrite <- (Z.mod_pow2_bits_low (d + R * x) 32 ix) by lia.
    f_equal. change (2 ^ 32) with R. unfold R in *. lia.
  - replace ix with ((ix - 32) + 32) at 1 by lia.
    rewrite <- Z.div_pow2_bits by lia. f_equal. change (2 ^ 32) with R. unfold R in *. lia.
Qed.

Lemma testbit_lval : forall ds ix, dok ds -> 0 <= ix ->
  Z.testbit (lval ds) ix = Z.testbit (nth (Z.to_nat (ix / 32)) ds 0) (ix mod 32).
Proof.
  induction ds as [|d t IH]; intros ix Hd Hix.
  - cbn [lval]. destruct (Z.to_nat (ix / 32)); cbn [nth]; rewrite !Z.testbit_0_l; reflexivity.
  - apply dok_cons in Hd. destruct Hd as [Hd Ht]. cbn [lval].
    rewrite testbit_cons by assumption. destruct (Z.ltb_spec ix 32) as [L|L].
    + replace (ix / 32) with 0 by lia. cbn [Z.to_nat nth]. f_equal. lia.
    + rewrite IH by (assumption || lia).
      replace (Z.to_nat (ix / 32)) with (S (Z.to_nat ((ix - 32) / 32))) by lia.
      cbn [nth]. f_equal. lia.
Qed.

Theorem bit_exact : forall a ix, norm a -> 0 <= ix -> bintBit a ix = Z.testbit (Z.abs (val a)) ix.
Proof.
  intros [n|neg ds] ix Ha Hix.
  - pose proof (imm_range n Ha) as Hr. apply norm_imm in Ha.
    cbn [bintBit val]. unfold intBit, uintBit, uabs. rewrite u64_id by (unfold W64, H63 in *; lia).
    destruct (Z.ltb_spec ix 64) as [L|L]; cbn [andb]; [reflexivity|].
    symmetry. destruct (Z.eq_dec (Z.abs n) 0) as [->|Hnz]; [apply Z.testbit_0_l|].
    apply Z.bits_above_log2; [lia|].
    assert (Z.log2 (Z.abs n) < 64); [|lia].
    apply Z.log2_lt_pow2; [lia|]. unfold IMM_MIN, IMM_MAX in Ha. change (2 ^ 64) with 18446744073709551616. lia.
  - apply norm_sto in Ha. destruct Ha as (Hd & Hn & Hv).
    assert (Ea : Z.abs (val (Sto neg ds)) = lval ds) by (cbn [val]; unfold IMM_MAX in Hv; destruct neg; lia).
    rewrite Ea. cbn [bintBit]. rewrite testbit_lval by assumption.
    unfold LG, znth, len.
    assert (0 <= ix / 32) by (apply Z.div_pos; lia).
    destruct (Z.ltb_spec (ix / 32) 0); [lia|].
    destruct (Z.ltb_spec (ix / 32) (Z.of_nat (length ds))) as [L|L]; cbn [andb]; [reflexivity|].
    rewrite nth_overflow by lia. rewrite Z.testbit_0_l. reflexivity.
Qed.
