(* C11 — Knuth D: one full step D3-D6 computes the exact quotient digit; the loop D2-D7 the quotient. *)
Require Import ZArith List Bool Lia ZifyBool.
Require Import AV.BigInt.Model AV.BigInt.Facts AV.BigInt.FactsCmp AV.BigInt.FactsAdd AV.BigInt.FactsMul
               AV.BigInt.FactsBits AV.BigInt.FactsDivS AV.BigInt.FactsShift AV.BigInt.FactsDiv AV.BigInt.FactsDiv2.
Import ListNotations.
Local Open Scope Z_scope.
Ltac Zify.zify_post_hook ::= Z.div_mod_to_equations.

Lemma skipn_nth : forall (l : list Z) j, (j < length l)%nat -> skipn j l = nth j l 0 :: skipn (S j) l.
Proof.
  induction l as [|x l IH]; intros j H; [cbn [length] in H; lia|].
  destruct j; [reflexivity|]. cbn [skipn nth]. apply IH. cbn [length] in H. lia.
Qed.
Lemma lval_firstn_skipn : forall j l, (j <= length l)%nat ->
  lval l = lval (firstn j l) + Rp j * lval (skipn j l).
Proof.
  intros j l H. rewrite <- (firstn_skipn j l) at 1. rewrite lval_app, firstn_length. f_equal. f_equal. f_equal. lia.
Qed.
Lemma dok_firstn : forall j l, dok l -> dok (firstn j l).
Proof. intros j l H. rewrite <- (firstn_skipn j l) in H. apply dok_app in H. tauto. Qed.
Lemma dok_skipn : forall j l, dok l -> dok (skipn j l).
Proof. intros j l H. rewrite <- (firstn_skipn j l) in H. apply dok_app in H. tauto. Qed.
Lemma dok_nth : forall l j, dok l -> 0 <= nth j l 0 < R.
Proof.
  induction l as [|x l IH]; intros j H; [destruct j; cbn [nth]; unfold R; lia|].
  apply dok_cons in H. destruct H as [Hx Hl]. destruct j; cbn [nth]; auto.
Qed.

(* the top three places of a window of n+1 places, the top two of a divisor of n places *)
Lemma top3 : forall w n, length w = S n -> (2 <= n)%nat -> dok w ->
  lval w = lval (firstn (n - 2) w) + Rp (n - 2) * (nth (n - 2) w 0 + R * nth (n - 1) w 0 + R * R * nth n w 0) /\
  0 <= lval (firstn (n - 2) w) < Rp (n - 2).
Proof.
  intros w n L Hn Hd.
  rewrite (lval_firstn_skipn (n - 2) w) at 1 by lia.
  rewrite (skipn_nth w (n - 2)) by lia. rewrite (skipn_nth w (S (n - 2))) by lia.
  rewrite (skipn_nth w (S (S (n - 2)))) by lia. rewrite skipn_all2 by lia.
  replace (S (n - 2)) with (n - 1)%nat by lia. replace (S (n - 1)) with n by lia.
  cbn [lval]. split; [lia|].
  pose proof (lval_bound _ (dok_firstn (n - 2) w Hd)) as B. rewrite firstn_length in B.
  replace (Nat.min (n - 2) (length w)) with (n - 2)%nat in B by lia. exact B.
Qed.
Lemma top2 : forall v n, length v = n -> (2 <= n)%nat -> dok v ->
  lval v = lval (firstn (n - 2) v) + Rp (n - 2) * (nth (n - 2) v 0 + R * nth (n - 1) v 0) /\
  0 <= lval (firstn (n - 2) v) < Rp (n - 2).
Proof.
  intros v n L Hn Hd.
  rewrite (lval_firstn_skipn (n - 2) v) at 1 by lia.
  rewrite (skipn_nth v (n - 2)) by lia. rewrite (skipn_nth v (S (n - 2))) by lia.
  rewrite skipn_all2 by lia. replace (S (n - 2)) with (n - 1)%nat by lia.
  cbn [lval]. split; [lia|].
  pose proof (lval_bound _ (dok_firstn (n - 2) v Hd)) as B. rewrite firstn_length in B.
  replace (Nat.min (n - 2) (length v)) with (n - 2)%nat in B by lia. exact B.
Qed.

(* ------------------------------------------------------------------ one step D3-D6 *)
Lemma divide_step_spec : forall v w, dok v -> dok w -> (2 <= length v)%nat -> length w = S (length v) ->
  R <= 2 * nth (length v - 1) v 0 -> lval w < lval v * R ->
  let s := divide_step v (nth (length v - 1) v 0) (nth (length v - 2) v 0) w in
  lval w = fst s * lval v + lval (snd s) /\ 0 <= lval (snd s) < lval v /\ dok (snd s) /\
  length (snd s) = length w /\ 0 <= fst s < R.
Proof.
  intros v w Dv Dw Hn Lw Hv1 HWV. cbv zeta.
  set (n := length v) in *.
  destruct (top3 w n Lw Hn Dw) as (EW & BWl). destruct (top2 v n eq_refl Hn Dv) as (EV & BVl).
  set (v1 := nth (n - 1) v 0) in *. set (v2 := nth (n - 2) v 0) in *.
  set (uj0 := nth n w 0) in *. set (uj1 := nth (n - 1) w 0) in *. set (uj2 := nth (n - 2) w 0) in *.
  pose proof (dok_nth v (n - 1) Dv) as Bv1. pose proof (dok_nth v (n - 2) Dv) as Bv2.
  pose proof (dok_nth w n Dw) as Bu0. pose proof (dok_nth w (n - 1) Dw) as Bu1. pose proof (dok_nth w (n - 2) Dw) as Bu2.
  fold v1 in Bv1. fold v2 in Bv2. fold uj0 in Bu0. fold uj1 in Bu1. fold uj2 in Bu2.
  set (W := lval w) in *. set (V := lval v) in *.
  set (P := Rp (n - 2)) in *.
  assert (Pp : 0 < P) by apply Rp_pos.
  assert (Vp : 0 < V).
  { assert (0 < P * (R * v1)) by (apply Z.mul_pos_pos; [exact Pp | unfold R in *; lia]).
    assert (0 <= P * v2) by (apply Z.mul_nonneg_nonneg; lia).
    rewrite EV. lia. }
  set (q := W / V).
  assert (Hq : q * V <= W < (q + 1) * V).
  { unfold q. pose proof (Z.div_mod W V ltac:(lia)) as DM. pose proof (Z.mod_pos_bound W V Vp) as MB.
    rewrite Z.mul_add_distr_r. lia. }
  assert (C : ectx W V (lval (firstn (n - 2) w)) (lval (firstn (n - 2) v)) P
                (uj2 + R * uj1 + R * R * uj0) (v2 + R * v1) q uj0 uj1 uj2 v1 v2).
  { unfold ectx. repeat split; try lia; try apply Bu0; try apply Bu1; try apply Bu2; try apply Bv2;
      try (unfold R in *; lia). }
  destruct (qhat_of_spec _ _ _ _ _ _ _ _ _ _ _ _ _ C Hv1) as (Hqh & Bqh).
  pose proof (est_q_range _ _ _ _ _ _ _ _ _ _ _ _ _ C) as Bq.
  unfold divide_step. fold n. fold uj0 uj1 uj2.
  set (qh := qhat_of uj0 uj1 uj2 v1 v2) in *.
  pose proof (mulsub_spec w v qh 0 Dw Dv ltac:(lia) Bqh ltac:(unfold R; lia)) as (Em & Dm & Lm & Bk).
  destruct (mulsub w v qh 0) as [r kf]. cbn [fst snd] in *.
  fold W V in Em. rewrite Lw in Em. fold n in Em.
  pose proof (lval_bound _ Dm) as Br. rewrite Lm, Lw in Br. fold n in Br.
  pose proof (lval_bound _ Dv) as BV. fold V n in BV.
  assert (Hpn : Rp n <= Rp (S n)) by (apply Rp_mono; lia).
  set (B := Rp (S n)) in *.
  destruct (Z.eqb_spec kf 0) as [Ek|Nk].
  - (* no borrow: qhat was right *)
    subst kf. cbn [fst snd].
    assert (Hle : qh * V <= W) by lia.
    assert (Hqq : qh = q).
    { destruct (Z.eq_dec qh q) as [E|E]; [exact E | exfalso]. assert (qh = q + 1) by lia. subst qh. lia. }
    rewrite Hqq in *. split; [lia|]. split; [lia|]. split; [exact Dm|]. split; [lia | exact Bq].
  - (* borrow: add back *)
    assert (Hk1 : 1 <= kf) by lia.
    assert (Hb : B * 1 <= B * kf) by (apply mul_mono_l; lia).
    assert (Hgt : W < qh * V) by lia.
    assert (Hqq : qh = q + 1).
    { destruct (Z.eq_dec qh (q + 1)) as [E|E]; [exact E | exfalso]. assert (qh = q) by lia. lia. }
    assert (Ekf : kf = 1).
    { destruct (Z.eq_dec kf 1) as [E|E]; [exact E | exfalso].
      assert (B * 2 <= B * kf) by (apply mul_mono_l; lia).
      rewrite Hqq in Em. lia. }
    subst kf. rewrite Hqq in *.
    destruct (addback_spec r v 0 Dm Dv ltac:(lia) ltac:(lia)) as (kf' & Bk' & Ea & Da & La).
    rewrite Lm, Lw in Ea. fold n B V in Ea.
    pose proof (lval_bound _ Da) as Bab. rewrite La, Lm, Lw in Bab. fold n B in Bab.
    assert (Ekf' : kf' = 1).
    { destruct (Z.eq_dec kf' 1) as [E|E]; [exact E | exfalso]. assert (kf' = 0) by lia. subst kf'. lia. }
    subst kf'. cbn [fst snd].
    rewrite toS_id by lia. replace (q + 1 - 1) with q by lia.
    split; [lia|]. split; [lia|]. split; [exact Da|]. split; [lia | exact Bq].
Qed.

(* ------------------------------------------------------------------ the loop D2-D7 *)
Lemma divide_loop_spec : forall lo_rev v w qacc,
  dok v -> (2 <= length v)%nat -> R <= 2 * nth (length v - 1) v 0 ->
  dok w -> length w = S (length v) -> lval w < lval v * R -> dok lo_rev ->
  exists qs wf,
    divide_loop v (nth (length v - 1) v 0) (nth (length v - 2) v 0) w lo_rev qacc = (qs ++ qacc, wf) /\
    length qs = S (length lo_rev) /\ dok qs /\
    lval (rev lo_rev ++ w) = lval qs * lval v + lval wf /\
    0 <= lval wf < lval v /\ dok wf /\ length wf = S (length v).
Proof.
  induction lo_rev as [|d lo' IH]; intros v w qacc Dv Hn Hv1 Dw Lw HWV Dlo.
  - pose proof (divide_step_spec v w Dv Dw Hn Lw Hv1 HWV) as S. cbv zeta in S.
    cbn [divide_loop].
    destruct (divide_step v (nth (length v - 1) v 0) (nth (length v - 2) v 0) w) as [qd w'].
    cbn [fst snd] in S. destruct S as (E & B & D & L & Bq).
    exists [qd], w'. cbn [app rev lval length].
    split; [reflexivity|]. split; [reflexivity|]. split; [apply dok_cons; auto using dok_nil|].
    split; [lia|]. split; [exact B|]. split; [exact D | lia].
  - apply dok_cons in Dlo. destruct Dlo as [Hd Dlo'].
    pose proof (divide_step_spec v w Dv Dw Hn Lw Hv1 HWV) as S. cbv zeta in S.
    cbn [divide_loop].
    destruct (divide_step v (nth (length v - 1) v 0) (nth (length v - 2) v 0) w) as [qd w'].
    cbn [fst snd] in S. destruct S as (E & B & D & L & Bq).
    pose proof (lval_bound _ Dv) as BV.
    destruct (firstn_lval_small (length v) w' D ltac:(lia)) as (Ef & Df).
    assert (Lf : length (firstn (length v) w') = length v) by (rewrite firstn_length; lia).
    assert (Dw2 : dok (d :: firstn (length v) w')) by (apply dok_cons; auto).
    assert (Lw2 : length (d :: firstn (length v) w') = S (length v)) by (cbn [length]; lia).
    assert (HW2 : lval (d :: firstn (length v) w') < lval v * R) by (cbn [lval]; rewrite Ef; unfold R in *; lia).
    destruct (IH v (d :: firstn (length v) w') (qd :: qacc) Dv Hn Hv1 Dw2 Lw2 HW2 Dlo')
      as (qs' & wf & Eq & Lq & Dq & Ev & Bwf & Dwf & Lwf).
    exists (qs' ++ [qd]), wf.
    split; [rewrite Eq, <- app_assoc; reflexivity|].
    split; [rewrite app_length; cbn [length]; lia|].
    split; [apply dok_app; split; [exact Dq | apply dok_cons; auto using dok_nil]|].
    split; [|split; [exact Bwf | split; [exact Dwf | exact Lwf]]].
    rewrite lval_app in Ev. cbn [lval] in Ev. rewrite Ef in Ev.
    cbn [rev]. rewrite <- app_assoc. cbn [app]. rewrite lval_app. cbn [lval].
    rewrite (lval_app qs' [qd]). cbn [lval]. rewrite Lq, Rp_S. rewrite rev_length in *.
    rewrite E. lia.
Qed.
