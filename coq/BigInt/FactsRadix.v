(* C11 — radix input (bintRadixScanFrString, "RRrWW" with radix 2..36) is exact. *)
Require Import ZArith List Bool Lia ZifyBool.
Require Import AV.BigInt.Model AV.BigInt.Facts AV.BigInt.FactsCmp AV.BigInt.FactsAdd AV.BigInt.FactsMul
               AV.BigInt.FactsBits AV.BigInt.FactsDivS AV.BigInt.FactsStr AV.BigInt.FactsScan AV.BigInt.FactsShift.
Import ListNotations.
Local Open Scope Z_scope.
Ltac Zify.zify_post_hook ::= Z.div_mod_to_equations.

(* a character [0-9A-Z] that is a digit of the given radix *)
Definition isdigr (radix c : Z) : Prop := ((48 <= c <= 57) \/ (65 <= c <= 90)) /\ digval c < radix.
Definition allr (radix : Z) (s : list Z) : Prop := Forall (isdigr radix) s.
Fixpoint rval (radix : Z) (s : list Z) : Z :=
  match s with
  | [] => 0
  | c :: t => digval c * radix ^ len t + rval radix t
  end.
Definition notalnum_head (rest : list Z) : Prop :=
  match rest with c :: _ => ~ ((48 <= c <= 57) \/ (65 <= c <= 90)) | [] => True end.

Lemma digval_range : forall radix c, isdigr radix c -> 0 <= digval c < radix.
Proof. intros radix c (H & L). unfold digval in *. destruct (Z.leb_spec c 57); lia. Qed.

Lemma rpow_pos : forall radix n, 2 <= radix -> 0 <= n -> 0 < radix ^ n.
Proof. intros. apply Z.pow_pos_nonneg; lia. Qed.

Lemma rval_app : forall radix a b, rval radix (a ++ b) = rval radix a * radix ^ len b + rval radix b.
Proof.
  induction a as [|c a IH]; intros b; cbn [app rval]; [lia|].
  rewrite IH, len_app, Z.pow_add_r by apply len_nonneg. lia.
Qed.
Lemma rval_lt : forall radix s, 2 <= radix -> allr radix s -> 0 <= rval radix s < radix ^ len s.
Proof.
  induction s as [|c t IH]; intros Hr H.
  - cbn [rval]. rewrite len_nil. change (radix ^ 0) with 1. lia.
  - inversion H as [|? ? Hc Ht]; subst. specialize (IH Hr Ht). pose proof (digval_range radix c Hc) as Dc.
    cbn [rval]. rewrite len_cons, Z.pow_add_r by (try apply len_nonneg; lia). rewrite Z.pow_1_r.
    pose proof (rpow_pos radix (len t) Hr (len_nonneg t)). nia.
Qed.
Lemma allr_firstn : forall radix n cs, allr radix cs -> allr radix (firstn n cs).
Proof.
  intros radix n cs H. unfold allr in *. rewrite Forall_forall in *. intros x Hx. apply H.
  rewrite <- (firstn_skipn n cs). apply in_or_app. left. exact Hx.
Qed.
Lemma allr_skipn : forall radix n cs, allr radix cs -> allr radix (skipn n cs).
Proof.
  intros radix n cs H. unfold allr in *. rewrite Forall_forall in *. intros x Hx. apply H.
  rewrite <- (firstn_skipn n cs). apply in_or_app. right. exact Hx.
Qed.

Lemma horner_spec : forall radix cs n, 2 <= radix <= 36 -> allr radix cs -> 0 <= n ->
  n * radix ^ len cs + rval radix cs < H63 ->
  horner radix cs n = n * radix ^ len cs + rval radix cs.
Proof.
  induction cs as [|c t IH]; intros n Hr Hd Hn Hb.
  - cbn [horner rval]. rewrite len_nil. lia.
  - inversion Hd as [|? ? Hc Ht]; subst. pose proof (rval_lt radix t ltac:(lia) Ht) as Bt.
    pose proof (rpow_pos radix (len t) ltac:(lia) (len_nonneg t)) as Pp.
    pose proof (digval_range radix c Hc) as Dc.
    cbn [horner rval] in *. rewrite len_cons, Z.pow_add_r, Z.pow_1_r in Hb by (try apply len_nonneg; lia).
    assert (Hm : 0 <= radix * n + digval c /\ (radix * n + digval c) * radix ^ len t + rval radix t < H63) by nia.
    assert (Hs : radix * n + digval c < H63) by nia.
    rewrite s64_id by (unfold H63 in *; lia).
    rewrite IH by (try exact Ht; lia).
    rewrite len_cons, Z.pow_add_r, Z.pow_1_r by (try apply len_nonneg; lia). lia.
Qed.
Lemma strtol_pref_spec : forall radix cs n, 2 <= radix -> allr radix cs ->
  strtol_pref radix cs n = n * radix ^ len cs + rval radix cs.
Proof.
  induction cs as [|c t IH]; intros n Hr Hd.
  - cbn [strtol_pref rval]. rewrite len_nil. lia.
  - inversion Hd as [|? ? Hc Ht]; subst. pose proof (digval_range radix c Hc) as Dc.
    cbn [strtol_pref rval]. destruct (Z.ltb_spec (digval c) radix); [|lia].
    rewrite IH by assumption. rewrite len_cons, Z.pow_add_r, Z.pow_1_r by (try apply len_nonneg; lia). lia.
Qed.

(* the chunk loop for a general radix, rio = radix^dio *)
Lemma scan_chunks_gen : forall radix rio dio fuel cs acc, 2 <= radix <= 36 -> (1 <= dio)%nat ->
  rio = radix ^ Z.of_nat dio -> 0 < rio < R ->
  allr radix cs -> (length cs <= fuel)%nat -> (exists k, len cs = Z.of_nat dio * k) -> semi acc ->
  semi (scan_chunks fuel radix rio dio cs acc) /\
  lval (scan_chunks fuel radix rio dio cs acc) = lval acc * radix ^ len cs + rval radix cs.
Proof.
  intros radix rio dio fuel. induction fuel as [|f IH]; intros cs acc Hr Hdio Erio Brio Hd Hf (k & Hk) Hs.
  - destruct cs; [|cbn [length] in Hf; lia]. cbn [scan_chunks rval]. rewrite len_nil. split; [exact Hs | lia].
  - destruct cs as [|c0 ct] eqn:Ecs.
    + cbn [scan_chunks rval]. rewrite len_nil. split; [exact Hs | lia].
    + rewrite <- Ecs in *. 
      assert (H9 : (dio <= length cs)%nat).
      { unfold len in Hk. destruct (Z_le_gt_dec k 0); [rewrite Ecs in Hk; cbn [length] in Hk; nia | nia]. }
      destruct (firstn_skipn_len dio cs H9) as (L1 & L2).
      pose proof (allr_firstn radix dio cs Hd) as D1. pose proof (allr_skipn radix dio cs Hd) as D2.
      pose proof (rval_lt radix _ ltac:(lia) D1) as B1. rewrite L1, <- Erio in B1.
      assert (En : horner radix (firstn dio cs) 0 = rval radix (firstn dio cs)).
      { rewrite horner_spec; [lia | exact Hr | exact D1 | lia | unfold H63, R in *; lia]. }
      assert (Estep : scan_chunks (S f) radix rio dio cs acc =
                      scan_chunks f radix rio dio (skipn dio cs)
                        (iintTimesPlusS acc (toS rio) (toS (horner radix (firstn dio cs) 0)))).
      { rewrite Ecs. reflexivity. }
      rewrite Estep, En.
      rewrite (toS_id rio) by lia. rewrite toS_id by (unfold R in *; lia).
      unfold iintTimesPlusS. destruct (Z.eqb_spec rio 0); [lia|].
      destruct (timesS_semi acc rio (rval radix (firstn dio cs)) Hs Brio ltac:(unfold R in *; lia)) as (S' & V').
      destruct (IH (skipn dio cs) _ Hr Hdio Erio Brio D2 ltac:(rewrite skipn_length; lia)
                  ltac:(exists (k - 1); rewrite L2; lia) S') as (S2 & V2).
      split; [exact S2|]. rewrite V2, V', L2.
      assert (Edv : rval radix cs = rval radix (firstn dio cs) * radix ^ (len cs - Z.of_nat dio) + rval radix (skipn dio cs)).
      { rewrite <- (firstn_skipn dio cs) at 1. rewrite rval_app, L2. reflexivity. }
      rewrite Edv.
      assert (H9z : Z.of_nat dio <= len cs) by (unfold len; lia).
      assert (Ep : radix ^ len cs = rio * radix ^ (len cs - Z.of_nat dio)).
      { replace (len cs) with (Z.of_nat dio + (len cs - Z.of_nat dio)) at 1 by lia.
        rewrite Z.pow_add_r by lia. rewrite Erio. reflexivity. }
      rewrite Ep. lia.
Qed.

Lemma scan_big_gen : forall radix rio dio neg cs, 2 <= radix <= 36 -> 1 <= dio ->
  rio = radix ^ dio -> 0 < rio < R -> allr radix cs ->
  val (scan_big radix rio dio neg cs) = (if neg then - rval radix cs else rval radix cs) /\
  norm (scan_big radix rio dio neg cs).
Proof.
  intros radix rio dio neg cs Hr Hdio Erio Brio Hd. unfold scan_big.
  set (l0 := Z.rem (len cs) dio).
  assert (Hl0 : 0 <= l0 < dio /\ l0 = len cs mod dio).
  { unfold l0. pose proof (len_nonneg cs). rewrite Z.rem_mod_nonneg by lia.
    pose proof (Z.mod_pos_bound (len cs) dio ltac:(lia)). lia. }
  destruct Hl0 as (Hl0 & El0).
  assert (Hle : (Z.to_nat l0 <= length cs)%nat).
  { pose proof (Z.mod_le (len cs) dio (len_nonneg cs) ltac:(lia)). unfold len in *. lia. }
  destruct (firstn_skipn_len (Z.to_nat l0) cs Hle) as (L1 & L2). rewrite Z2Nat.id in L1, L2 by lia.
  pose proof (allr_firstn radix (Z.to_nat l0) cs Hd) as D1. pose proof (allr_skipn radix (Z.to_nat l0) cs Hd) as D2.
  pose proof (rval_lt radix _ ltac:(lia) D1) as B1. rewrite L1 in B1.
  assert (P9 : radix ^ l0 <= radix ^ dio) by (apply Z.pow_le_mono_r; lia). rewrite <- Erio in P9.
  assert (En : horner radix (firstn (Z.to_nat l0) cs) 0 = rval radix (firstn (Z.to_nat l0) cs)).
  { rewrite horner_spec; [lia | exact Hr | exact D1 | lia | unfold H63, R in *; lia]. }
  rewrite En. set (n0 := rval radix (firstn (Z.to_nat l0) cs)) in *.
  assert (Eb0 : sto_ds (xintCopyInI n0) = [n0]).
  { unfold xintCopyInI, uabs. rewrite u64_id by (unfold W64, R in *; lia). rewrite Z.abs_eq by lia.
    destruct (Z.ltb_spec n0 R); [reflexivity | unfold R in *; lia]. }
  rewrite Eb0.
  assert (S0 : semi [n0]).
  { split; [apply dok_cons; split; [unfold R in *; lia | apply dok_nil]|]. split; [congruence|].
    destruct (Z.eq_dec n0 0) as [E0|N0]; [right; rewrite E0; reflexivity | left; cbn [last]; assumption]. }
  assert (Hk : exists k, len (skipn (Z.to_nat l0) cs) = Z.of_nat (Z.to_nat dio) * k).
  { exists (len cs / dio). rewrite L2, Z2Nat.id by lia. pose proof (Z.div_mod (len cs) dio ltac:(lia)). lia. }
  destruct (scan_chunks_gen radix rio (Z.to_nat dio) (length cs) (skipn (Z.to_nat l0) cs) [n0] Hr ltac:(lia)
              ltac:(rewrite Z2Nat.id by lia; exact Erio) Brio D2 ltac:(rewrite skipn_length; lia) Hk S0) as (S1 & V1).
  destruct (xintImmedIfCan_ok neg _ (semi_res_ok _ S1)) as (V2 & N2).
  split; [|exact N2]. rewrite V2. cbn [val]. rewrite V1. cbn [lval].
  assert (Edv : rval radix cs = n0 * radix ^ len (skipn (Z.to_nat l0) cs) + rval radix (skipn (Z.to_nat l0) cs)).
  { rewrite <- (firstn_skipn (Z.to_nat l0) cs) at 1. rewrite rval_app. reflexivity. }
  rewrite Edv. destruct neg; lia.
Qed.

(* the per-radix parameters, checked for every radix 2..36 *)
Definition radix_ok (radix : Z) : bool :=
  let '(rio0, dio0) := pow_loop_lt 64 radix radix 1 (R / radix) in
  let rio := rio0 * radix in let dio := dio0 + 1 in
  (rio =? radix ^ dio) && (0 <? rio) && (rio <? R) && (1 <=? dio) &&
  (radix <=? 2 ^ bpd_of radix) && (1 <=? bpd_of radix).
Lemma radix_ok_all : forallb radix_ok (map Z.of_nat (seq 2 35)) = true.
Proof. vm_compute. reflexivity. Qed.
Lemma radix_ok_spec : forall radix, 2 <= radix <= 36 -> radix_ok radix = true.
Proof.
  intros radix Hr. pose proof radix_ok_all as H. rewrite forallb_forall in H. apply H.
  replace radix with (Z.of_nat (Z.to_nat radix)) by lia. apply in_map. apply in_seq. lia.
Qed.

Definition alnum (c : Z) : bool := isdigit c || isupper c.
Lemma isdigr_alnum : forall radix c, isdigr radix c -> alnum c = true.
Proof. intros radix c (H & _). unfold alnum, isdigit, isupper. lia. Qed.
Lemma take_skip_alnum : forall radix ds rest, allr radix ds -> notalnum_head rest ->
  take_while alnum (ds ++ rest) = ds /\ skip_while alnum (ds ++ rest) = rest.
Proof.
  induction ds as [|c t IH]; intros rest Hd Hr.
  - cbn [app]. destruct rest as [|c r]; [split; reflexivity|].
    cbn [notalnum_head] in Hr. cbn [take_while skip_while].
    destruct (alnum c) eqn:E; [exfalso; apply Hr; unfold alnum, isdigit, isupper in E; lia | split; reflexivity].
  - inversion Hd as [|? ? Hc Ht]; subst. destruct (IH rest Ht Hr) as (E1 & E2).
    cbn [app take_while skip_while]. rewrite (isdigr_alnum radix c Hc), E1, E2. split; reflexivity.
Qed.

Lemma allr10_alldig : forall s, alldig s -> allr 10 s /\ rval 10 s = dval s.
Proof.
  induction s as [|c t IH]; intros H; [split; [constructor | reflexivity]|].
  inversion H as [|? ? Hc Ht]; subst. destruct (IH Ht) as (A & V). unfold isdig in Hc. split.
  - constructor; [|exact A]. split; [lia|]. unfold digval. destruct (Z.leb_spec c 57); lia.
  - cbn [rval dval]. rewrite V. unfold digval. destruct (Z.leb_spec c 57); lia.
Qed.

(* sign: none, '+' or '-' *)
Inductive sign_of : list Z -> bool -> Prop :=
  | sign_none : sign_of [] false
  | sign_plus : sign_of [43] false
  | sign_minus : sign_of [45] true.

Lemma sign_match2 : forall (c : Z) (t : list Z), c <> 43 -> c <> 45 ->
  (match c :: t with 43 :: t' => (false, t') | 45 :: t' => (true, t') | _ => (false, c :: t) end) = (false, c :: t).
Proof.
  intros c t H1 H2. destruct c as [|p|p]; try reflexivity.
  do 6 (destruct p as [p|p|]; try reflexivity); congruence.
Qed.

(* the statement: [sign] RR 'r' WW rest, RR the radix in decimal, WW digits of that radix *)
Theorem radix_scan_exact : forall (sg : list Z) (neg : bool) (lead whole rest : list Z) (radix : Z),
  sign_of sg neg -> alldig lead -> lead <> [] -> dval lead = radix -> 2 <= radix <= 36 ->
  allr radix whole -> notalnum_head rest ->
  let r := bintRadixScanFrString (sg ++ lead ++ [114] ++ whole ++ rest) in
  val (fst r) = (if neg then - rval radix whole else rval radix whole) /\ norm (fst r) /\ snd r = rest.
Proof.
  intros sg neg lead whole rest radix Hsg Hlead Hne Erad Hr Hw Hrest. cbv zeta.
  unfold bintRadixScanFrString.
  destruct lead as [|l0 lt]; [congruence|]. clear Hne.
  assert (Hl0 : isdig l0) by (inversion Hlead; assumption). unfold isdig in Hl0.
  set (body := (l0 :: lt) ++ [114] ++ whole ++ rest).
  assert (E1 : skip_while isspace (sg ++ body) = sg ++ body).
  { destruct Hsg; cbn [app skip_while]; unfold body; cbn [app skip_while]; try reflexivity.
    assert (isspace l0 = false) by (unfold isspace; lia). rewrite H. reflexivity. }
  rewrite E1.
  assert (E2 : (match sg ++ body with 43 :: t => (false, t) | 45 :: t => (true, t) | _ => (false, sg ++ body) end)
               = (neg, body)).
  { destruct Hsg; cbn [app]; try reflexivity. unfold body. cbn [app]. apply sign_match2; lia. }
  rewrite E2.
  assert (Hnd : notdig_head ([114] ++ whole ++ rest)) by (cbn; unfold isdig; lia).
  destruct (take_skip_digits (l0 :: lt) ([114] ++ whole ++ rest) Hlead Hnd) as (E3 & E4).
  fold body in E3, E4. rewrite E3, E4.
  cbn [app tl]. fold alnum.
  destruct (take_skip_alnum radix whole rest Hw Hrest) as (E5 & E6).
  change (fun c : Z => isdigit c || isupper c) with alnum. rewrite E5, E6.
  cbn [andb]. assert (Elen : (len (l0 :: lt) =? 0) = false) by (rewrite len_cons; pose proof (len_nonneg lt); lia).
  rewrite Elen.
  destruct (allr10_alldig _ Hlead) as (A10 & V10).
  rewrite (strtol_pref_spec 10 (l0 :: lt) 0 ltac:(lia) A10). rewrite V10, Erad. replace (0 * 10 ^ len (l0 :: lt) + radix) with radix by lia.
  assert (Erange : (radix <? 2) || (36 <? radix) = false) by lia. rewrite Erange.
  pose proof (radix_ok_spec radix Hr) as Hok. unfold radix_ok in Hok.
  destruct (pow_loop_lt 64 radix radix 1 (R / radix)) as [rio0 dio0].
  rewrite !andb_true_iff in Hok. destruct Hok as (((((Ok1 & Ok2) & Ok3) & Ok4) & Ok5) & Ok6).
  destruct (Z.leb_spec (len whole * bpd_of radix) LG_IMMED) as [Hsmall|Hbig].
  - (* computed as a C integer *)
    rewrite (strtol_pref_spec radix whole 0 ltac:(lia) Hw).
    replace (0 * radix ^ len whole + rval radix whole) with (rval radix whole) by lia.
    pose proof (rval_lt radix whole ltac:(lia) Hw) as Bv.
    assert (Hb : radix ^ len whole <= 2 ^ 62).
    { assert (radix ^ len whole <= (2 ^ bpd_of radix) ^ len whole) by (apply Z.pow_le_mono_l; lia).
      rewrite <- Z.pow_mul_r in H by (try apply len_nonneg; lia).
      assert (2 ^ (bpd_of radix * len whole) <= 2 ^ 62) by (apply Z.pow_le_mono_r; unfold LG_IMMED in *; lia). lia. }
    change (2 ^ 62) with 4611686018427387904 in Hb.
    rewrite (u64_id (rval radix whole)) by (unfold W64; lia).
    cbn [fst snd]. destruct neg.
    + assert (Es : s64 (u64 (- rval radix whole)) = - rval radix whole) by (unfold s64, u64, W64, H63; lia).
      rewrite Es. destruct (IntToBInt_norm (- rval radix whole)) as (E & N); [unfold IMM_MIN, IMM_MAX; lia|].
      rewrite E. cbn [val]. auto.
    + rewrite s64_id by (unfold H63; lia).
      destruct (IntToBInt_norm (rval radix whole)) as (E & N); [unfold IMM_MIN, IMM_MAX; lia|].
      rewrite E. cbn [val]. auto.
  - cbn [fst snd].
    destruct (scan_big_gen radix (rio0 * radix) (dio0 + 1) neg whole Hr ltac:(lia) ltac:(lia) ltac:(lia) Hw) as (V & N).
    rewrite V. auto.
Qed.

(* the same function on a plain decimal number (no radix marker) *)
Theorem radix_scan_decimal_exact : forall (sg : list Z) (neg : bool) (ds rest : list Z),
  sign_of sg neg -> alldig ds -> ds <> [] -> notdig_head rest -> (match rest with 114 :: _ => False | _ => True end) ->
  let r := bintRadixScanFrString (sg ++ ds ++ rest) in
  val (fst r) = (if neg then - dval ds else dval ds) /\ norm (fst r) /\ snd r = rest.
Proof.
  intros sg neg ds rest Hsg Hds Hne Hrest Hnr. cbv zeta.
  unfold bintRadixScanFrString.
  destruct ds as [|l0 lt]; [congruence|]. clear Hne.
  assert (Hl0 : isdig l0) by (inversion Hds; assumption). unfold isdig in Hl0.
  set (body := (l0 :: lt) ++ rest).
  assert (E1 : skip_while isspace (sg ++ body) = sg ++ body).
  { destruct Hsg; cbn [app skip_while]; unfold body; cbn [app skip_while]; try reflexivity.
    assert (isspace l0 = false) by (unfold isspace; lia). rewrite H. reflexivity. }
  rewrite E1.
  assert (E2 : (match sg ++ body with 43 :: t => (false, t) | 45 :: t => (true, t) | _ => (false, sg ++ body) end)
               = (neg, body)).
  { destruct Hsg; cbn [app]; try reflexivity. unfold body. cbn [app]. apply sign_match2; lia. }
  rewrite E2.
  destruct (take_skip_digits (l0 :: lt) rest Hds Hrest) as (E3 & E4).
  fold body in E3, E4. rewrite E3, E4.
  assert (Ehr : (match rest with 114 :: _ => true | _ => false end) = false).
  { destruct rest as [|c r]; [reflexivity|]. destruct c as [|p|p]; try reflexivity.
    do 7 (destruct p as [p|p|]; try reflexivity). contradiction. }
  rewrite Ehr. cbn [andb].
  pose proof (radix_ok_spec 10 ltac:(lia)) as Hok. unfold radix_ok in Hok.
  destruct (pow_loop_lt 64 10 10 1 (R / 10)) as [rio0 dio0].
  rewrite !andb_true_iff in Hok. destruct Hok as (((((Ok1 & Ok2) & Ok3) & Ok4) & Ok5) & Ok6).
  destruct (allr10_alldig _ Hds) as (A10 & V10).
  destruct (Z.leb_spec (len (l0 :: lt) * bpd_of 10) LG_IMMED) as [Hsmall|Hbig].
  - rewrite (strtol_pref_spec 10 (l0 :: lt) 0 ltac:(lia) A10).
    replace (0 * 10 ^ len (l0 :: lt) + rval 10 (l0 :: lt)) with (rval 10 (l0 :: lt)) by lia.
    pose proof (rval_lt 10 (l0 :: lt) ltac:(lia) A10) as Bv.
    assert (Hb : 10 ^ len (l0 :: lt) <= 2 ^ 62).
    { assert (10 ^ len (l0 :: lt) <= (2 ^ bpd_of 10) ^ len (l0 :: lt)) by (apply Z.pow_le_mono_l; lia).
      rewrite <- Z.pow_mul_r in H by (try apply len_nonneg; lia).
      assert (2 ^ (bpd_of 10 * len (l0 :: lt)) <= 2 ^ 62) by (apply Z.pow_le_mono_r; unfold LG_IMMED in *; lia). lia. }
    change (2 ^ 62) with 4611686018427387904 in Hb.
    rewrite (u64_id (rval 10 (l0 :: lt))) by (unfold W64; lia).
    cbn [fst snd]. rewrite <- V10. destruct neg.
    + assert (Es : s64 (u64 (- rval 10 (l0 :: lt))) = - rval 10 (l0 :: lt)) by (unfold s64, u64, W64, H63; lia).
      rewrite Es. destruct (IntToBInt_norm (- rval 10 (l0 :: lt))) as (E & N); [unfold IMM_MIN, IMM_MAX; lia|].
      rewrite E. cbn [val]. auto.
    + rewrite s64_id by (unfold H63; lia).
      destruct (IntToBInt_norm (rval 10 (l0 :: lt))) as (E & N); [unfold IMM_MIN, IMM_MAX; lia|].
      rewrite E. cbn [val]. auto.
  - cbn [fst snd]. rewrite <- V10.
    destruct (scan_big_gen 10 (rio0 * 10) (dio0 + 1) neg (l0 :: lt) ltac:(lia) ltac:(lia) ltac:(lia) ltac:(lia) A10) as (V & N).
    rewrite V. auto.
Qed.
