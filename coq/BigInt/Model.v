(* C11 — Gallina model of aldor/aldor/src/bigint.c (+ the fiBInt* wrappers of foam_i.c),
   function for function, for the LP64 configuration of this machine:
     BIntS  = unsigned int  (32-bit digits, BINT_LG_RADIX = 32, little-endian placev)
     BIntD  = unsigned long (64 bit), IInt = long (64 bit)
     immediate range [-(2^62-1), 2^62-1]  (INT_MIN_IMMED / INT_MAX_IMMED)
   The constants below are compared with a C probe of the current source on every run
   (props/c11.py, op "consts"); the tie fails when they differ.

   Definitions only.  Every C integer is a Z; where the C narrows or wraps the model says so
   (u64 / s64 / toS / wrap63).  Storage (placea, allocation, freeing) is not modelled: a stored
   number is its sign and the list placev[0..placec-1].  In-place (aliased) use of the iint
   functions is modelled only where a caller in bigint.c uses it and the read/write order is
   index-for-index (iintTimesS, iintTimesPlusS, iintDivideS). *)

Require Import ZArith List Bool.
Import ListNotations.
Local Open Scope Z_scope.

Inductive bint := Imm (n : Z) | Sto (neg : bool) (ds : list Z).

(* ------------------------------------------------------------------ constants *)
Definition LG : Z := 32.                                   (* BINT_LG_RADIX *)
Definition R : Z := 4294967296.                            (* BINT_RADIX = 2^32 *)
Definition W64 : Z := 18446744073709551616.                (* 2^64 *)
Definition H63 : Z := 9223372036854775808.                 (* 2^63 *)
Definition IMM_MAX : Z := 4611686018427387903.             (* INT_MAX_IMMED = 2^62-1 *)
Definition IMM_MIN : Z := - IMM_MAX.                       (* INT_MIN_IMMED *)
Definition LG_IMMED : Z := 62.                             (* INT_LG_IMMED *)
Definition HALF_MAX : Z := 2147483647.                     (* INT_MAX_HALF = 2^31-1 *)

Definition u64 (x : Z) : Z := x mod W64.                   (* (unsigned long) *)
Definition s64 (x : Z) : Z := (x + H63) mod W64 - H63.     (* (long) *)
Definition toS (x : Z) : Z := x mod R.                     (* (BIntS) *)
(* IntToBInt(n) = (n<<1)|1 read back by >>1: the low 63 bits of n, sign extended *)
Definition wrap63 (x : Z) : Z := (x + 4611686018427387904) mod H63 - 4611686018427387904.
Definition IntToBInt (n : Z) : bint := Imm (wrap63 n).
Definition INT_IS_IMMED (n : Z) : bool := (IMM_MIN <=? n) && (n <=? IMM_MAX).
Definition INT_IS_HALF (n : Z) : bool := (- HALF_MAX <=? n) && (n <=? HALF_MAX).

Definition len (l : list Z) : Z := Z.of_nat (length l).
Definition b2z (b : bool) : Z := if b then 1 else 0.
Definition znth (i : Z) (l : list Z) : Z := if i <? 0 then 0 else nth (Z.to_nat i) l 0.

Definition bint0 : bint := Imm 0.
Definition bint1 : bint := Imm 1.

(* ------------------------------------------------------------------ double precision macros *)
(* PlusStep(kout, r, a, b, kin): returns (kout, r_) ; the caller narrows r_ to its own type *)
Definition PlusStep (a b kin : Z) : Z * Z :=
  let r := u64 (a + b + kin) in
  if R <=? r then (1, r - R) else (0, r).
Definition MinusStep (a b kp1in : Z) : Z * Z := PlusStep a (R - 1 - b) kp1in.
(* TimesStep(kout, r, a, b, c, kin): returns (kout, r) *)
Definition TimesStep (a b c kin : Z) : Z * Z :=
  let t := u64 (a * b + c + kin) in (t / R, t mod R).
(* TimesDouble(h, l, a, b) *)
Definition TimesDouble (a b : Z) : Z * Z :=
  let t := u64 (a * b) in (t / R, t mod R).
(* DivideDouble(q, r, nh, nl, d): C divides by zero (SIGFPE) when d = 0 *)
Definition DivideDouble (nh nl d : Z) : Z * Z :=
  let n := u64 (nh * R + nl) in (n / d, n mod d).
Definition TestGTDouble (h1 l1 h2 l2 : Z) : bool :=
  (h2 <? h1) || ((h1 =? h2) && (l2 <? l1)).

(* ------------------------------------------------------------------ machine integer helpers *)
(* uintLength: for (i = 1, p = 2; ; i++, p <<= 1) if (!p || u < p) break; *)
Fixpoint uintLength_loop (fuel : nat) (i p u : Z) : Z :=
  match fuel with
  | O => i
  | S f => if (p =? 0) || (u <? p) then i else uintLength_loop f (i + 1) (u64 (p * 2)) u
  end.
Definition uintLength (u : Z) : Z := uintLength_loop 64 1 2 u.
Definition uabs (n : Z) : Z := u64 (Z.abs n).              (* (n < 0) ? -n : n  as unsigned long *)
Definition intLength (n : Z) : Z := uintLength (uabs n).
Definition uintBit (si ix : Z) : bool := (ix <? 64) && Z.testbit si ix.
Definition intBit (si ix : Z) : bool := uintBit (uabs si) ix.

(* ------------------------------------------------------------------ normal form helpers *)
(* drop high-order zero digits: "for (i = c-1; i >= 0; i--) if (v[i] != 0) break; placec = i+1" *)
Fixpoint strip (ds : list Z) : list Z :=
  match ds with
  | [] => []
  | d :: t => match strip t with
              | [] => if d =? 0 then [] else [d]
              | t' => d :: t'
              end
  end.
(* "(v[n-1] == 0) ? n-1 : n" : drops at most one high-order zero *)
Fixpoint strip1 (ds : list Z) : list Z :=
  match ds with
  | [] => []
  | [d] => if d =? 0 then [] else [d]
  | d :: t => d :: strip1 t
  end.

(* digits of u in radix R, low first: "for (i = 0; u != 0 && i < c; i++) { v[i] = u % R; u /= R; }" *)
Fixpoint digitsR (fuel : nat) (u : Z) : list Z :=
  match fuel with
  | O => []
  | S f => if u =? 0 then [] else (u mod R) :: digitsR f (u / R)
  end.

(* xintCopyInI(b, n) (b freshly allocated with room): sign + digits; zero is stored as the one digit 0 *)
Definition xintCopyInI (n : Z) : bint :=
  let u := uabs n in
  if u <? R then Sto (n <? 0) [u] else Sto (n <? 0) (digitsR 4 u).
(* xintStoreI(n) = xintCopyInI(bintAllocPlaces(a), n) *)
Definition xintStoreI (n : Z) : bint := xintCopyInI n.
Definition xintStore (b : bint) : bint :=
  match b with Imm n => xintStoreI n | _ => b end.

(* xintImmedIfCan *)
Definition xintImmedIfCan (b : bint) : bint :=
  match b with
  | Imm _ => b
  | Sto neg ds =>
      match ds with
      | [] => IntToBInt 0
      | [d0] =>
          let u := d0 in
          if neg then (if IMM_MAX <? u then b else IntToBInt (- u))
          else (if IMM_MAX <? u then b else IntToBInt u)
      | [d0; d1] =>
          let u := u64 (d1 * R + d0) in
          if neg then (if IMM_MAX <? u then b else IntToBInt (- u))
          else (if IMM_MAX <? u then b else IntToBInt u)
      | _ => b      (* pb*32 <= 64 is false for pb >= 3 *)
      end
  end.

Definition bintNew (n : Z) : bint := if INT_IS_IMMED n then IntToBInt n else xintStoreI n.
Definition bintCopy (b : bint) : bint := b.

(* bintFrPlacev(isNeg, placec, data) *)
Definition bintFrPlacev (isNeg : bool) (data : list Z) : bint :=
  xintImmedIfCan (Sto isNeg (strip data)).

(* bintFrPlacevS: U16 halves, two per digit (U16sPerUNotAsLong == 2) *)
Fixpoint pairU16 (data : list Z) : list Z :=
  match data with
  | [] => []
  | [lo] => [toS lo]
  | lo :: hi :: t => toS (lo + hi * 65536) :: pairU16 t
  end.
Definition bintFrPlacevS (isNeg : bool) (data : list Z) : bint := bintFrPlacev isNeg (pairU16 data).
(* bintToPlacevS: returns the U16 array with *psize entries *)
Fixpoint splitU16 (ds : list Z) : list Z :=
  match ds with
  | [] => []
  | d :: t => Z.land d 65535 :: Z.shiftr (Z.land d 4294901760) 16 :: splitU16 t
  end.
Definition bintToPlacevS (b : bint) : list Z :=
  match xintStore b with
  | Sto _ ds => strip1 (splitU16 ds)
  | Imm _ => []
  end.

(* ------------------------------------------------------------------ predicates *)
Definition bintIsSmall (b : bint) : bool := match b with Imm _ => true | _ => false end.
Definition bintSmall (b : bint) : Z := match b with Imm n => n | _ => 0 end.
Definition bintIsNeg (b : bint) : bool := match b with Imm n => n <? 0 | Sto neg _ => neg end.
Definition bintIsZero (b : bint) : bool := match b with Imm n => n =? 0 | _ => false end.
Definition bintIsPos (b : bint) : bool :=
  match b with Imm n => 0 <? n | Sto neg ds => (0 <? len ds) && negb neg end.

(* digit-wise comparison from the top place down ("for (i = c-1; i >= 0; i--) if equal continue; return ...") *)
Fixpoint lcmp (a b : list Z) : comparison :=
  match a, b with
  | [], [] => Eq
  | x :: a', y :: b' => match lcmp a' b' with Eq => x ?= y | c => c end
  | [], _ :: _ => Lt
  | _ :: _, [] => Gt
  end.
Fixpoint leqb (a b : list Z) : bool :=
  match a, b with
  | [], [] => true
  | x :: a', y :: b' => (x =? y) && leqb a' b'
  | _, _ => false
  end.

Definition bintEQ (a b : bint) : bool :=
  match a, b with
  | Imm x, Imm y => x =? y
  | Imm _, Sto _ _ => false
  | Sto _ _, Imm _ => false
  | Sto na da, Sto nb db =>
      if negb (Bool.eqb na nb) then false
      else if negb (len da =? len db) then false
      else leqb da db
  end.

Definition lt_mag (da db : list Z) : bool :=       (* nonnegative branch of bintLT *)
  if negb (len da =? len db) then len da <? len db
  else match lcmp da db with Lt => true | _ => false end.
Definition gt_mag (da db : list Z) : bool :=
  if negb (len da =? len db) then len db <? len da
  else match lcmp da db with Gt => true | _ => false end.

Definition bintLT (a b : bint) : bool :=
  match a, b with
  | Imm x, Imm y => x <? y
  | Imm _, Sto nb _ => negb nb
  | Sto na _, Imm _ => na
  | Sto na da, Sto nb db =>
      if negb (Bool.eqb na nb) then na && negb nb
      else if na then gt_mag da db else lt_mag da db
  end.
Definition bintGT (a b : bint) : bool :=
  match a, b with
  | Imm x, Imm y => y <? x
  | Imm _, Sto nb _ => nb
  | Sto na _, Imm _ => negb na
  | Sto na da, Sto nb db =>
      if negb (Bool.eqb na nb) then negb na && nb
      else if na then lt_mag da db else gt_mag da db
  end.
Definition bintNE a b := negb (bintEQ a b).
Definition bintLE a b := negb (bintGT a b).
Definition bintGE a b := negb (bintLT a b).

(* ------------------------------------------------------------------ abs / negate *)
Definition bintAbs (a : bint) : bint :=
  match a with
  | Imm n => if n <? 0 then bintNew (- n) else a
  | Sto _ ds => Sto false ds
  end.
Definition bintNegate (a : bint) : bint :=
  match a with
  | Imm n => IntToBInt (- n)
  | Sto neg ds => Sto (negb neg) ds
  end.
Definition BINT_NEGATE (r : bint) : bint := bintNegate r.   (* same two cases, in place *)
Definition xintNegate (a : bint) : bint := bintNegate a.

(* ------------------------------------------------------------------ length / bit *)
Definition bintLength (b : bint) : Z :=
  match b with
  | Imm n => intLength n
  | Sto _ ds => LG * (len ds - 1) + uintLength (last ds 0)
  end.
Definition bintBit (b : bint) (ix : Z) : bool :=
  match b with
  | Imm n => intBit n ix
  | Sto _ ds => let cq := ix / LG in let cr := ix mod LG in
                (cq <? len ds) && Z.testbit (znth cq ds) cr
  end.

(* ------------------------------------------------------------------ iintPlus *)
(* second and third loop of iintPlus: propagate the carry through the rest of a, then copy, then
   "if (k) r[i++] = k" *)
Fixpoint plus_carry (a : list Z) (k : Z) : list Z :=
  match a with
  | [] => if k =? 0 then [] else [k]
  | ai :: a' =>
      if k =? 0 then a
      else let '(k', s) := PlusStep ai 0 k in toS s :: plus_carry a' k'
  end.
(* first loop, i < bc.  Precondition of the C: Placec(a) >= Placec(b). *)
Fixpoint plus_digits (a b : list Z) (k : Z) : list Z :=
  match b with
  | [] => plus_carry a k
  | bi :: b' =>
      let '(k', s) := PlusStep (hd 0 a) bi k in toS s :: plus_digits (tl a) b' k'
  end.
Definition iintPlus (a b : list Z) : list Z := plus_digits a b 0.

(* ------------------------------------------------------------------ iintMinus (Knuth S, kp1 = borrow+1) *)
Fixpoint minus_borrow (a : list Z) (kp1 : Z) : list Z :=
  match a with
  | [] => []
  | ai :: a' =>
      if kp1 =? 0
      then let '(k', s) := MinusStep ai 0 kp1 in toS s :: minus_borrow a' k'
      else a
  end.
Fixpoint minus_digits (a b : list Z) (kp1 : Z) : list Z :=
  match b with
  | [] => minus_borrow a kp1
  | bi :: b' =>
      let '(k', s) := MinusStep (hd 0 a) bi kp1 in toS s :: minus_digits (tl a) b' k'
  end.
Definition iintMinus (a b : list Z) : list Z := strip (minus_digits a b 1).

(* ------------------------------------------------------------------ iintTimes (schoolbook) *)
(* inner loop for one digit bj: w is r[j .. j+ac-1]; returns r[j .. j+ac] *)
Fixpoint times_row (a w : list Z) (bj k : Z) : list Z :=
  match a with
  | [] => [toS k]
  | ai :: a' =>
      let '(k', r) := TimesStep ai bj (hd 0 w) k in
      toS r :: times_row a' (tl w) bj (toS k')
  end.
Fixpoint times_rows (a b w : list Z) : list Z :=
  match b with
  | [] => w
  | bj :: b' =>
      let w' := if bj =? 0 then w ++ [0] else times_row a w bj 0 in
      match w' with
      | [] => []
      | d :: rest => d :: times_rows a b' rest
      end
  end.
Definition iintTimes (a b : list Z) : list Z :=
  let '(a, b) := if len a <? len b then (b, a) else (a, b) in
  strip (times_rows a b (map (fun _ => 0) a)).

(* ------------------------------------------------------------------ iintTimesS / iintTimesPlusS *)
Fixpoint timesS_loop (a : list Z) (b c : Z) : list Z :=
  match a with
  | [] => if c =? 0 then [] else [c]
  | aj :: a' => let '(c', r) := TimesStep aj b c 0 in toS r :: timesS_loop a' b (toS c')
  end.
Definition sto_ds (b : bint) : list Z := match b with Sto _ ds => ds | Imm _ => [] end.
Definition iintTimesS (a : list Z) (b : Z) : list Z :=
  if b =? 0 then sto_ds (xintCopyInI 0) else timesS_loop a b 0.
Definition iintTimesPlusS (a : list Z) (b c : Z) : list Z :=
  if b =? 0 then sto_ds (xintCopyInI c) else timesS_loop a b c.

(* ------------------------------------------------------------------ iintDivideS *)
(* for (j = n-1; j >= 0; j--) DivideDouble(q[j], r, r, a[j], b) : runs from the top place down *)
Fixpoint divS_loop (a : list Z) (b : Z) : list Z * Z :=
  match a with
  | [] => ([], 0)
  | aj :: t =>
      let '(qt, r) := divS_loop t b in
      let '(qj, r') := DivideDouble r aj b in
      (toS qj :: qt, toS r')
  end.
Definition iintDivideS (a : list Z) (b : Z) : list Z * Z :=
  let '(q, r) := divS_loop a b in (strip1 q, r).

(* ------------------------------------------------------------------ iintDivide (Knuth D as coded) *)
(* D3: the qhat correction loop ("Loop shd be evaluated no more than twice"; assert(i <= 2)) *)
Fixpoint qhat_fix (fuel : nat) (qhat rhat v1 v2 uj2 : Z) : Z :=
  match fuel with
  | O => qhat
  | S f =>
      let '(hh, hl) := TimesDouble v2 qhat in
      if TestGTDouble hh hl rhat uj2 then
        let qhat' := toS (qhat - 1) in
        let '(k, rh) := PlusStep rhat v1 0 in
        if k =? 0 then qhat_fix f qhat' (toS rh) v1 v2 uj2 else qhat'
      else qhat
  end.
Definition qhat_of (uj0 uj1 uj2 v1 v2 : Z) : Z :=
  if uj0 =? v1 then
    let qhat := R - 1 in
    let '(k, rh) := PlusStep uj1 v1 0 in
    if k =? 0 then qhat_fix 2 qhat (toS rh) v1 v2 uj2 else qhat
  else
    let '(qh, rh) := DivideDouble uj0 uj1 v1 in
    qhat_fix 2 (toS qh) (toS rh) v1 v2 uj2.

(* D4: u[kj..kj+n] -= qhat * (0, v[1..n]); low place first, v padded with one 0; returns digits and final k *)
Fixpoint mulsub (w v : list Z) (qhat k : Z) : list Z * Z :=
  match w with
  | [] => ([], k)
  | ujj :: w' =>
      let vi := hd 0 v in
      let '(uh, ul) := TimesDouble qhat vi in
      let '(kk, u1) := MinusStep ujj ul 1 in
      let uh1 := toS (uh + b2z (kk =? 0)) in
      let '(kk2, u2) := MinusStep (toS u1) k 1 in
      let uh2 := toS (uh1 + b2z (kk2 =? 0)) in
      let '(rest, kf) := mulsub w' (tl v) qhat uh2 in
      (toS u2 :: rest, kf)
  end.
(* D6: add back; the final carry is dropped *)
Fixpoint addback (w v : list Z) (k : Z) : list Z :=
  match w with
  | [] => []
  | ujj :: w' =>
      let '(k', s) := PlusStep (hd 0 v) ujj k in toS s :: addback w' (tl v) k'
  end.
(* one iteration of D3-D6 on the window w = u[nm-kj-n .. nm-kj] (n+1 places, low first) *)
Definition divide_step (v : list Z) (v1 v2 : Z) (w : list Z) : Z * list Z :=
  let n := length v in
  let uj0 := nth n w 0 in
  let uj1 := nth (n - 1) w 0 in
  let uj2 := nth (n - 2) w 0 in
  let qhat := qhat_of uj0 uj1 uj2 v1 v2 in
  let '(w', k) := mulsub w v qhat 0 in
  if k =? 0 then (qhat, w') else (toS (qhat - 1), addback w' v 0).
(* D2-D7: lo_rev = the places below the window, highest first; returns q (low first) and last window *)
Fixpoint divide_loop (v : list Z) (v1 v2 : Z) (w lo_rev qacc : list Z) : list Z * list Z :=
  let '(qd, w') := divide_step v v1 v2 w in
  match lo_rev with
  | [] => (qd :: qacc, w')
  | d :: lo' => divide_loop v v1 v2 (d :: firstn (length v) w') lo' (qd :: qacc)
  end.
(* the boolean of divide_exact_partial: after every D3-D6 step the window holds a value below v
   (top place zero and the n places under it less than v) *)
Definition step_ok (v w' : list Z) : bool :=
  (nth (length v) w' 0 =? 0) &&
  match lcmp (firstn (length v) w') v with Lt => true | _ => false end.
Fixpoint divide_loop_ok (v : list Z) (v1 v2 : Z) (w lo_rev : list Z) : bool :=
  let '(qd, w') := divide_step v v1 v2 w in
  step_ok v w' &&
  match lo_rev with
  | [] => true
  | d :: lo' => divide_loop_ok v v1 v2 (d :: firstn (length v) w') lo'
  end.

Definition knuth_d (u v : list Z) : Z := (* D1: the normalising factor *)
  let v1 := last v 0 in
  if R / 2 <=? v1 then 1 else toS (R / (v1 + 1)).

(* iintDivide(q, r, u, v): returns (q, r) as digit lists.  Requires last v <> 0. *)
Definition iintDivide (u v : list Z) : list Z * list Z :=
  let n := len v in
  let nm := len u in
  let m := nm - n in
  if n =? 1 then
    let '(q, rhat) := iintDivideS u (hd 0 v) in (q, [rhat])
  else if bintLT (Sto false u) (Sto false v) then ([], u)
  else
    let d := knuth_d u v in
    let u1 := if d =? 1 then u else iintTimesS u d in
    let v' := if d =? 1 then v else iintTimesS v d in
    let v1 := znth (n - 1) v' in
    let v2 := znth (n - 2) v' in
    let u2 := if len u1 =? nm then u1 ++ [0] else u1 in
    let lo := firstn (Z.to_nat m) u2 in
    let w := skipn (Z.to_nat m) u2 in
    let '(q, wf) := divide_loop v' v1 v2 w (rev lo) [] in
    let '(r, _) := iintDivideS (firstn (Z.to_nat n) wf) d in
    (strip q, strip r).
(* the flag exported to the correspondence (true on the two trivial paths) *)
Definition iintDivide_ok (u v : list Z) : bool :=
  let n := len v in
  let nm := len u in
  let m := nm - n in
  if n =? 1 then true
  else if bintLT (Sto false u) (Sto false v) then true
  else
    let d := knuth_d u v in
    let u1 := if d =? 1 then u else iintTimesS u d in
    let v' := if d =? 1 then v else iintTimesS v d in
    let v1 := znth (n - 1) v' in
    let v2 := znth (n - 2) v' in
    let u2 := if len u1 =? nm then u1 ++ [0] else u1 in
    let lo := firstn (Z.to_nat m) u2 in
    let w := skipn (Z.to_nat m) u2 in
    (len v' =? n) && (len u2 =? nm + 1) && divide_loop_ok v' v1 v2 w (rev lo).

(* instrumentation for the evidence (which paths of Knuth D a script exercised); not used by any theorem:
   [path (0: one-place divisor, 1: u < v, 2: Algorithm D); d; steps; steps with uj0 = v1;
    total qhat corrections; steps with add-back; largest number of corrections in one step] *)
Definition divide_step_stats (v : list Z) (v1 v2 : Z) (w : list Z) : Z * Z * Z :=
  let n := length v in
  let uj0 := nth n w 0 in
  let uj1 := nth (n - 1) w 0 in
  let uj2 := nth (n - 2) w 0 in
  let q0 := if uj0 =? v1 then R - 1 else toS (fst (DivideDouble uj0 uj1 v1)) in
  let qhat := qhat_of uj0 uj1 uj2 v1 v2 in
  let '(w', k) := mulsub w v qhat 0 in
  (b2z (uj0 =? v1), q0 - qhat, b2z (negb (k =? 0))).
Fixpoint divide_loop_stats (v : list Z) (v1 v2 : Z) (w lo_rev : list Z) (acc : list Z) : list Z :=
  let '(qd, w') := divide_step v v1 v2 w in
  let '(e, c, a) := divide_step_stats v v1 v2 w in
  let acc := match acc with
             | [s; se; sc; sa; mc] => [s + 1; se + e; sc + c; sa + a; Z.max mc c]
             | _ => acc
             end in
  match lo_rev with
  | [] => acc
  | d :: lo' => divide_loop_stats v v1 v2 (d :: firstn (length v) w') lo' acc
  end.
Definition iintDivide_stats (u v : list Z) : list Z :=
  let n := len v in
  let nm := len u in
  let m := nm - n in
  if n =? 1 then [0]
  else if bintLT (Sto false u) (Sto false v) then [1]
  else
    let d := knuth_d u v in
    let u1 := if d =? 1 then u else iintTimesS u d in
    let v' := if d =? 1 then v else iintTimesS v d in
    let v1 := znth (n - 1) v' in
    let v2 := znth (n - 2) v' in
    let u2 := if len u1 =? nm then u1 ++ [0] else u1 in
    let lo := firstn (Z.to_nat m) u2 in
    let w := skipn (Z.to_nat m) u2 in
    2 :: d :: divide_loop_stats v' v1 v2 w (rev lo) [0; 0; 0; 0; 0].

(* ------------------------------------------------------------------ iintShift *)
Definition QUO_ROUND_UP (n d : Z) : Z := if negb (Z.rem n d =? 0) then Z.quot n d + 1 else Z.quot n d.

(* the places of 2^k * b (0 <= k < 32), low first, one more place than b:
   place i = ((bp[i] << k) truncated to 32 bits) | (h ? bp[i-1] >> h : 0) with h = 32-k (h = 32 read as 0) *)
Fixpoint shl_bits (k : Z) (ds : list Z) (cin : Z) : list Z :=
  match ds with
  | [] => [cin]
  | d :: t => Z.lor (toS (Z.shiftl d k)) cin
              :: shl_bits k t (if k =? 0 then 0 else Z.shiftr d (LG - k))
  end.
Definition zeros (n : Z) : list Z := repeat 0 (Z.to_nat n).

(* iintShift(r, b, n) with r fresh: the parameters are computed exactly as the C does
   (bbitc, bc, bz, rbitc, rc, rz, up, q, q0, h, k); the three copy loops (lo to hi for n < 0,
   hi to lo for n > 0, plain copy for n = 0) write place j = (B[j-q0+1] << k | B[j-q0] >> h)
   for 0 <= j < rc, B being b's places and 0 outside them (the C reads placev[-1], the high half of
   placec, when bc = 1 and up; it is 0).  That is: the places of 2^k * b moved by q0-1 places. *)
Definition iintShift (bds : list Z) (n : Z) : list Z :=
  let bbitc := bintLength (Sto false bds) in
  let bc := len bds in
  let bz := bc * LG - bbitc in
  let rbitc := bbitc + n in
  let rc := QUO_ROUND_UP rbitc LG in
  let rz := rc * LG - rbitc in
  let up := rz <=? bz in
  let q := rc - bc in
  let q0 := q + b2z up in
  let h := q0 * LG - n in
  let k := LG - h in
  let full := shl_bits k bds 0 in
  if n <? 0 then firstn (Z.to_nat rc) (skipn (Z.to_nat (1 - q0)) full)
  else if 0 <? n then firstn (Z.to_nat rc) (zeros (q0 - 1) ++ full)
  else firstn (Z.to_nat rc) bds.

(* ------------------------------------------------------------------ bintPlus / bintMinus / bintTimes *)
(* "General case" of bintPlus on stored, non-negative a, b *)
Definition bintPlus_gen (da db : list Z) : bint :=
  let abitc := bintLength (Sto false da) in
  let bbitc := bintLength (Sto false db) in
  let '(da, db) := if abitc <? bbitc then (db, da) else (da, db) in
  xintImmedIfCan (Sto false (iintPlus da db)).
(* "General case" of bintMinus on stored, non-negative a, b *)
Definition bintMinus_gen (da db : list Z) : bint :=
  let rNeg := bintLT (Sto false da) (Sto false db) in
  let '(da, db) := if rNeg then (db, da) else (da, db) in
  xintImmedIfCan (Sto rNeg (iintMinus da db)).

(* bintPlus.  The recursive calls of the C (bintPlus(-a,-b), bintMinus(b,-a), bintMinus(a,-b)) are made
   on stored non-negative operands, for which the callee falls straight through to its general case;
   they are written here as calls of that general case. *)
Definition bintPlus (a b : bint) : bint :=
  let fast :=
    match a, b with
    | Imm ai, Imm bi =>
        let '(ki, r) := PlusStep ai bi 0 in
        let ri := s64 r in
        if (ki =? 0) && INT_IS_IMMED ri then Some (IntToBInt ri) else None
    | _, _ => None
    end in
  match fast with
  | Some r => r
  | None =>
      let a' := xintStore a in
      let b' := xintStore b in
      let aNeg := bintIsNeg a' in
      let bNeg := bintIsNeg b' in
      let da := sto_ds a' in
      let db := sto_ds b' in
      if aNeg && bNeg then BINT_NEGATE (bintPlus_gen da db)
      else if aNeg then bintMinus_gen db da
      else if bNeg then bintMinus_gen da db
      else bintPlus_gen da db
  end.

Definition bintMinus (a b : bint) : bint :=
  let fast :=
    match a, b with
    | Imm ai, Imm bi =>
        let ri := s64 (ai - bi) in
        if INT_IS_IMMED ri then Some (IntToBInt ri) else None
    | _, _ => None
    end in
  match fast with
  | Some r => r
  | None =>
      let a' := xintStore a in
      let b' := xintStore b in
      let aNeg := bintIsNeg a' in
      let bNeg := bintIsNeg b' in
      let da := sto_ds a' in
      let db := sto_ds b' in
      if aNeg && bNeg then bintMinus_gen db da
      else if aNeg then BINT_NEGATE (bintPlus_gen da db)
      else if bNeg then bintPlus_gen da db
      else bintMinus_gen da db
  end.

Definition bintTimes_gen (da db : list Z) : bint :=
  xintImmedIfCan (Sto false (iintTimes da db)).

Definition bintTimes (a b : bint) : bint :=
  let c1 :=
    match a, b with
    | Imm ai, Imm bi =>
        if INT_IS_HALF ai && INT_IS_HALF bi then Some (bintNew (s64 (ai * bi))) else None
    | _, _ => None
    end in
  match c1 with
  | Some r => r
  | None =>
  let c2 :=
    match a with
    | Imm ai => if ai =? 0 then Some (IntToBInt 0)
                else if ai =? 1 then Some (bintCopy b)
                else if ai =? -1 then Some (bintNegate b) else None
    | _ => None
    end in
  match c2 with
  | Some r => r
  | None =>
  let c3 :=
    match b with
    | Imm bi => if bi =? 0 then Some (IntToBInt 0)
                else if bi =? 1 then Some (bintCopy a)
                else if bi =? -1 then Some (bintNegate a) else None
    | _ => None
    end in
  match c3 with
  | Some r => r
  | None =>
      let a' := xintStore a in
      let b' := xintStore b in
      let aNeg := bintIsNeg a' in
      let bNeg := bintIsNeg b' in
      let da := sto_ds a' in
      let db := sto_ds b' in
      if aNeg && bNeg then bintTimes_gen da db
      else if aNeg then BINT_NEGATE (bintTimes_gen da db)
      else if bNeg then BINT_NEGATE (bintTimes_gen da db)
      else bintTimes_gen da db
  end end end.

(* ------------------------------------------------------------------ bintDivide *)
Definition bintDivide_gen (da db : list Z) : bint * bint :=
  let '(q, r) := iintDivide da db in
  (xintImmedIfCan (Sto false q), xintImmedIfCan (Sto false r)).
(* returns (q, r); the C divides by zero (SIGFPE) when b = 0 *)
Definition bintDivide (a b : bint) : bint * bint :=
  let a' := xintStore a in
  let b' := xintStore b in
  let aNeg := bintIsNeg a' in
  let bNeg := bintIsNeg b' in
  let '(q, r) := bintDivide_gen (sto_ds a') (sto_ds b') in
  if aNeg && bNeg then (q, BINT_NEGATE r)
  else if aNeg then (BINT_NEGATE q, BINT_NEGATE r)
  else if bNeg then (BINT_NEGATE q, r)
  else (q, r).
Definition bintDivide_ok (a b : bint) : bool :=
  iintDivide_ok (sto_ds (xintStore a)) (sto_ds (xintStore b)).
Definition bintDivide_stats (a b : bint) : list Z :=
  iintDivide_stats (sto_ds (xintStore a)) (sto_ds (xintStore b)).

(* ------------------------------------------------------------------ bintMod *)
(* dword.c: xxTimesDouble on 64-bit words by 32-bit halves *)
Definition xxTimesDouble (A B : Z) : Z * Z :=
  let Ah := Z.shiftr A 32 in let Al := Z.land A (R - 1) in
  let Bh := Z.shiftr B 32 in let Bl := Z.land B (R - 1) in
  let H := u64 (Ah * Bh) in let M := u64 (Al * Bh) in
  let N := u64 (Ah * Bl) in let L := u64 (Al * Bl) in
  let Mh := Z.shiftr M 32 in let Mx := u64 (Z.shiftl (Z.land M (R - 1)) 32) in
  let Nh := Z.shiftr N 32 in let Nx := u64 (Z.shiftl (Z.land N (R - 1)) 32) in
  let T := L in
  let L := u64 (L + Mx) in
  let H := u64 (H + b2z (L <? T)) in
  let H := u64 (H + Mh) in
  let T := L in
  let L := u64 (L + Nx) in
  let H := u64 (H + b2z (L <? T)) in
  let H := u64 (H + Nh) in
  (H, L).
(* dword.c: xxModDouble(nh, nl, d); None = loop did not finish within the fuel *)
Fixpoint xxMod_loop (fuel : nat) (rh rl d rB : Z) : option Z :=
  match fuel with
  | O => None
  | S f =>
      if negb (rh =? 0) || (d <=? rl) then
        let rrh := rh mod d in
        let rrl := rl mod d in
        let '(th, tl) := xxTimesDouble rrh rB in
        let rl' := u64 (tl + rrl) in
        let rh' := u64 (th + b2z (rl' <? rrl)) in
        xxMod_loop f rh' rl' d rB
      else Some rl
  end.
Definition xxModDouble (nh nl d : Z) : option Z :=
  if d =? 1 then Some 0
  else if d <? R then
    let r := 0 in
    let '(_, r) := DivideDouble r (Z.shiftr nh 32) d in
    let '(_, r) := DivideDouble r (Z.land nh (R - 1)) d in
    let '(_, r) := DivideDouble r (Z.shiftr nl 32) d in
    let '(_, r) := DivideDouble r (Z.land nl (R - 1)) d in
    Some r
  else
    let Bd := W64 - 1 - (d - 1) in
    let rB := Bd mod d in
    xxMod_loop 400 nh nl d rB.

(* bintModi(a, b): a >= 0, b an unsigned long.  Horner from the top place down: written as a
   recursion over the low-first list, the top place being the base case *)
Fixpoint modi_small (ds : list Z) (b d : Z) : Z :=      (* b < 2^32 branch *)
  match ds with
  | [] => 0
  | [top] => top mod b
  | ai :: t =>
      let acc := modi_small t b d in
      let acc := u64 (acc * d) mod b in
      let tmp := s64 (acc - b + ai mod b) in
      let tmp := if tmp <? 0 then s64 (tmp + b) else tmp in
      u64 tmp
  end.
Fixpoint modi_big (ds : list Z) (b : Z) : option Z :=   (* b >= 2^32 branch *)
  match ds with
  | [] => Some 0
  | [top] => Some top
  | ai :: t =>
      match modi_big t b with
      | None => None
      | Some acc =>
          let hi := Z.shiftr acc 32 in
          let lo := u64 (Z.shiftl acc 32) in
          match xxModDouble hi lo b with
          | None => None
          | Some rem =>
              let tmp := s64 (rem - s64 b + ai) in
              let tmp := if tmp <? 0 then s64 (tmp + b) else tmp in
              Some (u64 tmp)
          end
      end
  end.
Definition bintModi (a : bint) (b : Z) : option bint :=
  match a with
  | Imm n => Some (bintNew (s64 (u64 n mod b)))
  | Sto _ ds =>
      if b <? R then Some (bintNew (s64 (modi_small ds b (R mod b))))
      else match modi_big ds b with
           | None => None
           | Some r => Some (bintNew (s64 r))
           end
  end.
Definition bintToULong (b : bint) : Z :=
  match b with
  | Imm n => u64 n
  | Sto _ ds => u64 (znth 0 ds + Z.shiftl (znth 1 ds) 32)
  end.
(* bintMod: result carries the sign of a ("if (neg) r = xintNegate(r)"); C divides by zero when b = 0 *)
Definition bintMod (a b : bint) : option bint :=
  let neg := bintIsNeg a in
  let a := if neg then bintNegate a else a in
  let b := if bintIsNeg b then bintNegate b else b in
  let r :=
    match b with
    | Imm bi => bintModi a (u64 bi)
    | Sto _ _ =>
        if bintLength b <? 64 then bintModi a (bintToULong b)
        else Some (snd (bintDivide a b))
    end in
  match r with
  | None => None
  | Some r => Some (if neg then xintNegate r else r)
  end.

(* ------------------------------------------------------------------ bintShift *)
Definition bintShift (b : bint) (n : Z) : bint :=
  let bbitc := bintLength b in
  let rbitc := bbitc + n in
  match b with
  | Imm 0 => bint0
  | _ =>
      if (bbitc =? 0) || (rbitc <=? 0) then IntToBInt 0
      else
        match b with
        | Imm i =>
            if rbitc <=? LG_IMMED then
              let u := uabs i in
              let u := if 0 <? n then u64 (Z.shiftl u n) else Z.shiftr u (- n) in
              IntToBInt (if 0 <? i then s64 u else s64 (- s64 u))
            else
              let r := Sto (bintIsNeg (xintStore b)) (iintShift (sto_ds (xintStore b)) n) in
              if rbitc <=? LG_IMMED then xintImmedIfCan r else r
        | Sto neg ds =>
            let r := Sto neg (iintShift ds n) in
            if rbitc <=? LG_IMMED then xintImmedIfCan r else r
        end
  end.

(* ------------------------------------------------------------------ bintShiftRem *)
(* "Returns lowest n bits from b".  As coded:
     immediate:  x & ((1 << n) - 1)  with an int mask: C-defined for 0 <= n <= 30 only (1 << 31 overflows int);
     stored:     r = bintAlloc(n) (pa = ceil(n/32) places, IsNeg = false); r[0..pa-2] = b[0..pa-2];
                 r[pa-1] = b[pa-1] & ((1 << top) - 1), top = n - 32*(pa-1): C-defined for 1 <= n, top <= 30 and
                 pa <= Placec(b) (otherwise it reads places b does not have; n = 0 never terminates);
                 then xintImmedIfCan, which does not drop high-order zero places of three or more places.
   The model is the code on its C-defined inputs; outside them (guards of FactsShiftRem) it is arbitrary. *)
Definition bintShiftRem (b : bint) (n : Z) : bint :=
  match b with
  | Imm x => IntToBInt (Z.land x (Z.ones n))
  | Sto _ ds =>
      let pa := QUO_ROUND_UP n LG in
      let top := n - LG * (pa - 1) in
      xintImmedIfCan (Sto false (firstn (Z.to_nat (pa - 1)) ds ++ [Z.land (znth (pa - 1) ds) (Z.ones top)]))
  end.
Definition fiBIntShiftRem := bintShiftRem.
(* the inputs on which the C above is defined *)
Definition shiftrem_defined (b : bint) (n : Z) : bool :=
  match b with
  | Imm _ => (0 <=? n) && (n <=? 30)
  | Sto _ ds => (1 <=? n) && (n - LG * (QUO_ROUND_UP n LG - 1) <=? 30) && (QUO_ROUND_UP n LG <=? len ds)
  end.

(* ------------------------------------------------------------------ decimal output *)
(* sprintf("%ld") *)
Fixpoint dec_digits (fuel : nat) (u : Z) (acc : list Z) : list Z :=
  match fuel with
  | O => acc
  | S f => let acc' := (48 + u mod 10) :: acc in
           if u / 10 =? 0 then acc' else dec_digits f (u / 10) acc'
  end.
Definition sprintf_ld (n : Z) : list Z :=
  if n <? 0 then 45 :: dec_digits 20 (- n) [] else dec_digits 20 n [].

(* "for (rio = 10, dio = 1; 10*rio <= limit; rio *= 10, dio++)" and its radix variants *)
Fixpoint pow_loop_le (fuel : nat) (radix rio dio limit : Z) : Z * Z :=
  match fuel with
  | O => (rio, dio)
  | S f => if radix * rio <=? limit then pow_loop_le f radix (rio * radix) (dio + 1) limit
           else (rio, dio)
  end.
Fixpoint pow_loop_lt (fuel : nat) (radix rio dio limit : Z) : Z * Z :=
  match fuel with
  | O => (rio, dio)
  | S f => if radix * rio <? limit then pow_loop_lt f radix (rio * radix) (dio + 1) limit
           else (rio, dio)
  end.
Definition dec_rio : Z * Z := pow_loop_le 64 10 10 1 R.          (* (10^9, 9) *)
Definition dec_rim : Z * Z := pow_loop_le 64 10 10 1 IMM_MAX.    (* (10^18, 18) *)

Definition bintStringSize (b : bint) : Z :=
  match b with
  | Imm _ => LG_IMMED
  | Sto _ _ => Z.quot (bintLength b) 3 + 3 + snd dec_rio
  end.
(* "for (j = 0; j < dio; j++) { s[--i] = '0' + r % 10; r /= 10; }" : prepends dio characters *)
Fixpoint emit_dec (dio : nat) (r : Z) (acc : list Z) : list Z :=
  match dio with
  | O => acc
  | S j => emit_dec j (r / 10) ((48 + r mod 10) :: acc)
  end.
(* "while (Placec(b) > 0) { iintDivideS(b, &r, b, rio); emit }"; fuel = room in the buffer
   (None = the C would write before s[0]) *)
Fixpoint tostr_loop (fuel : nat) (ds : list Z) (acc : list Z) : option (list Z) :=
  match ds with
  | [] => Some acc
  | _ =>
      match fuel with
      | O => None
      | S f =>
          let '(q, r) := iintDivideS ds (fst dec_rio) in
          tostr_loop f q (emit_dec (Z.to_nat (snd dec_rio)) r acc)
      end
  end.
Fixpoint skip_zeros (s : list Z) : list Z :=
  match s with
  | 48 :: t => skip_zeros t
  | _ => s
  end.
Definition bintIntoString (b : bint) : option (list Z) :=
  match b with
  | Imm n => Some (sprintf_ld n)
  | Sto neg ds =>
      let digEst := bintStringSize b in
      match tostr_loop (Z.to_nat ((digEst - 1) / snd dec_rio)) ds [] with
      | None => None
      | Some s =>
          let s := skip_zeros s in
          let s := match s with [] => [48] | _ => s end in
          Some (if neg then 45 :: s else s)
      end
  end.
Definition bintToString := bintIntoString.

(* ------------------------------------------------------------------ decimal / radix input *)
Definition isspace (c : Z) : bool := ((9 <=? c) && (c <=? 13)) || (c =? 32).
Definition isdigit (c : Z) : bool := (48 <=? c) && (c <=? 57).
Definition isupper (c : Z) : bool := (65 <=? c) && (c <=? 90).
Fixpoint skip_while (p : Z -> bool) (s : list Z) : list Z :=
  match s with
  | c :: t => if p c then skip_while p t else s
  | [] => []
  end.
Fixpoint take_while (p : Z -> bool) (s : list Z) : list Z :=
  match s with
  | c :: t => if p c then c :: take_while p t else []
  | [] => []
  end.
Definition digval (c : Z) : Z := if c <=? 57 then c - 48 else c - 65 + 10.
(* "for (n = 0, l = ..; l > 0; l--) n = radix*n + dig" over a chunk of characters *)
Fixpoint horner (radix : Z) (cs : list Z) (n : Z) : Z :=
  match cs with
  | [] => n
  | c :: t => horner radix t (s64 (radix * n + digval c))
  end.
(* the chunks of dio characters after the first l0 *)
Fixpoint scan_chunks (fuel : nat) (radix rio : Z) (dio : nat) (cs : list Z) (acc : list Z) : list Z :=
  match fuel with
  | O => acc
  | S f =>
      match cs with
      | [] => acc
      | _ => let n := horner radix (firstn dio cs) 0 in
             scan_chunks f radix rio dio (skipn dio cs) (iintTimesPlusS acc (toS rio) (toS n))
      end
  end.
Definition scan_big (radix rio dio : Z) (isNeg : bool) (cs : list Z) : bint :=
  let ndigs := len cs in
  let l0 := Z.rem ndigs dio in
  let n0 := horner radix (firstn (Z.to_nat l0) cs) 0 in
  let b0 := sto_ds (xintCopyInI n0) in
  let ds := scan_chunks (length cs) radix rio (Z.to_nat dio) (skipn (Z.to_nat l0) cs) b0 in
  xintImmedIfCan (Sto isNeg ds).

(* bintScanFrString(s, &end): returns the number and the unread rest of the string *)
Definition bintScanFrString (s : list Z) : bint * list Z :=
  let '(rim, dim) := dec_rim in
  let '(rio, dio) := dec_rio in
  let s := skip_while isspace s in
  let '(isNeg, s) := match s with 45 :: t => (true, t) | _ => (false, s) end in
  let s := skip_while (fun c => c =? 48) s in
  let ds := take_while isdigit s in
  let rest := skip_while isdigit s in
  let ndig := len ds in
  if ndig <=? dim then
    let n := horner 10 ds 0 in
    (IntToBInt (if isNeg then s64 (- n) else n), rest)
  else (scan_big 10 rio dio isNeg ds, rest).

(* (ULong)(log((double)radix)/log(2.0)) + 1 for radix 2..36: a table, compared with the C at check time *)
Definition bpd_table : list Z :=
  [2;2;3;3;3;3;4;4;4;4;4;4;4;4;5;5;5;5;5;5;5;5;5;5;5;5;5;5;5;5;6;6;6;6;6].
Definition bpd_of (radix : Z) : Z := znth (radix - 2) bpd_table.

(* strtol(num, &junk, radix) on a string of [0-9A-Z]: value of the longest prefix of valid digits
   (the C library also skips a "0X" prefix in radix 16; not modelled, excluded from the scripts) *)
Fixpoint strtol_pref (radix : Z) (cs : list Z) (n : Z) : Z :=
  match cs with
  | [] => n
  | c :: t => if digval c <? radix then strtol_pref radix t (radix * n + digval c) else n
  end.

(* bintRadixScanFrString(num, &end): returns the number and the unread rest *)
Definition bintRadixScanFrString (s : list Z) : bint * list Z :=
  let s := skip_while isspace s in
  let '(isNeg, s) :=
    match s with
    | 43 :: t => (false, t)
    | 45 :: t => (true, t)
    | _ => (false, s)
    end in
  let lead := take_while isdigit s in
  let after := skip_while isdigit s in
  let hasr := match after with 114 :: _ => true | _ => false end in
  let wholeR := take_while (fun c => isdigit c || isupper c) (tl after) in
  let rest := if hasr then skip_while (fun c => isdigit c || isupper c) (tl after) else after in
  if hasr && (len lead =? 0) then (IntToBInt 0, rest)
  else
    let radix := if hasr then strtol_pref 10 lead 0 else 10 in
    if hasr && ((radix <? 2) || (36 <? radix)) then (IntToBInt 0, rest)
    else
      let whole := if hasr then wholeR else lead in
      let '(rio0, dio0) := pow_loop_lt 64 radix radix 1 (R / radix) in
      let rio := rio0 * radix in
      let dio := dio0 + 1 in
      let bpd := bpd_of radix in
      let ndigs := len whole in
      let nbits := ndigs * bpd in
      if nbits <=? LG_IMMED then
        let ires := u64 (strtol_pref radix whole 0) in
        let ires := if isNeg then u64 (- ires) else ires in
        (IntToBInt (s64 ires), rest)
      else (scan_big radix rio dio isNeg whole, rest).
Definition bintFrString (s : list Z) : bint := fst (bintRadixScanFrString s).

(* ------------------------------------------------------------------ foam_i.c wrappers *)
Definition fiBIntFrInt (n : Z) : bint := bintNew n.          (* also fiBIntNew, fiSIntToBInt *)
Definition fiBIntIsSingle (b : bint) : bool := bintLength b <? 64.
(* fiBIntToSInt *)
Fixpoint tosint_loop (i : nat) (b : bint) (n : Z) : Z :=     (* i+1 bits still to read, from bit i down *)
  let n := s64 (Z.shiftl n 1) in
  let n := if bintBit b (Z.of_nat i) then s64 (n + 1) else n in
  match i with
  | O => n
  | S j => tosint_loop j b n
  end.
Definition fiBIntToSInt (b : bint) : Z :=
  match b with
  | Imm n => n
  | Sto _ _ => let n := tosint_loop 63 b 0 in if bintIsNeg b then s64 (- n) else n
  end.

(* fiBIntGcd: Euclid with bintDivide; None = fuel exhausted *)
Fixpoint gcd_loop (fuel : nat) (c d : bint) : option bint :=
  match fuel with
  | O => None
  | S f => if bintNE d bint0 then gcd_loop f d (snd (bintDivide c d)) else Some c
  end.
Definition fiBIntGcd (a b : bint) : option bint :=
  let c := if bintLT a bint0 then bintNegate a else a in
  let d := if bintLT b bint0 then bintNegate b else b in
  gcd_loop (Z.to_nat (2 * (bintLength a + bintLength b) + 4)) c d.

(* fiSIntLength / fiSIntBit (foam_c.c / foam_c.h) *)
Fixpoint sintLength_loop (fuel : nat) (x b : Z) : Z :=
  match fuel with
  | O => b
  | S f => if x =? 0 then b else sintLength_loop f (Z.shiftr x 1) (b + 1)
  end.
Definition fiSIntLength (i : Z) : Z := sintLength_loop 65 (uabs i) 0.
Definition fiSIntBit (n i : Z) : bool := Z.testbit (u64 n) i && (i <? 64).

(* the square-and-multiply loop shared by fiBIntSIPower / fiBIntBIPower:
   for (i = 0; ; i++) { if (bit(i)) p = p*a; if (i >= l) break; a = a*a; } *)
Fixpoint power_loop (fuel : nat) (i l : Z) (bit : Z -> bool) (p a : bint) : bint :=
  let p := if bit i then bintTimes p a else p in
  match fuel with
  | O => p
  | S f => if l <=? i then p else power_loop f (i + 1) l bit p (bintTimes a a)
  end.
(* None = the C raises "negative power" *)
Definition fiBIntSIPower (a : bint) (b : Z) : option bint :=
  if b <? 0 then None
  else if b =? 0 then Some bint1
  else let l := fiSIntLength b in
       Some (power_loop (Z.to_nat l) 0 l (fiSIntBit b) bint1 a).
Definition fiBIntBIPower (a b : bint) : option bint :=
  if bintIsNeg b then None
  else if bintIsZero b then Some bint1
  else let l := bintLength b in
       Some (power_loop (Z.to_nat l) 0 l (bintBit b) bint1 a).

Definition omod (x : option bint) (c : bint) : option bint :=
  match x with None => None | Some v => bintMod v c end.
Fixpoint powmod_loop (fuel : nat) (i l : Z) (bit : Z -> bool) (p a : option bint) (c : bint) : option bint :=
  let p := if bit i
           then match p, a with Some pv, Some av => bintMod (bintTimes pv av) c | _, _ => None end
           else p in
  match fuel with
  | O => p
  | S f => if l <=? i then p
           else powmod_loop f (i + 1) l bit p
                  (match a with Some av => bintMod (bintTimes av av) c | None => None end) c
  end.
(* None = the C raises (zero modulus / negative power) or a model loop ran out of fuel *)
Definition fiBIntPowerMod (a b c : bint) : option bint :=
  if bintIsZero c then None
  else if bintIsZero b then bintMod bint1 c      (* 1 mod c: 0 when |c| = 1 *)
  else match bintMod a c with
       | None => None
       | Some reda =>
           if bintIsZero reda then Some bint0
           else if bintIsNeg b then None
           else let l := bintLength b in
                powmod_loop (Z.to_nat l) 0 l (bintBit b) (Some bint1) (Some reda) c
       end.

(* fiBIntMod / fiBIntRem / fiBIntQuo / fiBIntDivide: zero-divisor test, then bintMod / bintDivide *)
Definition fiBIntMod (a b : bint) : option bint := if bintIsZero b then None else bintMod a b.
Definition fiBIntRem := fiBIntMod.
Definition fiBIntQuo (a b : bint) : option bint :=
  if bintIsZero b then None else Some (fst (bintDivide a b)).
Definition fiBIntDivide (a b : bint) : option (bint * bint) :=
  if bintIsZero b then None else Some (bintDivide a b).
Definition fiBIntTimesPlus (a b c : bint) : bint := bintPlus (bintTimes a b) c.
Definition fiBIntShiftUp (b : bint) (n : Z) : bint := bintShift b n.
Definition fiBIntShiftDn (b : bint) (n : Z) : bint := bintShift b (- n).

(* driver helper (not used by any theorem): results longer than this many bits are printed by the model
   driver without their decimal text (the conversion is quadratic in the extracted arithmetic); the
   explicit "tostr" operation always converts *)
Definition text_limit_ok (b : bint) : bool := bintLength b <=? 700.

(* ------------------------------------------------------------------ value and normal form *)
Fixpoint lval (ds : list Z) : Z :=
  match ds with
  | [] => 0
  | d :: t => d + R * lval t
  end.
Definition val (b : bint) : Z :=
  match b with
  | Imm n => n
  | Sto neg ds => if neg then - lval ds else lval ds
  end.
Definition digit_ok (d : Z) : bool := (0 <=? d) && (d <? R).
Definition digits_ok (ds : list Z) : bool := forallb digit_ok ds.
(* normal form: immediate inside the immediate range; stored only outside it, digits in range,
   top place non-zero *)
Definition normb (b : bint) : bool :=
  match b with
  | Imm n => INT_IS_IMMED n
  | Sto _ ds => digits_ok ds && negb (last ds 0 =? 0) && (IMM_MAX <? lval ds)
  end.
Definition norm (b : bint) : Prop := normb b = true.
