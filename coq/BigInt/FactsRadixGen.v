(* C11 — the chunk width and multiplier of the radix and decimal scanners, as REGENERATED from the current
   bigint.c (coq/Gen/BigIntRadix.v, tools/bigint_gen.py): for every radix 2..36 the multiplier the C computes is
   radix^dio, positive and below 2^32 (so the (BIntS) cast under which it reaches iintTimesPlusS keeps it), and
   it is the multiplier of the model, about which radix_scan_exact is proved. *)
Require Import ZArith List Bool Lia ZifyBool.
Require Import AV.BigInt.Model AV.BigInt.Facts AV.BigInt.FactsStr AV.BigInt.FactsRadix AV.Gen.BigIntRadix.
Import ListNotations.
Local Open Scope Z_scope.

Definition model_chunk (radix : Z) : Z * Z :=
  let '(r0, d0) := pow_loop_lt 64 radix radix 1 (R / radix) in (r0 * radix, d0 + 1).

Definition chunk_row_ok (row : Z * Z * Z) : bool :=
  let '(radix, rio, dio) := row in
  (0 <? rio) && (rio <? 4294967296) && (rio =? radix ^ dio) && (1 <=? dio) &&
  (fst (model_chunk radix) =? rio) && (snd (model_chunk radix) =? dio).

Lemma chunk_rows_ok : forallb chunk_row_ok radix_chunk_tbl = true.
Proof. vm_compute. reflexivity. Qed.

Theorem radix_chunk_regen_ok :
  radix_chunk_translated = true /\
  map (fun row => fst (fst row)) radix_chunk_tbl = map Z.of_nat (seq 2 35) /\
  forall radix rio dio, In (radix, rio, dio) radix_chunk_tbl ->
    0 < rio < 2 ^ 32 /\ toS rio = rio /\ rio = radix ^ dio /\ 1 <= dio /\ model_chunk radix = (rio, dio).
Proof.
  split; [reflexivity|]. split; [vm_compute; reflexivity|].
  intros radix rio dio Hin. pose proof chunk_rows_ok as H. rewrite forallb_forall in H.
  specialize (H _ Hin). unfold chunk_row_ok in H. rewrite !andb_true_iff in H.
  destruct H as (((((H1 & H2) & H3) & H4) & H5) & H6).
  change (2 ^ 32) with 4294967296.
  split; [lia|]. split; [apply toS_id; unfold R; lia|]. split; [lia|]. split; [lia|].
  destruct (model_chunk radix) as [a b]. cbn [fst snd] in *. f_equal; lia.
Qed.

Theorem dec_chunk_regen_ok : dec_chunk = dec_rio /\ 0 < fst dec_chunk < 2 ^ 32 /\ fst dec_chunk = 10 ^ snd dec_chunk.
Proof. vm_compute. repeat split; reflexivity. Qed.

(* the hypotheses are met by every radix: e.g. radix 16 multiplies chunks of 7 digits by 16^7 *)
Example ex_chunk_16 : In (16, 268435456, 7) radix_chunk_tbl.
Proof. vm_compute. tauto. Qed.
