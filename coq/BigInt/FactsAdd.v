(* C11 — iintPlus, iintMinus, bintPlus, bintMinus are exact and return normal forms. *)
Require Import ZArith List Bool Lia ZifyBool.
Require Import AV.BigInt.Model AV.BigInt.Facts AV.BigInt.FactsCmp.
Import ListNotations.
Local Open Scope Z_scope.
Ltac Zify.zify_post_hook ::= Z.div_mod_to_equations.

Lemma dok_last : forall ds, dok ds -> ds <> [] -> 0 <= last ds 0 < R.
Proof.
  induction ds as [|d t IH]; intros Hd Hne; [congruence|].
  apply dok_cons in Hd. destruct Hd as [Hd Ht]. destruct t as [|e t'].
  - cbn [last]. exact Hd.
  - rewrite last_cons_cons. apply IH; [exact Ht | congruence].
Qed.

(* bit length of a stored magnitude: between 32(len-1)+1 and 32 len *)
Lemma bintLength_sto_range : forall neg ds, dok ds -> ds <> [] ->
  LG * (len ds - 1) + 1 <= bintLength (Sto neg ds) <= LG * len ds.
Proof.
  intros neg ds Hd Hne. unfold bintLength.
  pose proof (uintLength_digit _ (dok_last ds Hd Hne)). unfold LG. lia.
Qed.

Definition res_spec (r a : list Z) : Prop :=
  length r = length a \/ (length r = S (length a) /\ Rp (length a) <= lval r).

(* ------------------------------------------------------------------ iintPlus *)
Lemma plus_carry_spec : forall a k, dok a -> 0 <= k <= 1 ->
  lval (plus_carry a k) = lval a + k /\ dok (plus_carry a k) /\ res_spec (plus_carry a k) a.
Proof.
  unfold res_spec. induction a as [|ai a' IH]; intros k Ha Hk.
  - cbn [plus_carry]. destruct (Z.eqb_spec k 0) as [->|Hk1].
    + cbn [lval]. repeat split; [apply dok_nil | left; reflexivity].
    + assert (k = 1) by lia. subst k. cbn [lval length]. split; [lia|]. split.
      * apply dok_cons. split; [unfold R; lia | apply dok_nil].
      * right. split; [reflexivity|]. rewrite Rp_0. cbn [lval]. lia.
  - apply dok_cons in Ha. destruct Ha as [Hai Ha'].
    cbn [plus_carry]. destruct (Z.eqb_spec k 0) as [->|Hk1].
    + split; [lia|]. split; [apply dok_cons; auto | left; reflexivity].
    + assert (k = 1) by lia. subst k.
      pose proof (PlusStep_spec ai 0 1 Hai ltac:(unfold R; lia) ltac:(lia)) as (E & Hs & Hk').
      destruct (PlusStep ai 0 1) as [k' s]. cbn [fst snd] in *.
      destruct (IH k' Ha' Hk') as (V & D & L).
      rewrite toS_id by exact Hs. cbn [lval length]. split; [lia|].
      split; [apply dok_cons; auto|].
      destruct L as [L|(L & G)]; [left; cbn [length]; lia | right].
      split; [cbn [length]; lia|]. rewrite Rp_S. unfold R in *. lia.
Qed.

Lemma plus_digits_spec : forall b a k, dok a -> dok b -> (length b <= length a)%nat -> 0 <= k <= 1 ->
  lval (plus_digits a b k) = lval a + lval b + k /\ dok (plus_digits a b k) /\
  res_spec (plus_digits a b k) a.
Proof.
  unfold res_spec. induction b as [|bi b' IH]; intros a k Ha Hb Hl Hk.
  - cbn [plus_digits lval]. pose proof (plus_carry_spec a k Ha Hk) as HH. unfold res_spec in HH. destruct HH as (V & D & L). split; [lia | auto].
  - destruct a as [|ai a']; [cbn [length] in Hl; lia|].
    apply dok_cons in Ha. apply dok_cons in Hb. destruct Ha as [Hai Ha'], Hb as [Hbi Hb'].
    cbn [plus_digits hd tl].
    pose proof (PlusStep_spec ai bi k Hai Hbi Hk) as (E & Hs & Hk').
    destruct (PlusStep ai bi k) as [k' s]. cbn [fst snd] in *.
    destruct (IH a' k' Ha' Hb' ltac:(cbn [length] in Hl; lia) Hk') as (V & D & L).
    rewrite toS_id by exact Hs. cbn [lval length]. split; [lia|].
    split; [apply dok_cons; auto|].
    destruct L as [L|(L & G)]; [left; cbn [length]; lia | right].
    split; [cbn [length]; lia|]. rewrite Rp_S. unfold R in *. lia.
Qed.

Lemma res_spec_res_ok : forall r a, dok r -> wf a -> lval a <= lval r -> res_spec r a -> res_ok r.
Proof.
  intros r a Dr Wa Hle L. split; [exact Dr|]. intros H3.
  assert (Hne : r <> []) by (intros ->; cbn in H3; lia).
  apply ge_last_nz; auto.
  destruct L as [L|(L & G)].
  - rewrite L. pose proof (wf_ge a Wa ltac:(unfold len in *; lia)). lia.
  - rewrite L. replace (S (length a) - 1)%nat with (length a) by lia. exact G.
Qed.

Lemma iintPlus_spec : forall a b, wf a -> wf b -> len b <= len a ->
  lval (iintPlus a b) = lval a + lval b /\ res_ok (iintPlus a b).
Proof.
  intros a b Wa Wb Hl. unfold iintPlus.
  destruct Wa as (Da & Wa2), Wb as (Db & Wb2).
  destruct (plus_digits_spec b a 0 Da Db ltac:(unfold len in Hl; lia) ltac:(lia)) as (V & D & L).
  split; [lia|].
  apply (res_spec_res_ok _ a); auto; [split; auto|].
  pose proof (lval_bound b Db). lia.
Qed.

Lemma bintPlus_gen_spec : forall da db, wf da -> wf db ->
  val (bintPlus_gen da db) = lval da + lval db /\ norm (bintPlus_gen da db).
Proof.
  intros da db Wa Wb. unfold bintPlus_gen.
  pose proof Wa as (Da & Na & _). pose proof Wb as (Db & Nb & _).
  pose proof (bintLength_sto_range false da Da Na) as Ra.
  pose proof (bintLength_sto_range false db Db Nb) as Rb.
  unfold LG in *.
  destruct (Z.ltb_spec (bintLength (Sto false da)) (bintLength (Sto false db))) as [L|L].
  - destruct (iintPlus_spec db da Wb Wa ltac:(lia)) as (V & Rk).
    destruct (xintImmedIfCan_ok false _ Rk) as (V2 & N). rewrite V2. cbn [val]. split; [lia | exact N].
  - destruct (iintPlus_spec da db Wa Wb ltac:(lia)) as (V & Rk).
    destruct (xintImmedIfCan_ok false _ Rk) as (V2 & N). rewrite V2. cbn [val]. split; [lia | exact N].
Qed.

(* ------------------------------------------------------------------ iintMinus *)
Lemma minus_borrow_spec : forall a kp1, dok a -> 0 <= kp1 <= 1 ->
  exists bf, 0 <= bf <= 1 /\
    lval (minus_borrow a kp1) = lval a - (1 - kp1) + Rp (length a) * bf /\
    dok (minus_borrow a kp1) /\ length (minus_borrow a kp1) = length a.
Proof.
  induction a as [|ai a' IH]; intros kp1 Ha Hk.
  - exists (1 - kp1). cbn [minus_borrow lval length]. rewrite Rp_0. repeat split; try lia. apply dok_nil.
  - apply dok_cons in Ha. destruct Ha as [Hai Ha'].
    cbn [minus_borrow]. destruct (Z.eqb_spec kp1 0) as [->|Hk1].
    + pose proof (MinusStep_spec ai 0 0 Hai ltac:(unfold R; lia) ltac:(lia)) as (E & Hs & Hk').
      destruct (MinusStep ai 0 0) as [k' s]. cbn [fst snd] in *.
      destruct (IH k' Ha' Hk') as (bf & Hbf & V & D & L).
      exists bf. rewrite toS_id by exact Hs. cbn [lval length]. rewrite Rp_S.
      split; [exact Hbf|]. split; [unfold R in *; lia|]. split; [apply dok_cons; auto | lia].
    + exists 0. split; [lia|]. split; [lia|]. split; [apply dok_cons; auto | reflexivity].
Qed.
Lemma minus_digits_spec : forall b a kp1, dok a -> dok b -> (length b <= length a)%nat -> 0 <= kp1 <= 1 ->
  exists bf, 0 <= bf <= 1 /\
    lval (minus_digits a b kp1) = lval a - lval b - (1 - kp1) + Rp (length a) * bf /\
    dok (minus_digits a b kp1) /\ length (minus_digits a b kp1) = length a.
Proof.
  induction b as [|bi b' IH]; intros a kp1 Ha Hb Hl Hk.
  - cbn [minus_digits lval]. destruct (minus_borrow_spec a kp1 Ha Hk) as (bf & Hbf & V & D & L).
    exists bf. repeat split; auto; lia.
  - destruct a as [|ai a']; [cbn [length] in Hl; lia|].
    apply dok_cons in Ha. apply dok_cons in Hb. destruct Ha as [Hai Ha'], Hb as [Hbi Hb'].
    cbn [minus_digits hd tl].
    pose proof (MinusStep_spec ai bi kp1 Hai Hbi Hk) as (E & Hs & Hk').
    destruct (MinusStep ai bi kp1) as [k' s]. cbn [fst snd] in *.
    destruct (IH a' k' Ha' Hb' ltac:(cbn [length] in Hl; lia) Hk') as (bf & Hbf & V & D & L).
    exists bf. rewrite toS_id by exact Hs. cbn [lval length]. rewrite Rp_S.
    split; [exact Hbf|]. split; [unfold R in *; lia|]. split; [apply dok_cons; auto | lia].
Qed.

Lemma strip_res_ok : forall ds, dok ds -> res_ok (strip ds).
Proof.
  intros ds Hd. split; [apply strip_dok; exact Hd|]. intros H3.
  destruct (strip_last ds) as [E|E]; [rewrite E in H3; cbn in H3; lia | exact E].
Qed.

Lemma iintMinus_spec : forall a b, wf a -> wf b -> lval b <= lval a ->
  lval (iintMinus a b) = lval a - lval b /\ res_ok (iintMinus a b).
Proof.
  intros a b Wa Wb Hle. unfold iintMinus.
  pose proof (wf_le_len b a Wb Wa Hle) as Hl.
  destruct Wa as (Da & _), Wb as (Db & _).
  destruct (minus_digits_spec b a 1 Da Db ltac:(unfold len in Hl; lia) ltac:(lia)) as (bf & Hbf & V & D & L).
  rewrite strip_lval. split; [|apply strip_res_ok; exact D].
  pose proof (lval_bound _ D) as Hb. rewrite L in Hb.
  pose proof (Rp_pos (length a)).
  assert (bf = 0) by nia. subst bf. lia.
Qed.

Lemma bintLT_sto_false : forall da db, wf da -> wf db ->
  bintLT (Sto false da) (Sto false db) = (lval da <? lval db).
Proof. intros da db Wa Wb. cbn [bintLT Bool.eqb negb]. apply lt_mag_spec; assumption. Qed.

Lemma bintMinus_gen_spec : forall da db, wf da -> wf db ->
  val (bintMinus_gen da db) = lval da - lval db /\ norm (bintMinus_gen da db).
Proof.
  intros da db Wa Wb. unfold bintMinus_gen. rewrite bintLT_sto_false by assumption.
  destruct (Z.ltb_spec (lval da) (lval db)) as [L|L].
  - destruct (iintMinus_spec db da Wb Wa ltac:(lia)) as (V & Rk).
    destruct (xintImmedIfCan_ok true _ Rk) as (V2 & N). rewrite V2. cbn [val]. split; [lia | exact N].
  - destruct (iintMinus_spec da db Wa Wb ltac:(lia)) as (V & Rk).
    destruct (xintImmedIfCan_ok false _ Rk) as (V2 & N). rewrite V2. cbn [val]. split; [lia | exact N].
Qed.

(* ------------------------------------------------------------------ bintPlus / bintMinus *)
Lemma plus_slow_ok : forall a b, norm a -> norm b ->
  let a' := xintStore a in
  let b' := xintStore b in
  let aNeg := bintIsNeg a' in
  let bNeg := bintIsNeg b' in
  let da := sto_ds a' in
  let db := sto_ds b' in
  let r := if aNeg && bNeg then BINT_NEGATE (bintPlus_gen da db)
           else if aNeg then bintMinus_gen db da
           else if bNeg then bintMinus_gen da db
           else bintPlus_gen da db in
  val r = val a + val b /\ norm r.
Proof.
  intros a b Na Nb.
  destruct (xintStore_spec a Na) as (da & Ea & Wa & Va).
  destruct (xintStore_spec b Nb) as (db & Eb & Wb & Vb).
  rewrite Ea, Eb. cbn [bintIsNeg sto_ds]. cbv zeta.
  destruct (bintPlus_gen_spec da db Wa Wb) as (Vp & Np).
  destruct (bintMinus_gen_spec da db Wa Wb) as (Vm & Nm).
  destruct (bintMinus_gen_spec db da Wb Wa) as (Vm' & Nm').
  destruct (Z.ltb_spec (val a) 0) as [La|La]; destruct (Z.ltb_spec (val b) 0) as [Lb|Lb]; cbn [andb].
  - unfold BINT_NEGATE. destruct (negate_exact _ Np) as (Vn & Nn). rewrite Vn, Vp. split; [lia | exact Nn].
  - rewrite Vm'. split; [lia | exact Nm'].
  - rewrite Vm. split; [lia | exact Nm].
  - rewrite Vp. split; [lia | exact Np].
Qed.

Theorem plus_exact : forall a b, norm a -> norm b ->
  val (bintPlus a b) = val a + val b /\ norm (bintPlus a b).
Proof.
  intros a b Na Nb. unfold bintPlus.
  destruct a as [ai|na da]; [destruct b as [bi|nb db]|]; try (apply plus_slow_ok; assumption).
  pose proof (proj1 (norm_imm ai) Na) as Ra. pose proof (proj1 (norm_imm bi) Nb) as Rb.
  unfold IMM_MIN, IMM_MAX in *.
  unfold PlusStep.
  destruct (Z.leb_spec R (u64 (ai + bi + 0))) as [Hge|Hlt].
  - cbv beta iota zeta. cbn [Z.eqb andb]. apply plus_slow_ok; assumption.
  - assert (E0 : 0 <= ai + bi) by (unfold u64, W64, R in *; lia).
    assert (E : u64 (ai + bi + 0) = ai + bi) by (unfold u64, W64, R in *; lia).
    rewrite E in *. cbv beta iota zeta. rewrite s64_id by (unfold H63, R in *; lia).
    assert (Hi : INT_IS_IMMED (ai + bi) = true) by (unfold INT_IS_IMMED, IMM_MIN, IMM_MAX, R in *; lia).
    rewrite Hi. cbn [Z.eqb andb].
    destruct (IntToBInt_norm (ai + bi)) as (E1 & N); [unfold IMM_MIN, IMM_MAX, R in *; lia|].
    rewrite E1. split; [reflexivity | exact N].
Qed.

Lemma minus_slow_ok : forall a b, norm a -> norm b ->
  let a' := xintStore a in
  let b' := xintStore b in
  let aNeg := bintIsNeg a' in
  let bNeg := bintIsNeg b' in
  let da := sto_ds a' in
  let db := sto_ds b' in
  let r := if aNeg && bNeg then bintMinus_gen db da
           else if aNeg then BINT_NEGATE (bintPlus_gen da db)
           else if bNeg then bintPlus_gen da db
           else bintMinus_gen da db in
  val r = val a - val b /\ norm r.
Proof.
  intros a b Na Nb.
  destruct (xintStore_spec a Na) as (da & Ea & Wa & Va).
  destruct (xintStore_spec b Nb) as (db & Eb & Wb & Vb).
  rewrite Ea, Eb. cbn [bintIsNeg sto_ds]. cbv zeta.
  destruct (bintPlus_gen_spec da db Wa Wb) as (Vp & Np).
  destruct (bintMinus_gen_spec da db Wa Wb) as (Vm & Nm).
  destruct (bintMinus_gen_spec db da Wb Wa) as (Vm' & Nm').
  destruct (Z.ltb_spec (val a) 0) as [La|La]; destruct (Z.ltb_spec (val b) 0) as [Lb|Lb]; cbn [andb].
  - rewrite Vm'. split; [lia | exact Nm'].
  - unfold BINT_NEGATE. destruct (negate_exact _ Np) as (Vn & Nn). rewrite Vn, Vp. split; [lia | exact Nn].
  - rewrite Vp. split; [lia | exact Np].
  - rewrite Vm. split; [lia | exact Nm].
Qed.

Theorem minus_exact : forall a b, norm a -> norm b ->
  val (bintMinus a b) = val a - val b /\ norm (bintMinus a b).
Proof.
  intros a b Na Nb. unfold bintMinus.
  destruct a as [ai|na da]; [destruct b as [bi|nb db]|]; try (apply minus_slow_ok; assumption).
  pose proof (proj1 (norm_imm ai) Na) as Ra. pose proof (proj1 (norm_imm bi) Nb) as Rb.
  unfold IMM_MIN, IMM_MAX in *.
  rewrite s64_id by (unfold H63; lia).
  destruct (INT_IS_IMMED (ai - bi)) eqn:Hi.
  - destruct (IntToBInt_norm (ai - bi)) as (E1 & N); [unfold INT_IS_IMMED in Hi; lia|].
    rewrite E1. split; [reflexivity | exact N].
  - apply minus_slow_ok; assumption.
Qed.
