(* C11 — extraction of the executable model for the correspondence (Z stays arbitrary precision). *)
Require Import AV.BigInt.Model.
Require Import ExtrOcamlBasic.

Extraction "BigInt/extracted/bigint.ml"
  LG R IMM_MAX IMM_MIN LG_IMMED HALF_MAX dec_rio dec_rim bpd_table
  bintNew bintNegate bintAbs bintPlus bintMinus bintTimes bintDivide bintDivide_ok bintDivide_stats bintMod
  bintEQ bintLT bintGT bintLE bintGE bintNE bintIsNeg bintIsZero bintIsPos bintIsSmall
  bintLength bintBit bintShift bintShiftRem shiftrem_defined bintToString bintScanFrString bintRadixScanFrString
  bintFrPlacev bintFrPlacevS bintToPlacevS
  fiBIntFrInt fiBIntToSInt fiBIntIsSingle fiBIntGcd fiBIntSIPower fiBIntBIPower fiBIntPowerMod
  fiBIntMod fiBIntRem fiBIntQuo fiBIntDivide fiBIntTimesPlus
  iintPlus iintMinus iintTimes iintTimesS iintTimesPlusS iintDivideS iintDivide iintDivide_ok iintShift
  xintImmedIfCan xintStore val normb text_limit_ok.
