(* C11 — basic lemmas about coq/BigInt/Model.v: digit lists, the double-precision macros,
   normal forms, xintStore / xintImmedIfCan, comparison, negate, abs. *)
Require Import ZArith List Bool Lia ZifyBool.
Require Import AV.BigInt.Model.
Import ListNotations.
Local Open Scope Z_scope.
Ltac Zify.zify_post_hook ::= Z.div_mod_to_equations.

(* ------------------------------------------------------------------ constants *)
Lemma R_eq : R = 2 ^ 32. Proof. reflexivity. Qed.
Lemma R_pos : 0 < R. Proof. reflexivity. Qed.

Ltac unfold_consts :=
  unfold toS, u64, s64, wrap63, W64, H63, R, IMM_MIN, IMM_MAX, LG, LG_IMMED, HALF_MAX in *.

Lemma wrap63_id : forall x, -4611686018427387904 <= x < 4611686018427387904 -> wrap63 x = x.
Proof. intros x Hx. unfold wrap63, H63. lia. Qed.
Lemma toS_id : forall x, 0 <= x < R -> toS x = x.
Proof. intros x Hx. unfold toS, R in *. lia. Qed.
Lemma u64_id : forall x, 0 <= x < W64 -> u64 x = x.
Proof. intros x Hx. unfold u64, W64 in *. lia. Qed.
Lemma s64_id : forall x, - H63 <= x < H63 -> s64 x = x.
Proof. intros x Hx. unfold s64, W64, H63 in *. lia. Qed.

(* ------------------------------------------------------------------ powers of the radix *)
Definition Rp (n : nat) : Z := R ^ Z.of_nat n.
Lemma Rp_0 : Rp 0 = 1. Proof. reflexivity. Qed.
Lemma Rp_S : forall n, Rp (S n) = R * Rp n.
Proof. intros n. unfold Rp. rewrite Nat2Z.inj_succ, Z.pow_succ_r by lia. reflexivity. Qed.
Lemma Rp_pos : forall n, 0 < Rp n.
Proof. intros n. unfold Rp. apply Z.pow_pos_nonneg; [reflexivity | lia]. Qed.
Lemma Rp_mono : forall n m, (n <= m)%nat -> Rp n <= Rp m.
Proof. intros n m H. unfold Rp. apply Z.pow_le_mono_r; [reflexivity | lia]. Qed.
Lemma Rp_add : forall n m, Rp (n + m) = Rp n * Rp m.
Proof. intros n m. unfold Rp. rewrite Nat2Z.inj_add, Z.pow_add_r by lia. reflexivity. Qed.
Lemma Rp_1 : Rp 1 = R. Proof. reflexivity. Qed.
Lemma Rp_2 : Rp 2 = 18446744073709551616. Proof. reflexivity. Qed.
Lemma Rp_ge_R : forall n, (1 <= n)%nat -> R <= Rp n.
Proof. intros n H. change R with (Rp 1). apply Rp_mono; exact H. Qed.

(* ------------------------------------------------------------------ digit lists *)
Definition dok (ds : list Z) : Prop := Forall (fun d => 0 <= d < R) ds.

Lemma digits_ok_dok : forall ds, digits_ok ds = true <-> dok ds.
Proof.
  intros ds. unfold digits_ok, dok. rewrite forallb_forall, Forall_forall.
  split; intros H d Hd; specialize (H d Hd); unfold digit_ok in *; lia.
Qed.
Lemma dok_nil : dok []. Proof. constructor. Qed.
Lemma dok_cons : forall d ds, dok (d :: ds) <-> 0 <= d < R /\ dok ds.
Proof. intros d ds. unfold dok. split; intros H; [inversion H; auto | destruct H; constructor; auto]. Qed.
Lemma dok_app : forall a b, dok (a ++ b) <-> dok a /\ dok b.
Proof. intros a b. unfold dok. apply Forall_app. Qed.

Lemma lval_bound : forall ds, dok ds -> 0 <= lval ds < Rp (length ds).
Proof.
  induction ds as [|d t IH]; intros H.
  - cbn [lval length]. rewrite Rp_0. lia.
  - apply dok_cons in H. destruct H as [Hd Ht]. specialize (IH Ht).
    cbn [lval length]. rewrite Rp_S. unfold R in *. lia.
Qed.
Lemma lval_app : forall a b, lval (a ++ b) = lval a + Rp (length a) * lval b.
Proof.
  induction a as [|x a IH]; intros b.
  - cbn [app lval length]. rewrite Rp_0. lia.
  - cbn [app lval length]. rewrite IH, Rp_S. lia.
Qed.
Lemma len_nil : len [] = 0. Proof. reflexivity. Qed.
Lemma len_cons : forall d t, len (d :: t) = len t + 1.
Proof. intros d t. unfold len. cbn [length]. lia. Qed.
Lemma len_nonneg : forall l, 0 <= len l. Proof. intros l. unfold len. lia. Qed.
Lemma len_app : forall a b, len (a ++ b) = len a + len b.
Proof. intros a b. unfold len. rewrite app_length. lia. Qed.

Lemma last_cons_cons : forall (d e : Z) t x, last (d :: e :: t) x = last (e :: t) x.
Proof. reflexivity. Qed.

(* a non-empty list with digits in range has a non-zero top place iff its value reaches R^(len-1) *)
Lemma last_nz_ge : forall ds, dok ds -> ds <> [] -> last ds 0 <> 0 -> Rp (length ds - 1) <= lval ds.
Proof.
  induction ds as [|d t IH]; intros Hd Hne Hl; [congruence|].
  apply dok_cons in Hd. destruct Hd as [Hd Ht].
  destruct t as [|e t'].
  - cbn [last] in Hl. cbn [length lval Nat.sub]. rewrite Rp_0. lia.
  - rewrite last_cons_cons in Hl. specialize (IH Ht ltac:(congruence) Hl).
    cbn [length] in *. replace (S (S (length t')) - 1)%nat with (S (length t')) by lia.
    replace (S (length t') - 1)%nat with (length t') in IH by lia.
    rewrite Rp_S. cbn [lval] in *. unfold R in *. lia.
Qed.
Lemma ge_last_nz : forall ds, dok ds -> ds <> [] -> Rp (length ds - 1) <= lval ds -> last ds 0 <> 0.
Proof.
  induction ds as [|d t IH]; intros Hd Hne Hl; [congruence|].
  apply dok_cons in Hd. destruct Hd as [Hd Ht].
  destruct t as [|e t'].
  - cbn [last]. cbn [length lval Nat.sub] in Hl. rewrite Rp_0 in Hl. lia.
  - rewrite last_cons_cons. apply IH; [exact Ht | congruence |].
    cbn [length] in *. replace (S (S (length t')) - 1)%nat with (S (length t')) in Hl by lia.
    replace (S (length t') - 1)%nat with (length t') by lia.
    rewrite Rp_S in Hl. cbn [lval] in *. unfold R in *. lia.
Qed.

(* equal length, equal value => equal lists *)
Lemma lval_inj : forall a b, dok a -> dok b -> length a = length b -> lval a = lval b -> a = b.
Proof.
  induction a as [|x a IH]; intros [|y b] Ha Hb Hl Hv; cbn [length] in Hl; try discriminate; [reflexivity|].
  apply dok_cons in Ha. apply dok_cons in Hb. destruct Ha as [Hx Ha], Hb as [Hy Hb].
  cbn [lval] in Hv. unfold R in *.
  assert (x = y) by lia. subst y.
  f_equal. apply IH; auto; lia.
Qed.

(* ------------------------------------------------------------------ strip / strip1 *)
Lemma strip_lval : forall ds, lval (strip ds) = lval ds.
Proof.
  induction ds as [|d t IH]; [reflexivity|].
  cbn [strip]. destruct (strip t) as [|e t'] eqn:E.
  - cbn [lval] in IH. destruct (Z.eqb_spec d 0); cbn [lval]; lia.
  - cbn [lval] in *. lia.
Qed.
Lemma strip_dok : forall ds, dok ds -> dok (strip ds).
Proof.
  induction ds as [|d t IH]; intros H; [constructor|].
  apply dok_cons in H. destruct H as [Hd Ht]. specialize (IH Ht).
  cbn [strip]. destruct (strip t) as [|e t'] eqn:E.
  - destruct (d =? 0); [constructor | apply dok_cons; auto using dok_nil].
  - apply dok_cons; auto.
Qed.
Lemma strip_last : forall ds, strip ds = [] \/ last (strip ds) 0 <> 0.
Proof.
  induction ds as [|d t IH]; [left; reflexivity|].
  cbn [strip]. destruct (strip t) as [|e t'] eqn:E.
  - destruct (Z.eqb_spec d 0); [left; reflexivity | right; cbn [last]; exact n].
  - right. destruct IH as [IH|IH]; [discriminate|]. rewrite last_cons_cons. exact IH.
Qed.
Lemma strip_length : forall ds, (length (strip ds) <= length ds)%nat.
Proof.
  induction ds as [|d t IH]; [cbn; lia|].
  cbn [strip]. destruct (strip t) as [|e t'] eqn:E.
  - destruct (d =? 0); cbn [length]; lia.
  - cbn [length] in *. lia.
Qed.
Lemma strip_id : forall ds, ds <> [] -> last ds 0 <> 0 -> strip ds = ds.
Proof.
  induction ds as [|d t IH]; intros Hne Hl; [congruence|].
  destruct t as [|e t'].
  - cbn [last] in Hl. cbn [strip]. destruct (Z.eqb_spec d 0); congruence.
  - rewrite last_cons_cons in Hl.
    change (strip (d :: e :: t')) with
      (match strip (e :: t') with [] => if d =? 0 then [] else [d] | t'' => d :: t'' end).
    rewrite IH by (congruence || exact Hl). reflexivity.
Qed.

Lemma strip1_lval : forall ds, lval (strip1 ds) = lval ds.
Proof.
  induction ds as [|d t IH]; [reflexivity|].
  destruct t as [|e t'].
  - cbn [strip1]. destruct (Z.eqb_spec d 0); cbn [lval]; lia.
  - change (strip1 (d :: e :: t')) with (d :: strip1 (e :: t')). cbn [lval] in *. lia.
Qed.
Lemma strip1_dok : forall ds, dok ds -> dok (strip1 ds).
Proof.
  induction ds as [|d t IH]; intros H; [constructor|].
  apply dok_cons in H. destruct H as [Hd Ht]. specialize (IH Ht).
  destruct t as [|e t'].
  - cbn [strip1]. destruct (d =? 0); [constructor | apply dok_cons; auto using dok_nil].
  - change (strip1 (d :: e :: t')) with (d :: strip1 (e :: t')). apply dok_cons; auto.
Qed.
Lemma strip1_length : forall ds, (length (strip1 ds) <= length ds)%nat.
Proof.
  induction ds as [|d t IH]; [cbn; lia|].
  destruct t as [|e t'].
  - cbn [strip1]. destruct (d =? 0); cbn [length]; lia.
  - change (strip1 (d :: e :: t')) with (d :: strip1 (e :: t')). cbn [length] in *. lia.
Qed.

(* ------------------------------------------------------------------ normal forms *)
(* well-formed operand of the iint functions as bintXxx passes them: digits in range, at least one
   place, top place non-zero except for the one-place zero that xintStore(0) makes *)
Definition wf (ds : list Z) : Prop :=
  dok ds /\ ds <> [] /\ (2 <= len ds -> last ds 0 <> 0).
(* what xintImmedIfCan needs of an iint result *)
Definition res_ok (ds : list Z) : Prop := dok ds /\ (3 <= len ds -> last ds 0 <> 0).

Lemma norm_imm : forall n, norm (Imm n) <-> IMM_MIN <= n <= IMM_MAX.
Proof. intros n. unfold norm, normb, INT_IS_IMMED, IMM_MIN, IMM_MAX. lia. Qed.
Lemma norm_sto : forall neg ds, norm (Sto neg ds) <-> dok ds /\ last ds 0 <> 0 /\ IMM_MAX < lval ds.
Proof.
  intros neg ds. unfold norm, normb.
  rewrite !andb_true_iff, digits_ok_dok, negb_true_iff, Z.eqb_neq, Z.ltb_lt. tauto.
Qed.
Lemma norm_sto_len : forall neg ds, norm (Sto neg ds) -> 2 <= len ds.
Proof.
  intros neg ds H. apply norm_sto in H. destruct H as (Hd & Hl & Hv).
  pose proof (lval_bound ds Hd) as Hb. unfold len.
  destruct ds as [|a [|b t]]; cbn [length] in *.
  - cbn [lval] in Hv. unfold IMM_MAX in Hv. lia.
  - rewrite Rp_1 in Hb. unfold IMM_MAX, R in *. lia.
  - lia.
Qed.
Lemma norm_sto_wf : forall neg ds, norm (Sto neg ds) -> wf ds.
Proof.
  intros neg ds H. pose proof (norm_sto_len _ _ H) as Hl. apply norm_sto in H.
  destruct H as (Hd & Hn & Hv). repeat split; auto.
  intros ->. cbn in Hl. lia.
Qed.
Lemma wf_pos_len : forall ds, wf ds -> 1 <= len ds.
Proof. intros ds (_ & Hne & _). destruct ds; [congruence|]. rewrite len_cons. pose proof (len_nonneg ds). lia. Qed.

(* value lower bound of a well-formed list with at least two places *)
Lemma wf_ge : forall ds, wf ds -> 2 <= len ds -> Rp (length ds - 1) <= lval ds.
Proof. intros ds (Hd & Hne & Hl) H2. apply last_nz_ge; auto. Qed.

(* longer well-formed list => larger value *)
Lemma wf_len_lt : forall a b, wf a -> wf b -> len a < len b -> lval a < lval b.
Proof.
  intros a b Ha Hb Hl. pose proof (wf_pos_len a Ha) as Hpa.
  assert (H2 : 2 <= len b) by lia.
  pose proof (wf_ge b Hb H2) as Hge.
  destruct Ha as (Hda & _ & _). pose proof (lval_bound a Hda) as Hba.
  assert (Rp (length a) <= Rp (length b - 1)) by (apply Rp_mono; unfold len in *; lia).
  lia.
Qed.
Lemma wf_le_len : forall a b, wf a -> wf b -> lval a <= lval b -> len a <= len b.
Proof.
  intros a b Ha Hb Hv. destruct (Z_lt_le_dec (len b) (len a)) as [H|H]; [|exact H].
  pose proof (wf_len_lt b a Hb Ha H). lia.
Qed.

(* ------------------------------------------------------------------ the macros *)
Lemma PlusStep_spec : forall a b k, 0 <= a < R -> 0 <= b < R -> 0 <= k <= 1 ->
  snd (PlusStep a b k) + R * fst (PlusStep a b k) = a + b + k /\
  0 <= snd (PlusStep a b k) < R /\ 0 <= fst (PlusStep a b k) <= 1.
Proof.
  intros a b k Ha Hb Hk. unfold PlusStep. rewrite u64_id by (unfold W64, R in *; lia).
  destruct (Z.leb_spec R (a + b + k)); cbn [fst snd]; unfold R in *; lia.
Qed.
Lemma MinusStep_spec : forall a b k, 0 <= a < R -> 0 <= b < R -> 0 <= k <= 1 ->
  snd (MinusStep a b k) + R * fst (MinusStep a b k) = a + (R - 1 - b) + k /\
  0 <= snd (MinusStep a b k) < R /\ 0 <= fst (MinusStep a b k) <= 1.
Proof. intros a b k Ha Hb Hk. unfold MinusStep. apply PlusStep_spec; unfold R in *; lia. Qed.
Lemma mul_bound : forall a b, 0 <= a < R -> 0 <= b < R -> 0 <= a * b <= (R - 1) * (R - 1).
Proof. intros a b Ha Hb. split; [apply Z.mul_nonneg_nonneg; lia | apply Z.mul_le_mono_nonneg; lia]. Qed.
Lemma TimesStep_spec : forall a b c k, 0 <= a < R -> 0 <= b < R -> 0 <= c < R -> 0 <= k < R ->
  snd (TimesStep a b c k) + R * fst (TimesStep a b c k) = a * b + c + k /\
  0 <= snd (TimesStep a b c k) < R /\ 0 <= fst (TimesStep a b c k) < R.
Proof.
  intros a b c k Ha Hb Hc Hk. pose proof (mul_bound a b Ha Hb) as Hm. unfold TimesStep.
  rewrite u64_id by (unfold W64, R in *; lia). cbn [fst snd]. unfold R in *. lia.
Qed.
Lemma TimesDouble_spec : forall a b, 0 <= a < R -> 0 <= b < R ->
  snd (TimesDouble a b) + R * fst (TimesDouble a b) = a * b /\
  0 <= snd (TimesDouble a b) < R /\ 0 <= fst (TimesDouble a b) < R - 1.
Proof.
  intros a b Ha Hb. pose proof (mul_bound a b Ha Hb) as Hm. unfold TimesDouble.
  rewrite u64_id by (unfold W64, R in *; lia). cbn [fst snd]. unfold R in *. lia.
Qed.
Lemma DivideDouble_spec : forall nh nl d, 0 <= nh < d -> 0 <= nl < R -> 0 < d < R ->
  fst (DivideDouble nh nl d) * d + snd (DivideDouble nh nl d) = nh * R + nl /\
  0 <= snd (DivideDouble nh nl d) < d /\ 0 <= fst (DivideDouble nh nl d) < R.
Proof.
  intros nh nl d Hh Hl Hd. unfold DivideDouble.
  assert (Hn : 0 <= nh * R + nl < d * R) by (unfold R in *; nia).
  rewrite u64_id by (unfold W64, R in *; nia). cbn [fst snd].
  pose proof (Z.div_mod (nh * R + nl) d ltac:(lia)) as Hdm.
  pose proof (Z.mod_pos_bound (nh * R + nl) d ltac:(lia)) as Hmb.
  split; [lia|]. split; [lia|].
  split; [apply Z.div_pos; lia | apply Z.div_lt_upper_bound; lia].
Qed.
