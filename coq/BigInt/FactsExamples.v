(* C11 — the hypotheses of the property theorems are satisfiable by non-trivial values
   (stored and immediate operands, both signs), and what the theorems say about them. *)
Require Import ZArith List Bool Lia.
Require Import AV.BigInt.Model AV.BigInt.Facts AV.BigInt.FactsCmp AV.BigInt.FactsAdd AV.BigInt.FactsMul
               AV.BigInt.FactsBits AV.BigInt.FactsDivS AV.BigInt.FactsStr AV.BigInt.FactsScan
               AV.BigInt.FactsShift AV.BigInt.FactsPow AV.BigInt.FactsConv AV.BigInt.FactsDiv5
               AV.BigInt.FactsGcd AV.BigInt.FactsMod AV.BigInt.FactsPowMod AV.BigInt.FactsShiftRem
               AV.BigInt.FactsRepr AV.BigInt.FactsAll.
Import ListNotations.
Local Open Scope Z_scope.

(* a negative stored number of three places, a positive one of two, immediates at the boundary *)
Definition exA : bint := Sto true [4294967295; 0; 7].
Definition exB : bint := Sto false [1; 2147483648].
Definition exC : bint := Imm 4611686018427387903.
Definition exD : bint := Imm (-3).

Example exA_norm : norm exA. Proof. reflexivity. Qed.
Example exB_norm : norm exB. Proof. reflexivity. Qed.
Example exC_norm : norm exC. Proof. reflexivity. Qed.
Example exD_norm : norm exD. Proof. reflexivity. Qed.
Example exB_nonzero : val exB <> 0. Proof. discriminate. Qed.

(* plus_exact / minus_exact / times_exact: hypotheses norm a, norm b *)
Example ex_plus : val (bintPlus exC (Imm 1)) = 4611686018427387904 /\ bintPlus exC (Imm 1) = Sto false [0; 1073741824].
Proof. split; reflexivity. Qed.
Example ex_plus_thm : val (bintPlus exA exB) = val exA + val exB /\ norm (bintPlus exA exB).
Proof. exact (plus_exact exA exB exA_norm exB_norm). Qed.
Example ex_minus_thm : val (bintMinus exA exC) = val exA - val exC /\ norm (bintMinus exA exC).
Proof. exact (minus_exact exA exC exA_norm exC_norm). Qed.
Example ex_times_thm : val (bintTimes exA exD) = val exA * val exD /\ norm (bintTimes exA exD).
Proof. exact (times_exact exA exD exA_norm exD_norm). Qed.
(* negate / abs / comparisons / sign tests / length / bit *)
Example ex_negate_thm : val (bintNegate exA) = - val exA /\ norm (bintNegate exA).
Proof. exact (negate_exact exA exA_norm). Qed.
Example ex_abs_thm : val (bintAbs exD) = Z.abs (val exD) /\ norm (bintAbs exD).
Proof. exact (abs_exact exD exD_norm). Qed.
Example ex_lt_thm : bintLT exA exB = (val exA <? val exB).
Proof. exact (lt_exact exA exB exA_norm exB_norm). Qed.
Example ex_length : bintLength exA = 67. Proof. reflexivity. Qed.
Example ex_bit_thm : bintBit exA 64 = Z.testbit (Z.abs (val exA)) 64.
Proof. exact (bit_exact exA 64 exA_norm ltac:(lia)). Qed.
(* divide_exact / mod_exact: hypotheses norm a, norm b, val b <> 0 (Algorithm D path: two-place divisor) *)
Example ex_divide : bintDivide exA exB = (Imm (-14), Imm (-4294967281)).
Proof. vm_compute. reflexivity. Qed.
Example ex_divide_thm :
  val (fst (bintDivide exA exB)) = Z.quot (val exA) (val exB) /\ val (snd (bintDivide exA exB)) = Z.rem (val exA) (val exB).
Proof. pose proof (divide_exact exA exB exA_norm exB_norm exB_nonzero) as H. cbv zeta in H. tauto. Qed.
Example ex_mod_thm : exists r, bintMod exA exD = Some r /\ val r = Z.rem (val exA) (val exD) /\ norm r.
Proof. apply mod_exact; [exact exA_norm | exact exD_norm | discriminate]. Qed.
(* shift_exact *)
Example ex_shift : bintShift exD 70 = Sto true [0; 0; 192]. Proof. reflexivity. Qed.
Example ex_shift_thm : val (bintShift exA (-33)) = shift_val (val exA) (-33) /\ norm (bintShift exA (-33)).
Proof. exact (shift_exact exA (-33) exA_norm). Qed.
(* to_string_exact / fr_string_exact *)
Example ex_tostr : bintToString exA = Some [45;49;50;57;49;50;55;50;48;56;53;50;48;50;54;49;56;50;56;54;48;55].
Proof. vm_compute. reflexivity. Qed.
Example ex_frstr_hyps : alldig [48; 48; 49; 50] /\ [48; 48; 49; 50] <> [] /\ notdig_head [120].
Proof. split; [repeat constructor; unfold isdig; lia|]. split; [discriminate|]. cbn. unfold isdig. lia. Qed.
Example ex_frstr : bintScanFrString [45; 48; 48; 49; 50; 120] = (Imm (-12), [120]).
Proof. vm_compute. reflexivity. Qed.
(* gcd_exact / power_*_exact / conversions *)
Example ex_gcd_thm : exists g, fiBIntGcd exA exB = Some g /\ val g = Z.gcd (val exA) (val exB) /\ norm g.
Proof. exact (gcd_exact exA exB exA_norm exB_norm). Qed.
Example ex_power_hyps : 0 <= 40 < H63. Proof. unfold H63. lia. Qed.
Example ex_power : fiBIntSIPower exD 40 = Some (Sto false [689956897; 2830677074]).
Proof. vm_compute. reflexivity. Qed.
Example ex_to_long_hyps : Z.abs (val (Sto true [0; 1073741824])) < H63 /\ norm (Sto true [0; 1073741824]).
Proof. split; [unfold H63; cbn; lia | reflexivity]. Qed.

(* powermod_exact: hypotheses norm a b c, val c <> 0, 0 <= val b; exponent 0 with a unit modulus gives 0 *)
Example ex_powmod_unit : fiBIntPowerMod (Imm 5) (Imm 0) (Imm 1) = Some (Imm 0).
Proof. reflexivity. Qed.
Example ex_powmod_thm : exists r, fiBIntPowerMod exD exB exA = Some r /\ val r = Z.rem (val exD ^ val exB) (val exA) /\ norm r.
Proof. apply FactsPowMod.powermod_exact; [exact exD_norm | exact exB_norm | exact exA_norm | discriminate | discriminate]. Qed.

(* shiftrem_exact: hypotheses norm b, 0 <= val b, shiftrem_defined b n = true (and shiftrem_normal for the normal form) *)
Example ex_shiftrem_hyps : shiftrem_defined exB 40 = true /\ shiftrem_normal exB 40 = true /\ 0 <= val exB.
Proof. repeat split. discriminate. Qed.
Example ex_shiftrem : bintShiftRem exB 40 = Imm 1. Proof. reflexivity. Qed.
Example ex_shiftrem_thm : val (bintShiftRem (Sto false [4294967295; 4294967295; 4294967295]) 70) = (2 ^ 96 - 1) mod 2 ^ 70.
Proof. vm_compute. reflexivity. Qed.
(* "lowest n bits, in normal form" is REFUTED outside those hypotheses, on C-defined inputs (kept visible; the
   check reproduces these classes on the real code under the keys shiftrem:result-not-normalised and
   shiftrem:negative-operand; the other four keyed classes are outside what C defines, hence outside the model):
   - the result keeps high-order zero places: value 5 comes back allocated with three places *)
Example shiftrem_denormal_refuted :
  shiftrem_defined (Sto false [5; 0; 64]) 70 = true /\
  bintShiftRem (Sto false [5; 0; 64]) 70 = Sto false [5; 0; 0] /\ normb (Sto false [5; 0; 0]) = false.
Proof. repeat split. Qed.
(* - a negative allocated number loses its sign (bits of the magnitude), a negative immediate gives two's complement bits *)
Example shiftrem_negative_operand_refuted :
  bintShiftRem (Sto true [5; 0; 64]) 3 = Imm 5 /\ bintShiftRem (Imm (-5)) 3 = Imm 3.
Proof. split; reflexivity. Qed.

(* norm_unique / immed_if_can_repr *)
Example ex_unique_thm : bintPlus exA exB = bintPlus exB exA.
Proof. exact (proj1 (results_canonical exA exB exA_norm exB_norm)). Qed.
Example ex_immed_boundary :
  xintImmedIfCan (Sto true [4294967295; 1073741823]) = Imm (-4611686018427387903) /\
  xintImmedIfCan (Sto true [0; 1073741824]) = Sto true [0; 1073741824].
Proof. split; reflexivity. Qed.
Example ex_immed_hyps : res_ok [4294967295; 1073741823].
Proof. split; [repeat constructor; unfold R; lia | cbn; lia]. Qed.
(* frplacevS_exact / toplacevS_exact / placevS_roundtrip: an odd number of 16-bit places *)
Example ex_u16_hyps : u16ok [65535; 0; 1; 65535; 32768].
Proof. repeat constructor; lia. Qed.
Example ex_frplacevs_odd : bintFrPlacevS true [65535; 0; 1; 65535; 32768] = Sto true [65535; 4294901761; 32768].
Proof. reflexivity. Qed.
Example ex_toplacevs_odd : bintToPlacevS (Sto true [65535; 4294901761; 32768]) = [65535; 0; 1; 65535; 32768].
Proof. reflexivity. Qed.
Example ex_roundtrip_thm : bintFrPlacevS (bintIsNeg exA) (bintToPlacevS exA) = exA.
Proof. exact (placevS_roundtrip exA exA_norm). Qed.
