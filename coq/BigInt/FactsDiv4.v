(* C11 — iintDivide (normalise, D2-D7, unnormalise) and bintDivide are exact: truncated quotient,
   remainder with the sign of the dividend, a = q*b + r, |r| < |b|, results in normal form. *)
Require Import ZArith List Bool Lia ZifyBool.
Require Import AV.BigInt.Model AV.BigInt.Facts AV.BigInt.FactsCmp AV.BigInt.FactsAdd AV.BigInt.FactsMul
               AV.BigInt.FactsBits AV.BigInt.FactsDivS AV.BigInt.FactsShift AV.BigInt.FactsDiv
               AV.BigInt.FactsDiv2 AV.BigInt.FactsDiv3.
Import ListNotations.
Local Open Scope Z_scope.
Ltac Zify.zify_post_hook ::= Z.div_mod_to_equations.

(* D1: d = R/(v1+1) brings the top place of the divisor to at least R/2 and does not overflow it *)
Lemma norm_factor : forall v1, 1 <= v1 < R / 2 ->
  2 <= R / (v1 + 1) < R /\ (R / (v1 + 1)) * (v1 + 1) <= R /\ R <= 2 * ((R / (v1 + 1)) * v1).
Proof.
  intros v1 Hv. set (a := v1 + 1). set (d := R / a).
  assert (Ha : 2 <= a <= R / 2) by (unfold a; lia).
  assert (Hd : d * a <= R < d * a + a).
  { unfold d. pose proof (Z.div_mod R a ltac:(lia)) as DM. pose proof (Z.mod_pos_bound R a ltac:(lia)) as MB.
    rewrite (Z.mul_comm (R / a) a). lia. }
  assert (Hd2 : 2 <= d < R).
  { unfold d. split.
    - apply Z.div_le_lower_bound; [lia | unfold R in *; lia].
    - apply Z.div_lt_upper_bound; [lia | unfold R in *; lia]. }
  split; [exact Hd2|]. split; [lia|].
  replace (d * v1) with (d * a - d) by (unfold a; ring).
  destruct (Z.eq_dec a 2) as [E2|N2].
  - assert (d = 2147483648) by (unfold d; rewrite E2; reflexivity). rewrite E2. unfold R in *. lia.
  - clearbody d. clearbody a. destruct (Z.eq_dec d 2) as [Ed|Nd].
    + subst d. unfold R in *. lia.
    + assert (Hp : 0 <= (a - 3) * (d - 3)) by (apply Z.mul_nonneg_nonneg; lia).
      replace ((a - 3) * (d - 3)) with (d * a - 3 * a - 3 * d + 9) in Hp by ring.
      unfold R in *. lia.
Qed.

Lemma last_nth : forall (l : list Z), l <> [] -> last l 0 = nth (length l - 1) l 0.
Proof.
  induction l as [|x t IH]; intros H; [congruence|].
  destruct t as [|y t']; [reflexivity|].
  rewrite last_cons_cons. rewrite IH by congruence. cbn [length].
  replace (S (S (length t')) - 1)%nat with (S (length t')) by lia.
  replace (S (length t') - 1)%nat with (length t') by lia. reflexivity.
Qed.

Lemma wf_res_ok : forall ds, wf ds -> res_ok ds.
Proof. intros ds (D & N & L). split; [exact D|]. intros H3. apply L. lia. Qed.

(* scaling by d: exact, and for the divisor no new place *)
Lemma timesS_scale : forall a d, dok a -> 1 <= d < R ->
  lval (timesS_loop a d 0) = lval a * d /\ dok (timesS_loop a d 0) /\
  (length a <= length (timesS_loop a d 0) <= S (length a))%nat /\
  (a <> [] -> last a 0 <> 0 -> last (timesS_loop a d 0) 0 <> 0).
Proof.
  intros a d Da Hd. destruct (timesS_loop_spec a d 0 Da ltac:(lia) ltac:(unfold R; lia)) as (V & D & L & T).
  split; [lia|]. split; [exact D|]. split; [exact L|].
  intros Hne Hl. destruct T as [T|[T|[T|T]]]; [|congruence | exact T | lia].
  rewrite T in L. cbn [length] in L. destruct a; [congruence | cbn [length] in L; lia].
Qed.

(* the general case of iintDivide, after the two trivial cases *)
Lemma knuth_general : forall u v, wf u -> dok v -> (2 <= length v)%nat -> last v 0 <> 0 -> lval v <= lval u ->
  let n := len v in let nm := len u in let m := nm - n in
  let d := knuth_d u v in
  let u1 := if d =? 1 then u else iintTimesS u d in
  let v' := if d =? 1 then v else iintTimesS v d in
  let v1 := znth (n - 1) v' in let v2 := znth (n - 2) v' in
  let u2 := if len u1 =? nm then u1 ++ [0] else u1 in
  let lo := firstn (Z.to_nat m) u2 in let w := skipn (Z.to_nat m) u2 in
  let '(q, wf0) := divide_loop v' v1 v2 w (rev lo) [] in
  let '(r, _) := iintDivideS (firstn (Z.to_nat n) wf0) d in
  lval u = lval (strip q) * lval v + lval (strip r) /\ 0 <= lval (strip r) < lval v /\
  res_ok (strip q) /\ res_ok (strip r).
Proof.
  intros u v Wu Dv Hn Hlv Hle. cbv zeta.
  assert (Nv : v <> []) by (intros ->; cbn [length] in Hn; lia).
  assert (Wv : wf v) by (split; [exact Dv | split; [exact Nv | intros _; exact Hlv]]).
  pose proof (wf_le_len v u Wv Wu Hle) as Hlen.
  pose proof Wu as (Du & Nu & Lu).
  set (n := length v) in *.
  assert (En : len v = Z.of_nat n) by reflexivity.
  set (V := lval v) in *. set (U := lval u) in *.
  pose proof (last_nz_ge v Dv Nv Hlv) as VgeP. fold n V in VgeP.
  pose proof (lval_bound v Dv) as BV. fold n V in BV.
  pose proof (lval_bound u Du) as BU. fold U in BU.
  pose proof (dok_last v Dv Nv) as Bv1.
  (* the scaling factor *)
  set (d := knuth_d u v).
  assert (Hd : 1 <= d < R /\
              exists v', (if d =? 1 then v else iintTimesS v d) = v' /\ dok v' /\ length v' = n /\
                         lval v' = V * d /\ R <= 2 * nth (n - 1) v' 0).
  { unfold d, knuth_d. destruct (Z.leb_spec (R / 2) (last v 0)) as [Hbig|Hsmall].
    - split; [unfold R; lia|]. exists v. cbn [Z.eqb]. split; [reflexivity|]. split; [exact Dv|]. split; [reflexivity|].
      split; [lia|]. unfold n. rewrite <- last_nth by exact Nv. unfold R in *. lia.
    - destruct (norm_factor (last v 0) ltac:(lia)) as (Bd & Hov & Hhalf).
      rewrite toS_id by lia. set (dd := R / (last v 0 + 1)) in *.
      split; [lia|].
      assert (E1 : (dd =? 1) = false) by lia. rewrite E1.
      unfold iintTimesS. assert (E0 : (dd =? 0) = false) by lia. rewrite E0.
      destruct (timesS_scale v dd Dv ltac:(lia)) as (Vs & Ds & Ls & Ts).
      specialize (Ts Nv Hlv). fold V in Vs.
      (* V*dd < R^n *)
      destruct (lval_split_last v Nv) as (Esp & Lsp & Dsp). specialize (Dsp Dv).
      pose proof (lval_bound _ Dsp) as Blow. rewrite Lsp in Blow. fold n V in Esp, Blow.
      set (P1 := Rp (n - 1)) in *.
      assert (EP : Rp n = R * P1) by (unfold P1; replace n with (S (n - 1)) at 1 by lia; apply Rp_S).
      assert (Pp1 : 0 < P1) by apply Rp_pos.
      assert (Hlt : V * dd < Rp n).
      { assert (A : V < P1 * (last v 0 + 1)) by lia.
        assert (B : P1 * (last v 0 + 1) * dd <= P1 * R).
        { rewrite <- Z.mul_assoc. apply mul_mono_l; [lia|]. rewrite Z.mul_comm. exact Hov. }
        assert (C : V * dd < P1 * (last v 0 + 1) * dd) by (apply Z.mul_lt_mono_pos_r; lia).
        rewrite EP. lia. }
      assert (Ln : length (timesS_loop v dd 0) = n).
      { destruct (Nat.eq_dec (length (timesS_loop v dd 0)) n) as [E|E]; [exact E | exfalso].
        assert (E' : length (timesS_loop v dd 0) = S n) by (fold n in Ls; lia).
        assert (Nn : timesS_loop v dd 0 <> []) by (intros E2; rewrite E2 in E'; discriminate).
        pose proof (last_nz_ge _ Ds Nn Ts) as G. rewrite E' in G. replace (S n - 1)%nat with n in G by lia. lia. }
      exists (timesS_loop v dd 0). split; [reflexivity|]. split; [exact Ds|]. split; [exact Ln|]. split; [exact Vs|].
      (* new top place *)
      assert (Nn : timesS_loop v dd 0 <> []) by (intros E2; rewrite E2 in Ln; cbn [length] in Ln; lia).
      rewrite <- Ln. rewrite <- last_nth by exact Nn.
      destruct (lval_split_last _ Nn) as (Esp' & Lsp' & Dsp'). specialize (Dsp' Ds).
      pose proof (lval_bound _ Dsp') as Blow'. rewrite Lsp' in Blow'. rewrite Ln in Blow', Esp'. fold P1 in Blow', Esp'.
      set (t := last (timesS_loop v dd 0) 0) in *.
      assert (A : P1 * (last v 0 * dd) <= V * dd).
      { rewrite Z.mul_assoc. apply mul_mono_r_le; [lia|]. lia. }
      assert (B : P1 * (last v 0 * dd) < P1 * (t + 1)) by lia.
      assert (Cc : last v 0 * dd < t + 1).
      { apply Z.mul_lt_mono_pos_l in B; [exact B | exact Pp1]. }
      rewrite (Z.mul_comm dd (last v 0)) in Hhalf. lia. }
  destruct Hd as (Bd & v' & Ev' & Dv' & Lv' & Vv' & Hv1').
  rewrite Ev'. clear Ev'.
  (* the scaled dividend *)
  assert (Hu1 : exists u1, (if d =? 1 then u else iintTimesS u d) = u1 /\ dok u1 /\ lval u1 = U * d /\
                          (length u <= length u1 <= S (length u))%nat).
  { destruct (Z.eqb_spec d 1) as [E1|N1].
    - exists u. rewrite E1. split; [reflexivity|]. split; [exact Du|]. split; [lia | lia].
    - unfold iintTimesS. assert (E0 : (d =? 0) = false) by lia. rewrite E0.
      destruct (timesS_scale u d Du Bd) as (Vs & Ds & Ls & _).
      exists (timesS_loop u d 0). split; [reflexivity|]. split; [exact Ds|]. split; [exact Vs | exact Ls]. }
  destruct Hu1 as (u1 & Eu1 & Du1 & Vu1 & Lu1). rewrite Eu1. clear Eu1.
  set (nm := length u) in *.
  assert (Hu2 : exists u2, (if len u1 =? len u then u1 ++ [0] else u1) = u2 /\ dok u2 /\ lval u2 = U * d /\
                          length u2 = S nm).
  { unfold len. fold nm. destruct (Z.eqb_spec (Z.of_nat (length u1)) (Z.of_nat nm)) as [E|E].
    - exists (u1 ++ [0]). split; [reflexivity|]. split.
      + apply dok_app. split; [exact Du1|]. apply dok_cons. split; [unfold R; lia | apply dok_nil].
      + split; [rewrite lval_app; cbn [lval]; lia | rewrite app_length; cbn [length]; lia].
    - exists u1. split; [reflexivity|]. split; [exact Du1|]. split; [exact Vu1 | lia]. }
  destruct Hu2 as (u2 & Eu2 & Du2 & Vu2 & Lu2). rewrite Eu2. clear Eu2.
  assert (Em : Z.to_nat (len u - len v) = (nm - n)%nat) by (unfold len; fold nm n; lia).
  rewrite Em.
  assert (Hmn : (n <= nm)%nat) by (unfold len in Hlen; fold nm n in Hlen; lia).
  set (m := (nm - n)%nat) in *.
  pose proof (dok_firstn m u2 Du2) as Dlo. pose proof (dok_skipn m u2 Du2) as Dw.
  assert (Lw : length (skipn m u2) = S (length v')) by (rewrite skipn_length, Lu2, Lv'; unfold m; lia).
  pose proof (lval_firstn_skipn m u2 ltac:(rewrite Lu2; unfold m; lia)) as Esplit.
  pose proof (lval_bound _ Dlo) as Blo. rewrite firstn_length in Blo.
  replace (Nat.min m (length u2)) with m in Blo by (rewrite Lu2; unfold m; lia).
  set (lo := firstn m u2) in *. set (w := skipn m u2) in *.
  assert (Pm : 0 < Rp m) by apply Rp_pos.
  (* the first window is below v'*R *)
  assert (HWV : lval w < lval v' * R).
  { rewrite Vv'.
    assert (A : U * d < Rp nm * d) by (apply Z.mul_lt_mono_pos_r; lia).
    assert (ERp : Rp nm = Rp m * Rp n) by (rewrite <- Rp_add; f_equal; unfold m; lia).
    assert (B : Rp m * lval w < Rp m * (Rp n * d)) by (rewrite Z.mul_assoc, <- ERp; lia).
    apply Z.mul_lt_mono_pos_l in B; [|exact Pm].
    assert (EP : Rp n = R * Rp (n - 1)) by (replace n with (S (n - 1)) at 1 by lia; apply Rp_S).
    assert (Cc : Rp (n - 1) * d <= V * d) by (apply mul_mono_r_le; lia).
    rewrite EP in B. unfold R in *. lia. }
  (* the loop *)
  assert (Ez1 : znth (len v - 1) v' = nth (length v' - 1) v' 0).
  { unfold znth. destruct (Z.ltb_spec (len v - 1) 0); [unfold len in *; lia|]. f_equal. unfold len. lia. }
  assert (Ez2 : znth (len v - 2) v' = nth (length v' - 2) v' 0).
  { unfold znth. destruct (Z.ltb_spec (len v - 2) 0); [unfold len in *; lia|]. f_equal. unfold len. lia. }
  rewrite Ez1, Ez2. rewrite <- Lv' in Hv1'.
  destruct (divide_loop_spec (rev lo) v' w [] Dv' ltac:(lia) Hv1' Dw Lw HWV)
    as (qs & wf0 & Eq & Lq & Dq & Ev & Bwf & Dwf & Lwf).
  { unfold dok. apply Forall_rev. exact Dlo. }
  rewrite Eq. rewrite app_nil_r. rewrite rev_involutive in Ev.
  unfold lo, w in Ev. rewrite firstn_skipn in Ev. rewrite Vu2, Vv' in Ev. rewrite Vv' in Bwf.
  (* unnormalise *)
  assert (En' : Z.to_nat (len v) = n) by (unfold len; fold n; lia). rewrite En'.
  pose proof (lval_bound _ Dv') as BV'. rewrite Lv', Vv' in BV'.
  destruct (firstn_lval_small n wf0 Dwf ltac:(lia)) as (Ef & Df).
  unfold iintDivideS.
  destruct (divS_loop_spec (firstn n wf0) d Df ltac:(lia)) as (Vd & Br & Dd & _).
  destruct (divS_loop (firstn n wf0) d) as [qr rem]. cbn [fst snd] in *.
  rewrite !strip_lval, strip1_lval. rewrite Ef in Vd.
  assert (Erem : rem = 0).
  { assert (Ed : rem = d * (U - lval qs * V - lval qr)) by (rewrite Z.mul_sub_distr_l, Z.mul_sub_distr_l; lia).
    set (zz := U - lval qs * V - lval qr) in *.
    destruct (Z_le_gt_dec zz 0) as [Hz|Hz].
    - assert (d * zz <= d * 0) by (apply mul_mono_l; lia). lia.
    - assert (d * 1 <= d * zz) by (apply mul_mono_l; lia). lia. }
  subst rem.
  assert (Eq2 : d * U = d * (lval qs * V + lval qr)) by (rewrite Z.mul_add_distr_l; lia).
  apply Z.mul_reg_l in Eq2; [|lia].
  assert (Hlt : d * lval qr < d * V) by lia.
  apply Z.mul_lt_mono_pos_l in Hlt; [|lia].
  pose proof (lval_bound _ Dd).
  split; [lia|]. split; [lia|].
  split; [apply strip_res_ok; exact Dq | apply strip_res_ok; apply strip1_dok; exact Dd].
Qed.
