(* C11 — bintShiftRem ("lowest n bits") on the inputs on which the C is defined (Model.shiftrem_defined). *)
Require Import ZArith List Bool Lia ZifyBool.
Require Import AV.BigInt.Model AV.BigInt.Facts AV.BigInt.FactsCmp AV.BigInt.FactsAdd AV.BigInt.FactsBits
               AV.BigInt.FactsShift AV.BigInt.FactsDiv AV.BigInt.FactsDiv3.
Import ListNotations.
Local Open Scope Z_scope.
Ltac Zify.zify_post_hook ::= Z.div_mod_to_equations.

(* the result keeps the normal form when it has at most two places or its top place is not masked to 0 *)
Definition shiftrem_normal (b : bint) (n : Z) : bool :=
  match b with
  | Imm _ => true
  | Sto _ ds => let pa := QUO_ROUND_UP n LG in
                (pa <=? 2) || negb (Z.land (znth (pa - 1) ds) (Z.ones (n - LG * (pa - 1))) =? 0)
  end.

Lemma low_bits_split : forall L P d rest top, 0 <= L < P -> 0 <= d < R -> 0 <= rest -> 1 <= top <= 32 ->
  (L + P * (d + R * rest)) mod (P * 2 ^ top) = L + P * (d mod 2 ^ top).
Proof.
  intros L P d rest top HL Hd Hr Ht.
  assert (Pt : 0 < 2 ^ top) by (apply pow2_pos; lia).
  assert (ER : R = 2 ^ top * 2 ^ (32 - top)) by (rewrite <- Z.pow_add_r by lia; replace (top + (32 - top)) with 32 by lia; reflexivity).
  pose proof (Z.div_mod d (2 ^ top) ltac:(lia)) as DM. pose proof (Z.mod_pos_bound d (2 ^ top) Pt) as MB.
  symmetry. apply (Z.mod_unique _ _ (d / 2 ^ top + 2 ^ (32 - top) * rest)).
  - left. split; [nia|]. assert (P * (d mod 2 ^ top) <= P * (2 ^ top - 1)) by (apply mul_mono_l; lia). lia.
  - rewrite ER. rewrite DM at 1. ring.
Qed.

Theorem shiftrem_exact : forall b n, norm b -> 0 <= val b -> shiftrem_defined b n = true ->
  val (bintShiftRem b n) = val b mod 2 ^ n /\ (shiftrem_normal b n = true -> norm (bintShiftRem b n)).
Proof.
  intros [x|neg ds] n Nb Hpos Hdef.
  - cbn [shiftrem_defined] in Hdef. cbn [val bintShiftRem] in *.
    rewrite Z.land_ones by lia.
    assert (Pn : 0 < 2 ^ n) by (apply pow2_pos; lia).
    assert (P30 : 2 ^ n <= 2 ^ 30) by (apply Z.pow_le_mono_r; lia). change (2 ^ 30) with 1073741824 in P30.
    pose proof (Z.mod_pos_bound x (2 ^ n) Pn) as MB.
    destruct (IntToBInt_norm (x mod 2 ^ n)) as (E & N); [unfold IMM_MIN, IMM_MAX; lia|].
    rewrite E. split; [reflexivity | intros _; exact N].
  - pose proof (norm_sto_len _ _ Nb) as L2. pose proof Nb as Nb'. apply norm_sto in Nb'.
    destruct Nb' as (Dd & Ld & Vd). unfold IMM_MAX in Vd.
    assert (Eneg : neg = false) by (destruct neg; [cbn [val] in Hpos; lia | reflexivity]). subst neg.
    cbn [shiftrem_defined] in Hdef. unfold LG in *.
    assert (Hn : 1 <= n) by lia.
    pose proof (QUO_ROUND_UP_pos n ltac:(lia)) as HQ.
    set (pa := QUO_ROUND_UP n 32) in *. set (top := n - 32 * (pa - 1)) in *.
    assert (Hpa : 1 <= pa <= len ds) by lia. assert (Htop : 1 <= top <= 30) by (unfold top; lia).
    cbn [val bintShiftRem]. unfold LG. fold pa. fold top.
    set (j := Z.to_nat (pa - 1)).
    assert (Hj : (j < length ds)%nat) by (unfold j, len in *; lia).
    pose proof (lval_firstn_skipn j ds ltac:(lia)) as Esp.
    rewrite (skipn_nth ds j Hj) in Esp. cbn [lval] in Esp.
    assert (Ez : znth (pa - 1) ds = nth j ds 0) by (unfold znth, j; destruct (Z.ltb_spec (pa - 1) 0); [lia | reflexivity]).
    rewrite Ez. set (d := nth j ds 0) in *.
    pose proof (dok_nth ds j Dd) as Bd. fold d in Bd.
    pose proof (lval_bound _ (dok_firstn j ds Dd)) as BL. rewrite firstn_length in BL.
    replace (Nat.min j (length ds)) with j in BL by lia.
    pose proof (lval_bound _ (dok_skipn (S j) ds Dd)) as Brest.
    rewrite Z.land_ones by lia.
    assert (Pt : 0 < 2 ^ top) by (apply pow2_pos; lia).
    pose proof (Z.mod_pos_bound d (2 ^ top) Pt) as MB.
    assert (P32 : 2 ^ top <= 2 ^ 32) by (apply Z.pow_le_mono_r; lia). change (2 ^ 32) with R in P32.
    assert (Dr : dok (firstn j ds ++ [d mod 2 ^ top])).
    { apply dok_app. split; [apply dok_firstn; exact Dd|]. apply dok_cons. split; [lia | apply dok_nil]. }
    assert (Vr : lval (firstn j ds ++ [d mod 2 ^ top]) = lval ds mod 2 ^ n).
    { rewrite lval_app, firstn_length. replace (Nat.min j (length ds)) with j by lia. cbn [lval].
      rewrite Esp.
      assert (E2n : 2 ^ n = Rp j * 2 ^ top).
      { rewrite Rp_pow2, <- Z.pow_add_r by lia. f_equal. unfold top, j. lia. }
      rewrite E2n.
      assert (Ht32 : 1 <= top <= 32) by (clear - Htop; lia).
      rewrite (low_bits_split _ _ _ _ _ BL Bd (proj1 Brest) Ht32). ring. }
    assert (Lr : len (firstn j ds ++ [d mod 2 ^ top]) = pa).
    { unfold len. rewrite app_length, firstn_length. cbn [length]. unfold j. lia. }
    split.
    + assert (Rk : res_ok (firstn j ds ++ [d mod 2 ^ top]) \/ True) by (right; exact I).
      (* the value does not depend on the normal form: case split on the number of places *)
      destruct (Z_le_gt_dec pa 2) as [H2|H3].
      * assert (Rk2 : res_ok (firstn j ds ++ [d mod 2 ^ top])).
        { split; [exact Dr|]. intros H. exfalso. rewrite Lr in H. clear - H H2. lia. }
        destruct (xintImmedIfCan_ok false _ Rk2) as (V & _).
        rewrite V. cbn [val]. exact Vr.
      * (* three or more places: xintImmedIfCan returns its argument *)
        assert (E : xintImmedIfCan (Sto false (firstn j ds ++ [d mod 2 ^ top])) = Sto false (firstn j ds ++ [d mod 2 ^ top])).
        { destruct (firstn j ds ++ [d mod 2 ^ top]) as [|a0 [|a1 [|a2 t]]] eqn:El; try reflexivity;
            rewrite ?len_nil, ?len_cons in Lr; cbn in Lr; clear - Lr H3; lia. }
        rewrite E. cbn [val]. exact Vr.
    + intros Hnorm. cbn [shiftrem_normal] in Hnorm. unfold LG in Hnorm. fold pa top in Hnorm.
      rewrite Ez, Z.land_ones in Hnorm by lia.
      assert (Rk : res_ok (firstn j ds ++ [d mod 2 ^ top])).
      { split; [exact Dr|]. intros H3. rewrite Lr in H3. rewrite last_last.
        destruct (Z.leb_spec pa 2) as [Hle|Hgt]; [clear - Hle H3; lia|]. cbn [orb] in Hnorm.
        destruct (Z.eqb_spec (d mod 2 ^ top) 0) as [E0|N0]; [discriminate | exact N0]. }
      destruct (xintImmedIfCan_ok false _ Rk) as (_ & N). exact N.
Qed.
