(* C11 — Knuth D: the estimate loop, one full step D3-D6, and the loop D2-D7. *)
Require Import ZArith List Bool Lia ZifyBool.
Require Import AV.BigInt.Model AV.BigInt.Facts AV.BigInt.FactsCmp AV.BigInt.FactsAdd AV.BigInt.FactsMul
               AV.BigInt.FactsBits AV.BigInt.FactsDivS AV.BigInt.FactsShift AV.BigInt.FactsDiv.
Import ListNotations.
Local Open Scope Z_scope.
Ltac Zify.zify_post_hook ::= Z.div_mod_to_equations.

Section Ctx.
  Variables W V Wl Vl P T3 T2 q uj0 uj1 uj2 v1 v2 : Z.
  Hypothesis C : ectx W V Wl Vl P T3 T2 q uj0 uj1 uj2 v1 v2.

  Let c_q_range := est_q_range _ _ _ _ _ _ _ _ _ _ _ _ _ C.
  Let c_uj0_le := est_uj0_le _ _ _ _ _ _ _ _ _ _ _ _ _ C.
  Let c_too_big := est_too_big _ _ _ _ _ _ _ _ _ _ _ _ _ C.
  Let c_close := est_close _ _ _ _ _ _ _ _ _ _ _ _ _ C.
  Let c_first := est_first _ _ _ _ _ _ _ _ _ _ _ _ _ C.
  Let c_overflow := est_overflow _ _ _ _ _ _ _ _ _ _ _ _ _ C.

  Lemma TestGT_spec : forall h1 l1 h2 l2, 0 <= l1 < R -> 0 <= l2 < R ->
    TestGTDouble h1 l1 h2 l2 = (h2 * R + l2 <? h1 * R + l1).
  Proof. intros h1 l1 h2 l2 H1 H2. unfold TestGTDouble. unfold R in *. lia. Qed.

  (* D3: the correction loop *)
  Lemma qhat_fix_spec : forall fuel qhat rhat,
    0 <= qhat < R -> 0 <= rhat < R -> rhat = uj0 * R + uj1 - qhat * v1 -> q <= qhat -> R <= 2 * v1 ->
    ((2 <= fuel)%nat \/ ((1 <= fuel)%nat /\ R - v1 <= rhat)) ->
    q <= qhat_fix fuel qhat rhat v1 v2 uj2 <= q + 1 /\ qhat_fix fuel qhat rhat v1 v2 uj2 <= qhat.
  Proof.
    pose proof C as (H1&H2&H3&H4&H5&H6&H7&H8&H9&H10&H11&H12&H13).
    induction fuel as [|f IH]; intros qhat rhat Hq Hr Er Hge Hv1 Hf; [lia|].
    cbn [qhat_fix].
    pose proof (TimesDouble_spec v2 qhat H11 Hq) as (E1 & Hl & Hh).
    destruct (TimesDouble v2 qhat) as [hh hl]. cbn [fst snd] in *.
    rewrite TestGT_spec by assumption.
    destruct (Z.ltb_spec (rhat * R + uj2) (hh * R + hl)) as [GT|LE].
    - assert (Hbig : T3 < qhat * T2) by (rewrite H5, H6; rewrite Er in GT; unfold R in *; lia).
      pose proof (c_too_big qhat ltac:(lia) Hbig) as Hlt.
      pose proof c_q_range as Hqr.
      rewrite (toS_id (qhat - 1)) by lia.
      pose proof (PlusStep_spec rhat v1 0 Hr ltac:(lia) ltac:(lia)) as (E2 & Hrh & Hk).
      destruct (PlusStep rhat v1 0) as [k rh]. cbn [fst snd] in *.
      destruct (Z.eqb_spec k 0) as [->|Hk1].
      + rewrite (toS_id rh) by exact Hrh.
        destruct (IH (qhat - 1) rh ltac:(lia) Hrh ltac:(unfold R in *; lia) ltac:(lia) Hv1) as (A & B).
        * destruct Hf as [Hf|(Hf1 & Hf2)]; [right; split; [lia | unfold R in *; lia] | unfold R in *; lia].
        * split; [exact A | lia].
      + assert (k = 1) by lia. subst k.
        assert (Hov : R <= uj0 * R + uj1 - (qhat - 1) * v1) by (unfold R in *; lia).
        pose proof (c_overflow (qhat - 1) ltac:(lia) Hov) as HP.
        pose proof (c_close (qhat - 1) ltac:(lia) HP). lia.
    - assert (HP : qhat * T2 <= T3) by (rewrite H5, H6; rewrite Er in LE; unfold R in *; lia).
      pose proof (c_close qhat Hq HP). lia.
  Qed.

  Lemma qhat_of_spec : R <= 2 * v1 ->
    q <= qhat_of uj0 uj1 uj2 v1 v2 <= q + 1 /\ 0 <= qhat_of uj0 uj1 uj2 v1 v2 < R.
  Proof.
    intros Hv1. pose proof C as (H1&H2&H3&H4&H5&H6&H7&H8&H9&H10&H11&H12&H13).
    pose proof c_q_range as Hqr. pose proof c_uj0_le as Hle.
    unfold qhat_of. destruct (Z.eqb_spec uj0 v1) as [Eq|Ne].
    - pose proof (PlusStep_spec uj1 v1 0 H8 ltac:(lia) ltac:(lia)) as (E2 & Hrh & Hk).
      destruct (PlusStep uj1 v1 0) as [k rh]. cbn [fst snd] in *.
      destruct (Z.eqb_spec k 0) as [->|Hk1].
      + rewrite (toS_id rh) by exact Hrh.
        destruct (qhat_fix_spec 2 (R - 1) rh ltac:(unfold R; lia) Hrh ltac:(subst uj0; unfold R in *; lia)
                    ltac:(lia) Hv1 ltac:(left; lia)) as (A & B).
        split; [exact A|]. split; [lia | unfold R in *; lia].
      + assert (k = 1) by lia. subst k.
        assert (Hov : R <= uj0 * R + uj1 - (R - 1) * v1) by (subst uj0; unfold R in *; lia).
        pose proof (c_overflow (R - 1) ltac:(unfold R; lia) Hov) as HP.
        pose proof (c_close (R - 1) ltac:(unfold R; lia) HP). split; [lia | unfold R in *; lia].
    - pose proof (DivideDouble_spec uj0 uj1 v1 ltac:(lia) H8 ltac:(lia)) as (E & Hr & Hq).
      destruct (DivideDouble uj0 uj1 v1) as [qh rh]. cbn [fst snd] in *.
      rewrite (toS_id qh) by exact Hq. rewrite (toS_id rh) by lia.
      pose proof (c_first qh rh E Hr) as Hge.
      destruct (qhat_fix_spec 2 qh rh Hq ltac:(lia) ltac:(lia) Hge Hv1 ltac:(left; lia)) as (A & B).
      split; [exact A | lia].
  Qed.
End Ctx.
