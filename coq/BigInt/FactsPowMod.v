(* C11 — fiBIntPowerMod: the remainder (sign of the dividend) of the exact power, for every exponent >= 0
   and every non-zero modulus (exponent 0: the code answers bintMod(1, c)). *)
Require Import ZArith List Bool Lia ZifyBool.
Require Import AV.BigInt.Model AV.BigInt.Facts AV.BigInt.FactsCmp AV.BigInt.FactsAdd AV.BigInt.FactsMul
               AV.BigInt.FactsBits AV.BigInt.FactsShift AV.BigInt.FactsPow AV.BigInt.FactsGcd AV.BigInt.FactsMod.
Import ListNotations.
Local Open Scope Z_scope.
Ltac Zify.zify_post_hook ::= Z.div_mod_to_equations.

Lemma rem_mul_rem : forall x y c, c <> 0 -> Z.rem (Z.rem x c * Z.rem y c) c = Z.rem (x * y) c.
Proof. intros x y c Hc. rewrite Z.mul_rem_idemp_l, Z.mul_rem_idemp_r by exact Hc. reflexivity. Qed.

Lemma rem_1 : forall c, 2 <= Z.abs c -> Z.rem 1 c = 1.
Proof.
  intros c Hc. destruct (Z_lt_le_dec c 0) as [L|L].
  - replace c with (- (- c)) by lia. rewrite Z.rem_opp_r by lia. apply Z.rem_small. lia.
  - apply Z.rem_small. lia.
Qed.

Lemma powmod_loop_spec : forall fuel i l bit e pv av c P A,
  0 <= e < 2 ^ l -> 0 <= i <= l -> fuel = Z.to_nat (l - i) ->
  (forall j, 0 <= j -> bit j = Z.testbit e j) -> norm pv -> norm av -> norm c -> val c <> 0 ->
  val pv = Z.rem P (val c) -> val av = Z.rem A (val c) ->
  exists r, powmod_loop fuel i l bit (Some pv) (Some av) c = Some r /\
            val r = Z.rem (P * A ^ (e / 2 ^ i)) (val c) /\ norm r.
Proof.
  induction fuel as [|f IH]; intros i l bit e pv av c P A He Hi Hf Hbit Np Na Nc Hc Vp Va.
  - assert (i = l) by lia. subst i. cbn [powmod_loop]. rewrite Hbit by lia.
    assert (E0 : e / 2 ^ l = 0) by (apply Z.div_small; lia).
    assert (Eb : Z.testbit e l = false) by (apply Z.testbit_false; [lia | rewrite E0; reflexivity]).
    rewrite Eb, E0. exists pv. split; [reflexivity|]. split; [|exact Np].
    change (A ^ 0) with 1. rewrite Z.mul_1_r. exact Vp.
  - cbn [powmod_loop]. rewrite Hbit by lia.
    destruct (Z.leb_spec l i) as [Hle|Hlt]; [lia|].
    (* the new p *)
    assert (Hp' : exists pv', (if Z.testbit e i then bintMod (bintTimes pv av) c else Some pv) = Some pv' /\
                              val pv' = Z.rem (P * A ^ Z.b2z (Z.testbit e i)) (val c) /\ norm pv').
    { destruct (Z.testbit e i); cbn [Z.b2z].
      - destruct (times_exact pv av Np Na) as (Vt & Nt).
        destruct (mod_exact (bintTimes pv av) c Nt Nc Hc) as (r & Er & Vr & Nr).
        exists r. split; [exact Er|]. split; [|exact Nr].
        rewrite Vr, Vt, Vp, Va, rem_mul_rem by exact Hc. rewrite Z.pow_1_r. reflexivity.
      - exists pv. split; [reflexivity|]. split; [|exact Np]. change (A ^ 0) with 1. rewrite Z.mul_1_r. exact Vp. }
    destruct Hp' as (pv' & Ep' & Vp' & Np'). rewrite Ep'.
    destruct (times_exact av av Na Na) as (Vt & Nt).
    destruct (mod_exact (bintTimes av av) c Nt Nc Hc) as (av' & Ea' & Va' & Na').
    rewrite Ea'.
    assert (Va2 : val av' = Z.rem (A * A) (val c)) by (rewrite Va', Vt, Va, rem_mul_rem by exact Hc; reflexivity).
    destruct (IH (i + 1) l bit e pv' av' c (P * A ^ Z.b2z (Z.testbit e i)) (A * A)
                He ltac:(lia) ltac:(lia) Hbit Np' Na' Nc Hc Vp' Va2) as (r & Er & Vr & Nr).
    exists r. split; [exact Er|]. split; [|exact Nr]. rewrite Vr. f_equal.
    rewrite (bit_div2 e i) by lia.
    assert (0 <= e / 2 ^ (i + 1)) by (apply Z.div_pos; [lia | apply pow2_pos; lia]).
    rewrite (Z.pow_add_r A) by (try lia; destruct (Z.testbit e i); cbn; lia).
    rewrite (Z.pow_mul_r A) by lia. rewrite Z.pow_2_r. ring.
Qed.

Theorem powermod_exact : forall a b c, norm a -> norm b -> norm c -> val c <> 0 -> 0 <= val b ->
  exists r, fiBIntPowerMod a b c = Some r /\ val r = Z.rem (val a ^ val b) (val c) /\ norm r.
Proof.
  intros a b c Na Nb Nc Hc Hb. unfold fiBIntPowerMod.
  destruct (sign_tests_exact c Nc) as (_ & Ezc & _). rewrite Ezc.
  destruct (Z.eqb_spec (val c) 0); [lia|].
  destruct (sign_tests_exact b Nb) as (Enb & Ezb & _). rewrite Ezb.
  assert (N1 : norm bint1) by (apply norm_imm; unfold IMM_MIN, IMM_MAX; lia).
  destruct (Z.eqb_spec (val b) 0) as [E0|Nz].
  - destruct (mod_exact bint1 c N1 Nc Hc) as (r & Er & Vr & Nr).
    exists r. split; [exact Er|]. split; [|exact Nr]. rewrite Vr, E0. reflexivity.
  - destruct (mod_exact a c Na Nc Hc) as (reda & Er & Vr & Nr). rewrite Er.
    destruct (sign_tests_exact reda Nr) as (_ & Ezr & _). rewrite Ezr.
    destruct (Z.eqb_spec (val reda) 0) as [Er0|Nr0].
    + exists bint0. split; [reflexivity|]. split; [|exact norm_bint0]. cbn [val bint0].
      replace (val b) with (Z.succ (val b - 1)) by lia. rewrite Z.pow_succ_r by lia.
      rewrite <- Z.mul_rem_idemp_l by exact Hc. rewrite <- Vr, Er0. rewrite Z.mul_0_l. symmetry. apply Z.rem_0_l. exact Hc.
    + rewrite Enb. destruct (Z.ltb_spec (val b) 0); [lia|].
      rewrite (length_exact b Nb). rewrite Z.abs_eq by lia.
      destruct (bitlen_bounds (val b) Hb) as (L1 & L2 & _).
      assert (Hbit : forall j, 0 <= j -> bintBit b j = Z.testbit (val b) j).
      { intros j Hj. rewrite bit_exact by assumption. rewrite Z.abs_eq by lia. reflexivity. }
      assert (Hc2 : 2 <= Z.abs (val c)).
      { destruct (Z_le_gt_dec 2 (Z.abs (val c))) as [Hge2|Hlt2]; [exact Hge2 | exfalso].
        apply Nr0. rewrite Vr. pose proof (Z.rem_bound_abs (val a) (val c) Hc). lia. }
      assert (V1 : val bint1 = Z.rem 1 (val c)) by (cbn [val bint1]; symmetry; apply rem_1; exact Hc2).
      destruct (powmod_loop_spec (Z.to_nat (bitlen (val b))) 0 (bitlen (val b)) (bintBit b) (val b) bint1 reda c 1 (val a)
                  ltac:(lia) ltac:(lia) ltac:(f_equal; lia) Hbit N1 Nr Nc Hc V1 Vr) as (r & E & V & N).
      exists r. split; [exact E|]. split; [|exact N]. rewrite V.
      change (2 ^ 0) with 1. rewrite Z.div_1_r, Z.mul_1_l. reflexivity.
Qed.
