(* C11 — the immediate/allocated representation: uniqueness of the normal form, xintImmedIfCan's symmetric
   range, and the 16-bit place conversions bintFrPlacevS / bintToPlacevS for every count (odd counts included). *)
Require Import ZArith List Bool Lia ZifyBool.
Require Import AV.BigInt.Model AV.BigInt.Facts AV.BigInt.FactsCmp AV.BigInt.FactsAdd AV.BigInt.FactsBits
               AV.BigInt.FactsShift AV.BigInt.FactsConv.
Import ListNotations.
Local Open Scope Z_scope.
Ltac Zify.zify_post_hook ::= Z.div_mod_to_equations.

(* ------------------------------------------------------------------ one representation per integer *)
Theorem norm_unique : forall a b, norm a -> norm b -> val a = val b -> a = b.
Proof.
  intros [x|na da] [y|nb db] Na Nb E.
  - cbn [val] in E. congruence.
  - apply norm_imm in Na. destruct (sto_val_big _ _ Nb) as [(_ & H)|(_ & H)]; unfold IMM_MIN, IMM_MAX in *; cbn [val] in *; lia.
  - apply norm_imm in Nb. destruct (sto_val_big _ _ Na) as [(_ & H)|(_ & H)]; unfold IMM_MIN, IMM_MAX in *; cbn [val] in *; lia.
  - pose proof (norm_sto_wf _ _ Na) as Wa. pose proof (norm_sto_wf _ _ Nb) as Wb.
    apply norm_sto in Na. apply norm_sto in Nb. destruct Na as (Da & _ & Va), Nb as (Db & _ & Vb).
    unfold IMM_MAX in *. cbn [val] in E.
    assert (Es : na = nb) by (destruct na, nb; try reflexivity; lia). subst nb.
    assert (El : lval da = lval db) by (destruct na; lia).
    assert (Elen : len da = len db).
    { destruct (Z_lt_le_dec (len da) (len db)) as [L|L]; [pose proof (wf_len_lt _ _ Wa Wb L); lia|].
      destruct (Z_lt_le_dec (len db) (len da)) as [L'|L']; [pose proof (wf_len_lt _ _ Wb Wa L'); lia | lia]. }
    f_equal. apply lval_inj; auto. unfold len in Elen. lia.
Qed.

(* xintImmedIfCan: immediate exactly on the symmetric range |v| <= 2^62-1, allocated exactly outside it *)
Theorem immed_if_can_repr : forall neg ds, res_ok ds ->
  let r := xintImmedIfCan (Sto neg ds) in
  val r = val (Sto neg ds) /\ norm r /\ (bintIsSmall r = true <-> lval ds <= IMM_MAX).
Proof.
  intros neg ds Rk. cbv zeta. destruct (xintImmedIfCan_ok neg ds Rk) as (V & N).
  split; [exact V|]. split; [exact N|].
  destruct Rk as (Dd & _). pose proof (lval_bound ds Dd) as B.
  destruct (xintImmedIfCan (Sto neg ds)) as [x|n' d'].
  - apply norm_imm in N. unfold IMM_MIN in N. cbn [val bintIsSmall] in *. split; [intros _|reflexivity].
    destruct neg; lia.
  - apply norm_sto in N. destruct N as (D' & _ & V'). pose proof (lval_bound d' D') as B'. cbn [val bintIsSmall] in *.
    split; [discriminate|]. intros Hle. exfalso. destruct n', neg; lia.
Qed.

(* ------------------------------------------------------------------ 16-bit places *)
Definition u16ok (s : list Z) : Prop := Forall (fun d => 0 <= d < 65536) s.
Fixpoint lval16 (s : list Z) : Z :=
  match s with
  | [] => 0
  | d :: t => d + 65536 * lval16 t
  end.

Lemma pairU16_spec_aux : forall n data, (length data <= n)%nat -> u16ok data ->
  lval (pairU16 data) = lval16 data /\ dok (pairU16 data).
Proof.
  induction n as [|n IH]; intros data Hl Hd.
  - destruct data; [|cbn [length] in Hl; lia]. cbn. split; [reflexivity | apply dok_nil].
  - destruct data as [|lo [|hi t]].
    + cbn. split; [reflexivity | apply dok_nil].
    + inversion Hd as [|? ? Hlo _]; subst. cbn [pairU16 lval lval16].
      rewrite toS_id by (unfold R; lia). split; [unfold R; lia|].
      apply dok_cons. split; [unfold R; lia | apply dok_nil].
    + inversion Hd as [|? ? Hlo Hd1]; subst. inversion Hd1 as [|? ? Hhi Ht]; subst.
      destruct (IH t ltac:(cbn [length] in Hl; lia) Ht) as (V & D).
      cbn [pairU16 lval lval16]. rewrite toS_id by (unfold R; lia). rewrite V.
      split; [unfold R; lia|]. apply dok_cons. split; [unfold R; lia | exact D].
Qed.
Lemma pairU16_spec : forall data, u16ok data -> lval (pairU16 data) = lval16 data /\ dok (pairU16 data).
Proof. intros data H. apply (pairU16_spec_aux (length data)); [lia | exact H]. Qed.

(* fiBIntFrPlacev / bintFrPlacevS, any number of 16-bit places (an odd count is widened in place by the C) *)
Theorem frplacevS_exact : forall neg data, u16ok data ->
  val (bintFrPlacevS neg data) = (if neg then - lval16 data else lval16 data) /\ norm (bintFrPlacevS neg data).
Proof.
  intros neg data H. destruct (pairU16_spec data H) as (V & D). unfold bintFrPlacevS.
  destruct (frplacev_exact neg (pairU16 data) D) as (V2 & N). rewrite V2, V. split; [reflexivity | exact N].
Qed.

Lemma split_digit : forall d, 0 <= d < R ->
  Z.land d 65535 = d mod 65536 /\ Z.shiftr (Z.land d 4294901760) 16 = d / 65536.
Proof.
  intros d Hd. split.
  - change 65535 with (Z.ones 16). rewrite Z.land_ones by lia. reflexivity.
  - rewrite Z.shiftr_land. change (Z.shiftr 4294901760 16) with (Z.ones 16).
    rewrite Z.land_ones by lia. rewrite Z.shiftr_div_pow2 by lia. change (2 ^ 16) with 65536.
    apply Z.mod_small. unfold R in *. lia.
Qed.
Lemma splitU16_spec : forall ds, dok ds -> lval16 (splitU16 ds) = lval ds /\ u16ok (splitU16 ds).
Proof.
  induction ds as [|d t IH]; intros H; [split; [reflexivity | constructor]|].
  apply dok_cons in H. destruct H as [Hd Ht]. destruct (IH Ht) as (V & U).
  destruct (split_digit d Hd) as (E1 & E2). cbn [splitU16 lval16 lval]. rewrite E1, E2, V.
  split; [unfold R in *; lia|]. constructor; [unfold R in *; lia|]. constructor; [unfold R in *; lia | exact U].
Qed.
Lemma strip1_lval16 : forall s, lval16 (strip1 s) = lval16 s /\ (u16ok s -> u16ok (strip1 s)).
Proof.
  induction s as [|d t IH]; [split; [reflexivity | intros H; exact H]|].
  destruct t as [|e t'].
  - cbn [strip1]. destruct (Z.eqb_spec d 0) as [E|E].
    + subst d. cbn [lval16]. split; [reflexivity | intros _; constructor].
    + split; [reflexivity | intros H; exact H].
  - change (strip1 (d :: e :: t')) with (d :: strip1 (e :: t')). destruct IH as (V & U).
    cbn [lval16] in *. split; [lia|]. intros H. inversion H as [|? ? Hd Ht]; subst. constructor; [exact Hd | exact (U Ht)].
Qed.

Theorem toplacevS_exact : forall b, norm b ->
  lval16 (bintToPlacevS b) = Z.abs (val b) /\ u16ok (bintToPlacevS b).
Proof.
  intros b Nb. destruct (xintStore_spec b Nb) as (ds & E & (Dd & _) & V).
  unfold bintToPlacevS. rewrite E.
  destruct (splitU16_spec ds Dd) as (V2 & U). destruct (strip1_lval16 (splitU16 ds)) as (V3 & U3).
  rewrite V3, V2, V. split; [reflexivity | apply U3; exact U].
Qed.

(* round trip through the 16-bit places *)
Theorem placevS_roundtrip : forall b, norm b -> bintFrPlacevS (bintIsNeg b) (bintToPlacevS b) = b.
Proof.
  intros b Nb. destruct (toplacevS_exact b Nb) as (V & U).
  destruct (frplacevS_exact (bintIsNeg b) _ U) as (V2 & N2).
  apply norm_unique; [exact N2 | exact Nb|]. rewrite V2, V.
  destruct (sign_tests_exact b Nb) as (En & _). rewrite En. destruct (Z.ltb_spec (val b) 0); lia.
Qed.
Theorem placevS_roundtrip_val : forall neg data, u16ok data ->
  lval16 (bintToPlacevS (bintFrPlacevS neg data)) = lval16 data.
Proof.
  intros neg data U. destruct (frplacevS_exact neg data U) as (V & N).
  destruct (toplacevS_exact _ N) as (V2 & _). rewrite V2, V.
  assert (0 <= lval16 data).
  { clear - U. induction data as [|d t IH]; [cbn; lia|]. inversion U; subst. specialize (IH H2). cbn [lval16]. lia. }
  destruct neg; lia.
Qed.
