(* C11 correspondence driver for the extracted model (coq/BigInt/extracted/bigint.ml).
   One operation per line on stdin, one result line on stdout.  No arithmetic of its own: numbers
   travel as hexadecimal text and are converted constructor by constructor to/from Coq's binary Z.

   token syntax   z<hex>        integer, e.g. z-1f
                  i<hex>        immediate bint
                  s<0|1>:<hex>,<hex>,...   stored bint: isNeg, placev[0..placec-1]
                  t<hexbytes>   string (two hex characters per byte)
                  l<hex>,<hex>  list of integers
                  b0 / b1       boolean
   a bint result is printed as  <raw>|<decimal text produced by the model's bintToString, as t...> *)
open Bigint

let nib c = match c with
  | '0'..'9' -> Char.code c - 48
  | 'a'..'f' -> Char.code c - 87
  | 'A'..'F' -> Char.code c - 55
  | _ -> failwith "hex"

(* hex (msb first) -> positive option, by appending bits *)
let pos_of_hex (s : string) : positive option =
  let acc = ref None in
  String.iter (fun c ->
    let v = nib c in
    List.iter (fun m ->
      let bit = v land m <> 0 in
      acc := (match !acc with
              | None -> if bit then Some XH else None
              | Some p -> Some (if bit then XI p else XO p)))
      [8; 4; 2; 1]) s;
  !acc

let z_of_hex (s : string) : z =
  let neg = String.length s > 0 && s.[0] = '-' in
  let body = if neg then String.sub s 1 (String.length s - 1) else s in
  match pos_of_hex body with
  | None -> Z0
  | Some p -> if neg then Zneg p else Zpos p

let rec bits_of_pos (p : positive) : bool list = (* lsb first *)
  match p with XH -> [true] | XO q -> false :: bits_of_pos q | XI q -> true :: bits_of_pos q

let hex_of_pos (p : positive) : string =
  let bits = Array.of_list (bits_of_pos p) in
  let n = Array.length bits in
  let nn = (n + 3) / 4 in
  let b = Buffer.create nn in
  for k = nn - 1 downto 0 do
    let v = ref 0 in
    for j = 3 downto 0 do
      let ix = 4 * k + j in
      v := 2 * !v + (if ix < n && bits.(ix) then 1 else 0)
    done;
    Buffer.add_char b "0123456789abcdef".[!v]
  done;
  Buffer.contents b

let hex_of_z (x : z) : string =
  match x with Z0 -> "0" | Zpos p -> hex_of_pos p | Zneg p -> "-" ^ hex_of_pos p

let split c s = if s = "" then [] else String.split_on_char c s

let pz tok = z_of_hex (String.sub tok 1 (String.length tok - 1))
let pl tok = List.map z_of_hex (split ',' (String.sub tok 1 (String.length tok - 1)))
let pb tok = tok = "b1"
let pt tok =
  let s = String.sub tok 1 (String.length tok - 1) in
  let n = String.length s / 2 in
  List.init n (fun i -> z_of_hex (String.sub s (2 * i) 2))
let pbint tok =
  match tok.[0] with
  | 'i' -> Imm (z_of_hex (String.sub tok 1 (String.length tok - 1)))
  | 's' ->
      let neg = tok.[1] = '1' in
      let rest = String.sub tok 3 (String.length tok - 3) in
      Sto (neg, List.map z_of_hex (split ',' rest))
  | _ -> failwith "bint"

let sz x = "z" ^ hex_of_z x
let sb x = if x then "b1" else "b0"
let sl l = "l" ^ String.concat "," (List.map hex_of_z l)
let st l =
  "t" ^ String.concat "" (List.map (fun c ->
      let h = hex_of_z c in if String.length h = 1 then "0" ^ h else h) l)
let sraw b =
  match b with
  | Imm n -> "i" ^ hex_of_z n
  | Sto (neg, ds) -> "s" ^ (if neg then "1" else "0") ^ ":" ^ String.concat "," (List.map hex_of_z ds)
let sbint b =
  sraw b ^ "|" ^ (if text_limit_ok b then (match bintToString b with Some s -> st s | None -> "none") else "-")
let sob o = match o with Some b -> sbint b | None -> "none"

let run toks =
  match toks with
  | ["consts"] ->
      String.concat " " [sz lG; sz r; sz iMM_MAX; sz iMM_MIN; sz lG_IMMED; sz hALF_MAX;
                         sz (fst dec_rio); sz (snd dec_rio); sz (fst dec_rim); sz (snd dec_rim);
                         sl bpd_table]
  | ["new"; n] -> sbint (bintNew (pz n))
  | ["neg"; a] -> sbint (bintNegate (pbint a))
  | ["abs"; a] -> sbint (bintAbs (pbint a))
  | ["plus"; a; b] -> sbint (bintPlus (pbint a) (pbint b))
  | ["minus"; a; b] -> sbint (bintMinus (pbint a) (pbint b))
  | ["times"; a; b] -> sbint (bintTimes (pbint a) (pbint b))
  | ["timesplus"; a; b; c] -> sbint (fiBIntTimesPlus (pbint a) (pbint b) (pbint c))
  | ["divide"; a; b] ->
      let a = pbint a and b = pbint b in
      if bintIsZero b then "none"
      else let (q, rm) = bintDivide a b in
        sbint q ^ " " ^ sbint rm ^ " " ^ sb (bintDivide_ok a b) ^ " " ^ sl (bintDivide_stats a b)
  | ["quo"; a; b] -> sob (fiBIntQuo (pbint a) (pbint b))
  | ["mod"; a; b] -> sob (fiBIntMod (pbint a) (pbint b))
  | ["cmp"; a; b] ->
      let a = pbint a and b = pbint b in
      String.concat " " [sb (bintEQ a b); sb (bintLT a b); sb (bintGT a b)]
  | ["pred"; a] ->
      let a = pbint a in
      String.concat " " [sb (bintIsNeg a); sb (bintIsZero a); sb (bintIsPos a); sb (bintIsSmall a)]
  | ["length"; a] -> sz (bintLength (pbint a))
  | ["bit"; a; n] -> sb (bintBit (pbint a) (pz n))
  | ["shift"; a; n] -> sbint (bintShift (pbint a) (pz n))
  | ["shiftrem"; a; n] ->
      let a = pbint a and n = pz n in
      if shiftrem_defined a n then sbint (bintShiftRem a n) else "undefined"
  | ["tostr"; a] -> (match bintToString (pbint a) with Some s -> st s | None -> "none")
  | ["scan"; s] -> let (b, rest) = bintScanFrString (pt s) in sbint b ^ " " ^ st rest
  | ["rscan"; s] -> let (b, rest) = bintRadixScanFrString (pt s) in sbint b ^ " " ^ st rest
  | ["gcd"; a; b] -> sob (fiBIntGcd (pbint a) (pbint b))
  | ["sipow"; a; n] -> sob (fiBIntSIPower (pbint a) (pz n))
  | ["bipow"; a; b] -> sob (fiBIntBIPower (pbint a) (pbint b))
  | ["powmod"; a; b; c] -> sob (fiBIntPowerMod (pbint a) (pbint b) (pbint c))
  | ["tosint"; a] -> let a = pbint a in sz (fiBIntToSInt a) ^ " " ^ sb (fiBIntIsSingle a)
  | ["frplacev"; n; l] -> sbint (bintFrPlacev (pb n) (pl l))
  | ["frplacevs"; n; l] -> sbint (bintFrPlacevS (pb n) (pl l))
  | ["toplacevs"; a] -> sl (bintToPlacevS (pbint a))
  | ["rtplacevs"; a] -> let a = pbint a in sbint (bintFrPlacevS (bintIsNeg a) (bintToPlacevS a))
  | ["norm"; a] -> let a = pbint a in sb (normb a) ^ " " ^ sz (val0 a)
  | _ -> "badop"

let () =
  try
    while true do
      let line = input_line stdin in
      let toks = List.filter (fun s -> s <> "") (String.split_on_char ' ' line) in
      let out = (try run toks with
                 | Stack_overflow -> "error:stack"
                 | Failure m -> "error:" ^ m
                 | Invalid_argument m -> "error:" ^ m
                 | Not_found -> "error:notfound") in
      print_string out; print_newline ()
    done
  with End_of_file -> ()
