(* C11 — iintShift / bintShift are exact: |result| = |b| * 2^n for n >= 0, |b| / 2^(-n) (floor of the
   magnitude, i.e. truncation toward zero) for n < 0, sign kept, normal form. *)
Require Import ZArith List Bool Lia ZifyBool.
Require Import AV.BigInt.Model AV.BigInt.Facts AV.BigInt.FactsCmp AV.BigInt.FactsAdd AV.BigInt.FactsBits.
Import ListNotations.
Local Open Scope Z_scope.
Ltac Zify.zify_post_hook ::= Z.div_mod_to_equations.

Lemma pow2_pos : forall n, 0 <= n -> 0 < 2 ^ n.
Proof. intros n H. apply Z.pow_pos_nonneg; lia. Qed.

(* a multiple of 2^k OR-ed with something below 2^k is their sum *)
Lemma lor_add : forall m c k, 0 <= k -> 0 <= c < 2 ^ k -> Z.lor (m * 2 ^ k) c = m * 2 ^ k + c.
Proof.
  intros m c k Hk Hc.
  assert (E : Z.land (m * 2 ^ k) c = 0).
  { apply Z.bits_inj'. intros n Hn. rewrite Z.land_spec, Z.bits_0.
    destruct (Z_lt_le_dec n k) as [L|L].
    - rewrite Z.mul_pow2_bits_low by lia. reflexivity.
    - rewrite <- (Z.mod_small c (2 ^ k)) by lia. rewrite Z.mod_pow2_bits_high by lia. apply andb_false_r. }
  rewrite (Z.add_nocarry_lxor _ _ E). symmetry. apply Z.lxor_lor. exact E.
Qed.

Lemma shl_digit : forall d k, 0 <= d < R -> 0 <= k < 32 ->
  toS (Z.shiftl d k) = (d mod 2 ^ (32 - k)) * 2 ^ k /\
  (if k =? 0 then 0 else Z.shiftr d (LG - k)) = d / 2 ^ (32 - k) /\
  (d mod 2 ^ (32 - k)) * 2 ^ k + R * (d / 2 ^ (32 - k)) = d * 2 ^ k /\
  0 <= d / 2 ^ (32 - k) < 2 ^ k /\ 0 <= (d mod 2 ^ (32 - k)) * 2 ^ k < R.
Proof.
  intros d k Hd Hk.
  assert (ER : R = 2 ^ (32 - k) * 2 ^ k) by (rewrite <- Z.pow_add_r by lia; replace (32 - k + k) with 32 by lia; reflexivity).
  pose proof (pow2_pos k ltac:(lia)) as Pk. pose proof (pow2_pos (32 - k) ltac:(lia)) as Pk'.
  assert (E1 : toS (Z.shiftl d k) = (d mod 2 ^ (32 - k)) * 2 ^ k).
  { unfold toS. rewrite Z.shiftl_mul_pow2 by lia. rewrite ER. rewrite Z.mul_mod_distr_r by lia. reflexivity. }
  assert (E2 : (if k =? 0 then 0 else Z.shiftr d (LG - k)) = d / 2 ^ (32 - k)).
  { destruct (Z.eqb_spec k 0) as [->|Hnz].
    - change (2 ^ (32 - 0)) with R. unfold R in *. lia.
    - unfold LG. rewrite Z.shiftr_div_pow2 by lia. reflexivity. }
  pose proof (Z.div_mod d (2 ^ (32 - k)) ltac:(lia)) as DM.
  pose proof (Z.mod_pos_bound d (2 ^ (32 - k)) ltac:(lia)) as MB.
  split; [exact E1|]. split; [exact E2|].
  split; [rewrite ER; nia|].
  split.
  - split; [apply Z.div_pos; lia|]. apply Z.div_lt_upper_bound; [lia|]. rewrite <- ER. lia.
  - split; [nia|]. rewrite ER. nia.
Qed.

Lemma shl_bits_spec : forall k ds cin, 0 <= k < 32 -> dok ds -> 0 <= cin < 2 ^ k ->
  lval (shl_bits k ds cin) = lval ds * 2 ^ k + cin /\ dok (shl_bits k ds cin) /\
  length (shl_bits k ds cin) = S (length ds).
Proof.
  intros k ds. induction ds as [|d t IH]; intros cin Hk Hd Hc.
  - cbn [shl_bits lval length]. split; [lia|]. split; [|reflexivity].
    apply dok_cons. split; [|apply dok_nil].
    assert (2 ^ k <= 2 ^ 32) by (apply Z.pow_le_mono_r; lia). change (2 ^ 32) with R in *. lia.
  - apply dok_cons in Hd. destruct Hd as [Hd Ht].
    destruct (shl_digit d k Hd Hk) as (E1 & E2 & E3 & B1 & B2).
    cbn [shl_bits]. rewrite E1, E2, lor_add by lia.
    destruct (IH (d / 2 ^ (32 - k)) Hk Ht B1) as (V & D & L).
    cbn [lval length]. rewrite V, L. split; [nia|]. split; [|reflexivity].
    apply dok_cons. split; [|exact D].
    (* (d mod 2^(32-k)) * 2^k + cin < R *)
    assert (ER : R = 2 ^ (32 - k) * 2 ^ k) by (rewrite <- Z.pow_add_r by lia; replace (32 - k + k) with 32 by lia; reflexivity).
    pose proof (Z.mod_pos_bound d (2 ^ (32 - k)) ltac:(apply pow2_pos; lia)) as MB.
    pose proof (pow2_pos k ltac:(lia)). rewrite ER. nia.
Qed.

Lemma skipn_lval : forall j X, dok X -> lval (skipn j X) = lval X / Rp j /\ dok (skipn j X).
Proof.
  induction j as [|j IH]; intros X Hd.
  - cbn [skipn]. rewrite Rp_0, Z.div_1_r. split; [reflexivity | exact Hd].
  - destruct X as [|x t].
    + cbn [skipn lval]. split; [rewrite Z.div_0_l; [reflexivity | pose proof (Rp_pos (S j)); lia] | exact Hd].
    + apply dok_cons in Hd. destruct Hd as [Hx Ht]. destruct (IH t Ht) as (V & D).
      cbn [skipn lval]. rewrite V, Rp_S. split; [|exact D].
      rewrite <- Z.div_div by (try apply Rp_pos; unfold R; lia).
      f_equal. unfold R in *. lia.
Qed.
Lemma firstn_lval_small : forall m X, dok X -> lval X < Rp m ->
  lval (firstn m X) = lval X /\ dok (firstn m X).
Proof.
  induction m as [|m IH]; intros X Hd Hv.
  - cbn [firstn lval]. rewrite Rp_0 in Hv. pose proof (lval_bound X Hd). split; [lia | apply dok_nil].
  - destruct X as [|x t]; [cbn [firstn]; split; [reflexivity | exact Hd]|].
    apply dok_cons in Hd. destruct Hd as [Hx Ht]. rewrite Rp_S in Hv. cbn [lval] in Hv.
    pose proof (Rp_pos m).
    destruct (IH t Ht ltac:(unfold R in *; nia)) as (V & D).
    cbn [firstn lval]. rewrite V. split; [reflexivity | apply dok_cons; auto].
Qed.
Lemma zeros_lval : forall j X, 0 <= j -> lval (zeros j ++ X) = Rp (Z.to_nat j) * lval X /\
  length (zeros j ++ X) = (Z.to_nat j + length X)%nat /\ (dok X -> dok (zeros j ++ X)).
Proof.
  intros j X Hj. unfold zeros. induction (Z.to_nat j) as [|m IH].
  - cbn [repeat app]. rewrite Rp_0. split; [lia|]. split; [reflexivity | auto].
  - cbn [repeat app lval length]. destruct IH as (V & L & D). rewrite V, L, Rp_S.
    split; [lia|]. split; [lia|]. intros HX. apply dok_cons. split; [unfold R; lia | auto].
Qed.

(* bit length of a stored magnitude with non-zero top place *)
Lemma bintLength_sto_bitlen : forall neg ds, dok ds -> ds <> [] -> last ds 0 <> 0 ->
  bintLength (Sto neg ds) = bitlen (lval ds) /\ 0 < lval ds /\
  2 ^ (bitlen (lval ds) - 1) <= lval ds < 2 ^ bitlen (lval ds) /\ 1 <= bitlen (lval ds).
Proof.
  intros neg ds Hd Hne Hn.
  pose proof (last_nz_ge ds Hd Hne Hn) as Hge. pose proof (Rp_pos (length ds - 1)) as Hp.
  assert (Hpos : 0 < lval ds) by lia.
  assert (Hb : 2 ^ (bitlen (lval ds) - 1) <= lval ds < 2 ^ bitlen (lval ds) /\ 1 <= bitlen (lval ds)).
  { unfold bitlen. destruct (Z.eqb_spec (lval ds) 0); [lia|].
    pose proof (Z.log2_spec _ Hpos) as (Lo & Hi). pose proof (Z.log2_nonneg (lval ds)).
    replace (Z.log2 (lval ds) + 1 - 1) with (Z.log2 (lval ds)) by lia.
    replace (Z.log2 (lval ds) + 1) with (Z.succ (Z.log2 (lval ds))) by lia. split; [split; assumption | lia]. }
  split; [|split; [exact Hpos | exact Hb]].
  destruct (lval_split_last ds Hne) as (E & L & D). specialize (D Hd).
  pose proof (dok_last ds Hd Hne) as Ht.
  pose proof (lval_bound _ D) as Hlow. rewrite L in Hlow.
  cbn [bintLength]. rewrite uintLength_bitlen by (unfold W64, R in *; lia).
  set (t := last ds 0) in *. set (m := (length ds - 1)%nat) in *.
  assert (Hm : len ds - 1 = Z.of_nat m).
  { unfold len, m. destruct ds; [congruence | cbn [length]; lia]. }
  rewrite Hm. assert (Ht0 : 0 < t) by lia.
  symmetry. apply bitlen_unique.
  + unfold LG, bitlen. destruct (Z.eqb_spec t 0); [lia|]. pose proof (Z.log2_nonneg t). lia.
  + exact Hpos.
  + unfold bitlen at 1 2. destruct (Z.eqb_spec t 0); [lia|].
    pose proof (Z.log2_spec t Ht0) as (Lo & Hi). pose proof (Z.log2_nonneg t) as Lnn.
    unfold LG. rewrite Rp_pow2 in *.
    replace (32 * Z.of_nat m + (Z.log2 t + 1) - 1) with (32 * Z.of_nat m + Z.log2 t) by lia.
    replace (32 * Z.of_nat m + (Z.log2 t + 1)) with (32 * Z.of_nat m + Z.succ (Z.log2 t)) by lia.
    rewrite !Z.pow_add_r by lia.
    assert (0 < 2 ^ (32 * Z.of_nat m)) by (apply Z.pow_pos_nonneg; lia).
    nia.
Qed.

Definition shift_mag (v n : Z) : Z := if 0 <=? n then v * 2 ^ n else v / 2 ^ (- n).

Lemma shift_mag_bounds : forall v n L, 1 <= L -> 2 ^ (L - 1) <= v < 2 ^ L -> 0 < L + n ->
  2 ^ (L + n - 1) <= shift_mag v n < 2 ^ (L + n).
Proof.
  intros v n L HL Hv Hr. unfold shift_mag. destruct (Z.leb_spec 0 n) as [Hn|Hn].
  - replace (L + n - 1) with (L - 1 + n) by lia. rewrite !Z.pow_add_r by lia.
    pose proof (pow2_pos n Hn). nia.
  - pose proof (pow2_pos (- n) ltac:(lia)) as P.
    assert (E1 : 2 ^ L = 2 ^ (L + n) * 2 ^ (- n)) by (rewrite <- Z.pow_add_r by lia; f_equal; lia).
    assert (E2 : 2 ^ (L - 1) = 2 ^ (L + n - 1) * 2 ^ (- n)) by (rewrite <- Z.pow_add_r by lia; f_equal; lia).
    split.
    + apply Z.div_le_lower_bound; [lia|]. rewrite Z.mul_comm, <- E2. lia.
    + apply Z.div_lt_upper_bound; [lia|]. rewrite Z.mul_comm, <- E1. lia.
Qed.

Lemma QUO_ROUND_UP_pos : forall x, 0 < x ->
  32 * (QUO_ROUND_UP x 32 - 1) < x <= 32 * QUO_ROUND_UP x 32.
Proof.
  intros x Hx. unfold QUO_ROUND_UP. rewrite Z.rem_mod_nonneg, Z.quot_div_nonneg by lia.
  destruct (Z.eqb_spec (x mod 32) 0); cbn [negb]; lia.
Qed.

Lemma iintShift_spec : forall ds n, dok ds -> ds <> [] -> last ds 0 <> 0 ->
  0 < bitlen (lval ds) + n ->
  lval (iintShift ds n) = shift_mag (lval ds) n /\ dok (iintShift ds n) /\
  iintShift ds n <> [] /\ last (iintShift ds n) 0 <> 0.
Proof.
  intros ds n Hd Hne Hn Hr.
  destruct (bintLength_sto_bitlen false ds Hd Hne Hn) as (EL & Hpos & HLb & HL1).
  pose proof (bintLength_sto_range false ds Hd Hne) as Rg. rewrite EL in Rg. unfold LG in Rg.
  set (L := bitlen (lval ds)) in *.
  pose proof (shift_mag_bounds (lval ds) n L HL1 HLb Hr) as SB.
  pose proof (QUO_ROUND_UP_pos (L + n) Hr) as HQ.
  unfold iintShift. rewrite EL. fold L. unfold LG.
  set (bc := len ds) in *. set (rc := QUO_ROUND_UP (L + n) 32) in *.
  set (up := rc * 32 - (L + n) <=? bc * 32 - L).
  set (q0 := rc - bc + b2z up).
  set (k := 32 - (q0 * 32 - n)).
  assert (Hbc : 1 <= bc) by (unfold bc; destruct ds; [congruence | rewrite len_cons; pose proof (len_nonneg ds); lia]).
  assert (Hk : 0 <= k < 32 /\ n = 32 * (q0 - 1) + k /\ rc + b2z up = bc + q0 /\ 0 <= b2z up <= 1).
  { unfold k, q0, up. destruct (Z.leb_spec (rc * 32 - (L + n)) (bc * 32 - L)); cbn [b2z]; lia. }
  destruct Hk as (Hk & En & Eup & Hup).
  destruct (shl_bits_spec k ds 0 Hk Hd ltac:(pose proof (pow2_pos k); lia)) as (Vf & Df & Lf).
  rewrite Z.add_0_r in Vf.
  set (full := shl_bits k ds 0) in *.
  assert (Hrc : 1 <= rc) by lia.
  assert (HRp : 2 ^ (L + n) <= Rp (Z.to_nat rc)).
  { rewrite Rp_pow2. apply Z.pow_le_mono_r; lia. }
  assert (HRp1 : Rp (Z.to_nat rc - 1) <= 2 ^ (L + n - 1)).
  { rewrite Rp_pow2. apply Z.pow_le_mono_r; lia. }
  (* a common closing argument: a list X with the right value and at least rc places *)
  assert (Close : forall X, dok X -> lval X = shift_mag (lval ds) n -> (Z.to_nat rc <= length X)%nat ->
            lval (firstn (Z.to_nat rc) X) = shift_mag (lval ds) n /\ dok (firstn (Z.to_nat rc) X) /\
            firstn (Z.to_nat rc) X <> [] /\ last (firstn (Z.to_nat rc) X) 0 <> 0).
  { intros X DX VX LX.
    destruct (firstn_lval_small (Z.to_nat rc) X DX ltac:(lia)) as (V1 & D1).
    assert (Lf1 : length (firstn (Z.to_nat rc) X) = Z.to_nat rc) by (rewrite firstn_length; lia).
    assert (N1 : firstn (Z.to_nat rc) X <> []) by (intros E; rewrite E in Lf1; cbn [length] in Lf1; lia).
    split; [lia|]. split; [exact D1|]. split; [exact N1|].
    apply ge_last_nz; [exact D1 | exact N1|]. rewrite Lf1. lia. }
  destruct (Z.ltb_spec n 0) as [Hneg|Hnn].
  - (* right shift *)
    assert (Hq0 : q0 <= 0) by lia.
    destruct (skipn_lval (Z.to_nat (1 - q0)) full Df) as (Vs & Ds).
    apply Close; [exact Ds | | rewrite skipn_length, Lf; unfold bc, len in *; lia].
    rewrite Vs, Vf. unfold shift_mag. destruct (Z.leb_spec 0 n); [lia|].
    rewrite Rp_pow2. rewrite Z2Nat.id by lia.
    assert (E : 2 ^ (32 * (1 - q0)) = 2 ^ (- n) * 2 ^ k) by (rewrite <- Z.pow_add_r by lia; f_equal; lia).
    rewrite E. rewrite Z.div_mul_cancel_r; [reflexivity | pose proof (pow2_pos (- n)); lia | pose proof (pow2_pos k); lia].
  - destruct (Z.ltb_spec 0 n) as [Hpos'|Hz].
    + (* left shift *)
      assert (Hq0 : 1 <= q0) by lia.
      destruct (zeros_lval (q0 - 1) full ltac:(lia)) as (Vz & Lz & Dz).
      apply Close; [exact (Dz Df) | | rewrite Lz, Lf; unfold bc, len in *; lia].
      rewrite Vz, Vf. unfold shift_mag. destruct (Z.leb_spec 0 n); [|lia].
      rewrite Rp_pow2, Z2Nat.id by lia.
      assert (E : 2 ^ n = 2 ^ (32 * (q0 - 1)) * 2 ^ k) by (rewrite <- Z.pow_add_r by lia; f_equal; lia).
      rewrite E. lia.
    + (* n = 0 *)
      assert (En0 : n = 0) by lia.
      apply Close; [exact Hd | | unfold bc, len in *; lia].
      unfold shift_mag. destruct (Z.leb_spec 0 n); [|lia].
      assert (E0 : 2 ^ n = 1) by (rewrite En0; reflexivity). rewrite E0. lia.
Qed.

(* ------------------------------------------------------------------ bintShift *)
Definition shift_val (v n : Z) : Z := Z.sgn v * shift_mag (Z.abs v) n.

Lemma shift_mag_zero : forall v n L, 1 <= L -> 0 <= v < 2 ^ L -> L + n <= 0 -> shift_mag v n = 0.
Proof.
  intros v n L HL Hv Hn. unfold shift_mag. destruct (Z.leb_spec 0 n); [lia|].
  apply Z.div_small. assert (2 ^ L <= 2 ^ (- n)) by (apply Z.pow_le_mono_r; lia). lia.
Qed.

Lemma bitlen_bounds : forall u, 0 <= u -> 1 <= bitlen u /\ u < 2 ^ bitlen u /\ (0 < u -> 2 ^ (bitlen u - 1) <= u).
Proof.
  intros u Hu. unfold bitlen. destruct (Z.eqb_spec u 0) as [->|Hnz].
  - split; [lia|]. split; [cbn; lia | lia].
  - pose proof (Z.log2_spec u ltac:(lia)) as (Lo & Hi). pose proof (Z.log2_nonneg u).
    replace (Z.log2 u + 1 - 1) with (Z.log2 u) by lia.
    replace (Z.log2 u + 1) with (Z.succ (Z.log2 u)) by lia. split; [lia|]. split; [exact Hi | intros _; exact Lo].
Qed.

Theorem shift_exact : forall b n, norm b ->
  val (bintShift b n) = shift_val (val b) n /\ norm (bintShift b n).
Proof.
  intros b n Hb.
  pose proof (length_exact b Hb) as EL.
  assert (Z0 : IntToBInt 0 = Imm 0 /\ norm (Imm 0)) by (apply IntToBInt_norm; unfold IMM_MIN, IMM_MAX; lia).
  destruct Z0 as (Z0 & NZ0).
  unfold bintShift. rewrite EL.
  set (L := bitlen (Z.abs (val b))).
  destruct (bitlen_bounds (Z.abs (val b)) ltac:(lia)) as (HL1 & HLhi & HLlo). fold L in HL1, HLhi, HLlo.
  (* zero *)
  destruct (Z.eq_dec (val b) 0) as [Ez|Hnz].
  { assert (b = Imm 0).
    { destruct b as [x|neg ds]; [cbn [val] in Ez; subst; reflexivity|].
      apply norm_sto in Hb. destruct Hb as (_ & _ & Hv). unfold IMM_MAX in Hv. cbn [val] in Ez. destruct neg; lia. }
    subst b. cbn [val]. unfold bint0, shift_val. cbn [Z.sgn]. split; [lia | exact NZ0]. }
  assert (Hnb0 : match b with Imm 0 => False | _ => True end).
  { destruct b as [x|]; [|exact I]. cbn [val] in Hnz. destruct x; [congruence | exact I | exact I]. }
  assert (Ebody : forall X Y : bint, match b with Imm 0 => X | _ => Y end = Y).
  { intros X Y. destruct b as [x|]; [|reflexivity]. destruct x; [contradiction | reflexivity | reflexivity]. }
  rewrite Ebody. clear Ebody Hnb0.
  assert (HL0 : (L =? 0) = false) by lia. rewrite HL0. cbn [orb].
  destruct (Z.leb_spec (L + n) 0) as [Hle|Hgt].
  { rewrite Z0. cbn [val]. unfold shift_val. rewrite (shift_mag_zero _ n L) by lia. split; [lia | exact NZ0]. }
  specialize (HLlo ltac:(lia)).
  pose proof (shift_mag_bounds (Z.abs (val b)) n L HL1 (conj HLlo HLhi) Hgt) as SB.
  (* the stored path, shared *)
  assert (Stored : forall neg ds, dok ds -> ds <> [] -> last ds 0 <> 0 -> lval ds = Z.abs (val b) ->
            neg = (val b <? 0) ->
            let r := Sto neg (iintShift ds n) in
            val (if L + n <=? LG_IMMED then xintImmedIfCan r else r) = shift_val (val b) n /\
            norm (if L + n <=? LG_IMMED then xintImmedIfCan r else r)).
  { intros neg ds Dd Nd Ld Vd En. cbv zeta.
    destruct (iintShift_spec ds n Dd Nd Ld ltac:(rewrite Vd; exact Hgt)) as (Vs & Ds & Ns & Ls).
    rewrite Vd in Vs.
    assert (Ev : val (Sto neg (iintShift ds n)) = shift_val (val b) n).
    { cbn [val]. rewrite Vs, En. unfold shift_val. destruct (Z.ltb_spec (val b) 0); lia. }
    destruct (Z.leb_spec (L + n) LG_IMMED) as [Hs|Hbig].
    - destruct (xintImmedIfCan_ok neg (iintShift ds n) (conj Ds (fun _ => Ls))) as (V & N).
      rewrite V. split; [exact Ev | exact N].
    - split; [exact Ev|]. apply norm_sto. split; [exact Ds|]. split; [exact Ls|].
      rewrite Vs. unfold LG_IMMED, IMM_MAX in *.
      assert (2 ^ 62 <= 2 ^ (L + n - 1)) by (apply Z.pow_le_mono_r; lia).
      change (2 ^ 62) with 4611686018427387904 in *. lia. }
  destruct b as [i|neg ds].
  - cbn [val] in *. pose proof (imm_range i Hb) as Hri.
    destruct (Z.leb_spec (L + n) LG_IMMED) as [Hs|Hbig].
    + (* immediate result *)
      unfold uabs. rewrite (u64_id (Z.abs i)) by (unfold W64, H63 in *; lia).
      unfold LG_IMMED in Hs.
      assert (P62 : 2 ^ (L + n) <= 2 ^ 62) by (apply Z.pow_le_mono_r; lia).
      change (2 ^ 62) with 4611686018427387904 in P62.
      assert (Eu : (if 0 <? n then u64 (Z.shiftl (Z.abs i) n) else Z.shiftr (Z.abs i) (- n)) = shift_mag (Z.abs i) n).
      { unfold shift_mag. destruct (Z.ltb_spec 0 n) as [Hp|Hp].
        - destruct (Z.leb_spec 0 n); [|lia]. rewrite Z.shiftl_mul_pow2 by lia.
          unfold shift_mag in SB. destruct (Z.leb_spec 0 n) in SB; [|lia].
          apply u64_id. unfold W64. lia.
        - destruct (Z.leb_spec 0 n) as [H0|H0].
          + assert (En0 : n = 0) by lia. rewrite En0. change (- 0) with 0. rewrite Z.shiftr_0_r.
            change (2 ^ 0) with 1. lia.
          + rewrite Z.shiftr_div_pow2 by lia. reflexivity. }
      rewrite Eu. set (m := shift_mag (Z.abs i) n) in *.
      unfold shift_val. fold m.
      destruct (Z.ltb_spec 0 i) as [Hp|Hp].
      * rewrite s64_id by (unfold H63; lia).
        destruct (IntToBInt_norm m) as (E & N); [unfold IMM_MIN, IMM_MAX; lia|].
        rewrite E. cbn [val]. split; [lia | exact N].
      * rewrite (s64_id m) by (unfold H63; lia). rewrite s64_id by (unfold H63; lia).
        destruct (IntToBInt_norm (- m)) as (E & N); [unfold IMM_MIN, IMM_MAX; lia|].
        rewrite E. cbn [val]. split; [lia | exact N].
    + destruct (xintStore_spec (Imm i) Hb) as (ds & Es & Wd & Vd). cbn [val] in *.
      rewrite Es. cbn [bintIsNeg sto_ds].
      destruct Wd as (Dd & Nd & Ld).
      assert (Ld' : last ds 0 <> 0).
      { destruct ds as [|x [|y t]]; [congruence | | apply Ld; rewrite !len_cons; pose proof (len_nonneg t); lia].
        cbn [last]. cbn [lval] in Vd. lia. }
      exact (Stored (i <? 0) ds Dd Nd Ld' Vd eq_refl).
  - pose proof (norm_sto_len _ _ Hb) as Hl2. pose proof Hb as Hb'. apply norm_sto in Hb'.
    destruct Hb' as (Dd & Ld & Vd). unfold IMM_MAX in Vd.
    assert (Nd : ds <> []) by (intros ->; cbn in Hl2; lia).
    apply (Stored neg ds Dd Nd Ld).
    + cbn [val]. destruct neg; lia.
    + cbn [val]. destruct neg; lia.
Qed.
