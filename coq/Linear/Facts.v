(* C14 — facts about the lineariser model: re-positioning (parametricity in the
   positions), blank-line / comment insensitivity, the non-piled case. *)

Require Import NArith Arith Wf_nat List Bool Lia.
Require Import AV.Gen.TokenInfo AV.Linear.Model.
Import ListNotations.
Local Open Scope N_scope.

(* ------------------------------------------------------------------ induction on trees *)

Section TreeInd.
  Variable P : tree -> Prop.
  Hypothesis H1 : forall t h i, P (T1Tok t h i).
  Hypothesis HN : forall ts h i, P (TNTok ts h i).
  Hypothesis HNN : forall args h i, Forall P args -> P (TNNodes args h i).
  Hypothesis HDP : forall args h i, Forall P args -> P (TDoPile args h i).

  Fixpoint tree_ind' (t : tree) : P t :=
    match t with
    | T1Tok x h i => H1 x h i
    | TNTok ts h i => HN ts h i
    | TNNodes args h i =>
        HNN args h i ((fix go (l : list tree) : Forall P l :=
                         match l with [] => Forall_nil P | a :: r => Forall_cons a (tree_ind' a) (go r) end) args)
    | TDoPile args h i =>
        HDP args h i ((fix go (l : list tree) : Forall P l :=
                         match l with [] => Forall_nil P | a :: r => Forall_cons a (tree_ind' a) (go r) end) args)
    end.
End TreeInd.

(* ------------------------------------------------------------------ the nested loops, named *)

Fixpoint goLastTok (l : list tree) : option tok :=
  match l with
  | [] => None
  | a :: r => match r with [] => lntLastTok a | _ :: _ => goLastTok r end
  end.

Fixpoint goLastLessNL (l : list tree) : option tok :=
  match l with
  | [] => None
  | a :: r => match goLastLessNL r with Some x => Some x | None => lntLastTokLessNL a end
  end.

Fixpoint goToks (l : list tree) (rs : list tok) : list tok :=
  match l with [] => rs | a :: r => goToks r (toToks a rs) end.

Fixpoint goRules (l : list tree) : option (list tree) :=
  match l with
  | [] => Some []
  | a :: r => match lin2DRules a, goRules r with
              | Some a', Some r' => Some (a' :: r')
              | _, _ => None
              end
  end.

Lemma lntLastTok_nodes : forall args h i, lntLastTok (TNNodes args h i) = goLastTok args.
Proof. reflexivity. Qed.
Lemma lntLastTok_pile : forall args h i, lntLastTok (TDoPile args h i) = goLastTok args.
Proof. reflexivity. Qed.
Lemma lntLastTokLessNL_nodes : forall args h i, lntLastTokLessNL (TNNodes args h i) = goLastLessNL args.
Proof. reflexivity. Qed.
Lemma lntLastTokLessNL_pile : forall args h i, lntLastTokLessNL (TDoPile args h i) = goLastLessNL args.
Proof. reflexivity. Qed.
Lemma toToks_nodes : forall args h i rs, toToks (TNNodes args h i) rs = goToks args rs.
Proof. reflexivity. Qed.
Lemma lin2DRules_nodes : forall args h i,
  lin2DRules (TNNodes args h i) =
  match goRules args with Some args' => Some (TNNodes args' h i) | None => None end.
Proof. reflexivity. Qed.
Lemma lin2DRules_pile : forall args h i,
  lin2DRules (TDoPile args h i) =
  match goRules args with Some args' => lin2DRulesPile args' | None => None end.
Proof. reflexivity. Qed.

(* ------------------------------------------------------------------ re-positioning *)

Section Repos.
  Variable f : N -> N.        (* columns *)
  Variable g : N -> N.        (* lines: arbitrary *)
  Hypothesis f_mono : forall a b, a < b -> f a < f b.
  Hypothesis f_zero : f 0 = 0.     (* column 0 = "no position" (sposNone, the empty line) stays *)

  Definition repos (p : option (N * N)) : option (N * N) :=
    match p with Some (l, c) => Some (g l, f c) | None => None end.
  Definition retok (t : tok) : tok := mkTok (ttag t) (tval t) (repos (tpos t)).
  Definition reind (i : ind) : ind := option_map f i.

  Fixpoint retree (t : tree) : tree :=
    match t with
    | T1Tok x h i => T1Tok (retok x) h (reind i)
    | TNTok ts h i => TNTok (map retok ts) h (reind i)
    | TNNodes args h i => TNNodes (map retree args) h (reind i)
    | TDoPile args h i => TDoPile (map retree args) h (reind i)
    end.

  Definition rers (r : tree * list tok) : tree * list tok := (retree (fst r), map retok (snd r)).

  Lemma f_inj : forall a b, f a = f b -> a = b.
  Proof.
    intros a b E. destruct (N.lt_trichotomy a b) as [L | [L | L]]; auto.
    - apply f_mono in L. lia.
    - apply f_mono in L. lia.
  Qed.

  Lemma tokIs_retok : forall t k, tokIs (retok t) k = tokIs t k.
  Proof. reflexivity. Qed.

  Lemma ttag_retok : forall t, ttag (retok t) = ttag t.
  Proof. reflexivity. Qed.

  Lemma tokCol_retok : forall t, tokCol (retok t) = reind (tokCol t).
  Proof. intros [a v [[l c]|]]; unfold tokCol; simpl; auto. now rewrite f_zero. Qed.

  Lemma linKeyword_retok : forall o k, linKeyword (option_map retok o) k = retok (linKeyword o k).
  Proof. intros [t|] k; reflexivity. Qed.

  Lemma lntTok_retok : forall t, lntTok (retok t) = retree (lntTok t).
  Proof. intros t. unfold lntTok. simpl. rewrite tokCol_retok. reflexivity. Qed.

  Lemma thas_retree : forall t, thas (retree t) = thas t.
  Proof. destruct t; reflexivity. Qed.

  Lemma tindent_retree : forall t, tindent (retree t) = reind (tindent t).
  Proof. destruct t; reflexivity. Qed.

  Lemma linIsBlank_retree : forall t, linIsBlank (retree t) = linIsBlank t.
  Proof. intros; unfold linIsBlank; now rewrite thas_retree. Qed.

  Lemma linIsCom_retree : forall t, linIsCom (retree t) = linIsCom t.
  Proof. intros; unfold linIsCom; now rewrite thas_retree. Qed.

  Lemma hasOfList_retree : forall l, hasOfList (map retree l) = hasOfList l.
  Proof. induction l; simpl; auto. now rewrite thas_retree, IHl. Qed.

  Lemma ind_ltb_reind : forall a b, ind_ltb (reind a) (reind b) = ind_ltb a b.
  Proof.
    intros [a|] [b|]; simpl; auto.
    destruct (N.ltb_spec a b) as [L|L]; destruct (N.ltb_spec (f a) (f b)) as [L'|L']; auto.
    - apply f_mono in L. lia.
    - destruct (N.eq_dec a b) as [->|NE]; [lia|].
      assert (b < a) as L2 by lia. apply f_mono in L2. lia.
  Qed.

  Lemma ind_eqb_reind : forall a b, ind_eqb (reind a) (reind b) = ind_eqb a b.
  Proof.
    intros [a|] [b|]; simpl; auto.
    destruct (N.eqb_spec a b) as [->|NE]; [apply N.eqb_refl|].
    apply N.eqb_neq. intro E. apply f_inj in E. auto.
  Qed.

  Lemma ind_is_moot_reind : forall a, ind_is_moot (reind a) = ind_is_moot a.
  Proof. intros [a|]; reflexivity. Qed.

  (* ---- token list utilities *)

  Lemma linXTokens_retok : forall tag tl, linXTokens tag (map retok tl) = map retok (linXTokens tag tl).
  Proof.
    intros tag tl. unfold linXTokens. induction tl as [|t r IH]; simpl; auto.
    rewrite tokIs_retok. destruct (tokIs t tag); simpl; now rewrite IH.
  Qed.

  Lemma linXBlankLines0_retok : forall tl, linXBlankLines0 (map retok tl) = map retok (linXBlankLines0 tl).
  Proof.
    induction tl as [|t r IH]; simpl; auto.
    rewrite tokIs_retok. destruct (tokIs t KW_NewLine); auto.
  Qed.

  Lemma linXBlankLinesLoop_retok :
    forall tl, linXBlankLinesLoop (map retok tl) = map retok (linXBlankLinesLoop tl)
            /\ linXBlankLinesSkip (map retok tl) = map retok (linXBlankLinesSkip tl).
  Proof.
    induction tl as [|t r [IH1 IH2]]; simpl; auto.
    rewrite !tokIs_retok. split.
    - destruct (tokIs t KW_NewLine || tokIs t KW_StartPile); simpl; congruence.
    - destruct (tokIs t KW_NewLine); auto. destruct (tokIs t KW_StartPile); simpl; congruence.
  Qed.

  Lemma linXBlankLines_retok : forall tl, linXBlankLines (map retok tl) = map retok (linXBlankLines tl).
  Proof.
    intros. unfold linXBlankLines. rewrite linXBlankLines0_retok. apply linXBlankLinesLoop_retok.
  Qed.

  Lemma linIndentation_retok : forall tl, linIndentation (map retok tl) = reind (linIndentation tl).
  Proof.
    intros tl. unfold linIndentation.
    destruct tl as [|t r]; simpl; auto.
    rewrite tokIs_retok. destruct (tokIs t KW_At).
    - destruct r as [|u [|w r']]; simpl; auto.
      rewrite tokIs_retok. destruct (tokIs w KW_NewLine); auto. apply tokCol_retok.
    - simpl. rewrite tokIs_retok. destruct (tokIs t KW_NewLine); auto. apply tokCol_retok.
  Qed.

  Lemma linISep_retok : forall tl, linISepAfterDontPiles (map retok tl) = map retok (linISepAfterDontPiles tl).
  Proof.
    induction tl as [|t r IH]; simpl; auto.
    rewrite tokIs_retok. destruct (tokIs t KW_CCurly).
    - destruct r as [|u r']; simpl; auto.
      rewrite tokIs_retok. simpl in IH. destruct (tokIs u KW_Semicolon); simpl; rewrite IH; reflexivity.
    - now rewrite IH.
  Qed.

  Lemma tokIsNonStarter_retok : forall t, tokIsNonStarter (retok t) = tokIsNonStarter t.
  Proof. reflexivity. Qed.

  Lemma linXSepLoop_unfold : forall t rest,
    linXSepLoop t rest =
    match rest with
    | [] => [t]
    | s :: r2 =>
        if tokIs s KW_Semicolon
        then match r2 with
             | [] => [t]
             | u :: r3 => if tokIsNonStarter u then t :: linXSepLoop u r3 else t :: linXSepLoop s r2
             end
        else t :: linXSepLoop s r2
    end.
  Proof. destruct rest; reflexivity. Qed.

  Lemma linXSepLoop_retok : forall n rest t, (length rest <= n)%nat ->
    linXSepLoop (retok t) (map retok rest) = map retok (linXSepLoop t rest).
  Proof.
    induction n as [|n IH]; intros rest t L.
    { destruct rest; [reflexivity | simpl in L; lia]. }
    rewrite (linXSepLoop_unfold (retok t)), (linXSepLoop_unfold t).
    destruct rest as [|s r2]; cbn [map]; auto.
    rewrite tokIs_retok. cbn [length] in L.
    destruct (tokIs s KW_Semicolon).
    - destruct r2 as [|u r3]; cbn [map]; auto.
      rewrite tokIsNonStarter_retok. cbn [length] in L.
      destruct (tokIsNonStarter u); cbn [map]; f_equal.
      + apply IH. lia.
      + change (retok u :: map retok r3) with (map retok (u :: r3)). apply IH. cbn [length]. lia.
    - cbn [map]. f_equal. apply IH. lia.
  Qed.

  Lemma linXSepLead_retok : forall tl, linXSepLead (map retok tl) = map retok (linXSepLead tl).
  Proof.
    induction tl as [|t r IH]; simpl; auto. rewrite tokIs_retok. destruct (tokIs t KW_Semicolon); auto.
  Qed.

  Lemma linXSep_retok : forall tl, linXSep (map retok tl) = map retok (linXSep tl).
  Proof.
    intros. unfold linXSep. rewrite linXSepLead_retok.
    destruct (linXSepLead tl) as [|t r]; simpl; auto. apply (linXSepLoop_retok (length r)). lia.
  Qed.

  (* ---- tree accessors *)

  Lemma lntFirstTok_retree : forall t, lntFirstTok (retree t) = option_map retok (lntFirstTok t).
  Proof.
    induction t as [x h i|ts h i|args h i IH|args h i IH] using tree_ind'; simpl; auto.
    - destruct ts; reflexivity.
    - destruct args; simpl; auto. now inversion IH.
    - destruct args; simpl; auto. now inversion IH.
  Qed.

  Lemma last_map_Some_retok : forall ts,
    last (map Some (map retok ts)) None = option_map retok (last (map Some ts) None).
  Proof.
    induction ts as [|t r IH]; simpl; auto. destruct r; simpl in *; auto.
  Qed.

  Lemma lntLastTok_retree : forall t, lntLastTok (retree t) = option_map retok (lntLastTok t).
  Proof.
    induction t as [x h i|ts h i|args h i IH|args h i IH] using tree_ind'; auto.
    - apply last_map_Some_retok.
    - cbn [retree]. rewrite !lntLastTok_nodes.
      induction IH as [|a r Ha Hr IHr]; auto. destruct r; auto.
    - cbn [retree]. rewrite !lntLastTok_pile.
      induction IH as [|a r Ha Hr IHr]; auto. destruct r; auto.
  Qed.

  Lemma lastNonNL_retok : forall ts, lastNonNL (map retok ts) = option_map retok (lastNonNL ts).
  Proof.
    induction ts as [|t r IH]; simpl; auto. rewrite IH, tokIs_retok.
    destruct (lastNonNL r); simpl; auto. destruct (tokIs t KW_NewLine); auto.
  Qed.

  Lemma goLastLessNL_retree : forall l,
    Forall (fun t => lntLastTokLessNL (retree t) = option_map retok (lntLastTokLessNL t)) l ->
    goLastLessNL (map retree l) = option_map retok (goLastLessNL l).
  Proof.
    induction 1 as [|a r Ha Hr IHr]; auto. cbn [map goLastLessNL]. rewrite IHr.
    destruct (goLastLessNL r); auto.
  Qed.

  Lemma lntLastTokLessNL_retree : forall t, lntLastTokLessNL (retree t) = option_map retok (lntLastTokLessNL t).
  Proof.
    induction t as [x h i|ts h i|args h i IH|args h i IH] using tree_ind'; auto.
    - simpl. rewrite tokIs_retok. destruct (tokIs x KW_NewLine); auto.
    - apply lastNonNL_retok.
    - cbn [retree]. rewrite !lntLastTokLessNL_nodes. now apply goLastLessNL_retree.
    - cbn [retree]. rewrite !lntLastTokLessNL_pile. now apply goLastLessNL_retree.
  Qed.

  Lemma lntLastTokLessNL_o_retree : forall c,
    lntLastTokLessNL_o (option_map retree c) = option_map retok (lntLastTokLessNL_o c).
  Proof. intros [t|]; simpl; auto. apply lntLastTokLessNL_retree. Qed.

  Lemma lntConcat2_retree : forall a b, lntConcat2 (retree a) (retree b) = retree (lntConcat2 a b).
  Proof. intros. unfold lntConcat2. simpl. now rewrite !thas_retree, tindent_retree. Qed.

  Lemma lntConcat_retree : forall a b,
    lntConcat (option_map retree a) (option_map retree b) = option_map retree (lntConcat a b).
  Proof.
    intros [a|] [b|]; simpl; auto. now rewrite !thas_retree, tindent_retree.
  Qed.

  Lemma lntSeparate_retree : forall l k r, lntSeparate (retree l) k (retree r) = retree (lntSeparate l k r).
  Proof.
    intros. unfold lntSeparate. simpl.
    rewrite !thas_retree, tindent_retree, lntLastTok_retree, linKeyword_retok, lntTok_retok. reflexivity.
  Qed.

  Lemma lntWrap_retree : forall o l c, lntWrap o (retree l) c = retree (lntWrap o l c).
  Proof.
    intros. unfold lntWrap. simpl.
    rewrite !thas_retree, tindent_retree, lntLastTok_retree, lntFirstTok_retree,
            !linKeyword_retok, !lntTok_retok. reflexivity.
  Qed.

  (* ---- tree -> tokens *)

  Lemma lntConsNL_retok : forall rs, lntConsNL (map retok rs) = map retok (lntConsNL rs).
  Proof. intros [|t r]; reflexivity. Qed.

  Lemma toToks_retree : forall t rs, toToks (retree t) (map retok rs) = map retok (toToks t rs).
  Proof.
    induction t as [x h i|ts h i|args h i IH|args h i IH] using tree_ind'; intros rs; simpl; auto.
    - now rewrite <- map_rev, <- map_app.
    - revert rs. induction IH as [|a r Ha Hr IHr]; intros rs; simpl; auto.
      rewrite Ha. apply IHr.
    - destruct IH as [|a0 r0 Ha0 Hr0]; simpl; auto.
      rewrite Ha0, lntConsNL_retok.
      generalize (lntConsNL (toToks a0 rs)). clear Ha0.
      induction Hr0 as [|a r Ha Hr IHr]; intros rs'; simpl; auto.
      destruct r as [|b r']; simpl.
      + apply Ha.
      + rewrite Ha, lntConsNL_retok. apply IHr.
  Qed.

  Lemma lntToTokenList_retree : forall t, lntToTokenList (retree t) = map retok (lntToTokenList t).
  Proof.
    intros. unfold lntToTokenList. change (@nil tok) with (map retok []) at 1.
    now rewrite toToks_retree, map_rev.
  Qed.

  (* ---- token list -> tree *)

  Lemma tokOf_retree : forall t, tokOf (retree t) = map retok (tokOf t).
  Proof. destruct t; reflexivity. Qed.

  Lemma flat_map_tokOf_retree : forall l, flat_map tokOf (map retree l) = map retok (flat_map tokOf l).
  Proof. induction l; simpl; auto. now rewrite tokOf_retree, IHl, map_app. Qed.

  Lemma makeLine_retree : forall ll i n,
    makeLine (map retree ll) (reind i) n = retree (makeLine ll i n).
  Proof.
    intros ll i n. unfold makeLine. rewrite hasOfList_retree, map_length, <- map_rev, flat_map_tokOf_retree.
    destruct ll as [|a [|b r]]; auto.
    - cbn [map length]. destruct (Nat.eqb 0 n); reflexivity.
    - cbn [map]. change (retree a :: retree b :: map retree r) with (map retree (a :: b :: r)).
      destruct (Nat.eqb (length (a :: b :: r)) n); reflexivity.
  Qed.

  Local Arguments lntTok : simpl never.
  Local Arguments linIndentation : simpl never.
  Local Arguments makeLine : simpl never.

  Definition ores {A} (h : A -> A) (o : option A) : option A := option_map h o.

  Definition re_tl (r : tree * list tok) := (retree (fst r), map retok (snd r)).
  Definition re_ll (r : list tree * list tok) := (map retree (fst r), map retok (snd r)).
  Definition re_lnl (r : list tree * nat * list tok) :=
    (map retree (fst (fst r)), snd (fst r), map retok (snd r)).

  Ltac fin := unfold re_tl, re_ll, re_lnl; simpl;
              rewrite ?lntTok_retok, ?map_app, ?map_rev, ?thas_retree, ?hasOfList_retree; simpl;
              rewrite ?thas_retree, ?f_zero; try reflexivity.

  Ltac fm := repeat match goal with
    | |- context [retok ?a :: map retok ?b] => change (retok a :: map retok b) with (map retok (a :: b))
    | |- context [retree ?a :: map retree ?b] => change (retree a :: map retree b) with (map retree (a :: b))
    end.

  Lemma fr_retok : forall n,
    (forall dp dn tl, frDoPile n dp dn (map retok tl) = option_map re_tl (frDoPile n dp dn tl)) /\
    (forall dp dn tl ll, doPileLines n dp dn (map retok tl) (map retree ll)
                         = option_map re_ll (doPileLines n dp dn tl ll)) /\
    (forall dp dn tl, frDoLine n dp dn (map retok tl) = option_map re_tl (frDoLine n dp dn tl)) /\
    (forall dp dn tl ll k, doLineLoop n dp dn (map retok tl) (map retree ll) k
                           = option_map re_lnl (doLineLoop n dp dn tl ll k)) /\
    (forall dp dn tl, frDontPile n dp dn (map retok tl) = option_map re_tl (frDontPile n dp dn tl)) /\
    (forall dp dn tl st, frDontLine n dp dn (map retok tl) st = option_map re_tl (frDontLine n dp dn tl st)) /\
    (forall dp dn tl st d ll k, dontLineLoop n dp dn (map retok tl) st d (map retree ll) k
                                = option_map re_lnl (dontLineLoop n dp dn tl st d ll k)).
  Proof.
    induction n as [|n (IH1 & IH2 & IH3 & IH4 & IH5 & IH6 & IH7)].
    { repeat split; reflexivity. }
    repeat split.
    - (* frDoPile *)
      intros dp dn [|t0 r]; simpl; auto.
      rewrite lntTok_retok. change [retree (lntTok t0)] with (map retree [lntTok t0]).
      rewrite IH2.
      destruct (doPileLines n (S dp) dn r [lntTok t0]) as [[ll tl1]|]; simpl; auto.
      change (retok t0 :: map retok r) with (map retok (t0 :: r)).
      rewrite linIndentation_retok.
      destruct tl1 as [|t r1]; simpl.
      + fin.
      + rewrite tokIs_retok. destruct (tokIs t KW_EndPile); fin.
    - (* doPileLines *)
      intros dp dn [|t r] ll; simpl; auto.
      rewrite tokIs_retok. destruct (tokIs t KW_EndPile); auto.
      change (retok t :: map retok r) with (map retok (t :: r)).
      rewrite IH3. destruct (frDoLine n dp dn (t :: r)) as [[lnt tl']|]; simpl; auto.
      change (retree lnt :: map retree ll) with (map retree (lnt :: ll)). fm; apply IH2.
    - (* frDoLine *)
      intros dp dn [|t r]; simpl; [fin|].
      change (@nil tree) with (map retree []) at 1.
      change (retok t :: map retok r) with (map retok (t :: r)).
      rewrite IH4. destruct (doLineLoop n dp dn (t :: r) [] 0%nat) as [[[ll k] tl']|]; simpl; auto.
      unfold re_tl; simpl. change (retok t :: map retok r) with (map retok (t :: r)).
      rewrite linIndentation_retok, makeLine_retree. reflexivity.
    - (* doLineLoop *)
      intros dp dn [|t r] ll k; simpl; auto.
      rewrite !tokIs_retok.
      change (retok t :: map retok r) with (map retok (t :: r)).
      destruct (tokIs t KW_StartPile).
      { rewrite IH1. destruct (frDoPile n dp dn (t :: r)) as [[lnt tl']|]; simpl; auto.
        change (retree lnt :: map retree ll) with (map retree (lnt :: ll)).
        destruct tl'; simpl.
        - rewrite !andb_false_r. reflexivity.
        - match goal with |- (if ?c then _ else _) = _ => destruct c end; auto. fm; apply IH4. }
      destruct (tokIs t KW_OCurly).
      { rewrite IH5. destruct (frDontPile n dp dn (t :: r)) as [[lnt tl']|]; simpl; auto.
        change (retree lnt :: map retree ll) with (map retree (lnt :: ll)).
        destruct tl'; simpl.
        - rewrite !andb_false_r. reflexivity.
        - match goal with |- (if ?c then _ else _) = _ => destruct c end; auto. fm; apply IH4. }
      destruct (tokIs t KW_EndPile).
      { simpl. match goal with |- (if ?c then _ else _) = _ => destruct c end; auto. fm; apply IH4. }
      rewrite lntTok_retok.
      change (retree (lntTok t) :: map retree ll) with (map retree (lntTok t :: ll)).
      set (L := map retree (lntTok t :: ll)).
      destruct r; simpl.
      + rewrite !andb_false_r. reflexivity.
      + match goal with |- (if ?c then _ else _) = _ => destruct c end; auto. subst L. fm; apply IH4.
    - (* frDontPile *)
      intros dp dn [|t0 r]; simpl; auto.
      rewrite IH6. destruct (frDontLine n dp (S dn) r true) as [[body tl1]|]; simpl; auto.
      change (retok t0 :: map retok r) with (map retok (t0 :: r)).
      rewrite linIndentation_retok.
      destruct tl1 as [|t r1]; simpl.
      + fin.
      + rewrite tokIs_retok. destruct (tokIs t KW_CCurly); fin.
    - (* frDontLine *)
      intros dp dn [|t r] st; simpl; [fin|].
      change (@nil tree) with (map retree []) at 1.
      change (retok t :: map retok r) with (map retok (t :: r)).
      rewrite IH7. destruct (dontLineLoop n dp dn (t :: r) st 0%nat [] 0%nat) as [[[ll k] tl']|]; simpl; auto.
      unfold re_tl; simpl. change (retok t :: map retok r) with (map retok (t :: r)).
      rewrite linIndentation_retok, makeLine_retree. reflexivity.
    - (* dontLineLoop *)
      intros dp dn [|t r] st d ll k; simpl; auto.
      rewrite !tokIs_retok.
      change (retok t :: map retok r) with (map retok (t :: r)).
      destruct (tokIs t KW_StartPile).
      { rewrite IH1. destruct (frDoPile n dp dn (t :: r)) as [[lnt tl']|]; simpl; auto.
        change (retree lnt :: map retree ll) with (map retree (lnt :: ll)). fm; apply IH7. }
      destruct (st && tokIs t KW_CCurly && Nat.eqb d 0); auto.
      rewrite lntTok_retok.
      change (retree (lntTok t) :: map retree ll) with (map retree (lntTok t :: ll)). apply IH7.
  Qed.

  Lemma lntFrTokenList_retok : forall tl,
    lntFrTokenList (map retok tl) = option_map retree (lntFrTokenList tl).
  Proof.
    intros. unfold lntFrTokenList, parseFuel. rewrite map_length.
    destruct (fr_retok (4 * length tl + 8)%nat) as (_ & _ & _ & _ & _ & H6 & _).
    rewrite H6. destruct (frDontLine _ _ _ tl false) as [[t r]|]; reflexivity.
  Qed.

  (* ---- piling rules *)

  Lemma isPileRequired_retree : forall c l,
    isPileRequired (option_map retree c) (retree l) = isPileRequired c l.
  Proof.
    intros. unfold isPileRequired. rewrite lntLastTokLessNL_o_retree.
    destruct (lntLastTokLessNL_o c); reflexivity.
  Qed.

  Lemma isBackSetRequired_retree : forall c a b,
    isBackSetRequired (option_map retree c) (retree a) (retree b) = isBackSetRequired c a b.
  Proof.
    intros. unfold isBackSetRequired.
    rewrite linIsCom_retree, !linIsBlank_retree, lntLastTokLessNL_retree, lntFirstTok_retree.
    destruct (linIsCom a || linIsBlank a || linIsBlank b); auto.
    destruct (lntLastTokLessNL a), (lntFirstTok b); reflexivity.
  Qed.

  Lemma joinLoop_retree : forall c rest t0 acc had,
    joinLoop (option_map retree c) (retree t0) (retree acc) (map retree rest) had
    = (retree (fst (joinLoop c t0 acc rest had)), snd (joinLoop c t0 acc rest had)).
  Proof.
    induction rest as [|t1 r IH]; intros; simpl; auto.
    rewrite isBackSetRequired_retree. destruct (isBackSetRequired c t0 t1).
    - rewrite lntSeparate_retree. apply IH.
    - rewrite lntConcat2_retree. apply IH.
  Qed.

  Lemma joinUp_retree : forall c tll,
    joinUp (option_map retree c) (map retree tll) = option_map retree (joinUp c tll).
  Proof.
    intros c [|l0 rest]; simpl; auto.
    rewrite joinLoop_retree. destruct (joinLoop c l0 l0 rest false) as [lnt had]; simpl.
    rewrite isPileRequired_retree.
    destruct (had || isPileRequired c lnt); auto. now rewrite lntWrap_retree.
  Qed.

  Definition re_tt (r : tree * list tree) := (retree (fst r), map retree (snd r)).

  Lemma pileFinish_retree : forall c sofar lines,
    pileFinish (option_map retree c) (map retree sofar) (map retree lines)
    = option_map re_tt (pileFinish c sofar lines).
  Proof.
    intros. unfold pileFinish. rewrite <- map_rev, joinUp_retree.
    destruct (joinUp c (rev sofar)) as [j|]; simpl; auto.
    change (Some (retree j)) with (option_map retree (Some j)).
    rewrite lntConcat_retree. destruct (lntConcat c (Some j)); reflexivity.
  Qed.

  Lemma pileLoop_retree : forall n c indS lines sofar,
    pileLoop n (option_map retree c) (reind indS) (map retree lines) (map retree sofar)
    = option_map re_tt (pileLoop n c indS lines sofar).
  Proof.
    induction n as [|n IH]; intros; simpl; auto.
    destruct lines as [|l rest]; simpl.
    - change (@nil tree) with (map retree []). apply pileFinish_retree.
    - rewrite linIsBlank_retree, tindent_retree, ind_is_moot_reind, ind_ltb_reind, ind_eqb_reind.
      destruct (linIsBlank l || ind_is_moot (tindent l)).
      { change (retree l :: map retree sofar) with (map retree (l :: sofar)). apply IH. }
      destruct (ind_ltb (tindent l) indS).
      { change (retree l :: map retree rest) with (map retree (l :: rest)). apply pileFinish_retree. }
      destruct (ind_eqb (tindent l) indS).
      { change (retree l :: map retree sofar) with (map retree (l :: sofar)). apply IH. }
      destruct sofar as [|c0 s]; simpl; auto.
      pose proof (IH (Some c0) (tindent l) (l :: rest) []) as E. simpl in E. rewrite E. clear E.
      destruct (pileLoop n (Some c0) (tindent l) (l :: rest) []) as [[r lines']|]; simpl; auto.
      change (retree r :: map retree s) with (map retree (r :: s)). apply IH.
  Qed.

  Lemma pile0_retree : forall n c lines,
    pile0 n (option_map retree c) (map retree lines) = option_map re_tt (pile0 n c lines).
  Proof.
    intros n c [|l0 r]; simpl; auto.
    rewrite tindent_retree. change (retree l0 :: map retree r) with (map retree (l0 :: r)).
    change (@nil tree) with (map retree []). apply pileLoop_retree.
  Qed.

  Local Arguments pile0 : simpl never.

  Lemma pileRest_retree : forall n rnt lines,
    pileRest n (retree rnt) (map retree lines) = option_map retree (pileRest n rnt lines).
  Proof.
    induction n as [|n IH]; intros; simpl; auto.
    destruct lines as [|l r]; simpl; auto.
    change (retree l :: map retree r) with (map retree (l :: r)).
    change (Some (retree rnt)) with (option_map retree (Some rnt)).
    rewrite pile0_retree. destruct (pile0 n (Some rnt) (l :: r)) as [[r' lines']|]; simpl; auto.
  Qed.

  Lemma linIsArgKW_retree : forall o k, linIsArgKW (option_map retree o) k = linIsArgKW o k.
  Proof. intros [[x h i| | |]|] k; reflexivity. Qed.

  Lemma hd_error_map : forall A B (h : A -> B) l, hd_error (map h l) = option_map h (hd_error l).
  Proof. destruct l; reflexivity. Qed.

  Lemma last_map_Some_retree : forall l,
    last (map Some (map retree l)) None = option_map retree (last (map Some l) None).
  Proof. induction l as [|a r IH]; simpl; auto. destruct r; simpl in *; auto. Qed.

  Lemma removelast_map : forall A B (h : A -> B) l, removelast (map h l) = map h (removelast l).
  Proof. induction l as [|a r IH]; simpl; auto. destruct r; simpl in *; auto. now rewrite IH. Qed.

  Lemma tl_map : forall A B (h : A -> B) l, tl (map h l) = map h (tl l).
  Proof. destruct l; reflexivity. Qed.

  Lemma lin2DRulesPile_retree : forall args,
    lin2DRulesPile (map retree args) = option_map retree (lin2DRulesPile args).
  Proof.
    intros. unfold lin2DRulesPile, pileFuel.
    rewrite hd_error_map, last_map_Some_retree, !linIsArgKW_retree, map_length.
    set (hs := linIsArgKW (hd_error args) KW_StartPile).
    set (he := linIsArgKW (last (map Some args) None) KW_EndPile).
    assert (E : (if hs && he
                 then removelast (if hs then tl (map retree args) else map retree args)
                 else if hs then tl (map retree args) else map retree args)
                = map retree (if hs && he then removelast (if hs then tl args else args)
                              else if hs then tl args else args)).
    { destruct hs, he; simpl; rewrite ?tl_map, ?removelast_map; reflexivity. }
    rewrite E.
    match goal with |- context [pile0 ?n None (map retree ?l)] =>
      pose proof (pile0_retree n None l) as E2; cbn [option_map] in E2; rewrite E2;
      destruct (pile0 n None l) as [[rnt lines']|] end; simpl; auto.
    apply pileRest_retree.
  Qed.

  Lemma goRules_retree : forall l,
    Forall (fun t => lin2DRules (retree t) = option_map retree (lin2DRules t)) l ->
    goRules (map retree l) = option_map (map retree) (goRules l).
  Proof.
    induction 1 as [|a r Ha Hr IHr]; auto. cbn [map goRules]. rewrite Ha, IHr.
    destruct (lin2DRules a); auto. destruct (goRules r); auto.
  Qed.

  Lemma lin2DRules_retree : forall t, lin2DRules (retree t) = option_map retree (lin2DRules t).
  Proof.
    induction t as [x h i|ts h i|args h i IH|args h i IH] using tree_ind'; auto.
    - cbn [retree]. rewrite !lin2DRules_nodes, (goRules_retree _ IH).
      destruct (goRules args); auto.
    - cbn [retree]. rewrite !lin2DRules_pile, (goRules_retree _ IH).
      destruct (goRules args); auto. apply lin2DRulesPile_retree.
  Qed.

  (* ---- the whole lineariser commutes with re-positioning *)

  Theorem linearize_retok : forall tl,
    linearize (map retok tl) = option_map (map retok) (linearize tl).
  Proof.
    intros tl. unfold linearize, linUseNeededSep.
    rewrite linXTokens_retok, linXBlankLines_retok, lntFrTokenList_retok.
    destruct (lntFrTokenList (linXBlankLines (linXTokens TK_Comment tl))) as [lnt|]; simpl; auto.
    rewrite lin2DRules_retree. destruct (lin2DRules lnt) as [lnt'|]; simpl; auto.
    now rewrite lntToTokenList_retree, linXTokens_retok, linISep_retok, linXSep_retok.
  Qed.

End Repos.

(* ------------------------------------------------------------------ erasing positions *)

Definition etok (t : tok) : N * N := (ttag t, tval t).
Definition erase (l : list tok) : list (N * N) := map etok l.
Definition oerase (o : option (list tok)) : option (list (N * N)) := option_map erase o.

Lemma erase_retok : forall f g l, erase (map (retok f g) l) = erase l.
Proof. intros. unfold erase. rewrite map_map. reflexivity. Qed.

(* lin_monotone_reindent: ANY strictly monotone re-mapping f of the columns that keeps the
   "no position" column 0 (scanner columns start at 1) and ANY re-mapping g of the line numbers
   leaves the linearised stream unchanged up to positions. *)
Theorem lin_monotone_reindent_pos : forall (f g : N -> N),
  (forall a b, a < b -> f a < f b) -> f 0 = 0 ->
  forall ts, linearize (map (retok f g) ts) = option_map (map (retok f g)) (linearize ts).
Proof. intros f g Hm H0 ts. now apply linearize_retok. Qed.

Theorem lin_monotone_reindent_erase : forall (f g : N -> N),
  (forall a b, a < b -> f a < f b) -> f 0 = 0 ->
  forall ts, oerase (linearize (map (retok f g) ts)) = oerase (linearize ts).
Proof.
  intros f g Hm H0 ts. rewrite linearize_retok by assumption.
  destruct (linearize ts); simpl; auto. now rewrite erase_retok.
Qed.

(* a re-mapping only defined / monotone on the columns the scanner produces (>= 1) *)
Theorem lin_monotone_reindent_from1 : forall (f g : N -> N),
  (forall a b, 1 <= a -> a < b -> f a < f b) -> (forall a, 1 <= a -> 1 <= f a) ->
  forall ts, Forall (fun t => match tpos t with Some (_, c) => 1 <= c | None => True end) ts ->
  oerase (linearize (map (retok f g) ts)) = oerase (linearize ts).
Proof.
  intros f g Hm H1 ts Hts.
  set (f' := fun c => if N.eqb c 0 then 0 else f c).
  assert (E : map (retok f g) ts = map (retok f' g) ts).
  { apply map_ext_in. intros t Ht. rewrite Forall_forall in Hts. specialize (Hts t Ht).
    destruct t as [a v [[l c]|]]; unfold retok; simpl in *; auto.
    unfold f'. destruct (N.eqb_spec c 0); [lia | reflexivity]. }
  rewrite E. apply lin_monotone_reindent_erase.
  - intros a b L. unfold f'.
    destruct (N.eqb_spec a 0) as [->|Na]; destruct (N.eqb_spec b 0) as [->|Nb]; try lia.
    + specialize (H1 b). lia.
    + apply Hm; lia.
  - reflexivity.
Qed.

(* ------------------------------------------------------------------ blank lines and comments *)

Lemma xbl_skip : forall l, linXBlankLines l = linXBlankLinesSkip l.
Proof.
  unfold linXBlankLines. induction l as [|t r IH]; simpl; auto.
  destruct (tokIs t KW_NewLine) eqn:E; auto. simpl. rewrite E. simpl.
  destruct (tokIs t KW_StartPile); reflexivity.
Qed.

Lemma xbl_insert_nl_mid : forall t n Q, tokIs n KW_NewLine = true ->
  (tokIs t KW_NewLine || tokIs t KW_StartPile) = true ->
  forall P, linXBlankLinesLoop (P ++ t :: n :: Q) = linXBlankLinesLoop (P ++ t :: Q)
         /\ linXBlankLinesSkip (P ++ t :: n :: Q) = linXBlankLinesSkip (P ++ t :: Q).
Proof.
  intros t n Q Hn Ht. induction P as [|x P [IH1 IH2]].
  - simpl. rewrite Ht, Hn. split; auto.
    destruct (tokIs t KW_NewLine); auto. simpl in Ht. rewrite Ht. reflexivity.
  - simpl. rewrite IH1, IH2. split; reflexivity.
Qed.

(* at the beginning of a line, looking back over comments: nothing, a newline, or `#pile`
   (the `#pile` command line swallows its own newline) *)
Fixpoint at_bol (rev_prefix : list tok) : bool :=
  match rev_prefix with
  | [] => true
  | t :: r => if tokIs t TK_Comment then at_bol r
              else tokIs t KW_NewLine || tokIs t KW_StartPile
  end.

Lemma at_bol_filtered : forall rp, at_bol rp = true ->
  let P := linXTokens TK_Comment (rev rp) in
  P = [] \/ exists P' t, P = P' ++ [t] /\ (tokIs t KW_NewLine || tokIs t KW_StartPile) = true.
Proof.
  induction rp as [|t r IH]; simpl; intros H; auto.
  unfold linXTokens in *. rewrite filter_app. simpl.
  destruct (tokIs t TK_Comment) eqn:E; simpl.
  - rewrite app_nil_r. auto.
  - right. exists (filter (fun t0 => negb (tokIs t0 TK_Comment)) (rev r)), t. auto.
Qed.

Theorem lin_insert_comment : forall pre c post, tokIs c TK_Comment = true ->
  linearize (pre ++ c :: post) = linearize (pre ++ post).
Proof.
  intros pre c post Hc.
  assert (E : linXTokens TK_Comment (pre ++ c :: post) = linXTokens TK_Comment (pre ++ post)).
  { unfold linXTokens. rewrite !filter_app. simpl. rewrite Hc. reflexivity. }
  unfold linearize. rewrite E. reflexivity.
Qed.

Theorem lin_insert_blank_line : forall pre n post, tokIs n KW_NewLine = true ->
  at_bol (rev pre) = true ->
  linearize (pre ++ n :: post) = linearize (pre ++ post).
Proof.
  intros pre n post Hn Hb.
  assert (E : linXBlankLines (linXTokens TK_Comment (pre ++ n :: post))
            = linXBlankLines (linXTokens TK_Comment (pre ++ post))).
  { assert (Hc : tokIs n TK_Comment = false).
    { unfold tokIs in *. apply N.eqb_eq in Hn. rewrite Hn. reflexivity. }
    unfold linXTokens. rewrite !filter_app. simpl. rewrite Hc. simpl.
    apply at_bol_filtered in Hb. rewrite rev_involutive in Hb. unfold linXTokens in Hb.
    destruct Hb as [-> | (P' & t & -> & Ht)].
    - simpl. unfold linXBlankLines. simpl. rewrite Hn. reflexivity.
    - rewrite !xbl_skip, <- !app_assoc. simpl. now apply xbl_insert_nl_mid. }
  unfold linearize. rewrite E. reflexivity.
Qed.

(* the closure: any sequence of such insertions and deletions *)
Inductive layout_eq : list tok -> list tok -> Prop :=
| le_refl : forall l, layout_eq l l
| le_sym : forall a b, layout_eq a b -> layout_eq b a
| le_trans : forall a b c, layout_eq a b -> layout_eq b c -> layout_eq a c
| le_comment : forall pre c post, tokIs c TK_Comment = true ->
    layout_eq (pre ++ post) (pre ++ c :: post)
| le_blank : forall pre n post, tokIs n KW_NewLine = true -> at_bol (rev pre) = true ->
    layout_eq (pre ++ post) (pre ++ n :: post).

Theorem lin_blank_comment_insens : forall a b, layout_eq a b -> linearize a = linearize b.
Proof.
  induction 1; auto.
  - congruence.
  - symmetry. now apply lin_insert_comment.
  - symmetry. now apply lin_insert_blank_line.
Qed.

(* inserted lines shift the line numbers of what follows: combine with re-lining *)
Corollary lin_blank_comment_insens_relined : forall a b (g : N -> N),
  layout_eq a b ->
  oerase (linearize (map (retok (fun c => c) g) b)) = oerase (linearize a).
Proof.
  intros a b g H. rewrite lin_monotone_reindent_erase; auto.
  now rewrite (lin_blank_comment_insens _ _ H).
Qed.

(* ------------------------------------------------------------------ outside #pile *)

Definition no_pile (l : list tok) : Prop := Forall (fun t => tokIs t KW_StartPile = false) l.

Lemma no_pile_filter : forall p l, no_pile l -> no_pile (filter p l).
Proof.
  intros p l H. unfold no_pile in *. rewrite Forall_forall in *.
  intros t Ht. apply filter_In in Ht. now apply H.
Qed.

Lemma no_pile_skip : forall l, no_pile l ->
  no_pile (linXBlankLinesLoop l) /\ no_pile (linXBlankLinesSkip l).
Proof.
  induction 1 as [|t r Ht Hr [IH1 IH2]]; simpl.
  - split; constructor.
  - rewrite Ht, orb_false_r. destruct (tokIs t KW_NewLine); split; auto; constructor; auto.
Qed.

Lemma dontLineLoop_ns : forall n dp dn t r d ll k, tokIs t KW_StartPile = false ->
  dontLineLoop (S n) dp dn (t :: r) false d ll k
  = dontLineLoop n dp dn r false d (lntTok t :: ll) (S k).
Proof. intros. simpl. rewrite H. reflexivity. Qed.

Lemma dontLineLoop_nil : forall n dp dn st d ll k,
  dontLineLoop (S n) dp dn [] st d ll k = Some (ll, k, []).
Proof. reflexivity. Qed.

Lemma dontLineLoop_nopile : forall tl, no_pile tl ->
  forall m dp dn d ll k,
  dontLineLoop (S (length tl) + m) dp dn tl false d ll k
  = Some (rev (map lntTok tl) ++ ll, (k + length tl)%nat, []).
Proof.
  induction 1 as [|t r Ht Hr IH]; intros.
  - cbn [length plus]. rewrite dontLineLoop_nil. cbn [map rev app length]. now rewrite Nat.add_0_r.
  - cbn [length plus]. rewrite dontLineLoop_ns by assumption.
    change (S (length r + m)) with (S (length r) + m)%nat. rewrite IH.
    cbn [map rev]. rewrite <- app_assoc. simpl. repeat f_equal. lia.
Qed.

Lemma flat_map_tokOf_lntTok : forall tl, flat_map tokOf (map lntTok tl) = tl.
Proof. induction tl; simpl; auto. now rewrite IHtl. Qed.

Lemma lntFrTokenList_nopile : forall tl, no_pile tl ->
  exists t, lntFrTokenList tl = Some t /\ lin2DRules t = Some t /\ lntToTokenList t = tl.
Proof.
  intros tl H. unfold lntFrTokenList, parseFuel.
  destruct tl as [|a r].
  - simpl. exists emptyLine. auto.
  - assert (F : (4 * length (a :: r) + 8 = S (S (length (a :: r)) + (3 * length (a :: r) + 6)))%nat) by lia.
    rewrite F. cbn [frDontLine]. rewrite dontLineLoop_nopile by assumption.
    rewrite app_nil_r. cbn [plus].
    destruct r as [|b r'].
    + simpl. exists (lntTok a). auto.
    + eexists. split; [reflexivity|].
      unfold makeLine.
      assert (L : length (rev (map lntTok (a :: b :: r'))) = length (a :: b :: r')).
      { now rewrite rev_length, map_length. }
      rewrite L, Nat.eqb_refl, rev_involutive, flat_map_tokOf_lntTok.
      destruct (rev (map lntTok (a :: b :: r'))) as [|x [|y z]] eqn:E.
      * simpl in L. discriminate.
      * simpl in L. discriminate.
      * split; [reflexivity|]. unfold lntToTokenList. cbn [toToks].
        now rewrite app_nil_r, rev_involutive.
Qed.

Lemma xnl_skip : forall l,
  linXTokens KW_NewLine (linXBlankLinesLoop l) = linXTokens KW_NewLine l /\
  linXTokens KW_NewLine (linXBlankLinesSkip l) = linXTokens KW_NewLine l.
Proof.
  unfold linXTokens. induction l as [|t r [IH1 IH2]]; simpl; auto.
  destruct (tokIs t KW_NewLine) eqn:E; simpl.
  - rewrite E. simpl. auto.
  - destruct (tokIs t KW_StartPile); simpl; rewrite E; simpl; rewrite ?IH1, ?IH2; auto.
Qed.

(* lin_nonpile_is_filter: without `#pile` the lineariser is: drop comments and newlines, then the
   two `;` rules — no position is ever looked at. *)
Theorem lin_nonpile_is_filter : forall ts, no_pile ts ->
  linearize ts = Some (linUseNeededSep (linXTokens KW_NewLine (linXTokens TK_Comment ts))).
Proof.
  intros ts H. unfold linearize.
  assert (H2 : no_pile (linXBlankLines (linXTokens TK_Comment ts))).
  { rewrite xbl_skip. apply no_pile_skip. now apply no_pile_filter. }
  destruct (lntFrTokenList_nopile _ H2) as (t & E1 & E2 & E3).
  rewrite E1, E2, E3, xbl_skip. now rewrite (proj2 (xnl_skip _)).
Qed.

(* ... hence two non-piled token lists with the same ordinary tokens (any positions, any
   newlines and comments anywhere) linearise to the same stream up to positions *)

Lemma etok_tag : forall t t', etok t = etok t' -> ttag t = ttag t'.
Proof. intros t t' H. apply (f_equal fst) in H. exact H. Qed.

Lemma etok_tokIs : forall t t' k, etok t = etok t' -> tokIs t k = tokIs t' k.
Proof. intros t t' k H. unfold tokIs. now rewrite (etok_tag _ _ H). Qed.

Lemma etok_nonstarter : forall t t', etok t = etok t' -> tokIsNonStarter t = tokIsNonStarter t'.
Proof. intros t t' H. unfold tokIsNonStarter. now rewrite (etok_tag _ _ H). Qed.

Lemma erase_cons : forall t r, erase (t :: r) = etok t :: erase r.
Proof. reflexivity. Qed.

Lemma erase_cons_inv : forall t r t' r', erase (t :: r) = erase (t' :: r') ->
  etok t = etok t' /\ erase r = erase r'.
Proof.
  intros t r t' r' H. rewrite !erase_cons in H.
  split; [exact (f_equal (hd (etok t)) H) | exact (f_equal (@tl _) H)].
Qed.

Lemma erase_nil_inv : forall l, erase l = [] -> l = [].
Proof. destruct l; [auto | discriminate]. Qed.

Lemma linISep_erase : forall l l', erase l = erase l' ->
  erase (linISepAfterDontPiles l) = erase (linISepAfterDontPiles l').
Proof.
  induction l as [|t r IH]; intros [|t' r'] E; try discriminate; auto.
  destruct (erase_cons_inv _ _ _ _ E) as [Et Er].
  cbn [linISepAfterDontPiles].
  rewrite <- (etok_tokIs t t' KW_CCurly Et). destruct (tokIs t KW_CCurly).
  - destruct r as [|u r0], r' as [|u' r0']; try discriminate.
    + rewrite !erase_cons. now rewrite Et.
    + destruct (erase_cons_inv _ _ _ _ Er) as [Eu _].
      rewrite <- (etok_tokIs u u' KW_Semicolon Eu). specialize (IH (u' :: r0') Er).
      destruct (tokIs u KW_Semicolon); rewrite !erase_cons, Et, IH; reflexivity.
  - rewrite !erase_cons, Et. f_equal. auto.
Qed.

Lemma linXSepLoop_erase : forall n rest rest' t t', (length rest <= n)%nat ->
  etok t = etok t' -> erase rest = erase rest' ->
  erase (linXSepLoop t rest) = erase (linXSepLoop t' rest').
Proof.
  induction n as [|n IH]; intros rest rest' t t' L Et Er.
  { destruct rest; [|simpl in L; lia]. destruct rest'; [|discriminate]. cbn [linXSepLoop].
    now rewrite !erase_cons, Et. }
  rewrite (linXSepLoop_unfold t), (linXSepLoop_unfold t').
  destruct rest as [|s r2], rest' as [|s' r2']; try discriminate.
  { now rewrite !erase_cons, Et. }
  destruct (erase_cons_inv _ _ _ _ Er) as [Es Er2]. cbn [length] in L.
  rewrite <- (etok_tokIs s s' KW_Semicolon Es). destruct (tokIs s KW_Semicolon).
  - destruct r2 as [|u r3], r2' as [|u' r3']; try discriminate.
    { now rewrite !erase_cons, Et. }
    destruct (erase_cons_inv _ _ _ _ Er2) as [Eu Er3]. cbn [length] in L.
    rewrite <- (etok_nonstarter u u' Eu). destruct (tokIsNonStarter u); rewrite !erase_cons, Et; f_equal.
    + apply IH; auto. lia.
    + apply IH; auto. cbn [length]. lia.
  - rewrite !erase_cons, Et. f_equal. apply IH; auto. lia.
Qed.

Lemma linXSep_erase : forall l l', erase l = erase l' -> erase (linXSep l) = erase (linXSep l').
Proof.
  assert (Lead : forall l l', erase l = erase l' -> erase (linXSepLead l) = erase (linXSepLead l')).
  { induction l as [|t r IH]; intros [|t' r'] E; try discriminate; auto.
    destruct (erase_cons_inv _ _ _ _ E) as [Et Er]. cbn [linXSepLead].
    rewrite <- (etok_tokIs t t' KW_Semicolon Et). destruct (tokIs t KW_Semicolon); auto. }
  intros l l' E. apply Lead in E. unfold linXSep.
  destruct (linXSepLead l) as [|t r], (linXSepLead l') as [|t' r']; try discriminate; auto.
  destruct (erase_cons_inv _ _ _ _ E) as [Et Er]. now apply (linXSepLoop_erase (length r)).
Qed.

Lemma filter_erase : forall (p : tok -> bool) (q : N * N -> bool),
  (forall t, p t = q (etok t)) ->
  forall l, erase (filter p l) = filter q (erase l).
Proof.
  intros p q H. induction l as [|t r IH]; simpl; auto.
  rewrite <- H. destruct (p t); simpl; now rewrite IH.
Qed.

Theorem lin_nonpile_pos_indep : forall ts ts', no_pile ts -> no_pile ts' ->
  erase (linXTokens KW_NewLine (linXTokens TK_Comment ts))
  = erase (linXTokens KW_NewLine (linXTokens TK_Comment ts')) ->
  oerase (linearize ts) = oerase (linearize ts').
Proof.
  intros ts ts' H H' E. rewrite !lin_nonpile_is_filter by assumption. simpl. f_equal.
  unfold linUseNeededSep. apply linXSep_erase, linISep_erase, E.
Qed.

(* ------------------------------------------------------------------ examples (hypotheses are satisfiable, results non-trivial) *)

Module Examples.
  Definition tk (tag id line col : N) : tok := mkTok tag id (Some (line, col)).

  (*  #pile
      if a then
          b
          c
      else
          d
      e                                                       *)
  Definition ex_piled : list tok :=
    [ tk KW_StartPile 1 1 1;
      tk KW_If 2 2 1; tk TK_Id 3 2 4; tk KW_Then 4 2 6; tk KW_NewLine 5 2 10;
      tk TK_Id 6 3 5; tk KW_NewLine 7 3 6;
      tk TK_Id 8 4 5; tk KW_NewLine 9 4 6;
      tk KW_Else 10 5 1; tk KW_NewLine 11 5 5;
      tk TK_Id 12 6 5; tk KW_NewLine 13 6 6;
      tk TK_Id 14 7 1; tk KW_NewLine 15 7 2 ].

  Example ex_piled_lin :
    oerase (linearize ex_piled)
    = Some [ (KW_SetTab, 0); (KW_If, 2); (TK_Id, 3); (KW_Then, 4);
             (KW_SetTab, 0); (TK_Id, 6); (KW_BackSet, 0); (TK_Id, 8); (KW_BackTab, 0);
             (KW_Else, 10); (KW_SetTab, 0); (TK_Id, 12); (KW_BackTab, 0);
             (KW_BackSet, 0); (TK_Id, 14); (KW_BackTab, 0) ].
  Proof. vm_compute. reflexivity. Qed.

  (* lin_monotone_reindent: f = "indent three times as wide", g = "shift lines by 7" *)
  Example ex_reindent_hyp :
    (forall a b, a < b -> 3 * a < 3 * b) /\ 3 * 0 = 0.
  Proof. split; [intros; lia | reflexivity]. Qed.

  Example ex_reindent :
    oerase (linearize (map (retok (fun c => 3 * c) (fun l => l + 7)) ex_piled))
    = oerase (linearize ex_piled).
  Proof. apply lin_monotone_reindent_erase; [intros; lia | reflexivity]. Qed.

  (* the same program with a comment line, a blank line after `then`, and a blank line after #pile *)
  Definition ex_piled_commented : list tok :=
    [ tk KW_StartPile 1 1 1; tk KW_NewLine 20 2 1;
      tk KW_If 2 2 1; tk TK_Id 3 2 4; tk KW_Then 4 2 6; tk TK_Comment 21 2 11; tk KW_NewLine 5 2 10;
      tk TK_Comment 22 3 1; tk KW_NewLine 23 3 9;
      tk KW_NewLine 24 4 1;
      tk TK_Id 6 3 5; tk KW_NewLine 7 3 6;
      tk TK_Id 8 4 5; tk KW_NewLine 9 4 6;
      tk KW_Else 10 5 1; tk KW_NewLine 11 5 5;
      tk TK_Id 12 6 5; tk KW_NewLine 13 6 6;
      tk TK_Id 14 7 1; tk KW_NewLine 15 7 2 ].

  Example ex_layout_eq : layout_eq ex_piled ex_piled_commented.
  Proof.
    unfold ex_piled, ex_piled_commented.
    eapply le_trans; [apply (le_blank [tk KW_StartPile 1 1 1] (tk KW_NewLine 20 2 1)); reflexivity|].
    eapply le_trans; [apply (le_comment [_; _; _; _; _] (tk TK_Comment 21 2 11)); reflexivity|].
    eapply le_trans; [apply (le_comment [_; _; _; _; _; _; _] (tk TK_Comment 22 3 1)); reflexivity|].
    eapply le_trans; [apply (le_blank [_; _; _; _; _; _; _; _] (tk KW_NewLine 23 3 9)); reflexivity|].
    eapply le_trans; [apply (le_blank [_; _; _; _; _; _; _; _; _] (tk KW_NewLine 24 4 1)); reflexivity|].
    apply le_refl.
  Qed.

  (*  { a ; b }  spread over lines, with a comment: not piled *)
  Definition ex_braced : list tok :=
    [ tk KW_OCurly 1 1 1; tk KW_NewLine 2 1 2; tk TK_Id 3 2 9; tk KW_Semicolon 4 2 10;
      tk TK_Comment 5 2 12; tk KW_NewLine 6 2 20; tk TK_Id 7 3 1; tk KW_Semicolon 8 3 2;
      tk KW_NewLine 9 3 3; tk KW_CCurly 10 4 1; tk KW_NewLine 11 4 2; tk KW_Else 12 5 1 ].

  Example ex_no_pile : no_pile ex_braced.
  Proof. repeat constructor. Qed.

  Example ex_braced_lin :
    oerase (linearize ex_braced)
    = Some [ (KW_OCurly, 1); (TK_Id, 3); (KW_Semicolon, 4); (TK_Id, 7); (KW_CCurly, 10); (KW_Else, 12) ].
  Proof. vm_compute. reflexivity. Qed.
End Examples.

(* ------------------------------------------------------------------ indentation columns (include.c / scan.c TABSTOP rule) *)

(* Appending ANY blanks / tabs to an indentation strictly increases its column: nested blocks
   indented by any non-empty extra white space (1..8 blanks, tabs, mixtures) get strictly
   increasing first-token columns, which is all lin_monotone_reindent / piled_canon need. *)
Lemma tabstop_pos : 0 < TABSTOP. Proof. vm_compute. reflexivity. Qed.

Lemma indentLevel_ge : forall ws i, i <= indentLevel ws i.
Proof.
  induction ws as [|[|] r IH]; intros i; cbn [indentLevel].
  - lia.
  - etransitivity; [|apply IH]. assert (T := tabstop_pos).
    destruct (N.eqb_spec (i mod TABSTOP) 0); [lia|].
    assert (i mod TABSTOP < TABSTOP) by (apply N.mod_lt; lia). lia.
  - etransitivity; [|apply IH]. lia.
Qed.

Lemma indentLevel_app : forall a b i, indentLevel (a ++ b) i = indentLevel b (indentLevel a i).
Proof. induction a as [|[|] r IH]; intros; cbn [app indentLevel]; auto. Qed.

Lemma indentLevel_step : forall w i, i < indentLevel [w] i.
Proof.
  intros [|] i; cbn [indentLevel]; [|lia]. assert (T := tabstop_pos).
  destruct (N.eqb_spec (i mod TABSTOP) 0); [lia|].
  assert (i mod TABSTOP < TABSTOP) by (apply N.mod_lt; lia). lia.
Qed.

Theorem indent_prefix_mono : forall ws ws' i, ws' <> [] -> indentLevel ws i < indentLevel (ws ++ ws') i.
Proof.
  intros ws [|w r] i H; [congruence|]. rewrite indentLevel_app.
  change (w :: r) with ([w] ++ r). rewrite indentLevel_app.
  eapply N.lt_le_trans; [apply indentLevel_step | apply indentLevel_ge].
Qed.

Example ex_indent : indentLevel [false; true; false; false] 0 = TABSTOP + 2 /\ indentLevel [true; true] 0 = 2 * TABSTOP.
Proof. vm_compute. auto. Qed.
