(* C14 driver: one operation per line on stdin, one result per line on stdout.
     L tag:id:line:col tag:id:line:col ...    linearize (line = -1: sposNone)
     I <string over 's' 't'>                  indentLevel
     C item*   with  item ::= [ tag:id* | item* ]     wf_block, canonPiled, canonBraced
   Conversions int <-> N only; all logic is the extracted model. *)
open Linear

let rec pos_of_int n = if n = 1 then XH else if n land 1 = 0 then XO (pos_of_int (n lsr 1)) else XI (pos_of_int (n lsr 1))
let n_of_int n = if n = 0 then N0 else Npos (pos_of_int n)
let rec int_of_pos = function XH -> 1 | XO p -> 2 * int_of_pos p | XI p -> 2 * int_of_pos p + 1
let int_of_n = function N0 -> 0 | Npos p -> int_of_pos p

let tok_of_string s =
  match String.split_on_char ':' s with
  | [a; b; c; d] ->
      let l = int_of_string c in
      { ttag = n_of_int (int_of_string a); tval = n_of_int (int_of_string b);
        tpos = if l < 0 then None else Some (n_of_int l, n_of_int (int_of_string d)) }
  | _ -> failwith ("bad token " ^ s)

let string_of_tok t =
  let (l, c) = match t.tpos with None -> (-1, 0) | Some (l, c) -> (int_of_n l, int_of_n c) in
  Printf.sprintf "%d:%d:%d:%d" (int_of_n t.ttag) (int_of_n t.tval) l c

let atom_of_string s =
  match String.split_on_char ':' s with
  | [a; b] -> (n_of_int (int_of_string a), n_of_int (int_of_string b))
  | _ -> failwith ("bad atom " ^ s)

(* item ::= "[" atom* "|" item* "]" *)
let rec parse_items ws =
  match ws with
  | "[" :: rest ->
      let (it, rest') = parse_item rest in
      let (its, rest'') = parse_items rest' in
      (it :: its, rest'')
  | _ -> ([], ws)
and parse_item ws =
  let rec atoms acc ws = match ws with
    | "|" :: rest -> (List.rev acc, rest)
    | w :: rest -> atoms (atom_of_string w :: acc) rest
    | [] -> failwith "unterminated header" in
  let (h, rest) = atoms [] ws in
  let (body, rest') = parse_items rest in
  match rest' with
  | "]" :: rest'' -> (Item (h, body), rest'')
  | _ -> failwith "missing ]"

let string_of_atoms l =
  String.concat " " (List.map (fun (a, b) -> Printf.sprintf "%d:%d" (int_of_n a) (int_of_n b)) l)

let () =
  try
    while true do
      let line = input_line stdin in
      let n = String.length line in
      if n >= 1 && line.[0] = 'L' then begin
        let ws = List.filter (fun s -> s <> "") (String.split_on_char ' ' (String.sub line 1 (n - 1))) in
        (match linearize (List.map tok_of_string ws) with
         | None -> print_string "NONE"
         | Some out -> print_string (String.concat " " ("OK" :: List.map string_of_tok out)));
        print_newline ()
      end else if n >= 1 && line.[0] = 'C' then begin
        let ws = List.filter (fun s -> s <> "") (String.split_on_char ' ' (String.sub line 1 (n - 1))) in
        let (b, _) = parse_items ws in
        print_string ((if wf_block b then "WF" else "NOTWF") ^ " P " ^ string_of_atoms (canonPiled b)
                      ^ " B " ^ string_of_atoms (canonBraced b));
        print_newline ()
      end else if n >= 1 && line.[0] = 'I' then begin
        let ws = ref [] in
        String.iter (fun ch -> if ch = 't' then ws := true :: !ws else if ch = 's' then ws := false :: !ws) line;
        print_int (int_of_n (indentLevel (List.rev !ws) N0)); print_newline ()
      end else begin print_string "?"; print_newline () end
    done
  with End_of_file -> ()
