(* C14 driver: one operation per line on stdin, one result per line on stdout.
     L tag:id:line:col tag:id:line:col ...    linearize (line = -1: sposNone)
     I <string over 's' 't'>                  indentLevel
     C item*   with  item ::= [ tag:id* | item* ]     wf_block, canonPiled, canonBraced
     N <hex of a physical line>               inclLine  ->  indent sys <hex of text>
     S L:indent:sys:handled:<hex text> ... O:len:tag[:A|N] ...
                                              scan over these source lines; the abstract token recogniser
                                              (munch) answers from the O entries in order
                                              ->  tag:line:col:endline:endcol ...
   Conversions int <-> N only; all logic is the extracted model. *)
open Linear

let rec pos_of_int n = if n = 1 then XH else if n land 1 = 0 then XO (pos_of_int (n lsr 1)) else XI (pos_of_int (n lsr 1))
let n_of_int n = if n = 0 then N0 else Npos (pos_of_int n)
let rec int_of_pos = function XH -> 1 | XO p -> 2 * int_of_pos p | XI p -> 2 * int_of_pos p + 1
let int_of_n = function N0 -> 0 | Npos p -> int_of_pos p

let tok_of_string s =
  match String.split_on_char ':' s with
  | [a; b; c; d] ->
      let l = int_of_string c in
      { ttag = n_of_int (int_of_string a); tval = n_of_int (int_of_string b);
        tpos = if l < 0 then None else Some (n_of_int l, n_of_int (int_of_string d)) }
  | _ -> failwith ("bad token " ^ s)

let string_of_tok t =
  let (l, c) = match t.tpos with None -> (-1, 0) | Some (l, c) -> (int_of_n l, int_of_n c) in
  Printf.sprintf "%d:%d:%d:%d" (int_of_n t.ttag) (int_of_n t.tval) l c

let atom_of_string s =
  match String.split_on_char ':' s with
  | [a; b] -> (n_of_int (int_of_string a), n_of_int (int_of_string b))
  | _ -> failwith ("bad atom " ^ s)

(* item ::= "[" atom* "|" item* "]" *)
let rec parse_items ws =
  match ws with
  | "[" :: rest ->
      let (it, rest') = parse_item rest in
      let (its, rest'') = parse_items rest' in
      (it :: its, rest'')
  | _ -> ([], ws)
and parse_item ws =
  let rec atoms acc ws = match ws with
    | "|" :: rest -> (List.rev acc, rest)
    | w :: rest -> atoms (atom_of_string w :: acc) rest
    | [] -> failwith "unterminated header" in
  let (h, rest) = atoms [] ws in
  let (body, rest') = parse_items rest in
  match rest' with
  | "]" :: rest'' -> (Item (h, body), rest'')
  | _ -> failwith "missing ]"

let string_of_atoms l =
  String.concat " " (List.map (fun (a, b) -> Printf.sprintf "%d:%d" (int_of_n a) (int_of_n b)) l)

let chars_of_hex h =
  if h = "-" then [] else
  let n = String.length h / 2 in
  List.init n (fun i -> n_of_int (int_of_string ("0x" ^ String.sub h (2 * i) 2)))
let hex_of_chars l =
  if l = [] then "-" else String.concat "" (List.map (fun c -> Printf.sprintf "%02x" (int_of_n c)) l)
let rec nat_of_int n = if n <= 0 then O else S (nat_of_int (n - 1))

let () =
  try
    while true do
      let line = input_line stdin in
      let n = String.length line in
      if n >= 1 && line.[0] = 'L' then begin
        let ws = List.filter (fun s -> s <> "") (String.split_on_char ' ' (String.sub line 1 (n - 1))) in
        (match linearize (List.map tok_of_string ws) with
         | None -> print_string "NONE"
         | Some out -> print_string (String.concat " " ("OK" :: List.map string_of_tok out)));
        print_newline ()
      end else if n >= 1 && line.[0] = 'C' then begin
        let ws = List.filter (fun s -> s <> "") (String.split_on_char ' ' (String.sub line 1 (n - 1))) in
        let (b, _) = parse_items ws in
        print_string ((if wf_block b then "WF" else "NOTWF") ^ " P " ^ string_of_atoms (canonPiled b)
                      ^ " B " ^ string_of_atoms (canonBraced b));
        print_newline ()
      end else if n >= 1 && line.[0] = 'N' then begin
        let h = String.trim (String.sub line 1 (n - 1)) in
        let sl = inclLine (chars_of_hex h) in
        Printf.printf "%d %d %s\n" (int_of_n sl.slIndent) (if sl.slSys then 1 else 0) (hex_of_chars sl.slText)
      end else if n >= 1 && line.[0] = 'S' then begin
        let ws = List.filter (fun s -> s <> "") (String.split_on_char ' ' (String.sub line 1 (n - 1))) in
        let lines = ref [] and oracle = ref [] in
        List.iter (fun w ->
          match String.split_on_char ':' w with
          | ["L"; i; sy; h; t] ->
              lines := { slIndent = n_of_int (int_of_string i); slSys = (sy = "1"); slHandled = (h = "1");
                         slText = chars_of_hex t } :: !lines
          | ["O"; l; t] -> oracle := (nat_of_int (int_of_string l), n_of_int (int_of_string t), "-") :: !oracle
          | ["O"; l; t; r] -> oracle := (nat_of_int (int_of_string l), n_of_int (int_of_string t), r) :: !oracle
          | _ -> failwith ("bad scan word " ^ w)) ws;
        let q = ref (List.rev !oracle) in
        (* the oracle also checks what the real token implies about the float state the model is in:
           A = the real scanner was in AnyFloat (it read `.digits` as a float), N = it was not *)
        let fsbad = ref false in
        let munch fs _ = match !q with
          | (l, t, r) :: rest ->
              q := rest;
              if (r = "A" && int_of_n fs <> 0) || (r = "N" && int_of_n fs = 0) then fsbad := true;
              (l, t)
          | [] -> (S O, N0) in
        let toks = scan munch (List.rev !lines) in
        print_string (String.concat " " ("OK" :: List.map (fun t ->
          Printf.sprintf "%d:%d:%d:%d:%d" (int_of_n t.stTag) (int_of_n t.stLine) (int_of_n t.stCol)
            (int_of_n t.stELine) (int_of_n t.stECol)) toks));
        print_string (if !fsbad then " FS" else "");
        print_string (if !q = [] then "" else " LEFT");
        print_newline ()
      end else if n >= 1 && line.[0] = 'I' then begin
        let ws = ref [] in
        String.iter (fun ch -> if ch = 't' then ws := true :: !ws else if ch = 's' then ws := false :: !ws) line;
        print_int (int_of_n (indentLevel (List.rev !ws) N0)); print_newline ()
      end else begin print_string "?"; print_newline () end
    done
  with End_of_file -> ()
