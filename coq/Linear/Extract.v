(* C14: extraction of the lineariser model and of the grammar's canonical stream for the
   correspondence run. *)
Require Import ExtrOcamlBasic.
Require Import AV.Linear.Model AV.Linear.Grammar.

Extraction "Linear/extracted/linear.ml" linearize indentLevel canonPiled canonBraced wf_block.
