(* C14: extraction of the lineariser model for the correspondence run. *)
Require Import ExtrOcamlBasic.
Require Import AV.Linear.Model.

Extraction "Linear/extracted/linear.ml" linearize indentLevel.
