(* C14: extraction of the lineariser model, of the grammar's canonical stream and of the
   scanner-cursor model for the correspondence run. *)
Require Import ExtrOcamlBasic.
Require Import AV.Linear.Model AV.Linear.Grammar AV.Linear.Scan.

Extraction "Linear/extracted/linear.ml" linearize indentLevel canonPiled canonBraced wf_block
                                        inclLine scan.
