(* C14 — model of aldor/aldor/src/linear.c (the lineariser: newline + indentation -> brackets).

   Function for function after the C.  Token tags and the three token-class
   bytes linear.c consults (isOpener / isCloser / isFollower) come from
   AV.Gen.TokenInfo, regenerated on every run from token.h / token.c.

   Representation choices (each one stated where it is made):
   * a token is (tag, payload id, position); the payload (symbol / string) is never
     inspected by linear.c, so it is an opaque number here (the correspondence driver
     numbers the tokens of the real token list);
   * a position is `Some (line, column)` or `None` for sposNone (whose column is 0);
     linear.c reads positions only through sposChar (the column);
   * `lnode.indent` is an `option N`: `None` is MootIndentation (-1).  The C compares
     indents as signed ints (lin2DRulesPile0: `int indentS, indent0`), so Moot is
     below every column: [ind_ltb];
   * recursion that follows the remaining token list (recursive descent, the
     lin2DRulesPile0 loop) is by explicit fuel; out of fuel / a failed C assert is
     `None`.
   Not modelled: linCheckBalance (only marks tokens and emits diagnostics, never
   changes the list), the fintMode == FINT_LOOP `#pile` push (interactive mode),
   debug printing, storage management. *)

Require Import NArith List Bool.
Require Import AV.Gen.TokenInfo.
Import ListNotations.
Local Open Scope N_scope.

(* ------------------------------------------------------------------ tokens *)

Record tok := mkTok { ttag : N; tval : N; tpos : option (N * N) }.

Definition tokIs (t : tok) (k : N) : bool := N.eqb (ttag t) k.

(* MootIndentation = None *)
Definition ind := option N.

(* sposChar(tok->pos); sposNone is line 0, column 0 (srcpos.c: sposSet(0, 0)).
   Tokens coming from the scanner have columns >= 1 (the first character of a line is
   column 1), so column 0 only ever stands for "no position". *)
Definition tokCol (t : tok) : ind :=
  Some (match tpos t with Some (_, c) => c | None => 0 end).

Definition ind_ltb (a b : ind) : bool :=
  match a, b with
  | None, None => false
  | None, Some _ => true
  | Some _, None => false
  | Some x, Some y => N.ltb x y
  end.

Definition ind_eqb (a b : ind) : bool :=
  match a, b with
  | None, None => true
  | Some x, Some y => N.eqb x y
  | _, _ => false
  end.

Definition ind_is_moot (a : ind) : bool := match a with None => true | Some _ => false end.

(* linKeyword(org, key): a keyword token at the position of org (sposNone if org = 0) *)
Definition linKeyword (org : option tok) (key : N) : tok :=
  mkTok key 0 (match org with Some o => tpos o | None => None end).

(* ------------------------------------------------------------------ LNodeTree *)

(* lnode.has : HAS_NonCom, HAS_NonBlank *)
Record has := mkHas { hNonCom : bool; hNonBlank : bool }.
Definition has0 : has := mkHas false false.
Definition hor (a b : has) : has := mkHas (hNonCom a || hNonCom b) (hNonBlank a || hNonBlank b).

Inductive tree :=
| T1Tok   (t : tok) (h : has) (i : ind)              (* LN_1Tok   *)
| TNTok   (ts : list tok) (h : has) (i : ind)        (* LN_NTok   *)
| TNNodes (args : list tree) (h : has) (i : ind)     (* LN_NNodes *)
| TDoPile (args : list tree) (h : has) (i : ind).    (* LN_DoPile *)

Definition thas (t : tree) : has :=
  match t with T1Tok _ h _ | TNTok _ h _ | TNNodes _ h _ | TDoPile _ h _ => h end.
Definition tindent (t : tree) : ind :=
  match t with T1Tok _ _ i | TNTok _ _ i | TNNodes _ _ i | TDoPile _ _ i => i end.

Definition linIsBlank (t : tree) : bool := negb (hNonBlank (thas t)).
Definition linIsCom   (t : tree) : bool := negb (hNonCom (thas t)).

Definition lntTokHas (tag : N) : has :=
  if N.eqb tag KW_NewLine || N.eqb tag TK_Comment then has0
  else if N.eqb tag TK_PostDoc || N.eqb tag TK_PreDoc then mkHas false true
  else mkHas true true.

Definition lntTok (t : tok) : tree := T1Tok t (lntTokHas (ttag t)) (tokCol t).

Definition hasOfList (l : list tree) : has := fold_right (fun t h => hor (thas t) h) has0 l.

(* lntConcat: either side may be the null tree *)
Definition lntConcat (l r : option tree) : option tree :=
  match l, r with
  | None, _ => r
  | _, None => l
  | Some a, Some b => Some (TNNodes [a; b] (hor (thas a) (thas b)) (tindent a))
  end.

Definition lntConcat2 (a b : tree) : tree :=
  TNNodes [a; b] (hor (thas a) (thas b)) (tindent a).

Fixpoint lntFirstTok (t : tree) : option tok :=
  match t with
  | T1Tok x _ _ => Some x
  | TNTok ts _ _ => match ts with [] => None | x :: _ => Some x end
  | TNNodes args _ _ | TDoPile args _ _ =>
      match args with [] => None | a :: _ => lntFirstTok a end
  end.

Fixpoint lntLastTok (t : tree) : option tok :=
  match t with
  | T1Tok x _ _ => Some x
  | TNTok ts _ _ => last (map Some ts) None
  | TNNodes args _ _ | TDoPile args _ _ =>
      (fix go (l : list tree) : option tok :=
         match l with
         | [] => None
         | a :: r => match r with [] => lntLastTok a | _ :: _ => go r end
         end) args
  end.

Fixpoint lastNonNL (ts : list tok) : option tok :=
  match ts with
  | [] => None
  | t :: r => match lastNonNL r with
              | Some x => Some x
              | None => if tokIs t KW_NewLine then None else Some t
              end
  end.

Fixpoint lntLastTokLessNL (t : tree) : option tok :=
  match t with
  | T1Tok x _ _ => if tokIs x KW_NewLine then None else Some x
  | TNTok ts _ _ => lastNonNL ts
  | TNNodes args _ _ | TDoPile args _ _ =>
      (fix go (l : list tree) : option tok :=
         match l with
         | [] => None
         | a :: r => match go r with Some x => Some x | None => lntLastTokLessNL a end
         end) args
  end.

Definition lntLastTokLessNL_o (c : option tree) : option tok :=
  match c with None => None | Some t => lntLastTokLessNL t end.

Definition lntSeparate (l : tree) (sep : N) (r : tree) : tree :=
  TNNodes [l; lntTok (linKeyword (lntLastTok l) sep); r]
          (hor (thas l) (hor (lntTokHas sep) (thas r))) (tindent l).

Definition lntWrap (open : N) (l : tree) (close : N) : tree :=
  TNNodes [lntTok (linKeyword (lntFirstTok l) open); l; lntTok (linKeyword (lntLastTok l) close)]
          (hor (lntTokHas open) (hor (thas l) (lntTokHas close))) (tindent l).

(* ------------------------------------------------------------------ LNodeTree -> TokenList *)

Definition lntConsNL (rs : list tok) : list tok :=
  linKeyword (match rs with [] => None | t :: _ => Some t end) KW_NewLine :: rs.

(* lntToTokenList0: rs is the reversed list so far *)
Fixpoint toToks (t : tree) (rs : list tok) : list tok :=
  match t with
  | T1Tok x _ _ => x :: rs
  | TNTok ts _ _ => rev ts ++ rs
  | TNNodes args _ _ =>
      (fix go (l : list tree) (rs : list tok) : list tok :=
         match l with [] => rs | a :: r => go r (toToks a rs) end) args rs
  | TDoPile args _ _ =>
      (* argv[0], NL, { argv[i], NL } for 0 < i < n-1, argv[n-1]   (n >= 2 always) *)
      match args with
      | [] => rs
      | a0 :: r0 =>
          (fix go (l : list tree) (rs : list tok) : list tok :=
             match l with
             | [] => rs
             | a :: r => match r with
                         | [] => toToks a rs
                         | _ :: _ => go r (lntConsNL (toToks a rs))
                         end
             end) r0 (lntConsNL (toToks a0 rs))
      end
  end.

Definition lntToTokenList (t : tree) : list tok := rev (toToks t []).

(* ------------------------------------------------------------------ TokenList utilities *)

(* linXTokens(tl, tag): delete the tokens with that tag *)
Definition linXTokens (tag : N) (tl : list tok) : list tok :=
  filter (fun t => negb (tokIs t tag)) tl.

(* linXBlankLines0: drop leading newlines *)
Fixpoint linXBlankLines0 (tl : list tok) : list tok :=
  match tl with
  | [] => []
  | t :: r => if tokIs t KW_NewLine then linXBlankLines0 r else tl
  end.

(* the for loop of linXBlankLines: after a NewLine or a #pile, drop the newlines that follow *)
Fixpoint linXBlankLinesLoop (tl : list tok) : list tok :=
  match tl with
  | [] => []
  | t :: r =>
      if tokIs t KW_NewLine || tokIs t KW_StartPile
      then t :: linXBlankLinesSkip r
      else t :: linXBlankLinesLoop r
  end
with linXBlankLinesSkip (tl : list tok) : list tok :=
  (* = linXBlankLinesLoop (linXBlankLines0 tl), written structurally *)
  match tl with
  | [] => []
  | t :: r =>
      if tokIs t KW_NewLine then linXBlankLinesSkip r
      else if tokIs t KW_StartPile then t :: linXBlankLinesSkip r
      else t :: linXBlankLinesLoop r
  end.

Definition linXBlankLines (tl : list tok) : list tok :=
  linXBlankLinesLoop (linXBlankLines0 tl).

(* linIndentation *)
Definition linIndentation (tl : list tok) : ind :=
  let tl' := match tl with
             | t :: r => if tokIs t KW_At then (match r with _ :: r' => r' | [] => [] end) else tl
             | [] => tl
             end in
  match tl' with
  | t :: _ => if tokIs t KW_NewLine then None else tokCol t
  | [] => None
  end.

(* linISepAfterDontPiles: `;` after every `}` that is followed by something other than `;` *)
Fixpoint linISepAfterDontPiles (tl : list tok) : list tok :=
  match tl with
  | [] => []
  | t :: r =>
      if tokIs t KW_CCurly
      then match r with
           | [] => [t]
           | u :: _ => if tokIs u KW_Semicolon
                       then t :: linISepAfterDontPiles r
                       else t :: linKeyword (Some t) KW_Semicolon :: linISepAfterDontPiles r
           end
      else t :: linISepAfterDontPiles r
  end.

Definition tokIsNonStarter (t : tok) : bool :=
  tokIsFollower (ttag t) || tokIsCloser (ttag t).

(* the for loop of linXSep: t is the current cons, rest its cdr *)
Fixpoint linXSepLoop (t : tok) (rest : list tok) : list tok :=
  match rest with
  | [] => [t]
  | s :: r2 =>
      if tokIs s KW_Semicolon
      then match r2 with
           | [] => [t]                                        (* `;` at the very end deleted *)
           | u :: r3 => if tokIsNonStarter u
                        then t :: linXSepLoop u r3            (* `;` deleted, continue at u *)
                        else t :: linXSepLoop s r2
           end
      else t :: linXSepLoop s r2
  end.

Fixpoint linXSepLead (tl : list tok) : list tok :=
  match tl with
  | [] => []
  | t :: r => if tokIs t KW_Semicolon then linXSepLead r else tl
  end.

Definition linXSep (tl : list tok) : list tok :=
  match linXSepLead tl with
  | [] => []
  | t :: r => linXSepLoop t r
  end.

Definition linUseNeededSep (tl : list tok) : list tok := linXSep (linISepAfterDontPiles tl).

(* ------------------------------------------------------------------ TokenList -> LNodeTree *)

Definition tokOf (t : tree) : list tok := match t with T1Tok x _ _ => [x] | _ => [] end.

(* lntFrTL_MakeLine: ll is the REVERSED list of subtrees, n = length ll *)
Definition makeLine (ll : list tree) (in0 : ind) (ntoks : nat) : tree :=
  let h := hasOfList ll in
  match ll with
  | [a] => a
  | _ => if Nat.eqb (length ll) ntoks
         then TNTok (flat_map tokOf (rev ll)) h in0
         else TNNodes (rev ll) h in0
  end.

Definition emptyLine : tree := TNTok [] has0 (Some 0).

Definition synthEndPile : tok := mkTok KW_EndPile 0 None.

(* dp = depthDoPileNo, dn = depthDontPileNo (the two file-level counters; they are
   incremented on entry and decremented on exit, so they are parameters here) *)
Fixpoint frDoPile (n : nat) (dp dn : nat) (tl : list tok) {struct n} : option (tree * list tok) :=
  match n with O => None | S n' =>
    match tl with
    | [] => None                                   (* assert(tl0) *)
    | t0 :: r =>
        let in0 := linIndentation tl in
        match doPileLines n' (S dp) dn r [lntTok t0] with
        | None => None
        | Some (ll, tl1) =>
            let '(ll2, tl2) :=
              match tl1 with
              | t :: r1 => if tokIs t KW_EndPile then (lntTok t :: ll, r1) else (ll, tl1)
              | [] => (lntTok synthEndPile :: ll, [])        (* insert extra #endpile *)
              end in
            Some (TDoPile (rev ll2) (hasOfList ll2) in0, tl2)
        end
    end
  end

(* while (tl0 && tokTag(car(tl0)) != DoPileEnd) ll = cons(lntFrTL_DoLine(&tl0), ll) *)
with doPileLines (n : nat) (dp dn : nat) (tl : list tok) (ll : list tree) {struct n}
  : option (list tree * list tok) :=
  match n with O => None | S n' =>
    match tl with
    | [] => Some (ll, tl)
    | t :: _ =>
        if tokIs t KW_EndPile then Some (ll, tl)
        else match frDoLine n' dp dn tl with
             | None => None
             | Some (lnt, tl') => doPileLines n' dp dn tl' (lnt :: ll)
             end
    end
  end

with frDoLine (n : nat) (dp dn : nat) (tl : list tok) {struct n} : option (tree * list tok) :=
  match n with O => None | S n' =>
    match tl with
    | [] => Some (emptyLine, [])
    | _ :: _ =>
        match doLineLoop n' dp dn tl [] 0%nat with
        | None => None
        | Some (ll, ntoks, tl') => Some (makeLine ll (linIndentation tl) ntoks, tl')
        end
    end
  end

(* the do { } while of lntFrTL_DoLine; tl is non-empty on entry *)
with doLineLoop (n : nat) (dp dn : nat) (tl : list tok) (ll : list tree) (ntoks : nat) {struct n}
  : option (list tree * nat * list tok) :=
  match n with O => None | S n' =>
    match tl with
    | [] => None
    | t :: r =>
        let step :=
          if tokIs t KW_StartPile then
            match frDoPile n' dp dn tl with
            | None => None | Some (lnt, tl') => Some (lnt :: ll, ntoks, tl') end
          else if tokIs t KW_OCurly then
            match frDontPile n' dp dn tl with
            | None => None | Some (lnt, tl') => Some (lnt :: ll, ntoks, tl') end
          else if tokIs t KW_EndPile then Some (ll, ntoks, tl)           (* break: not consumed *)
          else Some (lntTok t :: ll, S ntoks, r) in
        match step with
        | None => None
        | Some (ll', ntoks', tl') =>
            if negb (tokIs t KW_NewLine)
               && (negb (tokIs t KW_EndPile) || Nat.eqb dp 0)
               && (negb (tokIs t KW_CCurly) || Nat.eqb dn 0)
               && (match tl' with [] => false | _ :: _ => true end)
            then doLineLoop n' dp dn tl' ll' ntoks'
            else Some (ll', ntoks', tl')
        end
    end
  end

with frDontPile (n : nat) (dp dn : nat) (tl : list tok) {struct n} : option (tree * list tok) :=
  match n with O => None | S n' =>
    match tl with
    | [] => None                                   (* assert(tl0) *)
    | t0 :: r =>
        let in0 := linIndentation tl in
        match frDontLine n' dp (S dn) r true with
        | None => None
        | Some (body, tl1) =>
            let '(ll2, tl2) :=
              match tl1 with
              | t :: r1 => if tokIs t KW_CCurly then ([lntTok t; body; lntTok t0], r1)
                           else ([body; lntTok t0], tl1)
              | [] => ([body; lntTok t0], tl1)
              end in
            Some (TNNodes (rev ll2) (hasOfList ll2) in0, tl2)
        end
    end
  end

with frDontLine (n : nat) (dp dn : nat) (tl : list tok) (isStacking : bool) {struct n}
  : option (tree * list tok) :=
  match n with O => None | S n' =>
    match tl with
    | [] => Some (emptyLine, [])
    | _ :: _ =>
        match dontLineLoop n' dp dn tl isStacking 0%nat [] 0%nat with
        | None => None
        | Some (ll, ntoks, tl') => Some (makeLine ll (linIndentation tl) ntoks, tl')
        end
    end
  end

(* while (tl0) of lntFrTL_DontLine; depth counts the { seen inside *)
with dontLineLoop (n : nat) (dp dn : nat) (tl : list tok) (isStacking : bool) (depth : nat)
                  (ll : list tree) (ntoks : nat) {struct n}
  : option (list tree * nat * list tok) :=
  match n with O => None | S n' =>
    match tl with
    | [] => Some (ll, ntoks, tl)
    | t :: r =>
        if tokIs t KW_StartPile then
          match frDoPile n' dp dn tl with
          | None => None
          | Some (lnt, tl') => dontLineLoop n' dp dn tl' isStacking depth (lnt :: ll) ntoks
          end
        else if isStacking && tokIs t KW_CCurly && Nat.eqb depth 0 then Some (ll, ntoks, tl)   (* depth < 0: break *)
        else
          let depth' := if isStacking && tokIs t KW_OCurly then S depth
                        else if isStacking && tokIs t KW_CCurly then pred depth
                        else depth in
          dontLineLoop n' dp dn r isStacking depth' (lntTok t :: ll) (S ntoks)
    end
  end.

Definition parseFuel (tl : list tok) : nat := (4 * length tl + 8)%nat.

(* lntFrTokenList *)
Definition lntFrTokenList (tl : list tok) : option tree :=
  match frDontLine (parseFuel tl) 0 0 tl false with
  | None => None
  | Some (t, _) => Some t
  end.

(* ------------------------------------------------------------------ piling rules *)

Definition isPileRequired (context : option tree) (lnt : tree) : bool :=
  match lntLastTokLessNL_o context with
  | None => false
  | Some t =>
      tokIs t KW_Then || tokIs t KW_Else || tokIs t KW_With || tokIs t KW_Add ||
      tokIs t KW_Try || tokIs t KW_But || tokIs t KW_Catch || tokIs t KW_Finally ||
      tokIs t KW_Always
  end.

Definition isBackSetRequired (context : option tree) (l1 l2 : tree) : bool :=
  if linIsCom l1 || linIsBlank l1 || linIsBlank l2 then false
  else match lntLastTokLessNL l1, lntFirstTok l2 with
       | Some t1, Some t2 =>
           if tokIs t1 KW_Comma || tokIsOpener (ttag t1) then false
           else if tokIsFollower (ttag t2) || tokIsCloser (ttag t2) then false
           else true
       | _, _ => true
       end.

(* the for loop of joinUp: t0 previous line, acc the tree so far *)
Fixpoint joinLoop (context : option tree) (t0 acc : tree) (rest : list tree) (had : bool)
  : tree * bool :=
  match rest with
  | [] => (acc, had)
  | t1 :: r =>
      if isBackSetRequired context t0 t1
      then joinLoop context t1 (lntSeparate acc KW_BackSet t1) r true
      else joinLoop context t1 (lntConcat2 acc t1) r had
  end.

Definition joinUp (context : option tree) (tll : list tree) : option tree :=
  match tll with
  | [] => None                                     (* assert(tll != 0) *)
  | l0 :: rest =>
      let '(lnt, had) := joinLoop context l0 l0 rest false in
      Some (if had || isPileRequired context lnt
            then lntWrap KW_SetTab lnt KW_BackTab else lnt)
  end.

Definition pileFinish (context : option tree) (sofar lines : list tree) : option (tree * list tree) :=
  match joinUp context (rev sofar) with
  | None => None
  | Some j => match lntConcat context (Some j) with
              | None => None
              | Some r => Some (r, lines)
              end
  end.

(* the while loop of lin2DRulesPile0 over the lines argv[iS..iE] (as a list).
   The recursive call lin2DRulesPile0(car(sofar), lnt, &iS, &iE) starts at the current
   line: it is pileLoop with indentS := that line's indent and an empty sofar. *)
Fixpoint pileLoop (n : nat) (context : option tree) (indentS : ind)
                  (lines sofar : list tree) {struct n} : option (tree * list tree) :=
  match n with O => None | S n' =>
    match lines with
    | [] => pileFinish context sofar []
    | l :: rest =>
        if linIsBlank l || ind_is_moot (tindent l)
        then pileLoop n' context indentS rest (l :: sofar)
        else if ind_ltb (tindent l) indentS then pileFinish context sofar lines
        else if ind_eqb (tindent l) indentS then pileLoop n' context indentS rest (l :: sofar)
        else match sofar with
             | [] => None                          (* setcar(NULL): cannot happen *)
             | c :: s =>
                 match pileLoop n' (Some c) (tindent l) lines [] with
                 | None => None
                 | Some (r, lines') => pileLoop n' context indentS lines' (r :: s)
                 end
             end
    end
  end.

Definition emptyNNodes : tree := TNNodes [] has0 None.

(* lin2DRulesPile0 *)
Definition pile0 (n : nat) (context : option tree) (lines : list tree) : option (tree * list tree) :=
  match lines with
  | [] => Some (emptyNNodes, [])
  | l0 :: _ => pileLoop n context (tindent l0) lines []
  end.

(* while (iS <= iE) rnt = lin2DRulesPile0(rnt, lnt, &iS, &iE) *)
Fixpoint pileRest (n : nat) (rnt : tree) (lines : list tree) {struct n} : option tree :=
  match n with O => None | S n' =>
    match lines with
    | [] => Some rnt
    | _ :: _ => match pile0 n' (Some rnt) lines with
                | None => None
                | Some (r, lines') => pileRest n' r lines'
                end
    end
  end.

Definition linIsArgKW (t : option tree) (k : N) : bool :=
  match t with Some (T1Tok x _ _) => tokIs x k | _ => false end.

Definition pileFuel (args : list tree) : nat := (3 * length args + 4)%nat.

(* lin2DRulesPile on the children of an LN_DoPile node *)
Definition lin2DRulesPile (args : list tree) : option tree :=
  let hasStarter := linIsArgKW (hd_error args) KW_StartPile in
  let hasEnder   := linIsArgKW (last (map Some args) None) KW_EndPile in
  let a1 := if hasStarter then tl args else args in                        (* iS *)
  let lines := if hasStarter && hasEnder then removelast a1 else a1 in     (* iE *)
  match pile0 (pileFuel args) None lines with
  | None => None
  | Some (rnt, lines') => pileRest (pileFuel args) rnt lines'
  end.

Fixpoint lin2DRules (t : tree) : option tree :=
  match t with
  | T1Tok _ _ _ | TNTok _ _ _ => Some t
  | TNNodes args h i =>
      match (fix go (l : list tree) : option (list tree) :=
               match l with
               | [] => Some []
               | a :: r => match lin2DRules a, go r with
                           | Some a', Some r' => Some (a' :: r')
                           | _, _ => None
                           end
               end) args with
      | Some args' => Some (TNNodes args' h i)
      | None => None
      end
  | TDoPile args h i =>
      match (fix go (l : list tree) : option (list tree) :=
               match l with
               | [] => Some []
               | a :: r => match lin2DRules a, go r with
                           | Some a', Some r' => Some (a' :: r')
                           | _, _ => None
                           end
               end) args with
      | Some args' => lin2DRulesPile args'
      | None => None
      end
  end.

(* ------------------------------------------------------------------ linearize *)

Definition linearize (tl : list tok) : option (list tok) :=
  let tl := linXTokens TK_Comment tl in            (* linXComments *)
  let tl := linXBlankLines tl in
  (* linCheckBalance: diagnostics only *)
  match lntFrTokenList tl with
  | None => None
  | Some lnt =>
      match lin2DRules lnt with
      | None => None
      | Some lnt' =>
          let tl := lntToTokenList lnt' in
          let tl := linXTokens KW_NewLine tl in    (* linXNewLines *)
          Some (linUseNeededSep tl)
      end
  end.

(* ------------------------------------------------------------------ columns (include.c / scan.c) *)

(* inclCalcIndentLevel: column after leading blanks (false) and tabs (true).
   scan.c:scAdvance0 applies the same rule to tabs inside a line (there the column
   variable is one less than i here: `(scLineChar+1) % TABSTOP`). *)
Fixpoint indentLevel (ws : list bool) (i : N) : N :=
  match ws with
  | [] => i
  | false :: r => indentLevel r (i + 1)
  | true :: r =>
      indentLevel r (if N.eqb (i mod TABSTOP) 0 then i + TABSTOP
                     else i + TABSTOP - i mod TABSTOP)   (* ROUND_UP(i, TABSTOP), i % TABSTOP != 0 *)
  end.
