(* C14 — facts about the scanner-cursor model (AV.Linear.Scan). *)

Require Import NArith Arith List Bool Lia.
Require Import AV.Gen.TokenInfo AV.Linear.Scan.
Import ListNotations.
Local Open Scope N_scope.

Lemma tabstop_pos : 0 < TABSTOP.
Proof. vm_compute. reflexivity. Qed.

(* ------------------------------------------------------------------ include.c and scan.c agree on tab stops *)

(* the scanner's own column computation: the column of the last character of w when the
   character before w is at column k (scAdvance0 applied once per character of w) *)
Fixpoint walkCol (w : list N) (k : N) : N :=
  match w with
  | [] => k
  | c :: r => walkCol r (if N.eqb c cTAB then tabCol k else k + 1)
  end.

Definition wsOnly (w : list N) : Prop := Forall (fun c => isBlankTab c = true) w.

Lemma tabCol_succ : forall k,
  tabCol k + 1 = (if N.eqb ((k + 1) mod TABSTOP) 0 then (k + 1) + TABSTOP else roundUpT (k + 1)).
Proof.
  intros k. unfold tabCol, roundUpT. assert (T := tabstop_pos).
  destruct (N.eqb_spec ((k + 1) mod TABSTOP) 0); [lia|].
  assert ((k + 1) mod TABSTOP < TABSTOP) by (apply N.mod_lt; lia). lia.
Qed.

Lemma inclIndent_ws : forall w x r k, wsOnly w -> isBlankTab x = false ->
  inclIndent (w ++ x :: r) (k + 1) = (walkCol w k + 1, x :: r).
Proof.
  induction w as [|c w IH]; intros x r k Hw Hx.
  - cbn [app inclIndent walkCol]. unfold isBlankTab in Hx. apply orb_false_iff in Hx.
    destruct Hx as [H1 H2]. now rewrite H1, H2.
  - inversion Hw as [|? ? Hc Hw']; subst. cbn [app inclIndent walkCol].
    unfold isBlankTab in Hc. destruct (N.eqb_spec c cBLANK) as [->|NB].
    + change (N.eqb cBLANK cTAB) with false. cbn iota. now apply IH.
    + cbn [orb] in Hc. rewrite Hc. rewrite <- tabCol_succ. now apply IH.
Qed.

Lemma adv0_step : forall a c r rs k l sy e f,
  adv0 (mkSt (a :: c :: r) rs k l sy e f)
  = mkSt (c :: r) rs (if N.eqb c cTAB then tabCol k else k + 1) l false e f.
Proof. reflexivity. Qed.

Fixpoint iter {A} (n : nat) (f : A -> A) (x : A) : A :=
  match n with O => x | S n' => iter n' f (f x) end.

Lemma adv0_walk : forall w a x r rs k l sy e f, isBlankTab x = false ->
  iter (S (length w)) adv0 (mkSt (a :: w ++ x :: r) rs k l sy e f)
  = mkSt (x :: r) rs (walkCol w k + 1) l false e f.
Proof.
  induction w as [|c w IH]; intros a x r rs k l sy e f Hx.
  - cbn [length iter app walkCol]. rewrite adv0_step.
    unfold isBlankTab in Hx. apply orb_false_iff in Hx. destruct Hx as [_ H2]. now rewrite H2.
  - cbn [length app walkCol]. change (iter (S (S (length w))) adv0 ?s) with (iter (S (length w)) adv0 (adv0 s)).
    rewrite adv0_step. now apply IH.
Qed.

(* incl_indent_eq_scan_column: for EVERY string w of blanks and tabs, the column scan.c's
   scAdvance0 computes for the character that follows w (w itself following a character at column
   k) is the indentation include.c's inclCalcIndentLevel computes for w standing after k + 1
   columns.  (Both are the same function of w; in particular `seven blanks + TAB` reaches the same
   tab stop in both.) *)
Theorem incl_indent_eq_scan_column : forall w a x r rs k l sy e f,
  wsOnly w -> isBlankTab x = false ->
  col (iter (S (length w)) adv0 (mkSt (a :: w ++ x :: r) rs k l sy e f))
  = fst (inclIndent (w ++ x :: r) (k + 1)).
Proof.
  intros. rewrite adv0_walk, inclIndent_ws by assumption. reflexivity.
Qed.

(* ... and at the start of a physical line: a line `w x r` gets the indentation that the scanner
   itself would compute for x if the white space were still in the text behind one blank less *)
Corollary incl_indent_line_start : forall w x r, wsOnly w -> isBlankTab x = false ->
  fst (inclIndent (cBLANK :: w ++ x :: r) 0) = walkCol w 0 + 1.
Proof.
  intros. cbn [inclIndent]. change (N.eqb cBLANK cBLANK) with true. cbn iota.
  change (0 + 1) with (0 + 1). now rewrite (inclIndent_ws w x r 0).
Qed.

Example ex_seven_blanks_tab :
  fst (inclIndent [32;32;32;32;32;32;32;9;120] 0) = TABSTOP /\ walkCol [32;32;32;32;32;32;9] 0 + 1 = TABSTOP.
Proof. vm_compute. auto. Qed.

(* ------------------------------------------------------------------ the cursor over ordinary characters *)

Definition plain (c : N) : N * bool := (c, false).
(* token texts: no escape character, no newline *)
Definition noEsc (t : list N) : Prop := Forall (fun c => N.eqb c cESC = false /\ N.eqb c cNL = false) t.
Definition notEsc (c : N) : Prop := N.eqb c cESC = false.

Lemma blankTab_notEsc : forall c, isBlankTab c = true -> N.eqb c cESC = false.
Proof.
  intros c H. unfold isBlankTab in H. apply orb_prop in H.
  destruct H as [H|H]; apply N.eqb_eq in H; subst; reflexivity.
Qed.

Lemma blankTab_isspace : forall c, isBlankTab c = true -> isspaceC c = true.
Proof.
  intros c H. unfold isBlankTab in H. apply orb_prop in H.
  destruct H as [H|H]; apply N.eqb_eq in H; subst; reflexivity.
Qed.

Definition newCol (c k : N) : N := if N.eqb c cTAB then tabCol k else k + 1.

Lemma adv_plain : forall F a c r rs k l sy e f, N.eqb c cESC = false ->
  adv F false (mkSt (a :: c :: r) rs k l sy e f) = mkSt (c :: r) rs (newCol c k) l false false f.
Proof.
  intros. unfold adv. rewrite adv0_step. unfold atEOF, peekIs. cbn [cur]. rewrite H. reflexivity.
Qed.

(* scSkipSpace over blanks and tabs that are followed by an ordinary character *)
Lemma skipSpace_plain : forall F ws f x r rs k l fl,
  wsOnly ws -> isBlankTab x = false -> N.eqb x cESC = false -> (length ws <= f)%nat ->
  exists k', skipSpace F f (mkSt (ws ++ x :: r) rs k l false false fl) = mkSt (x :: r) rs k' l false false fl.
Proof.
  induction ws as [|c ws IH]; intros f x r rs k l fl Hw Hx He Hf.
  - exists k. destruct f; cbn [app skipSpace]; auto. unfold peekP. cbn [cur]. now rewrite Hx.
  - inversion Hw as [|? ? Hc Hw']; subst. cbn [length] in Hf. destruct f as [|f']; [lia|].
    cbn [app skipSpace]. unfold peekP at 1. cbn [cur]. rewrite Hc.
    assert (E : exists y r', ws ++ x :: r = y :: r' /\ N.eqb y cESC = false).
    { destruct ws as [|y ws']; [exists x, r; auto|]. exists y, (ws' ++ x :: r). split; auto.
      inversion Hw' as [|? ? Hy _]; subst. now apply blankTab_notEsc. }
    destruct E as (y & r' & E & Hy). rewrite E, adv_plain by assumption. rewrite <- E.
    apply IH; auto. lia.
Qed.

(* the effective stream over an escape-free text *)
Lemma estream_plain : forall F t f x c rs k l sy fl,
  noEsc t -> N.eqb x cESC = false -> (length t < f)%nat ->
  exists e', estream F f (mkSt (t ++ x :: c) rs k l sy false fl) = map plain t ++ (x, false) :: e'.
Proof.
  induction t as [|a t IH]; intros f x c rs k l sy fl Ht Hx Hf.
  - destruct f as [|f']; [cbn [length] in Hf; lia|]. cbn [app estream cur esc map]. eexists. reflexivity.
  - inversion Ht as [|? ? [Ha Hn] Ht']; subst. cbn [length] in Hf. destruct f as [|f']; [lia|].
    cbn [app estream cur esc map]. rewrite Hn. cbn [andb].
    assert (E : exists y r', t ++ x :: c = y :: r' /\ N.eqb y cESC = false).
    { destruct t as [|y t']; [exists x, c; auto|]. exists y, (t' ++ x :: c). split; auto.
      inversion Ht' as [|? ? [? ?] ?]; auto. }
    destruct E as (y & r' & E & Hy). rewrite E, adv_plain by assumption. rewrite <- E.
    destruct (IH f' x c rs (newCol y k) l false fl Ht' Hx) as [e' E2]; [lia|].
    rewrite E2. eexists. reflexivity.
Qed.

(* scAdvance over an escape-free text *)
Lemma advN_plain : forall F t x c rs k l sy fl,
  noEsc t -> N.eqb x cESC = false -> t <> [] ->
  exists k', advN F (length t) (mkSt (t ++ x :: c) rs k l sy false fl) = mkSt (x :: c) rs k' l false false fl.
Proof.
  induction t as [|a t IH]; intros x c rs k l sy fl Ht Hx Hne; [congruence|].
  inversion Ht as [|? ? [Ha _] Ht']; subst. cbn [length advN app].
  destruct t as [|y t'].
  - cbn [app]. rewrite adv_plain by assumption. cbn [length advN]. eexists. reflexivity.
  - assert (Hy : N.eqb y cESC = false) by (inversion Ht' as [|? ? [? ?] ?]; auto).
    change ((y :: t') ++ x :: c) with (y :: (t' ++ x :: c)). rewrite adv_plain by assumption.
    change (y :: t' ++ x :: c) with ((y :: t') ++ x :: c). apply IH; auto. discriminate.
Qed.

(* ------------------------------------------------------------------ an escaped line break *)

(* a line that held only blanks and tabs: include.c leaves the newline as its text *)
Definition blankLine (l : sline) : Prop := slSys l = false /\ slText l = [cNL].

Lemma skipWs_blankLines : forall bl f s0 L r l,
  Forall blankLine bl -> slSys L = false -> (length bl < f)%nat ->
  (forall y t', slText L = y :: t' -> isspaceC y = false) -> slText L <> [] ->
  skipWs f (startLine s0 (bl ++ L :: r) l)
  = mkSt (slText L) r (slIndent L) (l + N.of_nat (length bl)) false false fsAny.
Proof.
  induction bl as [|B bl IH]; intros f s0 L r l Hb HL Hf Hy Hne.
  - cbn [app startLine length]. rewrite HL. cbn [andb]. rewrite N.add_0_r.
    destruct f as [|f']; [reflexivity|]. cbn [skipWs]. unfold peekP. cbn [cur].
    destruct (slText L) as [|y t'] eqn:E; [congruence|]. now rewrite (Hy y t' eq_refl).
  - inversion Hb as [|? ? [HB1 HB2] Hb']; subst. cbn [app startLine length] in *.
    rewrite HB1. cbn [andb]. destruct f as [|f']; [lia|]. cbn [skipWs]. unfold peekP. cbn [cur].
    rewrite HB2. change (isspaceC cNL) with true. cbn iota.
    unfold adv0 at 1. cbn [cur rest lno].
    rewrite (IH f' _ L r (l + 1)); auto; [|lia].
    f_equal. lia.
Qed.

Lemma skipWs_toNL : forall w2 f rs k l sy e fl, wsOnly w2 -> (length w2 < f)%nat ->
  exists k' sy', skipWs f (mkSt (w2 ++ [cNL]) rs k l sy e fl)
               = skipWs (f - length w2 - 1) (adv0 (mkSt [cNL] rs k' l sy' e fl)).
Proof.
  induction w2 as [|c w IH]; intros f rs k l sy e fl Hw Hf.
  - cbn [app length] in *. destruct f as [|f']; [lia|]. cbn [skipWs]. unfold peekP. cbn [cur].
    change (isspaceC cNL) with true. cbn iota. exists k, sy. f_equal. lia.
  - inversion Hw as [|? ? Hc Hw']; subst. cbn [app length] in *. destruct f as [|f']; [lia|].
    cbn [skipWs]. unfold peekP. cbn [cur]. rewrite (blankTab_isspace _ Hc).
    assert (E : exists y r', w ++ [cNL] = y :: r') by (destruct w; eexists; eexists; reflexivity).
    destruct E as (y & r' & E). rewrite E, adv0_step, <- E.
    destruct (IH f' rs (newCol y k) l false e fl Hw') as (k' & sy' & E2); [lia|].
    unfold newCol in E2. rewrite E2. exists k', sy'. f_equal.
Qed.

(* scAdvance1 on `_ blanks newline (blank lines) continuation`: everything up to the first
   character of the continuation line is dropped *)
Lemma adv1_cross : forall F w2 bl L r k l sy e fl,
  wsOnly w2 -> Forall blankLine bl -> slSys L = false ->
  (forall y t', slText L = y :: t' -> isspaceC y = false /\ N.eqb y cESC = false) -> slText L <> [] ->
  (length w2 + length bl + 3 <= F)%nat ->
  adv1 F (mkSt (cESC :: w2 ++ [cNL]) (bl ++ L :: r) k l sy e fl)
  = mkSt (slText L) r (slIndent L) (l + 1 + N.of_nat (length bl)) false false fl.
Proof.
  intros F w2 bl L r k l sy e fl Hw Hb HL Hy Hne HF.
  destruct F as [|F']; [lia|]. cbn [adv1]. unfold peekIs at 1. cbn [cur].
  change (N.eqb cESC cESC) with true. cbn [negb].
  assert (E : exists y r', w2 ++ [cNL] = y :: r' /\ isspaceC y = true).
  { destruct w2 as [|y w']; [exists cNL, []; auto|]. exists y, (w' ++ [cNL]). split; auto.
    inversion Hw; subst. now apply blankTab_isspace. }
  destruct E as (y & r' & E & Hsp). rewrite E, adv0_step. unfold peekP at 1. cbn [cur]. rewrite Hsp.
  rewrite <- E.
  destruct (skipWs_toNL w2 F' (bl ++ L :: r) (newCol y k) l false e fl Hw) as (k' & sy' & E2); [lia|].
  unfold newCol in E2. rewrite E2. unfold adv0. cbn [cur rest lno].
  rewrite (skipWs_blankLines bl); auto; [| lia | intros y0 t' Ey; now destruct (Hy y0 t' Ey)].
  unfold setFls at 1. cbn [cur rest col lno sys esc fls].
  destruct F' as [|F'']; [reflexivity|]. cbn [adv1]. unfold peekIs. cbn [cur].
  destruct (slText L) as [|y0 t'] eqn:EL; [congruence|].
  destruct (Hy y0 t' eq_refl) as [_ He]. rewrite He. reflexivity.
Qed.

(* scSkipSpace over `blanks _ blanks newline (blank lines)`: lands on the continuation line *)
Lemma skipSpace_esc : forall F w1 f w2 bl L r k l fl,
  wsOnly w1 -> w1 <> [] -> wsOnly w2 -> Forall blankLine bl -> slSys L = false ->
  (forall y t', slText L = y :: t' -> isspaceC y = false /\ N.eqb y cESC = false) -> slText L <> [] ->
  (length w2 + length bl + 3 <= F)%nat -> (length w1 <= f)%nat ->
  skipSpace F f (mkSt (w1 ++ cESC :: w2 ++ [cNL]) (bl ++ L :: r) k l false false fl)
  = mkSt (slText L) r (slIndent L) (l + 1 + N.of_nat (length bl)) false false fl.
Proof.
  induction w1 as [|c w1 IH]; intros f w2 bl L r k l fl Hw1 Hne Hw2 Hb HL Hy HT HF Hf; [congruence|].
  inversion Hw1 as [|? ? Hc Hw1']; subst. cbn [length] in Hf. destruct f as [|f']; [lia|].
  cbn [app skipSpace]. unfold peekP at 1. cbn [cur]. rewrite Hc.
  destruct w1 as [|c' w1'].
  - (* the blank before the escape character *)
    cbn [app]. unfold adv. rewrite adv0_step. unfold atEOF, peekIs. cbn [cur].
    change (N.eqb cESC cESC) with true. cbn [negb orb].
    rewrite adv1_cross by assumption.
    destruct f' as [|f'']; [reflexivity|]. cbn [skipSpace]. unfold peekP. cbn [cur].
    destruct (slText L) as [|y0 t'] eqn:EL; [congruence|].
    destruct (Hy y0 t' eq_refl) as [Hs _].
    assert (B : isBlankTab y0 = false).
    { destruct (isBlankTab y0) eqn:B; auto. apply blankTab_isspace in B. congruence. }
    now rewrite B.
  - assert (Hc' : N.eqb c' cESC = false) by (inversion Hw1'; subst; now apply blankTab_notEsc).
    change ((c' :: w1') ++ cESC :: w2 ++ [cNL]) with (c' :: (w1' ++ cESC :: w2 ++ [cNL])).
    rewrite adv_plain by assumption.
    change (c' :: w1' ++ cESC :: w2 ++ [cNL]) with ((c' :: w1') ++ cESC :: w2 ++ [cNL]).
    apply IH; auto; [discriminate | cbn [length] in *; lia].
Qed.

(* ------------------------------------------------------------------ a rendered logical line *)

Section LogicalLine.
  Variable munch : N -> list (N * bool) -> nat * N.

  (* the white space between two tokens of one statement, as the renderer writes it *)
  Inductive gap :=
  | GPlain (ws : list N)                                  (* blanks and tabs; may be empty (tight) *)
  | GEsc (w1 w2 : list N) (bl : list sline) (ind : N).    (* blanks `_` blanks newline, blank lines,
                                                             continuation line indented to column ind *)

  Record item := mkItem { igap : gap; itext : list N; itag : N }.

  (* the source text: (rest of the current line, following source lines) *)
  Fixpoint layout (its : list item) (wsEnd : list N) (rest0 : list sline) : list N * list sline :=
    match its with
    | [] => (wsEnd ++ [cNL], rest0)
    | it :: m =>
        let '(c, r) := layout m wsEnd rest0 in
        match igap it with
        | GPlain ws => (ws ++ itext it ++ c, r)
        | GEsc w1 w2 bl ind => (w1 ++ cESC :: w2 ++ [cNL], bl ++ mkSL ind false false (itext it ++ c) :: r)
        end
    end.

  (* in float state fs the token recogniser cuts t off, whatever follows the character x *)
  Definition recognises (fs : N) (t : list N) (tag : N) (x : N) : Prop :=
    forall e', munch fs (map plain t ++ (x, false) :: e') = (length t, tag).

  Definition startsToken (t : list N) (x : N) : Prop :=
    match t with
    | [] => False
    | y :: t' =>
        isspaceC y = false /\ N.eqb y cESC = false /\
        (* not the beginning of a comment *)
        let z := match t' with [] => x | z :: _ => z end in
        (N.eqb y cMINUS && N.eqb z cMINUS = false) /\ (N.eqb y cPLUS && N.eqb z cPLUS = false)
    end.

  Definition gapOK (g : gap) : Prop :=
    match g with
    | GPlain ws => wsOnly ws
    | GEsc w1 w2 bl _ => wsOnly w1 /\ w1 <> [] /\ wsOnly w2 /\ Forall blankLine bl
    end.

  Definition gapSize (g : gap) : nat :=
    match g with
    | GPlain ws => length ws
    | GEsc w1 w2 bl _ => (length w1 + length w2 + length bl + 3)%nat
    end.

  (* side conditions on a rendered line; x = the character that follows the token, fs = the float
     state the scanner is in when it reaches the token: the one before the line for the first token,
     floatCanFollow of the previous token afterwards — also across an escaped line break *)
  Fixpoint itemsOK (F : nat) (fs : N) (its : list item) (wsEnd : list N) (rest0 : list sline) : Prop :=
    match its with
    | [] => wsOnly wsEnd /\ (length wsEnd < F)%nat
    | it :: m =>
        let x := match fst (layout m wsEnd rest0) with x :: _ => x | [] => cNL end in
        gapOK (igap it) /\ noEsc (itext it) /\ startsToken (itext it) x /\
        recognises fs (itext it) (itag it) x /\
        (gapSize (igap it) < F)%nat /\ (length (itext it) < F)%nat /\
        itemsOK F (floatCanFollow (itag it)) m wsEnd rest0
    end.

  (* the first character of a layout is never the escape character *)
  Lemma layout_first : forall F fs its wsEnd rest0, itemsOK F fs its wsEnd rest0 ->
    exists x c, fst (layout its wsEnd rest0) = x :: c /\ N.eqb x cESC = false.
  Proof.
    intros F fs [|it m] wsEnd rest0 H; cbn [layout itemsOK] in *.
    - destruct H as [Hw _]. destruct wsEnd as [|y w]; cbn [app fst].
      + exists cNL, []. auto.
      + exists y, (w ++ [cNL]). split; auto. inversion Hw; subst. now apply blankTab_notEsc.
    - destruct (layout m wsEnd rest0) as [c r]. destruct H as (Hg & Ht & Hs & _).
      destruct (igap it) as [ws|w1 w2 bl ind]; cbn [fst gapOK] in *.
      + destruct ws as [|y w].
        * destruct (itext it) as [|y t']; [contradiction|]. exists y, (t' ++ c). split; auto.
          now destruct Hs as (_ & He & _).
        * exists y, (w ++ itext it ++ c). split; auto. inversion Hg; subst. now apply blankTab_notEsc.
      + destruct Hg as (Hw1 & Hne & _). destruct w1 as [|y w]; [congruence|].
        exists y, (w ++ cESC :: w2 ++ [cNL]). split; auto. inversion Hw1; subst. now apply blankTab_notEsc.
  Qed.

  Fixpoint takeToks (F : nat) (n : nat) (s : st) : option (list stok * st) :=
    match n with
    | O => Some ([], s)
    | S n' => match scanToken munch F s with
              | None => None
              | Some (t, s1) => match takeToks F n' s1 with
                                | None => None
                                | Some (ts, s2) => Some (t :: ts, s2)
                                end
              end
    end.

  Lemma scanLoop_takeToks : forall F n s ts s' f, takeToks F n s = Some (ts, s') ->
    scanLoop munch F (n + f) s = ts ++ scanLoop munch F f s'.
  Proof.
    induction n as [|n IH]; intros s ts s' f H; cbn [takeToks] in H.
    - injection H as <- <-. reflexivity.
    - destruct (scanToken munch F s) as [[t s1]|] eqn:E; [|discriminate].
      destruct (takeToks F n s1) as [[ts1 s2]|] eqn:E2; [|discriminate].
      injection H as <- <-. cbn [plus scanLoop]. rewrite E. cbn [app]. f_equal. now apply IH.
  Qed.

  (* one token of the line: the gap is skipped (the float state survives it, also across an
     escaped line break), the recogniser is asked, the text is consumed *)
  Lemma scanToken_item : forall F it m wsEnd rest0 s,
    itemsOK F (fls s) (it :: m) wsEnd rest0 ->
    (cur s, rest s) = layout (it :: m) wsEnd rest0 -> sys s = false -> esc s = false ->
    exists tk s1, scanToken munch F s = Some (tk, s1) /\ stTag tk = itag it /\
      (cur s1, rest s1) = layout m wsEnd rest0 /\ sys s1 = false /\ esc s1 = false /\
      fls s1 = floatCanFollow (itag it).
  Proof.
    intros F it m wsEnd rest0 s H HL Hsys Hesc.
    cbn [itemsOK] in H. destruct H as (Hg & Ht & Hs & Hr & HF1 & HF2 & Hm).
    destruct (layout_first F _ m wsEnd rest0 Hm) as (x & c & EL & Hx).
    cbn [layout] in HL. destruct (layout m wsEnd rest0) as [c0 r0] eqn:ELm. cbn [fst] in EL. subst c0.
    cbn [fst] in Hs, Hr.
    (* after scSkipSpace: on the first character of the text, float state unchanged *)
    assert (SK : exists k l, skipSpace F F s = mkSt (itext it ++ x :: c) r0 k l false false (fls s)).
    { destruct s as [cu re k l sy e fl]. cbn [cur rest sys esc fls] in *. subst sy e.
      destruct (itext it) as [|y t'] eqn:ET; [contradiction|].
      destruct Hs as (Hy1 & Hy2 & _).
      assert (By : isBlankTab y = false).
      { destruct (isBlankTab y) eqn:B; auto. apply blankTab_isspace in B. congruence. }
      destruct (igap it) as [ws|w1 w2 bl ind]; cbn [gapOK gapSize] in *.
      - injection HL as -> ->.
        destruct (skipSpace_plain F ws F y (t' ++ x :: c) r0 k l fl Hg By Hy2) as [k' E]; [lia|].
        change (ws ++ (y :: t') ++ x :: c) with (ws ++ y :: t' ++ x :: c). rewrite E. eauto.
      - injection HL as -> ->. destruct Hg as (Hw1 & Hne & Hw2 & Hb).
        change (y :: t' ++ x :: c) with ((y :: t') ++ x :: c).
        rewrite (skipSpace_esc F w1 F w2 bl (mkSL ind false false ((y :: t') ++ x :: c)) r0 k l fl); auto.
        + cbn [slText slIndent]. eauto.
        + cbn [slText]. intros y0 t0 E0. injection E0 as <- _. auto.
        + cbn [slText]. discriminate.
        + lia.
        + lia. }
    destruct SK as (k & l & SK).
    unfold scanToken. rewrite Hsys, SK. cbn [cur esc fls].
    destruct (itext it) as [|y t'] eqn:ET; [contradiction|].
    destruct Hs as (Hy1 & Hy2 & HC1 & HC2). cbn [app].
    assert (NNL : N.eqb y cNL = false).
    { destruct (N.eqb y cNL) eqn:EN; [|reflexivity]. apply N.eqb_eq in EN. subst y. discriminate Hy1. }
    rewrite NNL. cbn [negb andb].
    assert (S2 : secondIs (y :: t' ++ x :: c) cMINUS = N.eqb (match t' with [] => x | z :: _ => z end) cMINUS
              /\ secondIs (y :: t' ++ x :: c) cPLUS = N.eqb (match t' with [] => x | z :: _ => z end) cPLUS).
    { unfold secondIs, second. destruct t'; auto. }
    destruct S2 as [-> ->]. rewrite HC1, HC2.
    change (y :: t' ++ x :: c) with ((y :: t') ++ x :: c).
    destruct (estream_plain F (y :: t') F x c r0 k l false (fls s) Ht Hx HF2) as [e' EE]. rewrite EE, Hr.
    destruct (advN_plain F (y :: t') x c r0 k l false (fls s) Ht Hx) as [k' EA]; [discriminate|].
    replace (Nat.max 1 (length (y :: t'))) with (length (y :: t')) by (cbn [length]; lia).
    rewrite EA. eexists. eexists. split; [reflexivity|]. cbn [stTag mkTokBetween cur rest sys esc fls setFls].
    repeat split.
  Qed.

  (* scan_logical_line: whatever the gaps are — any blanks and tabs, none where the recogniser
     separates the two tokens anyway, or an escaped line break with trailing blanks, blank lines
     and any indentation of the continuation — the scanner delivers the tokens of the line, then
     the newline, and stands at the beginning of the next source line.  The recogniser is asked
     in the float state left by the previous token, on both sides of an escaped line break. *)
  Theorem scan_logical_line : forall F its wsEnd rest0 s,
    itemsOK F (fls s) its wsEnd rest0 ->
    (cur s, rest s) = layout its wsEnd rest0 -> sys s = false -> esc s = false ->
    exists tks sNL,
      takeToks F (S (length its)) s = Some (tks, setFls (adv F false sNL) (floatCanFollow KW_NewLine)) /\
      map stTag tks = map itag its ++ [KW_NewLine] /\
      cur sNL = [cNL] /\ rest sNL = rest0.
  Proof.
    intros F its. induction its as [|it m IH]; intros wsEnd rest0 s H HL Hsys Hesc.
    - cbn [itemsOK layout] in *. destruct H as [Hw HF].
      destruct s as [cu re k l sy e fl]. cbn [cur rest sys esc] in *. subst sy e. injection HL as -> ->.
      destruct (skipSpace_plain F wsEnd F cNL [] rest0 k l fl Hw) as [k' E]; [reflexivity|reflexivity|lia|].
      cbn [length takeToks]. unfold scanToken. cbn [sys]. rewrite E. cbn [cur].
      change (N.eqb cNL cNL) with true. cbn iota.
      eexists. exists (mkSt [cNL] rest0 k' l false false fl). split; [reflexivity|]. auto.
    - destruct (scanToken_item F it m wsEnd rest0 s H HL Hsys Hesc) as (tk & s1 & E1 & Tg & L1 & Sy1 & Es1 & Fl1).
      cbn [itemsOK] in H. destruct H as (_ & _ & _ & _ & _ & _ & Hm). rewrite <- Fl1 in Hm.
      destruct (IH wsEnd rest0 s1 Hm L1 Sy1 Es1) as (tks & sNL & E2 & Tgs & C1 & C2).
      cbn [length]. change (takeToks F (S (S (length m))) s) with
        (match scanToken munch F s with
         | None => None
         | Some (t, s1) => match takeToks F (S (length m)) s1 with
                           | None => None | Some (ts, s2) => Some (t :: ts, s2) end
         end).
      rewrite E1, E2. exists (tk :: tks), sNL. split; [reflexivity|].
      cbn [map app]. rewrite Tg, Tgs. auto.
  Qed.

  (* ---- the two corollaries the property talks about *)

  Definition allPlain (its : list item) : Prop :=
    Forall (fun it => match igap it with GPlain _ => True | GEsc _ _ _ _ => False end) its.

  (* scan_spacing_insens: two renderings of the same token sequence that differ only in the blanks
     and tabs between the tokens (and at the end of the line) scan to the same token list up to
     columns *)
  Theorem scan_spacing_insens : forall F its its' wsEnd wsEnd' rest0 s s',
    map itext its = map itext its' -> map itag its = map itag its' ->
    allPlain its -> allPlain its' -> fls s = fls s' ->
    itemsOK F (fls s) its wsEnd rest0 -> itemsOK F (fls s') its' wsEnd' rest0 ->
    (cur s, rest s) = layout its wsEnd rest0 -> (cur s', rest s') = layout its' wsEnd' rest0 ->
    sys s = false -> esc s = false -> sys s' = false -> esc s' = false ->
    exists tks tks' e e',
      takeToks F (S (length its)) s = Some (tks, e) /\ takeToks F (S (length its')) s' = Some (tks', e') /\
      map stTag tks = map stTag tks'.
  Proof.
    intros F its its' wsEnd wsEnd' rest0 s s' _ ETag _ _ _ H H' HL HL' Sy Es Sy' Es'.
    destruct (scan_logical_line F its wsEnd rest0 s H HL Sy Es) as (tks & sNL & E & T & _).
    destruct (scan_logical_line F its' wsEnd' rest0 s' H' HL' Sy' Es') as (tks' & sNL' & E' & T' & _).
    exists tks, tks'. eexists. eexists. split; [exact E|]. split; [exact E'|].
    now rewrite T, T', ETag.
  Qed.

  (* escape_join_insens: the same statement with escaped line breaks (any blanks after the `_`, any
     number of blank lines, any indentation of the continuation) in one of the two renderings; both
     scans start in the same float state and the recogniser is asked in the same float state for
     every token of the two renderings *)
  Theorem escape_join_insens : forall F its its' wsEnd wsEnd' rest0 s s',
    map itext its = map itext its' -> map itag its = map itag its' ->
    allPlain its' -> fls s = fls s' ->
    itemsOK F (fls s) its wsEnd rest0 -> itemsOK F (fls s') its' wsEnd' rest0 ->
    (cur s, rest s) = layout its wsEnd rest0 -> (cur s', rest s') = layout its' wsEnd' rest0 ->
    sys s = false -> esc s = false -> sys s' = false -> esc s' = false ->
    exists tks tks' sNL sNL',
      takeToks F (S (length its)) s
        = Some (tks, setFls (adv F false sNL) (floatCanFollow KW_NewLine)) /\
      takeToks F (S (length its')) s'
        = Some (tks', setFls (adv F false sNL') (floatCanFollow KW_NewLine)) /\
      map stTag tks = map stTag tks' /\
      cur sNL = cur sNL' /\ rest sNL = rest sNL'.
  Proof.
    intros F its its' wsEnd wsEnd' rest0 s s' _ ETag _ _ H H' HL HL' Sy Es Sy' Es'.
    destruct (scan_logical_line F its wsEnd rest0 s H HL Sy Es) as (tks & sNL & E & T & C1 & C2).
    destruct (scan_logical_line F its' wsEnd' rest0 s' H' HL' Sy' Es') as (tks' & sNL' & E' & T' & C1' & C2').
    exists tks, tks', sNL, sNL'. repeat split; auto; congruence.
  Qed.
End LogicalLine.

(* ------------------------------------------------------------------ example: the hypotheses are satisfiable *)

Module ScanExample.
  (* a concrete recogniser: a token is a maximal run of non-space characters, tag TK_Id *)
  Fixpoint runLen (e : list (N * bool)) : nat :=
    match e with
    | (c, _) :: r => if isspaceC c then O else S (runLen r)
    | [] => O
    end.
  Definition munchWord (fs : N) (e : list (N * bool)) : nat * N := (runLen e, TK_Id).

  Lemma recognises_word : forall fs t x, Forall (fun c => isspaceC c = false) t -> isspaceC x = true ->
    recognises munchWord fs t TK_Id x.
  Proof.
    intros fs t x Ht Hx e'. unfold munchWord. f_equal.
    induction Ht as [|c t Hc Ht IH]; cbn [map app runLen plain length].
    - now rewrite Hx.
    - now rewrite Hc, IH.
  Qed.

  (*   ab  cd _        versus      ab cd ef
                                   gh
          ef
       gh                                                         *)
  Definition a := 97. Definition b := 98. Definition c := 99. Definition d := 100.
  Definition e := 101. Definition f := 102. Definition g := 103. Definition h := 104.
  Definition nextLine : list sline := [mkSL 0 false false [g; h; cNL]].
  Definition broken : list item :=
    [ mkItem (GPlain []) [a; b] TK_Id; mkItem (GPlain [cBLANK; cBLANK]) [c; d] TK_Id;
      mkItem (GEsc [cBLANK] [cBLANK; cTAB] [mkSL 4 false false [cNL]] 3) [e; f] TK_Id ].
  Definition joined : list item :=
    [ mkItem (GPlain []) [a; b] TK_Id; mkItem (GPlain [cBLANK]) [c; d] TK_Id;
      mkItem (GPlain [cTAB]) [e; f] TK_Id ].

  Example ex_broken_ok : itemsOK munchWord 50 fsAny broken [] nextLine.
  Proof.
    cbn [itemsOK broken layout igap itext itag fst gapOK gapSize startsToken length app].
    repeat split; try (repeat constructor; fail); try (cbn; lia);
      try (apply recognises_word; [repeat constructor | reflexivity]); try discriminate.
  Qed.

  Example ex_joined_ok : itemsOK munchWord 50 fsAny joined [] nextLine.
  Proof.
    cbn [itemsOK joined layout igap itext itag fst gapOK gapSize startsToken length app].
    repeat split; try (repeat constructor; fail); try (cbn; lia);
      try (apply recognises_word; [repeat constructor | reflexivity]); try discriminate.
  Qed.

  Definition linesOf (its : list item) : list sline :=
    let '(c0, r) := layout its [] nextLine in mkSL 0 false false c0 :: r.

  Example ex_same_tokens :
    map stTag (scan munchWord (linesOf broken)) = map stTag (scan munchWord (linesOf joined))
    /\ map stTag (scan munchWord (linesOf broken))
       = [TK_Id; TK_Id; TK_Id; KW_NewLine; TK_Id; KW_NewLine].
  Proof. vm_compute. auto. Qed.

  (* a recogniser that depends on the float state, like scan.c's: `.5` is a float only in AnyFloat *)
  Definition munchF (fs : N) (e : list (N * bool)) : nat * N :=
    match e with
    | (46, _) :: _ => if N.eqb fs fsAny then (runLen e, TK_Float) else (1%nat, KW_Dot)
    | _ => (runLen e, TK_Id)
    end.
  Definition x := 120.
  (*  x _        x .5        x
       .5                     .5          *)
  Definition fl_escaped : list sline := [mkSL 0 false false [x; cBLANK; cESC; cNL]; mkSL 1 false false [46; 53; cNL]].
  Definition fl_joined  : list sline := [mkSL 0 false false [x; cBLANK; 46; 53; cNL]].
  Definition fl_newline : list sline := [mkSL 0 false false [x; cNL]; mkSL 1 false false [46; 53; cNL]].

  Example ex_float_state_kept_across_escape :
    map stTag (scan munchF fl_escaped) = [TK_Id; KW_Dot; TK_Id; KW_NewLine]
    /\ map stTag (scan munchF fl_joined) = [TK_Id; KW_Dot; TK_Id; KW_NewLine]
    /\ map stTag (scan munchF fl_newline) = [TK_Id; KW_NewLine; TK_Float; KW_NewLine].
  Proof. vm_compute. auto. Qed.
End ScanExample.
