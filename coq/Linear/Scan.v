(* C14 — model of the layout-relevant part of include.c / scan.c:
   how a physical line becomes (indentation column, text) and how the scanner's cursor walks the
   source lines: blanks and tabs (TABSTOP), `--` comments, `++` / `+++` doc comments, the escape
   character, system-command lines, the positions (line, column) of every token.

   What a token IS (maximal munch over identifiers, numbers, strings, operators) is NOT modelled:
   it is the Section variable [munch], which is given the scanner's float state and the effective
   character stream and answers (number of effective characters, tag).  Everything the scanner does
   between and around tokens is modelled function for function:

     include.c : inclCalcIndentLevel, inclLine (directive test, slineNew)
     scan.c    : scStartLine, scAdvance0, scAdvance / scAdvance1, scSkipSpace, scanTokenCases,
                 scanNewLine, scanComment, scanDoc, scanSysCommand, floatCanFollow, scTokPos, scan

   Characters are byte codes (N).  Loops that follow the text use one explicit fuel bound. *)

Require Import NArith List Bool.
Require Import AV.Gen.TokenInfo.
Import ListNotations.
Local Open Scope N_scope.

Definition cTAB : N := 9.
Definition cNL : N := 10.
Definition cBLANK : N := 32.
Definition cHASH : N := 35.     (* DIRECTIVE_CHAR '#' *)
Definition cPLUS : N := 43.
Definition cMINUS : N := 45.
Definition cESC : N := 95.      (* ESC_CHAR '_' *)

(* C isspace in the "C" locale: blank, \t \n \v \f \r *)
Definition isspaceC (c : N) : bool := N.eqb c cBLANK || (N.leb 9 c && N.leb c 13).
(* scSkipSpace: blank and tab only *)
Definition isBlankTab (c : N) : bool := N.eqb c cBLANK || N.eqb c cTAB.

(* ------------------------------------------------------------------ include.c *)

(* ROUND_UP(n, TABSTOP) for n % TABSTOP != 0 *)
Definition roundUpT (n : N) : N := n + TABSTOP - n mod TABSTOP.

(* inclCalcIndentLevel: i is the column reached so far *)
Fixpoint inclIndent (ln : list N) (i : N) : N * list N :=
  match ln with
  | [] => (i, [])
  | c :: r =>
      if N.eqb c cBLANK then inclIndent r (i + 1)
      else if N.eqb c cTAB
           then inclIndent r (if N.eqb (i mod TABSTOP) 0 then i + TABSTOP else roundUpT i)
           else (i, ln)
  end.

(* struct srcLine: indentation is an unsigned short *)
Record sline := mkSL { slIndent : N; slSys : bool; slHandled : bool; slText : list N }.

(* inclLine for a line that is kept: a directive line (first character `#`) becomes a
   system-command line with indentation 0 and the whole text; any other line loses its
   leading blanks and tabs to the indentation.  (Which directives include.c handles itself
   — #include, #if ... — is not modelled: [slHandled] comes from the implementation.) *)
Definition inclLine (ln : list N) : sline :=
  match ln with
  | c :: _ =>
      if N.eqb c cHASH then mkSL 0 true false ln
      else let '(i, s) := inclIndent ln 0 in mkSL (i mod 65536) false false s
  | [] => mkSL 0 false false []
  end.

(* ------------------------------------------------------------------ scan.c: the cursor *)

(* FloatState *)
Definition fsAny : N := 0.
Definition fsNoPreDot : N := 1.
Definition fsNoDot : N := 2.

Record st := mkSt {
  cur  : list N;        (* scLine + scLineIndex: the peeked character is the head; [] = no line (EOF) *)
  rest : list sline;    (* cdr(scSrcLines) *)
  col  : N;             (* scLineChar *)
  lno  : N;             (* index of the current source line in the list given to scan *)
  sys  : bool;          (* scIsSysCmd *)
  esc  : bool;          (* scIsEscaped *)
  fls  : N              (* scFloatState *)
}.

Definition setEsc (s : st) (e : bool) : st := mkSt (cur s) (rest s) (col s) (lno s) (sys s) e (fls s).
Definition setFls (s : st) (f : N) : st := mkSt (cur s) (rest s) (col s) (lno s) (sys s) (esc s) f.

Definition peekIs (s : st) (c : N) : bool := match cur s with x :: _ => N.eqb x c | [] => false end.
Definition peekP (s : st) (p : N -> bool) : bool := match cur s with x :: _ => p x | [] => false end.
Definition atEOF (s : st) : bool := match cur s with [] => true | _ :: _ => false end.

(* scStartLine: skip handled system-command lines; l is the index of the first candidate *)
Fixpoint startLine (s : st) (ls : list sline) (l : N) : st :=
  match ls with
  | [] => mkSt [] [] (col s) (lno s) (sys s) (esc s) (fls s)        (* scLine = 0: nothing else changes *)
  | x :: r =>
      if slSys x && slHandled x then startLine s r (l + 1)
      else mkSt (slText x) r (slIndent x) l (slSys x) false fsAny
  end.

(* the tab rule of scAdvance0: k is the column of the character before the tab *)
Definition tabCol (k : N) : N :=
  if N.eqb ((k + 1) mod TABSTOP) 0 then k + TABSTOP else roundUpT (k + 1) - 1.

(* scAdvance0 *)
Definition adv0 (s : st) : st :=
  match cur s with
  | [] => s
  | _ :: [] => startLine s (rest s) (lno s + 1)
  | _ :: ((c :: _) as r) =>
      mkSt r (rest s) (if N.eqb c cTAB then tabCol (col s) else col s + 1) (lno s) false (esc s) (fls s)
  end.

(* while (isspace(scPeekChar())) scAdvance0(); *)
Fixpoint skipWs (f : nat) (s : st) : st :=
  match f with
  | O => s
  | S f' => if peekP s isspaceC then skipWs f' (adv0 s) else s
  end.

(* scAdvance1, entered at `restart:`.  The float state is saved before the escaped white-space
   run and restored after it: an escaped line break joins two lines and must not reset
   scFloatState the way scStartLine does. *)
Fixpoint adv1 (f : nat) (s : st) : st :=
  match f with
  | O => setEsc s false
  | S f' =>
      if negb (peekIs s cESC) then setEsc s false
      else let fs := fls s in
           let s1 := adv0 s in
           if peekP s1 isspaceC then adv1 f' (setFls (skipWs f' s1) fs)
           else setEsc (setFls s1 fs) true
  end.

(* scAdvance; inC = scIsInComment *)
Definition adv (F : nat) (inC : bool) (s : st) : st :=
  let s1 := adv0 s in
  if atEOF s1 || negb (peekIs s1 cESC) || inC then setEsc s1 false else adv1 F s1.

(* scSkipSpace *)
Fixpoint skipSpace (F f : nat) (s : st) : st :=
  match f with
  | O => s
  | S f' => if peekP s isBlankTab then skipSpace F f' (adv F false s) else s
  end.

(* while ((c = scPeekChar()) != '\n' && c != scEndChar) scAdvance(); *)
Fixpoint toEol (F f : nat) (inC : bool) (s : st) : st :=
  match f with
  | O => s
  | S f' => if atEOF s || peekIs s cNL then s else toEol F f' inC (adv F inC s)
  end.

Fixpoint advN (F : nat) (n : nat) (s : st) : st :=
  match n with O => s | S n' => advN F n' (adv F false s) end.

(* the effective character stream outside comments: (character, escaped), up to and including the
   first unescaped newline (no recogniser of scan.c reads past the end of the line: scanString
   stops there, keyLongest is given the rest of the line) *)
Fixpoint estream (F f : nat) (s : st) : list (N * bool) :=
  match f with
  | O => []
  | S f' => match cur s with
            | [] => []
            | c :: _ => (c, esc s) :: (if N.eqb c cNL && negb (esc s) then []
                                       else estream F f' (adv F false s))
            end
  end.

(* ------------------------------------------------------------------ scan.c: tokens *)

Record stok := mkSTok { stTag : N; stLine : N; stCol : N; stELine : N; stECol : N }.

(* scTokPos(): sposOffset(scLinePos, scLineChar - (scIsEscaped ? 1 : 0)); a line's position has
   column 1 (sposNew(..., 1)) and the column saturates at SPOS_CNO_MAX *)
Definition posCol (s : st) : N := N.min SPOS_CNO_MAX (1 + col s - (if esc s then 1 else 0)).

Definition mkTokBetween (tag : N) (a b : st) : stok := mkSTok tag (lno a) (posCol a) (lno b) (posCol b).

Definition floatCanFollow (tag : N) : N :=
  if N.eqb tag KW_Dot then fsNoDot
  else if N.eqb tag TK_Id || N.eqb tag TK_Int || N.eqb tag TK_Float || N.eqb tag TK_String then fsNoPreDot
  else if tokIsCloser tag then fsNoPreDot else fsAny.

Section Scanner.
  (* the abstract token recogniser: float state, effective stream -> (length >= 1, tag) *)
  Variable munch : N -> list (N * bool) -> nat * N.

  Definition second (l : list N) : option N := match l with _ :: y :: _ => Some y | _ => None end.
  Definition secondIs (l : list N) (c : N) : bool := match second l with Some y => N.eqb y c | None => false end.

  (* scanToken = scanTokenCases + the float state; None: end of input *)
  Definition scanToken (F : nat) (s : st) : option (stok * st) :=
    if sys s then
      (* scanSysCommand *)
      let s1 := toEol F F false s in
      let s2 := adv F false s1 in
      Some (mkTokBetween TK_SysCmd s s1, setFls s2 (floatCanFollow TK_SysCmd))
    else
      let s0 := skipSpace F F s in
      match cur s0 with
      | [] => None
      | c :: _ =>
          if N.eqb c cNL then
            let s1 := adv F false s0 in
            Some (mkTokBetween KW_NewLine s0 s1, setFls s1 (floatCanFollow KW_NewLine))
          else if negb (esc s0) && N.eqb c cMINUS && secondIs (cur s0) cMINUS then
            (* scanComment *)
            let s1 := toEol F F true (adv F true (adv F true s0)) in
            Some (mkTokBetween TK_Comment s0 s1, setFls s1 (floatCanFollow TK_Comment))
          else if negb (esc s0) && N.eqb c cPLUS && secondIs (cur s0) cPLUS then
            (* scanDoc *)
            let s2 := adv F true (adv F true s0) in
            let pre := peekIs s2 cPLUS in
            let s3 := toEol F F true (if pre then adv F true s2 else s2) in
            let tag := if pre then TK_PreDoc else TK_PostDoc in
            Some (mkTokBetween tag s0 s3, setFls s3 (floatCanFollow tag))
          else
            let '(n, tag) := munch (fls s0) (estream F F s0) in
            let s1 := advN F (Nat.max 1 n) s0 in
            Some (mkTokBetween tag s0 s1, setFls s1 (floatCanFollow tag))
      end.

  Fixpoint scanLoop (F f : nat) (s : st) : list stok :=
    match f with
    | O => []
    | S f' => match scanToken F s with
              | None => []
              | Some (t, s') => t :: scanLoop F f' s'
              end
    end.

  Definition totalChars (ls : list sline) : nat :=
    fold_right (fun l n => (length (slText l) + n)%nat) 0%nat ls.

  Definition initSt (ls : list sline) : st :=
    startLine (mkSt [] [] 0 0 false false fsAny) ls 0.

  (* scan: every loop is bounded by the number of characters + 2 *)
  Definition scan (ls : list sline) : list stok :=
    let F := S (S (totalChars ls)) in scanLoop F F (initSt ls).
End Scanner.
