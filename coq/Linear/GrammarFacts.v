(* C14 — braced_equals_piled: for every program of the abstract grammar, the lineariser turns the
   piled rendering (any strictly increasing depth -> column map) into the canonical bracketed
   stream, and leaves the braced rendering's canonical stream alone. *)

Require Import NArith Arith List Bool Lia.
Require Import AV.Gen.TokenInfo AV.Linear.Model AV.Linear.Facts AV.Linear.Grammar.
Import ListNotations.
Local Open Scope N_scope.

(* ------------------------------------------------------------------ facts read off the generated token table *)

Lemma tbl_BackTab_not_opener : tokIsOpener KW_BackTab = false.
Proof. vm_compute. reflexivity. Qed.
Lemma tbl_BackTab_not_comma : N.eqb KW_BackTab KW_Comma = false.
Proof. vm_compute. reflexivity. Qed.
Lemma tbl_SetTab_not_NL : N.eqb KW_SetTab KW_NewLine = false.
Proof. vm_compute. reflexivity. Qed.
Lemma tbl_BackSet_not_NL : N.eqb KW_BackSet KW_NewLine = false.
Proof. vm_compute. reflexivity. Qed.
Lemma tbl_BackTab_not_NL : N.eqb KW_BackTab KW_NewLine = false.
Proof. vm_compute. reflexivity. Qed.

(* ------------------------------------------------------------------ tokens of a tree without LN_DoPile *)

Fixpoint nopileT (t : tree) : bool :=
  match t with
  | T1Tok _ _ _ | TNTok _ _ _ => true
  | TNNodes args _ _ => (fix go (l : list tree) : bool :=
                           match l with [] => true | a :: r => nopileT a && go r end) args
  | TDoPile _ _ _ => false
  end.

Lemma nopileT_nodes : forall args h i, nopileT (TNNodes args h i) = forallb nopileT args.
Proof. reflexivity. Qed.

Definition toks (t : tree) : list tok := linXTokens KW_NewLine (lntToTokenList t).

Lemma goToks_acc : forall l,
  Forall (fun t => nopileT t = true -> forall rs, toToks t rs = toToks t [] ++ rs) l ->
  forallb nopileT l = true -> forall rs, goToks l rs = goToks l [] ++ rs.
Proof.
  induction 1 as [|a r Ha Hr IH]; intros Hn rs; cbn [goToks]; auto.
  cbn [forallb] in Hn. apply andb_prop in Hn. destruct Hn as [Hn1 Hn2].
  rewrite IH, (IH Hn2 (toToks a [])), Ha, app_assoc by assumption. reflexivity.
Qed.

Lemma toToks_acc : forall t, nopileT t = true -> forall rs, toToks t rs = toToks t [] ++ rs.
Proof.
  induction t as [x h i|ts h i|args h i IH|args h i IH] using tree_ind'; intros Hn rs.
  - reflexivity.
  - cbn [toToks]. now rewrite app_nil_r.
  - rewrite !toToks_nodes. rewrite nopileT_nodes in Hn. now apply goToks_acc.
  - discriminate.
Qed.

Lemma lntToTokenList_nodes : forall args h i, forallb nopileT args = true ->
  lntToTokenList (TNNodes args h i) = flat_map lntToTokenList args.
Proof.
  intros args h i Hn. unfold lntToTokenList. rewrite toToks_nodes.
  induction args as [|a r IH]; cbn [goToks flat_map]; auto.
  cbn [forallb] in Hn. apply andb_prop in Hn. destruct Hn as [Hn1 Hn2].
  rewrite goToks_acc; auto.
  - rewrite rev_app_distr, IH by assumption. reflexivity.
  - apply Forall_forall. intros t _ Ht. now apply toToks_acc.
Qed.

Lemma filter_flat_map : forall A B (p : B -> bool) (f : A -> list B) l,
  filter p (flat_map f l) = flat_map (fun x => filter p (f x)) l.
Proof. induction l; simpl; auto. now rewrite filter_app, IHl. Qed.

Lemma toks_nodes : forall args h i, forallb nopileT args = true ->
  toks (TNNodes args h i) = flat_map toks args.
Proof.
  intros. unfold toks. rewrite lntToTokenList_nodes by assumption.
  unfold linXTokens. apply filter_flat_map.
Qed.

Lemma toks_1tok : forall t h i, toks (T1Tok t h i) = if tokIs t KW_NewLine then [] else [t].
Proof. intros. unfold toks, lntToTokenList, linXTokens. simpl. destruct (tokIs t KW_NewLine); reflexivity. Qed.

Lemma toks_ntok : forall ts h i, toks (TNTok ts h i) = linXTokens KW_NewLine ts.
Proof. intros. unfold toks, lntToTokenList. cbn [toToks]. now rewrite app_nil_r, rev_involutive. Qed.

Lemma nopileT_lntTok : forall t, nopileT (lntTok t) = true.
Proof. reflexivity. Qed.

Lemma toks_concat2 : forall a b, nopileT a = true -> nopileT b = true ->
  toks (lntConcat2 a b) = toks a ++ toks b.
Proof.
  intros a b Ha Hb. unfold lntConcat2. rewrite toks_nodes.
  - cbn [flat_map]. now rewrite app_nil_r.
  - cbn [forallb]. now rewrite Ha, Hb.
Qed.

Lemma nopileT_concat2 : forall a b, nopileT a = true -> nopileT b = true -> nopileT (lntConcat2 a b) = true.
Proof. intros a b Ha Hb. unfold lntConcat2. rewrite nopileT_nodes. cbn [forallb]. now rewrite Ha, Hb. Qed.

Lemma toks_separate : forall a k b, nopileT a = true -> nopileT b = true ->
  N.eqb k KW_NewLine = false ->
  toks (lntSeparate a k b) = toks a ++ [linKeyword (lntLastTok a) k] ++ toks b.
Proof.
  intros a k b Ha Hb Hk. unfold lntSeparate. rewrite toks_nodes.
  - cbn [flat_map]. rewrite app_nil_r. unfold lntTok at 1. rewrite toks_1tok.
    unfold tokIs, linKeyword at 1. cbn [ttag]. rewrite Hk. reflexivity.
  - cbn [forallb]. now rewrite Ha, Hb.
Qed.

Lemma nopileT_separate : forall a k b, nopileT a = true -> nopileT b = true -> nopileT (lntSeparate a k b) = true.
Proof. intros a k b Ha Hb. unfold lntSeparate. rewrite nopileT_nodes. cbn [forallb]. now rewrite Ha, Hb. Qed.

Lemma toks_wrap : forall o l c, nopileT l = true ->
  N.eqb o KW_NewLine = false -> N.eqb c KW_NewLine = false ->
  toks (lntWrap o l c) = linKeyword (lntFirstTok l) o :: toks l ++ [linKeyword (lntLastTok l) c].
Proof.
  intros o l c Hl Ho Hc. unfold lntWrap. rewrite toks_nodes.
  - cbn [flat_map]. rewrite app_nil_r. unfold lntTok. rewrite !toks_1tok.
    unfold tokIs, linKeyword. cbn [ttag]. rewrite Ho, Hc. reflexivity.
  - cbn [forallb]. now rewrite Hl.
Qed.

Lemma nopileT_wrap : forall o l c, nopileT l = true -> nopileT (lntWrap o l c) = true.
Proof. intros o l c Hl. unfold lntWrap. rewrite nopileT_nodes. cbn [forallb]. now rewrite Hl. Qed.

Lemma erase_app : forall a b, erase (a ++ b) = erase a ++ erase b.
Proof. intros. unfold erase. apply map_app. Qed.

Lemma etok_linKeyword : forall o k, etok (linKeyword o k) = (k, 0).
Proof. reflexivity. Qed.

(* ------------------------------------------------------------------ the tree the pile rules build for an item *)

Lemma joinUp_cons : forall ctx l0 rest,
  joinUp ctx (l0 :: rest) =
  Some (let r := joinLoop ctx l0 l0 rest false in
        if snd r || isPileRequired ctx (fst r) then lntWrap KW_SetTab (fst r) KW_BackTab else fst r).
Proof. intros. cbn [joinUp]. destruct (joinLoop ctx l0 l0 rest false). reflexivity. Qed.

Definition joinUpNE (ctx : option tree) (l0 : tree) (rest : list tree) : tree :=
  let r := joinLoop ctx l0 l0 rest false in
  if snd r || isPileRequired ctx (fst r) then lntWrap KW_SetTab (fst r) KW_BackTab else fst r.

Section Piled.
  Variable col : nat -> N.
  Hypothesis col_mono : forall d, col d < col (S d).

  Definition hasTT : has := mkHas true true.

  (* the LN_NTok node of one header line *)
  Definition LT (d : nat) (h : list atom) : tree := TNTok (lineToks col d h) hasTT (Some (col d)).

  Fixpoint itemTree (d : nat) (it : item) : tree :=
    match it with
    | Item h body =>
        match (fix go (l : list item) : list tree :=
                 match l with [] => [] | a :: r => itemTree (S d) a :: go r end) body with
        | [] => LT d h
        | t0 :: ts => lntConcat2 (LT d h) (joinUpNE (Some (LT d h)) t0 ts)
        end
    end.

  Lemma itemTree_eq : forall d h body,
    itemTree d (Item h body) =
    match map (itemTree (S d)) body with
    | [] => LT d h
    | t0 :: ts => lntConcat2 (LT d h) (joinUpNE (Some (LT d h)) t0 ts)
    end.
  Proof. reflexivity. Qed.

  (* ---- headers *)

  Lemma hdrToks_erase : forall h c, erase (hdrToks c h) = h.
  Proof.
    induction h as [|a r IH]; intros c; cbn [hdrToks]; auto.
    rewrite erase_cons, IH. destruct a; reflexivity.
  Qed.

  Lemma hdrToks_length : forall h c, length (hdrToks c h) = length h.
  Proof. induction h; intros; simpl; auto. Qed.

  Definition ordTok (t : tok) : bool := ordinary (etok t).

  Lemma hdrToks_ordinary : forall h c, forallb ordinary h = true -> forallb ordTok (hdrToks c h) = true.
  Proof.
    induction h as [|a r IH]; intros c H; cbn [hdrToks forallb] in *; auto.
    apply andb_prop in H. destruct H as [H1 H2]. rewrite IH by assumption.
    unfold ordTok, etok, tokAt. cbn [ttag tval]. destruct a. cbn [fst snd]. now rewrite H1.
  Qed.

  Lemma ordTok_notNL : forall t, ordTok t = true -> tokIs t KW_NewLine = false.
  Proof.
    intros t H. unfold ordTok, ordinary, etok, atag in H. cbn [fst] in H. unfold tokIs.
    destruct (N.eqb (ttag t) KW_NewLine); auto.
  Qed.

  Lemma xnl_ordinary : forall l, forallb ordTok l = true -> linXTokens KW_NewLine l = l.
  Proof.
    unfold linXTokens. induction l as [|t r IH]; intros H; cbn [filter forallb] in *; auto.
    apply andb_prop in H. destruct H as [H1 H2]. rewrite (ordTok_notNL _ H1), IH by assumption. reflexivity.
  Qed.

  Lemma wf_hdr_inv : forall h, wf_hdr h = true ->
    exists a r, h = a :: r /\ N.eqb (atag a) KW_At = false /\ forallb ordinary h = true
                /\ good_last (last h a) = true.
  Proof.
    intros [|a r] H; [discriminate|]. exists a, r. unfold wf_hdr in H.
    apply andb_prop in H. destruct H as [H H3]. apply andb_prop in H. destruct H as [H1 H2].
    repeat split; auto. now destruct (N.eqb (atag a) KW_At).
  Qed.

  Lemma toks_LT : forall d h, forallb ordinary h = true -> toks (LT d h) = hdrToks (col d) h.
  Proof.
    intros d h H. unfold LT. rewrite toks_ntok. unfold lineToks, linXTokens. rewrite filter_app.
    cbn [filter]. unfold nlTok, tokIs at 2. cbn [ttag]. rewrite N.eqb_refl. cbn [negb].
    rewrite app_nil_r. apply xnl_ordinary. now apply hdrToks_ordinary.
  Qed.

  Lemma lastNonNL_app_nl : forall l n, tokIs n KW_NewLine = true -> lastNonNL (l ++ [n]) = lastNonNL l.
  Proof.
    induction l as [|t r IH]; intros n Hn; cbn [app lastNonNL].
    - now rewrite Hn.
    - now rewrite IH.
  Qed.

  Lemma lastNonNL_ordinary : forall l d, forallb ordTok l = true -> l <> [] -> lastNonNL l = Some (last l d).
  Proof.
    induction l as [|t r IH]; intros d H Hne; [congruence|].
    cbn [forallb] in H. apply andb_prop in H. destruct H as [H1 H2].
    cbn [lastNonNL]. destruct r as [|u r'].
    - cbn [lastNonNL last]. now rewrite (ordTok_notNL _ H1).
    - rewrite (IH d H2) by discriminate. reflexivity.
  Qed.

  Lemma last_hdrToks : forall h c a d, h <> [] -> exists c', last (hdrToks c h) d = tokAt c' (last h a).
  Proof.
    induction h as [|x r IH]; intros c a d Hne; [congruence|].
    destruct r as [|y r'].
    - exists c. reflexivity.
    - destruct (IH (c + 1) a d) as [c' E]; [discriminate|]. exists c'.
      cbn [hdrToks last] in *. exact E.
  Qed.

  (* the last non-newline token of a header line is its last atom *)
  Lemma lastLessNL_LT : forall d h a r, h = a :: r -> forallb ordinary h = true ->
    exists c', lntLastTokLessNL (LT d h) = Some (tokAt c' (last h a)).
  Proof.
    intros d h a r E H. unfold LT. cbn [lntLastTokLessNL]. unfold lineToks.
    rewrite lastNonNL_app_nl by reflexivity.
    destruct (last_hdrToks h (col d) a (tokAt 0 a)) as [c' E2]; [subst; discriminate|].
    exists c'. rewrite (lastNonNL_ordinary _ (tokAt 0 a)).
    - now rewrite E2.
    - now apply hdrToks_ordinary.
    - subst. discriminate.
  Qed.

  Lemma firstTok_LT : forall d a r, lntFirstTok (LT d (a :: r)) = Some (tokAt (col d) a).
  Proof. reflexivity. Qed.

  (* ---- shape facts of item trees *)

  Lemma thas_itemTree : forall d it, thas (itemTree d it) = hasTT.
  Proof.
    intros d [h body]. rewrite itemTree_eq. destruct (map (itemTree (S d)) body); reflexivity.
  Qed.

  Lemma tindent_itemTree : forall d it, tindent (itemTree d it) = Some (col d).
  Proof.
    intros d [h body]. rewrite itemTree_eq. destruct (map (itemTree (S d)) body); reflexivity.
  Qed.

  Lemma firstTok_itemTree : forall d a r body,
    lntFirstTok (itemTree d (Item (a :: r) body)) = Some (tokAt (col d) a).
  Proof.
    intros. rewrite itemTree_eq. destruct (map (itemTree (S d)) body); reflexivity.
  Qed.

  Lemma nopileT_joinLoop : forall ctx rest t0 acc had,
    nopileT acc = true -> forallb nopileT rest = true ->
    nopileT (fst (joinLoop ctx t0 acc rest had)) = true.
  Proof.
    induction rest as [|t1 r IH]; intros t0 acc had Ha Hr; cbn [joinLoop]; auto.
    cbn [forallb] in Hr. apply andb_prop in Hr. destruct Hr as [H1 H2].
    destruct (isBackSetRequired ctx t0 t1); apply IH; auto.
    - now apply nopileT_separate.
    - now apply nopileT_concat2.
  Qed.

  Lemma nopileT_joinUpNE : forall ctx t0 ts, nopileT t0 = true -> forallb nopileT ts = true ->
    nopileT (joinUpNE ctx t0 ts) = true.
  Proof.
    intros. unfold joinUpNE.
    assert (N := nopileT_joinLoop ctx ts t0 t0 false H H0).
    destruct (snd _ || _); auto. now apply nopileT_wrap.
  Qed.

  Lemma nopileT_itemTree : forall it d, nopileT (itemTree d it) = true.
  Proof.
    induction it as [h body IH] using item_ind'. intros d. rewrite itemTree_eq.
    assert (F : forallb nopileT (map (itemTree (S d)) body) = true).
    { induction IH as [|a r Ha Hr IHr]; cbn [map forallb]; auto. now rewrite Ha, IHr. }
    destruct (map (itemTree (S d)) body) as [|t0 ts]; auto.
    cbn [forallb] in F. apply andb_prop in F. destruct F as [F1 F2].
    apply nopileT_concat2; auto. now apply nopileT_joinUpNE.
  Qed.

  (* ---- the last non-newline token of an item tree is never `,` or an opener *)

  Definition goodTok (t : tok) : Prop :=
    tokIs t KW_NewLine = false /\ tokIs t KW_Comma = false /\ tokIsOpener (ttag t) = false.

  Definition lastGood (t : tree) : Prop := exists x, lntLastTokLessNL t = Some x /\ goodTok x.

  Lemma wf_item_inv : forall h body, wf_item (Item h body) = true ->
    wf_hdr h = true /\ forallb wf_item body = true.
  Proof.
    intros h body H. cbn [wf_item] in H. apply andb_prop in H. destruct H as [H1 H2]. split; auto.
  Qed.

  Lemma last_In' : forall (l : list atom) d, l <> [] -> In (last l d) l.
  Proof.
    induction l as [|x r IH]; intros d H; [congruence|].
    destruct r as [|y r']; [left; reflexivity|]. right. apply IH. discriminate.
  Qed.

  Lemma goodTok_last_hdr : forall h a r c, h = a :: r -> forallb ordinary h = true ->
    good_last (last h a) = true -> goodTok (tokAt c (last h a)).
  Proof.
    intros h a r c E Ho Hg.
    assert (Hin : In (last h a) h).
    { subst. apply last_In'. discriminate. }
    rewrite forallb_forall in Ho. specialize (Ho _ Hin).
    unfold good_last in Hg. apply andb_prop in Hg. destruct Hg as [G1 G2].
    unfold goodTok, tokIs, tokAt. cbn [ttag]. repeat split.
    - unfold ordinary, atag in Ho. destruct (N.eqb (fst (last h a)) KW_NewLine); auto.
    - unfold atag in G1. now destruct (N.eqb (fst (last h a)) KW_Comma).
    - unfold atag in G2. now destruct (tokIsOpener (fst (last h a))).
  Qed.

  Lemma lastLessNL_nodes2 : forall a b h i, (exists x, lntLastTokLessNL b = Some x) ->
    lntLastTokLessNL (TNNodes [a; b] h i) = lntLastTokLessNL b.
  Proof.
    intros a b h i [x E]. rewrite lntLastTokLessNL_nodes. cbn [goLastLessNL]. now rewrite E.
  Qed.

  Lemma lastGood_joinLoop : forall ctx rest t0 acc had,
    lastGood acc -> Forall lastGood rest -> lastGood (fst (joinLoop ctx t0 acc rest had)).
  Proof.
    induction rest as [|t1 r IH]; intros t0 acc had Ha Hr; cbn [joinLoop]; auto.
    inversion Hr as [|? ? H1 H2]; subst.
    destruct (isBackSetRequired ctx t0 t1); apply IH; auto.
    - destruct H1 as [x [E G]]. exists x. split; auto. unfold lntSeparate.
      rewrite lntLastTokLessNL_nodes. cbn [goLastLessNL]. now rewrite E.
    - destruct H1 as [x [E G]]. exists x. split; auto. unfold lntConcat2.
      rewrite lastLessNL_nodes2; eauto.
  Qed.

  Lemma lastGood_joinUpNE : forall ctx t0 ts, lastGood t0 -> Forall lastGood ts ->
    lastGood (joinUpNE ctx t0 ts).
  Proof.
    intros ctx t0 ts H0 Hs. unfold joinUpNE.
    assert (G := lastGood_joinLoop ctx ts t0 t0 false H0 Hs).
    destruct (snd _ || _); auto.
    unfold lntWrap. eexists. split.
    - rewrite lntLastTokLessNL_nodes. cbn [goLastLessNL lntLastTokLessNL lntTok].
      unfold tokIs, linKeyword. cbn [ttag]. rewrite tbl_BackTab_not_NL. reflexivity.
    - unfold goodTok, tokIs, linKeyword. cbn [ttag].
      rewrite tbl_BackTab_not_NL, tbl_BackTab_not_comma, tbl_BackTab_not_opener. auto.
  Qed.

  Lemma lastGood_itemTree : forall it d, wf_item it = true -> lastGood (itemTree d it).
  Proof.
    induction it as [h body IH] using item_ind'. intros d W.
    destruct (wf_item_inv _ _ W) as [Wh Wb].
    destruct (wf_hdr_inv _ Wh) as (a & r & E & _ & Ho & Hg). subst h.
    assert (L0 : lastGood (LT d (a :: r))).
    { destruct (lastLessNL_LT d (a :: r) a r eq_refl Ho) as [c' E2]. eexists. split; [exact E2|].
      now apply (goodTok_last_hdr (a :: r) a r). }
    rewrite itemTree_eq.
    assert (F : Forall lastGood (map (itemTree (S d)) body)).
    { clear - IH Wb. induction IH as [|x xs Hx Hxs IHxs]; cbn [map]; constructor.
      - cbn [forallb] in Wb. apply andb_prop in Wb. apply Hx. tauto.
      - cbn [forallb] in Wb. apply andb_prop in Wb. apply IHxs. tauto. }
    destruct (map (itemTree (S d)) body) as [|t0 ts]; auto.
    inversion F as [|? ? F1 F2]; subst.
    assert (J := lastGood_joinUpNE (Some (LT d (a :: r))) t0 ts F1 F2).
    destruct J as [x [Ex Gx]]. exists x. split; auto.
    unfold lntConcat2. rewrite lastLessNL_nodes2; eauto.
  Qed.

  (* ---- the BackSet decision between two item trees *)

  Lemma isBackSetRequired_items : forall ctx d a b,
    wf_item a = true -> wf_item b = true ->
    isBackSetRequired ctx (itemTree d a) (itemTree d b) = starts_stmt b.
  Proof.
    intros ctx d a b Wa Wb. unfold isBackSetRequired, linIsCom, linIsBlank.
    rewrite !thas_itemTree. cbn [hNonCom hNonBlank hasTT negb orb].
    destruct (lastGood_itemTree a d Wa) as [x [Ex (G1 & G2 & G3)]]. rewrite Ex.
    destruct b as [hb bb]. destruct (wf_item_inv _ _ Wb) as [Wh _].
    destruct (wf_hdr_inv _ Wh) as (a0 & r0 & E & _). subst hb.
    rewrite firstTok_itemTree, G2, G3. cbn [orb].
    unfold starts_stmt, ihdr, nonstarter, tokAt, atag. cbn [ttag].
    destruct (tokIsFollower (fst a0) || tokIsCloser (fst a0)); reflexivity.
  Qed.

  (* ---- tokens of item trees *)

  Definition cI := canonI aSetTab aBackSet aBackTab.
  Definition cL := canonL aSetTab aBackSet aBackTab.

  Lemma joinLoop_items : forall ctx d bs a acc had,
    wf_item a = true -> forallb wf_item bs = true -> nopileT acc = true ->
    Forall (fun x => erase (toks (itemTree d x)) = cI x) bs ->
    let r := joinLoop ctx (itemTree d a) acc (map (itemTree d) bs) had in
    erase (toks (fst r)) = erase (toks acc) ++ cL false bs
    /\ snd r = had || existsb starts_stmt bs.
  Proof.
    induction bs as [|b r IH]; intros a acc had Wa Wbs Na HF; cbn [map joinLoop].
    - cbn [fst snd existsb]. unfold cL. cbn [canonL]. now rewrite app_nil_r, orb_false_r.
    - cbn [forallb] in Wbs. apply andb_prop in Wbs. destruct Wbs as [Wb Wr].
      inversion HF as [|? ? Hb Hr]; subst.
      rewrite isBackSetRequired_items by assumption.
      unfold cL. cbn [canonL existsb]. fold cL. fold cI.
      destruct (starts_stmt b) eqn:SB.
      + specialize (IH b (lntSeparate acc KW_BackSet (itemTree d b)) true Wb Wr).
        destruct IH as [I1 I2]; auto.
        { apply nopileT_separate; auto using nopileT_itemTree. }
        cbn zeta in *. rewrite I1, I2. split; [|now rewrite orb_true_r].
        rewrite toks_separate; auto using nopileT_itemTree, tbl_BackSet_not_NL.
        rewrite !erase_app, Hb. cbn [erase map]. rewrite etok_linKeyword.
        rewrite <- !app_assoc. reflexivity.
      + specialize (IH b (lntConcat2 acc (itemTree d b)) had Wb Wr).
        destruct IH as [I1 I2]; auto.
        { apply nopileT_concat2; auto using nopileT_itemTree. }
        cbn zeta in *. rewrite I1, I2. split; [|now rewrite orb_false_l].
        rewrite toks_concat2; auto using nopileT_itemTree.
        rewrite !erase_app, Hb. rewrite <- !app_assoc. reflexivity.
  Qed.

  Lemma isPileRequired_LT : forall d h a r lnt, h = a :: r -> forallb ordinary h = true ->
    isPileRequired (Some (LT d h)) lnt = isPileKW (atag (last h a)).
  Proof.
    intros d h a r lnt E Ho. unfold isPileRequired. cbn [lntLastTokLessNL_o].
    destruct (lastLessNL_LT d h a r E Ho) as [c' E2]. rewrite E2. reflexivity.
  Qed.

  Lemma forallb_nopileT_items : forall d l, forallb nopileT (map (itemTree d) l) = true.
  Proof. induction l; cbn [map forallb]; auto. now rewrite nopileT_itemTree. Qed.

  Lemma toks_itemTree : forall it d, wf_item it = true -> erase (toks (itemTree d it)) = cI it.
  Proof.
    induction it as [h body IH] using item_ind'. intros d W.
    destruct (wf_item_inv _ _ W) as [Wh Wb].
    destruct (wf_hdr_inv _ Wh) as (a & r & E & _ & Ho & Hg). subst h.
    unfold cI. rewrite canonI_eq, itemTree_eq. fold cL.
    assert (F : Forall (fun x => erase (toks (itemTree (S d) x)) = cI x) body).
    { clear - IH Wb. induction IH as [|x xs Hx Hxs IHxs]; constructor;
        cbn [forallb] in Wb; apply andb_prop in Wb; destruct Wb; auto. }
    destruct body as [|b0 bs]; cbn [map].
    - rewrite toks_LT, hdrToks_erase, app_nil_r by assumption. reflexivity.
    - cbn [forallb] in Wb. apply andb_prop in Wb. destruct Wb as [Wb0 Wbs].
      apply Forall_cons_iff in F. destruct F as [F0 Fs].
      set (c := LT d (a :: r)) in *.
      assert (Nc : nopileT c = true) by reflexivity.
      destruct (joinLoop_items (Some c) (S d) bs b0 (itemTree (S d) b0) false Wb0 Wbs
                               (nopileT_itemTree _ _) Fs) as [J1 J2].
      cbn zeta in J1, J2.
      assert (NJ : nopileT (joinUpNE (Some c) (itemTree (S d) b0) (map (itemTree (S d)) bs)) = true).
      { apply nopileT_joinUpNE; [apply nopileT_itemTree | apply forallb_nopileT_items]. }
      rewrite toks_concat2 by assumption. rewrite erase_app.
      unfold c at 1. rewrite toks_LT, hdrToks_erase by assumption. f_equal.
      unfold joinUpNE in *. rewrite J2. cbn [orb].
      unfold c at 2. rewrite (isPileRequired_LT d (a :: r) a r) by auto.
      unfold hadSep. cbn [tl].
      assert (NL := nopileT_joinLoop (Some c) (map (itemTree (S d)) bs) (itemTree (S d) b0) (itemTree (S d) b0) false
                      (nopileT_itemTree _ _) (forallb_nopileT_items _ _)).
      destruct (existsb starts_stmt bs || isPileKW (atag (last (a :: r) a))).
      + rewrite toks_wrap; auto using tbl_SetTab_not_NL, tbl_BackTab_not_NL.
        rewrite erase_cons, erase_app, J1, F0. cbn [erase map]. rewrite !etok_linKeyword.
        unfold cL. cbn [canonL]. reflexivity.
      + rewrite J1, F0. unfold cL. cbn [canonL]. reflexivity.
  Qed.

  (* ---- the pile rules on the lines of a block *)

  Definition lineTrees (d : nat) (it : item) : list tree :=
    map (fun l => LT (fst l) (snd l)) (pileLines d it).
  Definition blockTrees (d : nat) (b : list item) : list tree := flat_map (lineTrees d) b.

  Lemma pileLines_eq : forall d h body,
    pileLines d (Item h body) = (d, h) :: flat_map (pileLines (S d)) body.
  Proof. reflexivity. Qed.

  Lemma map_flat_map : forall A B C (f : B -> C) (g : A -> list B) l,
    map f (flat_map g l) = flat_map (fun x => map f (g x)) l.
  Proof. induction l; simpl; auto. now rewrite map_app, IHl. Qed.

  Lemma lineTrees_eq : forall d h body,
    lineTrees d (Item h body) = LT d h :: blockTrees (S d) body.
  Proof.
    intros. unfold lineTrees, blockTrees. rewrite pileLines_eq. cbn [map fst snd].
    now rewrite map_flat_map.
  Qed.

  Fixpoint needI (it : item) : nat :=
    match it with
    | Item _ body => S (S ((fix go (l : list item) : nat :=
                              match l with [] => 1%nat | a :: r => (needI a + go r)%nat end) body))
    end.
  Definition needB (b : list item) : nat := fold_right (fun a n => (needI a + n)%nat) 1%nat b.

  Lemma needI_eq : forall h body, needI (Item h body) = S (S (needB body)).
  Proof. reflexivity. Qed.

  Definition stopsAt (c : N) (rest : list tree) : Prop :=
    match rest with
    | [] => True
    | l :: _ => linIsBlank l = false /\ exists x, tindent l = Some x /\ x < c
    end.

  Lemma stopsAt_weaken : forall c c' rest, c < c' -> stopsAt c rest -> stopsAt c' rest.
  Proof.
    intros c c' [|l r] L H; cbn [stopsAt] in *; auto.
    destruct H as [H1 [x [H2 H3]]]. split; auto. exists x. split; auto. lia.
  Qed.

  Lemma linIsBlank_LT : forall d h, linIsBlank (LT d h) = false.
  Proof. reflexivity. Qed.

  Lemma pileLoop_stop : forall n ctx c s rest, stopsAt c rest ->
    pileLoop (S n) ctx (Some c) rest s = pileFinish ctx s rest.
  Proof.
    intros n ctx c s [|l r] H; cbn [pileLoop]; auto.
    destruct H as [H1 [x [H2 H3]]]. rewrite H1, H2. cbn [ind_is_moot orb ind_ltb].
    apply N.ltb_lt in H3. now rewrite H3.
  Qed.

  Lemma pileLoop_push : forall n ctx d h rest s,
    pileLoop (S n) ctx (Some (col d)) (LT d h :: rest) s
    = pileLoop n ctx (Some (col d)) rest (LT d h :: s).
  Proof.
    intros. cbn [pileLoop]. rewrite linIsBlank_LT. cbn [tindent LT ind_is_moot orb ind_ltb ind_eqb].
    now rewrite N.ltb_irrefl, N.eqb_refl.
  Qed.

  Lemma pileLoop_deeper : forall n ctx d h rest c s,
    pileLoop (S n) ctx (Some (col d)) (LT (S d) h :: rest) (c :: s)
    = match pileLoop n (Some c) (Some (col (S d))) (LT (S d) h :: rest) [] with
      | None => None
      | Some (r, lines') => pileLoop n ctx (Some (col d)) lines' (r :: s)
      end.
  Proof.
    intros. cbn [pileLoop]. rewrite linIsBlank_LT. cbn [tindent LT ind_is_moot orb ind_ltb ind_eqb].
    assert (L := col_mono d).
    assert (E1 : N.ltb (col (S d)) (col d) = false) by (apply N.ltb_ge; lia).
    assert (E2 : N.eqb (col (S d)) (col d) = false) by (apply N.eqb_neq; lia).
    now rewrite E1, E2.
  Qed.

  Definition Pitem (it : item) : Prop :=
    forall d n ctx s rest, wf_item it = true -> stopsAt (col (S d)) rest -> (needI it <= n)%nat ->
    exists n', (n <= n' + 2)%nat /\
      pileLoop n ctx (Some (col d)) (lineTrees d it ++ rest) s
      = pileLoop n' ctx (Some (col d)) rest (itemTree d it :: s).

  Lemma blockTrees_cons_LT : forall d it b, exists h, blockTrees d (it :: b) = LT d h :: tl (blockTrees d (it :: b)).
  Proof. intros d [h body] b. exists h. unfold blockTrees. cbn [flat_map]. now rewrite lineTrees_eq. Qed.

  Lemma needI_ge2 : forall it, (2 <= needI it)%nat.
  Proof. intros [h body]. rewrite needI_eq. lia. Qed.

  Lemma pile_block : forall b, Forall Pitem b ->
    forall d n ctx s rest, forallb wf_item b = true -> stopsAt (col d) rest -> (needB b <= n)%nat ->
    pileLoop n ctx (Some (col d)) (blockTrees d b ++ rest) s
    = pileFinish ctx (rev (map (itemTree d) b) ++ s) rest.
  Proof.
    induction 1 as [|it b' Hit Hb' IH]; intros d n ctx s rest W St Hn.
    - cbn [needB fold_right] in Hn. destruct n as [|n0]; [lia|].
      cbn [blockTrees flat_map app map rev]. now apply pileLoop_stop.
    - cbn [forallb] in W. apply andb_prop in W. destruct W as [Wi Wb].
      cbn [needB fold_right] in Hn. fold (needB b') in Hn.
      unfold blockTrees. cbn [flat_map]. fold (blockTrees d b'). rewrite <- app_assoc.
      assert (St' : stopsAt (col (S d)) (blockTrees d b' ++ rest)).
      { destruct b' as [|it' b''].
        - cbn [blockTrees flat_map app]. apply (stopsAt_weaken (col d)); auto.
        - destruct (blockTrees_cons_LT d it' b'') as [h' E]. rewrite E. cbn [app stopsAt].
          split; [reflexivity|]. exists (col d). split; [reflexivity | apply col_mono]. }
      destruct (Hit d n ctx s _ Wi St') as [n' [Ln E]]; [lia|].
      rewrite E. rewrite IH; auto.
      + cbn [map rev]. now rewrite <- app_assoc.
      + assert (G := needI_ge2 it). lia.
  Qed.

  Lemma pile_item : forall it, Pitem it.
  Proof.
    induction it as [h body IH] using item_ind'. unfold Pitem. intros d n ctx s rest W St Hn.
    destruct (wf_item_inv _ _ W) as [Wh Wb].
    rewrite needI_eq in Hn. rewrite lineTrees_eq. cbn [app].
    destruct n as [|n1]; [lia|]. rewrite pileLoop_push.
    destruct body as [|b0 bs].
    - exists n1. split; [lia|]. reflexivity.
    - destruct n1 as [|n2]; [lia|].
      destruct (blockTrees_cons_LT (S d) b0 bs) as [h0 E0].
      remember (blockTrees (S d) (b0 :: bs)) as BT eqn:EBT.
      rewrite E0. cbn [app]. rewrite pileLoop_deeper.
      change (LT (S d) h0 :: tl BT ++ rest) with ((LT (S d) h0 :: tl BT) ++ rest). rewrite <- E0.
      subst BT. rewrite (pile_block (b0 :: bs) IH (S d) n2 (Some (LT d h)) [] rest Wb St) by lia.
      rewrite app_nil_r. unfold pileFinish. rewrite rev_involutive.
      cbn [map]. rewrite joinUp_cons. cbn [lntConcat].
      exists n2. split; [lia|]. reflexivity.
  Qed.

  (* ---- the whole body *)

  Lemma pile0_block : forall b n, forallb wf_item b = true -> b <> [] -> (needB b <= n)%nat ->
    exists t0 ts, map (itemTree 0) b = t0 :: ts /\
      pile0 n None (blockTrees 0 b) = Some (joinUpNE None t0 ts, []).
  Proof.
    intros b n W Hne Hn.
    destruct b as [|it b']; [congruence|].
    exists (itemTree 0 it), (map (itemTree 0) b'). split; [reflexivity|].
    destruct (blockTrees_cons_LT 0 it b') as [h E].
    unfold pile0. rewrite E. cbn [tindent LT]. rewrite <- E.
    rewrite <- (app_nil_r (blockTrees 0 (it :: b'))).
    rewrite (pile_block (it :: b')); auto.
    - rewrite app_nil_r. unfold pileFinish. rewrite rev_involutive. cbn [map].
      rewrite joinUp_cons. reflexivity.
    - apply Forall_forall. intros x _. apply pile_item.
    - exact I.
  Qed.

  Lemma toks_blockTree : forall b t0 ts, forallb wf_item b = true -> map (itemTree 0) b = t0 :: ts ->
    erase (toks (joinUpNE None t0 ts)) = canonPiled b.
  Proof.
    intros b t0 ts W E. destruct b as [|b0 bs]; [discriminate|].
    cbn [map] in E. injection E as E0 Es. subst t0 ts.
    cbn [forallb] in W. apply andb_prop in W. destruct W as [W0 Ws].
    assert (Fs : Forall (fun x => erase (toks (itemTree 0 x)) = cI x) bs).
    { apply Forall_forall. intros x Hx. apply toks_itemTree.
      rewrite forallb_forall in Ws. now apply Ws. }
    destruct (joinLoop_items None 0 bs b0 (itemTree 0 b0) false W0 Ws (nopileT_itemTree _ _) Fs) as [J1 J2].
    cbn zeta in J1, J2.
    assert (NL := nopileT_joinLoop None (map (itemTree 0) bs) (itemTree 0 b0) (itemTree 0 b0) false
                    (nopileT_itemTree _ _) (forallb_nopileT_items _ _)).
    unfold joinUpNE, canonPiled, canon. rewrite J2. cbn [orb isPileRequired lntLastTokLessNL_o].
    rewrite orb_false_r. unfold hadSep. cbn [tl].
    destruct (existsb starts_stmt bs).
    - rewrite toks_wrap; auto using tbl_SetTab_not_NL, tbl_BackTab_not_NL.
      rewrite erase_cons, erase_app, J1, (toks_itemTree b0 0 W0). cbn [erase map].
      rewrite !etok_linKeyword. cbn [canonL]. reflexivity.
    - rewrite J1, (toks_itemTree b0 0 W0). cbn [canonL]. reflexivity.
  Qed.
End Piled.

(* ------------------------------------------------------------------ parsing the piled rendering *)

Section PiledParse.
  Variable col : nat -> N.
  Hypothesis col_mono : forall d, col d < col (S d).

  Notation LTc := (LT col).

  Definition lineOK (l : nat * list atom) : Prop := wf_hdr (snd l) = true.

  Lemma pileLines_ok : forall it d, wf_item it = true -> Forall lineOK (pileLines d it).
  Proof.
    induction it as [h body IH] using item_ind'. intros d W.
    destruct (wf_item_inv _ _ W) as [Wh Wb]. rewrite pileLines_eq. constructor; [exact Wh|].
    clear - IH Wb. induction IH as [|x xs Hx Hxs IHxs]; cbn [flat_map]; [constructor|].
    cbn [forallb] in Wb. apply andb_prop in Wb. destruct Wb.
    apply Forall_app. split; auto.
  Qed.

  Lemma blockLines_ok : forall b d, forallb wf_item b = true -> Forall lineOK (blockLines d b).
  Proof.
    induction b as [|x xs IH]; intros d W; cbn [blockLines flat_map]; [constructor|].
    cbn [forallb] in W. apply andb_prop in W. destruct W.
    apply Forall_app. split; [now apply pileLines_ok | now apply IH].
  Qed.

  Definition linesToks (ls : list (nat * list atom)) : list tok :=
    flat_map (fun l => lineToks col (fst l) (snd l)) ls.

  (* ---- ordinary tokens *)

  Lemma ordTok_tags : forall t, ordTok t = true ->
    tokIs t KW_NewLine = false /\ tokIs t TK_Comment = false /\ tokIs t KW_StartPile = false /\
    tokIs t KW_EndPile = false /\ tokIs t KW_OCurly = false /\ tokIs t KW_CCurly = false /\
    tokIs t KW_Semicolon = false /\ lntTokHas (ttag t) = hasTT.
  Proof.
    intros t H. unfold ordTok, ordinary, etok, atag in H. cbn [fst] in H. unfold tokIs, lntTokHas.
    repeat (apply andb_prop in H; destruct H as [H ?]).
    repeat match goal with H : negb ?x = true |- _ => apply negb_true_iff in H; rewrite H; clear H end.
    repeat split; reflexivity.
  Qed.

  Lemma wf_hdr_toks : forall d h, wf_hdr h = true ->
    exists t r, hdrToks (col d) h = t :: r /\ forallb ordTok (t :: r) = true /\
                tokIs t KW_At = false /\ tokCol t = Some (col d).
  Proof.
    intros d h W. destruct (wf_hdr_inv _ W) as (a & r & E & HA & Ho & _). subst h.
    exists (tokAt (col d) a), (hdrToks (col d + 1) r). split; [reflexivity|]. split.
    - change (tokAt (col d) a :: hdrToks (col d + 1) r) with (hdrToks (col d) (a :: r)).
      now apply hdrToks_ordinary.
    - split; [|reflexivity]. unfold tokIs, tokAt. cbn [ttag]. exact HA.
  Qed.

  (* ---- the two filters leave the piled rendering alone *)

  Lemma xcom_ordinary : forall l, forallb ordTok l = true -> linXTokens TK_Comment l = l.
  Proof.
    unfold linXTokens. induction l as [|t r IH]; intros H; cbn [filter forallb] in *; auto.
    apply andb_prop in H. destruct H as [H1 H2].
    destruct (ordTok_tags _ H1) as (_ & C & _). rewrite C, IH by assumption. reflexivity.
  Qed.

  Lemma xcom_lines : forall ls, Forall lineOK ls -> linXTokens TK_Comment (linesToks ls) = linesToks ls.
  Proof.
    induction 1 as [|[d h] ls Hl Hls IH]; auto.
    unfold linesToks. cbn [flat_map fst snd]. fold (linesToks ls).
    unfold linXTokens in *. rewrite filter_app, IH. f_equal.
    unfold lineToks. rewrite filter_app. cbn [filter]. f_equal.
    destruct (wf_hdr_inv _ Hl) as (a & r & E & _ & Ho & _).
    apply xcom_ordinary. now apply hdrToks_ordinary.
  Qed.

  Lemma loop_ordinary : forall l R, forallb ordTok l = true ->
    linXBlankLinesLoop (l ++ R) = l ++ linXBlankLinesLoop R.
  Proof.
    induction l as [|t r IH]; intros R H; cbn [app]; auto.
    cbn [forallb] in H. apply andb_prop in H. destruct H as [H1 H2].
    destruct (ordTok_tags _ H1) as (N1 & _ & S1 & _).
    cbn [linXBlankLinesLoop]. rewrite N1, S1. cbn [orb]. now rewrite IH.
  Qed.

  Lemma skip_lines : forall ls, Forall lineOK ls -> linXBlankLinesSkip (linesToks ls) = linesToks ls.
  Proof.
    induction 1 as [|[d h] ls Hl Hls IH]; auto.
    unfold linesToks. cbn [flat_map fst snd]. fold (linesToks ls).
    destruct (wf_hdr_toks d h Hl) as (t & r & E & Ho & _).
    unfold lineToks. rewrite E. cbn [app forallb] in *. apply andb_prop in Ho. destruct Ho as [H1 H2].
    destruct (ordTok_tags _ H1) as (N1 & _ & S1 & _).
    cbn [linXBlankLinesSkip]. rewrite N1, S1. f_equal.
    rewrite <- app_assoc. rewrite loop_ordinary by assumption. f_equal.
    cbn [app linXBlankLinesLoop]. unfold nlTok at 1, tokIs at 1. cbn [ttag]. rewrite N.eqb_refl.
    cbn [orb]. now rewrite IH.
  Qed.

  Lemma xbl_piled : forall ls, Forall lineOK ls ->
    linXBlankLines (startPileTok :: linesToks ls) = startPileTok :: linesToks ls.
  Proof. intros. rewrite xbl_skip. cbn [linXBlankLinesSkip]. now rewrite skip_lines. Qed.

  (* ---- one line *)

  Lemma doLineLoop_default : forall n dp dn t r ll k,
    tokIs t KW_StartPile = false -> tokIs t KW_OCurly = false -> tokIs t KW_EndPile = false ->
    doLineLoop (S n) dp dn (t :: r) ll k =
    if negb (tokIs t KW_NewLine) && (negb (tokIs t KW_CCurly) || Nat.eqb dn 0)
       && (match r with [] => false | _ :: _ => true end)
    then doLineLoop n dp dn r (lntTok t :: ll) (S k)
    else Some (lntTok t :: ll, S k, r).
  Proof.
    intros n dp dn t r ll k H1 H2 H3. cbn [doLineLoop]. rewrite H1, H2, H3. cbn [negb orb andb].
    rewrite andb_true_r. reflexivity.
  Qed.

  Lemma doLineLoop_ordinary : forall l nl R m dp dn ll k,
    forallb ordTok l = true -> tokIs nl KW_NewLine = true ->
    tokIs nl KW_StartPile = false -> tokIs nl KW_OCurly = false -> tokIs nl KW_EndPile = false ->
    doLineLoop (S (length l) + m) dp dn (l ++ nl :: R) ll k
    = Some (lntTok nl :: rev (map lntTok l) ++ ll, (k + length l + 1)%nat, R).
  Proof.
    induction l as [|t r IH]; intros nl R m dp dn ll k Ho Hn H1 H2 H3.
    - cbn [length plus app]. rewrite doLineLoop_default by assumption. rewrite Hn.
      cbn [negb andb map rev app]. repeat f_equal. lia.
    - cbn [forallb] in Ho. apply andb_prop in Ho. destruct Ho as [Ht Hr].
      destruct (ordTok_tags _ Ht) as (N1 & _ & S1 & E1 & O1 & C1 & _).
      cbn [length plus app]. rewrite doLineLoop_default by assumption. rewrite N1, C1.
      cbn [negb andb orb].
      assert (NE : match r ++ nl :: R with [] => false | _ :: _ => true end = true) by (destruct r; reflexivity).
      rewrite NE. change (S (length r + m)) with (S (length r) + m)%nat. rewrite IH by assumption.
      cbn [map rev]. rewrite <- app_assoc. cbn [app].
      replace (S k + length r + 1)%nat with (k + S (length r) + 1)%nat by lia. reflexivity.
  Qed.

  Lemma hasOfList_TT : forall l, l <> [] -> Forall (fun t => thas t = hasTT) l -> hasOfList l = hasTT.
  Proof.
    induction l as [|a r IH]; intros Hne HF; [congruence|].
    inversion HF as [|? ? Ha Hr]; subst. cbn [hasOfList fold_right]. rewrite Ha. reflexivity.
  Qed.

  Lemma frDoLine_line : forall d h R m dp dn, wf_hdr h = true ->
    frDoLine (S (S (length h)) + m) dp dn (lineToks col d h ++ R) = Some (LTc d h, R).
  Proof.
    intros d h R m dp dn W.
    destruct (wf_hdr_toks d h W) as (t & r & E & Ho & HA & HC).
    assert (Len : length (t :: r) = length h) by (rewrite <- E; apply hdrToks_length).
    unfold lineToks. rewrite E. rewrite <- app_assoc.
    cbn [plus frDoLine app]. rewrite <- Len.
    change (t :: r ++ nlTok (col d + N.of_nat (length (t :: r))) :: R)
      with ((t :: r) ++ nlTok (col d + N.of_nat (length (t :: r))) :: R).
    change (S (length (t :: r) + m)) with (S (length (t :: r)) + m)%nat.
    rewrite doLineLoop_ordinary; auto.
    f_equal. f_equal. unfold LT, lineToks. rewrite E.
    set (nl := nlTok (col d + N.of_nat (length (t :: r)))).
    unfold makeLine.
    assert (L2 : length (lntTok nl :: rev (map lntTok (t :: r)) ++ []) = (0 + length (t :: r) + 1)%nat).
    { cbn [length]. rewrite app_nil_r, rev_length, map_length. cbn [length]. lia. }
    rewrite L2, Nat.eqb_refl.
    destruct (rev (map lntTok (t :: r)) ++ []) as [|x xs] eqn:EX.
    { rewrite app_nil_r in EX. apply (f_equal (@length _)) in EX.
      rewrite rev_length, map_length in EX. discriminate. }
    rewrite <- EX. rewrite app_nil_r.
    cbn [rev]. rewrite rev_involutive, flat_map_app, flat_map_tokOf_lntTok. cbn [flat_map tokOf lntTok app].
    f_equal.
    - unfold nl. now rewrite Len.
    - (* has *)
      cbn [hasOfList fold_right]. fold (hasOfList (rev (map lntTok (t :: r)))).
      rewrite hasOfList_TT.
      + reflexivity.
      + intro Z. apply (f_equal (@length _)) in Z. rewrite rev_length, map_length in Z. discriminate.
      + apply Forall_rev. apply Forall_forall. intros x' Hx'. apply in_map_iff in Hx'.
        destruct Hx' as [y [Ey Hy]]. subst x'. cbn [thas lntTok].
        rewrite forallb_forall in Ho. now destruct (ordTok_tags _ (Ho _ Hy)) as (_ & _ & _ & _ & _ & _ & _ & HH).
    - (* indent *)
      unfold linIndentation. cbn [app]. rewrite HA.
      cbn [forallb] in Ho. apply andb_prop in Ho. destruct Ho as [Ht _].
      destruct (ordTok_tags _ Ht) as (N1 & _). now rewrite N1.
  Qed.

  Lemma doPileLines_lines : forall ls, Forall lineOK ls ->
    forall n ll, (length (linesToks ls) + 3 <= n)%nat ->
    doPileLines n 1 0 (linesToks ls) ll
    = Some (rev (map (fun l => LTc (fst l) (snd l)) ls) ++ ll, []).
  Proof.
    induction 1 as [|[d h] ls Hl Hls IH]; intros n ll Hn.
    - destruct n as [|n0]; [lia|]. reflexivity.
    - unfold linesToks in *. cbn [flat_map fst snd] in *. fold (linesToks ls) in *.
      rewrite app_length in Hn. unfold lineToks in Hn at 1. rewrite app_length, hdrToks_length in Hn.
      cbn [length] in Hn.
      destruct n as [|n1]; [lia|].
      destruct (wf_hdr_toks d h Hl) as (t & r & E & Ho & _).
      cbn [doPileLines].
      assert (First : exists R', lineToks col d h ++ linesToks ls = t :: R').
      { unfold lineToks. rewrite E. eexists. reflexivity. }
      destruct First as [R' ER]. rewrite ER.
      cbn [forallb] in Ho. apply andb_prop in Ho. destruct Ho as [Ht _].
      destruct (ordTok_tags _ Ht) as (_ & _ & _ & E1 & _). rewrite E1. rewrite <- ER.
      assert (Fu : exists m, n1 = (S (S (length h)) + m)%nat) by (exists (n1 - S (S (length h)))%nat; lia).
      destruct Fu as [m ->]. rewrite frDoLine_line by assumption.
      rewrite IH by lia. cbn [map rev fst snd]. now rewrite <- app_assoc.
  Qed.

  Definition pileArgs (ls : list (nat * list atom)) : list tree :=
    lntTok startPileTok :: map (fun l => LTc (fst l) (snd l)) ls ++ [lntTok synthEndPile].

  Lemma frDontLine_S : forall n dp dn t r st,
    frDontLine (S n) dp dn (t :: r) st =
    match dontLineLoop n dp dn (t :: r) st 0%nat [] 0%nat with
    | None => None
    | Some (ll, ntoks, tl') => Some (makeLine ll (linIndentation (t :: r)) ntoks, tl')
    end.
  Proof. reflexivity. Qed.

  Lemma dontLineLoop_pile : forall n dp dn t r st d ll k, tokIs t KW_StartPile = true ->
    dontLineLoop (S n) dp dn (t :: r) st d ll k =
    match frDoPile n dp dn (t :: r) with
    | None => None
    | Some (lnt, tl') => dontLineLoop n dp dn tl' st d (lnt :: ll) k
    end.
  Proof. intros. cbn [dontLineLoop]. now rewrite H. Qed.

  Lemma frDoPile_S : forall n dp dn t0 r,
    frDoPile (S n) dp dn (t0 :: r) =
    match doPileLines n (S dp) dn r [lntTok t0] with
    | None => None
    | Some (ll, tl1) =>
        let '(ll2, tl2) :=
          match tl1 with
          | t :: r1 => if tokIs t KW_EndPile then (lntTok t :: ll, r1) else (ll, tl1)
          | [] => (lntTok synthEndPile :: ll, [])
          end in
        Some (TDoPile (rev ll2) (hasOfList ll2) (linIndentation (t0 :: r)), tl2)
    end.
  Proof. reflexivity. Qed.

  Lemma lntFrTokenList_piled : forall ls, Forall lineOK ls ->
    exists h i, lntFrTokenList (startPileTok :: linesToks ls) = Some (TDoPile (pileArgs ls) h i).
  Proof.
    intros ls H. unfold lntFrTokenList, parseFuel. cbn [length].
    set (T := linesToks ls).
    assert (F : exists m, (4 * S (length T) + 8 = S (S (S m)) /\ length T + 3 <= m)%nat).
    { exists (4 * length T + 9)%nat. lia. }
    destruct F as [m [-> Hm]].
    rewrite frDontLine_S, dontLineLoop_pile by reflexivity. rewrite frDoPile_S.
    unfold T. rewrite doPileLines_lines by assumption.
    rewrite dontLineLoop_nil. eexists. eexists. unfold makeLine, pileArgs.
    cbn [rev app]. rewrite rev_app_distr, rev_involutive. reflexivity.
  Qed.
End PiledParse.

(* ------------------------------------------------------------------ the piled rendering linearises to the canonical stream *)

Definition sepfreeA (a : atom) : bool :=
  negb (N.eqb (atag a) KW_CCurly) && negb (N.eqb (atag a) KW_Semicolon).

Lemma ordinary_sepfree : forall a, ordinary a = true -> sepfreeA a = true.
Proof.
  intros a H. unfold ordinary in H. unfold sepfreeA.
  repeat (apply andb_prop in H; destruct H as [H ?]).
  repeat match goal with H : negb ?x = true |- _ => apply negb_true_iff in H; rewrite ?H; clear H end.
  reflexivity.
Qed.

Lemma canonL_sepfree : forall l f,
  Forall (fun it => forallb sepfreeA (canonI aSetTab aBackSet aBackTab it) = true) l ->
  forallb sepfreeA (canonL aSetTab aBackSet aBackTab f l) = true.
Proof.
  induction l as [|a r IH]; intros f H; cbn [canonL]; auto.
  inversion H as [|? ? Ha Hr]; subst. rewrite !forallb_app, Ha, (IH false Hr).
  destruct f; [reflexivity|]. destruct (starts_stmt a); reflexivity.
Qed.

Lemma canonI_sepfree : forall it, wf_item it = true ->
  forallb sepfreeA (canonI aSetTab aBackSet aBackTab it) = true.
Proof.
  induction it as [h body IH] using item_ind'. intros W.
  cbn [wf_item] in W. apply andb_prop in W. destruct W as [Wh Wb].
  fold (forallb wf_item body) in Wb.
  destruct (wf_hdr_inv _ Wh) as (a & r & E & _ & Ho & _).
  rewrite canonI_eq, forallb_app.
  assert (Hh : forallb sepfreeA h = true).
  { rewrite forallb_forall in *. intros x Hx. apply ordinary_sepfree. now apply Ho. }
  rewrite Hh. cbn [andb].
  assert (F : Forall (fun it => forallb sepfreeA (canonI aSetTab aBackSet aBackTab it) = true) body).
  { clear - IH Wb. induction IH as [|x xs Hx Hxs IHxs]; constructor;
      cbn [forallb] in Wb; apply andb_prop in Wb; destruct Wb; auto. }
  destruct body as [|b0 bs]; auto.
  destruct (hadSep (b0 :: bs) || _).
  - cbn [forallb]. rewrite forallb_app, (canonL_sepfree _ true F). reflexivity.
  - apply (canonL_sepfree _ true F).
Qed.

Lemma canonPiled_sepfree : forall b, forallb wf_item b = true -> forallb sepfreeA (canonPiled b) = true.
Proof.
  intros b W. unfold canonPiled, canon.
  assert (F : Forall (fun it => forallb sepfreeA (canonI aSetTab aBackSet aBackTab it) = true) b).
  { apply Forall_forall. intros x Hx. apply canonI_sepfree. rewrite forallb_forall in W. now apply W. }
  destruct b as [|b0 bs]; auto.
  destruct (hadSep (b0 :: bs)).
  - cbn [forallb]. rewrite forallb_app, (canonL_sepfree _ true F). reflexivity.
  - apply (canonL_sepfree _ true F).
Qed.

Lemma isep_id : forall T, Forall (fun t => tokIs t KW_CCurly = false) T -> linISepAfterDontPiles T = T.
Proof.
  induction 1 as [|t r Ht Hr IH]; cbn [linISepAfterDontPiles]; auto. now rewrite Ht, IH.
Qed.

Lemma xsepLoop_id : forall r t, Forall (fun t => tokIs t KW_Semicolon = false) r ->
  linXSepLoop t r = t :: r.
Proof.
  induction r as [|s r2 IH]; intros t H; rewrite linXSepLoop_unfold; auto.
  inversion H as [|? ? Hs Hr]; subst. rewrite Hs. now rewrite IH.
Qed.

Lemma xsep_id : forall T, Forall (fun t => tokIs t KW_Semicolon = false) T -> linXSep T = T.
Proof.
  intros T H. unfold linXSep. destruct H as [|t r Ht Hr]; auto.
  cbn [linXSepLead]. rewrite Ht. now apply xsepLoop_id.
Qed.

Lemma sep_id_of_erase : forall T c, erase T = c -> forallb sepfreeA c = true -> linUseNeededSep T = T.
Proof.
  intros T c E H. subst c. unfold linUseNeededSep.
  assert (A : Forall (fun t => tokIs t KW_CCurly = false /\ tokIs t KW_Semicolon = false) T).
  { apply Forall_forall. intros t Ht. rewrite forallb_forall in H.
    specialize (H (etok t) (in_map etok _ _ Ht)). unfold sepfreeA, atag, etok in H. cbn [fst] in H.
    apply andb_prop in H. destruct H as [H1 H2]. unfold tokIs.
    apply negb_true_iff in H1. apply negb_true_iff in H2. auto. }
  rewrite isep_id, xsep_id; auto.
  - eapply Forall_impl; [|exact A]. intros ? [? ?]; auto.
  - eapply Forall_impl; [|exact A]. intros ? [? ?]; auto.
Qed.

Section PiledFinal.
  Variable col : nat -> N.
  Hypothesis col_mono : forall d, col d < col (S d).

  Lemma blockTrees_lines : forall d b,
    blockTrees col d b = map (fun l => LT col (fst l) (snd l)) (blockLines d b).
  Proof. intros. unfold blockTrees, blockLines, lineTrees. now rewrite map_flat_map. Qed.

  Lemma needI_lines : forall it d, needI it = (3 * length (pileLines d it))%nat.
  Proof.
    induction it as [h body IH] using item_ind'. intros d. rewrite needI_eq, pileLines_eq. cbn [length].
    assert (E : needB body = (3 * length (flat_map (pileLines (S d)) body) + 1)%nat).
    { induction IH as [|x xs Hx Hxs IHxs]; auto.
      cbn [needB fold_right flat_map]. fold (needB xs). rewrite app_length, (Hx (S d)), IHxs. lia. }
    lia.
  Qed.

  Lemma needB_lines : forall b d, needB b = (3 * length (blockLines d b) + 1)%nat.
  Proof.
    induction b as [|x xs IH]; intros d; auto.
    cbn [needB fold_right blockLines flat_map]. fold (needB xs). fold (blockLines d xs).
    rewrite app_length, (needI_lines x d), (IH d). lia.
  Qed.

  Lemma goRules_leaves : forall l, Forall (fun t => lin2DRules t = Some t) l -> goRules l = Some l.
  Proof. induction 1 as [|a r Ha Hr IH]; cbn [goRules]; auto. now rewrite Ha, IH. Qed.

  Lemma last_map_Some_app : forall (l : list tree) x, last (map Some (l ++ [x])) None = Some x.
  Proof. induction l as [|a r IH]; intros x; auto. cbn [app map]. destruct (map Some (r ++ [x])) eqn:E.
    - destruct r; discriminate.
    - rewrite <- E. cbn [last]. rewrite E. rewrite <- E. apply IH.
  Qed.

  (* piled_canon: every well-formed program, every strictly increasing depth -> column map *)
  Theorem piled_canon : forall b, wf_block b = true -> b <> [] ->
    oerase (linearize (piled col b)) = Some (canonPiled b).
  Proof.
    intros b W Hne. unfold wf_block in W.
    set (ls := blockLines 0 b).
    assert (OK : Forall (lineOK) ls) by (apply blockLines_ok; assumption).
    unfold piled. fold ls. fold (linesToks col ls).
    unfold linearize.
    assert (XC : linXTokens TK_Comment (startPileTok :: linesToks col ls) = startPileTok :: linesToks col ls).
    { unfold linXTokens. cbn [filter]. change (tokIs startPileTok TK_Comment) with false. cbn [negb].
      f_equal. apply (xcom_lines col ls OK). }
    rewrite XC, (xbl_piled col ls OK).
    destruct (lntFrTokenList_piled col ls OK) as (h & i & EP). rewrite EP.
    rewrite lin2DRules_pile.
    assert (GR : goRules (pileArgs col ls) = Some (pileArgs col ls)).
    { apply goRules_leaves. unfold pileArgs. constructor; [reflexivity|].
      apply Forall_app. split; [|repeat constructor].
      apply Forall_forall. intros t Ht. apply in_map_iff in Ht. destruct Ht as [l [<- _]]. reflexivity. }
    rewrite GR. unfold lin2DRulesPile, pileArgs.
    cbn [hd_error linIsArgKW lntTok]. change (tokIs startPileTok KW_StartPile) with true.
    change (lntTok startPileTok :: map (fun l => LT col (fst l) (snd l)) ls ++ [lntTok synthEndPile])
      with ((lntTok startPileTok :: map (fun l => LT col (fst l) (snd l)) ls) ++ [lntTok synthEndPile]).
    rewrite last_map_Some_app. cbn [linIsArgKW lntTok]. change (tokIs synthEndPile KW_EndPile) with true.
    cbn [andb app tl]. rewrite removelast_last.
    unfold ls. rewrite <- blockTrees_lines.
    match goal with |- context [pile0 ?n None _] =>
      destruct (pile0_block col col_mono b n W Hne) as (t0 & ts & EM & EP0) end.
    { unfold pileFuel. cbn [length]. rewrite app_length, blockTrees_lines, map_length.
      rewrite (needB_lines b 0). cbn [length]. lia. }
    rewrite EP0. unfold pileFuel.
    match goal with |- context [pileRest ?n _ []] => replace n with (S (n - 1)) by (cbn [length]; lia) end.
    cbn [pileRest].
    cbn [oerase option_map]. f_equal.
    change (linXTokens KW_NewLine (lntToTokenList (joinUpNE None t0 ts))) with (toks (joinUpNE None t0 ts)).
    assert (ET := toks_blockTree col b t0 ts W EM).
    rewrite (sep_id_of_erase _ _ ET (canonPiled_sepfree b W)). exact ET.
  Qed.
End PiledFinal.

(* ------------------------------------------------------------------ the braced rendering *)

Lemma tbl_CCurly_nonstarter : nonstarter KW_CCurly = true.
Proof. vm_compute. reflexivity. Qed.
Lemma tbl_CCurly_not_Semi : N.eqb KW_CCurly KW_Semicolon = false.
Proof. vm_compute. reflexivity. Qed.

(* every `;` is followed by a starter; every `}` by `;`, a non-starter, or nothing *)
Fixpoint sepOK (l : list tok) : bool :=
  match l with
  | [] => true
  | t :: r =>
      (if tokIs t KW_Semicolon
       then match r with [] => false | u :: _ => negb (tokIsNonStarter u) end
       else if tokIs t KW_CCurly
            then match r with [] => true | u :: _ => tokIs u KW_Semicolon || tokIsNonStarter u end
            else true) && sepOK r
  end.

Lemma isep_unfold : forall t L,
  linISepAfterDontPiles (t :: L) =
  if tokIs t KW_CCurly
  then match L with
       | [] => [t]
       | u :: _ => if tokIs u KW_Semicolon
                   then t :: linISepAfterDontPiles L
                   else t :: linKeyword (Some t) KW_Semicolon :: linISepAfterDontPiles L
       end
  else t :: linISepAfterDontPiles L.
Proof. reflexivity. Qed.

Lemma isep_cons : forall t L, linISepAfterDontPiles (t :: L) = t :: tl (linISepAfterDontPiles (t :: L)).
Proof.
  intros t L. rewrite isep_unfold. destruct (tokIs t KW_CCurly); auto.
  destruct L as [|u L']; auto. destruct (tokIs u KW_Semicolon); reflexivity.
Qed.

Lemma sep_fixed_loop : forall L t, sepOK (t :: L) = true ->
  linXSepLoop t (tl (linISepAfterDontPiles (t :: L))) = t :: L.
Proof.
  induction L as [|u L' IH]; intros t H.
  - rewrite isep_unfold. destruct (tokIs t KW_CCurly); reflexivity.
  - cbn [sepOK] in H. apply andb_prop in H. destruct H as [Hc Hr].
    assert (IHu := IH u Hr).
    assert (Semi_case : tokIs u KW_Semicolon = true ->
              linXSepLoop t (linISepAfterDontPiles (u :: L')) = t :: u :: L').
    { intros Su. rewrite isep_cons, linXSepLoop_unfold, Su.
      (* u is `;`, so not `}`: the tail of isep (u :: L') is isep L' *)
      assert (Cu : tokIs u KW_CCurly = false).
      { unfold tokIs in *. apply N.eqb_eq in Su. rewrite Su. rewrite N.eqb_sym. apply tbl_CCurly_not_Semi. }
      cbn [sepOK] in Hr. rewrite Su in Hr. apply andb_prop in Hr. destruct Hr as [Hw Hr'].
      destruct L' as [|w L'']; [discriminate|].
      assert (TL : tl (linISepAfterDontPiles (u :: w :: L'')) = linISepAfterDontPiles (w :: L'')).
      { rewrite isep_unfold, Cu. reflexivity. }
      rewrite TL in *. rewrite (isep_cons w L'') in *.
      apply negb_true_iff in Hw. rewrite Hw. f_equal. exact IHu. }
    rewrite isep_unfold. destruct (tokIs t KW_CCurly) eqn:Ct.
    + assert (St : tokIs t KW_Semicolon = false).
      { unfold tokIs in *. apply N.eqb_eq in Ct. rewrite Ct. apply tbl_CCurly_not_Semi. }
      rewrite St in Hc.
      destruct (tokIs u KW_Semicolon) eqn:Su; cbn [tl].
      * now apply Semi_case.
      * cbn [orb] in Hc. rewrite linXSepLoop_unfold.
        change (tokIs (linKeyword (Some t) KW_Semicolon) KW_Semicolon) with true. cbn iota.
        rewrite isep_cons, Hc. f_equal. exact IHu.
    + cbn [tl]. destruct (tokIs u KW_Semicolon) eqn:Su.
      * now apply Semi_case.
      * rewrite isep_cons, linXSepLoop_unfold, Su. f_equal. exact IHu.
Qed.

Lemma sep_fixed : forall T, sepOK T = true ->
  match T with [] => True | t :: _ => tokIs t KW_Semicolon = false end ->
  linUseNeededSep T = T.
Proof.
  intros [|t L] H H0; [reflexivity|]. unfold linUseNeededSep, linXSep.
  rewrite isep_cons. cbn [linXSepLead]. rewrite H0. now apply sep_fixed_loop.
Qed.

(* the same predicate on erased streams *)
Fixpoint sepOKa (l : list atom) : bool :=
  match l with
  | [] => true
  | t :: r =>
      (if N.eqb (atag t) KW_Semicolon
       then match r with [] => false | u :: _ => negb (nonstarter (atag u)) end
       else if N.eqb (atag t) KW_CCurly
            then match r with [] => true | u :: _ => N.eqb (atag u) KW_Semicolon || nonstarter (atag u) end
            else true) && sepOKa r
  end.

Lemma sepOK_erase : forall T, sepOK T = sepOKa (erase T).
Proof.
  induction T as [|t r IH]; auto. rewrite erase_cons. cbn [sepOK sepOKa]. rewrite IH.
  destruct r as [|u r']; reflexivity.
Qed.

Definition okK (K : list atom) : bool :=
  match K with [] => true | u :: _ => N.eqb (atag u) KW_Semicolon || nonstarter (atag u) end.

Definition cIb := canonI aOCurly aSemi aCCurly.
Definition cLb := canonL aOCurly aSemi aCCurly.

Lemma sepOKa_plain : forall a X, sepfreeA a = true -> sepOKa (a :: X) = sepOKa X.
Proof.
  intros a X H. unfold sepfreeA in H. apply andb_prop in H. destruct H as [H1 H2].
  apply negb_true_iff in H1. apply negb_true_iff in H2. cbn [sepOKa]. now rewrite H1, H2.
Qed.

Lemma sepOKa_plain_app : forall h X, forallb sepfreeA h = true -> sepOKa (h ++ X) = sepOKa X.
Proof.
  induction h as [|a r IH]; intros X H; auto. cbn [forallb] in H. apply andb_prop in H. destruct H.
  cbn [app]. rewrite sepOKa_plain by assumption. auto.
Qed.

Definition ClaimI (it : item) : Prop :=
  wf_item it = true -> forall K, okK K = true -> sepOKa K = true -> sepOKa (cIb it ++ K) = true.

Lemma cIb_head : forall it, wf_item it = true -> exists a X, cIb it = a :: X /\ ihdr it = a :: tl (ihdr it).
Proof.
  intros [h body] W. destruct (wf_item_inv _ _ W) as [Wh _].
  destruct (wf_hdr_inv _ Wh) as (a & r & E & _). subst h.
  unfold cIb. rewrite canonI_eq. eexists. eexists. split; reflexivity.
Qed.

Lemma okK_cLb : forall r K, forallb wf_item r = true -> okK K = true -> okK (cLb false r ++ K) = true.
Proof.
  intros [|a r] K W HK; auto. cbn [forallb] in W. apply andb_prop in W. destruct W as [Wa _].
  unfold cLb. cbn [canonL]. fold cIb. fold cLb.
  destruct (starts_stmt a) eqn:S; [reflexivity|].
  destruct (cIb_head a Wa) as (x & X & E & Eh). rewrite E. cbn [app okK].
  unfold starts_stmt in S. rewrite Eh in S. apply negb_false_iff in S. rewrite S. apply orb_true_r.
Qed.

Lemma claimL : forall l, Forall ClaimI l -> forallb wf_item l = true ->
  forall f K, okK K = true -> sepOKa K = true -> sepOKa (cLb f l ++ K) = true.
Proof.
  induction 1 as [|a r Ha Hr IH]; intros W f K HK HS; auto.
  cbn [forallb] in W. apply andb_prop in W. destruct W as [Wa Wr].
  unfold cLb. cbn [canonL]. fold cIb. fold cLb. rewrite <- !app_assoc.
  assert (Rest : sepOKa (cIb a ++ cLb false r ++ K) = true).
  { apply Ha; auto. now apply okK_cLb. }
  destruct f; [exact Rest|].
  destruct (starts_stmt a) eqn:S; [|exact Rest].
  cbn [app sepOKa]. change (N.eqb (atag aSemi) KW_Semicolon) with true. cbn iota.
  destruct (cIb_head a Wa) as (x & X & E & Eh). rewrite E in *. cbn [app].
  unfold starts_stmt in S. rewrite Eh in S. rewrite S. exact Rest.
Qed.

Lemma claimI : forall it, ClaimI it.
Proof.
  induction it as [h body IH] using item_ind'. unfold ClaimI. intros W K HK HS.
  destruct (wf_item_inv _ _ W) as [Wh Wb].
  destruct (wf_hdr_inv _ Wh) as (a & r & E & _ & Ho & _).
  unfold cIb. rewrite canonI_eq. fold cLb. rewrite <- app_assoc.
  rewrite sepOKa_plain_app.
  2:{ rewrite forallb_forall in *. intros x Hx. apply ordinary_sepfree. now apply Ho. }
  destruct body as [|b0 bs]; [exact HS|].
  destruct (hadSep (b0 :: bs) || _).
  - cbn [app]. rewrite sepOKa_plain by reflexivity. rewrite <- app_assoc.
    apply claimL; [exact IH | exact Wb | |].
    + cbn [app okK]. change (nonstarter (atag aCCurly)) with (nonstarter KW_CCurly).
      rewrite tbl_CCurly_nonstarter. apply orb_true_r.
    + cbn [app sepOKa]. change (N.eqb (atag aCCurly) KW_Semicolon) with (N.eqb KW_CCurly KW_Semicolon).
      rewrite tbl_CCurly_not_Semi. change (N.eqb (atag aCCurly) KW_CCurly) with true. cbn iota.
      unfold okK in HK. destruct K as [|u K']; [exact HS|]. now rewrite HK.
  - apply claimL; auto.
Qed.

Lemma sepOKa_canonBraced : forall b, forallb wf_item b = true -> sepOKa (canonBraced b) = true.
Proof.
  intros b W. unfold canonBraced, canon. fold cLb.
  assert (F : Forall ClaimI b) by (apply Forall_forall; intros; apply claimI).
  destruct b as [|b0 bs]; auto.
  destruct (hadSep (b0 :: bs)).
  - rewrite sepOKa_plain by reflexivity.
    apply (claimL _ F W true [aCCurly]); reflexivity.
  - rewrite <- (app_nil_r (cLb true (b0 :: bs))). apply (claimL _ F W true []); reflexivity.
Qed.

(* plain atoms: what may appear in the braced stream *)
Definition plainA (a : atom) : bool :=
  negb (N.eqb (atag a) KW_NewLine) && negb (N.eqb (atag a) TK_Comment) &&
  negb (N.eqb (atag a) KW_StartPile).

Lemma ordinary_plain : forall a, ordinary a = true -> plainA a = true.
Proof.
  intros a H. unfold ordinary in H. unfold plainA.
  repeat (apply andb_prop in H; destruct H as [H ?]).
  repeat match goal with H : negb ?x = true |- _ => apply negb_true_iff in H; rewrite ?H; clear H end.
  reflexivity.
Qed.

Lemma cLb_plain : forall l f, Forall (fun it => forallb plainA (cIb it) = true) l ->
  forallb plainA (cLb f l) = true.
Proof.
  induction l as [|a r IH]; intros f H; auto. unfold cLb. cbn [canonL]. fold cIb. fold cLb.
  inversion H as [|? ? Ha Hr]; subst. rewrite !forallb_app, Ha, (IH false Hr).
  destruct f; [reflexivity|]. destruct (starts_stmt a); reflexivity.
Qed.

Lemma cIb_plain : forall it, wf_item it = true -> forallb plainA (cIb it) = true.
Proof.
  induction it as [h body IH] using item_ind'. intros W.
  destruct (wf_item_inv _ _ W) as [Wh Wb].
  destruct (wf_hdr_inv _ Wh) as (a & r & E & _ & Ho & _).
  unfold cIb. rewrite canonI_eq, forallb_app. fold cLb.
  assert (Hh : forallb plainA h = true).
  { rewrite forallb_forall in *. intros x Hx. apply ordinary_plain. now apply Ho. }
  rewrite Hh. cbn [andb].
  assert (F : Forall (fun it => forallb plainA (cIb it) = true) body).
  { clear - IH Wb. induction IH as [|x xs Hx Hxs IHxs]; constructor;
      cbn [forallb] in Wb; apply andb_prop in Wb; destruct Wb; auto. }
  destruct body as [|b0 bs]; auto.
  destruct (hadSep (b0 :: bs) || _).
  - cbn [forallb]. rewrite forallb_app, (cLb_plain _ true F). reflexivity.
  - apply (cLb_plain _ true F).
Qed.

Lemma canonBraced_plain : forall b, forallb wf_item b = true -> forallb plainA (canonBraced b) = true.
Proof.
  intros b W. unfold canonBraced, canon. fold cLb.
  assert (F : Forall (fun it => forallb plainA (cIb it) = true) b).
  { apply Forall_forall. intros x Hx. apply cIb_plain. rewrite forallb_forall in W. now apply W. }
  destruct b as [|b0 bs]; auto.
  destruct (hadSep (b0 :: bs)).
  - cbn [forallb]. rewrite forallb_app, (cLb_plain _ true F). reflexivity.
  - apply (cLb_plain _ true F).
Qed.

Lemma canonBraced_head : forall b, forallb wf_item b = true ->
  match canonBraced b with [] => True | a :: _ => N.eqb (atag a) KW_Semicolon = false end.
Proof.
  intros [|b0 bs] W; [exact I|]. unfold canonBraced, canon.
  destruct (hadSep (b0 :: bs)); [reflexivity|].
  cbn [forallb] in W. apply andb_prop in W. destruct W as [W0 _].
  cbn [canonL app]. destruct b0 as [h body]. destruct (wf_item_inv _ _ W0) as [Wh _].
  destruct (wf_hdr_inv _ Wh) as (a & r & E & _ & Ho & _). subst h. rewrite canonI_eq. cbn [app].
  cbn [forallb] in Ho. apply andb_prop in Ho. destruct Ho as [Ha _].
  apply ordinary_sepfree in Ha. unfold sepfreeA in Ha. apply andb_prop in Ha. destruct Ha as [_ H2].
  now apply negb_true_iff in H2.
Qed.

Section Braced.
  Variable pos : nat -> option (N * N).

  Fixpoint posToks (k : nat) (l : list atom) : list tok :=
    match l with [] => [] | a :: r => mkTok (fst a) (snd a) (pos k) :: posToks (S k) r end.

  Lemma braced_eq : forall b, braced pos b = posToks 0 (canonBraced b).
  Proof. reflexivity. Qed.

  Lemma posToks_erase : forall l k, erase (posToks k l) = l.
  Proof.
    induction l as [|a r IH]; intros k; auto. cbn [posToks]. rewrite erase_cons, IH.
    destruct a; reflexivity.
  Qed.

  Theorem braced_canon : forall b, wf_block b = true ->
    oerase (linearize (braced pos b)) = Some (canonBraced b).
  Proof.
    intros b W. unfold wf_block in W. rewrite braced_eq.
    set (T := posToks 0 (canonBraced b)).
    assert (ET : erase T = canonBraced b) by apply posToks_erase.
    assert (PL := canonBraced_plain b W). rewrite <- ET in PL.
    assert (TAGS : Forall (fun t => tokIs t KW_NewLine = false /\ tokIs t TK_Comment = false
                                    /\ tokIs t KW_StartPile = false) T).
    { apply Forall_forall. intros t Ht. rewrite forallb_forall in PL.
      specialize (PL (etok t) (in_map etok _ _ Ht)). unfold plainA, atag, etok in PL. cbn [fst] in PL.
      repeat (apply andb_prop in PL; destruct PL as [PL ?]).
      repeat match goal with H : negb ?x = true |- _ => apply negb_true_iff in H end.
      unfold tokIs. auto. }
    rewrite lin_nonpile_is_filter.
    2:{ eapply Forall_impl; [|exact TAGS]. intros ? (_ & _ & ?); auto. }
    assert (F1 : linXTokens TK_Comment T = T).
    { unfold linXTokens. clear - TAGS. induction TAGS as [|t r (_ & C & _) _ IH]; auto.
      cbn [filter]. now rewrite C, IH. }
    assert (F2 : linXTokens KW_NewLine T = T).
    { unfold linXTokens. clear - TAGS. induction TAGS as [|t r (N1 & _) _ IH]; auto.
      cbn [filter]. now rewrite N1, IH. }
    rewrite F1, F2. cbn [oerase option_map]. f_equal.
    rewrite sep_fixed; auto.
    - rewrite sepOK_erase, ET. now apply sepOKa_canonBraced.
    - assert (HD := canonBraced_head b W). rewrite <- ET in HD.
      destruct T as [|t r]; auto.
  Qed.
End Braced.

(* ------------------------------------------------------------------ braced_equals_piled *)

Lemma brace2tab_canonI : forall it, wf_item it = true ->
  map brace2tab (canonI aOCurly aSemi aCCurly it) = canonI aSetTab aBackSet aBackTab it.
Proof.
  assert (BO : forall h, forallb ordinary h = true -> map brace2tab h = h).
  { induction h as [|a r IH]; intros H; auto. cbn [forallb] in H. apply andb_prop in H. destruct H as [Ha Hr].
    cbn [map]. rewrite IH by assumption. f_equal.
    unfold ordinary in Ha. unfold brace2tab.
    repeat (apply andb_prop in Ha; destruct Ha as [Ha ?]).
    repeat match goal with H : negb ?x = true |- _ => apply negb_true_iff in H; rewrite ?H; clear H end.
    reflexivity. }
  assert (BL : forall l f, Forall (fun it => map brace2tab (canonI aOCurly aSemi aCCurly it)
                                             = canonI aSetTab aBackSet aBackTab it) l ->
               map brace2tab (canonL aOCurly aSemi aCCurly f l) = canonL aSetTab aBackSet aBackTab f l).
  { induction l as [|a r IH]; intros f H; auto. inversion H as [|? ? Ha Hr]; subst.
    cbn [canonL]. rewrite !map_app, Ha, (IH false Hr).
    destruct f; [reflexivity|]. destruct (starts_stmt a); reflexivity. }
  induction it as [h body IH] using item_ind'. intros W.
  destruct (wf_item_inv _ _ W) as [Wh Wb].
  destruct (wf_hdr_inv _ Wh) as (a & r & E & _ & Ho & _).
  rewrite !canonI_eq, map_app, (BO h Ho). f_equal.
  assert (F : Forall (fun it => map brace2tab (canonI aOCurly aSemi aCCurly it)
                                = canonI aSetTab aBackSet aBackTab it) body).
  { clear - IH Wb. induction IH as [|x xs Hx Hxs IHxs]; constructor;
      cbn [forallb] in Wb; apply andb_prop in Wb; destruct Wb; auto. }
  destruct body as [|b0 bs]; auto.
  destruct (hadSep (b0 :: bs) || _).
  - cbn [map]. rewrite map_app, (BL _ true F). reflexivity.
  - apply (BL _ true F).
Qed.

Lemma brace2tab_canon : forall b, forallb wf_item b = true ->
  map brace2tab (canonBraced b) = canonPiled b.
Proof.
  intros b W. unfold canonBraced, canonPiled, canon.
  assert (F : Forall (fun it => map brace2tab (canonI aOCurly aSemi aCCurly it)
                                = canonI aSetTab aBackSet aBackTab it) b).
  { apply Forall_forall. intros x Hx. apply brace2tab_canonI. rewrite forallb_forall in W. now apply W. }
  assert (BL : forall l f, Forall (fun it => map brace2tab (canonI aOCurly aSemi aCCurly it)
                                             = canonI aSetTab aBackSet aBackTab it) l ->
               map brace2tab (canonL aOCurly aSemi aCCurly f l) = canonL aSetTab aBackSet aBackTab f l).
  { induction l as [|a r IH]; intros f H; auto. inversion H as [|? ? Ha Hr]; subst.
    cbn [canonL]. rewrite !map_app, Ha, (IH false Hr).
    destruct f; [reflexivity|]. destruct (starts_stmt a); reflexivity. }
  destruct b as [|b0 bs]; auto.
  destruct (hadSep (b0 :: bs)).
  - cbn [map]. rewrite map_app, (BL _ true F). reflexivity.
  - apply (BL _ true F).
Qed.

(* For every well-formed program of the grammar, every strictly increasing depth -> column map of the
   piled rendering and every placement of the braced rendering's tokens: the lineariser gives the
   same stream up to  `{` ~ SetTab, `;` ~ BackSet, `}` ~ BackTab  and positions. *)
Theorem braced_equals_piled_grammar :
  forall (col : nat -> N) (pos : nat -> option (N * N)) (b : list item),
  (forall d, col d < col (S d)) -> wf_block b = true -> b <> [] ->
  option_map (map brace2tab) (oerase (linearize (braced pos b)))
  = oerase (linearize (piled col b)).
Proof.
  intros col pos b Hc W Hne.
  rewrite braced_canon, piled_canon by assumption. cbn [option_map]. f_equal.
  now apply brace2tab_canon.
Qed.

(* ------------------------------------------------------------------ example: the hypotheses are satisfiable *)

Module GrammarExample.
  Definition col (d : nat) : N := 1 + 4 * N.of_nat d.
  Definition a (t v : N) : atom := (t, v).
  (*  if c then        D : with          w
          x                 s
          y            == add
      else                  q ==
          z                     r                                          *)
  Definition ex_block : list item :=
    [ Item [a KW_If 1; a TK_Id 2; a KW_Then 3] [Item [a TK_Id 4] []; Item [a TK_Id 5] []];
      Item [a KW_Else 6] [Item [a TK_Id 7] []];
      Item [a TK_Id 8] [];
      Item [a TK_Id 9; a KW_Colon 10; a KW_With 11] [Item [a TK_Id 12] []];
      Item [a KW_2EQ 13; a KW_Add 14] [Item [a TK_Id 15; a KW_2EQ 16] [Item [a TK_Id 17] []]] ].

  Example ex_col_mono : forall d, col d < col (S d).
  Proof. intros. unfold col. lia. Qed.
  Example ex_wf : wf_block ex_block = true.
  Proof. vm_compute. reflexivity. Qed.
  Example ex_canon : canonBraced ex_block =
    [ (KW_OCurly, 0); (KW_If, 1); (TK_Id, 2); (KW_Then, 3); (KW_OCurly, 0); (TK_Id, 4); (KW_Semicolon, 0);
      (TK_Id, 5); (KW_CCurly, 0); (KW_Else, 6); (KW_OCurly, 0); (TK_Id, 7); (KW_CCurly, 0); (KW_Semicolon, 0);
      (TK_Id, 8); (KW_Semicolon, 0); (TK_Id, 9); (KW_Colon, 10); (KW_With, 11); (KW_OCurly, 0); (TK_Id, 12);
      (KW_CCurly, 0); (KW_2EQ, 13); (KW_Add, 14); (KW_OCurly, 0); (TK_Id, 15); (KW_2EQ, 16); (TK_Id, 17);
      (KW_CCurly, 0); (KW_CCurly, 0) ].
  Proof. vm_compute. reflexivity. Qed.
  Example ex_piled_runs : oerase (linearize (piled col ex_block)) = Some (canonPiled ex_block).
  Proof. vm_compute. reflexivity. Qed.
End GrammarExample.
