(* C14 — the abstract statement grammar of the renderer (tools/c14_render.py), its piled and
   braced printings, and the canonical bracketed stream.

     block ::= item+          item ::= hdr [block]       hdr: non-empty list of ordinary tokens

   (A python `stmt` with segments  hdr1 body1 hdr2 body2 ...  is the run of items
   Item hdr1 body1, Item hdr2 body2, ...: a later segment starts with a follower, and that is
   exactly what makes the pile rules — and [canon] below — not separate it from its predecessor.) *)

Require Import NArith Arith List Bool Lia.
Require Import AV.Gen.TokenInfo AV.Linear.Model.
Import ListNotations.
Local Open Scope N_scope.

Definition atom := (N * N)%type.          (* tag, payload *)

Inductive item := Item (hdr : list atom) (body : list item).

Definition ihdr (it : item) : list atom := match it with Item h _ => h end.
Definition ibody (it : item) : list item := match it with Item _ b => b end.

Section ItemInd.
  Variable P : item -> Prop.
  Hypothesis HI : forall h body, Forall P body -> P (Item h body).
  Fixpoint item_ind' (it : item) : P it :=
    match it with
    | Item h body =>
        HI h body ((fix go (l : list item) : Forall P l :=
                      match l with [] => Forall_nil P | a :: r => Forall_cons a (item_ind' a) (go r) end) body)
    end.
End ItemInd.

(* ------------------------------------------------------------------ side conditions *)

Definition atag (a : atom) : N := fst a.

(* tokens the layout machinery treats specially may not occur in a header *)
Definition ordinary (a : atom) : bool :=
  negb (N.eqb (atag a) KW_NewLine) && negb (N.eqb (atag a) TK_Comment) &&
  negb (N.eqb (atag a) TK_PreDoc) && negb (N.eqb (atag a) TK_PostDoc) &&
  negb (N.eqb (atag a) KW_StartPile) && negb (N.eqb (atag a) KW_EndPile) &&
  negb (N.eqb (atag a) KW_OCurly) && negb (N.eqb (atag a) KW_CCurly) &&
  negb (N.eqb (atag a) KW_Semicolon).

(* a header must not end in `,` or an opener (else the next line is a continuation: rule 2) *)
Definition good_last (a : atom) : bool :=
  negb (N.eqb (atag a) KW_Comma) && negb (tokIsOpener (atag a)).

Definition wf_hdr (h : list atom) : bool :=
  match h with
  | [] => false
  | a :: _ => negb (N.eqb (atag a) KW_At) && forallb ordinary h && good_last (last h a)
  end.

Fixpoint wf_item (it : item) : bool :=
  match it with
  | Item h body => wf_hdr h && (fix go (l : list item) : bool :=
                                  match l with [] => true | a :: r => wf_item a && go r end) body
  end.

Definition wf_block (b : list item) : bool := forallb wf_item b.

(* ------------------------------------------------------------------ canonical stream *)

Definition isPileKW (t : N) : bool :=
  N.eqb t KW_Then || N.eqb t KW_Else || N.eqb t KW_With || N.eqb t KW_Add ||
  N.eqb t KW_Try || N.eqb t KW_But || N.eqb t KW_Catch || N.eqb t KW_Finally ||
  N.eqb t KW_Always.

Definition nonstarter (t : N) : bool := tokIsFollower t || tokIsCloser t.

(* does this item start a new statement (it gets a separator in front) ? *)
Definition starts_stmt (it : item) : bool :=
  match ihdr it with [] => true | a :: _ => negb (nonstarter (atag a)) end.

Definition hadSep (b : list item) : bool := existsb starts_stmt (tl b).

Section Canon.
  Variables (open sep close : atom).

  Fixpoint canonI (it : item) : list atom :=
    match it with
    | Item h body =>
        h ++
        match body with
        | [] => []
        | _ :: _ =>
            let inner :=
              (fix go (first : bool) (l : list item) : list atom :=
                 match l with
                 | [] => []
                 | a :: r => (if first then [] else if starts_stmt a then [sep] else [])
                             ++ canonI a ++ go false r
                 end) true body in
            if hadSep body || match h with [] => false | a :: _ => isPileKW (atag (last h a)) end
            then open :: inner ++ [close] else inner
        end
    end.

  Fixpoint canonL (first : bool) (l : list item) : list atom :=
    match l with
    | [] => []
    | a :: r => (if first then [] else if starts_stmt a then [sep] else []) ++ canonI a ++ canonL false r
    end.

  (* a whole program body: no context keyword *)
  Definition canon (b : list item) : list atom :=
    match b with
    | [] => []
    | _ :: _ => if hadSep b then open :: canonL true b ++ [close] else canonL true b
    end.

  Lemma canonI_eq : forall h body,
    canonI (Item h body) =
    h ++ match body with
         | [] => []
         | _ :: _ =>
             if hadSep body || match h with [] => false | a :: _ => isPileKW (atag (last h a)) end
             then open :: canonL true body ++ [close] else canonL true body
         end.
  Proof.
    intros h body. cbn [canonI].
    assert (E : forall f l,
      (fix go (first : bool) (l : list item) : list atom :=
         match l with
         | [] => []
         | a :: r => (if first then [] else if starts_stmt a then [sep] else [])
                     ++ canonI a ++ go false r
         end) f l = canonL f l).
    { intros f l. revert f. induction l as [|a r IH]; intros f; cbn [canonL]; auto; try (now rewrite IH). }
    rewrite E. reflexivity.
  Qed.
End Canon.

Definition aSetTab : atom := (KW_SetTab, 0).
Definition aBackSet : atom := (KW_BackSet, 0).
Definition aBackTab : atom := (KW_BackTab, 0).
Definition aOCurly : atom := (KW_OCurly, 0).
Definition aSemi : atom := (KW_Semicolon, 0).
Definition aCCurly : atom := (KW_CCurly, 0).

Definition canonPiled  := canon aSetTab aBackSet aBackTab.
Definition canonBraced := canon aOCurly aSemi aCCurly.

(* `{` ~ SetTab, `;` ~ BackSet, `}` ~ BackTab *)
Definition brace2tab (a : atom) : atom :=
  if N.eqb (atag a) KW_OCurly then aSetTab
  else if N.eqb (atag a) KW_Semicolon then aBackSet
  else if N.eqb (atag a) KW_CCurly then aBackTab
  else a.

(* ------------------------------------------------------------------ printings *)

Section Print.
  Variable col : nat -> N.       (* column of the first token of a line at pile depth d *)

  Definition tokAt (c : N) (a : atom) : tok := mkTok (fst a) (snd a) (Some (0, c)).

  (* the tokens of one header, the first one at column c (the others: anywhere to the right) *)
  Fixpoint hdrToks (c : N) (h : list atom) : list tok :=
    match h with [] => [] | a :: r => tokAt c a :: hdrToks (c + 1) r end.

  Definition nlTok (c : N) : tok := mkTok KW_NewLine 0 (Some (0, c)).

  Definition lineToks (d : nat) (h : list atom) : list tok :=
    hdrToks (col d) h ++ [nlTok (col d + N.of_nat (length h))].

  (* one line per header, bodies one level deeper *)
  Fixpoint pileLines (d : nat) (it : item) : list (nat * list atom) :=
    match it with
    | Item h body =>
        (d, h) :: (fix go (l : list item) : list (nat * list atom) :=
                     match l with [] => [] | a :: r => pileLines (S d) a ++ go r end) body
    end.

  Definition blockLines (d : nat) (b : list item) : list (nat * list atom) :=
    flat_map (pileLines d) b.

  Definition startPileTok : tok := mkTok KW_StartPile 0 (Some (0, 1)).

  (* the piled rendering:  #pile  followed by the lines *)
  Definition piled (b : list item) : list tok :=
    startPileTok :: flat_map (fun l => lineToks (fst l) (snd l)) (blockLines 0 b).
End Print.

(* the braced rendering: the canonical stream itself, every token at an arbitrary position;
   by lin_nonpile_pos_indep newlines/comments may be added anywhere *)
Definition braced (pos : nat -> option (N * N)) (b : list item) : list tok :=
  let fix go (k : nat) (l : list atom) : list tok :=
    match l with [] => [] | a :: r => mkTok (fst a) (snd a) (pos k) :: go (S k) r end in
  go 0%nat (canonBraced b).
