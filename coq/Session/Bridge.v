(* C13: the loop model of Session/Model.v versus AV.Mini.Session (builder b-c01), the functions
   behind the tool's `forms` command whose per-form expect_out the runs compare with.        *)
Require Import List String Bool Arith Lia ZArith.
Require Import AV.Mini.Syntax AV.Mini.Types AV.Mini.Eval AV.Mini.Session.
Require Import AV.Session.Model AV.Session.Growth AV.Session.Facts.
Import ListNotations.

Lemma printed_between_delta : forall s s', printed_between s s' = delta s s'.
Proof. reflexivity. Qed.

(* form_step is the "form completed" case of the tool's step_item *)
Lemma form_step_step_item : forall F f s it s',
    form_step F f s it = Some s' <-> step_item F f s it = StepOk s'.
Proof.
  intros F f s it s'. destruct it as [t e | t e | fd | st]; simpl.
  - destruct (eval_expr F f (with_frame s []) e); split; intros H; inversion H; reflexivity.
  - destruct (eval_expr F f (with_frame s []) e); split; intros H; inversion H; reflexivity.
  - split; intros H; inversion H; reflexivity.
  - destruct (eval_stmt F f (with_frame s []) st); split; intros H; inversion H; reflexivity.
Qed.

(* when every form is accepted and completes, the session's per-form outputs are the tool's *)
Lemma session_outputs_forms_items : forall F fuel l x outs,
    accepted_in_order (l_acc x) l ->
    session_outputs F fuel x l = Some outs ->
    eval_forms F fuel (l_st x) l = Some outs.
Proof.
  intros F fuel l. induction l as [| it r IH]; intros x outs Hacc H.
  - exact H.
  - destruct Hacc as [Hit Hr]. simpl in H. rewrite (loop_step_accepted F fuel x it Hit) in H.
    destruct (form_step F fuel (l_st x) it) as [s' |] eqn:Est; [| discriminate H].
    apply form_step_step_item in Est. simpl eval_forms. rewrite Est.
    destruct (session_outputs F fuel (mkLoop (l_acc x ++ [it]) s') r) as [o |] eqn:Eo; [| discriminate H].
    pose proof (IH (mkLoop (l_acc x ++ [it]) s') o Hr Eo) as Hih. simpl in Hih. rewrite Hih.
    simpl in H. rewrite printed_between_delta in H. exact H.
Qed.

(* a program that the batch evaluator runs to a normal end: the tool's per-form outputs exist,
   are the session's, and glued together in order they are the batch output                  *)
Lemma batch_forms_session_lemma : forall fuel p out,
    accepted_in_order [] p ->
    eval fuel p = Done out StOk ->
    exists outs, forms_outputs fuel p = Some outs
                 /\ session_outputs (funs_of p) fuel loop0 p = Some outs
                 /\ String.concat "" outs = out.
Proof.
  intros fuel p out Hacc He.
  destruct (proj1 (session_eq_batch_lemma fuel p out Hacc) He) as (x' & Hs & Ht).
  destruct (proj2 (session_outputs_defined (funs_of p) fuel p loop0) (ex_intro _ x' Hs)) as (outs & Ho).
  exists outs. split; [| split].
  - exact (session_outputs_forms_items (funs_of p) fuel p loop0 outs Hacc Ho).
  - exact Ho.
  - destruct (session_transcript_lemma (funs_of p) fuel p loop0 outs Ho) as (x2 & Hs2 & Ht2).
    rewrite Hs in Hs2. inversion Hs2; subst x2. rewrite Ht2 in Ht. simpl in Ht. exact Ht.
Qed.
