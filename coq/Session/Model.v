(* C13: the interactive loop (`aldor -gloop`) as a fold over the forms typed in.
   Definitions only (facts in Facts.v).  Built on the MiniAldor reference semantics:
   [form_step] evaluates ONE top-level form exactly as the batch evaluator
   AV.Mini.Eval.eval_items does for a whole file (Facts.eval_items_cons); it is the StepOk
   case of AV.Mini.Session.step_item, the function behind the tool's `forms` command
   (Bridge.v).

   What the loop does per form (axlcomp.c:compGLoopEval): read the lines of one form
   (scan.c:scanIsContinued), run the front end on it in the file-level symbol table that
   holds everything accepted so far (compFileFront: ... scobind, tinfer); if that reports an
   error, undo the scope changes (scobind.c:scoSetUndoState) and go on to the next form;
   else generate code and interpret it (fint) in the interpreter's persistent globals.

   Model: the loop state is the list of forms accepted so far plus the evaluator state
   (globals, and the text printed so far).  A form is ACCEPTED when the forms accepted so
   far followed by it type-check ([accepts]: the checker of the reference semantics, which
   stands for "the front end reports no error"); a rejected form leaves the state as it was
   and prints nothing to the program's output.  The function table [F] the interpreter
   resolves calls in is a parameter: all theorems hold for every F (the runs use the
   definitions of the accepted forms, AV.Mini.Session.forms_outputs).

   NOT modelled: the undo machinery itself (only its intended effect: state unchanged), the
   loop's own chatter (banner, prompts, value/type echo, timings, diagnostics), the
   incremental growth of the interpreter's function table, scanIsContinued (the python side
   runs a port of it on every form it feeds).                                              *)
Require Import List String Bool Arith.
Require Import AV.Mini.Syntax AV.Mini.Types AV.Mini.Eval.
Import ListNotations.

(* the front end's verdict on a form entered after the forms [acc] were accepted *)
Definition accepts (acc : prog) (it : item) : bool := typecheck (acc ++ [it]).

Record loop_state : Type := mkLoop {
  l_acc : prog;        (* forms accepted so far, in order *)
  l_st : state         (* evaluator state: globals, output printed so far *)
}.

Definition loop0 : loop_state := mkLoop [] (mkSt [] [] []).

(* evaluate one top-level form; None: it does not complete normally (unhandled exception / error,
   out of fuel, undefined, stuck)                                                            *)
Definition form_step (F : list fundef) (f : nat) (s : state) (it : item) : option state :=
  match it with
  | IConst _ e | IVar _ e =>
      match eval_expr F f (with_frame s []) e with
      | RVal s1 v => Some (mkSt (sg s1 ++ [v]) [] (so s1))
      | _ => None
      end
  | IFun _ => Some s
  | IStmt st =>
      match eval_stmt F f (with_frame s []) st with
      | RVal s1 _ => Some (with_frame s1 [])
      | _ => None
      end
  end.

(* the text printed between two states of one run (output chunks are consed on) *)
Definition printed_between (s s' : state) : string :=
  String.concat "" (rev (firstn (List.length (so s') - List.length (so s)) (so s'))).

(* the text the program has printed so far *)
Definition transcript (x : loop_state) : string := output_of (l_st x).

Section Loop.
  Variable F : list fundef.     (* function definitions the interpreter resolves calls in *)
  Variable fuel : nat.

  (* one form typed in.  None: the form was accepted but its evaluation did not end normally
     (exception, error, out of fuel): the theorems say nothing about such sessions.          *)
  Definition loop_step (x : loop_state) (it : item) : option loop_state :=
    if accepts (l_acc x) it then
      match form_step F fuel (l_st x) it with
      | Some s' => Some (mkLoop (l_acc x ++ [it]) s')
      | None => None
      end
    else Some x.

  (* a session: fold loop_step over the forms *)
  Fixpoint session (x : loop_state) (l : list item) : option loop_state :=
    match l with
    | [] => Some x
    | it :: r => match loop_step x it with
                 | Some x' => session x' r
                 | None => None
                 end
    end.

  (* the lists of accepted forms of the states a session passes through (the first is the
     start state's): "the reachable states" as far as acceptance is concerned               *)
  Fixpoint reach (x : loop_state) (l : list item) : list prog :=
    l_acc x :: match l with
               | [] => []
               | it :: r => match loop_step x it with
                            | Some x' => reach x' r
                            | None => []
                            end
               end.

  (* the text printed by each form of a session, in order ("" for a rejected form) *)
  Fixpoint session_outputs (x : loop_state) (l : list item) : option (list string) :=
    match l with
    | [] => Some []
    | it :: r => match loop_step x it with
                 | Some x' => match session_outputs x' r with
                              | Some outs => Some (printed_between (l_st x) (l_st x') :: outs)
                              | None => None
                              end
                 | None => None
                 end
    end.
End Loop.

(* every form is accepted at the moment it is entered *)
Fixpoint accepted_in_order (acc : prog) (l : list item) : Prop :=
  match l with
  | [] => True
  | it :: r => accepts acc it = true /\ accepted_in_order (acc ++ [it]) r
  end.

Fixpoint accepted_in_orderb (acc : prog) (l : list item) : bool :=
  match l with
  | [] => true
  | it :: r => accepts acc it && accepted_in_orderb (acc ++ [it]) r
  end.

(* l is an interleaving of goods and bads (both keep their order) *)
Inductive interleave {A : Type} : list A -> list A -> list A -> Prop :=
| il_nil : interleave [] [] []
| il_good : forall g gs bs l, interleave gs bs l -> interleave (g :: gs) bs (g :: l)
| il_bad : forall b gs bs l, interleave gs bs l -> interleave gs (b :: bs) (b :: l).

(* a form is rejected in every state a session over [goods] passes through *)
Definition rejected_in_reach (F : list fundef) (fuel : nat) (x : loop_state) (goods : list item)
           (b : item) : Prop :=
  forall acc, In acc (reach F fuel x goods) -> accepts acc b = false.

Definition rejected_in_reachb (F : list fundef) (fuel : nat) (x : loop_state) (goods : list item)
           (b : item) : bool :=
  forallb (fun acc => negb (accepts acc b)) (reach F fuel x goods).
