(* C13: evaluation only ever APPENDS to the program's output: the text printed so far is never
   rewritten.  This is what lets the transcript of a session be cut into the pieces printed by
   the individual forms (Model.printed_between).                                             *)
Require Import List String Bool Arith Lia ZArith.
Require Import AV.Mini.Syntax AV.Mini.Types AV.Mini.Eval.
Require Import AV.Session.Model.
Import ListNotations.

(* s' has the output of s plus possibly more (chunks are consed on, most recent first) *)
Definition ext (s s' : state) : Prop := exists l, so s' = l ++ so s.

Lemma ext_refl : forall s, ext s s.
Proof. intros s. exists []. reflexivity. Qed.

Lemma ext_trans : forall a b c, ext a b -> ext b c -> ext a c.
Proof. intros a b c [l1 H1] [l2 H2]. exists (l2 ++ l1). rewrite H2, H1. apply app_assoc. Qed.

Lemma ext_so : forall s s1 s2, so s2 = so s1 -> ext s s1 -> ext s s2.
Proof. intros s s1 s2 H [l Hl]. exists l. rewrite H. exact Hl. Qed.

Lemma ext_with_frame : forall s s1 fr, ext s s1 -> ext s (with_frame s1 fr).
Proof. intros s s1 fr H. apply (ext_so s s1); [reflexivity | exact H]. Qed.

Lemma ext_pop_frame : forall s s1, ext s s1 -> ext s (pop_frame s1).
Proof. intros s s1 H. apply (ext_so s s1); [reflexivity | exact H]. Qed.

Lemma ext_mk : forall s s1 g l, ext s s1 -> ext s (mkSt g l (so s1)).
Proof. intros s s1 g l H. apply (ext_so s s1); [reflexivity | exact H]. Qed.

Lemma ext_emit : forall s s1 t, ext s s1 -> ext s (emit s1 t).
Proof. intros s s1 t [l Hl]. exists (t :: l). simpl. rewrite Hl. reflexivity. Qed.

Global Hint Resolve ext_refl ext_with_frame ext_pop_frame ext_mk ext_emit : ext.

Definition grows {A : Type} (s : state) (r : res A) : Prop :=
  match r with
  | RVal s' _ | RBrk s' | RIter s' | RRet s' _ | RExit s' _ | RThrow s' _ => ext s s'
  | RUndef | RFuel | RStuck => True
  end.

Arguments grows : simpl never.

Lemma grows_weaken : forall A s s1 (r : res A), ext s s1 -> grows s1 r -> grows s r.
Proof. intros A s s1 r H Hr. destruct r; unfold grows in *; try exact I; eapply ext_trans; eauto. Qed.

Lemma grows_bind : forall A B s (r : res A) (k : state -> A -> res B),
    grows s r -> (forall s1 a, ext s s1 -> grows s (k s1 a)) -> grows s (bind r k).
Proof. intros A B s r k Hr Hk. destruct r; simpl bind; try exact Hr. apply Hk. exact Hr. Qed.

Lemma grows_end_block : forall s (r : res unit), grows s r -> grows s (end_block r).
Proof. intros s r H. destruct r as [| | | | s' [v |] | | | |]; simpl end_block; try exact H; exact I. Qed.

Section Growth.
  Variable F : list fundef.

  Definition grows_at (n : nat) : Prop :=
    (forall s e, grows s (eval_expr F n s e)) /\
    (forall s es, grows s (eval_args F n s es)) /\
    (forall s name vs, grows s (eval_call F n s name vs)) /\
    (forall s fd vs, grows s (eval_fun F n s fd vs)) /\
    (forall s ls, grows s (eval_locals F n s ls)) /\
    (forall s ss, grows s (eval_block F n s ss)) /\
    (forall s st, grows s (eval_stmt F n s st)) /\
    (forall s c b, grows s (eval_while F n s c b)) /\
    (forall s a b body, grows s (eval_for F n s a b body)) /\
    (forall s vs body, grows s (eval_forin F n s vs body)).

  Ltac ext_tac := solve [ eauto 6 with ext ].

  (* goals `grows s (...)` where every state mentioned is known to extend s *)
  Ltac gr :=
    match goal with
    | |- grows _ RUndef => exact I
    | |- grows _ RFuel => exact I
    | |- grows _ RStuck => exact I
    | |- grows _ (RVal _ _) => unfold grows; ext_tac
    | |- grows _ (RBrk _) => unfold grows; ext_tac
    | |- grows _ (RIter _) => unfold grows; ext_tac
    | |- grows _ (RRet _ _) => unfold grows; ext_tac
    | |- grows _ (RExit _ _) => unfold grows; ext_tac
    | |- grows _ (RThrow _ _) => unfold grows; ext_tac
    | |- grows _ (bind _ _) => apply grows_bind; [ gr | intros; gr ]
    | |- grows _ (end_block _) => apply grows_end_block; gr
    | H : forall s e, grows s (eval_expr F ?n s e) |- grows ?s (eval_expr F ?n ?s1 _) =>
        apply (grows_weaken _ s s1); [ ext_tac | apply H ]
    | H : forall s es, grows s (eval_args F ?n s es) |- grows ?s (eval_args F ?n ?s1 _) =>
        apply (grows_weaken _ s s1); [ ext_tac | apply H ]
    | H : forall s name vs, grows s (eval_call F ?n s name vs) |- grows ?s (eval_call F ?n ?s1 _ _) =>
        apply (grows_weaken _ s s1); [ ext_tac | apply H ]
    | H : forall s fd vs, grows s (eval_fun F ?n s fd vs) |- grows ?s (eval_fun F ?n ?s1 _ _) =>
        apply (grows_weaken _ s s1); [ ext_tac | apply H ]
    | H : forall s ls, grows s (eval_locals F ?n s ls) |- grows ?s (eval_locals F ?n ?s1 _) =>
        apply (grows_weaken _ s s1); [ ext_tac | apply H ]
    | H : forall s ss, grows s (eval_block F ?n s ss) |- grows ?s (eval_block F ?n ?s1 _) =>
        apply (grows_weaken _ s s1); [ ext_tac | apply H ]
    | H : forall s st, grows s (eval_stmt F ?n s st) |- grows ?s (eval_stmt F ?n ?s1 _) =>
        apply (grows_weaken _ s s1); [ ext_tac | apply H ]
    | H : forall s c b, grows s (eval_while F ?n s c b) |- grows ?s (eval_while F ?n ?s1 _ _) =>
        apply (grows_weaken _ s s1); [ ext_tac | apply H ]
    | H : forall s a b body, grows s (eval_for F ?n s a b body) |- grows ?s (eval_for F ?n ?s1 _ _ _) =>
        apply (grows_weaken _ s s1); [ ext_tac | apply H ]
    | H : forall s vs body, grows s (eval_forin F ?n s vs body) |- grows ?s (eval_forin F ?n ?s1 _ _) =>
        apply (grows_weaken _ s s1); [ ext_tac | apply H ]
    | |- grows ?s (match ?x with _ => _ end) =>
        first
          [ let H := fresh "Hg" in
            assert (H : grows s x) by gr;
            destruct x; unfold grows in H; gr
          | destruct x; gr ]
    | |- grows _ (if ?x then _ else _) => destruct x; gr
    | |- grows _ (let _ := _ in _) => cbv zeta; gr
    end.

  Lemma grows_all : forall n, grows_at n.
  Proof.
    induction n as [| n IH].
    - unfold grows_at; repeat split; intros; exact I.
    - destruct IH as (He & Ha & Hc & Hfn & Hl & Hb & Hs & Hw & Hf & Hfi).
      unfold grows_at; repeat split; intros.
      + destruct e; simpl; gr.
      + destruct es; simpl; gr.
      + simpl. gr.
      + simpl. gr.
      + destruct ls as [| [t e] ls]; simpl; gr.
      + destruct ss; simpl; gr.
      + destruct st; simpl; gr.
      + simpl. gr.
      + simpl. gr.
      + destruct vs; simpl; gr.
  Qed.

  Lemma form_step_ext : forall fuel s it s', form_step F fuel s it = Some s' -> ext s s'.
  Proof.
    intros fuel s it s' H. destruct (grows_all fuel) as (He & _ & _ & _ & _ & _ & Hs & _ & _ & _).
    destruct it as [t e | t e | fd | st]; simpl in H.
    - pose proof (He (with_frame s []) e) as Hg.
      destruct (eval_expr F fuel (with_frame s []) e); try discriminate H.
      inversion H; subst s'. unfold grows in Hg. destruct Hg as [l Hl]. exists l. simpl. exact Hl.
    - pose proof (He (with_frame s []) e) as Hg.
      destruct (eval_expr F fuel (with_frame s []) e); try discriminate H.
      inversion H; subst s'. unfold grows in Hg. destruct Hg as [l Hl]. exists l. simpl. exact Hl.
    - inversion H; subst s'. apply ext_refl.
    - pose proof (Hs (with_frame s []) st) as Hg.
      destruct (eval_stmt F fuel (with_frame s []) st); try discriminate H.
      inversion H; subst s'. unfold grows in Hg. destruct Hg as [l Hl]. exists l. simpl. exact Hl.
  Qed.
End Growth.

(* ---- strings: String.concat "" is a monoid morphism ---- *)
Lemma sapp_nil_r : forall a : string, (a ++ "")%string = a.
Proof. induction a as [| c a IH]; simpl; [reflexivity | rewrite IH; reflexivity]. Qed.

Lemma sapp_assoc : forall a b c : string, ((a ++ b) ++ c)%string = (a ++ (b ++ c))%string.
Proof. induction a as [| x a IH]; intros b c; simpl; [reflexivity | rewrite IH; reflexivity]. Qed.

Lemma concat_cons : forall x xs, String.concat "" (x :: xs) = (x ++ String.concat "" xs)%string.
Proof. intros x xs. destruct xs; simpl; [rewrite sapp_nil_r; reflexivity | reflexivity]. Qed.

Lemma concat_app : forall a b, String.concat "" (a ++ b) = (String.concat "" a ++ String.concat "" b)%string.
Proof.
  induction a as [| x a IH]; intros b.
  - reflexivity.
  - rewrite <- app_comm_cons. rewrite !concat_cons. rewrite IH. rewrite sapp_assoc. reflexivity.
Qed.

(* what was printed between two states, glued to what was printed before, is what is printed now *)
Lemma output_of_printed : forall s s', ext s s' -> output_of s' = (output_of s ++ printed_between s s')%string.
Proof.
  intros s s' [l Hl]. unfold output_of, printed_between. rewrite Hl. rewrite app_length.
  replace (List.length l + List.length (so s) - List.length (so s)) with (List.length l) by lia.
  rewrite firstn_app. rewrite Nat.sub_diag. simpl firstn at 2. rewrite app_nil_r. rewrite firstn_all.
  rewrite rev_app_distr. apply concat_app.
Qed.
