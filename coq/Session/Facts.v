(* C13: facts about the loop model of Session/Model.v. *)
Require Import List String Bool Arith Lia ZArith.
Require Import AV.Mini.Syntax AV.Mini.Types AV.Mini.Eval.
Require Import AV.Session.Model AV.Session.Growth.
Import ListNotations.

(* ------------------------------------------------------------------ one form *)

(* the batch evaluator's step on the first form of a file IS form_step *)
Lemma eval_items_cons : forall F fuel s it r,
    eval_items F fuel s (it :: r) =
    match form_step F fuel s it with
    | Some s' => eval_items F fuel s' r
    | None => eval_items F fuel s [it]
    end.
Proof.
  intros F fuel s it r. destruct it as [t e | t e | fd | st]; simpl.
  - destruct (eval_expr F fuel (with_frame s []) e); reflexivity.
  - destruct (eval_expr F fuel (with_frame s []) e); reflexivity.
  - reflexivity.
  - destruct (eval_stmt F fuel (with_frame s []) st); reflexivity.
Qed.

(* ... and when form_step has no next state the batch run does not end normally either *)
Lemma eval_items_stop : forall F fuel s it out,
    form_step F fuel s it = None -> eval_items F fuel s [it] <> Done out StOk.
Proof.
  intros F fuel s it out H. destruct it as [t e | t e | fd | st]; simpl in *.
  - destruct (eval_expr F fuel (with_frame s []) e); try discriminate H; discriminate.
  - destruct (eval_expr F fuel (with_frame s []) e); try discriminate H; discriminate.
  - discriminate H.
  - destruct (eval_stmt F fuel (with_frame s []) st); try discriminate H; discriminate.
Qed.

Lemma loop_step_accepted : forall F fuel x it,
    accepts (l_acc x) it = true ->
    loop_step F fuel x it =
    match form_step F fuel (l_st x) it with
    | Some s' => Some (mkLoop (l_acc x ++ [it]) s')
    | None => None
    end.
Proof. intros F fuel x it H. unfold loop_step. rewrite H. reflexivity. Qed.

Lemma loop_step_rejected : forall F fuel x it,
    accepts (l_acc x) it = false -> loop_step F fuel x it = Some x.
Proof. intros F fuel x it H. unfold loop_step. rewrite H. reflexivity. Qed.

(* ------------------------------------------------------------------ session = batch *)

Lemma session_eq_batch_items : forall F fuel l x out,
    accepted_in_order (l_acc x) l ->
    (eval_items F fuel (l_st x) l = Done out StOk
     <-> exists x', session F fuel x l = Some x' /\ transcript x' = out).
Proof.
  intros F fuel l. induction l as [| it r IH]; intros x out Hacc.
  - simpl. split.
    + intros H. exists x. split; [reflexivity |]. unfold transcript. congruence.
    + intros (x' & Hs & Ht). inversion Hs; subst x'. unfold transcript in Ht. rewrite Ht. reflexivity.
  - destruct Hacc as [Hit Hr]. rewrite eval_items_cons. simpl session.
    rewrite (loop_step_accepted F fuel x it Hit).
    destruct (form_step F fuel (l_st x) it) as [s' |] eqn:Est.
    + apply (IH (mkLoop (l_acc x ++ [it]) s') out). exact Hr.
    + split.
      * intros H. exfalso. exact (eval_items_stop F fuel (l_st x) it out Est H).
      * intros (x' & Hs & _). discriminate Hs.
Qed.

Lemma accepted_in_orderb_spec : forall l acc, accepted_in_orderb acc l = true <-> accepted_in_order acc l.
Proof.
  induction l as [| it r IH]; intros acc; simpl.
  - tauto.
  - rewrite andb_true_iff. rewrite IH. tauto.
Qed.

(* whole file, start state, the file's own function table: `eval` of AV.Mini.Eval *)
Lemma session_eq_batch_lemma : forall fuel p out,
    accepted_in_order [] p ->
    (eval fuel p = Done out StOk
     <-> exists x', session (funs_of p) fuel loop0 p = Some x' /\ transcript x' = out).
Proof.
  intros fuel p out H. unfold eval. apply (session_eq_batch_items (funs_of p) fuel p loop0 out). exact H.
Qed.

(* session_outputs is defined exactly when the session is *)
Lemma session_outputs_defined : forall F fuel l x,
    (exists outs, session_outputs F fuel x l = Some outs) <-> (exists x', session F fuel x l = Some x').
Proof.
  intros F fuel l. induction l as [| it r IH]; intros x; simpl.
  - split; intros _; eexists; reflexivity.
  - destruct (loop_step F fuel x it) as [x1 |].
    + rewrite <- (IH x1). split.
      * intros (outs & H). destruct (session_outputs F fuel x1 r) as [o |]; [eexists; reflexivity | discriminate H].
      * intros (o & H). rewrite H. eexists; reflexivity.
    + split; intros (o & H); discriminate H.
Qed.

(* ------------------------------------------------------------------ rejected forms are no-ops *)

Lemma reach_head : forall F fuel x l, In (l_acc x) (reach F fuel x l).
Proof. intros F fuel x l. destruct l; simpl; left; reflexivity. Qed.

Lemma reach_step : forall F fuel x it r x' acc,
    loop_step F fuel x it = Some x' -> In acc (reach F fuel x' r) -> In acc (reach F fuel x (it :: r)).
Proof. intros F fuel x it r x' acc H Hin. simpl. rewrite H. right. exact Hin. Qed.

Lemma rejected_is_noop_lemma : forall F fuel goods bads l,
    interleave goods bads l ->
    forall x, (forall b, In b bads -> rejected_in_reach F fuel x goods b) ->
    session F fuel x l = session F fuel x goods.
Proof.
  intros F fuel goods bads l Hil. induction Hil as [| g gs bs l Hil IH | b gs bs l Hil IH]; intros x Hrej.
  - reflexivity.
  - simpl. destruct (loop_step F fuel x g) as [x' |] eqn:Est; [| reflexivity].
    apply IH. intros b Hb acc Hacc. apply (Hrej b Hb). exact (reach_step F fuel x g gs x' acc Est Hacc).
  - simpl. assert (Hb : accepts (l_acc x) b = false).
    { apply (Hrej b (or_introl eq_refl)). apply reach_head. }
    rewrite (loop_step_rejected F fuel x b Hb). apply IH.
    intros b' Hb'. apply Hrej. right. exact Hb'.
Qed.

Lemma printed_same : forall s, printed_between s s = ""%string.
Proof. intros s. unfold printed_between. rewrite Nat.sub_diag. reflexivity. Qed.

(* form by form: the good forms print what they print without the rejected ones, each rejected
   form prints nothing                                                                       *)
Lemma rejected_outputs_lemma : forall F fuel goods bads l,
    interleave goods bads l ->
    forall x, (forall b, In b bads -> rejected_in_reach F fuel x goods b) ->
    forall ol, session_outputs F fuel x l = Some ol ->
    exists og, session_outputs F fuel x goods = Some og
               /\ interleave og (map (fun _ => ""%string) bads) ol.
Proof.
  intros F fuel goods bads l Hil. induction Hil as [| g gs bs l Hil IH | b gs bs l Hil IH]; intros x Hrej ol Hol.
  - simpl in Hol. inversion Hol; subst ol. exists []. split; [reflexivity | constructor].
  - simpl in Hol |- *. destruct (loop_step F fuel x g) as [x' |] eqn:Est; [| discriminate Hol].
    destruct (session_outputs F fuel x' l) as [o |] eqn:Eo; [| discriminate Hol].
    inversion Hol; subst ol.
    destruct (IH x') with (ol := o) as (og & Hog & Hi).
    + intros b Hb acc Hacc. apply (Hrej b Hb). exact (reach_step F fuel x g gs x' acc Est Hacc).
    + exact Eo.
    + rewrite Hog. eexists. split; [reflexivity |]. constructor. exact Hi.
  - simpl in Hol. assert (Hb : accepts (l_acc x) b = false).
    { apply (Hrej b (or_introl eq_refl)). apply reach_head. }
    rewrite (loop_step_rejected F fuel x b Hb) in Hol.
    destruct (session_outputs F fuel x l) as [o |] eqn:Eo; [| discriminate Hol].
    inversion Hol; subst ol. rewrite printed_same.
    destruct (IH x) with (ol := o) as (og & Hog & Hi).
    + intros b' Hb'. apply Hrej. right. exact Hb'.
    + exact Eo.
    + exists og. split; [exact Hog |]. simpl. constructor. exact Hi.
Qed.

Lemma rejected_in_reachb_spec : forall F fuel x goods b,
    rejected_in_reachb F fuel x goods b = true -> rejected_in_reach F fuel x goods b.
Proof.
  intros F fuel x goods b H acc Hin. unfold rejected_in_reachb in H.
  rewrite forallb_forall in H. apply negb_true_iff. exact (H acc Hin).
Qed.

(* a form that is rejected in EVERY state (stronger hypothesis, simpler to read) *)
Lemma rejected_everywhere_noop_lemma : forall F fuel goods bads l x,
    interleave goods bads l ->
    (forall b, In b bads -> forall acc, accepts acc b = false) ->
    session F fuel x l = session F fuel x goods.
Proof.
  intros F fuel goods bads l x Hil H. apply (rejected_is_noop_lemma F fuel goods bads l Hil x).
  intros b Hb acc _. exact (H b Hb acc).
Qed.

(* the session goes on after a rejected form: the forms that follow are evaluated from the state
   before it (one-step form of the above, for any suffix)                                     *)
Lemma rejected_then_continue_lemma : forall F fuel x b rest,
    accepts (l_acc x) b = false -> session F fuel x (b :: rest) = session F fuel x rest.
Proof. intros F fuel x b rest H. simpl. rewrite (loop_step_rejected F fuel x b H). reflexivity. Qed.

(* ------------------------------------------------------------------ transcript = pieces in order *)

Lemma loop_step_ext : forall F fuel x it x', loop_step F fuel x it = Some x' -> ext (l_st x) (l_st x').
Proof.
  intros F fuel x it x' H. unfold loop_step in H. destruct (accepts (l_acc x) it).
  - destruct (form_step F fuel (l_st x) it) as [s' |] eqn:Est; [| discriminate H].
    inversion H; subst x'. simpl. exact (form_step_ext F fuel (l_st x) it s' Est).
  - inversion H; subst x'. apply ext_refl.
Qed.

(* the text a session has printed is the text printed before it followed by the pieces printed by
   its forms, in the order the forms were entered                                             *)
Lemma session_transcript_lemma : forall F fuel l x outs,
    session_outputs F fuel x l = Some outs ->
    exists x', session F fuel x l = Some x'
               /\ transcript x' = (transcript x ++ String.concat "" outs)%string.
Proof.
  intros F fuel l. induction l as [| it r IH]; intros x outs H; simpl in H.
  - inversion H; subst outs. exists x. split; [reflexivity |]. simpl. rewrite sapp_nil_r. reflexivity.
  - simpl session. destruct (loop_step F fuel x it) as [x1 |] eqn:Est; [| discriminate H].
    destruct (session_outputs F fuel x1 r) as [o |] eqn:Eo; [| discriminate H].
    inversion H; subst outs. destruct (IH x1 o Eo) as (x' & Hs & Ht).
    exists x'. split; [exact Hs |]. rewrite Ht. unfold transcript at 1.
    rewrite (output_of_printed (l_st x) (l_st x1) (loop_step_ext F fuel x it x1 Est)).
    rewrite concat_cons. unfold transcript. rewrite sapp_assoc. reflexivity.
Qed.

Lemma transcript_loop0 : transcript loop0 = ""%string.
Proof. reflexivity. Qed.

(* the second sentence of the property at the level of the whole transcript: an interleaved
   session prints exactly the concatenation of what the good forms print on their own       *)
Lemma rejected_transcript_lemma : forall F fuel goods bads l,
    interleave goods bads l ->
    forall x, (forall b, In b bads -> rejected_in_reach F fuel x goods b) ->
    forall og, session_outputs F fuel x goods = Some og ->
    exists x', session F fuel x l = Some x'
               /\ transcript x' = (transcript x ++ String.concat "" og)%string.
Proof.
  intros F fuel goods bads l Hil x Hrej og Hog.
  rewrite (rejected_is_noop_lemma F fuel goods bads l Hil x Hrej).
  exact (session_transcript_lemma F fuel goods x og Hog).
Qed.

(* ------------------------------------------------------------------ non-vacuity *)

(* g0: MI := 3;  stdout << g0 << newline;  f0(p0: MI): MI == p0 + 1;  stdout << f0(g0) << newline; *)
Definition ex_f0 : fundef :=
  mkFun 0 [TMI] TMI [] [] (EPrim (PAdd NMI) [ELoc 0; ELit (LNum NMI 1%Z)]) true 1.
Definition ex_goods : prog :=
  [ IVar TMI (ELit (LNum NMI 3%Z));
    IStmt (SPrint [EGlob 0]);
    IFun ex_f0;
    IStmt (SPrint [ECall 0 [EGlob 0]]) ].
(* undefined name; wrong argument type; wrong type of an initial value; assignment to nothing *)
Definition ex_bads : list item :=
  [ IStmt (SPrint [EGlob 4999]);
    IStmt (SPrint [ECall 0 [ELit (LBool true)]]);
    IVar TMI (ELit (LBool true)) ].
Definition ex_session : list item :=
  [ nth 0 ex_bads (IStmt SNever); nth 0 ex_goods (IStmt SNever); nth 1 ex_goods (IStmt SNever);
    nth 1 ex_bads (IStmt SNever); nth 2 ex_goods (IStmt SNever); nth 2 ex_bads (IStmt SNever);
    nth 3 ex_goods (IStmt SNever) ].
Definition ex_fuel : nat := 100.

Example ex_goods_accepted : accepted_in_order [] ex_goods.
Proof. apply accepted_in_orderb_spec. vm_compute. reflexivity. Qed.

Example ex_interleave : interleave ex_goods ex_bads ex_session.
Proof. unfold ex_session, ex_goods, ex_bads; simpl. repeat constructor. Qed.

Example ex_bads_rejected :
  forall b, In b ex_bads -> rejected_in_reach (funs_of ex_goods) ex_fuel loop0 ex_goods b.
Proof.
  intros b Hb. apply rejected_in_reachb_spec.
  assert (H : forallb (rejected_in_reachb (funs_of ex_goods) ex_fuel loop0 ex_goods) ex_bads = true)
    by (vm_compute; reflexivity).
  rewrite forallb_forall in H. exact (H b Hb).
Qed.

(* the batch run of the good forms prints "3\n4\n" and so does the interleaved session *)
Example ex_batch : eval ex_fuel ex_goods = Done ("3" ++ nl ++ "4" ++ nl)%string StOk.
Proof. vm_compute. reflexivity. Qed.

Example ex_session_runs :
  option_map transcript (session (funs_of ex_goods) ex_fuel loop0 ex_session) = Some ("3" ++ nl ++ "4" ++ nl)%string.
Proof. vm_compute. reflexivity. Qed.

Example ex_session_outputs :
  session_outputs (funs_of ex_goods) ex_fuel loop0 ex_session
  = Some [""; ""; "3" ++ nl; ""; ""; ""; "4" ++ nl]%string.
Proof. vm_compute. reflexivity. Qed.

(* a rejected definition leaves nothing behind: after `g1: MI := true` is refused, g1 is still free
   for the next definition (the accepted list did not grow)                                    *)
Example ex_rejected_definition_leaves_no_binding :
  option_map (fun x => List.length (l_acc x))
             (session (funs_of ex_goods) ex_fuel loop0 ex_session) = Some 4.
Proof. vm_compute. reflexivity. Qed.
