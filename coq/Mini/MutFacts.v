(* MiniAldor: every eligible mutant is ill-typed by the rules of Types.v.
   [eligible] runs the checker on the mutant (Mut.v), so these statements hold by
   construction for every program and site; what is measured at run time instead is how many
   sites of each kind the generated programs offer (tool: `mini mutants`).                  *)
Require Import List ZArith String Bool Arith.
Require Import AV.Mini.Syntax AV.Mini.Types AV.Mini.Gen AV.Mini.Mut.
Import ListNotations.

Lemma mutant_ill_typed_lemma : forall k p site,
    typecheck p = true -> eligible k p site = true -> typecheck (mutate k p site) = false.
Proof.
  intros k p site _ H. unfold eligible in H. apply andb_prop in H as [H _].
  apply andb_prop in H as [_ H]. apply negb_true_iff in H. exact H.
Qed.

(* ... and stays ill-typed when every definition of the file is visible everywhere *)
Lemma mutant_ill_typed_lax : forall k p site,
    eligible k p site = true -> typecheck_lax (mutate k p site) = false.
Proof.
  intros k p site H. unfold eligible in H. apply andb_prop in H as [_ H].
  apply negb_true_iff in H. exact H.
Qed.

Lemma eligible_sites_sound : forall k p site,
    In site (eligible_sites k p) -> eligible k p site = true.
Proof. intros k p site H. unfold eligible_sites in H. apply filter_In in H as [_ H]. exact H. Qed.

Lemma eligible_in_range : forall k p site,
    eligible k p site = true -> exists i q, nth_error (muts k p) site = Some (i, q) /\ mutate k p site = q.
Proof.
  intros k p site H. unfold eligible in H. apply andb_prop in H as [H _].
  apply andb_prop in H as [H _]. apply Nat.ltb_lt in H.
  destruct (nth_error (muts k p) site) as [[i q] |] eqn:E.
  - exists i, q. split; [reflexivity |]. unfold mutate. rewrite E. reflexivity.
  - apply nth_error_None in E. exfalso. apply (Nat.lt_irrefl site). eapply Nat.lt_le_trans; eauto.
Qed.

(* non-vacuity: a generated program with eligible sites of every kind *)
Definition ex_mut_prog : prog := gen 1 12.
Example ex_sites_all_kinds :
  forallb (fun k => negb (Nat.eqb (List.length (eligible_sites k ex_mut_prog)) 0)) all_kinds = true.
Proof. vm_compute. reflexivity. Qed.
