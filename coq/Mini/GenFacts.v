(* MiniAldor: facts about the generated family.
   [gen] keeps a candidate only when [accepted] holds (Gen.v), so membership of every
   generated program in the defined subset, and the existence of its expected result within
   [gen_fuel], hold by construction for ALL seeds and sizes; how often the generator needs a
   retry (or the fallback) is measured at run time by the tool (`tries`).                 *)
Require Import List ZArith String Bool Arith Lia.
Require Import AV.Mini.Syntax AV.Mini.Types AV.Mini.Eval AV.Mini.Gen AV.Mini.Facts AV.Mini.Sound.
Import ListNotations.

Lemma accepted_spec : forall p, accepted p = true ->
    typecheck p = true /\ exists out st, eval gen_fuel p = Done out st.
Proof.
  unfold accepted; intros p H. apply andb_prop in H as [H1 H2]. split; [assumption |].
  destruct (eval gen_fuel p); try discriminate. eauto.
Qed.

Lemma gen_try_accepted : forall fe k r size k' p,
    gen_try fe k r size = Some (k', p) -> accepted p = true.
Proof.
  induction k as [| k IH]; intros r size k' p H; simpl in H.
  - destruct (accepted (gen0 fe r size)) eqn:Ha; [| discriminate]. inversion H; subst; assumption.
  - destruct (accepted (gen0 fe r size)) eqn:Ha.
    + inversion H; subst; assumption.
    + eapply IH; eauto.
Qed.

Lemma fallback_accepted : accepted fallback_prog = true.
Proof. vm_compute. reflexivity. Qed.

Lemma gen_accepted : forall seed size, accepted (gen seed size) = true.
Proof.
  intros seed size. unfold gen, gen_with_tries.
  destruct (gen_try (draw_feats (rng_of_seed seed)) gen_tries (rng_of_seed seed) size) as [[k p] |] eqn:H; simpl.
  - eapply gen_try_accepted; eauto.
  - apply fallback_accepted.
Qed.

Lemma gen_well_typed_lemma : forall seed size, typecheck (gen seed size) = true.
Proof. intros. apply (accepted_spec _ (gen_accepted seed size)). Qed.

(* every generated program has an expected result: the evaluator finishes with Done within
   gen_fuel -- it neither runs out of fuel, nor reaches an operation the definition leaves
   open (division by zero, `machine` out of range: gen_total_ub_free), nor gets stuck        *)
Lemma gen_defined_lemma : forall seed size, exists out st, eval gen_fuel (gen seed size) = Done out st.
Proof. intros. apply (accepted_spec _ (gen_accepted seed size)). Qed.

Lemma gen_terminates_lemma : forall seed size, exists fuel, eval fuel (gen seed size) <> OutOfFuel.
Proof.
  intros. destruct (gen_defined_lemma seed size) as (out & st & H).
  exists gen_fuel. rewrite H. discriminate.
Qed.

(* the expected result is the same for every sufficient fuel *)
Lemma gen_result_unique_lemma : forall seed size f out st out' st',
    eval gen_fuel (gen seed size) = Done out st ->
    gen_fuel <= f -> eval f (gen seed size) = Done out' st' -> out = out' /\ st = st'.
Proof.
  intros seed size f out st out' st' H Hle H'.
  rewrite (eval_fuel_mono_lemma _ _ _ _ _ H Hle) in H'. inversion H'; auto.
Qed.

(* ---- non-vacuity: concrete, non-trivial instances of the hypotheses ---- *)
Definition ex_prog : prog := gen 11 6.

Example ex_not_fallback : fst (gen_with_tries 11 6) = 0%nat.
Proof. vm_compute. reflexivity. Qed.

Example ex_typed : typecheck ex_prog = true.
Proof. vm_compute. reflexivity. Qed.

Example ex_done : exists out, eval 300 ex_prog = Done out StOk /\ String.length out <> 0%nat.
Proof. eexists. split; [vm_compute; reflexivity | vm_compute; discriminate]. Qed.

(* an ill-typed program that does get stuck: the soundness hypothesis is needed *)
Example ex_stuck : eval 10 [IStmt (SPrint [EGlob 3])] = Stuck /\ typecheck [IStmt (SPrint [EGlob 3])] = false.
Proof. split; vm_compute; reflexivity. Qed.

(* too little fuel gives OutOfFuel, more fuel gives the result *)
Example ex_fuel : eval 1 ex_prog = OutOfFuel.
Proof. vm_compute. reflexivity. Qed.
