(* MiniAldor: typed abstract grammar of the defined Aldor subset (DESIGN section 3, L3).
   Definitions only.  Written from the Aldor User Guide (/repo/aldor/aldorug); every
   construct names the guide section that defines it.

   Naming conventions of the concrete syntax (Print.v):
     k-th global declaration (constant or variable)  ->  g<k>
     function name n         ->  f<n>        (several definitions may share a name: overloading)
     frame slot k            ->  p<k> (parameter) / l<k> (local, loop variable)           *)
Require Import List ZArith String.
Import ListNotations.

(* Types.  MachineInteger: 64-bit two's complement (lib sal_mint.as, Machine SInt);
   Integer: unbounded (sal_int.as, BInt).                                            *)
(* element types of lists *)
Inductive bty : Type := BMI | BInt | BBool | BStr.

(* The parametrised domains of the header (Print.dom_decls), both of category BoxCat(T):
     BoxA(T): bump adds 1;            twice and scale come from the category defaults
     BoxB(T): bump doubles;           scale is overridden, twice comes from the default
   (langtype.tex:1488-1528: a default body reaches the other exports through %, "late
   binding"; a definition in the domain over-rides the default).                        *)
Inductive dom : Type := DA | DB.

(* Three domains of the category Sized of the header (Print.sized_decls): a constant export
   `limit` with a default VALUE and a function export `twice` whose default uses limit.
     SzA overrides the constant (50); SzB overrides nothing; SzC overrides the function.
   A use inside a default is looked up in % (langtype.tex:1524-1528), so twice()$SzA must see
   SzA's own limit.                                                                       *)
Inductive sdom : Type := SzA | SzB | SzC.

(* numeric domain selector for the overloaded arithmetic of IntegerType *)
Inductive nty : Type := NMI | NInt.

Inductive ty : Type :=
| TMI | TInt | TBool | TStr
| TList (b : bty)                       (* List(T), sal_list.as: immutable use only *)
| TBox (d : dom) (n : nty)              (* BoxA(T) / BoxB(T) for T = MachineInteger / Integer *)
| TArr (b : bty)                        (* Array(T), sal_array.as: 0-based, updatable; used without aliasing *)
| TUni (fs : list bty)                  (* Union(f0: T0, f1: T1, ..) (langtdef.tex:486-544); never updated *)
| TFun (ps : list bty) (r : bty)        (* (T0, .., Tn) -> R : function values over the base types *)
| TBad                                  (* the type of no expression (junk values only, see Eval.type_of) *)
| TRec (fs : list bty).                 (* Record(f0: T0, f1: T1, ..) with fields of base types
                                           (langtdef.tex:237-346); used without aliasing, see Types.v *)


Definition dom_eqb (a b : dom) : bool := match a, b with DA, DA | DB, DB => true | _, _ => false end.
Definition nty_eqb (a b : nty) : bool := match a, b with NMI, NMI | NInt, NInt => true | _, _ => false end.

Definition bty_eqb (a b : bty) : bool :=
  match a, b with
  | BMI, BMI | BInt, BInt | BBool, BBool | BStr, BStr => true
  | _, _ => false
  end.

Fixpoint btys_eqb (a b : list bty) : bool :=
  match a, b with
  | [], [] => true
  | x :: a', y :: b' => (bty_eqb x y && btys_eqb a' b')%bool
  | _, _ => false
  end.

Definition ty_eqb (a b : ty) : bool :=
  match a, b with
  | TMI, TMI | TInt, TInt | TBool, TBool | TStr, TStr => true
  | TList x, TList y => bty_eqb x y
  | TBox d n, TBox d' n' => (dom_eqb d d' && nty_eqb n n')%bool
  | TArr x, TArr y => bty_eqb x y
  | TUni x, TUni y => btys_eqb x y
  | TFun x r, TFun y r' => (btys_eqb x y && bty_eqb r r')%bool
  | TBad, TBad => true
  | TRec x, TRec y => btys_eqb x y
  | _, _ => false
  end.

Definition ty_of_bty (b : bty) : ty :=
  match b with BMI => TMI | BInt => TInt | BBool => TBool | BStr => TStr end.

Definition bty_of_ty (t : ty) : option bty :=
  match t with TMI => Some BMI | TInt => Some BInt | TBool => Some BBool | TStr => Some BStr | _ => None end.

Definition ty_of_nty (n : nty) : ty := match n with NMI => TMI | NInt => TInt end.

(* Literals are always written qualified (`5@MachineInteger`): an unqualified integer
   literal is overloaded (langexpr.tex:106-122: `integer: Literal -> %`) and ambiguous
   as soon as both domains are imported.  Integer literals are non-negative
   (langexpr.tex:193-215: no negative literal; `-` is an operation).                 *)
Inductive lit : Type :=
| LNum (n : nty) (z : Z)
| LBool (b : bool)
| LStr (s : string).

(* Library operations of the subset, each with ONE signature (prim_sig in Types.v).   *)
Inductive prim : Type :=
| PAdd (n : nty) | PSub (n : nty) | PMul (n : nty) | PNeg (n : nty)
| PQuo (n : nty) | PRem (n : nty) | PMod (n : nty)
| PAbs (n : nty) | PMin (n : nty) | PMax (n : nty)
| PEq (n : nty) | PNe (n : nty) | PLt (n : nty) | PLe (n : nty) | PGt (n : nty) | PGe (n : nty)
| PToInt            (* x::Integer  on a MachineInteger  *)
| PToMI             (* machine x   on an Integer (guarded: value in range) *)
| PNot | PBAnd | PBOr | PBEq | PBNe   (* ~ /\ \/ = ~=  on Boolean (strict) *)
| PCat | PLen | PSEq | PSNe            (* + # = ~= on String *)
(* List(T) (sal_list.as): cons, first, rest, #, empty?, reverse (a copy), =, ~=, l.i (1-based) *)
| PLCons (b : bty) | PLFirst (b : bty) | PLRest (b : bty) | PLLen (b : bty) | PLEmptyQ (b : bty)
| PLRev (b : bty) | PLEq (b : bty) | PLNe (b : bty) | PLNth (b : bty)
(* exports of BoxCat(T) *)
| PBox (d : dom) (n : nty) | PUnbox (d : dom) (n : nty) | PBump (d : dom) (n : nty)
| PTwice (d : dom) (n : nty) | PScale (d : dom) (n : nty)
(* Array(T) (sal_array.as): new(n, x), #, a.i (0-based; unchecked in the shipped library) *)
| PANew (b : bty) | PALen (b : bty) | PAGet (b : bty)
(* exports of Sized, selected from a domain: (limit$SzA), (twice()$SzA) *)
| PSzLimit (d : sdom) | PSzTwice (d : sdom).

(* parametrised macros (langmacs.tex:43-47 `Op Parms ==> Body`), declared in the header:
     DBL(x) ==> ((x) + (x));   SQR(x) ==> ((x) * (x));
   macro expansion copies the argument text, so the argument is evaluated twice           *)
Inductive mac : Type := MDbl (n : nty) | MSqr (n : nty).

Inductive expr : Type :=
| ELit (l : lit)
| EGlob (k : nat)                       (* global constant or variable g<k> *)
| ELoc (k : nat)                        (* frame slot: parameter, local, loop variable *)
| EPrim (p : prim) (args : list expr)
| ECall (name : nat) (args : list expr) (* resolved among all definitions of f<name> by argument types *)
| EIf (c a b : expr)                    (* langexpr.tex:780-792 *)
| EAnd (a b : expr) | EOr (a b : expr)  (* short-circuit `and` / `or`, langexpr.tex:918-979 *)
| ESeq (ss : list stmt) (e : expr)      (* { s1; ...; sn; e }  langexpr.tex:559-566 *)
| EMac (m : mac) (e : expr)             (* DBL(e) / SQR(e) *)
| EListLit (b : bty) (es : list expr)   (* ([e1, .., en]@List(T));  (empty@List(T)) when n = 0 *)
| EArrLit (b : bty) (es : list expr)    (* ([e0, .., en]@Array(T)) : a fresh array *)
| ERec (fs : list bty) (es : list expr) (* ([e0, .., en]@Record(f0: T0, ..)) : a fresh record (langtdef.tex:339) *)
| EField (i : nat) (e : expr)           (* (e.f<i>)  (langtdef.tex:289-292: apply) *)
| EUni (fs : list bty) (i : nat) (e : expr)  (* ([f<i> == e]@Union(f0: T0, ..))  (langtdef.tex:520-544) *)
| ECase (i : nat) (e : expr)            (* (e case f<i>) : "tests whether the union value is in the given branch" *)
| EClo (name : nat) (ps : list bty) (r : bty) (caps : list expr)
      (* ((a0: T0, ..): R +-> f<name>(caps.., a0, ..)) : a function expression (langfuns.tex:458-475)
         capturing the values of the immutable names / literals [caps]; R is f's result type *)
| EApp (fn : expr) (args : list expr)   (* (fn)(args) : application of a function value (langfuns.tex:588-598) *)
| EUGet (i : nat) (e : expr)            (* (e.f<i>) on a union: "extracts the value"; not defined on another branch *)
with stmt : Type :=
| SAssG (k : nat) (e : expr)            (* g<k> := e *)
| SAssL (k : nat) (e : expr)            (* l<k> := e *)
| SSetG (k i : nat) (e : expr)          (* g<k>.f<i> := e  (langtdef.tex:289-292: set!) *)
| SSetL (k i : nat) (e : expr)          (* l<k>.f<i> := e *)
| SSetIG (k : nat) (i e : expr)         (* g<k>.(i) := e   (Array set!) *)
| SSetIL (k : nat) (i e : expr)         (* l<k>.(i) := e *)
| SPrint (es : list expr)               (* stdout << e1 << ... << en << newline *)
| SIf (c : expr) (a b : list stmt)      (* if c then { a } else { b } (non-value context, langexpr.tex:794-798) *)
| SWhile (c : expr) (body : list stmt)  (* langloop.tex:66-72 *)
| SFor (lo hi : expr) (body : list stmt)(* for l<depth>: MachineInteger in lo..hi repeat { body } *)
| SForIn (b : bty) (l : expr) (body : list stmt)  (* for l<depth>: T in l repeat { body } (generator of List) *)
| SBreak | SIterate                     (* langloop.tex:419,464 *)
| SReturn (e : expr)                    (* langfuns.tex:144 *)
| SExit (c : expr) (s : stmt)           (* c => s : leaves the enclosing braces after s (langexpr.tex:620-637) *)
| SExitV (c : expr) (e : expr)          (* c => e : the enclosing value sequence yields e *)
| SCall (name : nat) (args : list expr) (* call for effect, value dropped *)
| SError (e : expr)                     (* error e : String -> Exit, "terminates the program" (langtdef.tex:685-689) *)
| SNever                                (* never (langexpr.tex:1176-1196) *)
| SThrow (k : nat)                      (* throw Ex<k>  (langtry.tex:73-82) *)
| STry (body : list stmt) (hs : list (nat * list stmt))
      (* try { body } catch E in { E has Ex<k>Type => { h }; ..; true => throw E; never }
         (langtry.tex:94-142) *).

(* user exception kinds Ex0 .. Ex<n_exn - 1>, declared in the header when used:
   define Ex<k>Type: Category == with;  Ex<k>: Ex<k>Type == add;  (langtry.tex:265-266) *)
Definition n_exn : nat := 3.

Record fundef : Type := mkFun {
  fd_name : nat;
  fd_params : list ty;
  fd_ret : ty;
  fd_locals : list (ty * expr);         (* l<k>: T := init, in order, at the start of the body *)
  fd_body : list stmt;
  fd_result : expr;                     (* last expression of the body sequence *)
  fd_pure : bool;                       (* claimed side-effect free (checked by Types.v; not printed) *)
  fd_nglob : nat                        (* number of global declarations that precede the definition (checked; not printed) *)
}.

(* Top-level forms, in file order ("the top level of a file is treated as a sequence",
   langexpr.tex:1156).  The k-th IConst/IVar form declares global k (printed g<k>).   *)
Inductive item : Type :=
| IConst (t : ty) (e : expr)    (* g<k>: T == e *)
| IVar (t : ty) (e : expr)      (* g<k>: T := e *)
| IFun (fd : fundef)
| IStmt (s : stmt).

Definition prog := list item.
