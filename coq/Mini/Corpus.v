(* MiniAldor: fixed programs (minimised past disagreements), kept as abstract programs so
   that their expected output comes from the reference evaluator.  Definitions only.
   Each entry: name, literal style (true = `5@MachineInteger`), program.               *)
Require Import List ZArith String Bool.
Require Import AV.Mini.Syntax AV.Mini.Print.
Import ListNotations.
Local Open Scope string_scope.

Definition mi (z : Z) : expr := ELit (LNum NMI z).
Definition fn (name : nat) (ps : list ty) (ret : ty) (body : list stmt) (res : expr) : fundef :=
  mkFun name ps ret [] body res true 0.

Definition sq : style := mkStyle true false.   (* qualified literals *)
Definition sh : style := mkStyle false true.   (* helper literals, type macros *)
Definition sqm : style := mkStyle true true.   (* qualified literals, type macros *)

Definition corpus : list (string * (style * prog)) :=
  [ (* a qualified literal inside a `while` inside a top-level `if` whose condition holds a
       qualified literal: rejected by the pinned compiler ("No meaning for integer-style
       literal `2'"), accepted inside a function *)
    ("qualified-literal-toplevel-if-while",
     (sq, [IVar TMI (mi 3);
             IStmt (SIf (EPrim (PEq NMI) [EGlob 0; mi 3])
                        [SWhile (EPrim (PGt NMI) [EGlob 0; mi 0])
                                [SAssG 0 (EPrim (PSub NMI) [EGlob 0; mi 2])]] []);
             IStmt (SPrint [EGlob 0])]));
    (* the mirror image: `if` with a qualified literal inside a top-level `while` *)
    ("qualified-literal-toplevel-while-if",
     (sq, [IVar TMI (mi 2);
             IStmt (SWhile (EPrim (PGt NMI) [EGlob 0; mi 0])
                           [SAssG 0 (EPrim (PSub NMI) [EGlob 0; mi 1]);
                            SIf (EPrim (PEq NMI) [EGlob 0; mi 5]) [SPrint [mi 7]] []]);
             IStmt (SPrint [EGlob 0])]));
    (* top-level short-circuit `or` whose skipped operand is the first use of an imported
       constant: the next use of that constant crashes (segmentation violation) *)
    ("toplevel-shortcircuit-skipped-first-use",
     (sq, [IVar TBool (EOr (ELit (LBool true)) (ELit (LBool false)));
             IStmt (SPrint [ELit (LBool false)])]));
    (* `return` inside a sequence used as the condition of an `if` inside a function:
       rejected with "The `return' is not inside a function" *)
    ("return-in-condition-sequence",
     (sq, [IFun (fn 1 [TBool; TMI] TMI []
                      (EIf (ESeq [SIf (ELoc 0) [SReturn (ELoc 1)] []] (ELit (LBool true)))
                           (EPrim (PAdd NMI) [ELoc 1; ELoc 1]) (ELoc 1)));
             IStmt (SPrint [ECall 1 [ELit (LBool true); mi 3]])]));
    (* a `try` below a top-level `if` whose condition calls a file-level function: "Cannot
       determine the meaning of this expression because the type of one of its subexpressions
       cannot yet be completely analyzed" *)
    ("try-under-toplevel-if",
     (sh, [IStmt (SIf (EPrim (PGt NInt) [ELit (LNum NInt 0); ELit (LNum NInt 0)])
                         [STry [SPrint [ELit (LStr "t")]] [(0, [])]] []);
              IStmt (SPrint [ELit (LStr "end")])]));
    (* an `if` expression as an element of a list bracket crashes at run time *)
    ("if-inside-list-bracket",
     (sq, [IFun (mkFun 1 [TBool] (TList BMI) [] [] (EListLit BMI [EIf (ELoc 0) (mi 5) (mi 7)]) true 0);
           IStmt (SPrint [ECall 1 [ELit (LBool false)]])]));
    (* `empty?` of a List(String) inside a top-level `if` whose else branch indexes with
       `# (empty@List(MachineInteger))`: "did not match any possible parameter type ... could be
       suitable if imported" although List(String) is imported *)
    ("list-import-lost-in-toplevel-if",
     (sq, [IVar TStr (EIf (EPrim (PLEmptyQ BStr) [EListLit BStr []]) (ELit (LStr "e"))
                          (EPrim (PLNth BStr) [EListLit BStr []; EPrim (PLLen BMI) [EListLit BMI []]]));
           IStmt (SPrint [EGlob 0])]));
    (* `iterate` out of a `try` body: the C back end emits a goto to a label of another C
       function ("label used but not defined"), the interpreter crashes *)
    ("iterate-out-of-try",
     (sq, [IStmt (SFor (mi 0) (mi 1) [STry [SPrint [ELoc 0]; SIterate] [(0, [])]; SPrint [ELit (LStr "not reached")]]);
           IStmt (SPrint [ELit (LStr "end")])]));
    (* inside a function: an exit whose condition is an `if` expression holding a short-circuit
       `or`; the constant first used in the skipped operand is left uninitialised and its next
       use (the exit value) crashes *)
    ("exit-condition-shortcircuit-skipped-first-use",
     (sq, [IFun (mkFun 1 [TBool; TBool] TBool []
                       [SExitV (EIf (ELoc 1) (EOr (ELoc 0) (ELit (LBool false))) (ELoc 0)) (ELit (LBool false));
                        SPrint [ELit (LStr "x")]]
                       (ELit (LBool false)) false 0);
           IStmt (SPrint [ECall 1 [ELit (LBool true); ELit (LBool true)]]);
           IStmt (SPrint [ELit (LStr "end")])]));
    (* the compiler itself crashes (segmentation violation while compiling) when the left operand
       of `and` is an `if` expression whose branch is a short-circuit expression *)
    ("and-of-if-with-shortcircuit-branch",
     (sq, [IFun (mkFun 1 [TBool; TBool] TBool [] []
                       (EAnd (EIf (ELoc 0) (EAnd (ELoc 0) (ELoc 1)) (ELoc 0)) (ELoc 1)) true 0);
           IStmt (SPrint [ECall 1 [ELit (LBool true); ELit (LBool true)]])]));
    (* a file-level `try` together with a function whose own `try` catches an exception: the
       run time crashes (both routes); with every `try` inside functions, or every `try` at
       file level, the same control flow works *)
    ("catch-in-callee-then-throw-to-caller",
     (sq, [IFun (mkFun 1 [] TBool []
                       [STry [SThrow 1] [(1, [SPrint [ELit (LStr "inner")]])]]
                       (ELit (LBool true)) false 0);
           IStmt (STry [SPrint [ECall 1 []]; SThrow 0] [(0, [SPrint [ELit (LStr "caught")]])]);
           IStmt (SPrint [ELit (LStr "end")])]));
    (* same family as qualified-literal-toplevel-while-if, without any qualified literal: a
       type-qualified constructor `[f1 == 2]@Union(..)` under `case` inside an `if` inside a
       top-level `while`: "There are no suitable meanings for the operator `case' ... could be
       suitable if imported" although the Union type is imported *)
    ("union-case-in-if-in-toplevel-while",
     (sh, [IVar TMI (mi 1);
           IStmt (SWhile (EPrim (PGt NMI) [EGlob 0; mi 0])
                         [SAssG 0 (EPrim (PSub NMI) [EGlob 0; mi 1]);
                          SPrint [EIf (ECase 1 (EUni [BStr; BMI] 1 (mi 2))) (EUGet 1 (EUni [BStr; BMI] 1 (mi 2))) (mi 5)]]);
           IStmt (SPrint [EGlob 0])]));
    (* C back end only: a function with one function expression that captures a parameter and
       another that captures nothing gets C code that uses an undeclared environment variable
       ("'e0' undeclared" -> "C compile failed"); -ginterp runs the same program *)
    ("two-lambdas-one-capturing-c-backend",
     (sqm, [IFun (mkFun 2 [TMI; TBool; TMI] TBool [] [] (ELit (LBool false)) true 0);
            IVar TMI (mi 0); IVar TMI (mi 0);
            IFun (mkFun 5 [TFun [BMI] BBool; TStr; TRec [BInt; BMI]] TMI [(TMI, mi 0)] [] (mi 0) true 2);
            IConst (TRec [BMI; BBool]) (ERec [BMI; BBool] [mi 0; ELit (LBool false)]);
            IFun (mkFun 7 [TRec [BMI; BBool]; TBool; TFun [] BInt] (TRec [BMI; BBool])
                        [(TFun [BMI] BBool, EClo 2 [BMI] BBool [mi 0; ELoc 1]);
                         (TMI, ECall 5 [EClo 2 [BMI] BBool [mi 0; ELit (LBool false)]; ELit (LStr "");
                                        ERec [BInt; BMI] [ELit (LNum NInt 0); mi 0]])]
                        [] (ERec [BMI; BBool] [mi 0; ELit (LBool false)]) false 3);
            IStmt (SPrint [ELit (LStr "end")])]));
    (* interpreter only: "Compiler bug ... fintStmt: RElt unimplemented" (abort) for the field of a
       record returned by a call whose argument is a function expression, at file level after several
       declarations, when the variable so initialised is never read (the field access is left as
       a bare statement); the C route runs.  Kept exactly as shrunk (smaller variants run). *)
    ("relt-unimplemented-in-interpreter",
     (sqm, [IFun (mkFun 1 [TMI; TMI] TMI [(TMI, mi 0); (TMI, mi 0); (TMI, mi 0)] [] (mi 0) true 0);
            IVar TMI (mi 0); IVar TMI (mi 0); IVar TBool (ELit (LBool false));
            IVar (TRec [BStr; BMI]) (ERec [BStr; BMI] [ELit (LStr ""); mi 0]);
            IVar (TArr BStr) (EArrLit BStr [ELit (LStr "")]);
            IVar TBool (ELit (LBool true)); IVar TMI (mi 0);
            IConst (TArr BStr) (EArrLit BStr [ELit (LStr ""); ELit (LStr "")]);
            IFun (mkFun 8 [TFun [BMI] BMI] (TRec [BMI; BMI; BMI]) [(TMI, mi 0); (TMI, mi 0)] []
                        (ERec [BMI; BMI; BMI] [mi 0; mi 0; mi 0]) true 8);
            IVar TMI (EField 2 (ECall 8 [EClo 1 [BMI] BMI [mi 0]]))]));
    (* sanity entries that must agree *)
    ("iterate-in-for",
     (sq, [IVar TMI (mi 0);
             IStmt (SFor (mi 1) (mi 10)
                         [SExit (EPrim (PEq NMI) [ELoc 0; mi 3]) SIterate;
                          SExit (EPrim (PGt NMI) [ELoc 0; mi 7]) SBreak;
                          SAssG 0 (EPrim (PAdd NMI) [EGlob 0; ELoc 0])]);
             IStmt (SPrint [EGlob 0])]));
    ("mod-signs",
     (sh, [IStmt (SPrint [EPrim (PMod NMI) [EPrim (PNeg NMI) [mi 7]; mi 3]; ELit (LStr " ");
                             EPrim (PMod NMI) [mi 7; EPrim (PNeg NMI) [mi 3]]; ELit (LStr " ");
                             EPrim (PRem NMI) [EPrim (PNeg NMI) [mi 7]; mi 3]; ELit (LStr " ");
                             EPrim (PQuo NMI) [EPrim (PNeg NMI) [mi 7]; mi 3]]);
              IStmt (SPrint [EPrim (PMod NInt) [EPrim (PNeg NInt) [ELit (LNum NInt 7)]; ELit (LNum NInt 3)]; ELit (LStr " ");
                             EPrim (PMod NInt) [ELit (LNum NInt 7); EPrim (PNeg NInt) [ELit (LNum NInt 3)]]])]));
    ("error-ending",
     (sq, [IFun (mkFun 1 [TMI] TMI [] [SIf (EPrim (PGt NMI) [ELoc 0; mi 2]) [SError (ELit (LStr "too big"))] []]
                         (EPrim (PAdd NMI) [ELoc 0; mi 1]) false 0);
             IStmt (SPrint [ECall 1 [mi 1]]);
             IStmt (SPrint [ELit (LStr "before")]);
             IStmt (SPrint [ECall 1 [mi 5]]);
             IStmt (SPrint [ELit (LStr "after")])]));
    ("try-catch",
     (sh, [IVar TMI (mi 0);
              IFun (mkFun 1 [TMI] TMI []
                          [SIf (EPrim (PEq NMI) [ELoc 0; mi 1]) [SThrow 0] [];
                           SIf (EPrim (PEq NMI) [ELoc 0; mi 2]) [SThrow 1] [];
                           SIf (EPrim (PEq NMI) [ELoc 0; mi 3]) [SError (ELit (LStr "boom"))] []]
                          (EPrim (PMul NMI) [ELoc 0; mi 10]) false 1);
              IStmt (SFor (mi 0) (mi 2)
                      [STry [SAssG 0 (EPrim (PAdd NMI) [EGlob 0; mi 1]);
                             SPrint [ECall 1 [ELoc 0]];
                             SPrint [ELit (LStr "not reached after a throw")]]
                            [(0, [SPrint [ELit (LStr "caught Ex0 "); EGlob 0]]);
                             (1, [SPrint [ELit (LStr "caught Ex1 "); EGlob 0]; SBreak])];
                       SPrint [ELit (LStr "next")]]);
              IStmt (STry [STry [SThrow 2] [(0, [SPrint [ELit (LStr "inner wrong")]])]]
                          [(2, [SPrint [ELit (LStr "outer caught Ex2")]])]);
              IStmt (STry [SCall 1 [mi 3]] [(0, [SPrint [ELit (LStr "wrong")]])]);
              IStmt (SPrint [ELit (LStr "unreachable")])]));
    ("never-ending",
     (sq, [IStmt (SPrint [ELit (LStr "a")]);
             IStmt (SIf (EPrim (PGt NMI) [mi 1; mi 0]) [SNever] []);
             IStmt (SPrint [ELit (LStr "b")])]));
    ("macro-twice",
     (sh, [IVar TMI (mi 5);
           IStmt (SPrint [EMac (MDbl NMI) (EGlob 0); ELit (LStr " ");
                          EMac (MSqr NMI) (EMac (MDbl NMI) (EPrim (PAdd NMI) [EGlob 0; mi 1]))])]));
    ("lists",
     (sq, [IVar (TList BMI) (EListLit BMI [mi 3; mi 4; mi 5]);
           IVar (TList BStr) (EListLit BStr [ELit (LStr "a"); ELit (LStr "b_""c")]);
           IVar (TList BMI) (EListLit BMI []);
           IVar (TList BBool) (EPrim (PLCons BBool) [ELit (LBool true); EListLit BBool [ELit (LBool false)]]);
           IVar (TList BInt) (EPrim (PLRev BInt) [EPrim (PLCons BInt) [ELit (LNum NInt 10);
                                  EListLit BInt [ELit (LNum NInt 20); ELit (LNum NInt 30)]]]);
           IStmt (SPrint [EGlob 0; ELit (LStr " "); EGlob 1; ELit (LStr " "); EGlob 2; ELit (LStr " "); EGlob 3;
                          ELit (LStr " "); EGlob 4]);
           IStmt (SPrint [EPrim (PLFirst BMI) [EGlob 0]; ELit (LStr " "); EPrim (PLRest BMI) [EGlob 0]; ELit (LStr " ");
                          EPrim (PLLen BMI) [EGlob 0]; ELit (LStr " "); EPrim (PLEmptyQ BMI) [EGlob 2]; ELit (LStr " ");
                          EPrim (PLEq BMI) [EGlob 0; EGlob 2]; ELit (LStr " "); EPrim (PLNe BMI) [EGlob 0; EGlob 2];
                          ELit (LStr " "); EPrim (PLNth BMI) [EGlob 0; mi 2]]);
           IStmt (SForIn BMI (EGlob 0) [SExit (EPrim (PEq NMI) [ELoc 0; mi 4]) SIterate; SPrint [ELoc 0]]);
           IStmt (SForIn BStr (EGlob 1) [SPrint [ELoc 0]; SBreak])]));
    ("domain-defaults",
     (sq, [IVar (TBox DA NMI) (EPrim (PBox DA NMI) [mi 5]);
           IVar (TBox DB NInt) (EPrim (PBox DB NInt) [ELit (LNum NInt 7)]);
           IVar (TBox DB NMI) (EPrim (PBox DB NMI) [mi 9223372036854775807]);
           IStmt (SPrint [EPrim (PUnbox DA NMI) [EPrim (PBump DA NMI) [EGlob 0]]; ELit (LStr " ");
                          EPrim (PUnbox DA NMI) [EPrim (PTwice DA NMI) [EGlob 0]]; ELit (LStr " ");
                          EPrim (PUnbox DA NMI) [EPrim (PScale DA NMI) [EGlob 0; mi 3]]]);
           IStmt (SPrint [EPrim (PUnbox DB NInt) [EPrim (PBump DB NInt) [EGlob 1]]; ELit (LStr " ");
                          EPrim (PUnbox DB NInt) [EPrim (PTwice DB NInt) [EGlob 1]]; ELit (LStr " ");
                          EPrim (PUnbox DB NInt) [EPrim (PScale DB NInt) [EGlob 1; ELit (LNum NInt 3)]]]);
           IStmt (SPrint [EPrim (PUnbox DB NMI) [EPrim (PBump DB NMI) [EGlob 2]]; ELit (LStr " ");
                          EPrim (PUnbox DB NMI) [EPrim (PTwice DB NMI) [EGlob 2]]; ELit (LStr " ");
                          EPrim (PUnbox DB NMI) [EPrim (PScale DB NMI) [EGlob 2; mi 2]]])]));
    ("records",
     (sq, [IVar (TRec [BMI; BStr]) (ERec [BMI; BStr] [mi 3; ELit (LStr "a")]);
           IConst (TRec [BInt; BBool; BMI]) (ERec [BInt; BBool; BMI] [ELit (LNum NInt 7); ELit (LBool true); mi 9]);
           IFun (mkFun 1 [TRec [BMI; BStr]; TMI] (TRec [BMI; BStr])
                       [(TRec [BMI; BStr], ERec [BMI; BStr] [EPrim (PAdd NMI) [EField 0 (ELoc 0); ELoc 1];
                                                             EPrim PCat [EField 1 (ELoc 0); ELit (LStr "x")]])]
                       [SSetL 2 0 (EPrim (PMul NMI) [EField 0 (ELoc 2); mi 2])]
                       (ERec [BMI; BStr] [EField 0 (ELoc 2); EField 1 (ELoc 2)]) true 2);
           IStmt (SPrint [EField 0 (EGlob 0); ELit (LStr " "); EField 1 (EGlob 0); ELit (LStr " "); EField 0 (EGlob 1);
                          ELit (LStr " "); EField 1 (EGlob 1); ELit (LStr " "); EField 2 (EGlob 1)]);
           IStmt (SSetG 0 0 (mi 5));
           IStmt (SSetG 0 1 (EPrim PCat [EField 1 (EGlob 0); ELit (LStr "b")]));
           IStmt (SPrint [EField 0 (EGlob 0); ELit (LStr " "); EField 1 (EGlob 0)]);
           IStmt (SAssG 0 (ECall 1 [ERec [BMI; BStr] [EField 0 (EGlob 0); EField 1 (EGlob 0)]; mi 10]));
           IStmt (SPrint [EField 0 (EGlob 0); ELit (LStr " "); EField 1 (EGlob 0); ELit (LStr " ");
                          EField 2 (EIf (ELit (LBool true)) (EGlob 1) (EGlob 1))]);
           IStmt (SFor (mi 1) (mi 2) [SSetG 0 0 (EPrim (PAdd NMI) [EField 0 (EGlob 0); ELoc 0])]);
           IStmt (SPrint [EField 0 (EGlob 0)])]));
    ("arrays",
     (sq, [IVar (TArr BMI) (EArrLit BMI [mi 3; mi 4; mi 5]);
           IVar (TArr BStr) (EPrim (PANew BStr) [mi 2; ELit (LStr "ab")]);
           IConst (TArr BBool) (EArrLit BBool [ELit (LBool true)]);
           IStmt (SPrint [EGlob 0; ELit (LStr " "); EGlob 1; ELit (LStr " "); EGlob 2; ELit (LStr " ");
                          EPrim (PALen BMI) [EGlob 0]; ELit (LStr " "); EPrim (PAGet BMI) [EGlob 0; mi 1]]);
           IStmt (SSetIG 0 (EPrim (PMod NMI) [mi 7; EPrim (PALen BMI) [EGlob 0]]) (mi 9));
           IStmt (SSetIG 1 (mi 0) (EPrim PCat [EPrim (PAGet BStr) [EGlob 1; mi 1]; ELit (LStr "c")]));
           IStmt (SPrint [EGlob 0; ELit (LStr " "); EGlob 1]);
           IFun (mkFun 1 [TArr BMI] (TArr BMI)
                       [(TArr BMI, EPrim (PANew BMI) [EPrim (PALen BMI) [ELoc 0]; mi 0])]
                       [SFor (mi 0) (EPrim (PSub NMI) [EPrim (PALen BMI) [ELoc 0]; mi 1])
                             [SSetIL 1 (ELoc 2) (EPrim (PMul NMI) [EPrim (PAGet BMI) [ELoc 0; ELoc 2]; mi 2])];
                        SSetIL 1 (mi 0) (mi 1)]
                       (EArrLit BMI [EPrim (PAGet BMI) [ELoc 1; mi 0]; EPrim (PAGet BMI) [ELoc 1; mi 1]]) true 3);
           IStmt (SPrint [ECall 1 [EArrLit BMI [mi 1; mi 2]]]);
           IStmt (SForIn BMI (EGlob 0) [SPrint [ELoc 0]])]));
    ("unions",
     (sq, [IVar (TUni [BMI; BStr]) (EUni [BMI; BStr] 0 (mi 3));
           IVar (TUni [BMI; BStr]) (EUni [BMI; BStr] 1 (ELit (LStr "ab")));
           IStmt (SPrint [ECase 0 (EGlob 0); ELit (LStr " "); ECase 1 (EGlob 0); ELit (LStr " "); ECase 1 (EGlob 1)]);
           IStmt (SPrint [EUGet 0 (EGlob 0); ELit (LStr " "); EUGet 1 (EGlob 1)]);
           IFun (mkFun 1 [TUni [BMI; BStr]] TMI []
                       [SExitV (ECase 0 (ELoc 0)) (EPrim (PAdd NMI) [EUGet 0 (ELoc 0); mi 1])]
                       (EPrim PLen [EUGet 1 (ELoc 0)]) true 2);
           IStmt (SPrint [ECall 1 [EGlob 0]; ELit (LStr " "); ECall 1 [EGlob 1]]);
           IStmt (SAssG 0 (EUni [BMI; BStr] 1 (ELit (LStr "zz"))));
           IStmt (SPrint [ECall 1 [EGlob 0]; ELit (LStr " ");
                          EIf (ECase 1 (EGlob 0)) (EUGet 1 (EGlob 0)) (ELit (LStr "no"))])]));
    ("closures",
     (sq, [IFun (mkFun 1 [TMI; TStr; TMI] TMI [] [SPrint [ELoc 1]]
                       (EPrim (PAdd NMI) [EPrim (PMul NMI) [ELoc 0; mi 10]; ELoc 2]) false 0);
           IVar TMI (mi 4);
           IVar (TFun [BMI] BMI) (EClo 1 [BMI] BMI [mi 2; ELit (LStr "x")]);
           IFun (mkFun 2 [TFun [BMI] BMI; TMI] TMI [] []
                       (EApp (ELoc 0) [EPrim (PAdd NMI) [ELoc 1; mi 1]]) false 2);
           IFun (mkFun 3 [TMI] (TFun [BMI] BMI) [(TStr, ELit (LStr "cap"))] []
                       (EClo 1 [BMI] BMI [ELoc 0; ELit (LStr "cap")]) true 2);
           IStmt (SPrint [EApp (EGlob 1) [mi 7]]);
           IStmt (SPrint [ECall 2 [EGlob 1; EGlob 0]]);
           IStmt (SPrint [EApp (ECall 3 [mi 5]) [mi 1]]);
           IStmt (SAssG 1 (ECall 3 [mi 4]));
           IStmt (SPrint [ECall 2 [EGlob 1; mi 0]])]));
    ("category-default-constant",
     (sq, [IStmt (SPrint [EPrim (PSzLimit SzA) []; ELit (LStr " "); EPrim (PSzTwice SzA) []; ELit (LStr " ");
                          EPrim (PSzLimit SzB) []; ELit (LStr " "); EPrim (PSzTwice SzB) []; ELit (LStr " ");
                          EPrim (PSzLimit SzC) []; ELit (LStr " "); EPrim (PSzTwice SzC) []]);
           IFun (mkFun 1 [TMI] TMI [] [] (EPrim (PSub NMI) [EPrim (PAdd NMI) [ELoc 0; EPrim (PSzTwice SzA) []];
                                                            EPrim (PSzLimit SzC) []]) true 0);
           IStmt (SPrint [ECall 1 [mi 1]])]));
    ("string-escapes",
     (sq, [IStmt (SPrint [ELit (LStr "a_b""c__d"); EPrim PLen [ELit (LStr "_""")]])]))
  ].

Fixpoint corpus_find (name : string) (l : list (string * (style * prog))) : option (style * prog) :=
  match l with
  | [] => None
  | (n, x) :: r => if String.eqb n name then Some x else corpus_find name r
  end.
