(* MiniAldor: entry points of the command-line tool (tools/MINI_TOOL.md).  Definitions only.
   Every number crosses the OCaml boundary as a decimal string built / parsed here, so the
   driver does no arithmetic.                                                             *)
Require Import List ZArith String Bool Arith Ascii.
Require Import AV.Mini.Syntax AV.Mini.Types AV.Mini.Eval AV.Mini.Print AV.Mini.Gen AV.Mini.Feat AV.Mini.Shrink AV.Mini.Corpus AV.Mini.Mut AV.Mini.Session.
Import ListNotations.
Local Open Scope string_scope.

Fixpoint parse_dec (acc : Z) (s : string) : Z :=
  match s with
  | EmptyString => acc
  | String c r =>
      let n := Z.of_nat (nat_of_ascii c) in
      if ((48 <=? n) && (n <=? 57))%Z then parse_dec (acc * 10 + (n - 48))%Z r else parse_dec acc r
  end.
Definition Z_of_str (s : string) : Z :=
  match s with
  | String "-" r => (- parse_dec 0 r)%Z
  | _ => parse_dec 0 s
  end.

Record run_out : Type := mkRun {
  ro_result : string;     (* done | fuel | undef | stuck *)
  ro_out : string;
  ro_status : string      (* ok | fail *)
}.

Definition run_prog (p : prog) : run_out :=
  match eval gen_fuel p with
  | Done o StOk => mkRun "done" o "ok"
  | Done o StFail => mkRun "done" o "fail"
  | OutOfFuel => mkRun "fuel" "" "ok"
  | Undef => mkRun "undef" "" "ok"
  | Stuck => mkRun "stuck" "" "ok"
  end.

Record prog_out : Type := mkProgOut {
  po_typed : string;            (* "true" | "false" *)
  po_features : list string;
  po_literals : list string;
  po_nodes : string;
  po_src : string;
  po_run : run_out
}.

Definition describe_prog (q : style) (p : prog) : prog_out :=
  let d := describe p in
  mkProgOut (if typecheck p then "true" else "false")
            (fst (fst d)) (snd (fst d)) (nat_str (snd d)) (render q p) (run_prog p).

(* mini gen <seed> <size> *)
Definition tool_gen (seed size : string) : string * prog_out :=
  let tp := gen_with_tries (Z_of_str seed) (Z.to_nat (Z_of_str size)) in
  (nat_str (fst tp), describe_prog (style_of_seed (Z_of_str seed)) (snd tp)).

(* comma-separated naturals *)
Fixpoint parse_path (cur : option Z) (s : string) : list nat :=
  match s with
  | EmptyString => match cur with Some z => [Z.to_nat z] | None => [] end
  | String c r =>
      let n := Z.of_nat (nat_of_ascii c) in
      if ((48 <=? n) && (n <=? 57))%Z
      then parse_path (Some (match cur with Some z => z * 10 + (n - 48) | None => n - 48 end)%Z) r
      else match cur with Some z => Z.to_nat z :: parse_path None r | None => parse_path None r end
  end.

(* mini shrink <seed> <size> <path> : the program reached from gen seed size by following the
   candidate indices of [path]; None if the path leaves the candidate lists.
   Result: (number of candidates of that program, description)                            *)
Definition tool_shrink (seed size path : string) : option (string * prog_out) :=
  match walk (gen (Z_of_str seed) (Z.to_nat (Z_of_str size))) (parse_path None path) with
  | Some q => Some (nat_str (List.length (cands q)), describe_prog (style_of_seed (Z_of_str seed)) q)
  | None => None
  end.

(* indices of the top-level forms that the checker rejects (diagnosis only) *)
Fixpoint diag_items (G : list (ty * bool)) (F : list fundef) (ng nf k : nat) (p : prog) : list nat :=
  match p with
  | [] => []
  | IConst t e :: r | IVar t e :: r =>
      (if opt_ty_eqb (infer (top_ctx G F ng nf) e) t then [] else [k]) ++ diag_items G F (S ng) nf (S k) r
  | IFun fd :: r =>
      (if (Nat.eqb (fd_nglob fd) ng && check_fun G F nf fd)%bool then [] else [k]) ++ diag_items G F ng (S nf) (S k) r
  | IStmt st :: r =>
      (if (negb (is_exit st) && check_stmt (top_ctx G F ng nf) st)%bool then [] else [k]) ++ diag_items G F ng nf (S k) r
  end.
Definition bad_items (p : prog) : list string :=
  map nat_str (diag_items (globals_of p) (funs_of p) 0 0 0 p).

(* mini raw <seed> <size> : the generator's first candidate, before the acceptance filter
   (diagnosis of the generator: why candidates are rejected)                              *)
Definition tool_raw (seed size : string) : list string * list string * prog_out :=
  let r := rng_of_seed (Z_of_str seed) in
  let p := gen0 (draw_feats r) r (Z.to_nat (Z_of_str size)) in
  (bad_items p, items_src (style_of_seed (Z_of_str seed)) 0 p, describe_prog (style_of_seed (Z_of_str seed)) p).

(* mini corpus : the names;  mini corpus <name> : one fixed program *)
Definition tool_corpus_names : list string := map fst corpus.
Definition tool_corpus (name : string) : option prog_out :=
  match corpus_find name corpus with
  | Some (q, p) => Some (describe_prog q p)
  | None => None
  end.

(* ---------- mutants (C06) and forms (C13) ---------- *)
Fixpoint count_nl (s : string) : nat :=
  match s with
  | EmptyString => 0
  | String c r => if Nat.eqb (nat_of_ascii c) 10 then S (count_nl r) else count_nl r
  end.

(* 1-based first and last line of every form, the header occupying the lines before *)
Fixpoint form_lines (start : nat) (srcs : list string) : list (nat * nat) :=
  match srcs with
  | [] => []
  | x :: r => let n := count_nl x in (S start, start + n)%nat :: form_lines (start + n) r
  end.

Definition prog_form_lines (q : style) (p : prog) : list (nat * nat) :=
  form_lines (count_nl (header_of q p)) (items_src q 0 p).

(* about n elements of l, evenly spread *)
Fixpoint take_every {A : Type} (step i : nat) (l : list A) : list A :=
  match l with
  | [] => []
  | x :: r => if Nat.eqb (i mod step) 0 then x :: take_every step (S i) r else take_every step (S i) r
  end.
Definition spread {A : Type} (n : nat) (l : list A) : list A :=
  let len := List.length l in
  if Nat.leb len n then l else firstn n (take_every (S ((len - 1) / n)) 0 l).

Record mut_out : Type := mkMutOut {
  mo_kind : string; mo_site : string; mo_src : string;
  mo_form : string;            (* index of the form that holds the fault *)
  mo_lo : string; mo_hi : string;   (* its first / last line in mo_src *)
  mo_bad : string              (* source text of that form alone *)
}.

Definition mutant_out (q : style) (p : prog) (k : kind) (site : nat) : mut_out :=
  let m := mutate k p site in
  let fi := fault_form k p site in
  let ln := nth fi (prog_form_lines q m) (0, 0)%nat in
  mkMutOut (kind_name k) (nat_str site) (render q m) (nat_str fi) (nat_str (fst ln)) (nat_str (snd ln))
           (nth fi (items_src q 0 m) "").

(* mini mutants <seed> <size> <max-per-kind> : the base program and, for every fault kind,
   up to max-per-kind eligible single-fault mutants (sites evenly spread); also how many
   candidate / eligible sites there were per kind                                          *)
Definition tool_mutants (seed size maxper : string)
  : prog_out * list (string * (string * string)) * list mut_out :=
  let q := style_of_seed (Z_of_str seed) in
  let p := gen (Z_of_str seed) (Z.to_nat (Z_of_str size)) in
  let n := Z.to_nat (Z_of_str maxper) in
  let per := map (fun k => (k, eligible_sites k p)) all_kinds in
  (describe_prog q p,
   map (fun ks => (kind_name (fst ks),
                   (nat_str (List.length (muts (fst ks) p)), nat_str (List.length (snd ks))))) per,
   flat_map (fun ks => map (mutant_out q p (fst ks)) (spread n (snd ks))) per).

(* mini forms <seed> <size> : the header, then every top-level form with the text it prints.
   When the program ends by an error / unhandled exception the forms after the failing one
   are not executed by the batch run: they are listed with an empty expected output and the
   index of the failing form is given (otherwise the empty string).                        *)
Definition tool_forms (seed size : string) : string * list (string * string) * prog_out :=
  let q := style_of_seed (Z_of_str seed) in
  let p := gen (Z_of_str seed) (Z.to_nat (Z_of_str size)) in
  let outs := match forms_outputs gen_fuel p with Some l => l | None => [] end in
  let n := List.length p in
  let padded := (outs ++ repeat EmptyString (n - List.length outs))%list in
  (header_of q p, combine (items_src q 0 p) padded, describe_prog q p).

Definition tool_forms_failed_at (seed size : string) : string :=
  let p := gen (Z_of_str seed) (Z.to_nat (Z_of_str size)) in
  match forms_outputs gen_fuel p with
  | Some l => if Nat.ltb (List.length l) (List.length p) then nat_str (List.length l - 1) else ""
  | None => ""
  end.
