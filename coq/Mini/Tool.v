(* MiniAldor: entry points of the command-line tool (tools/MINI_TOOL.md).  Definitions only.
   Every number crosses the OCaml boundary as a decimal string built / parsed here, so the
   driver does no arithmetic.                                                             *)
Require Import List ZArith String Bool Arith Ascii.
Require Import AV.Mini.Syntax AV.Mini.Types AV.Mini.Eval AV.Mini.Print AV.Mini.Gen AV.Mini.Feat AV.Mini.Shrink.
Import ListNotations.
Local Open Scope string_scope.

Fixpoint parse_dec (acc : Z) (s : string) : Z :=
  match s with
  | EmptyString => acc
  | String c r =>
      let n := Z.of_nat (nat_of_ascii c) in
      if ((48 <=? n) && (n <=? 57))%Z then parse_dec (acc * 10 + (n - 48))%Z r else parse_dec acc r
  end.
Definition Z_of_str (s : string) : Z :=
  match s with
  | String "-" r => (- parse_dec 0 r)%Z
  | _ => parse_dec 0 s
  end.

Record run_out : Type := mkRun {
  ro_result : string;     (* done | fuel | undef | stuck *)
  ro_out : string;
  ro_status : string      (* ok | fail *)
}.

Definition run_prog (p : prog) : run_out :=
  match eval gen_fuel p with
  | Done o StOk => mkRun "done" o "ok"
  | Done o StFail => mkRun "done" o "fail"
  | OutOfFuel => mkRun "fuel" "" "ok"
  | Undef => mkRun "undef" "" "ok"
  | Stuck => mkRun "stuck" "" "ok"
  end.

Record prog_out : Type := mkProgOut {
  po_typed : string;            (* "true" | "false" *)
  po_features : list string;
  po_literals : list string;
  po_nodes : string;
  po_src : string;
  po_run : run_out
}.

Definition describe_prog (p : prog) : prog_out :=
  let d := describe p in
  mkProgOut (if typecheck p then "true" else "false")
            (fst (fst d)) (snd (fst d)) (nat_str (snd d)) (render p) (run_prog p).

(* mini gen <seed> <size> *)
Definition tool_gen (seed size : string) : string * prog_out :=
  let tp := gen_with_tries (Z_of_str seed) (Z.to_nat (Z_of_str size)) in
  (nat_str (fst tp), describe_prog (snd tp)).

(* comma-separated naturals *)
Fixpoint parse_path (cur : option Z) (s : string) : list nat :=
  match s with
  | EmptyString => match cur with Some z => [Z.to_nat z] | None => [] end
  | String c r =>
      let n := Z.of_nat (nat_of_ascii c) in
      if ((48 <=? n) && (n <=? 57))%Z
      then parse_path (Some (match cur with Some z => z * 10 + (n - 48) | None => n - 48 end)%Z) r
      else match cur with Some z => Z.to_nat z :: parse_path None r | None => parse_path None r end
  end.

(* mini shrink <seed> <size> <path> : the program reached from gen seed size by following the
   candidate indices of [path]; None if the path leaves the candidate lists.
   Result: (number of candidates of that program, description)                            *)
Definition tool_shrink (seed size path : string) : option (string * prog_out) :=
  match walk (gen (Z_of_str seed) (Z.to_nat (Z_of_str size))) (parse_path None path) with
  | Some q => Some (nat_str (List.length (cands q)), describe_prog q)
  | None => None
  end.
